import OrdModel.Proofs.SatRarityClass
/-!
Counting lemmas for the rarity supply table (C29).

* general: `countBelow` is additive over a split of the range, respects pointwise
  inclusion–exclusion, and the number of multiples of `d` below `n` is `⌈n/d⌉ = (n + d - 1) / d`;
* sats: the sats below the supply are counted block by block (`c29` bijection), every block has
  exactly one non-common sat (its first), whose class is that of the height;
* heights: the six classes of heights below 6 930 000 by inclusion–exclusion over the multiples
  of 2016 / 210000 / 1260000.
Nothing here evaluates a count by enumeration.
-/
namespace Ord.SatSpec
open Ord Ord.Epoch

/-- indicator -/
def ind (b : Bool) : Nat := if b then 1 else 0

theorem countBelow_zero (p : Nat → Bool) : countBelow p 0 = 0 := rfl

theorem countBelow_succ (p : Nat → Bool) (n : Nat) :
    countBelow p (n + 1) = countBelow p n + ind (p n) := rfl

theorem countBelow_congr {p q : Nat → Bool} : ∀ {n : Nat}, (∀ i, i < n → p i = q i) →
    countBelow p n = countBelow q n
  | 0, _ => rfl
  | n + 1, h => by
    rw [countBelow_succ, countBelow_succ, countBelow_congr (fun i hi => h i (by omega)), h n (by omega)]

/-- `countBelow` is the length of the filtered range -/
theorem countBelow_eq_filter (p : Nat → Bool) : ∀ n, countBelow p n = ((List.range n).filter p).length
  | 0 => rfl
  | n + 1 => by
    rw [countBelow_succ, countBelow_eq_filter p n, List.range_succ, List.filter_append,
      List.length_append]
    cases h : p n <;> simp [ind, h]

/-- splitting the range at `a` -/
theorem countBelow_add (p : Nat → Bool) (a : Nat) : ∀ n,
    countBelow p (a + n) = countBelow p a + countBelow (fun k => p (a + k)) n
  | 0 => rfl
  | n + 1 => by
    rw [← Nat.add_assoc, countBelow_succ, countBelow_add p a n, countBelow_succ, Nat.add_assoc]

theorem countBelow_false : ∀ n, countBelow (fun _ => false) n = 0
  | 0 => rfl
  | n + 1 => by rw [countBelow_succ, countBelow_false n]; rfl

theorem countBelow_true : ∀ n, countBelow (fun _ => true) n = n
  | 0 => rfl
  | n + 1 => by rw [countBelow_succ, countBelow_true n]; rfl

/- from here on `countBelow` is only used through the lemmas above: no elaboration step may try to
evaluate a count over millions of heights or 2.1 · 10^15 sats -/
attribute [local irreducible] countBelow

/-- pointwise inclusion–exclusion lifts to counts -/
theorem countBelow_incl_excl {p q r t : Nat → Bool} : ∀ {n : Nat},
    (∀ i, i < n → ind (p i) + ind (q i) = ind (r i) + ind (t i)) →
    countBelow p n + countBelow q n = countBelow r n + countBelow t n
  | 0, _ => by simp only [countBelow_zero]
  | n + 1, h => by
    have ih := countBelow_incl_excl (n := n) (fun i hi => h i (by omega))
    have hn := h n (by omega)
    simp only [countBelow_succ]
    omega

/-- one step of the ceiling quotient -/
theorem ceilDiv_succ (d : Nat) (hd : 0 < d) (n : Nat) :
    (n + 1 + d - 1) / d = (n + d - 1) / d + ind (n % d == 0) := by
  have hdm := Nat.div_add_mod n d
  have hr := Nat.mod_lt n hd
  generalize n / d = q at hdm
  generalize n % d = r at hdm hr
  subst hdm
  rcases Nat.eq_zero_or_pos r with h0 | hpos
  · subst h0
    have e1 : d * q + 0 + 1 + d - 1 = d * (q + 1) := by rw [Nat.mul_succ]; omega
    have e2 : d * q + 0 + d - 1 = d * q + (d - 1) := by omega
    rw [e1, e2, Nat.mul_div_cancel_left _ hd, Nat.mul_add_div hd, Nat.div_eq_of_lt (by omega)]
    simp [ind]
  · have e1 : d * q + r + 1 + d - 1 = d * (q + 1) + r := by rw [Nat.mul_succ]; omega
    have e2 : d * q + r + d - 1 = d * (q + 1) + (r - 1) := by rw [Nat.mul_succ]; omega
    rw [e1, e2, Nat.mul_add_div hd, Nat.mul_add_div hd, Nat.div_eq_of_lt hr,
      Nat.div_eq_of_lt (by omega)]
    have : (r == 0) = false := by simp; omega
    simp [ind, this]

/-- **general counting lemma**: the number of multiples of `d` below `n` is `⌈n/d⌉` -/
theorem countBelow_multiples (d : Nat) (hd : 0 < d) : ∀ n,
    countBelow (fun h => h % d == 0) n = (n + d - 1) / d
  | 0 => by
    rw [countBelow_zero, Nat.div_eq_of_lt (by omega)]
  | n + 1 => by
    rw [countBelow_succ, countBelow_multiples d hd n, ceilDiv_succ d hd n]

/-! ### sats, block by block -/

/-- inside block `h` only the first sat is not common -/
theorem countBelow_block (P : Rarity → Bool) (h : Nat) : ∀ m,
    countBelow (fun k => P (rarity h k)) (m + 1) = ind (P (rarity h 0)) + m * ind (P .common)
  | 0 => by rw [countBelow_succ, countBelow_zero]; simp
  | m + 1 => by
    rw [countBelow_succ, countBelow_block P h m]
    have : rarity h (m + 1) = .common := ((rarity_iff h (m + 1)).1).2 (by omega)
    rw [this, Nat.succ_mul]; omega

/-- the class of a sat below the supply, as a pure function -/
def satRarity (s : Nat) : Rarity := rarity (Sat.heightN s) (Sat.thirdN s)

theorem satRarity_block (h k : Nat) (hh : h < 6930000) (hk : k < Height.subsidy h) :
    satRarity (Height.startingSat h + k) = rarity h k := by
  obtain ⟨_, hH, hT, _⟩ := Sat.compose h k hh hk
  unfold satRarity; rw [hH, hT]

/-- counting over consecutive blocks, abstractly: `f h` is the start of block `h`, `g h > 0` its
size, and the `k`-th element of block `h` has class `rarity h k`.  (Stated over variables so
that no step depends on evaluating `Height.starting_sat`.) -/
theorem countBelow_blocks (P : Rarity → Bool) (R : Nat → Rarity) (f g : Nat → Nat) (N : Nat)
    (h0 : f 0 = 0) (hstep : ∀ h, f (h + 1) = f h + g h) (hpos : ∀ h, h < N → 0 < g h)
    (hcls : ∀ h k, h < N → k < g h → R (f h + k) = rarity h k) (h : Nat) (hle : h ≤ N) :
    countBelow (fun s => P (R s)) (f h) + h * ind (P .common) =
      countBelow (fun h' => P (rarity h' 0)) h + f h * ind (P .common) := by
  induction h with
  | zero => rw [h0]; simp [countBelow_zero]
  | succ h ih =>
    have ih := ih (by omega)
    have hp := hpos h (by omega)
    obtain ⟨m, hm⟩ : ∃ m, g h = m + 1 := ⟨g h - 1, by omega⟩
    have hblock : countBelow (fun k => P (R (f h + k))) (g h) =
        countBelow (fun k => P (rarity h k)) (g h) :=
      countBelow_congr (fun k hk => by rw [hcls h k (by omega) hk])
    rw [hstep, countBelow_add, hblock, hm, countBelow_block, countBelow_succ]
    clear hblock hm hp
    generalize f h = S at ih ⊢
    generalize countBelow (fun s => P (R s)) S = A at ih ⊢
    generalize countBelow (fun h' => P (rarity h' 0)) h = B at ih ⊢
    generalize ind (P (rarity h 0)) = x
    generalize P .common = b at ih ⊢
    cases b
    · simp only [ind, Bool.false_eq_true, if_false, Nat.mul_zero, Nat.add_zero] at ih ⊢
      omega
    · simp only [ind, if_true, Nat.mul_one] at ih ⊢
      omega

/-- sats counted block by block: the sats of a class `P` below the supply are the first sats of
the blocks whose height has that class, plus (if `P` holds of common) all the others -/
theorem countBelow_sats (P : Rarity → Bool) :
    countBelow (fun s => P (satRarity s)) SUPPLY + 6930000 * ind (P .common) =
      countBelow (fun h' => P (rarity h' 0)) 6930000 + SUPPLY * ind (P .common) := by
  have := countBelow_blocks P satRarity Height.startingSat Height.subsidy 6930000
    Height.startingSat_zero Height.startingSat_succ Height.subsidy_pos satRarity_block
    6930000 (Nat.le_refl _)
  rw [Height.startingSat_last] at this
  exact this

/-! ### heights -/

/-- the class of a block's first sat, clause by clause -/
theorem rarity0_iff (h : Nat) :
    rarity h 0 ≠ .common ∧
    (rarity h 0 = .uncommon ↔ h % 2016 ≠ 0 ∧ h % 210000 ≠ 0) ∧
    (rarity h 0 = .rare ↔ h % 2016 = 0 ∧ h % 210000 ≠ 0) ∧
    (rarity h 0 = .epic ↔ h % 210000 = 0 ∧ h % 1260000 ≠ 0) ∧
    (rarity h 0 = .legendary ↔ h % 1260000 = 0 ∧ h ≠ 0) ∧
    (rarity h 0 = .mythic ↔ h = 0) := by
  obtain ⟨h1, h2, h3, h4, h5, h6⟩ := rarity_iff h 0
  refine ⟨fun hc => (h1.1 hc) rfl, ?_, ?_, ?_, ?_, ?_⟩
  · rw [h2]; simp
  · rw [h3]; simp
  · rw [h4]; simp
  · rw [h5]; simp
  · rw [h6]; simp

/-- number of subsidy-bearing heights: 33 epochs of 210 000 blocks -/
def HEIGHTS : Nat := 6930000

theorem mult_2016 : countBelow (fun h => h % 2016 == 0) HEIGHTS = 3438 :=
  countBelow_multiples 2016 (by omega) HEIGHTS
theorem mult_210000 : countBelow (fun h => h % 210000 == 0) HEIGHTS = 33 :=
  countBelow_multiples 210000 (by omega) HEIGHTS
theorem mult_1260000 : countBelow (fun h => h % 1260000 == 0) HEIGHTS = 6 :=
  countBelow_multiples 1260000 (by omega) HEIGHTS

theorem ind_decide_iff {A B : Prop} [Decidable A] [Decidable B] (h : A ↔ B) :
    ind (decide A) = ind (decide B) := by
  by_cases hb : B
  · have ha := h.2 hb; simp [ha, hb]
  · have ha : ¬ A := fun ha => hb (h.1 ha); simp [ha, hb]

theorem ind_beq_zero (x : Nat) : ind (x == 0) = ind (decide (x = 0)) := by
  by_cases h : x = 0 <;> simp [ind, h]

/-- heights whose first sat is mythic: only height 0 -/
theorem heights_mythic : countBelow (fun h => decide (rarity h 0 = .mythic)) HEIGHTS = 1 := by
  have : countBelow (fun h => decide (rarity h 0 = .mythic)) HEIGHTS =
      countBelow (fun h => h % 6930000 == 0) HEIGHTS := by
    apply countBelow_congr
    intro i hi
    have := (rarity0_iff i).2.2.2.2.2
    unfold HEIGHTS at hi
    by_cases h0 : i = 0
    · subst h0; decide
    · have h1 : ¬ rarity i 0 = .mythic := fun hc => h0 (this.1 hc)
      have h2 : ¬ i % 6930000 = 0 := by omega
      simp [h1, h2]
  rw [this]
  exact countBelow_multiples 6930000 (by omega) HEIGHTS

/-- pointwise facts behind the inclusion–exclusion, in indicator form -/
theorem ind_facts (h : Nat) :
    ind (decide (rarity h 0 = .legendary)) + ind (decide (rarity h 0 = .mythic)) =
      ind (h % 1260000 == 0) + ind false ∧
    ind (decide (rarity h 0 = .epic)) + ind (h % 1260000 == 0) =
      ind (h % 210000 == 0) + ind false ∧
    ind (decide (rarity h 0 = .rare)) + ind (h % 1260000 == 0) =
      ind (h % 2016 == 0) + ind false ∧
    ind (decide (rarity h 0 = .uncommon)) + ind (decide (h % 2016 = 0 ∨ h % 210000 = 0)) =
      ind true + ind false ∧
    ind (decide (h % 2016 = 0 ∨ h % 210000 = 0)) + ind (h % 1260000 == 0) =
      ind (h % 2016 == 0) + ind (h % 210000 == 0) := by
  obtain ⟨_, hu, hr, he, hl, hm⟩ := rarity0_iff h
  rw [ind_decide_iff hu, ind_decide_iff hr, ind_decide_iff he, ind_decide_iff hl, ind_decide_iff hm]
  simp only [ind_beq_zero]
  simp only [ind]
  refine ⟨?_, ?_, ?_, ?_, ?_⟩ <;>
    (simp only [decide_eq_true_eq, Bool.false_eq_true, if_false, if_true]; repeat' split) <;> omega

theorem heights_legendary : countBelow (fun h => decide (rarity h 0 = .legendary)) HEIGHTS = 5 := by
  have := countBelow_incl_excl (n := HEIGHTS) (fun i _ => (ind_facts i).1)
  rw [heights_mythic, mult_1260000, countBelow_false] at this
  omega

theorem heights_epic : countBelow (fun h => decide (rarity h 0 = .epic)) HEIGHTS = 27 := by
  have := countBelow_incl_excl (n := HEIGHTS) (fun i _ => (ind_facts i).2.1)
  rw [mult_1260000, mult_210000, countBelow_false] at this
  omega

theorem heights_rare : countBelow (fun h => decide (rarity h 0 = .rare)) HEIGHTS = 3432 := by
  have := countBelow_incl_excl (n := HEIGHTS) (fun i _ => (ind_facts i).2.2.1)
  rw [mult_1260000, mult_2016, countBelow_false] at this
  omega

theorem heights_uncommon : countBelow (fun h => decide (rarity h 0 = .uncommon)) HEIGHTS = 6926535 := by
  have h1 := countBelow_incl_excl (n := HEIGHTS) (fun i _ => (ind_facts i).2.2.2.1)
  have h2 := countBelow_incl_excl (n := HEIGHTS) (fun i _ => (ind_facts i).2.2.2.2)
  rw [countBelow_true, countBelow_false] at h1
  rw [mult_1260000, mult_2016, mult_210000] at h2
  have hH : HEIGHTS = 6930000 := rfl
  omega

theorem heights_common : countBelow (fun h => decide (rarity h 0 = .common)) HEIGHTS = 0 := by
  rw [countBelow_congr (q := fun _ => false) (fun i _ => by simp [(rarity0_iff i).1]), countBelow_false]

/-- heights below 6 930 000 by the class of their first sat -/
theorem heights_table (r : Rarity) :
    countBelow (fun h => decide (rarity h 0 = r)) HEIGHTS =
      match r with
      | .common => 0 | .uncommon => 6926535 | .rare => 3432 | .epic => 27 | .legendary => 5
      | .mythic => 1 := by
  cases r
  · exact heights_common
  · exact heights_uncommon
  · exact heights_rare
  · exact heights_epic
  · exact heights_legendary
  · exact heights_mythic

/-- **the rarity supply table is the census of the sats below the supply** -/
theorem supply_table (r : Rarity) :
    countBelow (fun s => decide (satRarity s = r)) SUPPLY = Rarity.supply r := by
  have h := countBelow_sats (fun x => decide (x = r))
  have ht := heights_table r
  unfold HEIGHTS at ht
  rw [ht] at h
  generalize countBelow (fun s => decide (satRarity s = r)) SUPPLY = C at h ⊢
  cases r <;> simp [ind, SUPPLY, Rarity.supply] at h ⊢ <;> omega

/-- the same census with ord's own (panicking) `Sat::rarity` as the classifier -/
theorem supply_table_O (r : Rarity) :
    countBelow (fun s => decide (Rarity.ofSatO s = .ok r)) SUPPLY = Rarity.supply r := by
  rw [← supply_table r]
  apply countBelow_congr
  intro s hs
  rw [Sat.rarityO_ok s hs]
  unfold satRarity
  by_cases h : rarity (Sat.heightN s) (Sat.thirdN s) = r
  · simp [h]
  · have : ¬ (Outcome.ok (rarity (Sat.heightN s) (Sat.thirdN s)) = Outcome.ok r) := by
      intro hc; injection hc with hc; exact h hc
    simp [h, this]

end Ord.SatSpec
