import OrdModel.Proofs.IndexInsnumScan
/-
Group `insnum`, C05 jubilee clause at the scan level: when the block is jubilant no flotsam built by
the input scan carries the `cursed` flag (and a flotsam is vindicated only when jubilant).
-/
namespace Ord.Index.Insnum
open Ord.Index Ord.Outcome

/-- the jubilee discipline on a floating list -/
def JubOk (jub : Bool) (l : List Flotsam) : Prop :=
  ∀ f ∈ l, (jub = true → cursedFlag f = false) ∧ (vindicatedFlag f = true → jub = true)

theorem jubOk_snoc {jub : Bool} {l : List Flotsam} {f : Flotsam} (h : JubOk jub l)
    (hf : (jub = true → cursedFlag f = false) ∧ (vindicatedFlag f = true → jub = true)) : JubOk jub (l ++ [f]) := by
  intro g hg
  rcases List.mem_append.1 hg with hg | hg
  · exact h g hg
  · simp at hg; subst hg; exact hf

theorem scanOld_jub (st : State) (prev : OutPoint) (base : Nat) (jub : Bool) :
    ∀ (l : List (Nat × Nat)) (sc sc' : ScanState), scanOld st prev base l sc = .ok sc' →
      JubOk jub sc.floating → JubOk jub sc'.floating := by
  intro l
  induction l with
  | nil => intro sc sc' h hj; simp only [scanOld, Outcome.ok.injEq] at h; subst h; exact hj
  | cons p rest ih =>
    intro sc sc' h hj
    obtain ⟨seq, off⟩ := p
    simp only [scanOld] at h
    split at h
    · exact absurd h (by simp)
    · exact ih _ _ h (jubOk_snoc hj (by simp [cursedFlag, vindicatedFlag]))

theorem scanNew_jub (st : State) (jub : Bool) (txid : Txid) (ii offset iv totalOut : Nat) :
    ∀ (envs : List Envelope) (sc sc' : ScanState), scanNew st jub txid ii offset iv totalOut envs sc = .ok sc' →
      JubOk jub sc.floating → JubOk jub sc'.floating := by
  intro envs
  induction envs with
  | nil => intro sc sc' h hj; simp only [scanNew, Outcome.ok.injEq] at h; subst h; exact hj
  | cons env rest ih =>
    intro sc sc' h hj
    simp only [scanNew] at h
    split at h
    · simp only [Outcome.ok.injEq] at h; subst h; exact hj
    · split at h
      · exact absurd h (by simp)
      · exact absurd h (by simp)
      · exact ih _ _ h (jubOk_snoc hj (by cases jub <;> simp [cursedFlag, vindicatedFlag]))

theorem scanInputs_jub (cfg : Cfg) (st : State) (jub : Bool) (txid : Txid) (height totalOut : Nat) :
    ∀ (inputs : List (TxIn × UtxoEntry)) (i : Nat) (sc sc' : ScanState),
      scanInputs cfg st jub txid height totalOut inputs i sc = .ok sc' →
      JubOk jub sc.floating → JubOk jub sc'.floating := by
  intro inputs
  induction inputs with
  | nil => intro i sc sc' h hj; simp only [scanInputs, Outcome.ok.injEq] at h; subst h; exact hj
  | cons p rest ih =>
    intro i sc sc' h hj
    obtain ⟨txin, entry⟩ := p
    simp only [scanInputs] at h
    split at h
    · exact ih _ _ _ h hj
    · split at h
      · exact absurd h (by simp)
      · exact absurd h (by simp)
      · rename_i sc1 hold
        have h1 := scanOld_jub _ _ _ jub _ _ _ hold hj
        split at h
        · exact absurd h (by simp)
        · exact absurd h (by simp)
        · rename_i sc3 hnew
          exact ih _ _ _ h (scanNew_jub _ _ _ _ _ _ _ _ _ _ hnew (by exact h1))

end Ord.Index.Insnum
