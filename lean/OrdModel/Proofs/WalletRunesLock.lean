import OrdModel.Wallet.Lock
import OrdModel.Generated.FundCallOrder
/- Helper definitions and lemmas for C23. -/
namespace Ord.Wallet.Lock
open Ord.Wallet.Generated

/-- In the function's source, the first `fund_raw_transaction(` call is preceded by a
`lock_non_cardinal_outputs()?;` statement at the top level of the function body (depth 1), i.e.
one that is executed on every path that reaches the funding call (`?` only leaves the function). -/
def lockBeforeFirstFund : List Call → Bool → Bool
  | [], _ => true
  | .lock d :: rest, seen => lockBeforeFirstFund rest (seen || d == 1)
  | .fund _ :: _, seen => seen

def lockPrecedesFund (s : FundSite) : Bool := lockBeforeFirstFund s.calls false

theorem mem_toLock {w : WState} {o : Nat} :
    o ∈ toLock w ↔ ((o ∈ w.utxos ∧ o ∈ w.inscribed) ∨ o ∈ w.runic) ∧ o ∉ w.locked := by
  simp [toLock, List.mem_filter, List.mem_append]
  constructor
  · rintro (⟨hu, hl, hi⟩ | ⟨hr, hl⟩)
    · exact ⟨Or.inl ⟨hu, hi⟩, hl⟩
    · exact ⟨Or.inr hr, hl⟩
  · rintro ⟨⟨hu, hi⟩ | hr, hl⟩
    · exact Or.inl ⟨hu, hl, hi⟩
    · exact Or.inr ⟨hr, hl⟩

theorem mem_lockedAfter {w : WState} {o : Nat} :
    o ∈ lockedAfter w ↔ o ∈ w.locked ∨ o ∈ toLock w := by
  simp [lockedAfter]

theorem mem_spendable {w : WState} {o : Nat} :
    o ∈ spendable w ↔ o ∈ w.utxos ∧ o ∉ lockedAfter w := by
  simp [spendable, List.mem_filter]

theorem nonCardinal_iff {w : WState} {o : Nat} :
    nonCardinal w o = true ↔ o ∈ w.inscribed ∨ o ∈ w.runic := by
  simp [nonCardinal]

end Ord.Wallet.Lock
