import OrdModel.Proofs.RunestoneEncipher
/-! Helper lemmas for C25: the message layer of the round trip. -/
namespace Ord.Runestone
open Ord Ord.Script

def optPair (t : Nat) : Option Nat → Fields
  | none => []
  | some v => [(t, v)]

def termsPairs (t : Terms) : Fields :=
  optPair 10 t.amount ++ (optPair 8 t.cap ++ (optPair 12 t.heightStart ++ (optPair 14 t.heightEnd
    ++ (optPair 16 t.offsetStart ++ optPair 18 t.offsetEnd))))

def mintPairs : Option RuneId → Fields
  | none => []
  | some id => [(20, id.block), (20, id.tx)]

/-- the tag/value pairs `encipher` writes, in its order -/
def runePairs (r : Runestone) : Fields :=
  (match r.etching with
    | some e => optPair 2 (some (etchingFlags e)) ++ (optPair 4 e.rune ++ (optPair 1 e.divisibility
        ++ (optPair 3 e.spacers ++ (optPair 5 e.symbol ++ (optPair 6 e.premine
        ++ (match e.terms with | some t => termsPairs t | none => []))))))
    | none => [])
  ++ (mintPairs r.mint ++ optPair 22 r.pointer)

def pairInts : Fields → List Nat
  | [] => []
  | (t, v) :: fs => t :: v :: pairInts fs

theorem pairInts_append (a b : Fields) : pairInts (a ++ b) = pairInts a ++ pairInts b := by
  induction a with
  | nil => rfl
  | cons p a ih => obtain ⟨t, v⟩ := p; simp [pairInts, ih]

theorem optPair_some (t v : Nat) : optPair t (some v) = [(t, v)] := rfl

theorem pairInts_optPair (t : Nat) (o : Option Nat) : pairInts (optPair t o) = optField t o := by
  cases o <;> rfl

theorem fieldInts_eq (r : Runestone) : fieldInts r = pairInts (runePairs r) := by
  unfold fieldInts runePairs etchingInts termsInts mintInts termsPairs mintPairs
  cases r.etching with
  | none => cases r.mint <;> simp [pairInts_append, pairInts_optPair, pairInts]
  | some e =>
    obtain ⟨d, p, ru, sp, sy, te, tu⟩ := e
    cases te <;> cases r.mint <;>
      simp [pairInts_append, pairInts_optPair, pairInts, optPair_some]

theorem fromIntegers_pairInts (n : Nat) (rest : List Nat) (m : Message)
    (hm : Message.fromIntegers n rest = .ok m) : ∀ (ps : Fields), (∀ p ∈ ps, p.1 ≠ 0) →
    Message.fromIntegers n (pairInts ps ++ rest) = .ok { m with fields := ps ++ m.fields } := by
  intro ps
  induction ps with
  | nil => intro _; simpa [pairInts] using hm
  | cons p ps ih =>
    intro h
    obtain ⟨t, v⟩ := p
    have ht : t ≠ 0 := h (t, v) List.mem_cons_self
    have := ih (fun q hq => h q (List.mem_cons_of_mem _ hq))
    simp [pairInts, Message.fromIntegers, ht, this]

/-! ### taking from a segmented field list -/

theorem first_optPair_ne {t t' : Nat} (h : t ≠ t') (o : Option Nat) (rest : Fields) :
    first t (optPair t' o ++ rest) = first t rest := by
  cases o <;> simp [optPair, first, Ne.symm h]

theorem first_cons_ne {t k : Nat} (h : t ≠ k) (v : Nat) (rest : Fields) :
    first t ((k, v) :: rest) = first t rest := by
  simp [first, Ne.symm h]

theorem take1_nil {α : Type} (t : Nat) (w : Nat → Option α) : take1 t w [] = (none, []) := rfl

theorem take1_skip_cons {α : Type} {t k : Nat} (h : t ≠ k) (w : Nat → Option α) (v : Nat)
    (rest : Fields) :
    take1 t w ((k, v) :: rest) = ((take1 t w rest).1, (k, v) :: (take1 t w rest).2) := by
  unfold take1
  simp only [first, erase1, Ne.symm h, if_false]
  cases first t rest with
  | none => rfl
  | some x => cases hw : w x <;> simp [hw]

theorem take1_skip {α : Type} {t t' : Nat} (h : t ≠ t') (w : Nat → Option α) (o : Option Nat)
    (rest : Fields) :
    take1 t w (optPair t' o ++ rest) = ((take1 t w rest).1, optPair t' o ++ (take1 t w rest).2) := by
  cases o with
  | none => simp [optPair]
  | some v => simpa [optPair] using take1_skip_cons h w v rest

theorem take1_hit (t : Nat) (w : Nat → Option Nat) (o : Option Nat) (rest : Fields)
    (hw : o.bind w = o) : take1 t w (optPair t o ++ rest) = (o, rest) ∨ o = none := by
  cases o with
  | none => exact Or.inr rfl
  | some v =>
    left
    have : w v = some v := by simpa using hw
    simp [optPair, take1, first, erase1, this]

theorem take1_hit' (t : Nat) (w : Nat → Option Nat) (o : Option Nat) (rest : Fields)
    (hw : o.bind w = o) (hr : first t rest = none) : take1 t w (optPair t o ++ rest) = (o, rest) := by
  cases o with
  | none => simp [optPair, take1, hr]
  | some v =>
    have : w v = some v := by simpa using hw
    simp [optPair, take1, first, erase1, this]

theorem take2_mint_hit (b t : Nat) (rest : Fields) (id : RuneId) (hw : wMint b t = some id)
    (hr : first 20 rest = none) :
    take2 20 wMint ((20, b) :: (20, t) :: rest) = (some id, rest) := by
  simp [take2, first, erase1, hw]

theorem take2_mint_none (rest : Fields) (hr : first 20 rest = none) :
    take2 20 wMint rest = (none, rest) := by
  simp [take2, hr]

theorem optAll_bind (p : Nat → Bool) (w : Nat → Option Nat) (h : ∀ v, p v = true → w v = some v)
    (o : Option Nat) (ho : optAll p o = true) : o.bind w = o := by
  cases o with
  | none => rfl
  | some v => simpa using h v ho

theorem tf0_0 : takeFlag 0 0 = (false, 0) := by decide
theorem tf0_1 : takeFlag 0 1 = (true, 0) := by decide
theorem tf0_3 : takeFlag 0 3 = (true, 2) := by decide
theorem tf0_5 : takeFlag 0 5 = (true, 4) := by decide
theorem tf0_7 : takeFlag 0 7 = (true, 6) := by decide
theorem tf1_0 : takeFlag 1 0 = (false, 0) := by decide
theorem tf1_2 : takeFlag 1 2 = (true, 0) := by decide
theorem tf1_4 : takeFlag 1 4 = (false, 4) := by decide
theorem tf1_6 : takeFlag 1 6 = (true, 4) := by decide
theorem tf2_0 : takeFlag 2 0 = (false, 0) := by decide
theorem tf2_4 : takeFlag 2 4 = (true, 0) := by decide

/-- the mint and pointer part (what is left after the etching block) -/
theorem tail_roundtrip (n : Nat) (m : Option RuneId) (p : Option Nat)
    (hm : ∀ i, m = some i → i.typed = true ∧ i.valid = true)
    (hp : optAll (fun v => decide (v < 2 ^ 32) && decide (v < n)) p = true) :
    let mint := take2 20 wMint (mintPairs m ++ optPair 22 p)
    mint.1 = m ∧ take1 22 (wPointer n) mint.2 = (p, []) := by
  have hptr : p.bind (wPointer n) = p :=
    optAll_bind _ _ (fun v hv => by
      simp only [Bool.and_eq_true, decide_eq_true_eq] at hv
      simp [wPointer, hv.1, hv.2]) p hp
  have hfirst : first 20 (optPair 22 p) = none := by
    cases p <;> simp [optPair, first]
  have hlast : take1 22 (wPointer n) (optPair 22 p) = (p, []) := by
    have := take1_hit' 22 (wPointer n) p [] hptr rfl
    simpa using this
  cases m with
  | none =>
    simp only [mintPairs, List.nil_append]
    rw [take2_mint_none _ hfirst]
    exact ⟨rfl, hlast⟩
  | some i =>
    obtain ⟨b, t⟩ := i
    have hm := hm _ rfl
    simp only [RuneId.typed, RuneId.valid, Bool.and_eq_true, decide_eq_true_eq, Bool.not_eq_true',
      Bool.and_eq_false_iff, beq_eq_false_iff_ne, decide_eq_false_iff_not] at hm
    have hw : wMint b t = some ⟨b, t⟩ := by
      have h3 : ¬ (b = 0 ∧ t > 0) := by
        rcases hm.2 with h | h
        · exact fun hh => h hh.1
        · exact fun hh => h hh.2
      simp [wMint, hm.1.1, hm.1.2, RuneId.new, h3]
    simp only [mintPairs, List.cons_append, List.nil_append]
    rw [take2_mint_hit b t _ _ hw hfirst]
    exact ⟨rfl, hlast⟩

def termsChain (te : Option Terms) (tail : Fields) : Fields :=
  match te with
  | none => tail
  | some t => optPair 10 t.amount ++ (optPair 8 t.cap ++ (optPair 12 t.heightStart
      ++ (optPair 14 t.heightEnd ++ (optPair 16 t.offsetStart ++ (optPair 18 t.offsetEnd ++ tail)))))

/-- the tail (mint, pointer) has none of the etching tags -/
def TailFree (tail : Fields) : Prop :=
  first 1 tail = none ∧ first 3 tail = none ∧ first 4 tail = none ∧ first 5 tail = none
  ∧ first 6 tail = none ∧ first 8 tail = none ∧ first 10 tail = none ∧ first 12 tail = none
  ∧ first 14 tail = none ∧ first 16 tail = none ∧ first 18 tail = none

theorem etching_roundtrip (e : Etching) (ht : e.typed = true) (hw : e.wf = true) (tail : Fields)
    (hfree : TailFree tail) :
    takeEtching (etchingFlags e)
      (optPair 4 e.rune ++ (optPair 1 e.divisibility ++ (optPair 3 e.spacers
        ++ (optPair 5 e.symbol ++ (optPair 6 e.premine ++ termsChain e.terms tail)))))
      = (some e, 0, tail) := by
  obtain ⟨d, p, ru, sp, sy, te, tu⟩ := e
  obtain ⟨f1, f3, f4, f5, f6, f8, f10, f12, f14, f16, f18⟩ := hfree
  simp only [Etching.typed, Etching.wf, Bool.and_eq_true] at ht hw
  have hd : d.bind wDivisibility = d :=
    optAll_bind (fun v => decide (v ≤ MAX_DIVISIBILITY)) _ (fun v hv => by
      have hv' : v ≤ 38 := of_decide_eq_true hv
      have : v < 2 ^ 8 := by omega
      simp [wDivisibility, MAX_DIVISIBILITY, hv', this]) d hw.1.1
  have hsp : sp.bind wSpacers = sp :=
    optAll_bind (fun v => decide (v ≤ MAX_SPACERS)) _ (fun v hv => by
      have hv' : v ≤ 134217727 := of_decide_eq_true hv
      have : v < 2 ^ 32 := by omega
      simp [wSpacers, MAX_SPACERS, hv', this]) sp hw.1.2
  have hsy : sy.bind wSymbol = sy :=
    optAll_bind (fun v => isChar v) _ (fun v hv => by
      have h32 : v < 2 ^ 32 := by
        simp only [isChar, Bool.or_eq_true, Bool.and_eq_true, decide_eq_true_eq] at hv
        omega
      simp [wSymbol, hv, h32]) sy ht.1.2
  have hu64 : ∀ o : Option Nat, optAll (fun v => decide (v < 2 ^ 64)) o = true → o.bind wU64 = o :=
    fun o ho => optAll_bind _ _ (fun v hv => by
      have hv' : v < 2 ^ 64 := by simpa using hv
      simp [wU64, hv']) o ho
  cases te with
  | none =>
    cases tu <;>
    simp [takeEtching, takeTerms, etchingFlags, termsChain, tf0_1, tf0_5, tf1_0, tf1_4, tf2_0, tf2_4,
      take1_skip, take1_hit', first_optPair_ne, hd, hsp, hsy, f1, f3, f4, f5, f6]
  | some t =>
    obtain ⟨a, c, hs, he, os, oe⟩ := t
    simp only [Terms.typed, Bool.and_eq_true] at ht
    have h1 := hu64 hs ht.2.1.1.1.2
    have h2 := hu64 he ht.2.1.1.2
    have h3 := hu64 os ht.2.1.2
    have h4 := hu64 oe ht.2.2
    cases tu <;>
    simp [takeEtching, takeTerms, etchingFlags, termsChain, tf0_3, tf0_7, tf1_2, tf1_6, tf2_0, tf2_4,
      take1_skip, take1_hit', first_optPair_ne, hd, hsp, hsy, h1, h2, h3, h4,
      f1, f3, f4, f5, f6, f8, f10, f12, f14, f16, f18]

theorem first_tail (k : Nat) (hk : k ≠ 20) (hk' : k ≠ 22) (m : Option RuneId) (p : Option Nat) :
    first k (mintPairs m ++ optPair 22 p) = none := by
  cases m <;> cases p <;> simp [mintPairs, optPair, first, Ne.symm hk, Ne.symm hk']

theorem first_termsChain (k : Nat) (te : Option Terms) (tail : Fields) (h8 : k ≠ 8) (h10 : k ≠ 10)
    (h12 : k ≠ 12) (h14 : k ≠ 14) (h16 : k ≠ 16) (h18 : k ≠ 18) :
    first k (termsChain te tail) = first k tail := by
  cases te with
  | none => rfl
  | some t => simp [termsChain, first_optPair_ne, *]

/-- **field layer of the round trip**: on the pairs `encipher` writes for a typed, well-formed
runestone, `decipher`'s takes recover every field, use up every pair and every flag -/
theorem parseFields_roundtrip (r : Runestone) (n : Nat) (ht : r.typed = true) (hw : r.wf n = true) :
    parseFields n (runePairs r) = ⟨r.etching, r.mint, r.pointer, 0, []⟩ := by
  obtain ⟨es, et, m, p⟩ := r
  simp only [Runestone.typed, Runestone.wf, Bool.and_eq_true] at ht hw
  have hm : ∀ i, m = some i → i.typed = true ∧ i.valid = true := by
    intro i hi; subst hi; exact ⟨ht.1.2, hw.1.2⟩
  have hp : optAll (fun v => decide (v < 2 ^ 32) && decide (v < n)) p = true := by
    cases p with
    | none => rfl
    | some v =>
      have h1 : v < 2 ^ 32 := of_decide_eq_true ht.2
      have h2 : v < n := of_decide_eq_true hw.2
      simp [optAll, h1, h2]
  have htail := tail_roundtrip n m p hm hp
  simp only at htail
  have hfree : TailFree (mintPairs m ++ optPair 22 p) := by
    refine ⟨?_, ?_, ?_, ?_, ?_, ?_, ?_, ?_, ?_, ?_, ?_⟩ <;>
      exact first_tail _ (by decide) (by decide) m p
  cases et with
  | none =>
    have h2 : first 2 (mintPairs m ++ optPair 22 p) = none :=
      first_tail 2 (by decide) (by decide) m p
    simp only [runePairs, List.nil_append, parseFields]
    have hflags : take1 2 wAny (mintPairs m ++ optPair 22 p)
        = (none, mintPairs m ++ optPair 22 p) := by simp [take1, h2]
    rw [hflags]
    simp only [Option.getD_none, takeEtching, tf0_0]
    simp [htail.1, htail.2]
  | some e =>
    have hchain : runePairs ⟨es, some e, m, p⟩
        = optPair 2 (some (etchingFlags e)) ++ (optPair 4 e.rune ++ (optPair 1 e.divisibility
            ++ (optPair 3 e.spacers ++ (optPair 5 e.symbol ++ (optPair 6 e.premine
            ++ termsChain e.terms (mintPairs m ++ optPair 22 p)))))) := by
      simp only [runePairs]
      cases e.terms <;> simp [termsChain, termsPairs, List.append_assoc]
    have hr : first 2 (optPair 4 e.rune ++ (optPair 1 e.divisibility
            ++ (optPair 3 e.spacers ++ (optPair 5 e.symbol ++ (optPair 6 e.premine
            ++ termsChain e.terms (mintPairs m ++ optPair 22 p)))))) = none := by
      simp only [first_optPair_ne (show (2:Nat) ≠ 4 by decide), first_optPair_ne (show (2:Nat) ≠ 1 by decide),
        first_optPair_ne (show (2:Nat) ≠ 3 by decide), first_optPair_ne (show (2:Nat) ≠ 5 by decide),
        first_optPair_ne (show (2:Nat) ≠ 6 by decide)]
      rw [first_termsChain 2 _ _ (by decide) (by decide) (by decide) (by decide) (by decide) (by decide)]
      exact first_tail 2 (by decide) (by decide) m p
    have hflags := take1_hit' 2 wAny (some (etchingFlags e)) _ (by simp [wAny]) hr
    have hetch := etching_roundtrip e ht.1.1.2 hw.1.1.2 _ hfree
    rw [hchain]
    simp only [parseFields, hflags, Option.getD_some, hetch]
    simp [htail.1, htail.2]

/-! ### edicts: sorting and delta coding -/

def chainLe (prev : RuneId) : List Edict → Prop
  | [] => True
  | e :: es => prev.le e.id = true ∧ chainLe e.id es

theorem le_total (a b : RuneId) (h : a.le b = false) : b.le a = true := by
  simp only [RuneId.le, Bool.or_eq_false_iff, Bool.and_eq_false_iff, decide_eq_false_iff_not,
    beq_eq_false_iff_ne, Bool.or_eq_true, Bool.and_eq_true, decide_eq_true_eq, beq_iff_eq] at *
  omega

theorem insertEdict_chain (e : Edict) : ∀ (l : List Edict) (prev : RuneId),
    prev.le e.id = true → chainLe prev l → chainLe prev (insertEdict e l) := by
  intro l
  induction l with
  | nil => intro prev h _; exact ⟨h, trivial⟩
  | cons x xs ih =>
    intro prev h hc
    simp only [insertEdict]
    cases hx : e.id.le x.id with
    | true => exact ⟨h, hx, hc.2⟩
    | false => exact ⟨hc.1, ih x.id (le_total _ _ hx) hc.2⟩

theorem zero_le (i : RuneId) : (RuneId.le ⟨0, 0⟩ i) = true := by
  simp only [RuneId.le, Bool.or_eq_true, Bool.and_eq_true, decide_eq_true_eq, beq_iff_eq]
  omega

theorem chain_sortEdicts (l : List Edict) : chainLe ⟨0, 0⟩ (sortEdicts l) := by
  induction l with
  | nil => trivial
  | cons e es ih => exact insertEdict_chain e _ _ (zero_le _) ih

theorem mem_insertEdict (e x : Edict) (l : List Edict) : x ∈ insertEdict e l ↔ x = e ∨ x ∈ l := by
  induction l with
  | nil => simp [insertEdict]
  | cons y ys ih =>
    simp only [insertEdict]
    split
    · simp
    · simp only [List.mem_cons, ih]
      constructor
      · rintro (h | h | h) <;> simp [h]
      · rintro (h | h | h) <;> simp [h]

theorem mem_sortEdicts (x : Edict) (l : List Edict) : x ∈ sortEdicts l ↔ x ∈ l := by
  induction l with
  | nil => simp [sortEdicts]
  | cons e es ih => simp [sortEdicts, mem_insertEdict, ih]

theorem delta_next (prev id : RuneId) (hle : prev.le id = true) (hp : prev.typed = true)
    (hi : id.typed = true) (hv : id.valid = true) :
    ∃ b t, prev.delta id = some (b, t) ∧ prev.next b t = some id ∧ b < 2 ^ 128 ∧ t < 2 ^ 128 := by
  obtain ⟨pb, pt⟩ := prev
  obtain ⟨ib, it⟩ := id
  simp only [RuneId.le, RuneId.typed, RuneId.valid, Bool.or_eq_true, Bool.and_eq_true,
    decide_eq_true_eq, beq_iff_eq, Bool.not_eq_true', Bool.and_eq_false_iff,
    beq_eq_false_iff_ne, decide_eq_false_iff_not] at hle hp hi hv
  have hnv : ¬ (ib = 0 ∧ it > 0) := by
    rcases hv with h | h
    · exact fun hh => h hh.1
    · exact fun hh => h hh.2
  by_cases hb : ib = pb
  · subst hb
    have htx : pt ≤ it := by omega
    refine ⟨0, it - pt, ?_, ?_, by omega, by omega⟩
    · simp [RuneId.delta]; omega
    · have h1 : it - pt < 2 ^ 32 := by omega
      have h2 : pt + (it - pt) = it := by omega
      simp [RuneId.next, hi.1, h1, h2, hi.2, RuneId.new, hnv]
  · have hlt : pb < ib := by omega
    refine ⟨ib - pb, it, ?_, ?_, by omega, by omega⟩
    · have : ¬ ib < pb := by omega
      have h0 : ¬ ib - pb = 0 := by omega
      simp [RuneId.delta, this, h0]
    · have h1 : ib - pb < 2 ^ 64 := by omega
      have h2 : pb + (ib - pb) = ib := by omega
      have h0 : ¬ ib - pb = 0 := by omega
      simp [RuneId.next, h1, h2, hi.1, h0, hi.2, RuneId.new, hnv]

/-- **edict layer of the round trip**: a chain of edicts ordered by id is delta-encoded without
panic and parsed back to itself -/
theorem edicts_roundtrip (n : Nat) (hn : n < 2 ^ 32) : ∀ (S : List Edict) (prev : RuneId),
    chainLe prev S → prev.typed = true →
    (∀ e ∈ S, e.typed = true ∧ e.id.valid = true ∧ e.output ≤ n) →
    ∃ ints, edictInts prev S = .ok ints ∧ parseEdicts n prev ints = .ok (none, S)
      ∧ ∀ x ∈ ints, x < 2 ^ 128 := by
  intro S
  induction S with
  | nil => intro prev _ _ _; exact ⟨[], rfl, rfl, by simp⟩
  | cons e es ih =>
    intro prev hc hp hall
    obtain ⟨het, hev, heo⟩ := hall e List.mem_cons_self
    simp only [Edict.typed, Bool.and_eq_true, decide_eq_true_eq] at het
    obtain ⟨b, t, hd, hnx, hb, htt⟩ := delta_next prev e.id hc.1 hp het.1.1 hev
    obtain ⟨ints, h1, h2, h3⟩ := ih e.id hc.2 het.1.1 (fun x hx => hall x (List.mem_cons_of_mem _ hx))
    refine ⟨b :: t :: e.amount :: e.output :: ints, by simp [edictInts, hd, h1], ?_, ?_⟩
    · have ho : e.output < 2 ^ 32 ∧ e.output ≤ n := ⟨het.2, heo⟩
      simp [parseEdicts, hnx, Edict.fromIntegers_ok n hn, ho, h2]
    · intro x hx
      simp only [List.mem_cons] at hx
      rcases hx with rfl | rfl | rfl | rfl | hx
      · exact hb
      · exact htt
      · exact het.1.2
      · omega
      · exact h3 x hx

/-! ### assembling the message layer -/

def OkPairs (ps : Fields) : Prop := ∀ p ∈ ps, p.1 ≠ 0 ∧ p.1 < 2 ^ 128 ∧ p.2 < 2 ^ 128

theorem okPairs_nil : OkPairs [] := by intro p hp; cases hp

theorem okPairs_append {a b : Fields} (ha : OkPairs a) (hb : OkPairs b) : OkPairs (a ++ b) := by
  intro p hp
  rcases List.mem_append.mp hp with h | h
  · exact ha p h
  · exact hb p h

theorem okPairs_optPair (t : Nat) (h0 : t ≠ 0) (ht : t < 2 ^ 128) (q : Nat → Bool) (o : Option Nat)
    (ho : optAll q o = true) (hq : ∀ v, q v = true → v < 2 ^ 128) : OkPairs (optPair t o) := by
  cases o with
  | none => exact okPairs_nil
  | some v =>
    intro p hp
    simp only [optPair, List.mem_singleton] at hp
    subst hp
    exact ⟨h0, ht, hq v ho⟩

theorem runePairs_ok (r : Runestone) (ht : r.typed = true) : OkPairs (runePairs r) := by
  obtain ⟨es, et, m, p⟩ := r
  simp only [Runestone.typed, Bool.and_eq_true] at ht
  have lt8 : ∀ v : Nat, decide (v < 2 ^ 8) = true → v < 2 ^ 128 := fun v h => by
    have : v < 2 ^ 8 := of_decide_eq_true h
    omega
  have lt32 : ∀ v : Nat, decide (v < 2 ^ 32) = true → v < 2 ^ 128 := fun v h => by
    have : v < 2 ^ 32 := of_decide_eq_true h
    omega
  have lt64 : ∀ v : Nat, decide (v < 2 ^ 64) = true → v < 2 ^ 128 := fun v h => by
    have : v < 2 ^ 64 := of_decide_eq_true h
    omega
  have lt128 : ∀ v : Nat, decide (v < 2 ^ 128) = true → v < 2 ^ 128 := fun v h => of_decide_eq_true h
  have ltc : ∀ v : Nat, isChar v = true → v < 2 ^ 128 := fun v h => by
    simp only [isChar, Bool.or_eq_true, Bool.and_eq_true, decide_eq_true_eq] at h
    omega
  unfold runePairs
  refine okPairs_append ?_ (okPairs_append ?_ ?_)
  · cases et with
    | none => exact okPairs_nil
    | some e =>
      have hte := ht.1.1.2
      simp only [Etching.typed, Bool.and_eq_true] at hte
      refine okPairs_append ?_ (okPairs_append ?_ (okPairs_append ?_ (okPairs_append ?_
        (okPairs_append ?_ (okPairs_append ?_ ?_)))))
      · intro q hq
        simp only [optPair, List.mem_singleton] at hq
        subst hq
        refine ⟨by simp, by simp, ?_⟩
        show etchingFlags e < 2 ^ 128
        unfold etchingFlags
        split <;> split <;> decide
      · exact okPairs_optPair 4 (by decide) (by decide) _ _ hte.1.1.1.2 lt128
      · exact okPairs_optPair 1 (by decide) (by decide) _ _ hte.1.1.1.1.1 lt8
      · exact okPairs_optPair 3 (by decide) (by decide) _ _ hte.1.1.2 lt32
      · exact okPairs_optPair 5 (by decide) (by decide) _ _ hte.1.2 ltc
      · exact okPairs_optPair 6 (by decide) (by decide) _ _ hte.1.1.1.1.2 lt128
      · cases hterms : e.terms with
        | none => exact okPairs_nil
        | some t =>
          have htt := hte.2
          rw [hterms] at htt
          simp only [Terms.typed, Bool.and_eq_true] at htt
          unfold termsPairs
          refine okPairs_append ?_ (okPairs_append ?_ (okPairs_append ?_ (okPairs_append ?_
            (okPairs_append ?_ ?_))))
          · exact okPairs_optPair 10 (by decide) (by decide) _ _ htt.1.1.1.1.1 lt128
          · exact okPairs_optPair 8 (by decide) (by decide) _ _ htt.1.1.1.1.2 lt128
          · exact okPairs_optPair 12 (by decide) (by decide) _ _ htt.1.1.1.2 lt64
          · exact okPairs_optPair 14 (by decide) (by decide) _ _ htt.1.1.2 lt64
          · exact okPairs_optPair 16 (by decide) (by decide) _ _ htt.1.2 lt64
          · exact okPairs_optPair 18 (by decide) (by decide) _ _ htt.2 lt64
  · cases m with
    | none => exact okPairs_nil
    | some i =>
      have hi := ht.1.2
      simp only [RuneId.typed, Bool.and_eq_true, decide_eq_true_eq] at hi
      intro q hq
      simp only [mintPairs, List.mem_cons, List.mem_nil_iff, or_false] at hq
      rcases hq with rfl | rfl
      · exact ⟨by simp, by simp, by show i.block < 2 ^ 128; omega⟩
      · exact ⟨by simp, by simp, by show i.tx < 2 ^ 128; omega⟩
  · exact okPairs_optPair 22 (by decide) (by decide) _ _ ht.2 lt32

theorem pairInts_lt (ps : Fields) (h : OkPairs ps) : ∀ x ∈ pairInts ps, x < 2 ^ 128 := by
  induction ps with
  | nil => intro x hx; cases hx
  | cons p ps ih =>
    obtain ⟨t, v⟩ := p
    intro x hx
    simp only [pairInts, List.mem_cons] at hx
    have hp := h (t, v) List.mem_cons_self
    rcases hx with rfl | rfl | hx
    · exact hp.2.1
    · exact hp.2.2
    · exact ih (fun q hq => h q (List.mem_cons_of_mem _ hq)) x hx

/-- **message layer of the round trip** -/
theorem encipherInts_roundtrip (r : Runestone) (n : Nat) (ht : r.typed = true) (hw : r.wf n = true) :
    ∃ ints, encipherInts r = .ok ints ∧ (∀ x ∈ ints, x < 2 ^ 128)
      ∧ decipherInts n ints = .ok (.runestone r.sorted) := by
  have hok := runePairs_ok r ht
  have hpf := parseFields_roundtrip r n ht hw
  have hlt := pairInts_lt _ hok
  have hw' := hw
  simp only [Runestone.wf, Bool.and_eq_true, decide_eq_true_eq] at hw'
  have hn : n < 2 ^ 32 := hw'.1.1.1.1
  have hsupply : supplyOverflows r.etching = false := by
    cases het : r.etching with
    | none => rfl
    | some e =>
      have := hw'.1.1.2
      rw [het] at this
      simp only [Etching.wf, Bool.and_eq_true] at this
      simp [supplyOverflows, this.2]
  -- the message `decipher` sees
  have hmsg : ∀ S, decipherMsg n ⟨none, S, runePairs r ++ []⟩
      = .runestone ⟨S, r.etching, r.mint, r.pointer⟩ := by
    intro S
    simp [decipherMsg, hpf, hsupply, orFlaw, hasEvenTag]
  unfold encipherInts
  rw [fieldInts_eq]
  cases hed : r.edicts with
  | nil =>
    refine ⟨pairInts (runePairs r), by simp, hlt, ?_⟩
    have h0 : Message.fromIntegers n [] = .ok ⟨none, [], []⟩ := rfl
    have := fromIntegers_pairInts n [] _ h0 (runePairs r) (fun p hp => (hok p hp).1)
    simp only [List.append_nil] at this
    simp only [decipherInts, this]
    have hm := hmsg []
    simp only [List.append_nil] at hm
    simp [hm, Runestone.sorted, hed, sortEdicts]
  | cons e0 es0 =>
    have htyped := ht
    simp only [Runestone.typed, Bool.and_eq_true, List.all_eq_true] at htyped
    have hall : ∀ e ∈ sortEdicts r.edicts, e.typed = true ∧ e.id.valid = true ∧ e.output ≤ n := by
      intro e he
      rw [mem_sortEdicts] at he
      have h1 := htyped.1.1.1 e he
      have h2 := hw'.1.1.1.2
      simp only [List.all_eq_true, Bool.and_eq_true, decide_eq_true_eq] at h2
      exact ⟨h1, (h2 e he).1, (h2 e he).2⟩
    obtain ⟨ints, h1, h2, h3⟩ := edicts_roundtrip n hn (sortEdicts r.edicts) ⟨0, 0⟩
      (chain_sortEdicts _) (by decide) hall
    rw [hed] at h1 h2
    refine ⟨pairInts (runePairs r) ++ 0 :: ints, by simp [h1], ?_, ?_⟩
    · intro x hx
      rcases List.mem_append.mp hx with h | h
      · exact hlt x h
      · rcases List.mem_cons.mp h with rfl | h
        · decide
        · exact h3 x h
    · have h0 : Message.fromIntegers n (0 :: ints) = .ok ⟨none, sortEdicts (e0 :: es0), []⟩ := by
        cases ints <;> simp [Message.fromIntegers, h2]
      have := fromIntegers_pairInts n _ _ h0 (runePairs r) (fun p hp => (hok p hp).1)
      simp only [decipherInts, this, hmsg]
      simp [Runestone.sorted, hed]

end Ord.Runestone
