import OrdModel.Proofs.IndexLiftInsNumChain
/-
Lift of the inscription-side invariants, part 9: a generic principle — every predicate on the
inscription tables (`Insnum.Tabs`: entries, id2seq, num2seq, sat2seq, children, coll2latest,
latest2coll, blessed, cursed) that is preserved by each call of `update_inscription_location`
holds in every reachable state — and its instance for C07: the latest-child tables.
-/
namespace Ord.Index.InsLift
open Ord Ord.Index Outcome Sched Insloc Insnum

/-! ### generic lift -/

/-- `P` is preserved by every successful `update_inscription_location` -/
def UlocStable (P : Tabs → Prop) : Prop :=
  ∀ (cfg : Cfg) (height time : Nat) (ir : Option (List (Nat × Nat))) (fl : Flotsam) (sp : SatPoint) (opr : Bool)
    (tgt : Target) (ls ls' : LocState),
    updateInscriptionLocation cfg height time ir fl sp opr tgt ls = .ok ls' → P (tabs ls.st) → P (tabs ls'.st)

theorem applyLocations_tabsP {P : Tabs → Prop} (hP : UlocStable P) (cfg : Cfg) (height time : Nat)
    (ir : Option (List (Nat × Nat))) (locs : List (SatPoint × Flotsam × Bool)) (ls ls' : LocState)
    (h : applyLocations cfg height time ir locs ls = .ok ls') (h0 : P (tabs ls.st)) : P (tabs ls'.st) := by
  induction locs generalizing ls with
  | nil => simp [applyLocations] at h; subst h; exact h0
  | cons x rest ih =>
    obtain ⟨sp, fl, opr⟩ := x
    simp only [applyLocations] at h
    split at h
    · simp at h
    · simp at h
    · next ls1 h1 => exact ih ls1 h (hP _ _ _ _ _ _ _ _ _ _ h1 h0)

theorem applyLost_tabsP {P : Tabs → Prop} (hP : UlocStable P) (cfg : Cfg) (height time : Nat)
    (ir : Option (List (Nat × Nat))) (ov : Nat) (fls : List Flotsam) (ls ls' : LocState)
    (h : applyLost cfg height time ir ov fls ls = .ok ls') (h0 : P (tabs ls.st)) : P (tabs ls'.st) := by
  induction fls generalizing ls with
  | nil => simp [applyLost] at h; subst h; exact h0
  | cons fl rest ih =>
    simp only [applyLost] at h
    split at h
    · simp at h
    · simp at h
    · next ls1 h1 => exact ih ls1 h (hP _ _ _ _ _ _ _ _ _ _ h1 h0)

theorem placeTx_tabsP {P : Tabs → Prop} (hP : UlocStable P) (cfg : Cfg) (height time : Nat) (tx : Tx)
    (rs : Option (List (Nat × Nat))) (cb : Bool) (totalIn : Nat) (floating : List Flotsam) (st1 : State)
    (ls ls' : LocState) (ht : tabs st1 = tabs ls.st)
    (h : placeTx cfg height time tx rs cb totalIn floating st1 ls = .ok ls') (h0 : P (tabs ls.st)) :
    P (tabs ls'.st) := by
  cases cb with
  | true =>
    simp only [placeTx, ↓reduceIte] at h
    split at h
    · simp at h
    · simp at h
    · next ls2 h2 =>
      split at h
      · simp at h
      · simp at h
      · next ls3 h3 =>
        split at h
        · simp at h
        · simp only [ok.injEq] at h; subst h
          have p2 := applyLocations_tabsP hP _ _ _ _ _ _ _ h2 (by rw [show tabs _ = tabs st1 from rfl, ht]; exact h0)
          show P (tabs ls3.st)
          exact applyLost_tabsP hP _ _ _ _ _ _ _ _ h3 p2
  | false =>
    simp only [placeTx, Bool.false_eq_true, ↓reduceIte] at h
    split at h
    · simp at h
    · simp at h
    · next ls2 h2 =>
      split at h
      · simp at h
      · simp only [ok.injEq] at h; subst h
        show P (tabs ls2.st)
        exact applyLocations_tabsP hP _ _ _ _ _ _ _ h2 (by rw [show tabs _ = tabs st1 from rfl, ht]; exact h0)

theorem indexInscriptions_tabsP {P : Tabs → Prop} (hP : UlocStable P) (cfg : Cfg) (height time : Nat) (tx : Tx)
    (inputs : List (TxIn × UtxoEntry)) (rs : Option (List (Nat × Nat))) (ls ls' : LocState)
    (hok : indexInscriptions cfg height time tx inputs rs ls = .ok ls') (h0 : P (tabs ls.st)) : P (tabs ls'.st) := by
  rw [Insloc.indexInscriptions_eq] at hok
  split at hok
  · simp at hok
  · simp at hok
  · next sc hsc =>
    split at hok
    · simp at hok
    · split at hok
      · simp at hok
      · exact placeTx_tabsP hP _ _ _ _ _ _ _ _ _ _ _ (by split <;> rfl) hok h0

theorem indexTx_tabsP {P : Tabs → Prop} (hP : UlocStable P) (cfg : Cfg) (blk : Block) (insOn : Bool) (txOffset : Nat)
    (tx : Tx) (bc bc' : BlockCtx) (h : indexTx cfg blk insOn txOffset tx bc = .ok bc') (h0 : P (tabs bc.st)) :
    P (tabs bc'.st) := by
  obtain ⟨bc1, inputs, bc3, outs3, hin, hmid, rfl⟩ := indexTx_decomp _ _ _ _ _ _ _ h
  have htabs1 : tabs bc1.st = tabs bc.st := by
    by_cases hz : txOffset = 0
    · simp only [hz, if_true] at hin
      obtain ⟨rfl, _⟩ := hin
      rfl
    · simp only [hz, if_false] at hin
      exact tabs_of_core (takeInputEntries_basic _ _ _ _ _ _ hin).2.1
  obtain ⟨m, outs2, ir, _, _, _, hcase⟩ := indexTxMid_cases _ _ _ _ _ _ _ _ _ hmid
  show P (tabs bc3.st)
  cases hi : insOn with
  | false =>
    simp only [hi, Bool.false_eq_true, if_false] at hcase
    rw [hcase.1, show tabs { bc1.st with sat2sp := m } = tabs bc1.st from rfl, htabs1]; exact h0
  | true =>
    simp only [hi, if_true] at hcase
    obtain ⟨ls', hls, hst, _, _⟩ := hcase
    rw [hst]
    exact indexInscriptions_tabsP hP _ _ _ _ _ _ _ _ hls
      (by rw [show tabs { bc1.st with sat2sp := m } = tabs bc1.st from rfl, htabs1]; exact h0)

theorem indexTxs_tabsP {P : Tabs → Prop} (hP : UlocStable P) (cfg : Cfg) (blk : Block) (insOn : Bool)
    (l : List (Nat × Tx)) (bc bc' : BlockCtx) (h : indexTxs cfg blk insOn l bc = .ok bc') (h0 : P (tabs bc.st)) :
    P (tabs bc'.st) := by
  induction l generalizing bc with
  | nil => simp only [indexTxs, Outcome.ok.injEq] at h; subst h; exact h0
  | cons p rest ih =>
    obtain ⟨i, tx⟩ := p
    simp only [indexTxs] at h
    split at h
    · cases h
    · cases h
    · rename_i bc1 h1
      exact ih bc1 h (indexTx_tabsP hP _ _ _ _ _ _ _ h1 h0)

theorem applyBlock_tabsP {P : Tabs → Prop} (hP : UlocStable P) (cfg : Cfg) (st : State) (blk : Block) (st' : State)
    (ev : List Event) (h : applyBlock cfg st blk = .ok (st', ev)) (h0 : P (tabs st)) : P (tabs st') := by
  unfold applyBlock at h
  cases hflags : (cfg.indexInscriptions || cfg.indexAddresses || cfg.indexSats) with
  | false =>
    simp only [hflags, Bool.false_eq_true, if_false] at h
    rw [tabs_of_insCore (applyBlock_after cfg blk st [] st' ev h)]; exact h0
  | true =>
    simp only [hflags, if_true] at h
    cases hu : indexUtxoEntries cfg st blk with
    | panic e => rw [hu] at h; cases h
    | err e => rw [hu] at h; cases h
    | ok r =>
      obtain ⟨a1, ev1⟩ := r
      rw [hu] at h
      simp only at h
      rw [tabs_of_insCore (applyBlock_after cfg blk a1 ev1 st' ev h)]
      rw [indexUtxoEntries_eq] at hu
      cases ht : indexTxs cfg blk (insOnOf cfg blk) (blockOrder blk) (bc0A cfg st blk) with
      | panic e => rw [ht] at hu; cases hu
      | err e => rw [ht] at hu; cases hu
      | ok bc =>
        rw [ht] at hu
        simp only [Outcome.ok.injEq, Prod.mk.injEq] at hu
        rw [← hu.1, tabs_of_core (flushCache_core cfg _ _), endState_tabs]
        exact indexTxs_tabsP hP _ _ _ _ _ _ ht h0

/-- **Generic lift**: a predicate on the inscription tables that holds of the empty index and is
preserved by every `update_inscription_location` holds after every chain. -/
theorem run_tabsP {P : Tabs → Prop} (hP : UlocStable P) (h0 : P (tabs {})) (cfg : Cfg) (chain : List Block)
    (st : State) (evs : List Event) (h : run cfg chain = .ok (st, evs)) : P (tabs st) :=
  run_induct cfg (fun _ st _ => P (tabs st)) h0
    (fun _ st _ b st' ev' hp hb => applyBlock_tabsP hP cfg st b st' ev' hb hp) chain st evs h

/-! ### C07: the latest-child tables -/

theorem maxOf_eq (l : List Nat) (s : Nat) (hle : ∀ x ∈ l, x ≤ s) (hm : s ∈ l) : maxOf l = s := by
  induction l with
  | nil => cases hm
  | cons a rest ih =>
    simp only [maxOf]
    have ha : a ≤ s := hle a List.mem_cons_self
    rcases List.mem_cons.1 hm with rfl | hm
    · have : maxOf rest ≤ s := by
        clear ih hm
        induction rest with
        | nil => simp [maxOf]
        | cons b r ihr =>
          simp only [maxOf]
          have hb : b ≤ s := hle b (by simp)
          have := ihr (fun x hx => hle x (by
            rcases List.mem_cons.1 hx with rfl | hx
            · exact List.mem_cons_self
            · exact List.mem_cons_of_mem _ (List.mem_cons_of_mem _ hx)))
          exact Nat.max_le.2 ⟨hb, this⟩
      exact Nat.max_eq_left this
    · rw [ih (fun x hx => hle x (List.mem_cons_of_mem _ hx)) hm]
      exact Nat.max_eq_right ha

/-- children of parent `p` listed by the children table -/
def childrenOf (ch : List (Nat × Nat)) (p : Nat) : List Nat := (ch.filter (·.1 == p)).map (·.2)

theorem mem_childrenOf (ch : List (Nat × Nat)) (p c : Nat) : c ∈ childrenOf ch p ↔ (p, c) ∈ ch := by
  unfold childrenOf
  simp only [List.mem_map, List.mem_filter, beq_iff_eq, Prod.exists]
  constructor
  · rintro ⟨a, b, ⟨hm, rfl⟩, rfl⟩; exact hm
  · intro hm; exact ⟨p, c, ⟨hm, rfl⟩, rfl⟩

theorem childrenOf_insertUnique_ne (ch : List (Nat × Nat)) (p q s : Nat) (h : p ≠ q) :
    childrenOf (insertUnique ch (q, s)) p = childrenOf ch p := by
  unfold insertUnique childrenOf
  split
  · rfl
  · rw [List.filter_append]
    have : ((q, s).1 == p) = false := by simpa using fun hq => h hq.symm
    simp [List.filter_cons, this]

/-- C07 invariant of the latest-child tables; `n` bounds the child sequence numbers -/
structure LInv (es : List InsEntry) (ch c2l l2c : List (Nat × Nat)) (n : Nat) : Prop where
  bound : ∀ p c, (p, c) ∈ ch → c < n
  lt : ∀ p c, (p, c) ∈ ch → p < c
  parentEntry : ∀ p c, (p, c) ∈ ch → ∃ e : InsEntry, es[p]? = some e
  hiddenNone : ∀ (p : Nat) (e : InsEntry), es[p]? = some e → e.hidden = true → AL.get c2l p = none
  latest : ∀ (p : Nat) (e : InsEntry), es[p]? = some e → e.hidden = false → (∃ c, (p, c) ∈ ch) →
    AL.get c2l p = some (maxOf (childrenOf ch p))
  fwd : ∀ p l, AL.get c2l p = some l → (l, p) ∈ l2c ∧ (p, l) ∈ ch
  bwd : ∀ l p, (l, p) ∈ l2c → AL.get c2l p = some l
  keys : (AL.keys c2l).Nodup

def LInvT (t : Tabs) : Prop := LInv t.entries t.children t.coll2latest t.latest2coll t.entries.length

theorem linv_empty : LInvT (tabs {}) := by
  refine ⟨?_, ?_, ?_, ?_, ?_, ?_, ?_, List.nodup_nil⟩ <;> intros <;> simp_all [tabs, AL.get]

/-- the parent loop for the new child `seq` keeps the invariant (children bounded by `seq + 1`) -/
theorem linkParents_linv (seq : Nat) (ps : List InscriptionId) :
    ∀ (st : State) (ids : List InscriptionId) (seqs : List Nat) (st' : State) (ids' : List InscriptionId) (seqs' : List Nat),
    linkParents seq ps st ids seqs = .ok (st', ids', seqs') → st.entries.length ≤ seq →
    LInv st.entries st.children st.coll2latest st.latest2coll (seq + 1) →
    LInv st.entries st'.children st'.coll2latest st'.latest2coll (seq + 1) := by
  induction ps with
  | nil =>
    intro st ids seqs st' ids' seqs' h _ hinv
    simp only [linkParents, Outcome.ok.injEq, Prod.mk.injEq] at h
    obtain ⟨rfl, _, _⟩ := h
    exact hinv
  | cons p rest ih =>
    intro st ids seqs st' ids' seqs' h hseq hinv
    simp only [linkParents] at h
    split at h
    · exact ih _ _ _ _ _ _ h hseq hinv
    · rename_i pseq hsome
      split at h
      · exact absurd h (by simp)
      · rename_i pentry hpe
        have hbnd : ∀ q c, (q, c) ∈ insertUnique st.children (pseq, seq) → c < seq + 1 := by
          intro q c hm
          rcases (mem_insertUnique _ _ _).1 hm with hm | hm
          · exact hinv.bound q c hm
          · simp only [Prod.mk.injEq] at hm; omega
        have hlt : ∀ q c, (q, c) ∈ insertUnique st.children (pseq, seq) → q < c := by
          intro q c hm
          rcases (mem_insertUnique _ _ _).1 hm with hm | hm
          · exact hinv.lt q c hm
          · simp only [Prod.mk.injEq] at hm
            have := (List.getElem?_eq_some_iff.1 hpe).1
            omega
        have hpar : ∀ q c, (q, c) ∈ insertUnique st.children (pseq, seq) → ∃ e : InsEntry, st.entries[q]? = some e := by
          intro q c hm
          rcases (mem_insertUnique _ _ _).1 hm with hm | hm
          · exact hinv.parentEntry q c hm
          · simp only [Prod.mk.injEq] at hm; rw [hm.1]; exact ⟨pentry, hpe⟩
        cases hh : pentry.hidden with
        | true =>
          simp only [hh, if_true] at h
          have := ih _ _ _ _ _ _ h hseq
          apply this
          refine ⟨hbnd, hlt, hpar, hinv.hiddenNone, ?_, ?_, hinv.bwd, hinv.keys⟩
          · intro q e he hv hex
            have hne : q ≠ pseq := by
              intro hq; subst hq
              rw [hpe] at he; simp only [Option.some.injEq] at he; subst he
              rw [hh] at hv; cases hv
            show AL.get st.coll2latest q = some (maxOf (childrenOf (insertUnique st.children (pseq, seq)) q))
            rw [childrenOf_insertUnique_ne _ _ _ _ hne]
            apply hinv.latest q e he hv
            obtain ⟨c, hc⟩ := hex
            rcases (mem_insertUnique _ _ _).1 hc with hc | hc
            · exact ⟨c, hc⟩
            · simp only [Prod.mk.injEq] at hc; exact absurd hc.1 hne
          · intro q l hg
            obtain ⟨h1, h2⟩ := hinv.fwd q l hg
            exact ⟨h1, (mem_insertUnique _ _ _).2 (Or.inl h2)⟩
        | false =>
          simp only [hh, Bool.false_eq_true, if_false] at h
          have := ih _ _ _ _ _ _ h hseq
          apply this
          -- the filtered reverse table
          have hl2c : ∀ x, x ∈ (match AL.get st.coll2latest pseq with
                | some oldLatest => st.latest2coll.filter (fun x => !(x == (oldLatest, pseq)))
                | none => st.latest2coll) →
              x ∈ st.latest2coll ∧ x.2 ≠ pseq := by
            intro x hx
            cases hg : AL.get st.coll2latest pseq with
            | none =>
              rw [hg] at hx
              refine ⟨hx, fun hx2 => ?_⟩
              have := hinv.bwd x.1 x.2 hx
              rw [hx2, hg] at this; cases this
            | some old =>
              rw [hg] at hx
              simp only [List.mem_filter, Bool.not_eq_true', beq_eq_false_iff_ne, ne_eq] at hx
              refine ⟨hx.1, fun hx2 => ?_⟩
              have := hinv.bwd x.1 x.2 hx.1
              rw [hx2, hg] at this
              simp only [Option.some.injEq] at this
              exact hx.2 (by rw [← hx2, this])
          have hl2c' : ∀ x, x ∈ st.latest2coll → x.2 ≠ pseq → x ∈ (match AL.get st.coll2latest pseq with
                | some oldLatest => st.latest2coll.filter (fun x => !(x == (oldLatest, pseq)))
                | none => st.latest2coll) := by
            intro x hx hne
            cases hg : AL.get st.coll2latest pseq with
            | none => exact hx
            | some old =>
              simp only [List.mem_filter, Bool.not_eq_true', beq_eq_false_iff_ne, ne_eq]
              exact ⟨hx, fun heq => hne (by rw [heq])⟩
          refine ⟨hbnd, hlt, hpar, ?_, ?_, ?_, ?_, AL.nodup_set _ _ _ hinv.keys⟩
          · intro q e he hv
            have hne : pseq ≠ q := by
              intro hq; subst hq
              rw [hpe] at he; simp only [Option.some.injEq] at he; subst he
              rw [hh] at hv; cases hv
            show AL.get (AL.set st.coll2latest pseq seq) q = none
            rw [AL.get_set_ne _ _ hne]
            exact hinv.hiddenNone q e he hv
          · intro q e he hv hex
            show AL.get (AL.set st.coll2latest pseq seq) q = some (maxOf (childrenOf (insertUnique st.children (pseq, seq)) q))
            by_cases hq : pseq = q
            · subst hq
              rw [AL.get_set_self]
              congr 1
              symm
              apply maxOf_eq
              · intro x hx
                have := hbnd pseq x ((mem_childrenOf _ _ _).1 hx)
                omega
              · exact (mem_childrenOf _ _ _).2 ((mem_insertUnique _ _ _).2 (Or.inr rfl))
            · rw [AL.get_set_ne _ _ hq, childrenOf_insertUnique_ne _ _ _ _ (fun h => hq h.symm)]
              apply hinv.latest q e he hv
              obtain ⟨c, hc⟩ := hex
              rcases (mem_insertUnique _ _ _).1 hc with hc | hc
              · exact ⟨c, hc⟩
              · simp only [Prod.mk.injEq] at hc; exact absurd hc.1.symm hq
          · intro q l hg
            have hg : AL.get (AL.set st.coll2latest pseq seq) q = some l := hg
            rw [AL.get_set] at hg
            by_cases hq : pseq = q
            · subst hq
              simp only [beq_self_eq_true, if_true, Option.some.injEq] at hg
              subst hg
              exact ⟨(mem_insertUnique _ _ _).2 (Or.inr rfl), (mem_insertUnique _ _ _).2 (Or.inr rfl)⟩
            · have hb : (pseq == q) = false := by simpa using hq
              rw [hb] at hg
              simp only [Bool.false_eq_true, if_false] at hg
              obtain ⟨h1, h2⟩ := hinv.fwd q l hg
              exact ⟨(mem_insertUnique _ _ _).2 (Or.inl (hl2c' (l, q) h1 (fun h => hq h.symm))),
                (mem_insertUnique _ _ _).2 (Or.inl h2)⟩
          · intro l q hm
            show AL.get (AL.set st.coll2latest pseq seq) q = some l
            rcases (mem_insertUnique _ _ _).1 hm with hm | hm
            · obtain ⟨h1, h2⟩ := hl2c (l, q) hm
              rw [AL.get_set_ne _ _ (fun h => h2 h.symm)]
              exact hinv.bwd l q h1
            · simp only [Prod.mk.injEq] at hm
              obtain ⟨rfl, rfl⟩ := hm
              exact AL.get_set_self _ _ _

theorem getElem?_append_some {α : Type} (l : List α) (a x : α) (i : Nat) (h : l[i]? = some x) : (l ++ [a])[i]? = some x := by
  rw [List.getElem?_append_left (List.getElem?_eq_some_iff.1 h).1]; exact h

/-- appending the new child's entry -/
theorem linv_append {es : List InsEntry} {ch c2l l2c : List (Nat × Nat)} (h : LInv es ch c2l l2c (es.length + 1))
    (e : InsEntry) : LInv (es ++ [e]) ch c2l l2c (es ++ [e]).length := by
  have hlen : (es ++ [e]).length = es.length + 1 := by simp
  have hold : ∀ (p : Nat) (x : InsEntry), (es ++ [e])[p]? = some x → es[p]? = some x ∨ p = es.length := by
    intro p x hx
    rcases getElem?_snoc _ _ _ _ hx with h1 | ⟨h1, _⟩
    · exact Or.inl h1
    · exact Or.inr h1
  have hnokey : AL.get c2l es.length = none := by
    cases hg : AL.get c2l es.length with
    | none => rfl
    | some l =>
      obtain ⟨x, hx⟩ := h.parentEntry _ _ (h.fwd _ _ hg).2
      have := (List.getElem?_eq_some_iff.1 hx).1
      omega
  refine ⟨by rw [hlen]; exact h.bound, h.lt, ?_, ?_, ?_, h.fwd, h.bwd, h.keys⟩
  · intro p c hm
    obtain ⟨x, hx⟩ := h.parentEntry p c hm
    exact ⟨x, getElem?_append_some _ _ _ _ hx⟩
  · intro p x hx hv
    rcases hold p x hx with h1 | h1
    · exact h.hiddenNone p x h1 hv
    · rw [h1]; exact hnokey
  · intro p x hx hv hex
    rcases hold p x hx with h1 | h1
    · exact h.latest p x h1 hv hex
    · obtain ⟨c, hc⟩ := hex
      obtain ⟨y, hy⟩ := h.parentEntry p c hc
      have := (List.getElem?_eq_some_iff.1 hy).1
      omega

/-- setting the Burned charm of an old entry -/
theorem linv_burn {es : List InsEntry} {ch c2l l2c : List (Nat × Nat)} {n : Nat} (h : LInv es ch c2l l2c n)
    (k : Nat) (entry : InsEntry) (hk : es[k]? = some entry) :
    LInv (es.set k { entry with charms := setCharm entry.charms charmBurned }) ch c2l l2c n := by
  have hget : ∀ (i : Nat) (x : InsEntry), (es.set k { entry with charms := setCharm entry.charms charmBurned })[i]? = some x →
      ∃ y : InsEntry, es[i]? = some y ∧ x.hidden = y.hidden := by
    intro i x hx
    rw [List.getElem?_set] at hx
    split at hx
    · rename_i hki
      subst hki
      split at hx
      · simp only [Option.some.injEq] at hx
        subst hx
        exact ⟨entry, hk, rfl⟩
      · cases hx
    · exact ⟨x, hx, rfl⟩
  refine ⟨h.bound, h.lt, ?_, ?_, ?_, h.fwd, h.bwd, h.keys⟩
  · intro p c hm
    obtain ⟨y, hy⟩ := h.parentEntry p c hm
    by_cases hkp : k = p
    · subst hkp
      rw [hk] at hy
      exact ⟨_, by rw [List.getElem?_set_self (List.getElem?_eq_some_iff.1 hk).1]⟩
    · exact ⟨y, by rw [List.getElem?_set_ne hkp]; exact hy⟩
  · intro p x hx hv
    obtain ⟨y, hy, hh⟩ := hget p x hx
    exact h.hiddenNone p y hy (by rw [← hh]; exact hv)
  · intro p x hx hv hex
    obtain ⟨y, hy, hh⟩ := hget p x hx
    exact h.latest p y hy (by rw [← hh]; exact hv) hex

theorem linv_stable : UlocStable LInvT := by
  intro cfg height time ir fl sp opr tgt ls ls' h hinv
  rw [uloc_unfold] at h
  obtain ⟨ub, seq, st, ctx, hstep⟩ := finish_ok h
  rw [hstep] at h
  obtain ⟨htabs, _⟩ := finish_inv h
  rw [htabs]
  cases hfo : fl.origin with
  | old oseq oldSp =>
    rw [hfo] at hstep
    simp only at hstep
    obtain ⟨_, hcase⟩ := oldStep_inv hstep
    rcases hcase with ht | ⟨entry, he, ht⟩
    · rw [ht]; exact hinv
    · rw [ht]
      have := linv_burn hinv oseq entry he
      unfold LInvT
      simpa [tabs] using this
  | new c fee g hid ps r u v =>
    rw [hfo] at hstep
    simp only at hstep
    obtain ⟨sat, st3, pids, pseqs, _, _, hlink, _, _, _, ht⟩ := newStep_inv hstep
    have hA : LInv (allocState ls.st c sat).entries (allocState ls.st c sat).children (allocState ls.st c sat).coll2latest
        (allocState ls.st c sat).latest2coll (ls.st.entries.length + 1) := by
      have h1 := allocState_tabs ls.st c sat
      have e1 : (allocState ls.st c sat).entries = ls.st.entries := by have := congrArg Tabs.entries h1; exact this
      have e2 : (allocState ls.st c sat).children = ls.st.children := by have := congrArg Tabs.children h1; exact this
      have e3 : (allocState ls.st c sat).coll2latest = ls.st.coll2latest := by have := congrArg Tabs.coll2latest h1; exact this
      have e4 : (allocState ls.st c sat).latest2coll = ls.st.latest2coll := by have := congrArg Tabs.latest2coll h1; exact this
      rw [e1, e2, e3, e4]
      have hi : LInv ls.st.entries ls.st.children ls.st.coll2latest ls.st.latest2coll ls.st.entries.length := hinv
      exact ⟨fun p c hm => Nat.lt_succ_of_lt (hi.bound p c hm), hi.lt, hi.parentEntry, hi.hiddenNone, hi.latest, hi.fwd, hi.bwd, hi.keys⟩
    have heA0 : (allocState ls.st c sat).entries = ls.st.entries := by
      have := congrArg Tabs.entries (allocState_tabs ls.st c sat); exact this
    have h3 := linkParents_linv _ _ _ _ _ _ _ _ hlink (by rw [heA0]; exact Nat.le_refl _) hA
    have he3 : st3.entries = ls.st.entries := by
      have f := (Insnum.linkParents_frame _ _ _ _ _ _ _ _ hlink).1
      rw [f]
      have := congrArg Tabs.entries (allocState_tabs ls.st c sat); exact this
    have heA : (allocState ls.st c sat).entries = ls.st.entries := by
      have := congrArg Tabs.entries (allocState_tabs ls.st c sat); exact this
    rw [heA] at h3
    have h4 := linv_append h3 ⟨newCharms c r sat opr sp.outpoint.isNull u v, fee, height, hid, fl.id,
          numberOf ls.st c, pseqs, sat, ls.st.entries.length, time⟩
    rw [ht]
    unfold LInvT
    simp only [tabs]
    rw [he3]
    exact h4

/-! ### C07: the children table and the entries' parent lists are inverse -/

structure CInv (es : List InsEntry) (ch : List (Nat × Nat)) : Prop where
  ofChild : ∀ p c, (p, c) ∈ ch → ∃ e : InsEntry, es[c]? = some e ∧ p ∈ e.parents
  ofParent : ∀ (i : Nat) (e : InsEntry), es[i]? = some e → ∀ p ∈ e.parents, (p, i) ∈ ch

def CInvT (t : Tabs) : Prop := CInv t.entries t.children

theorem cinv_empty : CInvT (tabs {}) := by
  refine ⟨?_, ?_⟩ <;> intros <;> simp_all [tabs]

theorem cinv_burn {es : List InsEntry} {ch : List (Nat × Nat)} (h : CInv es ch)
    (k : Nat) (entry : InsEntry) (hk : es[k]? = some entry) :
    CInv (es.set k { entry with charms := setCharm entry.charms charmBurned }) ch := by
  refine ⟨?_, ?_⟩
  · intro p c hm
    obtain ⟨y, hy, hp⟩ := h.ofChild p c hm
    by_cases hkc : k = c
    · subst hkc
      rw [hk] at hy
      simp only [Option.some.injEq] at hy
      subst hy
      refine ⟨{ entry with charms := setCharm entry.charms charmBurned }, ?_, hp⟩
      rw [List.getElem?_set_self (List.getElem?_eq_some_iff.1 hk).1]
    · exact ⟨y, by rw [List.getElem?_set_ne hkc]; exact hy, hp⟩
  · intro i x hx q hq
    rw [List.getElem?_set] at hx
    split at hx
    · rename_i hki
      subst hki
      split at hx
      · simp only [Option.some.injEq] at hx
        subst hx
        exact h.ofParent k entry hk q hq
      · cases hx
    · exact h.ofParent i x hx q hq

theorem cinv_stable : UlocStable CInvT := by
  intro cfg height time ir fl sp opr tgt ls ls' h hinv
  rw [uloc_unfold] at h
  obtain ⟨ub, seq, st, ctx, hstep⟩ := finish_ok h
  rw [hstep] at h
  obtain ⟨htabs, _⟩ := finish_inv h
  rw [htabs]
  cases hfo : fl.origin with
  | old oseq oldSp =>
    rw [hfo] at hstep
    simp only at hstep
    obtain ⟨_, hcase⟩ := oldStep_inv hstep
    rcases hcase with ht | ⟨entry, he, ht⟩
    · rw [ht]; exact hinv
    · rw [ht]
      have := cinv_burn hinv oseq entry he
      unfold CInvT
      simpa [tabs] using this
  | new c fee g hid ps r u v =>
    rw [hfo] at hstep
    simp only at hstep
    obtain ⟨sat, st3, pids, pseqs, _, _, hlink, _, _, _, ht⟩ := newStep_inv hstep
    have heA : (allocState ls.st c sat).entries = ls.st.entries := by
      have := congrArg Tabs.entries (allocState_tabs ls.st c sat); exact this
    have hcA : (allocState ls.st c sat).children = ls.st.children := by
      have := congrArg Tabs.children (allocState_tabs ls.st c sat); exact this
    have he3 : st3.entries = ls.st.entries := by
      rw [(Insnum.linkParents_frame _ _ _ _ _ _ _ _ hlink).1, heA]
    obtain ⟨h1, _, h3, h4, h5⟩ := linkParents_spec _ ps _ [] [] st3 pids pseqs hlink
    simp only [List.nil_append] at h1
    rw [hcA] at h3 h4
    have hi : CInv ls.st.entries ls.st.children := hinv
    rw [ht]
    unfold CInvT
    simp only [tabs]
    rw [he3]
    refine ⟨?_, ?_⟩
    · intro p cc hm
      rcases h3 (p, cc) hm with hm | ⟨hx, q, hq, hqs⟩
      · obtain ⟨e, he, hp⟩ := hi.ofChild p cc hm
        exact ⟨e, getElem?_append_some _ _ _ _ he, hp⟩
      · simp only at hx hqs
        subst hx
        refine ⟨⟨Insnum.newCharms c r sat opr sp.outpoint.isNull u v, fee, height, hid, fl.id, numberOf ls.st c, pseqs,
          sat, ls.st.entries.length, time⟩, by simp, ?_⟩
        show p ∈ pseqs
        rw [h1]
        exact List.mem_filterMap.2 ⟨q, hq, hqs⟩
    · intro i e he p hp
      rcases getElem?_snoc _ _ _ _ he with h0 | ⟨rfl, rfl⟩
      · exact h4 _ (hi.ofParent i e h0 p hp)
      · have hp' : p ∈ pseqs := hp
        rw [h1] at hp'
        obtain ⟨q, hq, hqs⟩ := List.mem_filterMap.1 hp'
        exact h5 q hq p hqs

end Ord.Index.InsLift
