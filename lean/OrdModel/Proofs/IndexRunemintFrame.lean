import OrdModel.Index.Block
/-
Group `runemint`, helper lemmas 6: towards "the sat / inscription / address part of a block
(`indexUtxoEntries`) does not touch any rune table".  Done here: the frame relation, `linkParents`,
and `updateInscriptionLocation` cut into named pieces (checked by `rfl`).  Not done: the frame
lemma for the pieces and for `indexInscriptions` / `indexTx` / `flushCache` (see notes/C11.md);
the chain-level theorems take it as the explicit hypothesis `UtxoFrame`.
-/
namespace Ord.Index.Runemint
open Ord.Index

/-- the seven rune tables / counters are the same in both states -/
def RuneFrame (st st' : State) : Prop :=
  st'.runeEntries = st.runeEntries ∧ st'.rune2id = st.rune2id ∧ st'.runes = st.runes ∧
  st'.reservedRunes = st.reservedRunes ∧ st'.txid2rune = st.txid2rune ∧ st'.balances = st.balances ∧
  st'.seq2rune = st.seq2rune

theorem RuneFrame.refl (st : State) : RuneFrame st st := ⟨rfl, rfl, rfl, rfl, rfl, rfl, rfl⟩

theorem RuneFrame.trans {a b c : State} (h1 : RuneFrame a b) (h2 : RuneFrame b c) : RuneFrame a c := by
  obtain ⟨a1, a2, a3, a4, a5, a6, a7⟩ := h1
  obtain ⟨b1, b2, b3, b4, b5, b6, b7⟩ := h2
  exact ⟨b1.trans a1, b2.trans a2, b3.trans a3, b4.trans a4, b5.trans a5, b6.trans a6, b7.trans a7⟩

theorem linkParents_frame (seq : Nat) : ∀ (ps : List InscriptionId) (st : State) (ids : List InscriptionId)
    (seqs : List Nat) (st' : State) (ids' : List InscriptionId) (seqs' : List Nat),
    linkParents seq ps st ids seqs = .ok (st', ids', seqs') → RuneFrame st st'
  | [], st, ids, seqs, st', ids', seqs', h => by
    simp only [linkParents, Outcome.ok.injEq, Prod.mk.injEq] at h
    rw [← h.1]; exact RuneFrame.refl st
  | p :: rest, st, ids, seqs, st', ids', seqs', h => by
    simp only [linkParents] at h
    split at h
    · exact linkParents_frame seq rest st ids seqs st' ids' seqs' h
    · split at h
      · simp at h
      · refine RuneFrame.trans ?_ (linkParents_frame seq rest _ _ _ st' ids' seqs' h)
        split <;> exact ⟨rfl, rfl, rfl, rfl, rfl, rfl, rfl⟩


/-! `updateInscriptionLocation` in named pieces (verbatim from the model) -/

def uilSat (inputRanges : Option (List (Nat × Nat))) (fl : Flotsam) (unbound : Bool) : Outcome (Option Nat) :=
  if unbound then .ok none
  else match inputRanges with
    | none => .ok none
    | some rs => match calculateSat rs 0 fl.offset with
      | .ok s => .ok (some s)
      | .panic s => .panic s
      | .err e => .err e

def uilNew (height time : Nat) (fl : Flotsam) (newSatpoint : SatPoint) (opReturn : Bool) (ls : LocState)
    (cursed : Bool) (fee : Nat) (gallery hidden : Bool) (parents : List InscriptionId)
    (reinscription unbound vindicated : Bool) (sat : Option Nat) : Outcome (Bool × Nat × State × InsCtx) :=
  let number : Int := if cursed then -((ls.st.cursed : Int) + 1) else (ls.st.blessed : Int)
  let st0 := if cursed then { ls.st with cursed := ls.st.cursed + 1 } else { ls.st with blessed := ls.st.blessed + 1 }
  let seq := st0.entries.length
  let st1 := { st0 with num2seq := AL.set st0.num2seq number seq }
  let c0 := if cursed then charmCursed else 0
  let c1 := if reinscription then setCharm c0 charmReinscription else c0
  let c2 := match sat with | some s => c1 + satCharms s | none => c1
  let c3 := if opReturn then setCharm c2 charmBurned else c2
  let c4 := if newSatpoint.outpoint.isNull then setCharm c3 charmLost else c3
  let c5 := if unbound then setCharm c4 charmUnbound else c4
  let charms := if vindicated then setCharm c5 charmVindicated else c5
  let st2 := match sat with
    | some s => { st1 with sat2seq := insertUnique st1.sat2seq (s, seq) }
    | none => st1
  match linkParents seq parents st2 [] [] with
  | .panic s => .panic s
  | .err e => .err e
  | .ok (st3, parentIds, parentSeqs) =>
    let st4 := if gallery && !hidden then { st3 with gallery := insertUnique st3.gallery seq } else st3
    let ev := Event.inscriptionCreated height charms fl.id (if unbound then none else some newSatpoint) parentIds seq
    let entry : InsEntry := ⟨charms, fee, height, hidden, fl.id, number, parentSeqs, sat, seq, time⟩
    let st5 := { st4 with entries := st4.entries ++ [entry], id2seq := AL.set st4.id2seq fl.id seq }
    let (st6, homeCount) :=
      if hidden then (st5, ls.ctx.homeCount)
      else
        let home := st5.home ++ [(seq, fl.id)]
        if ls.ctx.homeCount = 100 then ({ st5 with home := home.drop 1 }, ls.ctx.homeCount)
        else ({ st5 with home := home }, ls.ctx.homeCount + 1)
    .ok (unbound, seq, st6, { ls.ctx with events := ls.ctx.events ++ [ev], homeCount := homeCount })

def uilStep (height time : Nat) (inputRanges : Option (List (Nat × Nat)))
    (fl : Flotsam) (newSatpoint : SatPoint) (opReturn : Bool) (ls : LocState) : Outcome (Bool × Nat × State × InsCtx) :=
  match fl.origin with
  | .old seq oldSp =>
    match ls.st.entries[seq]? with
    | none => if opReturn then .panic "sequence_number_to_entry.get(&sequence_number).unwrap()" else
        .ok (false, seq, ls.st,
          { ls.ctx with events := ls.ctx.events ++ [.inscriptionTransferred height fl.id newSatpoint oldSp seq] })
    | some entry =>
      let st1 := if opReturn then
          { ls.st with entries := ls.st.entries.set seq { entry with charms := setCharm entry.charms charmBurned } }
        else ls.st
      .ok (false, seq, st1,
        { ls.ctx with events := ls.ctx.events ++ [.inscriptionTransferred height fl.id newSatpoint oldSp seq] })
  | .new cursed fee gallery hidden parents reinscription unbound vindicated =>
    if (if cursed then ls.st.cursed else ls.st.blessed) ≥ 2147483648 then
      .panic "inscription count try_into::<i32>().unwrap()"
    else
    match uilSat inputRanges fl unbound with
    | .panic s => .panic s
    | .err e => .err e
    | .ok sat => uilNew height time fl newSatpoint opReturn ls cursed fee gallery hidden parents reinscription unbound vindicated sat

theorem uil_eq (cfg : Cfg) (height time : Nat) (inputRanges : Option (List (Nat × Nat)))
    (fl : Flotsam) (newSatpoint : SatPoint) (opReturn : Bool) (target : Target) (ls : LocState) :
    updateInscriptionLocation cfg height time inputRanges fl newSatpoint opReturn target ls =
      match uilStep height time inputRanges fl newSatpoint opReturn ls with
      | .panic s => .panic s
      | .err e => .err e
      | .ok (unbound, seq, st, ctx) =>
        if unbound then
          let off := st.unbound
          let e := (ctx.unboundEntry.getD UtxoEntry.empty)
          .ok { st := { st with unbound := st.unbound + 1 },
                ctx := { ctx with unboundEntry := some (pushIns e seq off) }, outs := ls.outs }
        else
          match target with
          | .output vout =>
            match ls.outs[vout]? with
            | none => .panic "output_utxo_entries[vout]"
            | some e => .ok { st := st, ctx := ctx, outs := ls.outs.set vout (pushIns e seq newSatpoint.offset) }
          | .null =>
            if !newSatpoint.outpoint.isSpecial then .panic "assert!(Index::is_special_outpoint(satpoint.outpoint))"
            else
              let e := (ctx.nullEntry.getD UtxoEntry.empty)
              .ok { st := st, ctx := { ctx with nullEntry := some (pushIns e seq newSatpoint.offset) }, outs := ls.outs } := by
  rfl

end Ord.Index.Runemint
