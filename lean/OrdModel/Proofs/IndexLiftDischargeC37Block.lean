import OrdModel.Proofs.IndexLiftDischargeC37Tx
import OrdModel.Proofs.IndexLiftInsBlock
/-
C37, inscription components, part 3: one transaction of `index_utxo_entries` (`indexTx`: input
lookup, inscription pass, cache insertion) and all transactions of a block against the replay.
`BTrack c rs0 bc` = replaying the events emitted so far in this block (on top of the replay
state `rs0` at the start of the block) agrees with the block context `bc`.
-/
namespace Ord.Index.ReplayIns
open Ord Ord.Index Outcome Sched Insloc InsLift

/-! ### small list / association-list facts -/

theorem mem_erase_or {κ ν : Type} [BEq κ] [LawfulBEq κ] (l : List (κ × ν)) (k : κ) (p : κ × ν) (h : p ∈ l) :
    p ∈ AL.erase l k ∨ (p.1 = k ∧ AL.get l k = some p.2) := by
  induction l with
  | nil => cases h
  | cons q rest ih =>
    obtain ⟨k', v'⟩ := q
    simp only [AL.erase, AL.get]
    by_cases hk : (k' == k) = true
    · simp only [hk, if_true]
      rcases List.mem_cons.1 h with rfl | h
      · right; exact ⟨by simpa using hk, rfl⟩
      · left; exact h
    · have hk' : (k' == k) = false := by simpa using hk
      simp only [hk', Bool.false_eq_true, if_false]
      rcases List.mem_cons.1 h with rfl | h
      · left; exact List.mem_cons_self
      · rcases ih h with h1 | h1
        · left; exact List.mem_cons_of_mem _ h1
        · right; exact h1

theorem mem_set_of_ne {κ ν : Type} [BEq κ] [LawfulBEq κ] (l : List (κ × ν)) (k : κ) (v : ν) (p : κ × ν)
    (h : p ∈ l) (hne : p.1 ≠ k) : p ∈ AL.set l k v := by
  induction l with
  | nil => cases h
  | cons q rest ih =>
    obtain ⟨k', v'⟩ := q
    simp only [AL.set]
    by_cases hk : (k' == k) = true
    · simp only [hk, if_true]
      rcases List.mem_cons.1 h with rfl | h
      · exact absurd (by simpa using hk) hne
      · exact List.mem_cons_of_mem _ h
    · have hk' : (k' == k) = false := by simpa using hk
      simp only [hk', Bool.false_eq_true, if_false]
      rcases List.mem_cons.1 h with rfl | h
      · exact List.mem_cons_self
      · exact List.mem_cons_of_mem _ (ih h)

theorem mem_set_self {κ ν : Type} [BEq κ] [LawfulBEq κ] (l : List (κ × ν)) (k : κ) (v : ν) : (k, v) ∈ AL.set l k v := by
  induction l with
  | nil => simp [AL.set]
  | cons q rest ih =>
    obtain ⟨k', v'⟩ := q
    simp only [AL.set]
    split
    · exact List.mem_cons_self
    · exact List.mem_cons_of_mem _ ih

theorem mem_setAll_of_mem (txid : Txid) (l : List (Nat × UtxoEntry)) (c : Cache) (p : OutPoint × UtxoEntry)
    (hp : p ∈ c) (hne : p.1.txid ≠ txid) : p ∈ setAll txid l c := by
  induction l generalizing c with
  | nil => exact hp
  | cons q rest ih =>
    obtain ⟨v, e⟩ := q
    simp only [setAll, List.foldl_cons]
    exact ih _ (mem_set_of_ne c ⟨txid, v⟩ e p hp (fun h => hne (by rw [h])))

theorem mem_setAll_new (txid : Txid) (l : List (Nat × UtxoEntry)) (c : Cache) (v : Nat) (e : UtxoEntry)
    (h : (v, e) ∈ l) (hnd : (l.map (·.1)).Nodup) : (⟨txid, v⟩, e) ∈ setAll txid l c := by
  induction l generalizing c with
  | nil => cases h
  | cons q rest ih =>
    obtain ⟨v', e'⟩ := q
    simp only [List.map_cons, List.nodup_cons] at hnd
    simp only [setAll, List.foldl_cons]
    rcases List.mem_cons.1 h with h | h
    · simp only [Prod.mk.injEq] at h
      obtain ⟨rfl, rfl⟩ := h
      -- the entry just written survives the remaining (different) keys
      have key : ∀ (r : List (Nat × UtxoEntry)) (c : Cache), (⟨txid, v⟩, e) ∈ c → v ∉ r.map (·.1) →
          (⟨txid, v⟩, e) ∈ setAll txid r c := by
        intro r
        induction r with
        | nil => intro c hc _; exact hc
        | cons q r ihr =>
          intro c hc hn
          obtain ⟨w, f⟩ := q
          simp only [List.map_cons, List.mem_cons, not_or] at hn
          simp only [setAll, List.foldl_cons]
          exact ihr _ (mem_set_of_ne c ⟨txid, w⟩ f _ hc (fun h => hn.1 (by cases h; rfl))) hn.2
      exact key rest _ (mem_set_self c _ _) hnd.1
    · exact ih _ h hnd.2

theorem mem_enumFrom_of_get {α : Type} (l : List α) (n i : Nat) (a : α) (h : l[i]? = some a) :
    (n + i, a) ∈ enumFrom n l := by
  induction l generalizing n i with
  | nil => simp at h
  | cons b rest ih =>
    cases i with
    | zero => simp at h; subst h; simp [enumFrom]
    | succ j =>
      simp at h
      simp only [enumFrom, List.mem_cons]
      right
      have := ih (n + 1) j h
      have e : n + 1 + j = n + (j + 1) := by omega
      rw [e] at this; exact this

theorem nodup_enumFrom_fst {α : Type} (l : List α) (n : Nat) : ((enumFrom n l).map (·.1)).Nodup := by
  induction l generalizing n with
  | nil => simp [enumFrom]
  | cons a rest ih =>
    simp only [enumFrom, List.map_cons, List.nodup_cons]
    refine ⟨?_, ih (n + 1)⟩
    intro hm
    obtain ⟨p, hp, hpe⟩ := List.mem_map.1 hm
    have := (mem_enumFrom_get rest (n + 1) p hp).1
    omega

/-! ### listings of a block context -/

def CacheListed (cache : Cache) (o : OutPoint) (s off : Nat) : Prop := ∃ e, (o, e) ∈ cache ∧ (s, off) ∈ e.ins

/-- listed by the block's UTXO cache or by its pending null / unbound entries -/
def bcListed (bc : BlockCtx) (o : OutPoint) (s off : Nat) : Prop :=
  CacheListed bc.cache o s off ∨ LsListed 0 [] bc.ins.nullEntry bc.ins.unboundEntry o s off

theorem lsListed_empty_outs (t : Txid) (outs : List UtxoEntry) (hn : ∀ e ∈ outs, e.ins = [])
    (nullE unbE : Option UtxoEntry) (o : OutPoint) (s off : Nat) :
    LsListed t outs nullE unbE o s off ↔ LsListed 0 [] nullE unbE o s off := by
  unfold LsListed
  constructor
  · rintro (⟨v, e, hv, _, hm⟩ | h | h)
    · rw [hn e (List.mem_of_getElem? hv)] at hm; cases hm
    · exact Or.inr (Or.inl h)
    · exact Or.inr (Or.inr h)
  · rintro (⟨v, e, hv, _, _⟩ | h | h)
    · simp at hv
    · exact Or.inr (Or.inl h)
    · exact Or.inr (Or.inr h)

theorem cacheListed_mem_allSeqs {cache : Cache} {o : OutPoint} {s off : Nat} (h : CacheListed cache o s off) :
    s ∈ allSeqs cache := by
  obtain ⟨e, hm, hin⟩ := h
  exact (mem_allSeqs _ _).2 ⟨o, off, (mem_allIns _ _ _ _).2 ⟨e, hm, hin⟩⟩

theorem bcListed_mem_ctxSeqs {bc : BlockCtx} {o : OutPoint} {s off : Nat} (h : bcListed bc o s off) :
    s ∈ ctxSeqs bc := by
  unfold ctxSeqs
  rcases h with h | ⟨v, e, hv, _, _⟩ | ⟨_, e, he, hm⟩ | ⟨_, e, he, hm⟩
  · exact List.mem_append_left _ (List.mem_append_left _ (List.mem_append_right _ (cacheListed_mem_allSeqs h)))
  · simp at hv
  · refine List.mem_append_left _ (List.mem_append_right _ (List.mem_append_left _ ?_))
    rw [he]; exact List.mem_map.2 ⟨(s, off), hm, rfl⟩
  · refine List.mem_append_left _ (List.mem_append_right _ (List.mem_append_right _ ?_))
    rw [he]; exact List.mem_map.2 ⟨(s, off), hm, rfl⟩

/-! ### input lookup -/

theorem takeOne_cache (cfg : Cfg) (bc : BlockCtx) (i : TxIn) (bc' : BlockCtx) (e : UtxoEntry)
    (h : takeOne cfg bc i = .ok (bc', e)) : ∀ p ∈ bc.cache, p ∈ bc'.cache ∨ p = (i.prev, e) := by
  unfold takeOne at h
  split at h
  · rename_i e0 hc
    simp only [Outcome.ok.injEq, Prod.mk.injEq] at h
    obtain ⟨rfl, rfl⟩ := h
    intro p hp
    rcases mem_erase_or bc.cache i.prev p hp with h1 | ⟨h1, h2⟩
    · exact Or.inl h1
    · right
      rw [hc] at h2
      cases h2
      exact Prod.ext h1 rfl
  · split at h
    · simp only at h
      split at h
      · split at h
        · simp only [Outcome.ok.injEq, Prod.mk.injEq] at h
          obtain ⟨rfl, rfl⟩ := h
          exact fun p hp => Or.inl hp
        · cases h
      · simp only [Outcome.ok.injEq, Prod.mk.injEq] at h
        obtain ⟨rfl, rfl⟩ := h
        exact fun p hp => Or.inl hp
    · cases h

theorem takeInputEntries_cache (cfg : Cfg) (inputs : List TxIn) (bc : BlockCtx) (acc : List (TxIn × UtxoEntry))
    (bc' : BlockCtx) (r : List (TxIn × UtxoEntry)) (h : takeInputEntries cfg inputs bc acc = .ok (bc', r)) :
    (∀ x ∈ acc, x ∈ r) ∧
    ∀ p ∈ bc.cache, p ∈ bc'.cache ∨ ∃ i ∈ inputs, (i, p.2) ∈ r ∧ i.prev = p.1 := by
  induction inputs generalizing bc acc with
  | nil =>
    simp only [takeInputEntries, Outcome.ok.injEq, Prod.mk.injEq] at h
    obtain ⟨rfl, rfl⟩ := h
    exact ⟨fun _ hx => hx, fun p hp => Or.inl hp⟩
  | cons i rest ih =>
    rw [takeInputEntries_cons] at h
    split at h
    · rename_i bc1 e h1
      obtain ⟨a1, a2⟩ := ih bc1 (acc ++ [(i, e)]) h
      refine ⟨fun x hx => a1 x (List.mem_append_left _ hx), fun p hp => ?_⟩
      rcases takeOne_cache cfg bc i bc1 e h1 p hp with h2 | h2
      · rcases a2 p h2 with h3 | ⟨j, hj, h3⟩
        · exact Or.inl h3
        · exact Or.inr ⟨j, List.mem_cons_of_mem _ hj, h3⟩
      · right
        refine ⟨i, List.mem_cons_self, ?_, ?_⟩
        · rw [h2]; exact a1 _ (List.mem_append_right _ List.mem_cons_self)
        · rw [h2]
    · cases h
    · cases h

theorem mem_inputSeqs (inputs : List (TxIn × UtxoEntry)) (i : TxIn) (e : UtxoEntry) (s off : Nat)
    (h : (i, e) ∈ inputs) (hn : i.prev.isNull = false) (hm : (s, off) ∈ e.ins) : s ∈ inputSeqs inputs := by
  induction inputs with
  | nil => cases h
  | cons q rest ih =>
    obtain ⟨j, f⟩ := q
    simp only [inputSeqs]
    rcases List.mem_cons.1 h with h | h
    · simp only [Prod.mk.injEq] at h
      obtain ⟨rfl, rfl⟩ := h
      apply List.mem_append_left
      simp only [hn, Bool.false_eq_true, if_false]
      exact List.mem_map.2 ⟨(s, off), hm, rfl⟩
    · exact List.mem_append_right _ (ih h)

/-! ### the block-level invariant -/

structure BTrack (c : List Block) (rs0 : ReplayState) (bc : BlockCtx) : Prop where
  einv : EInv (bc.ins.events.foldl (applyEvent c) rs0) bc.st
  track : Track (bc.ins.events.foldl (applyEvent c) rs0) (bc.ins.events.filterMap evSeq) (bcListed bc)
    (fun s => s ∈ oldSeqs bc.ins.flotsam)

theorem core_unbound {a b : State} (h : core a = core b) : a.unbound = b.unbound := by
  have := congrArg State.unbound h
  exact this

/-- **One transaction of `index_utxo_entries` keeps the replay in step.** -/
theorem indexTx_btrack (c : List Block) (cfg : Cfg) (blk : Block) (insOn : Bool) (txOffset : Nat) (tx : Tx)
    (seen : List Txid) (bc bc' : BlockCtx) (rs0 : ReplayState) (hinv : MInv cfg seen bc)
    (h0 : tx.txid ≠ 0) (hfresh : tx.txid ∉ seen)
    (hsp : txOffset ≠ 0 → ∀ i ∈ tx.inputs, i.prev.isSpecial = false)
    (hoff : insOn = false → bc.st.entries.length = 0)
    (hfind : findTx c tx.txid = some tx) (hz : isOpReturnOut c OutPoint.null = false)
    (hB : BTrack c rs0 bc)
    (h : indexTx cfg blk insOn txOffset tx bc = .ok bc') : BTrack c rs0 bc' := by
  obtain ⟨bc1, inputs, bc3, outs3, hin, hmid, rfl⟩ := indexTx_decomp _ _ _ _ _ _ _ h
  have hin' : BInv cfg seen (tri bc1.st) bc1.cache ∧ bc1.ins = bc.ins ∧ core bc1.st = core bc.st ∧
      (∀ p ∈ bc1.cache, p ∈ bc.cache) ∧
      (∀ o s off, CacheListed bc.cache o s off → CacheListed bc1.cache o s off ∨ s ∈ inputSeqs inputs) := by
    by_cases hzz : txOffset = 0
    · simp only [hzz, if_true] at hin
      obtain ⟨rfl, rfl⟩ := hin
      exact ⟨hinv.binv, rfl, rfl, fun _ hp => hp, fun _ _ _ hl => Or.inl hl⟩
    · simp only [hzz, if_false] at hin
      obtain ⟨i1, _, i3, i4, _, i6, _⟩ := takeInputEntries_lift cfg seen tx.inputs (hsp hzz) bc [] bc1 inputs hinv.binv hin
      obtain ⟨_, hc⟩ := takeInputEntries_cache cfg tx.inputs bc [] bc1 inputs hin
      refine ⟨i1, i3, i4, i6, ?_⟩
      rintro o s off ⟨e, hm, hs⟩
      rcases hc (o, e) hm with h1 | ⟨i, hi, h1, h2⟩
      · exact Or.inl ⟨e, h1, hs⟩
      · right
        exact mem_inputSeqs inputs i e s off h1 (isNull_false_of_not_special (hsp hzz i hi)) hs
  obtain ⟨b1, hins1, hcore1, sub2, hlist1⟩ := hin'
  have hent1 : bc1.st.entries = bc.st.entries := core_entries hcore1
  have hunb1 : bc1.st.unbound = bc.st.unbound := core_unbound hcore1
  obtain ⟨m, outs2, ir, e2, _, hcache, hcase⟩ := indexTxMid_cases _ _ _ _ _ _ _ _ _ hmid
  have hkeys : ∀ p ∈ bc1.cache, p.1.txid ≠ tx.txid := by
    intro p hp ht
    have hm : p.1 ∈ AL.keys bc1.cache := AL.mem_keys_of_mem (v := p.2) hp
    have hne : ovN bc1.st.utxo bc1.cache p.1 ≠ none := by
      unfold ovN
      cases hg : AL.get bc1.cache p.1 with
      | some e => simp
      | none => exact absurd hm ((AL.get_eq_none_iff _ _).1 hg)
    rcases b1.prov p.1 hne with h1 | h1
    · exact absurd (ht ▸ h1) h0
    · exact absurd (ht ▸ h1) hfresh
  cases hi : insOn with
  | false =>
    simp only [hi, Bool.false_eq_true, if_false] at hcase
    obtain ⟨hst, hins3, rfl⟩ := hcase
    have hnil : ctxSeqs bc = [] := by
      have := hinv.perm
      rw [hoff hi] at this
      exact List.perm_nil.1 (by simpa using this)
    have hempty : ∀ o s off, ¬ bcListed bc o s off := by
      intro o s off hl
      have := bcListed_mem_ctxSeqs hl
      rw [hnil] at this; cases this
    have hev : bc3.ins = bc.ins := hins3.trans hins1
    refine ⟨?_, ?_⟩
    · show EInv ((bc3.ins.events).foldl (applyEvent c) rs0) bc3.st
      rw [hev]
      exact hB.einv.congr (by rw [hst]; exact hent1) (by rw [hst]; exact hunb1)
    · show Track ((bc3.ins.events).foldl (applyEvent c) rs0) (bc3.ins.events.filterMap evSeq) _
        (fun s => s ∈ oldSeqs bc3.ins.flotsam)
      rw [hev]
      refine ⟨fun o s off hl => ?_, fun s hs => ?_⟩
      · exfalso
        rcases hl with ⟨e, hm, hs⟩ | hl
        · simp only at hm
          rw [cacheIns_eq, hcache] at hm
          rcases mem_setAll_sub _ _ _ _ hm with hm | ⟨q, hq, hp⟩
          · exact hempty o s off (Or.inl ⟨e, sub2 _ hm, hs⟩)
          · obtain ⟨_, hget⟩ := mem_enumFrom_get _ _ _ hq
            simp only [Prod.mk.injEq] at hp
            obtain ⟨_, rfl⟩ := hp
            rw [e2 q.2 (List.mem_of_getElem? hget)] at hs; cases hs
        · exact hempty o s off (Or.inr hl)
      · rcases hB.track.found s hs with ⟨o, off, hl, _⟩ | hf
        · exact absurd hl (hempty o s off)
        · exact Or.inr hf
  | true =>
    simp only [hi, if_true] at hcase
    obtain ⟨ls', hls, hst, hins3, rfl⟩ := hcase
    have hE0 : EInv (bc.ins.events.foldl (applyEvent c) rs0) ({ bc1.st with sat2sp := m } : State) :=
      hB.einv.congr hent1 hunb1
    have hT0 : Track (bc.ins.events.foldl (applyEvent c) rs0) (bc.ins.events.filterMap evSeq)
        (fun o s off => CacheListed bc1.cache o s off ∨
          lsListed tx.txid { st := { bc1.st with sat2sp := m }, ctx := bc1.ins, outs := outs2 } o s off)
        (fun s => s ∈ inputSeqs inputs ∨ s ∈ oldSeqs bc1.ins.flotsam ∨ False) := by
      refine hB.track.mono ?_ ?_ ?_
      · rintro o s off (⟨e, hm, hs⟩ | hl)
        · exact Or.inl ⟨e, sub2 _ hm, hs⟩
        · right
          have := (lsListed_empty_outs tx.txid outs2 e2 _ _ o s off).1 hl
          simpa [hins1] using this
      · rintro o s off (hl | hl)
        · rcases hlist1 o s off hl with h1 | h1
          · exact Or.inl (Or.inl h1)
          · exact Or.inr (Or.inl h1)
        · left; right
          apply (lsListed_empty_outs tx.txid outs2 e2 _ _ o s off).2
          simpa [hins1] using hl
      · intro s hs
        exact Or.inr (Or.inl (by rw [hins1]; exact hs))
    obtain ⟨evs, r1, r2, r3⟩ := indexInscriptions_track c cfg blk.height blk.time tx inputs ir _ ls'
      (CacheListed bc1.cache) (fun _ => False) _ _ hfind hz hls hE0 hT0
    simp only at r1
    have hev : bc3.ins.events = bc.ins.events ++ evs := by rw [hins3, r1, hins1]
    refine ⟨?_, ?_⟩
    · show EInv ((bc3.ins.events).foldl (applyEvent c) rs0) bc3.st
      rw [hev, List.foldl_append, hst]; exact r2
    · show Track ((bc3.ins.events).foldl (applyEvent c) rs0) (bc3.ins.events.filterMap evSeq) _
        (fun s => s ∈ oldSeqs bc3.ins.flotsam)
      rw [hev, List.foldl_append, List.filterMap_append]
      refine r3.mono ?_ ?_ ?_
      · rintro o s off (⟨e, hm, hs⟩ | hl)
        · simp only at hm
          rw [cacheIns_eq, hcache] at hm
          rcases mem_setAll_sub _ _ _ _ hm with hm | ⟨q, hq, hp⟩
          · exact Or.inl ⟨e, hm, hs⟩
          · obtain ⟨_, hget⟩ := mem_enumFrom_get _ _ _ hq
            simp only [Nat.sub_zero] at hget
            simp only [Prod.mk.injEq] at hp
            obtain ⟨rfl, rfl⟩ := hp
            exact Or.inr (Or.inl ⟨q.1, q.2, hget, rfl, hs⟩)
        · simp only at hl
          rw [hins3] at hl
          rcases hl with ⟨v, e, hv, _, _⟩ | hl
          · simp at hv
          · exact Or.inr (Or.inr hl)
      · rintro o s off (⟨e, hm, hs⟩ | ⟨v, e, hv, rfl, hs⟩ | hl)
        · left; left
          refine ⟨e, ?_, hs⟩
          simp only
          rw [cacheIns_eq, hcache]
          exact mem_setAll_of_mem _ _ _ _ hm (hkeys _ hm)
        · left; left
          refine ⟨e, ?_, hs⟩
          simp only
          rw [cacheIns_eq]
          have := mem_enumFrom_of_get ls'.outs 0 v e hv
          rw [Nat.zero_add] at this
          exact mem_setAll_new _ _ _ _ _ this (nodup_enumFrom_fst _ _)
        · left; right
          simp only
          rw [hins3]
          exact Or.inr hl
      · rintro s (hs | hs)
        · show s ∈ oldSeqs bc3.ins.flotsam
          rw [hins3]; exact hs
        · cases hs

end Ord.Index.ReplayIns
