import OrdModel.Proofs.IndexLiftRuneSupplyTx
/-
Rune lift, part 3c: which rune ids can occur as KEYS of the maps the rune updater threads
through a transaction (`unallocated`, `allocated[..]`, `burned`).  `flushBurned` looks up the
entry of every key of the block's burn map — also of keys whose amount is zero — so "every key
names an existing rune" is needed to discharge its `id_to_entry.get(..).unwrap()`.
`KeysIn K m`: every key of `m` satisfies `K`.
-/
namespace Ord.Index.RuneLift
open Ord.Index Ord.Index.Spec Ord.Index.RS Ord.Index.Oracle Ord.Outcome

def KeysIn (K : RuneId → Prop) (m : Balances) : Prop := ∀ id ∈ keys m, K id
def KeysAlloc (K : RuneId → Prop) (alloc : Allocated) : Prop := ∀ m ∈ alloc, KeysIn K m

variable {K : RuneId → Prop}

theorem keysIn_nil : KeysIn K [] := fun _ h => by simp [keys] at h

theorem keysIn_set {m : Balances} {id : RuneId} {v : Nat} (hm : KeysIn K m) (hk : K id) :
    KeysIn K (AL.set m id v) := by
  intro x hx
  rcases (mem_keys_set m id v x).1 hx with rfl | hx
  · exact hk
  · exact hm x hx

theorem addLot_keys {m m' : Balances} {id : RuneId} {a : Nat} (h : addLot m id a = .ok m')
    (hm : KeysIn K m) (hk : K id) : KeysIn K m' := by
  rw [addLot_ok h]; exact keysIn_set hm hk

theorem keysIn_of_cons {id : RuneId} {b : Nat} {rest : Balances} (h : KeysIn K ((id, b) :: rest)) :
    K id ∧ KeysIn K rest :=
  ⟨h id (by simp), fun x hx => h x (by simp [hx])⟩

theorem addAll_keys : ∀ (bs un un' : Balances), takeInputs.addAll bs un = .ok un' →
    KeysIn K bs → KeysIn K un → KeysIn K un' := by
  intro bs
  induction bs with
  | nil =>
    intro un un' h _ hu
    simp only [takeInputs.addAll, Outcome.ok.injEq] at h
    subst h; exact hu
  | cons p more ih =>
    intro un un' h hb hu
    obtain ⟨id, b⟩ := p
    obtain ⟨hk, hmore⟩ := keysIn_of_cons hb
    simp only [takeInputs.addAll] at h
    split at h
    · rename_i un1 hadd
      exact ih un1 un' h hmore (addLot_keys hadd hu hk)
    · exact absurd h (by simp)
    · exact absurd h (by simp)

theorem takeInputs_keys : ∀ (ins : List TxIn) (st : State) (un : Balances) (st' : State) (un' : Balances),
    takeInputs ins st un = .ok (st', un') → (∀ p ∈ st.balances, KeysIn K p.2) → KeysIn K un → KeysIn K un' := by
  intro ins
  induction ins with
  | nil =>
    intro st un st' un' h _ hu
    simp only [takeInputs, Outcome.ok.injEq, Prod.mk.injEq] at h
    obtain ⟨_, rfl⟩ := h; exact hu
  | cons i rest ih =>
    intro st un st' un' h hb hu
    simp only [takeInputs] at h
    split at h
    · exact ih st un st' un' h hb hu
    · rename_i bs hget
      split at h
      · rename_i un1 hadd
        have h1 := addAll_keys bs un un1 hadd (hb (i.prev, bs) (mem_of_get hget)) hu
        exact ih _ un1 st' un' h (fun p hp => hb p (mem_erase hp)) h1
      · exact absurd h (by simp)
      · exact absurd h (by simp)

theorem addAllTo_keys : ∀ (src acc acc' : Balances) (skip : Bool), addAllTo src acc skip = .ok acc' →
    KeysIn K src → KeysIn K acc → KeysIn K acc' := by
  intro src
  induction src with
  | nil =>
    intro acc acc' skip h _ ha
    simp only [addAllTo, Outcome.ok.injEq] at h
    subst h; exact ha
  | cons p rest ih =>
    intro acc acc' skip h hs ha
    obtain ⟨id, b⟩ := p
    obtain ⟨hk, hrest⟩ := keysIn_of_cons hs
    simp only [addAllTo] at h
    split at h
    · exact ih acc acc' skip h hrest ha
    · split at h
      · rename_i acc1 hadd
        exact ih acc1 acc' skip h hrest (addLot_keys hadd ha hk)
      · exact absurd h (by simp)
      · exact absurd h (by simp)

theorem allocate_keys {un : Balances} {alloc : Allocated} {id : RuneId} {amount output : Nat}
    {un' : Balances} {alloc' : Allocated}
    (h : allocate un alloc id amount output = .ok (un', alloc')) (hu : KeysIn K un) (ha : KeysAlloc K alloc) :
    KeysIn K un' ∧ KeysAlloc K alloc' := by
  unfold allocate at h
  split at h
  · simp only [Outcome.ok.injEq, Prod.mk.injEq] at h
    obtain ⟨rfl, rfl⟩ := h; exact ⟨hu, ha⟩
  · rename_i hnz
    simp only at h
    split at h
    · exact absurd h (by simp)
    · rename_i hbal
      have hk : K id := by
        apply hu
        have hne : AL.get un id ≠ none := by
          intro hn
          rw [hn] at hbal
          simp at hbal
          exact hnz hbal
        cases hg : AL.get un id with
        | none => exact absurd hg hne
        | some v => exact List.mem_map.2 ⟨(id, v), mem_of_get hg, rfl⟩
      split at h
      · exact absurd h (by simp)
      · rename_i m hm
        split at h
        · rename_i m' hadd
          simp only [Outcome.ok.injEq, Prod.mk.injEq] at h
          obtain ⟨rfl, rfl⟩ := h
          refine ⟨keysIn_set hu hk, fun x hx => ?_⟩
          rcases List.mem_or_eq_of_mem_set hx with hx | rfl
          · exact ha x hx
          · exact addLot_keys hadd (ha m (List.mem_of_getElem? hm)) hk
        · exact absurd h (by simp)
        · exact absurd h (by simp)

theorem allocateEach_keys (id : RuneId) : ∀ (L : List (Nat × Nat)) (un : Balances) (alloc : Allocated)
    (un' : Balances) (alloc' : Allocated),
    allocateEach id L un alloc = .ok (un', alloc') → KeysIn K un → KeysAlloc K alloc →
    KeysIn K un' ∧ KeysAlloc K alloc' := by
  intro L
  induction L with
  | nil =>
    intro un alloc un' alloc' h hu ha
    simp only [allocateEach, Outcome.ok.injEq, Prod.mk.injEq] at h
    obtain ⟨rfl, rfl⟩ := h; exact ⟨hu, ha⟩
  | cons p rest ih =>
    intro un alloc un' alloc' h hu ha
    obtain ⟨a, o⟩ := p
    simp only [allocateEach] at h
    split at h
    · rename_i un1 alloc1 h1
      obtain ⟨hu1, ha1⟩ := allocate_keys h1 hu ha
      exact ih un1 alloc1 un' alloc' h hu1 ha1
    · exact absurd h (by simp)
    · exact absurd h (by simp)

theorem allocateCapped_keys (id : RuneId) (amount : Nat) : ∀ (dests : List Nat) (un : Balances) (alloc : Allocated)
    (un' : Balances) (alloc' : Allocated),
    allocateCapped id amount dests un alloc = .ok (un', alloc') → KeysIn K un → KeysAlloc K alloc →
    KeysIn K un' ∧ KeysAlloc K alloc' := by
  intro dests
  induction dests with
  | nil =>
    intro un alloc un' alloc' h hu ha
    simp only [allocateCapped, Outcome.ok.injEq, Prod.mk.injEq] at h
    obtain ⟨rfl, rfl⟩ := h; exact ⟨hu, ha⟩
  | cons v rest ih =>
    intro un alloc un' alloc' h hu ha
    simp only [allocateCapped] at h
    split at h
    · rename_i un1 alloc1 h1
      obtain ⟨hu1, ha1⟩ := allocate_keys h1 hu ha
      exact ih un1 alloc1 un' alloc' h hu1 ha1
    · exact absurd h (by simp)
    · exact absurd h (by simp)

theorem applyEdict_keys {tx : Tx} {etched : Option RuneId} {ed : Edict} {un : Balances} {alloc : Allocated}
    {un' : Balances} {alloc' : Allocated}
    (h : applyEdict tx etched ed un alloc = .ok (un', alloc')) (hu : KeysIn K un) (ha : KeysAlloc K alloc) :
    KeysIn K un' ∧ KeysAlloc K alloc' := by
  unfold applyEdict at h
  simp only at h
  split at h
  · exact absurd h (by simp)
  · generalize (if ed.id == (⟨0, 0⟩ : RuneId) then etched else some ed.id) = idO at h
    split at h
    · simp only [Outcome.ok.injEq, Prod.mk.injEq] at h
      obtain ⟨rfl, rfl⟩ := h; exact ⟨hu, ha⟩
    · split at h
      · simp only [Outcome.ok.injEq, Prod.mk.injEq] at h
        obtain ⟨rfl, rfl⟩ := h; exact ⟨hu, ha⟩
      · split at h
        · split at h
          · simp only [Outcome.ok.injEq, Prod.mk.injEq] at h
            obtain ⟨rfl, rfl⟩ := h; exact ⟨hu, ha⟩
          · split at h
            · exact allocateEach_keys _ _ _ _ _ _ h hu ha
            · exact allocateCapped_keys _ _ _ _ _ _ _ h hu ha
        · exact allocate_keys h hu ha

theorem applyEdicts_keys (tx : Tx) (etched : Option RuneId) : ∀ (edicts : List Edict) (un : Balances)
    (alloc : Allocated) (un' : Balances) (alloc' : Allocated),
    applyEdicts tx etched edicts un alloc = .ok (un', alloc') → KeysIn K un → KeysAlloc K alloc →
    KeysIn K un' ∧ KeysAlloc K alloc' := by
  intro edicts
  induction edicts with
  | nil =>
    intro un alloc un' alloc' h hu ha
    simp only [applyEdicts, Outcome.ok.injEq, Prod.mk.injEq] at h
    obtain ⟨rfl, rfl⟩ := h; exact ⟨hu, ha⟩
  | cons ed rest ih =>
    intro un alloc un' alloc' h hu ha
    simp only [applyEdicts] at h
    split at h
    · rename_i un1 alloc1 h1
      obtain ⟨hu1, ha1⟩ := applyEdict_keys h1 hu ha
      exact ih un1 alloc1 un' alloc' h hu1 ha1
    · exact absurd h (by simp)
    · exact absurd h (by simp)

theorem afterEdictsOf_keys {tx : Tx} {art : Artifact} {et : Option (RuneId × Nat)} {un1 : Balances}
    {alloc0 : Allocated} {un : Balances} {alloc : Allocated}
    (h : afterEdictsOf tx art et un1 alloc0 = .ok (un, alloc)) (hu : KeysIn K un1)
    (het : ∀ id rune, et = some (id, rune) → K id) (ha : KeysAlloc K alloc0) :
    KeysIn K un ∧ KeysAlloc K alloc := by
  cases art with
  | cenotaph ce cm =>
    simp only [afterEdictsOf, Outcome.ok.injEq, Prod.mk.injEq] at h
    obtain ⟨rfl, rfl⟩ := h
    exact ⟨hu, ha⟩
  | runestone edicts etching m ptr =>
    simp only [afterEdictsOf] at h
    cases et with
    | none =>
      simp only at h
      exact applyEdicts_keys tx _ edicts un1 alloc0 un alloc h hu ha
    | some p =>
      obtain ⟨id, rune⟩ := p
      simp only at h
      cases hadd : addLot un1 id ((etching.bind (·.premine)).getD 0) with
      | panic s => rw [hadd] at h; exact absurd h (by simp)
      | err e => rw [hadd] at h; exact absurd h (by simp)
      | ok un2 =>
        rw [hadd] at h
        simp only at h
        exact applyEdicts_keys tx _ edicts un2 alloc0 un alloc h (addLot_keys hadd hu (het id rune rfl)) ha

theorem mintStep_keys {st0 : State} {un0 : Balances} {blk : Block} {tx : Tx} {art : Artifact}
    {st1 : State} {un1 : Balances} {ev1 : List Event}
    (h : mintStep st0 un0 blk tx art = (st1, .ok un1, ev1)) (hu : KeysIn K un0)
    (hm : ∀ id s a, mint st0 blk.height id = (s, some a) → K id) : KeysIn K un1 := by
  have key : ∀ id, mintStep st0 un0 blk tx art = (match mint st0 blk.height id with
      | (s, none) => (s, .ok un0, [])
      | (s, some amount) => (s, addLot un0 id amount, [.runeMinted amount blk.height id tx.txid])) →
      KeysIn K un1 := by
    intro id he
    rw [he] at h
    cases hmint : mint st0 blk.height id with
    | mk s o =>
      rw [hmint] at h
      cases o with
      | none =>
        simp only [Prod.mk.injEq, Outcome.ok.injEq] at h
        obtain ⟨_, rfl, _⟩ := h; exact hu
      | some amount =>
        simp only [Prod.mk.injEq] at h
        exact addLot_keys h.2.1 hu (hm id s amount hmint)
  cases art with
  | runestone edicts etching m ptr =>
    cases m with
    | none =>
      simp only [mintStep, Prod.mk.injEq, Outcome.ok.injEq] at h
      obtain ⟨_, rfl, _⟩ := h; exact hu
    | some id => exact key id rfl
  | cenotaph ce m =>
    cases m with
    | none =>
      simp only [mintStep, Prod.mk.injEq, Outcome.ok.injEq] at h
      obtain ⟨_, rfl, _⟩ := h; exact hu
    | some id => exact key id rfl

/-- the phases inside `phase1` -/
theorem phase1_parts {st0 : State} {un0 : Balances} {alloc0 : Allocated} {blk : Block} {i : Nat} {tx : Tx}
    {st3 : State} {un : Balances} {alloc : Allocated} {evs : List Event}
    (h : phase1 st0 un0 alloc0 blk i tx = .ok (st3, un, alloc, evs)) :
    (tx.artifact = none ∧ un = un0 ∧ alloc = alloc0) ∨
    ∃ art st1 un1 ev1 st2 et, tx.artifact = some art ∧ mintStep st0 un0 blk tx art = (st1, .ok un1, ev1) ∧
      etched st1 blk i tx art = .ok (st2, et) ∧ afterEdictsOf tx art et un1 alloc0 = .ok (un, alloc) := by
  unfold phase1 at h
  cases hart : tx.artifact with
  | none =>
    rw [hart] at h
    simp only [Outcome.ok.injEq, Prod.mk.injEq] at h
    exact Or.inl ⟨rfl, h.2.1.symm, h.2.2.1.symm⟩
  | some art =>
    rw [hart] at h
    simp only at h
    cases hms : mintStep st0 un0 blk tx art with
    | mk st1 rest =>
      obtain ⟨un1O, ev1⟩ := rest
      rw [hms] at h
      simp only at h
      cases un1O with
      | panic s => exact absurd h (by simp)
      | err e => exact absurd h (by simp)
      | ok un1 =>
        simp only at h
        cases hE : etched st1 blk i tx art with
        | panic s => rw [hE] at h; exact absurd h (by simp)
        | err e => rw [hE] at h; exact absurd h (by simp)
        | ok p2 =>
          obtain ⟨st2, et⟩ := p2
          rw [hE] at h
          simp only at h
          cases hA : afterEdictsOf tx art et un1 alloc0 with
          | panic s => rw [hA] at h; exact absurd h (by simp)
          | err e => rw [hA] at h; exact absurd h (by simp)
          | ok p3 =>
            obtain ⟨un3, alloc1⟩ := p3
            rw [hA] at h
            simp only at h
            refine Or.inr ⟨art, st1, un1, ev1, st2, et, rfl, hms, hE, ?_⟩
            cases et with
            | none =>
              simp only [Outcome.ok.injEq, Prod.mk.injEq] at h
              obtain ⟨_, rfl, rfl, _⟩ := h
              exact hA
            | some p =>
              obtain ⟨id, rune⟩ := p
              simp only [Outcome.ok.injEq, Prod.mk.injEq] at h
              obtain ⟨_, rfl, rfl, _⟩ := h
              exact hA

theorem phase2_keys {tx : Tx} {un : Balances} {alloc alloc2 : Allocated} {burned0 : Balances}
    (h : phase2 tx un alloc = .ok (alloc2, burned0)) (hu : KeysIn K un) (ha : KeysAlloc K alloc) :
    KeysAlloc K alloc2 ∧ KeysIn K burned0 := by
  have toBurn : ∀ skip b, addAllTo un [] skip = .ok b → KeysIn K b :=
    fun skip b hb => addAllTo_keys un [] b skip hb hu keysIn_nil
  have toOut : ∀ (v : Nat) m, addAllTo un (alloc[v]?.getD []) true = .ok m → KeysAlloc K (alloc.set v m) := by
    intro v m hm x hx
    rcases List.mem_or_eq_of_mem_set hx with hx | rfl
    · exact ha x hx
    · apply addAllTo_keys un _ _ true hm hu
      cases hv : alloc[v]? with
      | none => exact keysIn_nil
      | some row => exact ha row (List.mem_of_getElem? hv)
  unfold phase2 at h
  split at h
  · split at h
    · rename_i b hb
      simp only [Outcome.ok.injEq, Prod.mk.injEq] at h
      obtain ⟨rfl, rfl⟩ := h
      exact ⟨ha, toBurn false b hb⟩
    · exact absurd h (by simp)
    · exact absurd h (by simp)
  · simp only at h
    split at h
    · split at h
      · exact absurd h (by simp)
      · split at h
        · rename_i m hm
          simp only [Outcome.ok.injEq, Prod.mk.injEq] at h
          obtain ⟨rfl, rfl⟩ := h
          exact ⟨toOut _ m hm, keysIn_nil⟩
        · exact absurd h (by simp)
        · exact absurd h (by simp)
    · split at h
      · split at h
        · rename_i m hm
          simp only [Outcome.ok.injEq, Prod.mk.injEq] at h
          obtain ⟨rfl, rfl⟩ := h
          exact ⟨toOut _ m hm, keysIn_nil⟩
        · exact absurd h (by simp)
        · exact absurd h (by simp)
      · split at h
        · rename_i b hb
          simp only [Outcome.ok.injEq, Prod.mk.injEq] at h
          obtain ⟨rfl, rfl⟩ := h
          exact ⟨ha, toBurn true b hb⟩
        · exact absurd h (by simp)
        · exact absurd h (by simp)

theorem writeOutputs_keys (blk : Block) (tx : Tx) : ∀ (rows : List Balances) (j : Nat) (st : State)
    (burned : Balances) (evs : List Event) (st' : State) (burned' : Balances) (evs' : List Event),
    writeOutputs blk tx (enumFrom j rows) st burned evs = .ok (st', burned', evs') →
    KeysIn K burned → KeysAlloc K rows → KeysIn K burned' := by
  intro rows
  induction rows with
  | nil =>
    intro j st burned evs st' burned' evs' h hb _
    simp only [enumFrom, writeOutputs, Outcome.ok.injEq, Prod.mk.injEq] at h
    obtain ⟨_, rfl, _⟩ := h; exact hb
  | cons b rest ih =>
    intro j st burned evs st' burned' evs' h hb hrows
    have hrest : KeysAlloc K rest := fun m hm => hrows m (List.mem_cons_of_mem _ hm)
    simp only [enumFrom, writeOutputs] at h
    by_cases hemp : b.isEmpty = true
    · rw [if_pos hemp] at h
      exact ih (j + 1) st burned evs st' burned' evs' h hb hrest
    · rw [if_neg hemp] at h
      cases hout : tx.outputs[j]? with
      | none =>
        rw [hout] at h
        simp only [Bool.false_eq_true, if_false] at h
        exact ih (j + 1) _ burned _ st' burned' evs' h hb hrest
      | some o =>
        rw [hout] at h
        by_cases ho : o.opReturn = true
        · simp only [ho, if_true] at h
          split at h
          · rename_i burned1 hadd
            exact ih (j + 1) st burned1 evs st' burned' evs' h
              (addAllTo_keys b burned burned1 false hadd (hrows b List.mem_cons_self) hb) hrest
          · exact absurd h (by simp)
          · exact absurd h (by simp)
        · have ho' : o.opReturn = false := by simpa using ho
          simp only [ho', Bool.false_eq_true, if_false] at h
          exact ih (j + 1) _ burned _ st' burned' evs' h hb hrest

end Ord.Index.RuneLift
