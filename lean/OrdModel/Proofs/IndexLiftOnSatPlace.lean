import OrdModel.Proofs.IndexLiftOnSatUil
import OrdModel.Proofs.IndexInslocReveal
/-
C03 lift to reachable states, part 3: one `index_inscriptions`.

* the input scan: an inscription listed at `(seq, off)` by a spent entry that is on its sat floats
  at `(value of the earlier inputs) + off`, which is where that sat is in the concatenated input
  ranges (`scanInputs_flok`);
* the output loop, read through the FIFO equation of `index_transaction_sats`
  (`assigned_locOK`): the satpoint a flotsam is given denotes, in the output's ranges, the sat at
  the flotsam's offset of the input ranges;
* a non-coinbase transaction (`placeTx_noncb_inv`, `indexInscriptions_noncb_inv`): outputs on
  their sats, what falls off the end is saved at `reward + k − Σ outputs`, which denotes the same
  sat in the ranges queued for the coinbase extended by this transaction's leftover;
* the coinbase (`placeTx_cb_inv`, `indexInscriptions_cb_inv`): scanned and saved flotsam placed on
  outputs, the rest at the null outpoint at `lostSats + k − Σ outputs`, which denotes the same sat
  in (ranges stored under the null outpoint) ++ (the coinbase's leftover).
-/
namespace Ord.Index.OnSatLift
open Ord Ord.Index Outcome Sched
open Ord.Index.Insloc hiding den den_nil den_cons den_append

/-! ### the input scan -/

theorem scanOld_flok (st : State) (prev : OutPoint) (base : Nat) (l : List (Nat × Nat)) (sc sc' : ScanState)
    (X er : Ranges) (h : scanOld st prev base l sc = .ok sc')
    (hins : InsSat st.entries er l)
    (hold : ∀ f ∈ sc.floating, FlOK st.entries X f)
    (hnew : ∀ off s, (den er)[off]? = some s → (den X)[base + off]? = some s) :
    (∀ f ∈ sc'.floating, FlOK st.entries X f) ∧ sc'.totalInputValue = sc.totalInputValue ∧
      sc'.envelopes = sc.envelopes := by
  induction l generalizing sc with
  | nil =>
    simp only [scanOld, Outcome.ok.injEq] at h
    subst h
    exact ⟨hold, rfl, rfl⟩
  | cons p rest ih =>
    obtain ⟨seq, off⟩ := p
    simp only [scanOld] at h
    split at h
    · simp at h
    · rename_i entry he
      obtain ⟨a, b, c⟩ := ih _ h (fun s o hm => hins s o (List.mem_cons_of_mem _ hm)) (by
        intro f hf
        simp only [List.mem_append, List.mem_singleton] at hf
        rcases hf with hf | rfl
        · exact hold f hf
        · intro seq' osp ho
          simp only [Origin.old.injEq] at ho
          obtain ⟨rfl, -⟩ := ho
          obtain ⟨e0, s, h0, h1, h2⟩ := hins seq off List.mem_cons_self
          exact ⟨e0, s, h0, h1, hnew off s h2⟩)
      exact ⟨a, b, c⟩

theorem scanNew_flok (st : State) (jub : Bool) (txid : Txid) (i off iv totalOut : Nat)
    (envs : List Envelope) (sc sc' : ScanState) (E : List InsEntry) (X : Ranges)
    (h : scanNew st jub txid i off iv totalOut envs sc = .ok sc')
    (hold : ∀ f ∈ sc.floating, FlOK E X f) :
    (∀ f ∈ sc'.floating, FlOK E X f) ∧ sc'.totalInputValue = sc.totalInputValue := by
  obtain ⟨F, h1, h2⟩ := scanNew_flotsam st jub txid i off iv totalOut envs sc sc' h
  obtain ⟨_, _, _, _, _, _, h3⟩ := scanNew_spec st jub txid i off iv totalOut envs sc sc' h
  refine ⟨?_, h3⟩
  intro f hf
  rw [h1] at hf
  rcases List.mem_append.1 hf with hf | hf
  · exact hold f hf
  · exact FlOK.of_new (h2 f hf).1

/-- **the input scan of a transaction without null inputs**: every old flotsam points at its sat
in the concatenated input ranges (`P` = ranges of the inputs scanned before) -/
theorem scanInputs_flok (cfg : Cfg) (hs : cfg.indexSats = true) (st : State) (jub : Bool) (txid : Txid)
    (height totalOut : Nat) (inputs : List (TxIn × UtxoEntry)) (i : Nat) (sc sc' : ScanState) (P : Ranges)
    (hnn : ∀ p ∈ inputs, p.1.prev.isNull = false)
    (hent : ∀ p ∈ inputs, EntSat st.entries p.2)
    (hP : sc.totalInputValue = lenR P)
    (hold : ∀ f ∈ sc.floating, FlOK st.entries (P ++ entryRanges inputs) f)
    (h : scanInputs cfg st jub txid height totalOut inputs i sc = .ok sc') :
    ∀ f ∈ sc'.floating, FlOK st.entries (P ++ entryRanges inputs) f := by
  induction inputs generalizing i sc P with
  | nil =>
    simp only [scanInputs, Outcome.ok.injEq] at h
    subst h; exact hold
  | cons p rest ih =>
    obtain ⟨txin, entry⟩ := p
    have hn : txin.prev.isNull = false := hnn (txin, entry) List.mem_cons_self
    simp only [scanInputs, hn, Bool.false_eq_true, if_false] at h
    have hER : entryRanges ((txin, entry) :: rest) = entry.ranges ++ entryRanges rest := by
      simp [entryRanges]
    rw [hER] at hold ⊢
    split at h
    · simp at h
    · simp at h
    · rename_i sc1 hs1
      split at h
      · simp at h
      · simp at h
      · rename_i sc3 hs3
        have hsub : ∀ x ∈ sortByKey (·.1) entry.ins, x ∈ entry.ins :=
          fun x hx => (sortByKey_perm (·.1) entry.ins).mem_iff.1 hx
        obtain ⟨a1, a2, a3⟩ := scanOld_flok st txin.prev sc.totalInputValue _ sc sc1
          (P ++ (entry.ranges ++ entryRanges rest)) entry.ranges hs1
          ((hent (txin, entry) List.mem_cons_self).sub hsub) hold (by
            intro off s ho
            rw [hP]
            exact den_shift_some (den_append_some ho))
        obtain ⟨b1, b2⟩ := scanNew_flok st jub txid i sc1.totalInputValue (entry.totalValue cfg) totalOut
          ({ sc1 with totalInputValue := sc1.totalInputValue + entry.totalValue cfg } : ScanState).envelopes
          { sc1 with totalInputValue := sc1.totalInputValue + entry.totalValue cfg } sc3 st.entries
          (P ++ (entry.ranges ++ entryRanges rest)) hs3 a1
        have hP' : sc3.totalInputValue = lenR (P ++ entry.ranges) := by
          rw [b2, lenR_append]
          show sc1.totalInputValue + entry.totalValue cfg = _
          rw [a2, hP]
          simp [UtxoEntry.totalValue, hs, rangesValue_eq_lenR]
        have := ih (i + 1) sc3 (P ++ entry.ranges) (fun p hp => hnn p (List.mem_cons_of_mem _ hp))
          (fun p hp => hent p (List.mem_cons_of_mem _ hp)) hP'
          (by rw [List.append_assoc]; exact b1) h
        rw [List.append_assoc] at this
        exact this

/-- the scan of a transaction whose spent entries list nothing (the block's first transaction:
its inputs are looked up as empty entries) creates new flotsam only -/
theorem scanInputs_new_only (cfg : Cfg) (st : State) (jub : Bool) (txid : Txid)
    (height totalOut : Nat) (inputs : List (TxIn × UtxoEntry)) (i : Nat) (sc sc' : ScanState)
    (hemp : ∀ p ∈ inputs, p.2.ins = [])
    (h : scanInputs cfg st jub txid height totalOut inputs i sc = .ok sc') :
    ∀ f ∈ sc'.floating, f ∈ sc.floating ∨ isNew f = true := by
  induction inputs generalizing i sc with
  | nil =>
    simp only [scanInputs, Outcome.ok.injEq] at h
    subst h; exact fun f hf => Or.inl hf
  | cons p rest ih =>
    obtain ⟨txin, entry⟩ := p
    simp only [scanInputs] at h
    split at h
    · have := ih _ _ (fun p hp => hemp p (List.mem_cons_of_mem _ hp)) h
      exact this
    · have he : entry.ins = [] := hemp (txin, entry) List.mem_cons_self
      rw [he] at h
      simp only [sortByKey, List.foldr_nil, scanOld] at h
      split at h
      · simp at h
      · simp at h
      · rename_i sc3 hs3
        obtain ⟨F, h1, h2⟩ := scanNew_flotsam _ _ _ _ _ _ _ _ _ _ hs3
        intro f hf
        rcases ih _ _ (fun p hp => hemp p (List.mem_cons_of_mem _ hp)) h f hf with h3 | h3
        · rw [h1] at h3
          rcases List.mem_append.1 h3 with h4 | h4
          · exact Or.inl h4
          · exact Or.inr (h2 f h4).1
        · exact Or.inr h3

/-- fee / parent normalisation keeps old flotsam as it is -/
theorem txFloating_flok (tx : Tx) (sc : ScanState) (E : List InsEntry) (X : Ranges)
    (h : ∀ f ∈ sc.floating, FlOK E X f) : ∀ f ∈ txFloating tx sc, FlOK E X f := by
  intro f hf
  unfold txFloating at hf
  simp only [List.mem_map] at hf
  obtain ⟨g, hg, rfl⟩ := hf
  cases ho : g.origin with
  | old s o => dsimp only; exact h g hg
  | new c fe ga hd ps r u v =>
    dsimp only
    exact FlOK.of_new (by simp [isNew])

/-! ### the output loop through the FIFO equation -/

theorem prefixValue_eq (outs : List TxOut) (j : Nat) :
    prefixValue outs j = ((outs.map (·.value)).take j).sum := by
  simp [prefixValue, List.map_take]

/-- what `assignOutputs` places goes where the sat goes -/
theorem assigned_locOK (txid : Txid) (outputs : List TxOut) (fls : List Flotsam) (R : Ranges) (r : TxSats)
    (hs : indexTransactionSats (outputs.map (·.value)) R = some r)
    (x : SatPoint × Flotsam × Bool)
    (hx : x ∈ (assignOutputs txid outputs 0 0 (sortByKey (·.offset) fls) []).1) :
    x.2.1 ∈ fls ∧ ∀ Rj, r.outputs[x.1.outpoint.vout]? = some Rj →
      ∀ s, (den R)[x.2.1.offset]? = some s → (den Rj)[x.1.offset]? = some s := by
  obtain ⟨hpl, _⟩ := assignOutputs_place txid outputs 0 0 (sortByKey (·.offset) fls) []
    (sortByKey_sorted _ _) (fun _ _ => Nat.zero_le _)
  rcases hpl x hx with hacc | ⟨j, o, hj, hm, hlo, hhi, hsp, _⟩
  · simp at hacc
  · refine ⟨(sortByKey_perm (·.offset) fls).mem_iff.1 hm, ?_⟩
    intro Rj hRj s hsat
    simp only [Nat.zero_add] at hlo hhi hsp
    rw [hsp] at hRj ⊢
    simp only at hRj ⊢
    have hjl : j < (outputs.map (·.value)).length := by
      rw [List.length_map]
      exact (List.getElem?_eq_some_iff.1 hj).1
    have hval : (outputs.map (·.value))[j] = o.value := by
      have : (outputs.map (·.value))[j]? = some o.value := by rw [List.getElem?_map, hj]; rfl
      exact (List.getElem?_eq_some_iff.1 this).2
    have hpv := prefixValue_eq outputs j
    have hk : x.2.1.offset - prefixValue outputs j < (outputs.map (·.value))[j] := by rw [hval]; omega
    have := (fifo_pointwise _ R r hs).1 j (x.2.1.offset - prefixValue outputs j) hjl hk
    rw [hRj] at this
    simp only [Option.getD_some] at this
    rw [this, ← hpv, show prefixValue outputs j + (x.2.1.offset - prefixValue outputs j) = x.2.1.offset by omega]
    exact hsat

/-- what `assignOutputs` does not place lies at or beyond the total output value -/
theorem assigned_rest (txid : Txid) (outputs : List TxOut) (fls : List Flotsam) :
    (∀ f ∈ (assignOutputs txid outputs 0 0 (sortByKey (·.offset) fls) []).2.1,
      f ∈ fls ∧ (outputs.map (·.value)).sum ≤ f.offset) ∧
    (assignOutputs txid outputs 0 0 (sortByKey (·.offset) fls) []).2.2 = (outputs.map (·.value)).sum := by
  obtain ⟨_, hrest⟩ := assignOutputs_place txid outputs 0 0 (sortByKey (·.offset) fls) []
    (sortByKey_sorted _ _) (fun _ _ => Nat.zero_le _)
  obtain ⟨_, hv⟩ := assignOutputs_conserve txid outputs 0 0 (sortByKey (·.offset) fls) []
  refine ⟨fun f hf => ?_, by simpa using hv⟩
  obtain ⟨h1, h2⟩ := hrest f hf
  exact ⟨(sortByKey_perm (·.offset) fls).mem_iff.1 h1, by simpa using h2⟩

/-! ### a non-coinbase transaction -/

theorem LsInv.of_entries {NR : Ranges} {ls : LocState} (h : LsInv NR ls) (st1 : State) (ctx1 : InsCtx)
    (he : st1.entries = ls.st.entries) (hn : ctx1.nullEntry = ls.ctx.nullEntry)
    (hu : ctx1.unboundEntry = ls.ctx.unboundEntry) : LsInv NR { st := st1, ctx := ctx1, outs := ls.outs } := by
  refine ⟨?_, ?_, ?_⟩
  · intro e hm; show EntSat st1.entries e; rw [he]; exact h.outs e hm
  · intro ne hne; show InsSat st1.entries NR ne.ins; rw [he]; exact h.nul ne (hn ▸ hne)
  · intro ue hue; show InsNone st1.entries ue.ins; rw [he]; exact h.unb ue (hu ▸ hue)

/-- **placement, non-coinbase**: `CBI` = the ranges queued for the coinbase before this
transaction (`reward` is their size); afterwards the saved flotsam points at its sats in
`CBI ++ leftover` -/
theorem placeTx_noncb_inv (cfg : Cfg) (height time : Nat) (tx : Tx) (R : Ranges) (r : TxSats)
    (totalIn : Nat) (floating : List Flotsam) (st1 : State) (ls ls' : LocState) (NR CBI : Ranges)
    (hs : indexTransactionSats (tx.outputs.map (·.value)) R = some r)
    (h : placeTx cfg height time tx (some R) false totalIn floating st1 ls = .ok ls')
    (he : st1.entries = ls.st.entries)
    (hinv : LsInv NR ls) (hor : ls.outs.map (·.ranges) = r.outputs)
    (hfl : ∀ f ∈ floating, FlOK ls.st.entries R f)
    (hsaved : ∀ f ∈ ls.ctx.flotsam, FlOK ls.st.entries CBI f)
    (hrew : ls.ctx.reward = lenR CBI) :
    LsInv NR ls' ∧ EntExt ls.st.entries ls'.st.entries ∧
      (∀ f ∈ ls'.ctx.flotsam, FlOK ls'.st.entries (CBI ++ r.leftover) f) := by
  have hcarry := placeTx_carry cfg height time tx (some R) totalIn floating st1 ls ls' h
  simp only [placeTx, Bool.false_eq_true, ↓reduceIte] at h
  split at h
  · simp at h
  · simp at h
  · rename_i ls2 h2
    split at h
    · simp at h
    · simp only [ok.injEq] at h
      subst h
      have h0 : LsInv NR { st := st1, ctx := ls.ctx, outs := ls.outs } := hinv.of_entries st1 ls.ctx he rfl rfl
      obtain ⟨i2, x2, _, _⟩ := applyLocations_inv cfg height time R NR r.outputs _ _ ls2 h2 h0 hor
        (fun x hx => by
          show FlOK st1.entries R x.2.1
          rw [he]; exact hfl _ (assigned_locOK tx.txid tx.outputs floating R r hs x hx).1)
        (fun x hx => (assigned_locOK tx.txid tx.outputs floating R r hs x hx).2)
      have x2' : EntExt ls.st.entries ls2.st.entries := by
        have : EntExt st1.entries ls2.st.entries := x2
        rw [he] at this; exact this
      refine ⟨⟨i2.outs, i2.nul, i2.unb⟩, x2', ?_⟩
      obtain ⟨hsum, _, hflot, _, _, _⟩ := hcarry
      rw [hflot]
      intro f hf
      show FlOK ls2.st.entries _ f
      obtain ⟨hrest, _⟩ := assigned_rest tx.txid tx.outputs floating
      rcases List.mem_append.1 hf with hf | hf
      · exact ((hsaved f hf).mono x2').append_ranges _
      · obtain ⟨g, hg, rfl⟩ := List.mem_map.1 hf
        obtain ⟨hgf, hge⟩ := hrest g hg
        intro seq osp ho
        obtain ⟨e0, s, h0', hsat, h1⟩ := ((hfl g hgf).mono x2') seq osp ho
        refine ⟨e0, s, h0', hsat, ?_⟩
        have := carry_points_at_sat CBI _ R r hs ls.ctx.reward hrew g.offset hge
        show (den (CBI ++ r.leftover))[ls.ctx.reward + g.offset - _]? = some s
        rw [hsum, this]
        exact h1

/-! ### the coinbase -/

/-- **placement, coinbase**: `NOld` = the ranges stored under the null outpoint (`lostSats` is
their size); scanned and saved flotsam end up on the coinbase's outputs or at the null outpoint,
on their sats in `NOld ++ leftover` -/
theorem placeTx_cb_inv (cfg : Cfg) (height time : Nat) (tx : Tx) (R : Ranges) (r : TxSats)
    (totalIn : Nat) (floating : List Flotsam) (st1 : State) (ls ls' : LocState) (NOld : Ranges)
    (hs : indexTransactionSats (tx.outputs.map (·.value)) R = some r)
    (h : placeTx cfg height time tx (some R) true totalIn floating st1 ls = .ok ls')
    (he : st1.entries = ls.st.entries)
    (hinv : LsInv (NOld ++ r.leftover) ls) (hor : ls.outs.map (·.ranges) = r.outputs)
    (hfl : ∀ f ∈ floating, FlOK ls.st.entries R f)
    (hsaved : ∀ f ∈ ls.ctx.flotsam, FlOK ls.st.entries R f)
    (hL : ls.ctx.lostSats = lenR NOld) :
    LsInv (NOld ++ r.leftover) ls' ∧ EntExt ls.st.entries ls'.st.entries := by
  simp only [placeTx, ↓reduceIte] at h
  split at h
  · simp at h
  · simp at h
  · rename_i ls2 h2
    split at h
    · simp at h
    · simp at h
    · rename_i ls3 h3
      split at h
      · simp at h
      · simp only [ok.injEq] at h
        subst h
        have hall : ∀ f ∈ floating ++ ls.ctx.flotsam, FlOK ls.st.entries R f := by
          intro f hf
          rcases List.mem_append.1 hf with hf | hf
          · exact hfl f hf
          · exact hsaved f hf
        have h0 : LsInv (NOld ++ r.leftover) { st := st1, ctx := { ls.ctx with flotsam := [] }, outs := ls.outs } :=
          hinv.of_entries st1 _ he rfl rfl
        obtain ⟨i2, x2, r2, l2⟩ := applyLocations_inv cfg height time R (NOld ++ r.leftover) r.outputs _ _ ls2 h2 h0 hor
          (fun x hx => by
            show FlOK st1.entries R x.2.1
            rw [he]; exact hall _ (assigned_locOK tx.txid tx.outputs _ R r hs x hx).1)
          (fun x hx => (assigned_locOK tx.txid tx.outputs _ R r hs x hx).2)
        have x2' : EntExt ls.st.entries ls2.st.entries := by
          have : EntExt st1.entries ls2.st.entries := x2
          rw [he] at this; exact this
        obtain ⟨hrest, hov⟩ := assigned_rest tx.txid tx.outputs (floating ++ ls.ctx.flotsam)
        obtain ⟨i3, x3, _, _⟩ := applyLost_inv cfg height time R (NOld ++ r.leftover) _ (lenR NOld) _ ls2 ls3 h3 i2
          (l2.trans hL)
          (fun f hf => (hall f (hrest f hf).1).mono x2')
          (fun f hf s hsat => by
            rw [hov, lost_points_at_sat NOld _ R r hs (lenR NOld) rfl f.offset (hrest f hf).2]
            exact hsat)
        exact ⟨⟨i3.outs, i3.nul, i3.unb⟩, x2'.trans x3⟩

/-! ### `index_inscriptions` -/

/-- **one non-coinbase transaction** (no null input; the spent entries are on their sats) -/
theorem indexInscriptions_noncb_inv (cfg : Cfg) (hsat : cfg.indexSats = true) (height time : Nat) (tx : Tx)
    (inputs : List (TxIn × UtxoEntry)) (r : TxSats) (ls ls' : LocState) (NR CBI : Ranges)
    (hs : indexTransactionSats (tx.outputs.map (·.value)) (entryRanges inputs) = some r)
    (h : indexInscriptions cfg height time tx inputs (some (entryRanges inputs)) ls = .ok ls')
    (hcb : txIsCoinbase tx = false)
    (hnn : ∀ p ∈ inputs, p.1.prev.isNull = false)
    (hent : ∀ p ∈ inputs, EntSat ls.st.entries p.2)
    (hinv : LsInv NR ls) (hor : ls.outs.map (·.ranges) = r.outputs)
    (hsaved : ∀ f ∈ ls.ctx.flotsam, FlOK ls.st.entries CBI f)
    (hrew : ls.ctx.reward = lenR CBI) :
    LsInv NR ls' ∧ EntExt ls.st.entries ls'.st.entries ∧
      (∀ f ∈ ls'.ctx.flotsam, FlOK ls'.st.entries (CBI ++ r.leftover) f) ∧
      ls'.ctx.reward = lenR (CBI ++ r.leftover) ∧ ls'.ctx.lostSats = ls.ctx.lostSats := by
  rw [Insloc.indexInscriptions_eq] at h
  split at h
  · simp at h
  · simp at h
  · rename_i sc hsc
    split at h
    · simp at h
    · split at h
      · simp at h
      · rw [hcb] at h
        have hfl0 := scanInputs_flok cfg hsat ls.st _ tx.txid height (txTotalOut tx) inputs 0
          { envelopes := tx.envelopes } sc [] hnn hent (by simp [lenR]) (by intro f hf; cases hf) hsc
        simp only [List.nil_append] at hfl0
        have hfl := txFloating_flok tx sc ls.st.entries (entryRanges inputs) hfl0
        obtain ⟨a, b, c⟩ := placeTx_noncb_inv cfg height time tx (entryRanges inputs) r _ _ _ ls ls' NR CBI hs h
          (by split <;> rfl) hinv hor hfl hsaved hrew
        obtain ⟨e1, _, _, e4, e5, _⟩ := placeTx_carry cfg height time tx _ _ _ _ _ _ h
        have htot := scanInputs_total cfg _ _ _ _ _ inputs 0 _ sc hnn hsc
        simp only [Nat.zero_add] at htot
        rw [sum_totalValue cfg hsat] at htot
        obtain ⟨hle, hlo⟩ := indexTransactionSats_sizes _ _ r hs
        refine ⟨a, b, c, ?_, e5⟩
        rw [e4, e1, htot, lenR_append, hlo, hrew]

/-- **the coinbase** (the block's first transaction: its inputs are looked up as empty entries) -/
theorem indexInscriptions_cb_inv (cfg : Cfg) (height time : Nat) (tx : Tx)
    (inputs : List (TxIn × UtxoEntry)) (R : Ranges) (r : TxSats) (ls ls' : LocState) (NOld : Ranges)
    (hs : indexTransactionSats (tx.outputs.map (·.value)) R = some r)
    (h : indexInscriptions cfg height time tx inputs (some R) ls = .ok ls')
    (hcb : txIsCoinbase tx = true)
    (hemp : ∀ p ∈ inputs, p.2.ins = [])
    (hinv : LsInv (NOld ++ r.leftover) ls) (hor : ls.outs.map (·.ranges) = r.outputs)
    (hsaved : ∀ f ∈ ls.ctx.flotsam, FlOK ls.st.entries R f)
    (hL : ls.ctx.lostSats = lenR NOld) :
    LsInv (NOld ++ r.leftover) ls' ∧ EntExt ls.st.entries ls'.st.entries := by
  rw [Insloc.indexInscriptions_eq] at h
  split at h
  · simp at h
  · simp at h
  · rename_i sc hsc
    split at h
    · simp at h
    · split at h
      · simp at h
      · rw [hcb] at h
        have hnew := scanInputs_new_only cfg ls.st _ tx.txid height (txTotalOut tx) inputs 0
          { envelopes := tx.envelopes } sc hemp hsc
        have hfl0 : ∀ f ∈ sc.floating, FlOK ls.st.entries R f := by
          intro f hf
          rcases hnew f hf with h1 | h1
          · cases h1
          · exact FlOK.of_new h1
        have hfl := txFloating_flok tx sc ls.st.entries R hfl0
        exact placeTx_cb_inv cfg height time tx R r _ _ _ ls ls' NOld hs h (by split <;> rfl) hinv hor hfl hsaved hL

end Ord.Index.OnSatLift
