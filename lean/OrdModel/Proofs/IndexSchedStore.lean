import OrdModel.Proofs.IndexSchedBlock
/-
C12 helper lemmas 6: the store-level simulation relation `SRel` (concrete store with pending
cache vs. the abstract state flushed after every block), established at block start, restored
at block end, preserved by the rune pass / header write and by `commit`.
-/
namespace Ord.Index.Sched
open Ord Ord.Index Outcome

structure SRel (cfg : Cfg) (seen : List Txid) (s : Store) (a : State) : Prop where
  core : core s.st = core a
  ov : ∀ op, op.isSpecial = false → ovN s.st.utxo s.cache op = AL.get a.utxo op
  sp : ∀ op, op.isSpecial = true → AL.get a.utxo op = mo (AL.get s.st.utxo op) (AL.get s.cache op)
  noAddr : cfg.indexAddresses = false → s.st.script2out = a.script2out
  noIns : cfg.indexInscriptions = false → s.st.seq2sp = a.seq2sp
  tinvC : TInv cfg (tri s.st)
  cinvC : CInv s.st.utxo s.cache
  tinvA : TInv cfg (tri a)
  prov : ∀ op, AL.get a.utxo op ≠ none → op.txid = 0 ∨ op.txid ∈ seen

theorem SRel.mono {cfg : Cfg} {seen seen' : List Txid} {s : Store} {a : State} (h : SRel cfg seen s a)
    (hs : ∀ t, t ∈ seen → t ∈ seen') : SRel cfg seen' s a :=
  ⟨h.core, h.ov, h.sp, h.noAddr, h.noIns, h.tinvC, h.cinvC, h.tinvA, fun op hne => (h.prov op hne).imp id (hs _)⟩

/-- `SRel` only looks at the cores being equal, the three tables of both sides and the cache -/
theorem SRel.congr {cfg : Cfg} {seen : List Txid} {s s' : Store} {a a' : State} (h : SRel cfg seen s a)
    (hc : Sched.core s'.st = Sched.core a') (h1 : tri s'.st = tri s.st) (h2 : s'.cache = s.cache) (h3 : tri a' = tri a) :
    SRel cfg seen s' a' := by
  have hu : s'.st.utxo = s.st.utxo := congrArg Tri.utxo h1
  have hq : s'.st.seq2sp = s.st.seq2sp := congrArg Tri.seq2sp h1
  have hs : s'.st.script2out = s.st.script2out := congrArg Tri.script2out h1
  have hu' : a'.utxo = a.utxo := congrArg Tri.utxo h3
  have hq' : a'.seq2sp = a.seq2sp := congrArg Tri.seq2sp h3
  have hs' : a'.script2out = a.script2out := congrArg Tri.script2out h3
  refine ⟨hc, ?_, ?_, ?_, ?_, ?_, ?_, ?_, ?_⟩
  · rw [hu, h2, hu']; exact h.ov
  · rw [hu, h2, hu']; exact h.sp
  · rw [hs, hs']; exact h.noAddr
  · rw [hq, hq']; exact h.noIns
  · rw [h1]; exact h.tinvC
  · rw [hu, h2]; exact h.cinvC
  · rw [h3]; exact h.tinvA
  · rw [hu']; exact h.prov

/-! ### the special rows -/

theorem null_beq_unbound : (OutPoint.null == OutPoint.unbound) = false := by decide
theorem unbound_beq_null : (OutPoint.unbound == OutPoint.null) = false := by decide

theorem get_specialOf_null (n u : Option UtxoEntry) : AL.get (specialOf n u) OutPoint.null = n := by
  cases n <;> cases u <;> simp [specialOf, AL.get, unbound_beq_null]

theorem get_specialOf_unbound (n u : Option UtxoEntry) : AL.get (specialOf n u) OutPoint.unbound = u := by
  cases n <;> cases u <;> simp [specialOf, AL.get, null_beq_unbound]

theorem mem_keys_specialOf (n u : Option UtxoEntry) (op : OutPoint) (h : op ∈ AL.keys (specialOf n u)) :
    op.isSpecial = true := by
  cases n <;> cases u <;> simp [specialOf, AL.keys] at h
  · subst h; exact unbound_special
  · subst h; exact null_special
  · rcases h with h | h <;> subst h
    · exact null_special
    · exact unbound_special

theorem get_specialOf_nonspecial (n u : Option UtxoEntry) (op : OutPoint) (h : op.isSpecial = false) :
    AL.get (specialOf n u) op = none := by
  rw [AL.get_eq_none_iff]
  intro hm
  rw [mem_keys_specialOf n u op hm] at h; cases h

theorem nodup_keys_specialOf (n u : Option UtxoEntry) : (AL.keys (specialOf n u)).Nodup := by
  cases n <;> cases u <;> simp [specialOf, AL.keys] <;> decide

theorem keys_append {κ ν : Type} (l1 l2 : List (κ × ν)) : AL.keys (l1 ++ l2) = AL.keys l1 ++ AL.keys l2 := by
  simp [AL.keys]

theorem get_none_of_noSp {c : Cache} (h : ∀ op ∈ AL.keys c, op.isSpecial = false) {op : OutPoint}
    (hs : op.isSpecial = true) : AL.get c op = none := by
  rw [AL.get_eq_none_iff]
  intro hm; rw [h op hm] at hs; cases hs

theorem get_append_special_of_nonspecial (c : Cache) (n u : Option UtxoEntry) (op : OutPoint)
    (h : op.isSpecial = false) : AL.get (c ++ specialOf n u) op = AL.get c op := by
  rw [AL_get_append, get_specialOf_nonspecial n u op h]
  cases AL.get c op <;> rfl

theorem get_append_special_of_special {c : Cache} (hc : ∀ op ∈ AL.keys c, op.isSpecial = false)
    (n u : Option UtxoEntry) (op : OutPoint) (h : op.isSpecial = true) :
    AL.get (c ++ specialOf n u) op = AL.get (specialOf n u) op := by
  rw [AL_get_append, get_none_of_noSp hc h]

theorem CInv.append_special {cfg : Cfg} {seen : List Txid} {x : Tri} {c : Cache} (h : BInv cfg seen x c)
    (n u : Option UtxoEntry) (hn : ∀ e, n = some e → e.script = []) (hu : ∀ e, u = some e → e.script = []) :
    CInv x.utxo (c ++ specialOf n u) := by
  refine ⟨?_, ?_, ?_⟩
  · rw [keys_append, List.nodup_append]
    refine ⟨h.cinv.nodup, nodup_keys_specialOf n u, ?_⟩
    intro a ha b hb hab
    subst hab
    have h1 := h.noSp a ha
    rw [mem_keys_specialOf n u a hb] at h1; cases h1
  · intro op hs hm
    rw [keys_append, List.mem_append] at hm
    rcases hm with hm | hm
    · exact h.cinv.disj op hs hm
    · rw [mem_keys_specialOf n u op hm] at hs; cases hs
  · intro op e hs hg
    rw [get_append_special_of_special h.noSp n u op hs] at hg
    rcases (isSpecial_iff op).1 hs with rfl | rfl
    · rw [get_specialOf_null] at hg; exact hn e hg
    · rw [get_specialOf_unbound] at hg; exact hu e hg

theorem mo_script {a b : Option UtxoEntry} (ha : ∀ e, a = some e → e.script = [])
    (hb : ∀ e, b = some e → e.script = []) : ∀ e, mo a b = some e → e.script = [] := by
  intro e he
  cases a with
  | none => rw [mo_none_left] at he; exact hb e he
  | some p =>
    cases b with
    | none => rw [mo_none_right] at he; exact ha e he
    | some q =>
      simp only [mo, Option.some.injEq] at he
      rw [← he]; rfl

/-- the state of both sides at the end of a block's UTXO pass -/
theorem SRel.finish (cfg : Cfg) (seen : List Txid) (xC : Tri) (cC cA : Cache) (stA : State)
    (Pn Pu nnA uA : Option UtxoEntry)
    (hov : ∀ op, op.isSpecial = false → ovN xC.utxo cC op = ovN stA.utxo cA op)
    (hspN : AL.get stA.utxo OutPoint.null = mo (AL.get xC.utxo OutPoint.null) Pn)
    (hspU : AL.get stA.utxo OutPoint.unbound = mo (AL.get xC.utxo OutPoint.unbound) Pu)
    (hnoAddr : cfg.indexAddresses = false → xC.script2out = stA.script2out)
    (hnoIns : cfg.indexInscriptions = false → xC.seq2sp = stA.seq2sp)
    (invC : BInv cfg seen xC cC) (invA : BInv cfg seen (tri stA) cA)
    (hPn : ∀ e, Pn = some e → e.script = []) (hPu : ∀ e, Pu = some e → e.script = [])
    (hnnA : ∀ e, nnA = some e → e.script = []) (huA : ∀ e, uA = some e → e.script = []) :
    SRel cfg seen { st := W stA xC, cache := cC ++ specialOf (mo Pn nnA) (mo Pu uA) }
      (flushCache cfg stA (cA ++ specialOf nnA uA)) := by
  have hcinvA : CInv stA.utxo (cA ++ specialOf nnA uA) := CInv.append_special invA nnA uA hnnA huA
  have hcinvC : CInv xC.utxo (cC ++ specialOf (mo Pn nnA) (mo Pu uA)) :=
    CInv.append_special invC _ _ (mo_script hPn hnnA) (mo_script hPu huA)
  have hgetA : ∀ op, AL.get (flushCache cfg stA (cA ++ specialOf nnA uA)).utxo op =
      match AL.get (cA ++ specialOf nnA uA) op with
      | some e => some (eff stA.utxo op e)
      | none => AL.get stA.utxo op := fun op => get_flushCache_utxo cfg _ stA hcinvA.nodup op
  have hgetA_ns : ∀ op, op.isSpecial = false →
      AL.get (flushCache cfg stA (cA ++ specialOf nnA uA)).utxo op = ovN stA.utxo cA op := by
    intro op hop
    rw [hgetA, get_append_special_of_nonspecial _ _ _ _ hop]
    unfold ovN
    cases AL.get cA op with
    | none => rfl
    | some e => simp only; rw [eff_nonspecial e hop]
  have hgetA_sp : ∀ op, op.isSpecial = true →
      AL.get (flushCache cfg stA (cA ++ specialOf nnA uA)).utxo op =
        mo (AL.get stA.utxo op) (AL.get (specialOf nnA uA) op) := by
    intro op hop
    rw [hgetA, get_append_special_of_special invA.noSp _ _ _ hop]
    cases AL.get (specialOf nnA uA) op with
    | none => simp
    | some e => simp only; exact eff_special e hop
  refine ⟨?_, ?_, ?_, ?_, ?_, invC.tinv, hcinvC, ?_, ?_⟩
  · rw [flushCache_core]; rfl
  · intro op hop
    show ovN xC.utxo (cC ++ specialOf (mo Pn nnA) (mo Pu uA)) op = _
    rw [hgetA_ns op hop, ← hov op hop]
    unfold ovN
    rw [get_append_special_of_nonspecial _ _ _ _ hop]
  · intro op hop
    show _ = mo (AL.get xC.utxo op) (AL.get (cC ++ specialOf (mo Pn nnA) (mo Pu uA)) op)
    rw [hgetA_sp op hop, get_append_special_of_special invC.noSp _ _ _ hop]
    rcases (isSpecial_iff op).1 hop with rfl | rfl
    · rw [get_specialOf_null, get_specialOf_null, hspN, mo_assoc]
    · rw [get_specialOf_unbound, get_specialOf_unbound, hspU, mo_assoc]
  · intro ha
    show xC.script2out = _
    rw [flushCache_script2out_noAddr cfg _ _ ha]; exact hnoAddr ha
  · intro hi
    show xC.seq2sp = _
    rw [flushCache_seq2sp_noIns cfg _ _ hi]; exact hnoIns hi
  · exact TInv.after_flushCache _ invA.tinv hcinvA
  · intro op hne
    cases hop : op.isSpecial with
    | true => exact Or.inl (special_txid hop)
    | false =>
      rw [hgetA_ns op hop] at hne
      exact invA.prov op hne

/-! ### block start -/

theorem AL_get_erase_ne' {κ ν : Type} [BEq κ] [LawfulBEq κ] (l : List (κ × ν)) {k k' : κ} (h : k ≠ k') :
    AL.get (AL.erase l k) k' = AL.get l k' := AL.get_erase_ne l h

theorem SRel.start {cfg : Cfg} {seen : List Txid} {s : Store} {a : State} (h : SRel cfg seen s a) (blk : Block) :
    TRel cfg (AL.get s.cache OutPoint.null) (AL.get s.cache OutPoint.unbound) seen (bc0C cfg s blk) (bc0A cfg a blk) := by
  have hnod := h.cinvC.nodup
  have hget : ∀ op, op.isSpecial = false →
      AL.get (AL.erase (AL.erase s.cache OutPoint.null) OutPoint.unbound) op = AL.get s.cache op := by
    intro op hop
    have h1 : OutPoint.null ≠ op := by intro hc; rw [← hc, null_special] at hop; cases hop
    have h2 : OutPoint.unbound ≠ op := by intro hc; rw [← hc, unbound_special] at hop; cases hop
    rw [AL.get_erase_ne _ h2, AL.get_erase_ne _ h1]
  have hsub : ∀ op, op ∈ AL.keys (AL.erase (AL.erase s.cache OutPoint.null) OutPoint.unbound) → op ∈ AL.keys s.cache :=
    fun op hm => AL.keys_erase_subset _ _ _ (AL.keys_erase_subset _ _ _ hm)
  have hnod2 : (AL.keys (AL.erase (AL.erase s.cache OutPoint.null) OutPoint.unbound)).Nodup :=
    AL.nodup_erase _ _ (AL.nodup_erase _ _ hnod)
  have hnoSp : ∀ op ∈ AL.keys (AL.erase (AL.erase s.cache OutPoint.null) OutPoint.unbound), op.isSpecial = false := by
    intro op hm
    cases hop : op.isSpecial with
    | false => rfl
    | true =>
      exfalso
      have hne : AL.get (AL.erase (AL.erase s.cache OutPoint.null) OutPoint.unbound) op ≠ none := by
        intro hc; exact (AL.get_eq_none_iff _ _).1 hc hm
      rcases (isSpecial_iff op).1 hop with rfl | rfl
      · rw [AL.get_erase_ne _ (Ne.symm null_ne_unbound), AL.get_erase_self _ _ hnod] at hne
        exact hne rfl
      · rw [AL.get_erase_self _ _ (AL.nodup_erase _ _ hnod)] at hne
        exact hne rfl
  have hl : s.st.lostSats = a.lostSats :=
    show (Sched.core s.st).lostSats = (Sched.core a).lostSats from congrArg State.lostSats h.core
  have hh : s.st.home = a.home :=
    show (Sched.core s.st).home = (Sched.core a).home from congrArg State.home h.core
  refine ⟨h.core, ?_, rfl, rfl, ?_, ?_, ?_, h.noAddr, h.noIns, ⟨h.tinvC, ⟨hnod2, ?_, ?_⟩, hnoSp, ?_⟩,
    ⟨h.tinvA, ⟨List.nodup_nil, ?_, ?_⟩, ?_, ?_⟩⟩
  · simp only [bc0C, bc0A, tctx, mo_none_right, hl, hh]
  · intro op hop
    show ovN s.st.utxo (AL.erase (AL.erase s.cache OutPoint.null) OutPoint.unbound) op = ovN a.utxo [] op
    have : ovN a.utxo [] op = AL.get a.utxo op := rfl
    rw [this, ← h.ov op hop]
    unfold ovN
    rw [hget op hop]
  · exact h.sp _ null_special
  · exact h.sp _ unbound_special
  · intro op hop hm; exact h.cinvC.disj op hop (hsub op hm)
  · intro op e hop hg
    have hg : AL.get (AL.erase (AL.erase s.cache OutPoint.null) OutPoint.unbound) op = some e := hg
    have hm : op ∈ AL.keys (AL.erase (AL.erase s.cache OutPoint.null) OutPoint.unbound) := by
      apply Classical.byContradiction; intro hcon
      rw [(AL.get_eq_none_iff _ _).2 hcon] at hg; cases hg
    rw [hnoSp op hm] at hop; cases hop
  · intro op hne
    cases hop : op.isSpecial with
    | true => exact Or.inl (special_txid hop)
    | false =>
      apply h.prov
      rw [← h.ov op hop]
      have hne : ovN s.st.utxo (AL.erase (AL.erase s.cache OutPoint.null) OutPoint.unbound) op ≠ none := hne
      unfold ovN at hne ⊢
      rw [hget op hop] at hne
      exact hne
  · intro op _ hm; cases hm
  · intro op e _ hg; cases hg
  · intro op hm; cases hm
  · intro op hne; exact h.prov op hne

/-! ### the conditions on a block -/

/-- `seen` = txids of all earlier transactions of the chain -/
structure BlockOK (seen : List Txid) (blk : Block) : Prop where
  nonzero : ∀ tx ∈ blk.txs, tx.txid ≠ 0
  fresh : ∀ tx ∈ blk.txs, tx.txid ∉ seen
  nodup : (blk.txs.map (·.txid)).Nodup
  /-- no transaction but the first spends the null or the unbound outpoint -/
  noSpecialSpend : ∀ tx ∈ blk.txs.drop 1, ∀ i ∈ tx.inputs, i.prev.isSpecial = false

theorem blockOrder_cons (blk : Block) (t : Tx) (ts : List Tx) (h : blk.txs = t :: ts) :
    blockOrder blk = enumFrom 1 ts ++ [(0, t)] := by
  simp [blockOrder, h, enumFrom]

theorem mem_enumFrom {α : Type} (l : List α) (n : Nat) (p : Nat × α) (h : p ∈ enumFrom n l) : n ≤ p.1 ∧ p.2 ∈ l := by
  induction l generalizing n with
  | nil => simp [enumFrom] at h
  | cons a rest ih =>
    simp only [enumFrom, List.mem_cons] at h
    rcases h with h | h
    · subst h; exact ⟨Nat.le_refl _, by simp⟩
    · have := ih _ h
      exact ⟨by omega, by simp [this.2]⟩

theorem enumFrom_map_snd {α : Type} (l : List α) (n : Nat) : (enumFrom n l).map (·.2) = l := by
  induction l generalizing n with
  | nil => rfl
  | cons a rest ih => simp [enumFrom, ih]

theorem blockOrder_facts (seen : List Txid) (blk : Block) (h : BlockOK seen blk) :
    (∀ p ∈ blockOrder blk, p.2.txid ≠ 0) ∧ ((blockOrder blk).map (·.2.txid)).Nodup ∧
    (∀ p ∈ blockOrder blk, p.2.txid ∉ seen) ∧
    (∀ p ∈ blockOrder blk, p.1 ≠ 0 → ∀ i ∈ p.2.inputs, i.prev.isSpecial = false) ∧
    (∀ t, t ∈ seenAfter (blockOrder blk) seen ↔ t ∈ seen ∨ t ∈ blk.txs.map (·.txid)) := by
  cases htx : blk.txs with
  | nil =>
    have : blockOrder blk = [] := by simp [blockOrder, htx, enumFrom]
    rw [this]
    simp [seenAfter]
  | cons t ts =>
    have ho := blockOrder_cons blk t ts htx
    have hmem : ∀ p ∈ blockOrder blk, p.2 ∈ blk.txs ∧ (p.1 ≠ 0 → p.2 ∈ ts) := by
      intro p hp
      rw [ho, List.mem_append] at hp
      rcases hp with hp | hp
      · have := mem_enumFrom _ _ _ hp
        exact ⟨by rw [htx]; simp [this.2], fun _ => this.2⟩
      · simp only [List.mem_singleton] at hp
        subst hp
        exact ⟨by rw [htx]; simp, fun h0 => absurd rfl h0⟩
    have hmap : (blockOrder blk).map (·.2.txid) = ts.map (·.txid) ++ [t.txid] := by
      rw [ho, List.map_append]
      have : (enumFrom 1 ts).map (fun p => p.2.txid) = ((enumFrom 1 ts).map (·.2)).map (·.txid) := by
        rw [List.map_map]; rfl
      rw [this, enumFrom_map_snd]; rfl
    have hnd := h.nodup
    rw [htx] at hnd
    simp only [List.map_cons, List.nodup_cons] at hnd
    refine ⟨fun p hp => h.nonzero _ (hmem p hp).1, ?_, fun p hp => h.fresh _ (hmem p hp).1, ?_, ?_⟩
    · rw [hmap, List.nodup_append]
      refine ⟨hnd.2, by simp, ?_⟩
      intro a ha b hb hab
      simp only [List.mem_singleton] at hb
      subst hb; subst hab
      exact hnd.1 ha
    · intro p hp h0 i hi
      have := h.noSpecialSpend p.2 (by rw [htx]; simpa using (hmem p hp).2 h0) i hi
      exact this
    · intro x
      rw [mem_seenAfter, hmap]
      simp only [List.mem_append, List.map_cons, List.mem_cons, List.not_mem_nil, or_false]
      constructor
      · rintro (h1 | h1 | h1)
        · exact Or.inl h1
        · exact Or.inr (Or.inr h1)
        · exact Or.inr (Or.inl h1)
      · rintro (h1 | h1 | h1)
        · exact Or.inl h1
        · exact Or.inr (Or.inr h1)
        · exact Or.inr (Or.inl h1)

/-! ### the UTXO pass of a block -/

theorem utxoPass_rel (cfg : Cfg) (seen : List Txid) (s : Store) (a : State) (blk : Block)
    (hS : SRel cfg seen s a) (hb : BlockOK seen blk) :
    OutRel (fun rC rA => rC.2 = rA.2 ∧ SRel cfg (seenAfter (blockOrder blk) seen) rC.1 rA.1)
      (indexUtxoEntriesC cfg s blk) (indexUtxoEntries cfg a blk) := by
  rw [indexUtxoEntriesC_eq, indexUtxoEntries_eq]
  obtain ⟨f0, fnd, ffresh, fsp, _⟩ := blockOrder_facts seen blk hb
  have hPn : ∀ p, AL.get s.cache OutPoint.null = some p → p.script = [] :=
    fun p hp => hS.cinvC.spScript _ p null_special hp
  have hPu : ∀ p, AL.get s.cache OutPoint.unbound = some p → p.script = [] :=
    fun p hp => hS.cinvC.spScript _ p unbound_special hp
  have hrel := indexTxs_rel cfg blk (insOnOf cfg blk) _ _ hPn hPu (blockOrder blk) seen f0 fnd ffresh fsp
    _ _ (hS.start blk)
  cases hC : indexTxs cfg blk (insOnOf cfg blk) (blockOrder blk) (bc0C cfg s blk) with
  | panic e => cases hA : indexTxs cfg blk (insOnOf cfg blk) (blockOrder blk) (bc0A cfg a blk) <;> simp_all [OutRel]
  | err e => cases hA : indexTxs cfg blk (insOnOf cfg blk) (blockOrder blk) (bc0A cfg a blk) <;> simp_all [OutRel]
  | ok bcC =>
    cases hA : indexTxs cfg blk (insOnOf cfg blk) (blockOrder blk) (bc0A cfg a blk) with
    | panic e => simp_all [OutRel]
    | err e => simp_all [OutRel]
    | ok bcA =>
      rw [hC, hA] at hrel
      simp only [OutRel] at hrel
      have hspA : SpOk bcA.ins := indexTxs_spOk _ _ _ _ _ _ hA (SpOk.of (by intro e he; cases he) (by intro e he; cases he))
      obtain ⟨xC, cC, hshape⟩ : ∃ xC cC, bcC = tbc xC (mo (AL.get s.cache OutPoint.null)) (mo (AL.get s.cache OutPoint.unbound)) cC bcA :=
        ⟨_, _, hrel.shape⟩
      subst hshape
      simp only [OutRel]
      rw [endState_tbc]
      refine ⟨rfl, ?_⟩
      have htri := endState_tri cfg blk (insOnOf cfg blk) bcA
      have hu : (endState cfg blk (insOnOf cfg blk) bcA).1.utxo = bcA.st.utxo := congrArg Tri.utxo htri
      have hq : (endState cfg blk (insOnOf cfg blk) bcA).1.seq2sp = bcA.st.seq2sp := congrArg Tri.seq2sp htri
      have hs : (endState cfg blk (insOnOf cfg blk) bcA).1.script2out = bcA.st.script2out := congrArg Tri.script2out htri
      have hnn : ∀ e, (endState cfg blk (insOnOf cfg blk) bcA).2 = some e → e.script = [] := by
        intro e he
        cases hl : bcA.lostRanges.isEmpty with
        | true => simp only [endState, hl, if_true] at he; exact hspA.null e he
        | false =>
          simp only [endState, hl, Bool.false_eq_true, if_false, Option.some.injEq] at he
          rw [← he]; rfl
      apply SRel.finish cfg _ xC cC bcA.cache _ _ _ _ _
      · intro op hop; rw [hu]; exact hrel.ov op hop
      · rw [hu]; exact hrel.spN
      · rw [hu]; exact hrel.spU
      · intro ha; rw [hs]; exact hrel.noAddr ha
      · intro hi; rw [hq]; exact hrel.noIns hi
      · exact hrel.invC
      · rw [htri]; exact hrel.invA
      · exact hPn
      · exact hPu
      · exact hnn
      · exact hspA.unbound

end Ord.Index.Sched
