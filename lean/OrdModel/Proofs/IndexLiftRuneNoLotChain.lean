import OrdModel.Proofs.IndexLiftRuneNoLotTx
import OrdModel.Proofs.IndexLiftRuneKeys
import OrdModel.Proofs.IndexLiftRuneSupplyChain
import OrdModel.Index.Valid
/-
Rune lift, part 3d: in every reachable state the supply of every rune is bounded by what its
etching allows (`premine + cap · amount < 2^128`, the decipher-time check
`Valid.etchingSupplyInRange`), every key of the block's burn map names an existing rune, and
therefore the rune pass of the next block fires none of the `Lot` panic branches (`addLot`
overflow, `flushBurned`'s `checked_add` / `unwrap`) — the C16 corollary of C08.
-/
namespace Ord.Index.RuneLift
open Ord.Index Ord.Index.Spec Ord.Index.RS Ord.Index.Oracle Ord.Outcome
open Ord.Index.Runemint (RInv RuneFrame)

/-- the most a rune can ever supply: premine + cap · mint amount -/
def supplyCap (e : RuneEntry) : Nat := e.premine + Runemint.capOf e * mintAmount e

/-- every entry's maximal supply fits `u128` (what `Runestone::decipher` checks of an etching) -/
def EB (st : State) : Prop := ∀ id e, AL.get st.runeEntries id = some e → supplyCap e < U128

theorem u128_eq : Valid.u128 = U128 := by decide

theorem U128_pos : 0 < U128 := by unfold U128; exact Nat.two_pow_pos 128

theorem etching_bound {tx : Tx} {eds : List Edict} {e : Etching} {m : Option RuneId} {p : Option Nat}
    (hart : tx.artifact = some (.runestone eds (some e) m p)) (h : Valid.etchingSupplyInRange tx = true) :
    e.premine.getD 0 + (e.terms.bind (·.cap)).getD 0 * (e.terms.bind (·.amount)).getD 0 < U128 := by
  unfold Valid.etchingSupplyInRange at h
  rw [hart] at h
  simp only [decide_eq_true_eq] at h
  rw [u128_eq] at h
  exact h

theorem premineOf_lt {tx : Tx} {art : Artifact} (hart : tx.artifact = some art)
    (h : Valid.etchingSupplyInRange tx = true) : premineOf art < U128 := by
  cases art with
  | cenotaph ce cm => exact U128_pos
  | runestone eds e m p =>
    cases e with
    | none => exact U128_pos
    | some e =>
      have := etching_bound hart h
      show (e.premine).getD 0 < U128
      omega

theorem newEntry_cap (st : State) (blk : Block) (tx : Tx) (art : Artifact) (id : RuneId) (rune : Nat)
    (hart : tx.artifact = some art) (he : Runemint.etchingOf art ≠ none)
    (h : Valid.etchingSupplyInRange tx = true) :
    supplyCap (Runemint.newEntry st blk tx art id rune) < U128 := by
  cases art with
  | cenotaph ce cm =>
    show 0 + 0 * 0 < U128
    exact U128_pos
  | runestone eds e m p =>
    cases e with
    | none => simp [Runemint.etchingOf] at he
    | some e =>
      have hb := etching_bound hart h
      have hm : mintAmount (Runemint.newEntry st blk tx (.runestone eds (some e) m p) id rune)
          = (e.terms.bind (·.amount)).getD 0 := by
        unfold mintAmount Runemint.newEntry
        simp only
        cases e.terms <;> rfl
      show e.premine.getD 0 + (e.terms.bind (·.cap)).getD 0 * mintAmount _ < U128
      rw [hm]
      exact hb

theorem supplyCap_afterMint (e : RuneEntry) (id : RuneId) (m : Option RuneId) (H : Nat) :
    supplyCap (Runemint.afterMint e id m H) = supplyCap e := by
  unfold Runemint.afterMint
  split <;> rfl

/-! ### one transaction: the entry bound, the burn-map keys, the a-priori bound -/

theorem tx_new_entry {st : State} {H t : Nat} (hR : RInv st H t) (blk : Block) (tx : Tx) (bb : Balances)
    (st' : State) (bb' : Balances) (evs : List Event) (hH : blk.height = H)
    (hok : indexRunesTx st blk t tx bb = .ok (st', bb', evs)) (e : RuneEntry)
    (hge : AL.get st'.runeEntries ⟨H, t⟩ = some e) :
    ∃ art st2 rune, tx.artifact = some art ∧ Runemint.etchingOf art ≠ none ∧
      e = Runemint.newEntry st2 blk tx art ⟨H, t⟩ rune := by
  subst hH
  have habsent : AL.get st.runeEntries ⟨blk.height, t⟩ = none := by
    cases hg : AL.get st.runeEntries ⟨blk.height, t⟩ with
    | none => rfl
    | some e =>
      have := (hR.ids _ e hg).2.2
      unfold Runemint.idBefore at this; simp at this
  obtain ⟨l1, hl1, hl2⟩ := tx_entries_shape hok
  have hl1none : AL.get l1 ⟨blk.height, t⟩ = none := by
    rcases hl1 with rfl | ⟨id, e0, e', hg0, rfl⟩
    · exact habsent
    · rw [get_set]
      have : ¬ id = ⟨blk.height, t⟩ := by
        intro h; rw [h, habsent] at hg0; simp at hg0
      have hb : (id == (⟨blk.height, t⟩ : RuneId)) = false := by simpa using this
      rw [hb]; exact habsent
  rcases hl2 with h | ⟨art, st2, rune, hart, hne, h⟩
  · rw [h, hl1none] at hge; simp at hge
  · rw [h, get_set] at hge
    simp only [beq_self_eq_true, if_true, Option.some.injEq] at hge
    exact ⟨art, st2, rune, hart, hne, hge.symm⟩

theorem tx_EB {st : State} {H t : Nat} (hR : RInv st H t) (hEB : EB st) (blk : Block) (tx : Tx)
    (bb : Balances) (st' : State) (bb' : Balances) (evs : List Event) (hH : blk.height = H)
    (ht : t < 4294967296) (hsup : Valid.etchingSupplyInRange tx = true)
    (hok : indexRunesTx st blk t tx bb = .ok (st', bb', evs)) : EB st' := by
  obtain ⟨_, hother, _⟩ := Runemint.tx_step hR blk tx bb st' bb' evs hH ht hok
  intro id e' hg'
  by_cases hid : id = ⟨H, t⟩
  · subst hid
    obtain ⟨art, st2, rune, hart, hne, rfl⟩ := tx_new_entry hR blk tx bb st' bb' evs hH hok e' hg'
    exact newEntry_cap st2 blk tx art _ rune hart hne hsup
  · rw [hother id hid] at hg'
    cases hg : AL.get st.runeEntries id with
    | none => rw [hg] at hg'; simp at hg'
    | some e =>
      rw [hg] at hg'
      simp only [Option.map_some, Option.some.injEq] at hg'
      subst hg'
      rw [supplyCap_afterMint]
      exact hEB id e hg

theorem tx_bbKeys {seen : List Tx} {st : State} {bb : Balances} {H t : Nat}
    (hS : SInv seen st bb) (hR : RInv st H t)
    (hK : KeysIn (fun id => AL.get st.runeEntries id ≠ none) bb) (blk : Block) (tx : Tx)
    (st' : State) (bb' : Balances) (evs : List Event) (hH : blk.height = H) (ht : t < 4294967296)
    (hok : indexRunesTx st blk t tx bb = .ok (st', bb', evs)) :
    KeysIn (fun id => AL.get st'.runeEntries id ≠ none) bb' := by
  subst hH
  obtain ⟨st0, un0, st3, un, alloc, evs1, alloc2, burned0, burned, evs2, hti, hp1, hp2, hw, hadd⟩ :=
    indexRunesTx_parts hok
  obtain ⟨_, _, hst0⟩ := takeInputs_ok tx.inputs st [] st0 un0 hti (by simp)
  have hents0 : st0.runeEntries = st.runeEntries := by rw [hst0]
  have hr2id0 : st0.rune2id = st.rune2id := by rw [hst0]
  obtain ⟨_, hother, hnewcase⟩ := Runemint.tx_step hR blk tx bb st' bb' evs rfl ht hok
  have habsent : AL.get st.runeEntries ⟨blk.height, t⟩ = none := by
    cases hg : AL.get st.runeEntries ⟨blk.height, t⟩ with
    | none => rfl
    | some e =>
      have := (hR.ids _ e hg).2.2
      unfold Runemint.idBefore at this; simp at this
  have hpersist : ∀ id, AL.get st.runeEntries id ≠ none → AL.get st'.runeEntries id ≠ none := by
    intro id h
    have hne : id ≠ ⟨blk.height, t⟩ := fun e => h (e ▸ habsent)
    rw [hother id hne]
    cases hg : AL.get st.runeEntries id with
    | none => exact absurd hg h
    | some e => simp
  -- the keys of the inputs
  have hrowsK : ∀ p ∈ st.balances, KeysIn (fun id => AL.get st'.runeEntries id ≠ none) p.2 := by
    intro p hp id hid
    obtain ⟨q, hq, rfl⟩ := List.mem_map.1 hid
    exact hpersist _ ((hS.rows p.1 p.2 hp).2.2.1 q.1 q.2 hq).2
  have hun0 := takeInputs_keys tx.inputs st [] st0 un0 hti hrowsK keysIn_nil
  have halloc0 : KeysAlloc (fun id => AL.get st'.runeEntries id ≠ none) (tx.outputs.map (fun _ => ([] : Balances))) := by
    intro m hm
    simp only [List.mem_map] at hm
    obtain ⟨_, _, rfl⟩ := hm
    exact keysIn_nil
  -- mint, etching, edicts
  have h1 : KeysIn (fun id => AL.get st'.runeEntries id ≠ none) un ∧
      KeysAlloc (fun id => AL.get st'.runeEntries id ≠ none) alloc := by
    rcases phase1_parts hp1 with ⟨_, rfl, rfl⟩ | ⟨art, st1, un1, ev1, st2, et, hart, hms, hE, hA⟩
    · exact ⟨hun0, halloc0⟩
    · have hun1 := mintStep_keys hms hun0 (fun id s a hm => by
        apply hpersist
        have h2 : (mint st0 blk.height id).2 = some a := by rw [hm]
        obtain ⟨e, he, _⟩ := (Runemint.mint_some_iff st0 blk.height id a).1 h2
        rw [← hents0, he]; simp)
      have hst1 : st1 = Runemint.mintStep st0 blk.height art := by
        have := (mintStep_spec st0 un0 blk tx art hart).1
        rw [hms] at this
        simp only at this
        rw [this, stAfterMint_eq st0 blk.height tx art hart]
      have het : ∀ id rune, et = some (id, rune) → AL.get st'.runeEntries id ≠ none := by
        intro id rune he
        subst he
        obtain ⟨_, hcase⟩ := Runemint.etched_cases st1 st2 blk t tx art _ hE
        rcases hcase with ⟨h, _⟩ | ⟨h, hv⟩
        · cases h
        · simp only [Option.some.injEq, Prod.mk.injEq] at h
          have hv' : Runemint.ValidEtching st blk tx art := by
            apply (Runemint.ValidEtching_congr blk tx art _).1 hv
            rw [hst1, Runemint.mintStep_rune2id, hr2id0]
          rcases hnewcase with ⟨_, _, _, _, e, hge, _⟩ | ⟨hnv, _⟩
          · rw [h.1, hge]; simp
          · exact absurd hv' (hnv art hart)
      exact afterEdictsOf_keys hA hun1 het halloc0
  obtain ⟨h2a, h2b⟩ := phase2_keys hp2 h1.1 h1.2
  have h3 := writeOutputs_keys blk tx alloc2 0 st3 burned0 evs1 st' burned evs2 hw h2b h2a
  exact addAllTo_keys burned bb bb' false hadd h3 (fun id hid => hpersist id (hK id hid))

/-- **The a-priori bound**: in a state satisfying the supply invariant, the block's burn map plus
what a rune has unallocated in the next transaction stays below 2^128. -/
theorem tx_bound {seen : List Tx} {st : State} {bb : Balances} {H t : Nat}
    (hS : SInv seen st bb) (hR : RInv st H t) (hEB : EB st) (blk : Block) (tx : Tx) (hH : blk.height = H)
    (hsup : Valid.etchingSupplyInRange tx = true) (r : RuneId) :
    lk bb r + txUnallocated st blk t tx r < U128 := by
  subst hH
  rw [txUnallocated_eq]
  have habsent : AL.get st.runeEntries ⟨blk.height, t⟩ = none := by
    cases hg : AL.get st.runeEntries ⟨blk.height, t⟩ with
    | none => rfl
    | some e =>
      have := (hR.ids _ e hg).2.2
      unfold Runemint.idBefore at this; simp at this
  -- the etching part: zero unless `r` is this transaction's own id; always below 2^128
  have hE : etchPart (spent st tx) blk t tx r < U128 ∧
      (etchPart (spent st tx) blk t tx r ≠ 0 → r = ⟨blk.height, t⟩) := by
    unfold etchPart
    cases hte : RS.txEtched (spent st tx) blk t tx with
    | none => exact ⟨U128_pos, fun h => absurd rfl h⟩
    | some q =>
      obtain ⟨id, p⟩ := q
      obtain ⟨art, hart, hid, hp, _⟩ := txEtched_some hte
      simp only
      have hlt := premineOf_lt hart hsup
      by_cases hr : id = r
      · simp only [hr, if_true]
        exact ⟨by rw [hp]; exact hlt, fun _ => by rw [← hr, hid]⟩
      · simp only [hr, if_false]
        exact ⟨U128_pos, fun h => absurd rfl h⟩
  have hM := mintPart_eq (spent st tx) blk.height tx r
  have hMent : (spent st tx).runeEntries = st.runeEntries := rfl
  rw [hMent] at hM
  cases hg : AL.get st.runeEntries r with
  | none =>
    rw [hg] at hM
    simp only at hM
    have hIz : inputRunes st.balances tx.inputs r = 0 := by
      cases h : inputRunes st.balances tx.inputs r with
      | zero => rfl
      | succ n =>
        obtain ⟨o, row, b, hm, hb⟩ := inputRunes_pos tx.inputs st.balances r (by rw [h]; omega)
        exact absurd hg ((hS.rows o row hm).2.2.1 r b hb).2
    have hbz := hS.bbZero r hg
    rw [hIz, hM, hbz]
    have := hE.1
    omega
  | some e =>
    rw [hg] at hM
    simp only at hM
    have hEz : etchPart (spent st tx) blk t tx r = 0 := by
      cases h : etchPart (spent st tx) blk t tx r with
      | zero => rfl
      | succ n =>
        have := hE.2 (by rw [h]; simp)
        rw [this, habsent] at hg
        cases hg
    have hrowsN : ∀ p ∈ st.balances, (keys p.2).Nodup := fun p hp => (hS.rows p.1 p.2 hp).1
    have h2 := spendAll_supply tx.inputs st.balances hrowsN r
    have h0 := hS.supply r e hg
    have hcap := hEB r e hg
    unfold supplyCap at hcap
    have hle := (hR.cap r e hg).1
    rw [hEz, hM]
    by_cases hc : Runemint.txMint tx = some r ∧ Runemint.mintOpen e blk.height = true
    · rw [if_pos hc]
      have hlt := (Runemint.mintOpen_terms hc.2).2
      have hmul : (e.mints + 1) * mintAmount e ≤ Runemint.capOf e * mintAmount e :=
        Nat.mul_le_mul_right _ hlt
      rw [Nat.succ_mul] at hmul
      omega
    · rw [if_neg hc]
      have hmul : e.mints * mintAmount e ≤ Runemint.capOf e * mintAmount e :=
        Nat.mul_le_mul_right _ hle
      omega

/-! ### the invariant with keys and entry bound; block, chain -/

structure SInvK (seen : List Tx) (st : State) (bb : Balances) : Prop where
  s : SInv seen st bb
  keys : KeysIn (fun id => AL.get st.runeEntries id ≠ none) bb
  eb : EB st

theorem SInvK_empty : SInvK [] {} [] :=
  ⟨SInv_empty, keysIn_nil, fun id e h => by simp [AL.get] at h⟩

theorem go_noLot (blk : Block) : ∀ (txs : List Tx) (t0 : Nat) (seen : List Tx) (st : State) (bb : Balances)
    (evs : List Event),
    SInvK seen st bb → RInv st blk.height t0 → t0 + txs.length ≤ 4294967296 →
    ((seen ++ txs).map (·.txid)).Nodup → (∀ tx ∈ txs, Valid.etchingSupplyInRange tx = true) →
    NoLot (indexRunesBlock.go blk (enumFrom t0 txs) st bb evs) ∧
    ∀ st' bb' evs', indexRunesBlock.go blk (enumFrom t0 txs) st bb evs = .ok (st', bb', evs') →
      SInvK (seen ++ txs) st' bb' ∧ RInv st' blk.height (t0 + txs.length)
  | [], t0, seen, st, bb, evs, hS, hR, _, _, _ => by
    refine ⟨noLot_ok _, fun st' bb' evs' hr => ?_⟩
    simp only [enumFrom, indexRunesBlock.go, Outcome.ok.injEq, Prod.mk.injEq] at hr
    obtain ⟨rfl, rfl, _⟩ := hr
    simpa using ⟨hS, hR⟩
  | tx :: rest, t0, seen, st, bb, evs, hS, hR, hlen, hnd, hsup => by
    simp only [List.length_cons] at hlen
    have hsupt := hsup tx List.mem_cons_self
    have hN := tx_noLot (blk := blk) (t := t0) (tx := tx) hS.s.bbNodup
      (fun r => tx_bound hS.s hR hS.eb blk tx rfl hsupt r)
    simp only [enumFrom, indexRunesBlock.go]
    cases htx : indexRunesTx st blk t0 tx bb with
    | panic s => simp only; exact ⟨noLot_str (hN s htx), fun _ _ _ h => by cases h⟩
    | err e => simp only; exact ⟨noLot_err _, fun _ _ _ h => by cases h⟩
    | ok r =>
      obtain ⟨st1, bb1, evs1⟩ := r
      simp only
      have hnew : tx.txid ∉ seen.map (·.txid) := by
        rw [List.map_append, List.map_cons] at hnd
        exact not_mem_of_nodup_append hnd
      have hS1 := tx_supply hS.s hR blk tx st1 bb1 evs1 rfl (by omega) hnew htx
      have hR1 := (Runemint.tx_step hR blk tx bb st1 bb1 evs1 rfl (by omega) htx).1
      have hK1 := tx_bbKeys hS.s hR hS.keys blk tx st1 bb1 evs1 rfl (by omega) htx
      have hE1 := tx_EB hR hS.eb blk tx bb st1 bb1 evs1 rfl (by omega) hsupt htx
      have hnd1 : (((seen ++ [tx]) ++ rest).map (·.txid)).Nodup := by
        simpa [List.append_assoc] using hnd
      have := go_noLot blk rest (t0 + 1) (seen ++ [tx]) st1 bb1 (evs ++ evs1) ⟨hS1, hK1, hE1⟩ hR1 (by omega) hnd1
        (fun x hx => hsup x (List.mem_cons_of_mem _ hx))
      simpa [List.length_cons, List.append_assoc, Nat.add_assoc, Nat.add_comm 1] using this

theorem flushBurned_EB {st st' : State} {bb : Balances} (hr : flushBurned bb st = .ok st')
    (hn : (keys bb).Nodup) (hen : (keys st.runeEntries).Nodup) (h : EB st) : EB st' := by
  obtain ⟨_, _, he⟩ := flushBurned_entries bb st st' hr hn hen
  intro id e' hg'
  rw [he id] at hg'
  cases hg : AL.get st.runeEntries id with
  | none => rw [hg] at hg'; simp at hg'
  | some e =>
    rw [hg] at hg'
    simp only [Option.map_some, Option.some.injEq] at hg'
    subst hg'
    exact h id e hg

/-- **One block of the rune pass fires no `Lot` panic**, and hands the invariant on. -/
theorem block_noLot {seen : List Tx} {st : State} {H : Nat} (hS : SInvK seen st []) (hR : RInv st H 0)
    (blk : Block) (hH : blk.height = H) (hlen : blk.txs.length ≤ 4294967296)
    (hnd : ((seen ++ blk.txs).map (·.txid)).Nodup)
    (hsup : ∀ tx ∈ blk.txs, Valid.etchingSupplyInRange tx = true) :
    NoLot (indexRunesBlock st blk) ∧
    ∀ st' evs, indexRunesBlock st blk = .ok (st', evs) → SInvK (seen ++ blk.txs) st' [] := by
  subst hH
  obtain ⟨hN, hgo⟩ := go_noLot blk blk.txs 0 seen st [] [] hS hR (by omega) hnd hsup
  unfold indexRunesBlock
  cases hg : indexRunesBlock.go blk (enumFrom 0 blk.txs) st [] [] with
  | panic s => simp only; exact ⟨noLot_str (hN s hg), fun _ _ h => by cases h⟩
  | err e => simp only; exact ⟨noLot_err _, fun _ _ h => by cases h⟩
  | ok r =>
    obtain ⟨st1, bb, evs1⟩ := r
    simp only
    obtain ⟨hS1, hR1⟩ := hgo st1 bb evs1 hg
    obtain ⟨st2, hf⟩ := flushBurned_total bb st1 hS1.s.bbNodup (fun id hid => by
      cases hge : AL.get st1.runeEntries id with
      | none => exact absurd hge (hS1.keys id hid)
      | some e =>
        refine ⟨e, rfl, ?_⟩
        have h0 := hS1.s.supply id e hge
        have hcap := hS1.eb id e hge
        unfold supplyCap at hcap
        have hmul : e.mints * mintAmount e ≤ Runemint.capOf e * mintAmount e :=
          Nat.mul_le_mul_right _ (hR1.cap id e hge).1
        omega)
    rw [hf]
    simp only
    refine ⟨noLot_ok _, fun st' evs he => ?_⟩
    simp only [Outcome.ok.injEq, Prod.mk.injEq] at he
    obtain ⟨rfl, _⟩ := he
    exact ⟨flushBurned_supply hS1.s hf, keysIn_nil, flushBurned_EB hf hS1.s.bbNodup hS1.s.entNodup hS1.eb⟩

theorem SInvK_of_frame {seen : List Tx} {st st1 : State} {bb : Balances} (hf : RuneFrame st st1)
    (h : SInvK seen st bb) : SInvK seen st1 bb := by
  have hs := SInv_of_frame hf h.s
  obtain ⟨f1, _⟩ := hf
  exact ⟨hs, by rw [f1]; exact h.keys, by intro id e hg; rw [f1] at hg; exact h.eb id e hg⟩

/-- the hypotheses of the no-`Lot`-panic theorem: `SupplyChainOK` plus the decipher-time supply
check of every etching -/
structure LotChainOK (chain : List Block) : Prop where
  ok : SupplyChainOK chain
  supply : ∀ b ∈ chain, ∀ tx ∈ b.txs, Valid.etchingSupplyInRange tx = true

theorem lotChainOK_snoc {pre : List Block} {b : Block} (h : LotChainOK (pre ++ [b])) :
    LotChainOK pre ∧ ∀ tx ∈ b.txs, Valid.etchingSupplyInRange tx = true :=
  ⟨⟨(supplyChainOK_snoc h.ok).1, fun b' hb' => h.supply b' (List.mem_append_left _ hb')⟩,
   h.supply b (by simp)⟩

theorem applyBlock_supplyK (cfg : Cfg) {seen : List Tx} {st : State} {H : Nat} (hS : SInvK seen st [])
    (hR : RInv st H 0) (blk : Block) (st' : State) (evs : List Event) (hH : blk.height = H)
    (hlen : blk.txs.length ≤ 4294967296) (hnd : ((seen ++ blk.txs).map (·.txid)).Nodup)
    (hsup : ∀ tx ∈ blk.txs, Valid.etchingSupplyInRange tx = true)
    (hr : applyBlock cfg st blk = .ok (st', evs)) : SInvK (seen ++ blk.txs) st' [] := by
  unfold applyBlock at hr
  simp only at hr
  have h1 : ∀ st1 ev1, (if (cfg.indexInscriptions || cfg.indexAddresses || cfg.indexSats) = true
      then indexUtxoEntries cfg st blk else .ok (st, [])) = .ok (st1, ev1) → RuneFrame st st1 := by
    intro st1 ev1 he
    split at he
    · exact indexUtxoEntries_frame cfg st blk st1 ev1 he
    · simp only [Outcome.ok.injEq, Prod.mk.injEq] at he
      rw [← he.1]; exact frame_refl _
  split at hr
  · simp at hr
  · simp at hr
  · rename_i st1 ev1 he1
    have hf1 := h1 st1 ev1 he1
    have hS1 := SInvK_of_frame hf1 hS
    have hR1 := Runemint.RInv_of_frame hf1 hR
    split at hr
    · simp at hr
    · simp at hr
    · rename_i st2 ev2 he2
      simp only [Outcome.ok.injEq, Prod.mk.injEq] at hr
      have hS2 : SInvK (seen ++ blk.txs) st2 [] := by
        split at he2
        · exact (block_noLot hS1 hR1 blk hH hlen hnd hsup).2 st2 ev2 he2
        · simp only [Outcome.ok.injEq, Prod.mk.injEq] at he2
          rw [← he2.1]; exact ⟨SInv_more hS1.s hnd, hS1.keys, hS1.eb⟩
      rw [← hr.1]
      exact ⟨⟨hS2.s.entNodup, hS2.s.bbNodup, hS2.s.supply, hS2.s.bbZero, hS2.s.rows⟩, hS2.keys, hS2.eb⟩

theorem run_supplyK (cfg : Cfg) (chain : List Block) (st : State) (evs : List Event)
    (hr : run cfg chain = .ok (st, evs)) (hc : LotChainOK chain) :
    SInvK (chain.flatMap (·.txs)) st [] ∧ RInv st chain.length 0 := by
  have := run_induct cfg
    (fun pre st _ => LotChainOK pre → SInvK (pre.flatMap (·.txs)) st [] ∧ RInv st pre.length 0)
    (fun _ => ⟨SInvK_empty, Runemint.RInv_empty 0 0⟩)
    (fun pre st evs b st' ev' ih hb hok => by
      obtain ⟨hpre, hsup⟩ := lotChainOK_snoc hok
      obtain ⟨_, hh, hl, hnd⟩ := supplyChainOK_snoc hok.ok
      obtain ⟨hS, hR⟩ := ih hpre
      have hR' := Runemint.applyBlock_inv cfg (frameOK cfg) hR b st' ev' hh hl hb
      have hS' := applyBlock_supplyK cfg hS hR b st' ev' hh hl hnd hsup hb
      simpa [List.flatMap_append] using And.intro hS' hR')
    chain st evs hr
  exact this hc

/-- **No `Lot` panic in the rune pass of the next block** of any reachable state, whatever the
configuration: `st1` is the state the sat / address / inscription pass of the block hands to the
rune pass (or `st` itself when that pass is off). -/
theorem next_block_noLot (cfg : Cfg) (chain : List Block) (st : State) (evs : List Event)
    (hr : run cfg chain = .ok (st, evs)) (blk : Block) (hc : LotChainOK (chain ++ [blk]))
    (st1 : State) (hf : RuneFrame st st1) : NoLot (indexRunesBlock st1 blk) := by
  obtain ⟨hpre, hsup⟩ := lotChainOK_snoc hc
  obtain ⟨_, hh, hl, hnd⟩ := supplyChainOK_snoc hc.ok
  obtain ⟨hS, hR⟩ := run_supplyK cfg chain st evs hr hpre
  exact (block_noLot (SInvK_of_frame hf hS) (Runemint.RInv_of_frame hf hR) blk hh hl hnd hsup).1

/-! ### whole runs -/

/-- a run that ends in a panic indexed a prefix successfully and panicked in the next block -/
theorem runFrom_first_panic (cfg : Cfg) : ∀ (bs : List Block) (st0 : State) (s : String),
    runFrom cfg st0 bs = .panic s →
    ∃ pre b post st evs, bs = pre ++ b :: post ∧ runFrom cfg st0 pre = .ok (st, evs) ∧
      applyBlock cfg st b = .panic s := by
  intro bs
  induction bs with
  | nil => intro st0 s h; simp [runFrom] at h
  | cons b rest ih =>
    intro st0 s h
    simp only [runFrom] at h
    cases hb : applyBlock cfg st0 b with
    | panic s' =>
      rw [hb] at h
      simp only [Outcome.panic.injEq] at h
      subst h
      exact ⟨[], b, rest, st0, [], rfl, rfl, hb⟩
    | err e => rw [hb] at h; simp at h
    | ok r =>
      obtain ⟨st1, ev1⟩ := r
      rw [hb] at h
      simp only at h
      cases hr : runFrom cfg st1 rest with
      | panic s' =>
        rw [hr] at h
        simp only [Outcome.panic.injEq] at h
        subst h
        obtain ⟨pre, b', post, st, evs, hsplit, hpre, hpanic⟩ := ih st1 s' hr
        refine ⟨b :: pre, b', post, st, ev1 ++ evs, by rw [hsplit]; rfl, ?_, hpanic⟩
        simp only [runFrom, hb, hpre]
      | err e => rw [hr] at h; simp at h
      | ok r2 => rw [hr] at h; simp at h

theorem chainOK_prefix {a c : List Block} (h : Runemint.ChainOK (a ++ c)) : Runemint.ChainOK a := by
  intro i hi
  have := h i (by simp; omega)
  simpa [List.getElem_append_left hi] using this

theorem lotChainOK_prefix {a c : List Block} (h : LotChainOK (a ++ c)) : LotChainOK a := by
  refine ⟨⟨chainOK_prefix h.ok.ok, ?_⟩, fun b hb => h.supply b (List.mem_append_left _ hb)⟩
  have ht := h.ok.txids
  rw [List.flatMap_append, List.map_append] at ht
  exact (List.nodup_append.1 ht).1

/-- **A `Lot`-site panic of a whole run can only come out of the sat / address / inscription pass**
(which has no such site): if `run cfg chain` panics at a site in `lotSites`, then some prefix was
indexed successfully and `indexUtxoEntries` of the next block panicked with that string. -/
theorem run_lot_panic_origin (cfg : Cfg) (chain : List Block) (hc : LotChainOK chain) (s : String)
    (hs : s ∈ lotSites) (hp : run cfg chain = .panic s) :
    ∃ pre b post st evs, chain = pre ++ b :: post ∧ run cfg pre = .ok (st, evs) ∧
      (cfg.indexInscriptions || cfg.indexAddresses || cfg.indexSats) = true ∧
      indexUtxoEntries cfg st b = .panic s := by
  obtain ⟨pre, b, post, st, evs, hsplit, hpre, hpanic⟩ := runFrom_first_panic cfg chain {} s hp
  refine ⟨pre, b, post, st, evs, hsplit, hpre, ?_⟩
  have hc1 : LotChainOK (pre ++ [b]) := by
    apply lotChainOK_prefix (c := post)
    rw [List.append_assoc]; simpa using hsplit ▸ hc
  have hN := fun st1 hf => next_block_noLot cfg pre st evs hpre b hc1 st1 hf
  unfold applyBlock at hpanic
  simp only at hpanic
  by_cases hcond : (cfg.indexInscriptions || cfg.indexAddresses || cfg.indexSats) = true
  · refine ⟨hcond, ?_⟩
    rw [if_pos hcond] at hpanic
    cases hu : indexUtxoEntries cfg st b with
    | panic s' =>
      rw [hu] at hpanic
      simp only [Outcome.panic.injEq] at hpanic
      rw [hpanic]
    | err e => rw [hu] at hpanic; simp at hpanic
    | ok r =>
      obtain ⟨st1, ev1⟩ := r
      rw [hu] at hpanic
      simp only at hpanic
      exfalso
      have hf := indexUtxoEntries_frame cfg st b st1 ev1 hu
      split at hpanic
      · rename_i s' he2
        simp only [Outcome.panic.injEq] at hpanic
        subst hpanic
        split at he2
        · exact hN st1 hf s' he2 hs
        · simp at he2
      · simp at hpanic
      · simp at hpanic
  · exfalso
    rw [if_neg hcond] at hpanic
    simp only at hpanic
    split at hpanic
    · rename_i s' he2
      simp only [Outcome.panic.injEq] at hpanic
      subst hpanic
      split at he2
      · exact hN st (frame_refl st) s' he2 hs
      · simp at he2
    · simp at hpanic
    · simp at hpanic

/-- with only the rune index on, a run never panics at a `Lot` site -/
theorem run_noLot_runesOnly (cfg : Cfg)
    (hcfg : cfg.indexInscriptions = false ∧ cfg.indexAddresses = false ∧ cfg.indexSats = false)
    (chain : List Block) (hc : LotChainOK chain) : NoLot (run cfg chain) := by
  intro s hp hs
  obtain ⟨_, _, _, _, _, _, _, hcond, _⟩ := run_lot_panic_origin cfg chain hc s hs hp
  simp [hcfg.1, hcfg.2.1, hcfg.2.2] at hcond

end Ord.Index.RuneLift
