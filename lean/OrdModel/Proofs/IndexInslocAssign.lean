import OrdModel.Proofs.IndexInslocSteps
namespace Ord.Index.Insloc
open Ord Ord.Index Outcome

/-! ### `sort_by_key` (stable insertion sort) -/

theorem insertByKey_perm {α : Type} (key : α → Nat) (a : α) (l : List α) :
    (insertByKey key a l).Perm (a :: l) := by
  induction l with
  | nil => exact List.Perm.refl _
  | cons b bs ih =>
    simp only [insertByKey]
    split
    · exact List.Perm.refl _
    · exact (List.Perm.cons b ih).trans (List.Perm.swap a b bs)

theorem sortByKey_perm {α : Type} (key : α → Nat) (l : List α) : (sortByKey key l).Perm l := by
  induction l with
  | nil => exact List.Perm.refl _
  | cons a rest ih =>
    simp only [sortByKey, List.foldr_cons]
    exact (insertByKey_perm key a _).trans (List.Perm.cons a ih)

theorem insertByKey_sorted {α : Type} (key : α → Nat) (a : α) (l : List α)
    (h : l.Pairwise (fun x y => key x ≤ key y)) :
    (insertByKey key a l).Pairwise (fun x y => key x ≤ key y) := by
  induction l with
  | nil => simp [insertByKey]
  | cons b bs ih =>
    simp only [insertByKey]
    rw [List.pairwise_cons] at h
    split
    · next hab =>
      refine List.pairwise_cons.2 ⟨?_, List.pairwise_cons.2 h⟩
      intro x hx
      rcases List.mem_cons.1 hx with rfl | hx
      · exact hab
      · exact Nat.le_trans hab (h.1 x hx)
    · next hab =>
      refine List.pairwise_cons.2 ⟨?_, ih h.2⟩
      intro x hx
      rcases List.mem_cons.1 ((insertByKey_perm key a bs).mem_iff.1 hx) with rfl | hx
      · omega
      · exact h.1 x hx

theorem sortByKey_sorted {α : Type} (key : α → Nat) (l : List α) :
    (sortByKey key l).Pairwise (fun x y => key x ≤ key y) := by
  induction l with
  | nil => simp [sortByKey]
  | cons a rest ih =>
    simp only [sortByKey, List.foldr_cons]
    exact insertByKey_sorted key a _ ih

/-! ### `assignOutputs`: the `for (vout, txout)` loop -/

/-- total value of the first `j` outputs -/
def prefixValue (outs : List TxOut) (j : Nat) : Nat := ((outs.take j).map (·.value)).sum

theorem assignOutputs_conserve (txid : Txid) (outs : List TxOut) (vout ov : Nat) (fls : List Flotsam)
    (acc : List (SatPoint × Flotsam × Bool)) :
    (assignOutputs txid outs vout ov fls acc).1.map (·.2.1) ++ (assignOutputs txid outs vout ov fls acc).2.1
      = acc.map (·.2.1) ++ fls ∧
    (assignOutputs txid outs vout ov fls acc).2.2 = ov + (outs.map (·.value)).sum := by
  induction outs generalizing vout ov fls acc with
  | nil => simp [assignOutputs]
  | cons o os ih =>
    simp only [assignOutputs]
    obtain ⟨h1, h2⟩ := ih (vout + 1) (ov + o.value) (fls.dropWhile (fun f => f.offset < ov + o.value))
      (acc ++ (fls.takeWhile (fun f => f.offset < ov + o.value)).map
        (fun f => (⟨⟨txid, vout⟩, f.offset - ov⟩, f, o.opReturn)))
    refine ⟨?_, ?_⟩
    · rw [h1]
      simp only [List.map_append, List.map_map, List.append_assoc]
      congr 1
      have : (List.map ((fun x : SatPoint × Flotsam × Bool => x.2.1) ∘ fun f => ((⟨⟨txid, vout⟩, f.offset - ov⟩ : SatPoint), f, o.opReturn))
          (List.takeWhile (fun f => decide (f.offset < ov + o.value)) fls)) =
          List.takeWhile (fun f => decide (f.offset < ov + o.value)) fls := by
        simp [Function.comp_def]
      rw [this, List.takeWhile_append_dropWhile]
    · rw [h2]; simp; omega

theorem mem_takeWhile_pred {α : Type} (p : α → Bool) (l : List α) (x : α) (h : x ∈ l.takeWhile p) :
    p x = true := by
  induction l with
  | nil => simp at h
  | cons a rest ih =>
    simp only [List.takeWhile_cons] at h
    split at h
    · next ha => rcases List.mem_cons.1 h with rfl | h
                 · exact ha
                 · exact ih h
    · simp at h

theorem dropWhile_sorted_ge (fls : List Flotsam) (b : Nat)
    (hs : fls.Pairwise (fun x y => x.offset ≤ y.offset)) :
    ∀ f ∈ fls.dropWhile (fun f => f.offset < b), b ≤ f.offset := by
  induction fls with
  | nil => simp
  | cons a rest ih =>
    rw [List.pairwise_cons] at hs
    simp only [List.dropWhile_cons]
    split
    · exact ih hs.2
    · next hlt =>
      intro f hf
      have ha : b ≤ a.offset := by simpa using hlt
      rcases List.mem_cons.1 hf with rfl | hf
      · exact ha
      · exact Nat.le_trans ha (hs.1 f hf)

/-- C03 placement: with the flotsam sorted by offset (and none below the running output value),
everything `assignOutputs` places goes to the output whose value interval contains its offset,
at the offset within that output, flagged with that output's OP_RETURN-ness; what is left over
lies at or beyond the total output value. -/
theorem assignOutputs_place (txid : Txid) (outs : List TxOut) (vout ov : Nat) (fls : List Flotsam)
    (acc : List (SatPoint × Flotsam × Bool))
    (hs : fls.Pairwise (fun x y => x.offset ≤ y.offset)) (hge : ∀ f ∈ fls, ov ≤ f.offset) :
    (∀ x ∈ (assignOutputs txid outs vout ov fls acc).1, x ∈ acc ∨
      ∃ j o, outs[j]? = some o ∧ x.2.1 ∈ fls ∧
        ov + prefixValue outs j ≤ x.2.1.offset ∧ x.2.1.offset < ov + prefixValue outs j + o.value ∧
        x.1 = ⟨⟨txid, vout + j⟩, x.2.1.offset - (ov + prefixValue outs j)⟩ ∧ x.2.2 = o.opReturn) ∧
    (∀ f ∈ (assignOutputs txid outs vout ov fls acc).2.1, f ∈ fls ∧ ov + (outs.map (·.value)).sum ≤ f.offset) := by
  induction outs generalizing vout ov fls acc with
  | nil =>
    simp only [assignOutputs, List.map_nil, List.sum_nil, Nat.add_zero]
    exact ⟨fun x hx => Or.inl hx, fun f hf => ⟨hf, hge f hf⟩⟩
  | cons o os ih =>
    simp only [assignOutputs]
    have hdrop_sorted : (fls.dropWhile (fun f => f.offset < ov + o.value)).Pairwise (fun x y => x.offset ≤ y.offset) :=
      hs.sublist (List.dropWhile_sublist _)
    have hdrop_ge := dropWhile_sorted_ge fls (ov + o.value) hs
    obtain ⟨h1, h2⟩ := ih (vout + 1) (ov + o.value) (fls.dropWhile (fun f => f.offset < ov + o.value))
      (acc ++ (fls.takeWhile (fun f => f.offset < ov + o.value)).map
        (fun f => (⟨⟨txid, vout⟩, f.offset - ov⟩, f, o.opReturn))) hdrop_sorted hdrop_ge
    have hdsub : ∀ f, f ∈ fls.dropWhile (fun f => f.offset < ov + o.value) → f ∈ fls :=
      fun f hf => (List.dropWhile_sublist _).subset hf
    refine ⟨fun x hx => ?_, fun f hf => ?_⟩
    · rcases h1 x hx with hacc | ⟨j, o', hj, hm, hlo, hhi, hsp, hop⟩
      · rcases List.mem_append.1 hacc with hacc | hnew
        · exact Or.inl hacc
        · right
          obtain ⟨f, hf, rfl⟩ := List.mem_map.1 hnew
          have hfl : f ∈ fls := (List.takeWhile_sublist _).subset hf
          have hlt : f.offset < ov + o.value := by
            have := mem_takeWhile_pred _ _ _ hf; simpa using this
          exact ⟨0, o, by simp, hfl, by simp [prefixValue]; exact hge f hfl, by simp [prefixValue]; exact hlt,
            by simp [prefixValue], rfl⟩
      · right
        refine ⟨j + 1, o', by simpa using hj, hdsub _ hm, ?_, ?_, ?_, hop⟩
        · simp only [prefixValue, List.take_succ_cons, List.map_cons, List.sum_cons] at hlo ⊢; omega
        · simp only [prefixValue, List.take_succ_cons, List.map_cons, List.sum_cons] at hhi ⊢; omega
        · rw [hsp]; simp only [prefixValue, List.take_succ_cons, List.map_cons, List.sum_cons]
          congr 2 <;> omega
    · obtain ⟨hm, hge'⟩ := h2 f hf
      refine ⟨hdsub f hm, ?_⟩
      simp only [List.map_cons, List.sum_cons]; omega

end Ord.Index.Insloc
