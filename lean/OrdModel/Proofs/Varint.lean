import OrdModel.Codec.Varint

namespace Ord.Varint

theorem toNat_ofNat_lt {n : Nat} (h : n < 256) : (UInt8.ofNat n).toNat = n := by
  simp [UInt8.toNat_ofNat', Nat.mod_eq_of_lt h]

theorem encode_ne_nil (n : Nat) : encode n ≠ [] := by
  unfold encode; split <;> simp

/-- `n < 128^k` needs at most `k` bytes -/
theorem encode_length_le_of_lt (k : Nat) : ∀ n, 0 < k → n < 128 ^ k → (encode n).length ≤ k := by
  induction k with
  | zero => intro n h; omega
  | succ k ih =>
    intro n _ hn
    unfold encode
    split
    · simp
    · rename_i h128
      have hk : 0 < k := by
        rcases k with _ | k
        · simp at hn; omega
        · omega
      have : n / 128 < 128 ^ k := by
        rw [Nat.div_lt_iff_lt_mul (by omega)]; rw [Nat.pow_succ] at hn; exact hn
      have := ih (n / 128) hk this
      simp; omega

theorem pow_step (i : Nat) : 2 ^ (7 * (i + 1)) = 128 * 2 ^ (7 * i) := by
  rw [Nat.mul_add, Nat.pow_add]; simp [Nat.mul_comm]

/-- decoding an encoding, started at byte index `i` with accumulator `acc` -/
theorem decodeAux_encode (n : Nat) : ∀ (i acc : Nat) (rest : List UInt8),
    i ≤ 18 → n < 2 ^ (128 - 7 * i) →
    decodeAux i acc (encode n ++ rest) = .ok (acc + n * 2 ^ (7 * i), i + (encode n).length) := by
  induction n using Nat.strongRecOn with
  | _ n ih =>
    intro i acc rest hi hn
    unfold encode
    split
    · rename_i hlt
      have hb : (UInt8.ofNat n).toNat = n := toNat_ofNat_lt (by omega)
      have h4 : i = 18 → n < 4 := by
        intro h; subst h; simpa using hn
      simp only [List.cons_append, List.nil_append, decodeAux, hb]
      have hm : n % 128 = n := Nat.mod_eq_of_lt hlt
      rw [hm]
      have h1 : ¬ i > 18 := by omega
      have h2 : ¬ (i = 18 ∧ 4 ≤ n) := by intro ⟨a, b⟩; have := h4 a; omega
      simp [h1, h2, hlt]
    · rename_i hge
      have hb : (UInt8.ofNat (n % 128 + 128)).toNat = n % 128 + 128 := toNat_ofNat_lt (by omega)
      have hi17 : i ≤ 17 := by
        rcases Nat.lt_or_ge i 18 with h | h
        · omega
        · have : i = 18 := by omega
          subst this; simp at hn; omega
      have hdiv : n / 128 < 2 ^ (128 - 7 * (i + 1)) := by
        rw [Nat.div_lt_iff_lt_mul (by omega)]
        have : 128 - 7 * i = (128 - 7 * (i + 1)) + 7 := by omega
        rw [this, Nat.pow_add] at hn; simpa using hn
      have hrec := ih (n / 128) (by omega) (i + 1) (acc + (n % 128) * 2 ^ (7 * i)) rest (by omega) hdiv
      simp only [List.cons_append, decodeAux, hb]
      have hm : (n % 128 + 128) % 128 = n % 128 := by omega
      rw [hm]
      have h1 : ¬ i > 18 := by omega
      have h2 : ¬ (i = 18 ∧ 4 ≤ n % 128) := by omega
      have h3 : ¬ (n % 128 + 128 < 128) := by omega
      simp only [h1, h2, h3, if_false]
      rw [hrec, pow_step]
      have hsplit : n = 128 * (n / 128) + n % 128 := (Nat.div_add_mod n 128).symm
      congr 2
      · generalize 2 ^ (7 * i) = p
        generalize n / 128 = q at *
        generalize n % 128 = r at *
        subst hsplit
        rw [Nat.add_mul, Nat.mul_assoc, Nat.add_assoc, Nat.mul_left_comm q 128 p]
        congr 1
        exact Nat.add_comm _ _
      · simp; omega

end Ord.Varint

namespace Ord.Varint

/-- Everything an `ok` answer of the decode loop implies. -/
theorem decodeAux_ok : ∀ (bs : List UInt8) (i acc v k : Nat),
    decodeAux i acc bs = .ok (v, k) →
    ∃ m, ∃ hm : m < bs.length, k = i + m + 1 ∧ k ≤ 19 ∧
      (∀ j (hj : j < m), 128 ≤ (bs[j]'(by omega)).toNat) ∧ (bs[m]).toNat < 128 ∧
      (k = 19 → (bs[m]).toNat < 4) ∧
      v = acc + payload (bs.take (m + 1)) * 2 ^ (7 * i) := by
  intro bs
  induction bs with
  | nil => intro i acc v k h; simp [decodeAux] at h
  | cons b bs ih =>
    intro i acc v k h
    simp only [decodeAux] at h
    split at h
    · cases h
    · rename_i h18
      split at h
      · cases h
      · rename_i hov
        split at h
        · rename_i hlt
          injection h with h; injection h with hv hk
          refine ⟨0, by simp, by omega, by omega, by intro j hj; omega, by simpa using hlt, ?_, ?_⟩
          · intro h19; simp only [List.getElem_cons_zero]
            have : i = 18 := by omega
            have hmod : b.toNat % 128 = b.toNat := Nat.mod_eq_of_lt hlt
            rw [hmod] at hov; omega
          · simp [payload, ← hv]
        · rename_i hge
          obtain ⟨m, hm, hk, hk19, hcont, hterm, h4, hv⟩ := ih _ _ _ _ h
          refine ⟨m + 1, by simp; omega, by omega, hk19, ?_, by simpa using hterm, by simpa using h4, ?_⟩
          · intro j hj
            cases j with
            | zero => simp; omega
            | succ j => simpa using hcont j (by omega)
          · rw [hv, pow_step]; simp only [List.take_succ_cons, payload]
            generalize payload (List.take (m + 1) bs) = P
            generalize 2 ^ (7 * i) = p
            generalize b.toNat % 128 = r
            rw [Nat.add_mul, Nat.add_assoc, Nat.mul_assoc, Nat.mul_left_comm P 128 p]

theorem payload_lt (bs : List UInt8) : payload bs < 128 ^ bs.length := by
  induction bs with
  | nil => simp [payload]
  | cons b bs ih =>
    simp only [payload, List.length_cons, Nat.pow_succ]
    have : b.toNat % 128 < 128 := Nat.mod_lt _ (by omega)
    generalize 128 ^ bs.length = q at *
    generalize payload bs = P at *
    omega

/-- `unterminated` only when every byte has the continuation bit and there are at most `19 - i`. -/
theorem decodeAux_unterminated : ∀ (bs : List UInt8) (i acc : Nat), i ≤ 19 →
    decodeAux i acc bs = .error .unterminated →
    i + bs.length ≤ 19 ∧ ∀ b ∈ bs, 128 ≤ b.toNat := by
  intro bs
  induction bs with
  | nil => intro i acc hi _; simp; omega
  | cons b bs ih =>
    intro i acc hi h
    simp only [decodeAux] at h
    split at h
    · cases h
    · split at h
      · cases h
      · split at h
        · cases h
        · rename_i h18 _ hge
          have := ih _ _ (by omega) h
          refine ⟨by simp; omega, ?_⟩
          intro b' hb'
          rcases List.mem_cons.mp hb' with rfl | hb'
          · omega
          · exact this.2 _ hb'

/-- `overlong` only when a 20th byte is reached: the first `19 - i` bytes all continue. -/
theorem decodeAux_overlong : ∀ (bs : List UInt8) (i acc : Nat), i ≤ 19 →
    decodeAux i acc bs = .error .overlong →
    20 ≤ i + bs.length ∧ ∀ j (hj : j < bs.length), i + j < 19 → 128 ≤ (bs[j]).toNat := by
  intro bs
  induction bs with
  | nil => intro i acc hi h; simp [decodeAux] at h
  | cons b bs ih =>
    intro i acc hi h
    simp only [decodeAux] at h
    split at h
    · refine ⟨by simp; omega, ?_⟩
      intro j hj hlt; omega
    · split at h
      · cases h
      · split at h
        · cases h
        · rename_i h18 _ hge
          have := ih _ _ (by omega) h
          refine ⟨by simp; omega, ?_⟩
          intro j hj hlt
          cases j with
          | zero => simp; omega
          | succ j => simpa using this.2 j (by simpa using hj) (by omega)

/-- `overflow` only when byte 18 is reached and its payload needs more than two bits. -/
theorem decodeAux_overflow : ∀ (bs : List UInt8) (i acc : Nat),
    decodeAux i acc bs = .error .overflow →
    ∃ hlen : 18 - i < bs.length, i ≤ 18 ∧ 4 ≤ (bs[18 - i]).toNat % 128 ∧
      ∀ j (hj : j < 18 - i), 128 ≤ (bs[j]'(by omega)).toNat := by
  intro bs
  induction bs with
  | nil => intro i acc h; simp [decodeAux] at h
  | cons b bs ih =>
    intro i acc h
    simp only [decodeAux] at h
    split at h
    · cases h
    · split at h
      · rename_i h18 hov
        obtain ⟨rfl, h4⟩ := hov
        exact ⟨by simp, by omega, by simpa using h4, by intro j hj; omega⟩
      · split at h
        · cases h
        · rename_i h18 hov hge
          obtain ⟨hlen, hi, h4, hcont⟩ := ih _ _ h
          have hidx : 18 - i = (18 - (i + 1)) + 1 := by omega
          refine ⟨by simp; omega, by omega, ?_, ?_⟩
          · simp only [hidx, List.getElem_cons_succ]; exact h4
          · intro j hj
            cases j with
            | zero => simp; omega
            | succ j => simpa using hcont j (by omega)

/-- Converse of `decodeAux_ok`: a terminated group inside the width limit always decodes. -/
theorem decodeAux_of_terminated : ∀ (bs : List UInt8) (i acc m : Nat) (hm : m < bs.length),
    i + m ≤ 18 →
    (∀ j (hj : j < m), 128 ≤ (bs[j]'(by omega)).toNat) → (bs[m]).toNat < 128 →
    (i + m = 18 → (bs[m]).toNat < 4) →
    decodeAux i acc bs = .ok (acc + payload (bs.take (m + 1)) * 2 ^ (7 * i), i + m + 1) := by
  intro bs
  induction bs with
  | nil => intro i acc m hm; simp at hm
  | cons b bs ih =>
    intro i acc m hm h18 hcont hterm h4
    cases m with
    | zero =>
      simp only [List.getElem_cons_zero] at hterm h4
      have hmod : b.toNat % 128 = b.toNat := Nat.mod_eq_of_lt hterm
      have h1 : ¬ i > 18 := by omega
      have h2 : ¬ (i = 18 ∧ 4 ≤ b.toNat % 128) := by
        intro ⟨a, c⟩; have := h4 (by omega); omega
      simp [decodeAux, h1, h2, hterm, payload]
    | succ m =>
      have hb : 128 ≤ b.toNat := by simpa using hcont 0 (by omega)
      have h1 : ¬ i > 18 := by omega
      have h2 : ¬ (i = 18 ∧ 4 ≤ b.toNat % 128) := by omega
      have h3 : ¬ b.toNat < 128 := by omega
      simp only [decodeAux, h1, h2, h3, if_false]
      have := ih (i + 1) (acc + b.toNat % 128 * 2 ^ (7 * i)) m (by simpa using hm) (by omega)
        (by intro j hj; simpa using hcont (j + 1) (by omega)) (by simpa using hterm)
        (by intro h; simpa using h4 (by omega))
      rw [this, pow_step]; simp only [List.take_succ_cons, payload]
      congr 2
      · generalize payload (List.take (m + 1) bs) = P
        generalize 2 ^ (7 * i) = p
        generalize b.toNat % 128 = r
        rw [Nat.add_mul, Nat.add_assoc, Nat.mul_assoc, Nat.mul_left_comm P 128 p]
      · omega

end Ord.Varint
