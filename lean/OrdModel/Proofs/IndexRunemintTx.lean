import OrdModel.Proofs.IndexRunemintEtch
/-
Group `runemint`, helper lemmas 3: what one transaction (`indexRunesTx`) does to the rune
tables.  `takeInputs` / `writeOutputs` only touch `balances`; in between come `mint`, `etched`
and `createRuneEntry`, in this order.
-/
namespace Ord.Index.Runemint
open Ord.Index

/-- the mint an artifact asks for -/
def artMint : Artifact → Option RuneId
  | .runestone _ _ m _ => m
  | .cenotaph _ m => m

/-- state after the mint step of a transaction -/
def mintStep (st : State) (h : Nat) (art : Artifact) : State :=
  match artMint art with
  | none => st
  | some id => (mint st h id).1

/-- state after the creation step -/
def createStep (st2 : State) (blk : Block) (tx : Tx) (art : Artifact) : Option (RuneId × Nat) → State
  | some (id, rune) => (createRuneEntry st2 blk tx art id rune).1
  | none => st2

theorem takeInputs_frame : ∀ (ins : List TxIn) (st : State) (un : Balances) (st' : State) (un' : Balances),
    takeInputs ins st un = .ok (st', un') → ∃ b, st' = { st with balances := b }
  | [], st, un, st', un', h => by
    simp only [takeInputs, Outcome.ok.injEq, Prod.mk.injEq] at h
    exact ⟨st.balances, h.1 ▸ rfl⟩
  | i :: rest, st, un, st', un', h => by
    simp only [takeInputs] at h
    split at h
    · exact takeInputs_frame rest st un st' un' h
    · split at h
      · obtain ⟨b, hb⟩ := takeInputs_frame rest _ _ st' un' h
        exact ⟨b, by rw [hb]⟩
      · simp at h
      · simp at h

theorem writeOutputs_frame (blk : Block) (tx : Tx) : ∀ (l : List (Nat × Balances)) (st : State) (burned : Balances)
    (evs : List Event) (st' : State) (burned' : Balances) (evs' : List Event),
    writeOutputs blk tx l st burned evs = .ok (st', burned', evs') → ∃ b, st' = { st with balances := b }
  | [], st, burned, evs, st', burned', evs', h => by
    simp only [writeOutputs, Outcome.ok.injEq, Prod.mk.injEq] at h
    exact ⟨st.balances, h.1 ▸ rfl⟩
  | (vout, bs) :: rest, st, burned, evs, st', burned', evs', h => by
    simp only [writeOutputs] at h
    by_cases he : bs.isEmpty = true
    · simp only [he, if_true] at h
      exact writeOutputs_frame blk tx rest st burned evs st' burned' evs' h
    · simp only [he, Bool.false_eq_true, if_false] at h
      have hF : ∀ st1 : State, (∃ b, st1 = { st with balances := b }) → ∀ evs1,
          writeOutputs blk tx rest st1 burned evs1 = .ok (st', burned', evs') →
          ∃ b, st' = { st with balances := b } := by
        rintro st1 ⟨b1, rfl⟩ evs1 h1
        obtain ⟨b, hb⟩ := writeOutputs_frame blk tx rest _ burned _ st' burned' evs' h1
        exact ⟨b, by rw [hb]⟩
      have hT : (match addAllTo bs burned false with
          | .ok burned2 => writeOutputs blk tx rest st burned2 evs
          | .panic s => .panic s
          | .err e => .err e) = .ok (st', burned', evs') → ∃ b, st' = { st with balances := b } := by
        intro h1
        cases ha : addAllTo bs burned false with
        | ok burned2 =>
          simp only [ha] at h1
          exact writeOutputs_frame blk tx rest st burned2 evs st' burned' evs' h1
        | panic s => simp [ha] at h1
        | err e => simp [ha] at h1
      cases ho : tx.outputs[vout]? with
      | none =>
        simp only [ho, Bool.false_eq_true, if_false] at h
        exact hF _ ⟨_, rfl⟩ _ h
      | some o =>
        simp only [ho] at h
        cases hopr : o.opReturn with
        | false =>
          simp only [hopr, Bool.false_eq_true, if_false] at h
          exact hF _ ⟨_, rfl⟩ _ h
        | true =>
          simp only [hopr, if_true] at h
          exact hT h


/-! ### `indexRunesTx` in named phases (verbatim pieces of the model function) -/

/-- the mint step: state, what enters `unallocated`, the event -/
def mintTriple (st0 : State) (un0 : Balances) (blk : Block) (tx : Tx) (art : Artifact) :
    State × Outcome Balances × List Event :=
  match artMint art with
  | none => (st0, .ok un0, [])
  | some id =>
    match mint st0 blk.height id with
    | (s, none) => (s, .ok un0, [])
    | (s, some amount) => (s, addLot un0 id amount, [.runeMinted amount blk.height id tx.txid])

theorem mintTriple_fst (st0 : State) (un0 : Balances) (blk : Block) (tx : Tx) (art : Artifact) :
    (mintTriple st0 un0 blk tx art).1 = mintStep st0 blk.height art := by
  unfold mintTriple mintStep
  cases artMint art with
  | none => rfl
  | some id =>
    simp only
    rcases mint st0 blk.height id with ⟨s, o⟩
    cases o <;> rfl

/-- mint, etching, edicts, entry creation: the only part that touches the rune tables -/
def phase1 (st0 : State) (un0 : Balances) (blk : Block) (txIndex : Nat) (tx : Tx) :
    Outcome (State × Balances × Allocated × List Event) :=
  let alloc0 : Allocated := tx.outputs.map (fun _ => [])
  match tx.artifact with
  | none => .ok (st0, un0, alloc0, [])
  | some art =>
    let x := mintTriple st0 un0 blk tx art
    let st1 := x.1
    let un1O := x.2.1
    let ev1 := x.2.2
    match un1O with
    | .panic s => .panic s
    | .err e => .err e
    | .ok un1 =>
      match etched st1 blk txIndex tx art with
      | .panic s => .panic s
      | .err e => .err e
      | .ok (st2, et) =>
        let afterEdicts : Outcome (Balances × Allocated) :=
          match art with
          | .cenotaph .. => .ok (un1, alloc0)
          | .runestone edicts etching _ _ =>
            let un2O : Outcome Balances := match et with
              | some (id, _) => addLot un1 id ((etching.bind (·.premine)).getD 0)
              | none => .ok un1
            match un2O with
            | .panic s => .panic s
            | .err e => .err e
            | .ok un2 => applyEdicts tx (et.map (·.1)) edicts un2 alloc0
        match afterEdicts with
        | .panic s => .panic s
        | .err e => .err e
        | .ok (un3, alloc1) =>
          match et with
          | some (id, rune) =>
            let (st3, ev2) := createRuneEntry st2 blk tx art id rune
            .ok (st3, un3, alloc1, ev1 ++ ev2)
          | none => .ok (st2, un3, alloc1, ev1)

/-- leftovers: burned (cenotaph), to the pointer / first non-OP_RETURN output, or burned -/
def phase2 (tx : Tx) (un : Balances) (alloc : Allocated) : Outcome (Allocated × Balances) :=
  match tx.artifact with
  | some (.cenotaph ..) =>
    match addAllTo un [] false with
    | .ok b => .ok (alloc, b)
    | .panic s => .panic s
    | .err e => .err e
  | _ =>
    let pointer : Option Nat := match tx.artifact with
      | some (.runestone _ _ _ p) => p
      | _ => none
    let firstNonOpReturn := ((enumFrom 0 tx.outputs).find? (fun (_, o) => !o.opReturn)).map (·.1)
    match pointer with
    | some p =>
      if p ≥ alloc.length then .panic "assert!(pointer < allocated.len())"
      else match addAllTo un (alloc[p]?.getD []) true with
        | .ok m => .ok (alloc.set p m, [])
        | .panic s => .panic s
        | .err e => .err e
    | none =>
      match firstNonOpReturn with
      | some v =>
        match addAllTo un (alloc[v]?.getD []) true with
        | .ok m => .ok (alloc.set v m, [])
        | .panic s => .panic s
        | .err e => .err e
      | none =>
        match addAllTo un [] true with
        | .ok b => .ok (alloc, b)
        | .panic s => .panic s
        | .err e => .err e

theorem indexRunesTx_eq (st : State) (blk : Block) (txIndex : Nat) (tx : Tx) (blockBurned : Balances) :
    indexRunesTx st blk txIndex tx blockBurned =
      match takeInputs tx.inputs st [] with
      | .panic s => .panic s
      | .err e => .err e
      | .ok (st0, un0) =>
        match phase1 st0 un0 blk txIndex tx with
        | .panic s => .panic s
        | .err e => .err e
        | .ok (st3, un, alloc, evs) =>
          match phase2 tx un alloc with
          | .panic s => .panic s
          | .err e => .err e
          | .ok (alloc2, burned0) =>
            match writeOutputs blk tx (enumFrom 0 alloc2) st3 burned0 evs with
            | .panic s => .panic s
            | .err e => .err e
            | .ok (st4, burned, evs2) =>
              match addAllTo burned blockBurned false with
              | .panic s => .panic s
              | .err e => .err e
              | .ok bb =>
                .ok (st4, bb, evs2 ++ burned.map (fun (id, a) => Event.runeBurned a blk.height id tx.txid)) := by
  rfl


/-- the rune-table effect of `phase1`: mint, then `etched` on the state after the mint, then
`createRuneEntry` if `etched` said so; also the mint result that entered `unallocated` -/
theorem phase1_decomp (st0 : State) (un0 : Balances) (blk : Block) (t : Nat) (tx : Tx)
    (st3 : State) (un : Balances) (alloc : Allocated) (evs : List Event)
    (h : phase1 st0 un0 blk t tx = .ok (st3, un, alloc, evs)) :
    match tx.artifact with
    | none => st3 = st0
    | some art => ∃ st2 et, etched (mintStep st0 blk.height art) blk t tx art = .ok (st2, et) ∧
        st3 = createStep st2 blk tx art et := by
  unfold phase1 at h
  cases hart : tx.artifact with
  | none =>
    simp only [hart, Outcome.ok.injEq, Prod.mk.injEq] at h
    exact h.1.symm
  | some art =>
    simp only [hart] at h
    generalize hx : mintTriple st0 un0 blk tx art = x at h
    have h1 : x.1 = mintStep st0 blk.height art := by rw [← hx, mintTriple_fst]
    obtain ⟨st1, un1O, ev1⟩ := x
    simp only at h h1
    subst h1
    cases un1O with
    | panic s => simp at h
    | err e => simp at h
    | ok un1 =>
      simp only at h
      cases het : etched (mintStep st0 blk.height art) blk t tx art with
      | panic s => simp [het] at h
      | err e => simp [het] at h
      | ok r =>
        obtain ⟨st2, et⟩ := r
        simp only [het] at h
        refine ⟨st2, et, het, ?_⟩
        split at h
        · simp at h
        · simp at h
        · cases et with
          | none =>
            simp only [Outcome.ok.injEq, Prod.mk.injEq] at h
            simp [createStep, h.1]
          | some p =>
            obtain ⟨id, rune⟩ := p
            simp only [Outcome.ok.injEq, Prod.mk.injEq] at h
            simp [createStep, ← h.1]

/-- **What one transaction does to the rune tables**: only `balances` changes around a core of
mint → etched → createRuneEntry. -/
theorem indexRunesTx_decomp (st : State) (blk : Block) (t : Nat) (tx : Tx) (bb : Balances)
    (st4 : State) (bb' : Balances) (evs : List Event)
    (h : indexRunesTx st blk t tx bb = .ok (st4, bb', evs)) :
    ∃ b0 b1, match tx.artifact with
      | none => st4 = { st with balances := b1 }
      | some art => ∃ st2 et,
          etched (mintStep { st with balances := b0 } blk.height art) blk t tx art = .ok (st2, et) ∧
          st4 = { createStep st2 blk tx art et with balances := b1 } := by
  rw [indexRunesTx_eq] at h
  cases hti : takeInputs tx.inputs st [] with
  | panic s => simp [hti] at h
  | err e => simp [hti] at h
  | ok r0 =>
    obtain ⟨st0, un0⟩ := r0
    obtain ⟨b0, hb0⟩ := takeInputs_frame _ _ _ _ _ hti
    simp only [hti] at h
    cases hp1 : phase1 st0 un0 blk t tx with
    | panic s => simp [hp1] at h
    | err e => simp [hp1] at h
    | ok r1 =>
      obtain ⟨st3, un, alloc, evs1⟩ := r1
      simp only [hp1] at h
      cases hp2 : phase2 tx un alloc with
      | panic s => simp [hp2] at h
      | err e => simp [hp2] at h
      | ok r2 =>
        obtain ⟨alloc2, burned0⟩ := r2
        simp only [hp2] at h
        cases hwo : writeOutputs blk tx (enumFrom 0 alloc2) st3 burned0 evs1 with
        | panic s => simp [hwo] at h
        | err e => simp [hwo] at h
        | ok r3 =>
          obtain ⟨st4', burned, evs2⟩ := r3
          simp only [hwo] at h
          obtain ⟨b1, hb1⟩ := writeOutputs_frame _ _ _ _ _ _ _ _ _ hwo
          cases hab : addAllTo burned bb false with
          | panic s => simp [hab] at h
          | err e => simp [hab] at h
          | ok bb2 =>
            simp only [hab, Outcome.ok.injEq, Prod.mk.injEq] at h
            obtain ⟨rfl, _, _⟩ := h
            have hd := phase1_decomp st0 un0 blk t tx st3 un alloc evs1 hp1
            refine ⟨b0, b1, ?_⟩
            cases hart : tx.artifact with
            | none =>
              simp only [hart] at hd ⊢
              rw [hb1, hd, hb0]
            | some art =>
              simp only [hart] at hd ⊢
              obtain ⟨st2, et, he, hc⟩ := hd
              exact ⟨st2, et, hb0 ▸ he, by rw [hb1, hc]⟩

end Ord.Index.Runemint
