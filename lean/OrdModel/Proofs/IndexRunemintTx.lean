import OrdModel.Proofs.IndexRunemintEtch
/-
Group `runemint`, helper lemmas 3: what one transaction (`indexRunesTx`) does to the rune
tables.  `takeInputs` / `writeOutputs` only touch `balances`; in between come `mint`, `etched`
and `createRuneEntry`, in this order.
-/
namespace Ord.Index.Runemint
open Ord.Index

/-- the mint an artifact asks for -/
def artMint : Artifact → Option RuneId
  | .runestone _ _ m _ => m
  | .cenotaph _ m => m

/-- state after the mint step of a transaction -/
def mintStep (st : State) (h : Nat) (art : Artifact) : State :=
  match artMint art with
  | none => st
  | some id => (mint st h id).1

/-- state after the creation step -/
def createStep (st2 : State) (blk : Block) (tx : Tx) (art : Artifact) : Option (RuneId × Nat) → State
  | some (id, rune) => (createRuneEntry st2 blk tx art id rune).1
  | none => st2

theorem takeInputs_frame : ∀ (ins : List TxIn) (st : State) (un : Balances) (st' : State) (un' : Balances),
    takeInputs ins st un = .ok (st', un') → ∃ b, st' = { st with balances := b }
  | [], st, un, st', un', h => by
    simp only [takeInputs, Outcome.ok.injEq, Prod.mk.injEq] at h
    exact ⟨st.balances, h.1 ▸ rfl⟩
  | i :: rest, st, un, st', un', h => by
    simp only [takeInputs] at h
    split at h
    · exact takeInputs_frame rest st un st' un' h
    · split at h
      · obtain ⟨b, hb⟩ := takeInputs_frame rest _ _ st' un' h
        exact ⟨b, by rw [hb]⟩
      · simp at h
      · simp at h

theorem writeOutputs_frame (blk : Block) (tx : Tx) : ∀ (l : List (Nat × Balances)) (st : State) (burned : Balances)
    (evs : List Event) (st' : State) (burned' : Balances) (evs' : List Event),
    writeOutputs blk tx l st burned evs = .ok (st', burned', evs') → ∃ b, st' = { st with balances := b }
  | [], st, burned, evs, st', burned', evs', h => by
    simp only [writeOutputs, Outcome.ok.injEq, Prod.mk.injEq] at h
    exact ⟨st.balances, h.1 ▸ rfl⟩
  | (vout, bs) :: rest, st, burned, evs, st', burned', evs', h => by
    simp only [writeOutputs] at h
    by_cases he : bs.isEmpty = true
    · simp only [he, if_true] at h
      exact writeOutputs_frame blk tx rest st burned evs st' burned' evs' h
    · simp only [he, Bool.false_eq_true, if_false] at h
      have hF : ∀ st1 : State, (∃ b, st1 = { st with balances := b }) → ∀ evs1,
          writeOutputs blk tx rest st1 burned evs1 = .ok (st', burned', evs') →
          ∃ b, st' = { st with balances := b } := by
        rintro st1 ⟨b1, rfl⟩ evs1 h1
        obtain ⟨b, hb⟩ := writeOutputs_frame blk tx rest _ burned _ st' burned' evs' h1
        exact ⟨b, by rw [hb]⟩
      have hT : (match addAllTo bs burned false with
          | .ok burned2 => writeOutputs blk tx rest st burned2 evs
          | .panic s => .panic s
          | .err e => .err e) = .ok (st', burned', evs') → ∃ b, st' = { st with balances := b } := by
        intro h1
        cases ha : addAllTo bs burned false with
        | ok burned2 =>
          simp only [ha] at h1
          exact writeOutputs_frame blk tx rest st burned2 evs st' burned' evs' h1
        | panic s => simp [ha] at h1
        | err e => simp [ha] at h1
      cases ho : tx.outputs[vout]? with
      | none =>
        simp only [ho, Bool.false_eq_true, if_false] at h
        exact hF _ ⟨_, rfl⟩ _ h
      | some o =>
        simp only [ho] at h
        cases hopr : o.opReturn with
        | false =>
          simp only [hopr, Bool.false_eq_true, if_false] at h
          exact hF _ ⟨_, rfl⟩ _ h
        | true =>
          simp only [hopr, if_true] at h
          exact hT h

end Ord.Index.Runemint
