import OrdModel.Proofs.SatBasic
import OrdModel.Num.SatSpec
/-! Relating the code model to the specification-level definitions of `SatSpec`. -/
namespace Ord.SatSpec
open Ord

theorem blockSubsidy_eq (h : Nat) : blockSubsidy h = Height.subsidy h := by
  unfold blockSubsidy Height.subsidy Epoch.subsidy Epoch.ofHeight Epoch.FIRST_POST_SUBSIDY
    Epoch.SUBSIDY_HALVING_INTERVAL Epoch.COIN_VALUE
  split
  · rw [Nat.shiftRight_eq_div_pow]
  · rfl

theorem minedBefore_eq (h : Nat) : minedBefore h = Height.startingSat h := by
  induction h with
  | zero => exact Height.startingSat_zero.symm
  | succ n ih => rw [minedBefore, ih, blockSubsidy_eq, Height.startingSat_succ]

theorem epochSum_eq (e : Nat) : epochSum e = Epoch.startingSat e := by
  induction e with
  | zero => exact Epoch.startingSat_zero.symm
  | succ n ih =>
    rw [epochSum, ih, Epoch.startingSat_succ, blockSubsidy_eq]
    have := Height.subsidy_eq n 0 (by omega)
    rw [Nat.add_zero] at this; rw [this]

theorem minedBeforeFast_eq (h : Nat) : minedBeforeFast h = minedBefore h := by
  rw [minedBefore_eq]
  unfold minedBeforeFast
  rw [epochSum_eq, blockSubsidy_eq]
  obtain ⟨hd, hr⟩ := Height.decompose h
  have h1 := Height.startingSat_eq (h / 210000) (h % 210000) hr
  have h2 := Height.subsidy_eq (h / 210000) (h % 210000) hr
  rw [← hd] at h1 h2
  rw [h1, h2]

theorem supply_eq : supply = Epoch.SUPPLY := by decide

end Ord.SatSpec
