import OrdModel.Proofs.IndexRunemint
/-
Group `runemint`, helper lemmas 2: `tx_commits_to_rune`, `etched`, `Rune::reserved` against the
documented etching conditions (`Runemint.commitOk`, `Runemint.etchName`).
-/
namespace Ord.Index.Runemint
open Ord.Index

/-- what the commitment check reads of an input -/
def factsOf (i : TxIn) : InFacts := ⟨i.taproot, i.confHeight, i.pushes⟩

/-- one input satisfies the documented commitment condition -/
def inputCommits (h name : Nat) (i : TxIn) : Prop :=
  commitment name ∈ i.pushes ∧ i.taproot = true ∧ ∃ c, i.confHeight = some c ∧ c ≤ h ∧ h - c + 1 ≥ 6

/-- The node knows the block of every spent transaction and none is above the block being
indexed (true of any chain served by a node: an input spends an output of this or an earlier
block).  Without it the Rust panics (`unwrap` on the header lookup / `checked_sub`). -/
def NodeSane (h : Nat) (ins : List TxIn) : Prop := ∀ i ∈ ins, ∃ c, i.confHeight = some c ∧ c ≤ h

theorem any_beq_iff (ps : List (List UInt8)) (c : List UInt8) : ps.any (· == c) = true ↔ c ∈ ps := by
  induction ps with
  | nil => simp
  | cons p rest ih =>
    simp only [List.any_cons, Bool.or_eq_true, ih, List.mem_cons]
    constructor
    · rintro (h | h)
      · have hpc : p = c := by simpa using h
        exact Or.inl hpc.symm
      · exact Or.inr h
    · rintro (h | h)
      · exact Or.inl (by simp [h])
      · exact Or.inr h

theorem commitOk_iff (h name : Nat) (ins : List TxIn) :
    commitOk h name (ins.map factsOf) = true ↔ ∃ i ∈ ins, inputCommits h name i := by
  unfold commitOk inputCommits
  rw [List.any_eq_true]
  constructor
  · rintro ⟨f, hf, hc⟩
    obtain ⟨i, hi, rfl⟩ := List.mem_map.1 hf
    simp only [factsOf, Bool.and_eq_true] at hc
    obtain ⟨⟨hp, ht⟩, hc⟩ := hc
    refine ⟨i, hi, (any_beq_iff _ _).1 hp, ht, ?_⟩
    cases hch : i.confHeight with
    | none => simp [hch] at hc
    | some c => exact ⟨c, rfl, by simpa [hch] using hc⟩
  · rintro ⟨i, hi, hp, ht, c, hc, h1, h2⟩
    refine ⟨factsOf i, List.mem_map.2 ⟨i, hi, rfl⟩, ?_⟩
    simp only [factsOf, Bool.and_eq_true]
    exact ⟨⟨(any_beq_iff _ _).2 hp, ht⟩, by simp [hc, h1, h2]⟩

/-- soundness: an accepted commitment satisfies the documented condition (no assumption) -/
theorem txCommits_true (h name : Nat) (ins : List TxIn) (hr : txCommitsToRune h name ins = .ok true) :
    ∃ i ∈ ins, inputCommits h name i := by
  induction ins with
  | nil => simp [txCommitsToRune] at hr
  | cons i rest ih =>
    unfold txCommitsToRune at hr
    simp only at hr
    split at hr
    · rename_i hp
      split at hr
      · obtain ⟨j, hj, hc⟩ := ih hr
        exact ⟨j, List.mem_cons_of_mem _ hj, hc⟩
      · rename_i ht
        split at hr
        · simp at hr
        · rename_i c hc
          split at hr
          · simp at hr
          · split at hr
            · refine ⟨i, List.mem_cons_self, (any_beq_iff _ _).1 hp, by simpa using ht, c, hc, by omega, by assumption⟩
            · obtain ⟨j, hj, hcj⟩ := ih hr
              exact ⟨j, List.mem_cons_of_mem _ hj, hcj⟩
    · obtain ⟨j, hj, hc⟩ := ih hr
      exact ⟨j, List.mem_cons_of_mem _ hj, hc⟩

/-- exact characterisation when the node's answers are sane: no panic, and the answer is the
documented condition -/
theorem txCommits_eq (h name : Nat) (ins : List TxIn) (hs : NodeSane h ins) :
    txCommitsToRune h name ins = .ok (commitOk h name (ins.map factsOf)) := by
  induction ins with
  | nil => simp [txCommitsToRune, commitOk]
  | cons i rest ih =>
    have hrest : NodeSane h rest := fun j hj => hs j (List.mem_cons_of_mem _ hj)
    obtain ⟨c, hc, hle⟩ := hs i List.mem_cons_self
    have ih := ih hrest
    unfold txCommitsToRune
    simp only [commitOk, List.map_cons, List.any_cons, factsOf] at ih ⊢
    cases hp : i.pushes.any (· == commitment name) with
    | false => simpa using ih
    | true =>
      cases ht : i.taproot with
      | false => simpa using ih
      | true =>
        simp only [hc, if_true, Bool.not_true, Bool.false_eq_true, if_false, Bool.true_and]
        have : ¬ h < c := by omega
        simp only [this, if_false]
        by_cases h6 : h - c + 1 ≥ 6
        · simp [h6, hle]
        · simp only [h6, if_false, ih]
          simp [h6]

/-! ### `etched` -/

/-- the etching an artifact carries: `none` = no etching, `some none` = unnamed, `some (some r)` -/
def etchingOf : Artifact → Option (Option Nat)
  | .runestone _ (some e) _ _ => some e.rune
  | .runestone _ none _ _ => none
  | .cenotaph (some r) _ => some (some r)
  | .cenotaph none _ => none

theorem etched_none (st : State) (blk : Block) (t : Nat) (tx : Tx) (art : Artifact)
    (he : etchingOf art = none) : etched st blk t tx art = .ok (st, none) := by
  unfold etched
  cases art with
  | runestone eds e m p => cases e <;> simp_all [etchingOf]
  | cenotaph r m => cases r <;> simp_all [etchingOf]

theorem etched_unnamed (st : State) (blk : Block) (t : Nat) (tx : Tx) (art : Artifact)
    (he : etchingOf art = some none) :
    etched st blk t tx art =
      .ok ({ st with reservedRunes := st.reservedRunes + 1 }, some (⟨blk.height, t⟩, reservedRune blk.height t)) := by
  unfold etched
  cases art with
  | runestone eds e m p => cases e <;> simp_all [etchingOf]
  | cenotaph r m => cases r <;> simp_all [etchingOf]

theorem etched_named (st : State) (blk : Block) (t : Nat) (tx : Tx) (art : Artifact) (rune : Nat)
    (he : etchingOf art = some (some rune)) :
    etched st blk t tx art =
      if rune < blk.minimumRune ∨ rune ≥ RESERVED ∨ AL.contains st.rune2id rune then .ok (st, none)
      else match txCommitsToRune blk.height rune tx.inputs with
        | .panic s => .panic s
        | .err e => .err e
        | .ok false => .ok (st, none)
        | .ok true => .ok (st, some (⟨blk.height, t⟩, rune)) := by
  unfold etched
  cases art with
  | runestone eds e m p =>
    cases e with
    | none => simp [etchingOf] at he
    | some e =>
      simp only [etchingOf, Option.some.injEq] at he
      simp only [he]
      rfl
  | cenotaph r m =>
    cases r with
    | none => simp [etchingOf] at he
    | some r =>
      simp only [etchingOf, Option.some.injEq] at he
      subst he
      rfl

theorem etched_named_iff (st st' : State) (blk : Block) (t : Nat) (tx : Tx) (art : Artifact)
    (rune : Nat) (he : etchingOf art = some (some rune)) (id : RuneId) (r : Nat) :
    etched st blk t tx art = .ok (st', some (id, r)) ↔
      (st' = st ∧ id = ⟨blk.height, t⟩ ∧ r = rune ∧ blk.minimumRune ≤ rune ∧ rune < RESERVED ∧
        AL.get st.rune2id rune = none ∧ txCommitsToRune blk.height rune tx.inputs = .ok true) := by
  rw [etched_named st blk t tx art rune he]
  by_cases hbad : rune < blk.minimumRune ∨ rune ≥ RESERVED ∨ AL.contains st.rune2id rune = true
  · rw [if_pos hbad]
    constructor
    · intro h; simp at h
    · rintro ⟨_, _, _, h1, h2, h3, _⟩
      rcases hbad with h | h | h
      · omega
      · omega
      · simp [AL.contains, h3] at h
  · rw [if_neg hbad]
    have hb : blk.minimumRune ≤ rune ∧ rune < RESERVED ∧ AL.get st.rune2id rune = none := by
      refine ⟨by omega, by omega, ?_⟩
      cases hg : AL.get st.rune2id rune with
      | none => rfl
      | some v => exact absurd (Or.inr (Or.inr (by simp [AL.contains, hg]))) hbad
    cases hc : txCommitsToRune blk.height rune tx.inputs with
    | panic s => simp
    | err e => simp
    | ok b =>
      cases b with
      | false => simp
      | true =>
        simp only [Outcome.ok.injEq, Prod.mk.injEq, Option.some.injEq]
        constructor
        · rintro ⟨rfl, rfl, rfl⟩; exact ⟨rfl, rfl, rfl, hb.1, hb.2.1, hb.2.2, trivial⟩
        · rintro ⟨rfl, rfl, rfl, _⟩; exact ⟨rfl, rfl, rfl⟩

/-- an unnamed cenotaph etching does not exist: a cenotaph only keeps a *name* -/
theorem etchingOf_cenotaph_unnamed (m : Option RuneId) : etchingOf (.cenotaph none m) = none := rfl

/-! ### reserved names -/

theorem reservedRune_ge (b t : Nat) : RESERVED ≤ reservedRune b t := Nat.le_add_right _ _

theorem reservedRune_inj (b t b' t' : Nat) (ht : t < 4294967296) (ht' : t' < 4294967296)
    (h : reservedRune b t = reservedRune b' t') : b = b' ∧ t = t' := by
  have h1 : b * 4294967296 + t = b' * 4294967296 + t' := Nat.add_left_cancel h
  omega

end Ord.Index.Runemint
