import OrdModel.Proofs.IndexRunesupplyAL
/-
Group `runesupply` (C09): the edict loop of the model (`allocate`, `allocateEach`,
`allocateCapped`, `applyEdict`, `applyEdicts`) computes, for every rune id, exactly the
per-rune flow of the specification (`Spec.Flow.give/split/each/edict`, `Spec.flow`).
The abstraction `absFlow un alloc r` reads rune `r`'s numbers out of the model's two maps.
-/
namespace Ord.Index.RS
open Ord.Index Ord.Index.Spec Ord.Outcome

/-- the map allocated to output `v` (empty beyond the end) -/
def rowAt (alloc : Allocated) (v : Nat) : Balances := (alloc[v]?).getD []

/-- rune `r`'s numbers in the model's state -/
def absFlow (un : Balances) (alloc : Allocated) (r : RuneId) : Flow :=
  ⟨lk un r, fun v => lk (rowAt alloc v) r⟩

/-- no rune id occurs twice in any of the maps (they are only ever changed through `AL.set`) -/
def Good (un : Balances) (alloc : Allocated) : Prop :=
  (keys un).Nodup ∧ ∀ v, (keys (rowAt alloc v)).Nodup

theorem Flow.ext' {f g : Flow} (h1 : f.un = g.un) (h2 : ∀ v, f.out v = g.out v) : f = g := by
  cases f; cases g
  simp only [Flow.mk.injEq]
  exact ⟨h1, funext h2⟩

theorem give_zero (f : Flow) (v : Nat) : f.give v 0 = f := by
  apply Flow.ext'
  · simp [Flow.give]
  · intro v'; simp [Flow.give]

theorem rowAt_set (alloc : Allocated) (o : Nat) (m : Balances) (ho : o < alloc.length) (v : Nat) :
    rowAt (alloc.set o m) v = if v = o then m else rowAt alloc v := by
  unfold rowAt
  rw [List.getElem?_set]
  by_cases h : o = v
  · subst h; simp [ho]
  · have : ¬ v = o := fun e => h e.symm
    simp [h, this]

theorem rowAt_replicate (outs : List TxOut) (v : Nat) :
    rowAt (outs.map (fun _ => ([] : Balances))) v = [] := by
  unfold rowAt
  simp only [List.getElem?_map]
  cases outs[v]? <;> simp

/-! ### `allocate` = `Flow.give` -/

theorem allocate_ok {un : Balances} {alloc : Allocated} {id : RuneId} {amount output : Nat}
    {un' : Balances} {alloc' : Allocated}
    (h : allocate un alloc id amount output = .ok (un', alloc')) (hg : Good un alloc) :
    Good un' alloc' ∧ alloc'.length = alloc.length ∧
    ∀ r, absFlow un' alloc' r = if r = id then (absFlow un alloc r).give output amount else absFlow un alloc r := by
  unfold allocate at h
  split at h
  · rename_i hz
    simp only [Outcome.ok.injEq, Prod.mk.injEq] at h
    obtain ⟨rfl, rfl⟩ := h
    refine ⟨hg, rfl, fun r => ?_⟩
    subst hz
    split <;> simp [give_zero]
  · rename_i hnz
    simp only at h
    split at h
    · exact absurd h (by simp)
    · rename_i hbal
      split at h
      · exact absurd h (by simp)
      · rename_i m hm
        split at h
        · rename_i m' hadd
          simp only [Outcome.ok.injEq, Prod.mk.injEq] at h
          obtain ⟨rfl, rfl⟩ := h
          have ho : output < alloc.length := by
            rcases Nat.lt_or_ge output alloc.length with h1 | h1
            · exact h1
            · rw [List.getElem?_eq_none h1] at hm; exact absurd hm (by simp)
          have hrow : rowAt alloc output = m := by simp [rowAt, hm]
          have hm'n : (keys m').Nodup := addLot_nodup hadd (hrow ▸ hg.2 output)
          refine ⟨⟨nodup_set _ _ _ hg.1, fun v => ?_⟩, by simp, fun r => ?_⟩
          · rw [rowAt_set _ _ _ ho]
            split
            · exact hm'n
            · exact hg.2 v
          · apply Flow.ext'
            · show lk (AL.set un id _) r = _
              rw [lk_set]
              by_cases hr : r = id
              · subst hr; simp [absFlow, Flow.give, lk]
              · have : ¬ id = r := fun e => hr e.symm
                simp [hr, this, absFlow]
            · intro v
              show lk (rowAt (alloc.set output m') v) r = _
              rw [rowAt_set _ _ _ ho]
              by_cases hr : r = id
              · subst hr
                by_cases hv : v = output
                · subst hv
                  simp only [if_true, absFlow, Flow.give]
                  rw [addLot_lk hadd r, hrow]; simp
                · simp [hv, absFlow, Flow.give]
              · have hne : ¬ id = r := fun e => hr e.symm
                by_cases hv : v = output
                · subst hv
                  simp only [if_true, hr, if_false, absFlow]
                  rw [addLot_lk hadd r, hrow]; simp [hne]
                · simp [hv, hr, absFlow]
        · exact absurd h (by simp)
        · exact absurd h (by simp)

/-! ### a list of (amount, output) steps -/

def giveList : List (Nat × Nat) → Flow → Flow
  | [], f => f
  | (a, o) :: rest, f => giveList rest (f.give o a)

theorem allocateEach_ok (id : RuneId) : ∀ (L : List (Nat × Nat)) (un : Balances) (alloc : Allocated)
    (un' : Balances) (alloc' : Allocated),
    allocateEach id L un alloc = .ok (un', alloc') → Good un alloc →
    Good un' alloc' ∧ alloc'.length = alloc.length ∧
    ∀ r, absFlow un' alloc' r = if r = id then giveList L (absFlow un alloc r) else absFlow un alloc r := by
  intro L
  induction L with
  | nil =>
    intro un alloc un' alloc' h hg
    simp only [allocateEach, Outcome.ok.injEq, Prod.mk.injEq] at h
    obtain ⟨rfl, rfl⟩ := h
    exact ⟨hg, rfl, fun r => by simp [giveList]⟩
  | cons p rest ih =>
    intro un alloc un' alloc' h hg
    obtain ⟨a, o⟩ := p
    simp only [allocateEach] at h
    split at h
    · rename_i un1 alloc1 h1
      obtain ⟨hg1, hl1, hf1⟩ := allocate_ok h1 hg
      obtain ⟨hg2, hl2, hf2⟩ := ih un1 alloc1 un' alloc' h hg1
      refine ⟨hg2, hl2.trans hl1, fun r => ?_⟩
      rw [hf2 r]
      by_cases hr : r = id
      · subst hr; simp [giveList, hf1]
      · simp [hr, hf1]
    · exact absurd h (by simp)
    · exact absurd h (by simp)

theorem giveList_split (q R : Nat) : ∀ (dests : List Nat) (j : Nat) (f : Flow),
    giveList ((enumFrom j dests).map (fun (i, o) => (if i < R then q + 1 else q, o))) f
      = splitShares q R j dests f := by
  intro dests
  induction dests with
  | nil => intro j f; simp [enumFrom, giveList, splitShares]
  | cons v rest ih =>
    intro j f
    simp only [enumFrom, List.map_cons, giveList, splitShares]
    exact ih (j + 1) _

theorem allocateCapped_ok (id : RuneId) (amount : Nat) : ∀ (dests : List Nat) (un : Balances) (alloc : Allocated)
    (un' : Balances) (alloc' : Allocated),
    allocateCapped id amount dests un alloc = .ok (un', alloc') → Good un alloc →
    Good un' alloc' ∧ alloc'.length = alloc.length ∧
    ∀ r, absFlow un' alloc' r = if r = id then Flow.each amount dests (absFlow un alloc r) else absFlow un alloc r := by
  intro dests
  induction dests with
  | nil =>
    intro un alloc un' alloc' h hg
    simp only [allocateCapped, Outcome.ok.injEq, Prod.mk.injEq] at h
    obtain ⟨rfl, rfl⟩ := h
    exact ⟨hg, rfl, fun r => by simp [Flow.each]⟩
  | cons v rest ih =>
    intro un alloc un' alloc' h hg
    simp only [allocateCapped] at h
    split at h
    · rename_i un1 alloc1 h1
      obtain ⟨hg1, hl1, hf1⟩ := allocate_ok h1 hg
      obtain ⟨hg2, hl2, hf2⟩ := ih un1 alloc1 un' alloc' h hg1
      refine ⟨hg2, hl2.trans hl1, fun r => ?_⟩
      rw [hf2 r]
      by_cases hr : r = id
      · subst hr
        simp only [if_true, Flow.each, hf1]
        rfl
      · simp [hr, hf1]
    · exact absurd h (by simp)
    · exact absurd h (by simp)

/-! ### an edict that finds nothing unallocated does nothing -/

theorem splitShares_zero : ∀ (dests : List Nat) (j : Nat) (f : Flow), splitShares 0 0 j dests f = f := by
  intro dests
  induction dests with
  | nil => intro j f; rfl
  | cons v rest ih =>
    intro j f
    simp only [splitShares, Nat.not_lt_zero, if_false, give_zero]
    exact ih _ _

theorem each_zero (amount : Nat) : ∀ (dests : List Nat) (f : Flow), f.un = 0 → Flow.each amount dests f = f := by
  intro dests
  induction dests with
  | nil => intro f _; rfl
  | cons v rest ih =>
    intro f hf
    simp only [Flow.each, hf, Nat.min_zero, give_zero]
    exact ih f hf

theorem edict_un_zero (outs : List Bool) (f : Flow) (amount output : Nat) (hf : f.un = 0) :
    f.edict outs amount output = f := by
  unfold Flow.edict
  split
  · split
    · unfold Flow.split
      split
      · rfl
      · simp only [hf, Nat.zero_div, Nat.zero_mod]; exact splitShares_zero _ _ _
    · exact each_zero _ _ _ hf
  · split
    · split
      · simp [hf, give_zero]
      · simp [hf, give_zero]
    · rfl

/-! ### the destinations of an "all outputs" edict -/

def outsOf (tx : Tx) : List Bool := tx.outputs.map (·.opReturn)

theorem dests_eq_from : ∀ (outs : List TxOut) (j : Nat),
    (enumFrom j outs).filterMap (fun (i, o) => if o.opReturn then none else some i)
      = eligibleFrom j (outs.map (·.opReturn)) := by
  intro outs
  induction outs with
  | nil => intro j; simp [enumFrom, eligibleFrom]
  | cons o rest ih =>
    intro j
    simp only [enumFrom, List.map_cons, eligibleFrom, List.filterMap_cons]
    by_cases h : o.opReturn = true
    · simp [h, ih]
    · have : o.opReturn = false := by simpa using h
      simp [this, ih]

theorem dests_eq (tx : Tx) :
    (enumFrom 0 tx.outputs).filterMap (fun (i, o) => if o.opReturn then none else some i)
      = eligible (outsOf tx) := dests_eq_from tx.outputs 0

/-! ### one edict, the edict list -/

theorem applyEdict_ok {tx : Tx} {etched : Option RuneId} {ed : Edict} {un : Balances} {alloc : Allocated}
    {un' : Balances} {alloc' : Allocated}
    (h : applyEdict tx etched ed un alloc = .ok (un', alloc')) (hg : Good un alloc)
    (hlen : alloc.length = tx.outputs.length) :
    Good un' alloc' ∧ alloc'.length = alloc.length ∧
    ∀ r, absFlow un' alloc' r =
      if edictRune etched ed = some r then (absFlow un alloc r).edict (outsOf tx) ed.amount ed.output
      else absFlow un alloc r := by
  unfold applyEdict at h
  simp only at h
  split at h
  · exact absurd h (by simp)
  · rename_i hout
    have hrune : (if ed.id == (⟨0, 0⟩ : RuneId) then etched else some ed.id) = edictRune etched ed := by
      unfold edictRune
      by_cases hz : ed.id = ⟨0, 0⟩
      · simp [hz]
      · have : (ed.id == (⟨0, 0⟩ : RuneId)) = false := by simpa using hz
        simp [this, hz]
    rw [hrune] at h
    have hn : (outsOf tx).length = tx.outputs.length := by simp [outsOf]
    split at h
    · -- no rune named
      rename_i hnone
      simp only [Outcome.ok.injEq, Prod.mk.injEq] at h
      obtain ⟨rfl, rfl⟩ := h
      exact ⟨hg, rfl, fun r => by simp [hnone]⟩
    · rename_i id hsome
      split at h
      · -- the rune is not among the unallocated ones
        rename_i hget
        simp only [Outcome.ok.injEq, Prod.mk.injEq] at h
        obtain ⟨rfl, rfl⟩ := h
        refine ⟨hg, rfl, fun r => ?_⟩
        by_cases hr : id = r
        · subst hr
          simp only [hsome, if_true]
          exact (edict_un_zero _ _ _ _ (lk_eq_zero_of_get_none hget)).symm
        · have : ¬ (some id = some r) := by simpa using hr
          simp [hsome, this]
      · rename_i balance hget
        have hbal : lk un id = balance := lk_of_get_some hget
        have hbal' : (absFlow un alloc id).un = balance := hbal
        split at h
        · -- output = number of outputs
          rename_i hall
          rw [dests_eq] at h
          split at h
          · rename_i hemp
            simp only [Outcome.ok.injEq, Prod.mk.injEq] at h
            obtain ⟨rfl, rfl⟩ := h
            refine ⟨hg, rfl, fun r => ?_⟩
            by_cases hr : id = r
            · subst hr
              simp only [hsome, if_true]
              unfold Flow.edict
              rw [if_pos (by rw [hn]; exact hall)]
              have hemp' : eligible (outsOf tx) = [] := by simpa using hemp
              split
              · simp [Flow.split, hemp']
              · simp [hemp', Flow.each]
            · have : ¬ (some id = some r) := by simpa using hr
              simp [hsome, this]
          · rename_i hne
            split at h
            · rename_i hz
              obtain ⟨hg', hl', hf'⟩ := allocateEach_ok id _ _ _ _ _ h hg
              refine ⟨hg', hl', fun r => ?_⟩
              rw [hf' r]
              by_cases hr : id = r
              · subst hr
                simp only [hsome, if_true]
                unfold Flow.edict
                rw [if_pos (by rw [hn]; exact hall), if_pos hz]
                unfold Flow.split
                rw [if_neg hne, hbal']
                exact giveList_split _ _ _ _ _
              · have h1 : ¬ (some id = some r) := by simpa using hr
                have h2 : ¬ r = id := fun e => hr e.symm
                simp [hsome, h1, h2]
            · rename_i hnz
              obtain ⟨hg', hl', hf'⟩ := allocateCapped_ok id _ _ _ _ _ _ h hg
              refine ⟨hg', hl', fun r => ?_⟩
              rw [hf' r]
              by_cases hr : id = r
              · subst hr
                simp only [hsome, if_true]
                unfold Flow.edict
                rw [if_pos (by rw [hn]; exact hall), if_neg hnz]
              · have h1 : ¬ (some id = some r) := by simpa using hr
                have h2 : ¬ r = id := fun e => hr e.symm
                simp [hsome, h1, h2]
        · rename_i hnall
          obtain ⟨hg', hl', hf'⟩ := allocate_ok h hg
          refine ⟨hg', hl', fun r => ?_⟩
          rw [hf' r]
          have hlt : ed.output < (outsOf tx).length := by rw [hn]; omega
          have hE : (absFlow un alloc id).edict (outsOf tx) ed.amount ed.output
              = (absFlow un alloc id).give ed.output (if ed.amount = 0 then balance else min ed.amount balance) := by
            unfold Flow.edict
            rw [if_neg (by rw [hn]; exact hnall), if_pos hlt, hbal']
          by_cases hr : id = r
          · subst hr
            simp only [hsome, if_true]
            exact hE.symm
          · have h1 : ¬ (some id = some r) := by simpa using hr
            have h2 : ¬ r = id := fun e => hr e.symm
            simp [hsome, h1, h2]

theorem applyEdicts_ok (tx : Tx) (etched : Option RuneId) : ∀ (edicts : List Edict) (un : Balances) (alloc : Allocated)
    (un' : Balances) (alloc' : Allocated),
    applyEdicts tx etched edicts un alloc = .ok (un', alloc') → Good un alloc →
    alloc.length = tx.outputs.length →
    Good un' alloc' ∧ alloc'.length = alloc.length ∧
    ∀ r, absFlow un' alloc' r = flow (outsOf tx) etched r edicts (absFlow un alloc r) := by
  intro edicts
  induction edicts with
  | nil =>
    intro un alloc un' alloc' h hg _
    simp only [applyEdicts, Outcome.ok.injEq, Prod.mk.injEq] at h
    obtain ⟨rfl, rfl⟩ := h
    exact ⟨hg, rfl, fun r => by simp [flow]⟩
  | cons ed rest ih =>
    intro un alloc un' alloc' h hg hlen
    simp only [applyEdicts] at h
    split at h
    · rename_i un1 alloc1 h1
      obtain ⟨hg1, hl1, hf1⟩ := applyEdict_ok h1 hg hlen
      obtain ⟨hg2, hl2, hf2⟩ := ih un1 alloc1 un' alloc' h hg1 (hl1.trans hlen)
      refine ⟨hg2, hl2.trans hl1, fun r => ?_⟩
      rw [hf2 r, hf1 r]
      simp only [flow]
    · exact absurd h (by simp)
    · exact absurd h (by simp)

end Ord.Index.RS
