import OrdModel.Index.Block
import OrdModel.Proofs.IndexMiscAL
/-
C16, part 4 (clause c): `takeInputEntries` does not fail when every input is present — in the
block's cache, or in the table together with (address index on) its SCRIPT_PUBKEY_TO_OUTPOINT row
(the C17 rows invariant) — and no outpoint is spent twice by the transaction.
-/
namespace Ord.Index
open Outcome

/-- the precondition of `takeInputEntries` on the block context -/
def InputsPresent (cfg : Cfg) (bc : BlockCtx) (ins : List TxIn) : Prop :=
  (ins.map (·.prev)).Nodup ∧
  ∀ i ∈ ins, (∃ e, AL.get bc.cache i.prev = some e) ∨
    (AL.get bc.cache i.prev = none ∧ ∃ e, AL.get bc.st.utxo i.prev = some e ∧
      (cfg.indexAddresses = true → bc.st.script2out.contains (e.script, i.prev) = true))

theorem takeInputEntries_ok (cfg : Cfg) (ins : List TxIn) (bc : BlockCtx) (acc : List (TxIn × UtxoEntry))
    (h : InputsPresent cfg bc ins) : ∃ r, takeInputEntries cfg ins bc acc = .ok r := by
  induction ins generalizing bc acc with
  | nil => exact ⟨_, rfl⟩
  | cons i rest ih =>
    obtain ⟨hnd, hpres⟩ := h
    simp only [List.map_cons, List.nodup_cons, List.mem_map, not_exists, not_and] at hnd
    have hne : ∀ j ∈ rest, i.prev ≠ j.prev := fun j hj heq => hnd.1 j hj heq.symm
    simp only [takeInputEntries]
    rcases hpres i List.mem_cons_self with ⟨e, he⟩ | ⟨hnone, e, he, hrow⟩
    · rw [he]
      apply ih
      refine ⟨hnd.2, fun j hj => ?_⟩
      rcases hpres j (List.mem_cons_of_mem _ hj) with ⟨e', he'⟩ | ⟨hn', e', he', hrow'⟩
      · left; exact ⟨e', by simp only [AL.get_erase_ne _ (hne j hj), he']⟩
      · right; exact ⟨by simp only [AL.get_erase_ne _ (hne j hj), hn'], e', he', hrow'⟩
    · rw [hnone]
      simp only [he]
      -- the remaining inputs are still present after this table entry (and its row) is removed
      have key : ∀ (s2o : List (List UInt8 × OutPoint)),
          (∀ j ∈ rest, ∀ e', AL.get bc.st.utxo j.prev = some e' →
            (cfg.indexAddresses = true → bc.st.script2out.contains (e'.script, j.prev) = true) →
            (cfg.indexAddresses = true → s2o.contains (e'.script, j.prev) = true)) →
          InputsPresent cfg { bc with st := { bc.st with utxo := AL.erase bc.st.utxo i.prev, script2out := s2o } } rest := by
        intro s2o hs
        refine ⟨hnd.2, fun j hj => ?_⟩
        rcases hpres j (List.mem_cons_of_mem _ hj) with ⟨e', he'⟩ | ⟨hn', e', he', hrow'⟩
        · left; exact ⟨e', he'⟩
        · right
          refine ⟨hn', e', ?_, hs j hj e' he' hrow'⟩
          simp only [AL.get_erase_ne _ (hne j hj), he']
      split
      · rename_i hA
        rw [if_pos (hrow hA)]
        apply ih
        apply key
        intro j hj e' _ hrow' hA'
        have := hrow' hA'
        simp only [List.contains_iff_mem, List.mem_filter] at this ⊢
        refine ⟨this, ?_⟩
        simp only [Bool.not_eq_true', beq_eq_false_iff_ne, ne_eq, Prod.mk.injEq, not_and]
        intro _ hp
        exact hne j hj hp.symm
      · apply ih
        exact key _ (fun j hj e' _ hrow' => hrow')

end Ord.Index
