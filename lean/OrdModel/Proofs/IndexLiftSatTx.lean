import OrdModel.Proofs.IndexLiftSatFrame
import OrdModel.Proofs.IndexSatsBlock
import OrdModel.Proofs.IndexSchedBlock
/-
Sat-side lift, part 2: what one transaction of `index_utxo_entries` (`indexTx`, with the
inscription pass on or off) does to the sat side of the block context — `TxSatEff`.  Everything
the block- and chain-level sat proofs need about `indexTx` is in this one structure; the
inscription pass enters only through the frame lemmas of part 1 and the C17 stream's `LocFrame`
(output entries keep value / ranges / script).

`takeOne`, `cacheIns`, `indexTxMid`, `endState` and the unfolding equations `indexTx_eq`,
`takeInputEntries_cons`, `indexUtxoEntries_eq` are the C12 stream's (`Proofs/IndexSchedTake.lean`,
`IndexSchedTx.lean`, `IndexSchedBlock.lean`).
-/
namespace Ord.Index
open Outcome

open Ord.Index.Sched

/-! ### the spent entries -/

/-- what a successful `takeInputEntries` does, as far as sats are concerned (the precise
cache-then-table discipline is in `takeOne` / `takeInputEntries_cons` of the C12 stream) -/
structure TakeSatEff (bc bc1 : BlockCtx) : Prop where
  ins : bc1.ins = bc.ins
  cbi : bc1.coinbaseInputs = bc.coinbaseInputs
  lost : bc1.lostRanges = bc.lostRanges
  sat2sp : bc1.st.sat2sp = bc.st.sat2sp
  height : bc1.st.height = bc.st.height
  lostSats : bc1.st.lostSats = bc.st.lostSats

theorem takeOne_satEff (cfg : Cfg) (bc : BlockCtx) (i : TxIn) (bc' : BlockCtx) (e : UtxoEntry)
    (h : takeOne cfg bc i = .ok (bc', e)) : TakeSatEff bc bc' := by
  unfold takeOne at h
  split at h
  · simp only [Outcome.ok.injEq, Prod.mk.injEq] at h; rw [← h.1]; exact ⟨rfl, rfl, rfl, rfl, rfl, rfl⟩
  · split at h
    · simp only at h
      split at h
      · split at h
        · simp only [Outcome.ok.injEq, Prod.mk.injEq] at h; rw [← h.1]; exact ⟨rfl, rfl, rfl, rfl, rfl, rfl⟩
        · cases h
      · simp only [Outcome.ok.injEq, Prod.mk.injEq] at h; rw [← h.1]; exact ⟨rfl, rfl, rfl, rfl, rfl, rfl⟩
    · cases h

theorem TakeSatEff.refl (bc : BlockCtx) : TakeSatEff bc bc := ⟨rfl, rfl, rfl, rfl, rfl, rfl⟩
theorem TakeSatEff.trans {a b c : BlockCtx} (h1 : TakeSatEff a b) (h2 : TakeSatEff b c) : TakeSatEff a c :=
  ⟨h2.ins.trans h1.ins, h2.cbi.trans h1.cbi, h2.lost.trans h1.lost, h2.sat2sp.trans h1.sat2sp,
   h2.height.trans h1.height, h2.lostSats.trans h1.lostSats⟩

theorem takeInputEntries_satEff (cfg : Cfg) (inputs : List TxIn) (bc : BlockCtx) (acc : List (TxIn × UtxoEntry))
    (bc' : BlockCtx) (r : List (TxIn × UtxoEntry))
    (h : takeInputEntries cfg inputs bc acc = .ok (bc', r)) : TakeSatEff bc bc' := by
  induction inputs generalizing bc acc with
  | nil =>
    simp only [takeInputEntries, Outcome.ok.injEq, Prod.mk.injEq] at h; rw [← h.1]; exact TakeSatEff.refl _
  | cons i rest ih =>
    rw [takeInputEntries_cons] at h
    split at h
    · rename_i bc1 e h1
      exact (takeOne_satEff _ _ _ _ _ h1).trans (ih _ _ h)
    · cases h
    · cases h

/-! ### one transaction -/

/-- the sat side of the middle of `indexTx` -/
structure MidSatEff (txOffset : Nat) (tx : Tx) (inputs : List (TxIn × UtxoEntry)) (bc1 bc3 : BlockCtx)
    (outs3 : List UtxoEntry) (r : TxSats) : Prop where
  sats : indexTransactionSats (tx.outputs.map (·.value))
    (if txOffset = 0 then bc1.coinbaseInputs else entryRanges inputs) = some r
  outs : outs3.map (·.ranges) = r.outputs
  cache : bc3.cache = bc1.cache
  utxo : bc3.st.utxo = bc1.st.utxo
  sat2sp : bc3.st.sat2sp = setRare tx.txid bc1.st.sat2sp r.rare
  height : bc3.st.height = bc1.st.height
  lostSats : bc3.st.lostSats = bc1.st.lostSats
  cbi : bc3.coinbaseInputs = if txOffset = 0 then bc1.coinbaseInputs else bc1.coinbaseInputs ++ r.leftover
  lost : bc3.lostRanges = if txOffset = 0 then bc1.lostRanges ++ r.leftover else bc1.lostRanges
  noRanges : NoRanges bc1.ins → NoRanges bc3.ins
  insOff : bc3.ins = bc1.ins ∨ True

theorem map_ranges_of_base {a b : List UtxoEntry} (h : a.map UtxoEntry.base = b.map UtxoEntry.base) :
    a.map (·.ranges) = b.map (·.ranges) := by
  have := congrArg (List.map (fun x : Nat × List (Nat × Nat) × List UInt8 => x.2.1)) h
  simpa [List.map_map, Function.comp_def, UtxoEntry.base] using this

/-- the output entries built by `indexTx` carry exactly the ranges `indexTransactionSats` assigned -/
theorem built_outs_map_ranges (addr : Bool) (os : List TxOut) (rss : List Ranges) (h : rss.length = os.length) :
    (if addr = true then
        List.map (fun (x : UtxoEntry × TxOut) => ({ x.1 with script := x.2.script } : UtxoEntry))
          ((List.map (fun (x : UtxoEntry × Ranges) => ({ x.1 with ranges := x.2 } : UtxoEntry))
            ((List.map (fun _ => UtxoEntry.empty) os).zip rss)).zip os)
      else
        List.map (fun (x : UtxoEntry × Ranges) => ({ x.1 with ranges := x.2 } : UtxoEntry))
          ((List.map (fun _ => UtxoEntry.empty) os).zip rss)).map (·.ranges) = rss := by
  have h1 := zip_ranges os rss h.symm
  cases addr
  · simp only [Bool.false_eq_true, if_false]; exact h1
  · simp only [if_true]
    rw [zip_script]
    have hf : (fun x : UtxoEntry × TxOut => x.fst.ranges) = (fun e : UtxoEntry => e.ranges) ∘ (fun x : UtxoEntry × TxOut => x.1) := rfl
    rw [hf, ← List.map_map, zip_fst_of_length _ _ (by simp [h])]
    exact h1

theorem indexTxMid_satEff (cfg : Cfg) (hs : cfg.indexSats = true) (blk : Block) (insOn : Bool) (txOffset : Nat) (tx : Tx)
    (bc1 : BlockCtx) (inputs : List (TxIn × UtxoEntry)) (bc3 : BlockCtx) (outs3 : List UtxoEntry)
    (hm : indexTxMid cfg blk insOn txOffset tx bc1 inputs = .ok (bc3, outs3)) :
    ∃ r, MidSatEff txOffset tx inputs bc1 bc3 outs3 r := by
  unfold indexTxMid at hm
  simp only [hs, if_true] at hm
  cases hr : indexTransactionSats (tx.outputs.map (·.value))
      (if txOffset = 0 then bc1.coinbaseInputs else inputs.flatMap (fun x => x.2.ranges)) with
  | none => rw [hr] at hm; cases hm
  | some r =>
    rw [hr] at hm
    simp only at hm
    have hlen : r.outputs.length = tx.outputs.length := by
      have := (indexTransactionSats_facts _ _ r hr).1
      simpa using this
    have hout := built_outs_map_ranges cfg.indexAddresses tx.outputs r.outputs hlen
    refine ⟨r, ?_⟩
    cases insOn with
    | false =>
      simp only [Bool.false_eq_true, if_false, Outcome.ok.injEq, Prod.mk.injEq] at hm
      obtain ⟨rfl, rfl⟩ := hm
      refine ⟨hr, hout, ?_, ?_, ?_, ?_, ?_, ?_, ?_, ?_, Or.inr trivial⟩ <;>
        (by_cases h0 : txOffset = 0 <;> simp [h0])
    | true =>
      simp only [if_true] at hm
      split at hm
      · cases hm
      · cases hm
      · rename_i ls hii
        simp only [Outcome.ok.injEq, Prod.mk.injEq] at hm
        obtain ⟨rfl, rfl⟩ := hm
        have hf := indexInscriptions_frame _ _ _ _ _ _ _ _ hii
        have hss := indexInscriptions_satSame _ _ _ _ _ _ _ _ hii
        have houts : ls.outs.map (·.ranges) = r.outputs := by
          rw [map_ranges_of_base hf.2.2.1]; exact hout
        have hnr : NoRanges bc1.ins → NoRanges ls.ctx := fun hn =>
          indexInscriptions_noRanges _ _ _ _ _ _ _ _ hii (by by_cases h0 : txOffset = 0 <;> simpa [h0] using hn)
        refine ⟨hr, houts, ?_, ?_, ?_, ?_, ?_, ?_, ?_, hnr, Or.inr trivial⟩
        · by_cases h0 : txOffset = 0 <;> simp [h0]
        · rw [hss.utxo]; by_cases h0 : txOffset = 0 <;> simp [h0]
        · rw [hss.sat2sp]; by_cases h0 : txOffset = 0 <;> simp [h0]
        · rw [hss.height]; by_cases h0 : txOffset = 0 <;> simp [h0]
        · rw [hss.lostSats]; by_cases h0 : txOffset = 0 <;> simp [h0]
        · by_cases h0 : txOffset = 0 <;> simp [h0]
        · by_cases h0 : txOffset = 0 <;> simp [h0]

/-- **what one transaction does to the sat side of the block context** (sat index on; the
inscription pass on or off) -/
structure TxSatEff (cfg : Cfg) (txOffset : Nat) (tx : Tx) (bc bc' : BlockCtx) : Prop where
  ex : ∃ (bc1 : BlockCtx) (inputs : List (TxIn × UtxoEntry)) (outs : List UtxoEntry) (r : TxSats),
    (if txOffset = 0 then bc1 = bc ∧ inputs = tx.inputs.map (fun i => (i, UtxoEntry.empty))
      else takeInputEntries cfg tx.inputs bc [] = .ok (bc1, inputs)) ∧
    indexTransactionSats (tx.outputs.map (·.value))
      (if txOffset = 0 then bc.coinbaseInputs else entryRanges inputs) = some r ∧
    outs.map (·.ranges) = r.outputs ∧
    bc'.cache = cacheIns tx.txid outs bc1.cache ∧
    bc'.st.utxo = bc1.st.utxo ∧
    bc'.st.sat2sp = setRare tx.txid bc.st.sat2sp r.rare ∧
    bc'.coinbaseInputs = (if txOffset = 0 then bc.coinbaseInputs else bc.coinbaseInputs ++ r.leftover) ∧
    bc'.lostRanges = (if txOffset = 0 then bc.lostRanges ++ r.leftover else bc.lostRanges)
  height : bc'.st.height = bc.st.height
  lostSats : bc'.st.lostSats = bc.st.lostSats
  noRanges : NoRanges bc.ins → NoRanges bc'.ins

theorem indexTx_satEff (cfg : Cfg) (hs : cfg.indexSats = true) (blk : Block) (insOn : Bool) (txOffset : Nat) (tx : Tx)
    (bc bc' : BlockCtx) (h : indexTx cfg blk insOn txOffset tx bc = .ok bc') : TxSatEff cfg txOffset tx bc bc' := by
  rw [indexTx_eq] at h
  by_cases hz : txOffset = 0
  · subst hz
    simp only [if_true] at h
    split at h
    · cases h
    · cases h
    · rename_i bc3 outs3 hm
      obtain rfl := Outcome.ok.inj h
      obtain ⟨r, e⟩ := indexTxMid_satEff cfg hs blk insOn 0 tx bc _ bc3 outs3 hm
      have hsats := e.sats; have hcbi := e.cbi; have hlost := e.lost
      simp only [if_true] at hsats hcbi hlost
      refine ⟨⟨bc, tx.inputs.map (fun i => (i, UtxoEntry.empty)), outs3, r, ?_, ?_, e.outs, ?_, e.utxo, e.sat2sp, ?_, ?_⟩, e.height, e.lostSats, e.noRanges⟩
      · simp
      · simpa using hsats
      · show cacheIns tx.txid outs3 bc3.cache = _; rw [e.cache]
      · simpa using hcbi
      · simpa using hlost
  · simp only [hz, if_false] at h
    cases ht : takeInputEntries cfg tx.inputs bc [] with
    | panic s => rw [ht] at h; cases h
    | err e => rw [ht] at h; cases h
    | ok q =>
      obtain ⟨bc1, inputs⟩ := q
      rw [ht] at h
      simp only at h
      split at h
      · cases h
      · cases h
      · rename_i bc3 outs3 hm
        obtain rfl := Outcome.ok.inj h
        have t := takeInputEntries_satEff _ _ _ _ _ _ ht
        obtain ⟨r, e⟩ := indexTxMid_satEff cfg hs blk insOn txOffset tx bc1 inputs bc3 outs3 hm
        have hsats := e.sats; have hcbi := e.cbi; have hlost := e.lost
        simp only [hz, if_false] at hsats hcbi hlost
        refine ⟨⟨bc1, inputs, outs3, r, ?_, ?_, e.outs, ?_, e.utxo, ?_, ?_, ?_⟩, e.height.trans t.height,
          e.lostSats.trans t.lostSats, fun hn => e.noRanges (by rw [t.ins]; exact hn)⟩
        · simp [hz, ht]
        · simpa [hz] using hsats
        · show cacheIns tx.txid outs3 bc3.cache = _; rw [e.cache]
        · rw [e.sat2sp, t.sat2sp]
        · simp only [hz, if_false]; rw [hcbi, t.cbi]
        · simp only [hz, if_false]; rw [hlost, t.lost]

end Ord.Index
