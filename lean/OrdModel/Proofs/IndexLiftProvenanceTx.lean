import OrdModel.Proofs.IndexLiftProvenance
/-
C07, provenance on reachable states, part 2: one transaction of `index_utxo_entries` (`indexTx`:
input lookup, then `index_inscriptions`) and the transactions of a block, with the block context
before each transaction named (`indexTxs_prefix_induct`).
-/
namespace Ord.Index.Prov
open Ord Ord.Index Outcome Sched Insloc Insnum InsLift

/-- `pid` is the id of an inscription spent by `tx`, indexed at position `txOffset` of its block
from block context `bc`: the transaction is not the block's first one (the coinbase spends
nothing), and some non-null previous output of it holds — in the block's UTXO cache or in the
UTXO table — an entry listing a sequence number whose inscription entry carries the id `pid` -/
def SpentBy (bc : BlockCtx) (txOffset : Nat) (tx : Tx) (pid : InscriptionId) : Prop :=
  txOffset ≠ 0 ∧ ∃ inp ∈ tx.inputs, inp.prev.isNull = false ∧
    ∃ e : UtxoEntry, ((inp.prev, e) ∈ bc.cache ∨ (inp.prev, e) ∈ bc.st.utxo) ∧
      ∃ (q off : Nat) (en : InsEntry), (q, off) ∈ e.ins ∧ bc.st.entries[q]? = some en ∧ en.id = pid

/-! ### input lookup -/

theorem takeOne_mem (cfg : Cfg) (bc : BlockCtx) (i : TxIn) (bc' : BlockCtx) (e : UtxoEntry)
    (h : takeOne cfg bc i = .ok (bc', e)) : (i.prev, e) ∈ bc.cache ∨ (i.prev, e) ∈ bc.st.utxo := by
  unfold takeOne at h
  split at h
  · rename_i e0 hc
    simp only [Outcome.ok.injEq, Prod.mk.injEq] at h
    obtain ⟨_, rfl⟩ := h
    exact Or.inl (AL.mem_of_get hc)
  · split at h
    · rename_i e0 ht
      simp only at h
      split at h
      · split at h
        · simp only [Outcome.ok.injEq, Prod.mk.injEq] at h
          obtain ⟨_, rfl⟩ := h
          exact Or.inr (AL.mem_of_get ht)
        · cases h
      · simp only [Outcome.ok.injEq, Prod.mk.injEq] at h
        obtain ⟨_, rfl⟩ := h
        exact Or.inr (AL.mem_of_get ht)
    · cases h

theorem takeInputEntries_mem (cfg : Cfg) (inputs : List TxIn) (bc : BlockCtx) (acc : List (TxIn × UtxoEntry))
    (bc' : BlockCtx) (r : List (TxIn × UtxoEntry))
    (h : takeInputEntries cfg inputs bc acc = .ok (bc', r)) :
    ∀ p ∈ r, p ∈ acc ∨ (p.1 ∈ inputs ∧ ((p.1.prev, p.2) ∈ bc.cache ∨ (p.1.prev, p.2) ∈ bc.st.utxo)) := by
  induction inputs generalizing bc acc with
  | nil =>
    simp only [takeInputEntries, Outcome.ok.injEq, Prod.mk.injEq] at h
    obtain ⟨_, rfl⟩ := h
    exact fun p hp => Or.inl hp
  | cons i rest ih =>
    rw [takeInputEntries_cons] at h
    split at h
    · rename_i bc1 e h1
      obtain ⟨_, s1, s2⟩ := takeOne_seqs cfg bc i bc1 e h1
      intro p hp
      rcases ih _ _ h p hp with h2 | ⟨h2, h3⟩
      · rcases List.mem_append.1 h2 with h2 | h2
        · exact Or.inl h2
        · simp only [List.mem_singleton] at h2
          subst h2
          exact Or.inr ⟨List.mem_cons_self, takeOne_mem cfg bc i bc1 e h1⟩
      · refine Or.inr ⟨List.mem_cons_of_mem _ h2, ?_⟩
        rcases h3 with h3 | h3
        · exact Or.inl (s2 _ h3)
        · exact Or.inr (s1 _ h3)
    · cases h
    · cases h

/-! ### one transaction -/

/-- the mid-block invariant: the tables, and the new flotsam saved for the coinbase -/
structure BInvP (W : Rel) (bc : BlockCtx) : Prop where
  pinv : PInv W (tabs bc.st)
  fl : ∀ f ∈ bc.ins.flotsam, FlOK W bc.st.entries.length f

theorem indexTx_pinv {W : Rel} (hm : Mono W) (cfg : Cfg) (blk : Block) (insOn : Bool) (txOffset : Nat) (tx : Tx)
    (bc bc' : BlockCtx) (hinv : BInvP W bc)
    (hW : insOn = true → ∀ pid cid, RevealedBy tx cid → (SpentBy bc txOffset tx pid ∨ RevealedBy tx pid) →
      W pid cid bc.st.entries.length)
    (h : indexTx cfg blk insOn txOffset tx bc = .ok bc') :
    BInvP W bc' ∧ bc.st.entries.length ≤ bc'.st.entries.length := by
  obtain ⟨bc1, inputs, bc3, outs3, hin, hmid, rfl⟩ := indexTx_decomp _ _ _ _ _ _ _ h
  have hin' : bc1.ins = bc.ins ∧ tabs bc1.st = tabs bc.st ∧
      ∀ p ∈ inputs, p.1.prev.isNull = false → p.2.ins ≠ [] →
        txOffset ≠ 0 ∧ p.1 ∈ tx.inputs ∧ ((p.1.prev, p.2) ∈ bc.cache ∨ (p.1.prev, p.2) ∈ bc.st.utxo) := by
    by_cases hz : txOffset = 0
    · simp only [hz, if_true] at hin
      obtain ⟨rfl, rfl⟩ := hin
      refine ⟨rfl, rfl, ?_⟩
      intro p hp _ hne
      obtain ⟨i, _, rfl⟩ := List.mem_map.1 hp
      exact absurd rfl hne
    · simp only [hz, if_false] at hin
      obtain ⟨i1, i2, _⟩ := takeInputEntries_basic _ _ _ _ _ _ hin
      refine ⟨i1, tabs_of_core i2, ?_⟩
      intro p hp _ _
      rcases takeInputEntries_mem _ _ _ _ _ _ hin p hp with h1 | ⟨h1, h2⟩
      · cases h1
      · exact ⟨hz, h1, h2⟩
  obtain ⟨hins1, htabs1, hsrc⟩ := hin'
  have hent1 : bc1.st.entries = bc.st.entries := congrArg Tabs.entries htabs1
  obtain ⟨m, outs2, ir, _, _, _, hcase⟩ := indexTxMid_cases _ _ _ _ _ _ _ _ _ hmid
  cases hi : insOn with
  | false =>
    simp only [hi, Bool.false_eq_true, if_false] at hcase
    obtain ⟨hst, hins3, _⟩ := hcase
    have ht3 : tabs bc3.st = tabs bc.st := by rw [hst]; exact htabs1
    have he3 : bc3.st.entries = bc.st.entries := congrArg Tabs.entries ht3
    refine ⟨⟨?_, ?_⟩, ?_⟩
    · show PInv W (tabs bc3.st)
      rw [ht3]; exact hinv.pinv
    · show ∀ f ∈ bc3.ins.flotsam, FlOK W bc3.st.entries.length f
      rw [hins3, hins1, he3]; exact hinv.fl
    · show bc.st.entries.length ≤ bc3.st.entries.length
      rw [he3]; exact Nat.le_refl _
  | true =>
    simp only [hi, if_true] at hcase
    obtain ⟨ls', hls, hst, hins3, _⟩ := hcase
    have ht0 : tabs { bc1.st with sat2sp := m } = tabs bc.st := by
      rw [show tabs { bc1.st with sat2sp := m } = tabs bc1.st from rfl, htabs1]
    have he0 : ({ bc1.st with sat2sp := m } : State).entries = bc.st.entries := hent1
    obtain ⟨r1, r2, r3⟩ := indexInscriptions_pinv hm cfg blk.height blk.time tx inputs ir
      { st := { bc1.st with sat2sp := m }, ctx := bc1.ins, outs := outs2 } ls'
      (by show PInv W (tabs { bc1.st with sat2sp := m }); rw [ht0]; exact hinv.pinv)
      (by
        show ∀ f ∈ bc1.ins.flotsam, FlOK W ({ bc1.st with sat2sp := m } : State).entries.length f
        rw [hins1, he0]; exact hinv.fl)
      (by
        intro pid cid hc hp
        show W pid cid ({ bc1.st with sat2sp := m } : State).entries.length
        rw [he0]
        apply hW hi pid cid hc
        rcases hp with ⟨p, hp, hnull, q, off, en, hq, hen, hid⟩ | hp
        · left
          have hne : p.2.ins ≠ [] := by intro hnil; rw [hnil] at hq; cases hq
          obtain ⟨hz, hmem, hsrc'⟩ := hsrc p hp hnull hne
          have hen' : bc.st.entries[q]? = some en := by
            have : ({ bc1.st with sat2sp := m } : State).entries[q]? = some en := hen
            rwa [he0] at this
          exact ⟨hz, p.1, hmem, hnull, p.2, hsrc', q, off, en, hq, hen', hid⟩
        · exact Or.inr hp)
      hls
    refine ⟨⟨?_, ?_⟩, ?_⟩
    · show PInv W (tabs bc3.st)
      rw [hst]; exact r1
    · show ∀ f ∈ bc3.ins.flotsam, FlOK W bc3.st.entries.length f
      rw [hst, hins3]; exact r2
    · show bc.st.entries.length ≤ bc3.st.entries.length
      rw [hst, ← he0]; exact r3

/-! ### the transactions of a block, with the context before each of them -/

theorem indexTxs_append (cfg : Cfg) (blk : Block) (insOn : Bool) (a b : List (Nat × Tx)) (bc : BlockCtx) :
    indexTxs cfg blk insOn (a ++ b) bc =
      match indexTxs cfg blk insOn a bc with
      | .panic s => .panic s
      | .err e => .err e
      | .ok bc1 => indexTxs cfg blk insOn b bc1 := by
  induction a generalizing bc with
  | nil => simp [indexTxs]
  | cons p rest ih =>
    obtain ⟨i, tx⟩ := p
    simp only [List.cons_append, indexTxs]
    cases indexTx cfg blk insOn i tx bc with
    | panic s => rfl
    | err e => rfl
    | ok bc1 => exact ih bc1

/-- induction over the transactions of a block in indexing order, the step knowing that the
context it starts from is the one reached from `bc0` by the transactions before position `k` -/
theorem indexTxs_prefix_induct (cfg : Cfg) (blk : Block) (insOn : Bool) (order : List (Nat × Tx)) (bc0 : BlockCtx)
    (P : BlockCtx → Prop)
    (step : ∀ (k i : Nat) (tx : Tx) (bc bc' : BlockCtx), order[k]? = some (i, tx) →
      indexTxs cfg blk insOn (order.take k) bc0 = .ok bc → indexTx cfg blk insOn i tx bc = .ok bc' → P bc → P bc') :
    ∀ (l pre : List (Nat × Tx)) (bc bc' : BlockCtx), order = pre ++ l → indexTxs cfg blk insOn pre bc0 = .ok bc →
      indexTxs cfg blk insOn l bc = .ok bc' → P bc → P bc' := by
  intro l
  induction l with
  | nil =>
    intro pre bc bc' _ _ h hp
    simp only [indexTxs, Outcome.ok.injEq] at h
    subst h; exact hp
  | cons x rest ih =>
    intro pre bc bc' ho hpre h hp
    obtain ⟨i, tx⟩ := x
    simp only [indexTxs] at h
    split at h
    · cases h
    · cases h
    · rename_i bc1 h1
      have hk : order[pre.length]? = some (i, tx) := by rw [ho]; simp
      have htake : order.take pre.length = pre := by rw [ho]; simp
      have hp1 := step pre.length i tx bc bc1 hk (by rw [htake]; exact hpre) h1 hp
      apply ih (pre ++ [(i, tx)]) bc1 bc' (by rw [ho]; simp) ?_ h hp1
      rw [indexTxs_append, hpre]
      simp only [indexTxs, h1]

end Ord.Index.Prov
