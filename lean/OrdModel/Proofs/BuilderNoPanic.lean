import OrdModel.Proofs.BuilderStages
/-! No-panic lemmas for the first stages of `build_transaction` (C20, partial). -/
namespace Ord.Builder
open Ord Ord.Outcome

theorem precheck_no_panic (env : Env) (r : Request) (s : String) : precheck env r ≠ .panic s := by
  unfold precheck
  repeat' split
  all_goals simp

theorem inscriptionCheck_no_panic (d : Nat) (out : Nat × Nat) (s : String) :
    ∀ (l : List (Nat × Nat)), (∀ sp ∈ l, sp.2 + d < U64) → inscriptionCheck d out l ≠ .panic s := by
  intro l
  induction l with
  | nil => intro _; simp [inscriptionCheck]
  | cons x rest ih =>
    intro hb
    have hx := hb x List.mem_cons_self
    have ih' := ih (fun sp hsp => hb sp (List.mem_cons_of_mem _ hsp))
    unfold inscriptionCheck
    repeat' split
    all_goals first | exact ih' | contradiction | simp

/-- hypotheses on the wallet state under which stages 1–2 cannot panic -/
structure WF12 (env : Env) (w : Wallet) (r : Request) : Prop where
  /-- the outgoing UTXO, if in the wallet, is not empty (excludes finding `C20-sub-overflow`) —
  or the repair `notes/fix-C20-sub-overflow.diff` is present -/
  outgoing_nonzero : env.fixes.subOverflow = true ∨ ∀ v, w.amounts.lookup r.outgoing.1 = some v → v ≠ 0
  /-- values are `u64` -/
  values_u64 : ∀ v, w.amounts.lookup r.outgoing.1 = some v → v < U64
  /-- `inscribed_satpoint.offset + dust_limit` does not overflow (true of every indexed satpoint) -/
  offsets_small : ∀ sp ∈ w.inscriptions, sp.2 + env.dust r.change1 < U64

theorem selectOutgoing_no_panic {env : Env} {w : Wallet} {r : Request} (wf : WF12 env w r) (s : String) :
    selectOutgoing env w r (initial w r) ≠ .panic s := by
  unfold selectOutgoing
  simp only [initial, List.head?_cons]
  have hi := inscriptionCheck_no_panic (env.dust r.change1) r.outgoing
  split
  · rename_i e he; simp
  · rename_i s' hs'
    exact absurd hs' (hi s' _ (fun sp hsp => wf.offsets_small sp (List.mem_reverse.1 hsp)))
  · split
    · simp
    · rename_i amount ha
      split
      · have hn : ¬(amount = 0 ∧ env.fixes.subOverflow = false) := by
          rcases wf.outgoing_nonzero with hf | hz
          · simp [hf]
          · intro h; exact hz amount ha h.1
        rw [if_neg hn]; simp
      · simp

theorem alignOutgoing_no_panic {env : Env} {w : Wallet} {r : Request} (wf : WF12 env w r)
    {s1 : St} (h1 : selectOutgoing env w r (initial w r) = .ok s1) (s : String) :
    alignOutgoing w r s1 ≠ .panic s := by
  obtain ⟨c, amount, _, _, ha, hoff, rfl⟩ := selectOutgoing_ok h1
  have hlt := wf.values_u64 amount ha
  have h0 : r.outgoing.2 < U64 := by omega
  unfold alignOutgoing
  simp only [initial, List.nil_append, bind_def, List.length_cons, List.length_nil, Nat.zero_add,
    beq_self_eq_true, assert, if_true, Outcome.bind, decide_true, calcSatOffset, u64Add, h0]
  split
  · simp
  · have : r.outgoing.2 ≤ amount := by omega
    simp [updLast, subW, this]

end Ord.Builder

namespace Ord.Builder
open Ord Ord.Outcome

/-! ### stage 3 -/

theorem lookup_isSome_of_mem_keys : ∀ (l : List (Nat × Nat)) (u : Nat), u ∈ l.map (·.1) → (l.lookup u).isSome := by
  intro l
  induction l with
  | nil => intro u h; simp at h
  | cons x rest ih =>
    intro u h
    simp only [List.lookup]
    split
    · simp
    · rename_i hne
      simp only [List.map_cons, List.mem_cons] at h
      rcases h with rfl | h
      · simp at hne
      · exact ih u h

theorem scanCardinal_no_panic (w : Wallet) (t : Nat) (pu : Bool) (s : String) :
    ∀ (us : List Nat) (best : Option (Nat × Nat)), (∀ u ∈ us, (w.amounts.lookup u).isSome) →
      scanCardinal w t pu us best ≠ .panic s := by
  intro us
  induction us with
  | nil => intro best _; simp [scanCardinal]
  | cons x rest ih =>
    intro best hk
    have hx := hk x List.mem_cons_self
    have ih' := fun b => ih b (fun u hu => hk u (List.mem_cons_of_mem _ hu))
    unfold scanCardinal
    repeat' split
    all_goals first | exact ih' _ | simp_all

theorem selectCardinal_no_panic (w : Wallet) (us : List Nat) (t : Nat) (pu : Bool) (s : String)
    (hk : ∀ u ∈ us, (w.amounts.lookup u).isSome) : selectCardinal w us t pu ≠ .panic s := by
  unfold selectCardinal
  split
  · simp
  · simp
  · simp
  · rename_i s' hs'
    exact absurd hs' (scanCardinal_no_panic w t pu s' us none hk)

theorem padLoop_no_panic (w : Wallet) (d : Nat) (s : String)
    (hv : ∀ u v, w.amounts.lookup u = some v → d + v < U64) :
    ∀ (fuel : Nat) (st : St), st.utxos.length < fuel → (∀ u ∈ st.utxos, (w.amounts.lookup u).isSome) →
      st.outputs ≠ [] → padLoop w d fuel st ≠ .panic s := by
  intro fuel
  induction fuel with
  | zero => intro st h; omega
  | succ n ih =>
    intro st hl hk hne
    unfold padLoop
    split
    · contradiction
    · rename_i o outs ho
      split
      · rename_i hlt
        split
        · simp
        · rename_i s' hs'
          exact absurd hs' (selectCardinal_no_panic w _ _ _ s' hk)
        · rename_i utxo size utxos' hsel
          obtain ⟨_, hlk, hmem, rfl⟩ := selectCardinal_ok hsel
          have := hv _ _ hlk
          have hadd : o.2 + size < U64 := by omega
          simp only [amountAdd, hadd, if_true]
          apply ih
          · show (st.utxos.erase utxo).length < n
            have h1 := List.length_erase_of_mem hmem
            have h2 : 0 < st.utxos.length := List.length_pos_of_mem hmem
            omega
          · intro u hu; exact hk u (List.mem_of_mem_erase hu)
          · simp
      · simp

end Ord.Builder

namespace Ord.Builder
open Ord Ord.Outcome

/-- the two shapes of the state after `align_outgoing` -/
theorem alignOutgoing_shape {env : Env} {w : Wallet} {r : Request} (wf : WF12 env w r)
    {s1 s2 : St} (h1 : selectOutgoing env w r (initial w r) = .ok s1) (h2 : alignOutgoing w r s1 = .ok s2) :
    ∃ amount, w.amounts.lookup r.outgoing.1 = some amount ∧ r.outgoing.2 < amount ∧
      s2.utxos = (w.amounts.map (·.1)).erase r.outgoing.1 ∧ s2.inputs = [r.outgoing.1] ∧
      ((s2.outputs = [(r.recipient, amount)] ∧ s2.unused = [r.change1, r.change0]) ∨
       (s2.outputs = [(r.change1, r.outgoing.2), (r.recipient, amount - r.outgoing.2)] ∧
        s2.unused = [r.change0])) := by
  obtain ⟨c, amount, _, _, ha, hoff, rfl⟩ := selectOutgoing_ok h1
  have hlt := wf.values_u64 amount ha
  have h0 : r.outgoing.2 < U64 := by omega
  refine ⟨amount, ha, hoff, ?_⟩
  unfold alignOutgoing at h2
  simp only [initial, List.nil_append, bind_def, List.length_cons, List.length_nil, Nat.zero_add,
    beq_self_eq_true, assert, if_true, Outcome.bind, decide_true, calcSatOffset, u64Add, h0] at h2
  split at h2
  · simp only [Outcome.ok.injEq] at h2; subst h2; simp
  · have : r.outgoing.2 ≤ amount := by omega
    simp only [updLast, subW, this, if_true, Outcome.ok.injEq] at h2
    subst h2; simp

theorem padAlignmentOutput_no_panic {env : Env} {w : Wallet} {r : Request} (wf : WF12 env w r)
    (hv : ∀ u v, w.amounts.lookup u = some v → env.dust r.change0 + v < U64)
    {s1 s2 : St} (h1 : selectOutgoing env w r (initial w r) = .ok s1) (h2 : alignOutgoing w r s1 = .ok s2)
    (s : String) : padAlignmentOutput env w r s2 ≠ .panic s := by
  obtain ⟨amount, _, _, hu, _, hshape⟩ := alignOutgoing_shape wf h1 h2
  have hk : ∀ u ∈ s2.utxos, (w.amounts.lookup u).isSome := by
    intro u hu'
    rw [hu] at hu'
    exact lookup_isSome_of_mem_keys _ _ (List.mem_of_mem_erase hu')
  unfold padAlignmentOutput
  rcases hshape with ⟨ho, _⟩ | ⟨ho, hun⟩
  · simp [ho]
  · simp only [ho, hun, List.head?_cons]
    split
    · simp
    · exact padLoop_no_panic w _ s hv _ _ (by omega) hk (by simp [ho])

end Ord.Builder
