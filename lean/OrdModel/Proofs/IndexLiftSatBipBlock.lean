import OrdModel.Proofs.IndexLiftSatBip
/-
Sat-side lift, part 5 (C01, block level, assembly): `indexUtxoEntries` / `applyBlock` against
`Bip.assignBlock`, and the discharge of the table well-formedness hypothesis for reachable states.
-/
namespace Ord.Index
open Outcome Ord.Index.Sched

/-- the ordinals at an outpoint (none if there is no such output) -/
def satsAt (m : Bip.Outs) (op : OutPoint) : List Nat := (AL.get m op).getD []

/-- **No shadowed spend**: an input that refers (by txid) to a non-coinbase transaction of this
block does not also name an output that was already unspent in the table when the block
started.  (The updater removes an input found in the cache from the cache only; see the file
header of `IndexLiftSatBip`.)  Implied by `FreshTxids`. -/
def NoShadow (tbl : List (OutPoint × UtxoEntry)) (blk : Block) : Prop :=
  ∀ tx ∈ blk.txs.drop 1, ∀ tx' ∈ blk.txs.drop 1, ∀ i ∈ tx'.inputs,
    i.prev.txid = tx.txid → AL.get tbl i.prev = none

/-- no transaction of the block other than the coinbase reuses the txid of an unspent output -/
def FreshTxids (tbl : List (OutPoint × UtxoEntry)) (blk : Block) : Prop :=
  ∀ tx ∈ blk.txs.drop 1, ∀ op ∈ AL.keys tbl, op.txid ≠ tx.txid

theorem noShadow_of_fresh {tbl : List (OutPoint × UtxoEntry)} {blk : Block} (h : FreshTxids tbl blk) :
    NoShadow tbl blk := by
  intro tx htx tx' _ i _ hi
  apply (AL.get_eq_none_iff tbl i.prev).2
  intro hmem
  exact h tx htx i.prev hmem hi

theorem enumFrom_map_snd {α : Type} (n : Nat) (l : List α) : (enumFrom n l).map (·.2) = l := by
  induction l generalizing n with
  | nil => rfl
  | cons a l ih => simp [enumFrom, ih]

theorem isSpecial_false_of_txid {op : OutPoint} (h : op.txid ≠ 0) : op.isSpecial = false := by
  unfold OutPoint.isSpecial
  have : (op.txid == 0) = false := by simpa using h
  simp [this]

theorem get_none_of_txids {c : Cache} {T : List Txid} (hp : ∀ op, AL.get c op ≠ none → op.txid ∈ T)
    (hz : ∀ t ∈ T, t ≠ 0) (op : OutPoint) (hs : op.isSpecial = true) : AL.get c op = none := by
  apply Classical.byContradiction
  intro hcon
  have := isSpecial_false_of_txid (hz _ (hp op hcon))
  rw [this] at hs; cases hs

theorem get_specialOf (n u : Option UtxoEntry) (op : OutPoint) :
    AL.get (specialOf n u) op =
      if op = OutPoint.null then n else if op = OutPoint.unbound then u else none := by
  have hnu : (OutPoint.null == OutPoint.unbound) = false := by decide
  cases n <;> cases u <;> simp only [specialOf, AL.get, List.nil_append, List.cons_append]
  · split <;> (try split) <;> rfl
  · by_cases h1 : op = OutPoint.null
    · subst h1; have hun : OutPoint.unbound ≠ OutPoint.null := by decide
      simp [hun]
    · by_cases h2 : op = OutPoint.unbound
      · subst h2; simp [h1]
      · have : (OutPoint.unbound == op) = false := by simpa using (Ne.symm h2)
        simp [h1, h2, this]
  · by_cases h1 : op = OutPoint.null
    · subst h1; simp
    · have : (OutPoint.null == op) = false := by simpa using (Ne.symm h1)
      simp only [this, Bool.false_eq_true, if_false, h1]
      split <;> rfl
  · by_cases h1 : op = OutPoint.null
    · subst h1; simp
    · have hn : (OutPoint.null == op) = false := by simpa using (Ne.symm h1)
      by_cases h2 : op = OutPoint.unbound
      · subst h2; simp [hn, h1]
      · have : (OutPoint.unbound == op) = false := by simpa using (Ne.symm h2)
        simp [h1, h2, this, hn]

theorem keys_specialOf_nodup (n u : Option UtxoEntry) : (AL.keys (specialOf n u)).Nodup := by
  cases n <;> cases u <;> simp [specialOf, AL.keys]
  decide

theorem keys_specialOf_special (n u : Option UtxoEntry) : ∀ op ∈ AL.keys (specialOf n u), op.isSpecial = true := by
  cases n <;> cases u <;> simp [specialOf, AL.keys] <;> decide

theorem endState_null_ranges (cfg : Cfg) (blk : Block) (insOn : Bool) (bc : BlockCtx) (hn : NoRanges bc.ins) :
    ((endState cfg blk insOn bc).2.map (·.ranges)).getD [] = bc.lostRanges := by
  unfold endState
  cases hE : bc.lostRanges.isEmpty
  · simp only [Bool.false_eq_true, if_false]
    cases hne : bc.ins.nullEntry with
    | none => simp [UtxoEntry.merged, UtxoEntry.empty]
    | some e => simp [UtxoEntry.merged, hn.1 e hne]
  · simp only [if_true]
    have hl : bc.lostRanges = [] := List.isEmpty_iff.mp hE
    cases hne : bc.ins.nullEntry with
    | none => simp [hl]
    | some e => simp [hn.1 e hne, hl]

theorem keys_append {κ ν : Type} (a b : List (κ × ν)) : AL.keys (a ++ b) = AL.keys a ++ AL.keys b := by
  simp [AL.keys]

/-- the ordinals of `eff tbl op e` for a special outpoint: the old ones followed by the new ones -/
theorem ordsOf_eff_special (tbl : List (OutPoint × UtxoEntry)) (op : OutPoint) (e : UtxoEntry)
    (h : op.isSpecial = true) :
    ordsOf (eff tbl op e) = ((AL.get tbl op).map ordsOf).getD [] ++ ordsOf e := by
  unfold eff
  rw [if_pos h]
  cases AL.get tbl op with
  | none => simp
  | some old => simp [ordsOf, UtxoEntry.merged, den_append]

theorem indexTxs_noRanges (cfg : Cfg) (hs : cfg.indexSats = true) (blk : Block) (insOn : Bool) (l : List (Nat × Tx))
    (bc bc' : BlockCtx) (h : indexTxs cfg blk insOn l bc = .ok bc') (hn : NoRanges bc.ins) : NoRanges bc'.ins := by
  induction l generalizing bc with
  | nil => simp only [indexTxs, Outcome.ok.injEq] at h; subst h; exact hn
  | cons p l ih =>
    obtain ⟨i, tx⟩ := p
    simp only [indexTxs] at h
    split at h
    · cases h
    · cases h
    · rename_i bc1 h1
      exact ih bc1 h ((indexTx_satEff cfg hs blk insOn i tx bc bc1 h1).noRanges hn)

/-- **`index_utxo_entries` + commit is the BIP's `assign_ordinals(block)`** on the sat-only
projection of the table -/
theorem indexUtxoEntries_bip (cfg : Cfg) (hs : cfg.indexSats = true) (st : State) (blk : Block)
    (cbtx : Tx) (rest : List Tx) (hb : blk.txs = cbtx :: rest)
    (hN : (AL.keys st.utxo).Nodup) (hz : ∀ tx ∈ blk.txs, tx.txid ≠ 0) (hsh : NoShadow st.utxo blk)
    (st' : State) (evs : List Event) (h : indexUtxoEntries cfg st blk = .ok (st', evs)) :
    ∃ m' unclaimed,
      Bip.assignBlock blk.height (btxOf cbtx) (rest.map btxOf) (satProj st.utxo) = some (m', unclaimed) ∧
      (∀ op, op.isSpecial = false → AL.get (satProj st'.utxo) op = AL.get m' op) ∧
      satsAt (satProj st'.utxo) OutPoint.null = satsAt m' OutPoint.null ++ unclaimed ∧
      satsAt (satProj st'.utxo) OutPoint.unbound = satsAt m' OutPoint.unbound ∧
      (AL.keys st'.utxo).Nodup := by
  rw [indexUtxoEntries_eq] at h
  split at h
  · cases h
  · cases h
  · rename_i bc hbc
    simp only [Outcome.ok.injEq, Prod.mk.injEq] at h
    obtain ⟨rfl, -⟩ := h
    -- the transactions in the updater's order
    have hord : blockOrder blk = enumFrom 1 rest ++ [(0, cbtx)] := by
      simp [blockOrder, hb, enumFrom]
    rw [hord] at hbc
    obtain ⟨bc1, h1, h2⟩ := indexTxs_append cfg blk _ _ _ _ bc hbc
    let T : List Txid := rest.map (·.txid)
    have hR0 : BRel (satProj st.utxo) (bc0A cfg st blk).st.utxo (bc0A cfg st blk).cache := by
      refine ⟨fun op => ?_, by rw [keys_satProj]; exact hN, hN, by simp [bc0A, AL.keys]⟩
      rw [get_satProj]; simp [bc0A, ovN, AL.get]
    have hP0 : BProv T st.utxo (bc0A cfg st blk) :=
      ⟨fun op hop => by simp [bc0A, AL.get] at hop, fun op hop => hop⟩
    have hcb0 : den (bc0A cfg st blk).coinbaseInputs =
        List.range' (Bip.firstOrdinal blk.height) (Bip.firstOrdinal blk.height + Bip.subsidy blk.height - Bip.firstOrdinal blk.height) := by
      rw [firstOrdinal_eq_startingSat, ← subsidy_eq_bip]
      simp only [bc0A, coinbaseInputsOf, hs, true_and]
      split
      · simp
      · rename_i hz0
        have : subsidy blk.height = 0 := by omega
        simp [this]
    have hmem : ∀ p ∈ enumFrom 1 rest, p.2 ∈ rest := by
      intro p hp
      have := List.mem_map_of_mem (f := (·.2)) hp
      rwa [enumFrom_map_snd] at this
    have hdrop : blk.txs.drop 1 = rest := by simp [hb]
    obtain ⟨m1, cb1, ha, hR1, hcb1, hP1, hl1⟩ := indexTxs_bip cfg hs blk _ (enumFrom 1 rest)
      (enumFrom_succ_ne_zero 0 rest) _ bc1 (satProj st.utxo) _ T st.utxo hR0 hcb0 hP0
      (fun p hp => List.mem_map_of_mem (hmem p hp))
      (fun p hp i hi hiT => by
        obtain ⟨tx, htx, hteq⟩ := List.mem_map.1 hiT
        exact hsh tx (by rw [hdrop]; exact htx) p.2 (by rw [hdrop]; exact hmem p hp) i hi hteq.symm)
      h1
    simp only [indexTxs] at h2
    split at h2
    · cases h2
    · cases h2
    · rename_i bc2 h3
      simp only [Outcome.ok.injEq] at h2
      subst h2
      obtain ⟨hR2, hlost2, hP2⟩ := indexTx_bip_cb cfg hs blk _ cbtx bc1 bc2 m1 T st.utxo hR1 hP1 h3
      have hlost0 : bc1.lostRanges = [] := by rw [hl1]; rfl
      rw [hlost0, den_nil, List.nil_append, hcb1] at hlost2
      rw [hcb1] at hR2
      have hR2 : BRel (Bip.place (btxOf cbtx).txid (Bip.assignOutputs (btxOf cbtx).values cb1).1 0 m1) bc2.st.utxo bc2.cache := hR2
      have hmap : (enumFrom 1 rest).map (fun p => btxOf p.2) = rest.map btxOf := by
        have hf : (fun p : Nat × Tx => btxOf p.2) = btxOf ∘ (fun p : Nat × Tx => p.2) := rfl
        rw [hf, ← List.map_map, enumFrom_map_snd]
      rw [hmap] at ha
      refine ⟨_, _, by simp only [Bip.assignBlock, ha]; rfl, ?_⟩
      -- NoRanges at the end of the block
      have hn0 : NoRanges (bc0A cfg st blk).ins := by simp [NoRanges, bc0A]
      have hnr : NoRanges bc2.ins := by
        have e1 := indexTxs_noRanges cfg hs blk _ _ _ bc1 h1 hn0
        exact (indexTx_satEff cfg hs blk _ 0 cbtx bc1 bc2 h3).noRanges e1
      -- the committed table as a finite map
      have hzT : ∀ t ∈ cbtx.txid :: T, t ≠ 0 := by
        intro t ht
        rcases List.mem_cons.1 ht with rfl | ht
        · exact hz cbtx (by simp [hb])
        · obtain ⟨tx, htx, rfl⟩ := List.mem_map.1 ht
          exact hz tx (by simp [hb, htx])
      have hcsp : ∀ op, op.isSpecial = true → AL.get bc2.cache op = none :=
        fun op hop => get_none_of_txids hP2.prov hzT op hop
      have hu3 := (endState_utxo_height cfg blk (insOnOf cfg blk) bc2).1
      have hkeys : (AL.keys (bc2.cache ++ specialOf (endState cfg blk (insOnOf cfg blk) bc2).2 bc2.ins.unboundEntry)).Nodup := by
        rw [keys_append]
        refine List.nodup_append.2 ⟨hR2.cN, keys_specialOf_nodup _ _, ?_⟩
        intro a ha b hb' hab
        subst hab
        have := hcsp a (keys_specialOf_special _ _ a hb')
        exact (AL.get_eq_none_iff _ _).1 this ha
      have hget := get_flushCache_utxo cfg _ (endState cfg blk (insOnOf cfg blk) bc2).1 hkeys
      refine ⟨?_, ?_, ?_, ?_⟩
      · intro op hop
        rw [get_satProj, hget op, AL_get_append, hu3, hR2.get op]
        have hsp : AL.get (specialOf (endState cfg blk (insOnOf cfg blk) bc2).2 bc2.ins.unboundEntry) op = none := by
          rw [get_specialOf]
          have h1 : op ≠ OutPoint.null := by intro h; subst h; cases hop
          have h2 : op ≠ OutPoint.unbound := by intro h; subst h; cases hop
          simp [h1, h2]
        unfold ovN
        cases hc : AL.get bc2.cache op with
        | some e => simp [eff_nonspecial e hop]
        | none => simp [hsp]
      · have hnull : (OutPoint.null).isSpecial = true := by decide
        unfold satsAt
        rw [get_satProj, hget OutPoint.null, AL_get_append, hcsp _ hnull, hu3, hR2.get OutPoint.null]
        simp only [get_specialOf, if_true]
        unfold ovN
        rw [hcsp _ hnull]
        have hr := endState_null_ranges cfg blk (insOnOf cfg blk) bc2 hnr
        rw [← hlost2]
        cases hE : (endState cfg blk (insOnOf cfg blk) bc2).2 with
        | none =>
          rw [hE] at hr
          simp only [Option.map_none, Option.getD_none] at hr
          rw [← hr]
          simp
        | some e =>
          rw [hE] at hr
          simp only [Option.map_some, Option.getD_some] at hr
          simp only [Option.map_some, Option.getD_some]
          rw [ordsOf_eff_special _ _ _ hnull]
          simp [ordsOf, hr]
      · have hunb : (OutPoint.unbound).isSpecial = true := by decide
        have hne : OutPoint.unbound ≠ OutPoint.null := by decide
        unfold satsAt
        rw [get_satProj, hget OutPoint.unbound, AL_get_append, hcsp _ hunb, hu3, hR2.get OutPoint.unbound]
        simp only [get_specialOf, hne, if_false, if_true]
        unfold ovN
        rw [hcsp _ hunb]
        cases hE : bc2.ins.unboundEntry with
        | none => simp
        | some e =>
          simp only [Option.map_some, Option.getD_some]
          rw [ordsOf_eff_special _ _ _ hunb]
          simp [ordsOf, hnr.2 e hE]
      · -- keys stay duplicate-free
        have : ∀ (c : Cache) (s : State), (AL.keys s.utxo).Nodup → (AL.keys (flushCache cfg s c).utxo).Nodup := by
          intro c
          induction c with
          | nil => intro s hs'; exact hs'
          | cons p c ih =>
            intro s hs'
            obtain ⟨op, e⟩ := p
            rw [flushCache_cons]
            apply ih
            rw [flushEntry_utxo]
            exact AL.nodup_set _ _ _ hs'
        apply this
        rw [hu3]
        exact hR2.tN

end Ord.Index
