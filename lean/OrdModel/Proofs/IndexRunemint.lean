import OrdModel.Index.OracleRunemint
/-
Group `runemint`, helper lemmas 1: `RuneEntry::start/end/mintable` and `RuneUpdater::mint`
against the documented window (`Runemint.mintOpen`), and the saturating relative bounds.
-/
namespace Ord.Index.Runemint
open Ord.Index

theorem runeId_beq_iff (a b : RuneId) : (a == b) = true ↔ a = b := by
  cases a; cases b
  show (_ == _ && _ == _) = true ↔ _
  simp [RuneId.mk.injEq]

instance instLawfulBEqRuneId : LawfulBEq RuneId where
  eq_of_beq {a b} h := (runeId_beq_iff a b).1 h
  rfl {a} := (runeId_beq_iff a a).2 rfl

/-! own copies of the two association-list facts used here (the shared library
`Proofs/IndexMiscAL.lean` belongs to another work stream) -/

theorem al_get_set {ν : Type} (l : List (RuneId × ν)) (k k' : RuneId) (v : ν) :
    AL.get (AL.set l k v) k' = if k = k' then some v else AL.get l k' := by
  induction l with
  | nil =>
    by_cases h : k = k' <;> simp [AL.get, AL.set, h]
  | cons p rest ih =>
    obtain ⟨k0, v0⟩ := p
    by_cases h0 : k0 = k
    · subst h0
      by_cases h1 : k0 = k' <;> simp [AL.get, AL.set, h1]
    · have hb : (k0 == k) = false := by simpa using h0
      by_cases h1 : k0 = k'
      · subst h1
        have : ¬ k = k0 := fun h => h0 h.symm
        simp [AL.get, AL.set, hb, this]
      · have hb1 : (k0 == k') = false := by simpa using h1
        simp [AL.get, AL.set, hb, hb1, ih]

theorem al_get_set_nat {ν : Type} (l : List (Nat × ν)) (k k' : Nat) (v : ν) :
    AL.get (AL.set l k v) k' = if k = k' then some v else AL.get l k' := by
  induction l with
  | nil =>
    by_cases h : k = k' <;> simp [AL.get, AL.set, h]
  | cons p rest ih =>
    obtain ⟨k0, v0⟩ := p
    by_cases h0 : k0 = k
    · subst h0
      by_cases h1 : k0 = k' <;> simp [AL.get, AL.set, h1]
    · have hb : (k0 == k) = false := by simpa using h0
      by_cases h1 : k0 = k'
      · subst h1
        have : ¬ k = k0 := fun h => h0 h.symm
        simp [AL.get, AL.set, hb, this]
      · have hb1 : (k0 == k') = false := by simpa using h1
        simp [AL.get, AL.set, hb, hb1, ih]

/-- `saturating_add` on u64: the exact sum when it fits, `u64::MAX` otherwise -/
theorem saturatingAdd64_eq (a b : Nat) :
    saturatingAdd64 a b = if a + b ≤ 2 ^ 64 - 1 then a + b else 2 ^ 64 - 1 := by
  unfold saturatingAdd64 U64MAX
  split <;> split <;> omega

theorem saturatingAdd64_le (a b : Nat) : saturatingAdd64 a b ≤ 2 ^ 64 - 1 := by
  rw [saturatingAdd64_eq]; split <;> omega

theorem start_eq (e : RuneEntry) :
    e.start = match e.terms with
      | none => none
      | some t => laterOf (relStart e.block t) t.heightStart := by
  unfold RuneEntry.start
  cases e.terms with
  | none => rfl
  | some t =>
    simp only [relStart]
    cases t.offsetStart <;> cases t.heightStart <;> simp [laterOf]

theorem end_eq (e : RuneEntry) :
    e.end_ = match e.terms with
      | none => none
      | some t => earlierOf (relEnd e.block t) t.heightEnd := by
  unfold RuneEntry.end_
  cases e.terms with
  | none => rfl
  | some t =>
    simp only [relEnd]
    cases t.offsetEnd <;> cases t.heightEnd <;> simp [earlierOf]

/-- every present start bound is reached iff the later of them is -/
theorem startsOk_iff (block : Nat) (t : Terms) (h : Nat) :
    startsOk block t h = true ↔ ∀ s, laterOf (relStart block t) t.heightStart = some s → s ≤ h := by
  unfold startsOk relStart
  cases t.offsetStart <;> cases t.heightStart <;> simp [laterOf] <;> omega

theorem endsOk_iff (block : Nat) (t : Terms) (h : Nat) :
    endsOk block t h = true ↔ ∀ en, earlierOf (relEnd block t) t.heightEnd = some en → h < en := by
  unfold endsOk relEnd
  cases t.offsetEnd <;> cases t.heightEnd <;> simp [earlierOf] <;> omega

/-- `RuneEntry::mintable` decides exactly the documented condition -/
theorem mintable_eq (e : RuneEntry) (h : Nat) :
    e.mintable h = if mintOpen e h then some (amountOf e) else none := by
  obtain ⟨block, burned, dv, etching, mints, number, premine, rune, spacers, symbol, terms, ts, turbo⟩ := e
  cases terms with
  | none => simp [RuneEntry.mintable, mintOpen, windowOpen]
  | some t =>
    obtain ⟨a, c, hs, he, os, oe⟩ := t
    unfold RuneEntry.mintable mintOpen windowOpen capOf amountOf
    simp only [start_eq, end_eq, startsOk, endsOk, relStart, relEnd, Option.bind]
    cases os <;> cases hs <;> cases oe <;> cases he <;>
      simp [laterOf, earlierOf] <;> (repeat' split) <;> simp_all <;> omega

/-- the error-carrying variant answers `ok` exactly when `mintable` does, with the same amount -/
theorem mintableE_ok_iff (e : RuneEntry) (h a : Nat) : mintableE e h = .ok a ↔ e.mintable h = some a := by
  unfold mintableE RuneEntry.mintable
  cases e.terms with
  | none => simp
  | some t =>
    cases e.start <;> cases e.end_ <;> simp <;> (repeat' split) <;> simp_all <;> omega

/-! ### `RuneUpdater::mint` -/

theorem mint_of_absent (st : State) (h : Nat) (id : RuneId) (hg : AL.get st.runeEntries id = none) :
    mint st h id = (st, none) := by
  simp [mint, hg]

theorem mint_of_closed (st : State) (h : Nat) (id : RuneId) (e : RuneEntry)
    (hg : AL.get st.runeEntries id = some e) (hc : mintOpen e h = false) :
    mint st h id = (st, none) := by
  simp [mint, hg, mintable_eq, hc]

theorem mint_of_open (st : State) (h : Nat) (id : RuneId) (e : RuneEntry)
    (hg : AL.get st.runeEntries id = some e) (ho : mintOpen e h = true) :
    mint st h id =
      ({ st with runeEntries := AL.set st.runeEntries id { e with mints := e.mints + 1 } }, some (amountOf e)) := by
  simp [mint, hg, mintable_eq, ho]

theorem mint_some_iff (st : State) (h : Nat) (id : RuneId) (amount : Nat) :
    (mint st h id).2 = some amount ↔
      ∃ e, AL.get st.runeEntries id = some e ∧ mintOpen e h = true ∧ amount = amountOf e := by
  cases hg : AL.get st.runeEntries id with
  | none => simp [mint_of_absent st h id hg]
  | some e =>
    cases ho : mintOpen e h with
    | false => simp [mint_of_closed st h id e hg ho, ho]
    | true =>
      simp [mint_of_open st h id e hg ho, ho]
      exact eq_comm

theorem mint_none_state (st : State) (h : Nat) (id : RuneId) (hn : (mint st h id).2 = none) :
    (mint st h id).1 = st := by
  cases hg : AL.get st.runeEntries id with
  | none => simp [mint_of_absent st h id hg]
  | some e =>
    cases ho : mintOpen e h with
    | false => simp [mint_of_closed st h id e hg ho]
    | true => simp [mint_of_open st h id e hg ho] at hn

end Ord.Index.Runemint
