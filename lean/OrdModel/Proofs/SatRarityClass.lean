import OrdModel.Proofs.SatRarityUnfold
/-!
Helper lemmas for C29 (rarity part):
* `Sat::common`'s fast path is sound, and `common` = "offset in the block is non-zero";
* the if-chain of `Rarity::from(Sat)` on the degree = the documented classes `SatSpec.rarity`.
-/
namespace Ord.Epoch

theorem subsidy_nine : subsidy 9 = 9765625 := by decide

/-- the fact the fast path of `Sat::common` rests on: every epoch start and every block subsidy
of epochs 0..9 is a multiple of the epoch-9 subsidy -/
theorem table_mod_nine : ∀ e, e < 10 → startingSat e % 9765625 = 0 ∧ subsidy e % 9765625 = 0 := by
  decide

theorem ofSat_lt_ten (s : Nat) (h : s < startingSat 10) : ofSat s < 10 := by
  rcases Nat.lt_or_ge (ofSat s) 10 with h' | h'
  · exact h'
  · have h33 := ofSat_le s
    have := table_mono 10 (by omega) (ofSat s) (by omega) h'
    have := ofSat_lower s
    omega

end Ord.Epoch

namespace Ord.Sat
open Ord.Epoch

theorem isMultipleOf_pos (a : Nat) {b : Nat} (hb : 0 < b) : isMultipleOf a b = decide (a % b = 0) := by
  unfold isMultipleOf
  rw [if_neg (by omega)]
  by_cases h : a % b = 0 <;> simp [h]

/-- the slow path of `Sat::common` is `third ≠ 0` -/
theorem common_slow (s : Nat) (hs : s < SUPPLY) :
    (!isMultipleOf (s - Epoch.startingSat (epoch s)) (Epoch.subsidy (epoch s))) = decide (thirdN s ≠ 0) := by
  obtain ⟨_, hpos, _, _⟩ := in_epoch s hs
  rw [isMultipleOf_pos _ hpos]
  unfold thirdN epochPosition
  by_cases h : (s - Epoch.startingSat (epoch s)) % Epoch.subsidy (epoch s) = 0 <;> simp [h]

/-- soundness of the fast path: a sat of epochs 0..9 that is not a multiple of 9765625 is not
the first sat of its block -/
theorem fast_path_sound (s : Nat) (h1 : s < Epoch.startingSat 10) (h2 : s % 9765625 ≠ 0) :
    thirdN s ≠ 0 := by
  intro h0
  have he := Epoch.ofSat_lt_ten s h1
  obtain ⟨hA, hB⟩ := Epoch.table_mod_nine (epoch s) he
  have hlo : Epoch.startingSat (epoch s) ≤ s := Epoch.ofSat_lower s
  unfold thirdN epochPosition at h0
  have d1 : 9765625 ∣ Epoch.subsidy (epoch s) := Nat.dvd_of_mod_eq_zero hB
  have d2 : Epoch.subsidy (epoch s) ∣ s - Epoch.startingSat (epoch s) := Nat.dvd_of_mod_eq_zero h0
  have d3 : 9765625 ∣ Epoch.startingSat (epoch s) := Nat.dvd_of_mod_eq_zero hA
  have d4 : 9765625 ∣ (s - Epoch.startingSat (epoch s)) + Epoch.startingSat (epoch s) :=
    Nat.dvd_add (Nat.dvd_trans d1 d2) d3
  rw [Nat.sub_add_cancel hlo] at d4
  exact h2 (Nat.mod_eq_zero_of_dvd d4)

/-- `Sat::common` (fast path included) = "not the first sat of its block" -/
theorem common_eq (s : Nat) (hs : s < SUPPLY) : common s = decide (thirdN s ≠ 0) := by
  unfold common
  split
  · rename_i hc
    simp only [Bool.and_eq_true, decide_eq_true_eq, Bool.not_eq_true', Epoch.subsidy_nine] at hc
    obtain ⟨h1, h2⟩ := hc
    rw [isMultipleOf_pos _ (by omega)] at h2
    have h2' : s % 9765625 ≠ 0 := by simpa using h2
    have := fast_path_sound s h1 h2'
    simp [this]
  · exact common_slow s hs

end Ord.Sat

namespace Ord.SatSpec
open Ord Ord.Epoch

theorem ofHeightThird_eq (h k : Nat) :
    Degree.ofHeightThird h k = ⟨h / 1260000, h % 210000, h % 2016, k⟩ := rfl

/-- the if-chain on the degree = the documented classes (lcm(2016, 210000) = 1260000 is what makes
"minute = 0 ∧ second = 0" the cycle start) -/
theorem ofDegree_eq (h k : Nat) :
    Rarity.ofDegree ⟨h / 1260000, h % 210000, h % 2016, k⟩ = rarity h k := by
  unfold Rarity.ofDegree rarity
  simp only
  repeat' split
  all_goals first | rfl | (exfalso; omega)

/-- the documented classes, clause by clause (with the precedence of the if-chain) -/
theorem rarity_iff (h k : Nat) :
    (rarity h k = .common ↔ k ≠ 0) ∧
    (rarity h k = .uncommon ↔ k = 0 ∧ h % 2016 ≠ 0 ∧ h % 210000 ≠ 0) ∧
    (rarity h k = .rare ↔ k = 0 ∧ h % 2016 = 0 ∧ h % 210000 ≠ 0) ∧
    (rarity h k = .epic ↔ k = 0 ∧ h % 210000 = 0 ∧ h % 1260000 ≠ 0) ∧
    (rarity h k = .legendary ↔ k = 0 ∧ h % 1260000 = 0 ∧ h ≠ 0) ∧
    (rarity h k = .mythic ↔ k = 0 ∧ h = 0) := by
  unfold rarity
  repeat' split
  all_goals (simp only [reduceCtorEq, false_iff, true_iff]; omega)

end Ord.SatSpec

namespace Ord.Sat
open Ord.Epoch

/-- `Sat::rarity` does not panic below the supply and is the documented class of
(height, offset) -/
theorem rarityO_ok (s : Nat) (hs : s < SUPPLY) :
    Rarity.ofSatO s = .ok (SatSpec.rarity (heightN s) (thirdN s)) := by
  have h3 := degreeO_of s _ _ (heightO_ok s hs) (thirdO_ok s hs)
  rw [rarityO_of s _ h3, SatSpec.ofDegree_eq]

end Ord.Sat
