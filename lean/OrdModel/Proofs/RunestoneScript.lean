import OrdModel.Codec.RunestoneSpec
/-! Helper lemmas for C25: the script layer (instruction iterator, push builder, payload search). -/
namespace Ord.Script

theorem instructions_nil : instructions [] = [] := by
  rw [instructions]; simp [next]

theorem instructions_eq (bs : List UInt8) :
    instructions bs = match next bs with
      | none => []
      | some (it, rest) => it :: instructions rest := by
  rw [instructions]
  split <;> rename_i h <;> simp [h]

/-- `takePush`/`pushData` never produce an opcode item -/
theorem takePush_ne_op (n : Nat) (l : List UInt8) (x : UInt8) (r : List UInt8) :
    takePush n l ≠ (.ok (.op x), r) := by
  unfold takePush; split <;> simp

theorem pushData_ne_op (k : Nat) (l : List UInt8) (x : UInt8) (r : List UInt8) :
    pushData k l ≠ (.ok (.op x), r) := by
  unfold pushData; split
  · exact takePush_ne_op _ _ _ _
  · simp

/-- an opcode item is exactly one byte that is not a push opcode -/
theorem next_op {bs : List UInt8} {x : UInt8} {rest : List UInt8}
    (h : next bs = some (.ok (.op x), rest)) : bs = x :: rest ∧ 0x4e < x.toNat := by
  cases bs with
  | nil => simp [next] at h
  | cons b t =>
    simp only [next] at h
    split at h
    · injection h with h; exact absurd h (takePush_ne_op _ _ _ _)
    · split at h
      · injection h with h; exact absurd h (pushData_ne_op _ _ _ _)
      · split at h
        · injection h with h; exact absurd h (pushData_ne_op _ _ _ _)
        · split at h
          · injection h with h; exact absurd h (pushData_ne_op _ _ _ _)
          · injection h with h; injection h with h1 h2; injection h1 with h1; injection h1 with h1
            subst h1 h2
            refine ⟨rfl, ?_⟩; omega

theorem next_of_op (b : UInt8) (rest : List UInt8) (h : 0x4e < b.toNat) :
    next (b :: rest) = some (.ok (.op b), rest) := by
  simp only [next]
  have h1 : ¬ b.toNat ≤ 0x4b := by omega
  have h2 : ¬ b.toNat = 0x4c := by omega
  have h3 : ¬ b.toNat = 0x4d := by omega
  have h4 : ¬ b.toNat = 0x4e := by omega
  simp [h1, h2, h3, h4]

theorem instructions_op (b : UInt8) (rest : List UInt8) (h : 0x4e < b.toNat) :
    instructions (b :: rest) = .ok (.op b) :: instructions rest := by
  rw [instructions_eq, next_of_op b rest h]

end Ord.Script

namespace Ord.Runestone
open Ord.Script

theorem instructions_cons_inv {bs : List UInt8} {it : Item} {its : List Item}
    (h : instructions bs = it :: its) : ∃ rest, next bs = some (it, rest) ∧ instructions rest = its := by
  rw [instructions_eq] at h
  split at h
  · simp at h
  · rename_i it' rest hn
    injection h with h1 h2
    subst h1
    exact ⟨rest, hn, h2⟩

theorem scriptPayload_magic (rest : List UInt8) :
    scriptPayload (OP_RETURN :: MAGIC_NUMBER :: rest) = some (collectPushes (instructions rest)) := by
  unfold scriptPayload
  rw [instructions_op OP_RETURN _ (by decide), instructions_op MAGIC_NUMBER _ (by decide)]
  simp

theorem startsWithMagic_iff (s : List UInt8) :
    startsWithMagic s = true ↔ ∃ rest, s = OP_RETURN :: MAGIC_NUMBER :: rest := by
  constructor
  · intro h
    match s, h with
    | a :: b :: rest, h =>
      simp only [startsWithMagic, Bool.and_eq_true, beq_iff_eq] at h
      exact ⟨rest, by rw [h.1, h.2]⟩
  · rintro ⟨rest, rfl⟩
    simp [startsWithMagic]

theorem scriptPayload_some {s : List UInt8} {p : Payload} (h : scriptPayload s = some p) :
    ∃ rest, s = OP_RETURN :: MAGIC_NUMBER :: rest := by
  unfold scriptPayload at h
  split at h
  · rename_i a b its hi
    split at h
    · rename_i hab
      obtain ⟨r1, hn1, hi1⟩ := instructions_cons_inv hi
      obtain ⟨r2, hn2, _⟩ := instructions_cons_inv hi1
      have e1 := (next_op hn1).1
      have e2 := (next_op hn2).1
      exact ⟨r2, by rw [e1, e2, hab.1, hab.2]⟩
    · cases h
  · cases h

/-- an output is skipped by `Runestone::payload` exactly when it does not start with the two bytes
`OP_RETURN OP_13` -/
theorem scriptPayload_none_iff (s : List UInt8) :
    scriptPayload s = none ↔ startsWithMagic s = false := by
  constructor
  · intro h
    cases hs : startsWithMagic s with
    | false => rfl
    | true =>
      obtain ⟨rest, rfl⟩ := (startsWithMagic_iff s).1 hs
      rw [scriptPayload_magic] at h; cases h
  · intro h
    cases hp : scriptPayload s with
    | none => rfl
    | some p =>
      obtain ⟨rest, rfl⟩ := scriptPayload_some hp
      simp [startsWithMagic] at h

theorem payload_none_iff (scripts : List (List UInt8)) :
    payload scripts = none ↔ anyMagic scripts = false := by
  induction scripts with
  | nil => simp [payload, anyMagic]
  | cons s ss ih =>
    simp only [payload, anyMagic, List.any_cons, Bool.or_eq_false_iff]
    cases hp : scriptPayload s with
    | none =>
      have := (scriptPayload_none_iff s).1 hp
      simp only [this, true_and]
      exact ih
    | some p =>
      have : startsWithMagic s ≠ false := fun h => by
        rw [(scriptPayload_none_iff s).2 h] at hp; cases hp
      simp [this]

/-- `payload` returns the payload of the first output that starts with `OP_RETURN OP_13` -/
theorem payload_first (pre : List (List UInt8)) (rest : List UInt8) (post : List (List UInt8))
    (hpre : anyMagic pre = false) :
    payload (pre ++ (OP_RETURN :: MAGIC_NUMBER :: rest) :: post)
      = some (collectPushes (instructions rest)) := by
  induction pre with
  | nil => simp [payload, scriptPayload_magic]
  | cons s ss ih =>
    simp only [anyMagic, List.any_cons, Bool.or_eq_false_iff] at hpre
    simp only [List.cons_append, payload, (scriptPayload_none_iff s).2 hpre.1]
    exact ih hpre.2

end Ord.Runestone
