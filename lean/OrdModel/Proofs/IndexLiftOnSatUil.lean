import OrdModel.Proofs.IndexLiftOnSatDefs
/-
C03 lift to reachable states, part 2: one `update_inscription_location` — and the two loops over
it, `applyLocations` (flotsam assigned to outputs) and `applyLost` (flotsam past the coinbase's
outputs, placed at the null outpoint) — preserve the per-entry invariant `LsInv`, provided the
flotsam points at its sat in the input ranges (`FlOK`) and the new satpoint denotes the same sat
as the flotsam's offset in the input ranges (what the FIFO equation gives).
-/
namespace Ord.Index.OnSatLift
open Ord Ord.Index Outcome Sched
open Ord.Index.Insloc hiding den den_nil den_cons den_append

theorem map_ranges_set_pushIns (outs : List UtxoEntry) (v : Nat) (e : UtxoEntry) (seq off : Nat)
    (h : outs[v]? = some e) :
    (outs.set v (pushIns e seq off)).map (·.ranges) = outs.map (·.ranges) :=
  map_ranges_of_base (map_base_set_pushIns outs v e seq off h)

/-- a new inscription that is not unbound gets a sat: `calculate_sat` found one at its offset of
the input ranges (else it hits `unreachable!()`) -/
theorem uil_new_sat (cfg : Cfg) (height time : Nat) (R : Ranges) (fl : Flotsam) (sp : SatPoint) (opr : Bool)
    (tgt : Target) (ls ls' : LocState)
    (h : updateInscriptionLocation cfg height time (some R) fl sp opr tgt ls = .ok ls')
    (hn : isNew fl = true) (hu : flUnbound fl = false) : ∃ s, (den R)[fl.offset]? = some s := by
  rw [updateInscriptionLocation_eq] at h
  split at h
  · simp at h
  · simp at h
  · rename_i u q st ctx hstep
    cases horig : fl.origin with
    | old seq osp => simp [isNew, horig] at hn
    | new cursed fee gallery hidden parents reins unb vind =>
      have hunb : unb = false := by simpa [flUnbound, horig] using hu
      subst hunb
      unfold locStep at hstep
      rw [horig] at hstep
      cases cursed <;> simp only [locStepNew, Bool.false_eq_true, ↓reduceIte] at hstep
      all_goals
        split at hstep
        · simp at hstep
        · split at hstep
          · simp at hstep
          · simp at hstep
          · rename_i sat hsat
            unfold newSat at hsat
            simp only [Bool.false_eq_true, ↓reduceIte] at hsat
            split at hsat
            · rename_i s hs
              exact ⟨s, by rw [← insloc_den_eq]; exact (calculateSat_ok_iff R fl.offset s).1 hs⟩
            · simp at hsat
            · simp at hsat

/-- **one `update_inscription_location` keeps every list on its sats** -/
theorem uil_inv (cfg : Cfg) (height time : Nat) (R : Ranges) (fl : Flotsam) (sp : SatPoint) (opr : Bool)
    (tgt : Target) (ls ls' : LocState) (NR : Ranges)
    (h : updateInscriptionLocation cfg height time (some R) fl sp opr tgt ls = .ok ls')
    (hinv : LsInv NR ls) (hfl : FlOK ls.st.entries R fl)
    (hout : ∀ v e, tgt = .output v → ls.outs[v]? = some e →
      ∀ s, (den R)[fl.offset]? = some s → (den e.ranges)[sp.offset]? = some s)
    (hnull : tgt = .null → ∀ s, (den R)[fl.offset]? = some s → (den NR)[sp.offset]? = some s) :
    LsInv NR ls' ∧ EntExt ls.st.entries ls'.st.entries ∧
      ls'.outs.map (·.ranges) = ls.outs.map (·.ranges) ∧ ls'.ctx.lostSats = ls.ctx.lostSats := by
  have spec := uil_spec cfg height time (some R) fl sp opr tgt ls ls' h
  -- the entry table grows; the entry of the sequence number being pushed has no sat (unbound) or is
  -- bound to the sat at the flotsam's offset of the input ranges
  have key : EntExt ls.st.entries ls'.st.entries ∧
      ∃ entry : InsEntry, ls'.st.entries[flSeq ls.st.entries.length fl]? = some entry ∧
        ((flUnbound fl = true ∧ entry.sat = none) ∨
         (flUnbound fl = false ∧ ∃ s, entry.sat = some s ∧ (den R)[fl.offset]? = some s)) := by
    cases spec.entry with
    | new hnew entry happ hseq hid hsat _ _ _ =>
      have hq : flSeq ls.st.entries.length fl = ls.st.entries.length := by
        cases ho : fl.origin with
        | old s o => simp [isNew, ho] at hnew
        | new => simp [flSeq, ho]
      refine ⟨by rw [happ]; exact EntExt.append _ _, entry, by rw [hq, happ]; simp, ?_⟩
      unfold flSat at hsat
      cases hu : flUnbound fl with
      | true => left; simp only [hu, if_true] at hsat; exact ⟨rfl, hsat⟩
      | false =>
        right
        simp only [hu, Bool.false_eq_true, if_false] at hsat
        obtain ⟨s, hs⟩ := uil_new_sat cfg height time R fl sp opr tgt ls ls' h hnew hu
        exact ⟨rfl, s, by rw [hsat, insloc_den_eq]; exact hs, hs⟩
    | old seq osp ho hlen hother hsame =>
      have hq : flSeq ls.st.entries.length fl = seq := by simp [flSeq, ho]
      have hub : flUnbound fl = false := by simp [flUnbound, ho]
      obtain ⟨e, s, he, hes, hed⟩ := hfl seq osp ho
      obtain ⟨e', he', hsat', _⟩ := hsame e he
      refine ⟨?_, e', by rw [hq]; exact he', Or.inr ⟨hub, s, hsat'.trans hes, hed⟩⟩
      intro i x hx
      by_cases hi : i = seq
      · subst hi
        rw [he] at hx
        obtain rfl := Option.some.inj hx
        exact ⟨e', he', hsat'⟩
      · exact ⟨x, by rw [hother i hi]; exact hx, rfl⟩
  obtain ⟨hext, entry, hent, hsatq⟩ := key
  refine ⟨?_, hext, ?_, spec.ctxLost⟩
  · have hp := spec.placed
    cases hp with
    | unbound hu houts hnull' hunb hcount =>
      refine ⟨?_, ?_, ?_⟩
      · rw [houts]; intro e he; exact (hinv.outs e he).mono hext
      · rw [hnull']; intro ne hne; exact (hinv.nul ne hne).mono hext
      · rw [hunb]
        intro ue hue
        obtain rfl := Option.some.inj hue
        show InsNone _ ((ls.ctx.unboundEntry.getD UtxoEntry.empty).ins ++ [_])
        refine InsNone.push ?_ _ _ ⟨entry, hent, ?_⟩
        · cases hun : ls.ctx.unboundEntry with
          | none => exact InsNone.nil _
          | some u0 => exact (hinv.unb u0 hun).mono hext
        · rcases hsatq with ⟨_, h1⟩ | ⟨h1, _⟩
          · exact h1
          · rw [hu] at h1; cases h1
    | output hu vout e htgt hget houts hnull' hunb hcount =>
      refine ⟨?_, ?_, ?_⟩
      · rw [houts]
        intro e' he'
        rcases List.mem_or_eq_of_mem_set he' with h1 | h1
        · exact (hinv.outs e' h1).mono hext
        · subst h1
          show InsSat _ e.ranges (e.ins ++ [_])
          rcases hsatq with ⟨h1, _⟩ | ⟨_, s, h1, h2⟩
          · rw [hu] at h1; cases h1
          · exact InsSat.push ((hinv.outs e (List.mem_of_getElem? hget)).mono hext) _ _
              ⟨entry, s, hent, h1, hout vout e htgt hget s h2⟩
      · rw [hnull']; intro ne hne; exact (hinv.nul ne hne).mono hext
      · rw [hunb]; intro ue hue; exact (hinv.unb ue hue).mono hext
    | null hu htgt hspecial houts hnull' hunb hcount =>
      refine ⟨?_, ?_, ?_⟩
      · rw [houts]; intro e he; exact (hinv.outs e he).mono hext
      · rw [hnull']
        intro ne hne
        obtain rfl := Option.some.inj hne
        show InsSat _ NR ((ls.ctx.nullEntry.getD UtxoEntry.empty).ins ++ [_])
        rcases hsatq with ⟨h1, _⟩ | ⟨_, s, h1, h2⟩
        · rw [hu] at h1; cases h1
        · refine InsSat.push ?_ _ _ ⟨entry, s, hent, h1, hnull htgt s h2⟩
          cases hun : ls.ctx.nullEntry with
          | none => exact InsSat.nil _ _
          | some n0 => exact (hinv.nul n0 hun).mono hext
      · rw [hunb]; intro ue hue; exact (hinv.unb ue hue).mono hext
  · exact map_ranges_of_base (uil_frame _ _ _ _ _ _ _ _ _ _ h).2.2.1

/-- the flotsam assigned to outputs -/
theorem applyLocations_inv (cfg : Cfg) (height time : Nat) (R NR : Ranges) (OR : List Ranges)
    (locs : List (SatPoint × Flotsam × Bool)) (ls ls' : LocState)
    (h : applyLocations cfg height time (some R) locs ls = .ok ls')
    (hinv : LsInv NR ls) (hor : ls.outs.map (·.ranges) = OR)
    (hfl : ∀ x ∈ locs, FlOK ls.st.entries R x.2.1)
    (hloc : ∀ x ∈ locs, ∀ Rj, OR[x.1.outpoint.vout]? = some Rj →
      ∀ s, (den R)[x.2.1.offset]? = some s → (den Rj)[x.1.offset]? = some s) :
    LsInv NR ls' ∧ EntExt ls.st.entries ls'.st.entries ∧ ls'.outs.map (·.ranges) = OR ∧
      ls'.ctx.lostSats = ls.ctx.lostSats := by
  induction locs generalizing ls with
  | nil =>
    simp only [applyLocations, Outcome.ok.injEq] at h
    subst h
    exact ⟨hinv, EntExt.refl _, hor, rfl⟩
  | cons x rest ih =>
    obtain ⟨sp, fl, opr⟩ := x
    simp only [applyLocations] at h
    split at h
    · simp at h
    · simp at h
    · rename_i ls1 h1
      obtain ⟨i1, x1, r1, l1⟩ := uil_inv cfg height time R fl sp opr (.output sp.outpoint.vout) ls ls1 NR h1 hinv
        (hfl (sp, fl, opr) List.mem_cons_self)
        (by
          intro v e hv hget s hs
          simp only [Target.output.injEq] at hv
          subst hv
          refine hloc (sp, fl, opr) List.mem_cons_self e.ranges ?_ s hs
          rw [← hor, List.getElem?_map, hget]; rfl)
        (by intro hc; cases hc)
      obtain ⟨i2, x2, r2, l2⟩ := ih ls1 h i1 (r1.trans hor)
        (fun y hy => (hfl y (List.mem_cons_of_mem _ hy)).mono x1)
        (fun y hy => hloc y (List.mem_cons_of_mem _ hy))
      exact ⟨i2, x1.trans x2, r2, l2.trans l1⟩

/-- the flotsam past the coinbase's outputs, placed at the null outpoint at
`lostSats + offset − Σ outputs` -/
theorem applyLost_inv (cfg : Cfg) (height time : Nat) (R NR : Ranges) (ov L : Nat)
    (fls : List Flotsam) (ls ls' : LocState)
    (h : applyLost cfg height time (some R) ov fls ls = .ok ls')
    (hinv : LsInv NR ls) (hL : ls.ctx.lostSats = L)
    (hfl : ∀ f ∈ fls, FlOK ls.st.entries R f)
    (hloc : ∀ f ∈ fls, ∀ s, (den R)[f.offset]? = some s → (den NR)[L + f.offset - ov]? = some s) :
    LsInv NR ls' ∧ EntExt ls.st.entries ls'.st.entries ∧
      ls'.outs.map (·.ranges) = ls.outs.map (·.ranges) ∧ ls'.ctx.lostSats = L := by
  induction fls generalizing ls with
  | nil =>
    simp only [applyLost, Outcome.ok.injEq] at h
    subst h
    exact ⟨hinv, EntExt.refl _, rfl, hL⟩
  | cons fl rest ih =>
    simp only [applyLost] at h
    split at h
    · simp at h
    · simp at h
    · rename_i ls1 h1
      obtain ⟨i1, x1, r1, l1⟩ := uil_inv cfg height time R fl ⟨OutPoint.null, ls.ctx.lostSats + fl.offset - ov⟩ false
        .null ls ls1 NR h1 hinv (hfl fl List.mem_cons_self)
        (by intro v e hc; cases hc)
        (by intro _ s hs; rw [hL]; exact hloc fl List.mem_cons_self s hs)
      obtain ⟨i2, x2, r2, l2⟩ := ih ls1 h i1 (l1.trans hL)
        (fun y hy => (hfl y (List.mem_cons_of_mem _ hy)).mono x1)
        (fun y hy => hloc y (List.mem_cons_of_mem _ hy))
      exact ⟨i2, x1.trans x2, r2.trans r1, l2⟩

end Ord.Index.OnSatLift
