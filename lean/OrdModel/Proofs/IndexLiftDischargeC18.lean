import OrdModel.Proofs.ViewsLocated
import OrdModel.Proofs.IndexLiftInsChain
import OrdModel.Proofs.IndexLiftInsValid
import OrdModel.Proofs.IndexLiftRuneSupplyChain
import OrdModel.Proofs.IndexMiscNoPanicLift
/-
C18 on reachable states: the hypotheses of the output-view theorems (`Located`, existence of the
rune entry behind every stored balance row) discharged from the chain-level invariants of C04
(`InsLift.run_chainInv`) and C08 (`RuneLift.run_supply`).
-/
namespace Ord.Server
open Ord Ord.Index

/-- `mapM` into `Option` succeeds when every element maps -/
theorem mapM_isSome_of_forall {α β : Type} (f : α → Option β) :
    ∀ (l : List α), (∀ a ∈ l, ∃ b, f a = some b) → ∃ r, l.mapM f = some r
  | [], _ => ⟨[], rfl⟩
  | a :: t, h => by
    obtain ⟨b, hb⟩ := h a List.mem_cons_self
    obtain ⟨r, hr⟩ := mapM_isSome_of_forall f t (fun x hx => h x (List.mem_cons_of_mem _ hx))
    exact ⟨b :: r, by rw [List.mapM_cons, hb, hr]; rfl⟩

theorem exists_none_of_mapM_none {α β : Type} (f : α → Option β) (l : List α) (h : l.mapM f = none) :
    ∃ a ∈ l, f a = none := by
  apply Classical.byContradiction
  intro hn
  obtain ⟨r, hr⟩ := mapM_isSome_of_forall f l (fun a ha => by
    cases hf : f a with
    | none => exact absurd ⟨a, ha, hf⟩ hn
    | some b => exact ⟨b, rfl⟩)
  rw [hr] at h; cases h

/-- under C04's invariant every listed sequence number has an entry, so the inscription part of
an output view never hits its `unwrap` -/
theorem insOnOutput_isSome (cfg : Cfg) (st : State) (h : Insloc.InsPartitioned cfg st) (op : OutPoint) :
    ∃ l, insOnOutput st op = some l := by
  unfold insOnOutput
  cases he : AL.get st.utxo op with
  | none => exact ⟨[], rfl⟩
  | some e =>
    simp only
    apply mapM_isSome_of_forall
    rintro ⟨s, off⟩ hm
    rw [(List.mergeSort_perm _ _).mem_iff] at hm
    have hs : s ∈ Insloc.allSeqs st.utxo :=
      (Ord.Index.InsLift.mem_allSeqs _ _).2 ⟨op, off, (Ord.Index.Sched.mem_allIns _ _ _ _).2 ⟨e, AL.mem_of_get he, hm⟩⟩
    have hlt : s < st.entries.length := by
      have := h.perm.mem_iff.1 hs
      simpa using this
    have hx : ∃ x, st.entries[s]? = some x := ⟨st.entries[s], by simp [hlt]⟩
    obtain ⟨x, hx⟩ := hx
    exact ⟨(⟨op, off⟩, x.id), by simp [idOfSeq, hx]⟩

/-- when every stored balance row names an existing rune, the rune part of an output view never
hits its `unwrap` -/
theorem runeBalances_isSome (st : State) (op : OutPoint)
    (h : ∀ rows, AL.get st.balances op = some rows → ∀ id b, (id, b) ∈ rows → AL.get st.runeEntries id ≠ none) :
    ∃ ps, runeBalances st op = some ps := by
  unfold runeBalances
  cases hb : AL.get st.balances op with
  | none => exact ⟨[], rfl⟩
  | some rows =>
    simp only
    split
    · exact ⟨_, rfl⟩
    · rename_i hnone
      exfalso
      obtain ⟨⟨id, b⟩, hm, hf⟩ := exists_none_of_mapM_none _ rows hnone
      have := h rows hb id b hm
      cases hg : AL.get st.runeEntries id with
      | none => exact absurd hg this
      | some e => simp [hg] at hf

end Ord.Server
