import OrdModel.Proofs.EnvelopeSpec
import OrdModel.Proofs.EnvelopeBuild
/-! Parsing the payload ord wrote for an inscription gives that inscription back. -/
namespace Ord.Envelope
open Ord Ord.ScriptW5

/-! ### pair lists -/

/-- `key value key value …` with no empty key -/
def pairsOK : List Bytes → Prop
  | [] => True
  | [_] => False
  | k :: _ :: rest => k ≠ [] ∧ pairsOK rest

theorem pairsOK_append : ∀ (n : Nat) (l1 l2 : List Bytes), l1.length ≤ n → pairsOK l1 → pairsOK l2 →
    pairsOK (l1 ++ l2) := by
  intro n
  induction n with
  | zero =>
    intro l1 l2 h _ h2
    have : l1 = [] := List.length_eq_zero_iff.mp (by omega)
    subst this; simpa using h2
  | succ n ih =>
    intro l1 l2 h h1 h2
    match l1, h1 with
    | [], _ => simpa using h2
    | [_], h1 => exact absurd h1 (by simp [pairsOK])
    | k :: v :: rest, h1 =>
      simp only [List.length_cons] at h
      simp only [pairsOK, List.cons_append] at h1 ⊢
      exact ⟨h1.1, ih rest l2 (by omega) h1.2 h2⟩

theorem pairsOK_pairPayload (t : UInt8) (vs : List Bytes) : pairsOK (pairPayload t vs) := by
  induction vs with
  | nil => simp [pairPayload, pairsOK]
  | cons v vs ih =>
    simp only [pairPayload, List.flatMap_cons, List.cons_append, List.nil_append, pairsOK] at ih ⊢
    exact ⟨by simp, ih⟩

theorem pairsOK_fields (gs : List (UInt8 × List Bytes)) : pairsOK (fieldsPayload gs) := by
  induction gs with
  | nil => simp [fieldsPayload, pairsOK]
  | cons g gs ih =>
    simp only [fieldsPayload, List.flatMap_cons] at ih ⊢
    exact pairsOK_append _ _ _ (Nat.le_refl _) (pairsOK_pairPayload _ _) ih

theorem pairs_walk : ∀ (n : Nat) (l tail : List Bytes) (i : Nat) (k : Bytes), l.length ≤ n →
    pairsOK l → i % 2 = 0 →
    bodyPos i (l ++ tail) = bodyPos (i + l.length) tail ∧ l.length % 2 = 0 ∧
    F (l ++ tail) k = F l k ++ F tail k := by
  intro n
  induction n with
  | zero =>
    intro l tail i k h _ _
    have : l = [] := List.length_eq_zero_iff.mp (by omega)
    subst this; simp [F]
  | succ n ih =>
    intro l tail i k h hl hi
    match l, hl with
    | [], _ => simp [F]
    | [_], hl => exact absurd hl (by simp [pairsOK])
    | k' :: v :: rest, hl =>
      simp only [List.length_cons] at h
      simp only [pairsOK] at hl
      obtain ⟨h1, h2, h3⟩ := ih rest tail (i + 2) k (by omega) hl.2 (by omega)
      refine ⟨?_, by simp only [List.length_cons]; omega, ?_⟩
      · simp only [List.cons_append, bodyPos, hl.1, and_false, if_false]
        have : ¬ ((i + 1) % 2 = 0 ∧ v = []) := by omega
        simp only [this, if_false]
        rw [show i + 1 + 1 = i + 2 by omega, h1, List.length_cons, List.length_cons]
        congr 1; omega
      · simp only [List.cons_append, F, h3, List.append_assoc]

theorem F_pairPayload (t : UInt8) (vs : List Bytes) (k : Bytes) :
    F (pairPayload t vs) k = if [t] = k then vs else [] := by
  induction vs with
  | nil => simp [pairPayload, F]
  | cons v vs ih =>
    simp only [pairPayload, List.flatMap_cons, List.cons_append, List.nil_append, F] at ih ⊢
    rw [ih]
    split <;> simp

theorem F_fields (gs : List (UInt8 × List Bytes)) (k : Bytes) :
    F (fieldsPayload gs) k = gs.flatMap (fun g => if [g.1] = k then g.2 else []) := by
  induction gs with
  | nil => simp [fieldsPayload, F]
  | cons g gs ih =>
    simp only [fieldsPayload, List.flatMap_cons] at ih ⊢
    rw [(pairs_walk _ _ _ 0 k (Nat.le_refl _) (pairsOK_pairPayload g.1 g.2) rfl).2.2,
      F_pairPayload, ih]

/-! ### where the body starts in ord's own payload -/

theorem bodyPos_payloadOf (i : Inscription) :
    bodyPos 0 (payloadOf i) =
      match i.body with
      | none => none
      | some _ => some (fieldsPayload (groups i)).length := by
  obtain ⟨h1, h2, _⟩ := pairs_walk _ (fieldsPayload (groups i)) (bodyPayload i.body) 0 []
    (Nat.le_refl _) (pairsOK_fields _) rfl
  simp only [payloadOf]
  rw [h1]
  cases i.body with
  | none => simp [bodyPayload, bodyPos]
  | some b =>
    simp only [bodyPayload, bodyPos, Nat.zero_add]
    simp [h2]

theorem fieldPart_payloadOf (i : Inscription) :
    fieldPart (payloadOf i) = fieldsPayload (groups i) := by
  unfold fieldPart
  rw [bodyPos_payloadOf]
  cases hb : i.body with
  | none => simp [payloadOf, bodyPayload, hb]
  | some b => simp [payloadOf]

theorem bodyOf_payloadOf (i : Inscription) : bodyOf (payloadOf i) = i.body := by
  unfold bodyOf
  rw [bodyPos_payloadOf]
  cases hb : i.body with
  | none => simp
  | some b =>
    simp only [Option.map_some, payloadOf, hb, bodyPayload]
    rw [List.drop_append, List.drop_of_length_le (by omega)]
    simp [chunks_flatten]

/-! ### the values ord writes under each tag, read back -/

theorem tagValues_plain (t : UInt8) (hc : chunked t = false) (o : Option Bytes) :
    tagValues t o = o.toList := by
  cases o <;> simp [tagValues, hc]

theorem chunks_eq_nil_iff (l : Bytes) : chunks maxScriptElementSize l = [] ↔ l = [] := by
  constructor
  · intro h
    have := chunks_flatten l
    rw [h] at this
    simpa using this.symm
  · intro h; subst h; exact chunks_nil _

theorem joinOpt_tagValues (t : UInt8) (hc : chunked t = true) (o : Option Bytes) :
    joinOpt (tagValues t o) = normChunked o := by
  cases o with
  | none => simp [tagValues, joinOpt, normChunked]
  | some v =>
    simp only [tagValues, hc, if_true, joinOpt, chunks_eq_nil_iff, chunks_flatten]
    cases v <;> simp [normChunked]

theorem chunks_length_gt_iff (o : Option Bytes) (t : UInt8) (hc : chunked t = true) :
    (tagValues t o).length > 1 ↔ optLen o > 520 := by
  cases o with
  | none => simp [tagValues, optLen]
  | some v =>
    simp only [tagValues, hc, if_true, optLen]
    constructor
    · intro h
      by_cases hv : v.length ≤ 520
      · by_cases h0 : v = []
        · subst h0; simp [chunks_nil] at h
        · rw [chunks_small v h0 hv] at h; simp at h
      · omega
    · intro h
      have := chunks_large v h
      omega

/-- the key/value reading of ord's own field pushes -/
def written (i : Inscription) (k : Bytes) : List Bytes :=
  (groups i).flatMap (fun g => if [g.1] = k then g.2 else [])

theorem written_eq (i : Inscription) (k : Bytes) :
    written i k =
      if [tagContentType] = k then tagValues tagContentType i.contentType
      else if [tagContentEncoding] = k then tagValues tagContentEncoding i.contentEncoding
      else if [tagMetaprotocol] = k then tagValues tagMetaprotocol i.metaprotocol
      else if [tagParent] = k then i.parents
      else if [tagDelegate] = k then tagValues tagDelegate i.delegate
      else if [tagPointer] = k then tagValues tagPointer i.pointer
      else if [tagMetadata] = k then tagValues tagMetadata i.metadata
      else if [tagRune] = k then tagValues tagRune i.rune
      else if [tagProperties] = k then tagValues tagProperties i.properties
      else if [tagPropertyEncoding] = k then tagValues tagPropertyEncoding i.propertyEncoding
      else [] := by
  simp only [written, groups, List.flatMap_cons, List.flatMap_nil, List.append_nil]
  by_cases h1 : [tagContentType] = k
  · subst h1; simp [tagContentType, tagContentEncoding, tagMetaprotocol, tagParent, tagDelegate, tagPointer, tagMetadata, tagRune, tagProperties, tagPropertyEncoding]
  by_cases h2 : [tagContentEncoding] = k
  · subst h2; simp [tagContentType, tagContentEncoding, tagMetaprotocol, tagParent, tagDelegate, tagPointer, tagMetadata, tagRune, tagProperties, tagPropertyEncoding]
  by_cases h3 : [tagMetaprotocol] = k
  · subst h3; simp [tagContentType, tagContentEncoding, tagMetaprotocol, tagParent, tagDelegate, tagPointer, tagMetadata, tagRune, tagProperties, tagPropertyEncoding]
  by_cases h4 : [tagParent] = k
  · subst h4; simp [tagContentType, tagContentEncoding, tagMetaprotocol, tagParent, tagDelegate, tagPointer, tagMetadata, tagRune, tagProperties, tagPropertyEncoding]
  by_cases h5 : [tagDelegate] = k
  · subst h5; simp [tagContentType, tagContentEncoding, tagMetaprotocol, tagParent, tagDelegate, tagPointer, tagMetadata, tagRune, tagProperties, tagPropertyEncoding]
  by_cases h6 : [tagPointer] = k
  · subst h6; simp [tagContentType, tagContentEncoding, tagMetaprotocol, tagParent, tagDelegate, tagPointer, tagMetadata, tagRune, tagProperties, tagPropertyEncoding]
  by_cases h7 : [tagMetadata] = k
  · subst h7; simp [tagContentType, tagContentEncoding, tagMetaprotocol, tagParent, tagDelegate, tagPointer, tagMetadata, tagRune, tagProperties, tagPropertyEncoding]
  by_cases h8 : [tagRune] = k
  · subst h8; simp [tagContentType, tagContentEncoding, tagMetaprotocol, tagParent, tagDelegate, tagPointer, tagMetadata, tagRune, tagProperties, tagPropertyEncoding]
  by_cases h9 : [tagProperties] = k
  · subst h9; simp [tagContentType, tagContentEncoding, tagMetaprotocol, tagParent, tagDelegate, tagPointer, tagMetadata, tagRune, tagProperties, tagPropertyEncoding]
  by_cases h10 : [tagPropertyEncoding] = k
  · subst h10; simp [tagContentType, tagContentEncoding, tagMetaprotocol, tagParent, tagDelegate, tagPointer, tagMetadata, tagRune, tagProperties, tagPropertyEncoding]
  · simp [h1, h2, h3, h4, h5, h6, h7, h8, h9, h10]

theorem written_contentType (i : Inscription) : written i [tagContentType] = tagValues tagContentType i.contentType := by
  rw [written_eq]; simp [tagContentType, tagContentEncoding, tagMetaprotocol, tagParent, tagDelegate, tagPointer, tagMetadata, tagRune, tagProperties, tagPropertyEncoding]

theorem written_contentEncoding (i : Inscription) : written i [tagContentEncoding] = tagValues tagContentEncoding i.contentEncoding := by
  rw [written_eq]; simp [tagContentType, tagContentEncoding, tagMetaprotocol, tagParent, tagDelegate, tagPointer, tagMetadata, tagRune, tagProperties, tagPropertyEncoding]

theorem written_metaprotocol (i : Inscription) : written i [tagMetaprotocol] = tagValues tagMetaprotocol i.metaprotocol := by
  rw [written_eq]; simp [tagContentType, tagContentEncoding, tagMetaprotocol, tagParent, tagDelegate, tagPointer, tagMetadata, tagRune, tagProperties, tagPropertyEncoding]

theorem written_parents (i : Inscription) : written i [tagParent] = i.parents := by
  rw [written_eq]; simp [tagContentType, tagContentEncoding, tagMetaprotocol, tagParent, tagDelegate, tagPointer, tagMetadata, tagRune, tagProperties, tagPropertyEncoding]

theorem written_delegate (i : Inscription) : written i [tagDelegate] = tagValues tagDelegate i.delegate := by
  rw [written_eq]; simp [tagContentType, tagContentEncoding, tagMetaprotocol, tagParent, tagDelegate, tagPointer, tagMetadata, tagRune, tagProperties, tagPropertyEncoding]

theorem written_pointer (i : Inscription) : written i [tagPointer] = tagValues tagPointer i.pointer := by
  rw [written_eq]; simp [tagContentType, tagContentEncoding, tagMetaprotocol, tagParent, tagDelegate, tagPointer, tagMetadata, tagRune, tagProperties, tagPropertyEncoding]

theorem written_metadata (i : Inscription) : written i [tagMetadata] = tagValues tagMetadata i.metadata := by
  rw [written_eq]; simp [tagContentType, tagContentEncoding, tagMetaprotocol, tagParent, tagDelegate, tagPointer, tagMetadata, tagRune, tagProperties, tagPropertyEncoding]

theorem written_rune (i : Inscription) : written i [tagRune] = tagValues tagRune i.rune := by
  rw [written_eq]; simp [tagContentType, tagContentEncoding, tagMetaprotocol, tagParent, tagDelegate, tagPointer, tagMetadata, tagRune, tagProperties, tagPropertyEncoding]

theorem written_properties (i : Inscription) : written i [tagProperties] = tagValues tagProperties i.properties := by
  rw [written_eq]; simp [tagContentType, tagContentEncoding, tagMetaprotocol, tagParent, tagDelegate, tagPointer, tagMetadata, tagRune, tagProperties, tagPropertyEncoding]

theorem written_propertyEncoding (i : Inscription) : written i [tagPropertyEncoding] = tagValues tagPropertyEncoding i.propertyEncoding := by
  rw [written_eq]; simp [tagContentType, tagContentEncoding, tagMetaprotocol, tagParent, tagDelegate, tagPointer, tagMetadata, tagRune, tagProperties, tagPropertyEncoding]

theorem toList_tail (o : Option Bytes) : o.toList.tail = [] := by cases o <;> simp
theorem toList_head (o : Option Bytes) : o.toList.head? = o := by cases o <;> simp
theorem toList_length (o : Option Bytes) : o.toList.length ≤ 1 := by cases o <;> simp

/-- after the ten takes nothing is left of what ord wrote -/
theorem remaining_written (i : Inscription) (k : Bytes) : remaining (written i) k = [] := by
  unfold remaining
  split
  · rw [written_rune, tagValues_plain _ (by decide), toList_tail]
  split
  · rw [written_propertyEncoding, tagValues_plain _ (by decide), toList_tail]
  split
  · rfl
  split
  · rw [written_pointer, tagValues_plain _ (by decide), toList_tail]
  split
  · rfl
  split
  · rw [written_metaprotocol, tagValues_plain _ (by decide), toList_tail]
  split
  · rfl
  split
  · rw [written_delegate, tagValues_plain _ (by decide), toList_tail]
  split
  · rw [written_contentType, tagValues_plain _ (by decide), toList_tail]
  split
  · rw [written_contentEncoding, tagValues_plain _ (by decide), toList_tail]
  · rename_i h1 h2 h3 h4 h5 h6 h7 h8 h9 h10
    have e : ∀ t : UInt8, ¬ k = [t] → ¬ (([t] : Bytes) = k) := fun t h e => h e.symm
    rw [written_eq]
    simp [e _ h1, e _ h2, e _ h3, e _ h4, e _ h5, e _ h6, e _ h7, e _ h8, e _ h9, e _ h10]

/-- some key carries more than one value exactly in the cases of `dupRule` -/
theorem dup_written (i : Inscription) :
    (∃ k, written i k ≠ [] ∧ (written i k).length > 1) ↔ dupRule i = true := by
  simp only [dupRule, Bool.or_eq_true, decide_eq_true_eq]
  constructor
  · rintro ⟨k, _, h⟩
    rw [written_eq] at h
    split at h
    · rw [tagValues_plain _ (by decide)] at h; have := toList_length i.contentType; omega
    split at h
    · rw [tagValues_plain _ (by decide)] at h; have := toList_length i.contentEncoding; omega
    split at h
    · rw [tagValues_plain _ (by decide)] at h; have := toList_length i.metaprotocol; omega
    split at h
    · exact Or.inl (Or.inl h)
    split at h
    · rw [tagValues_plain _ (by decide)] at h; have := toList_length i.delegate; omega
    split at h
    · rw [tagValues_plain _ (by decide)] at h; have := toList_length i.pointer; omega
    split at h
    · exact Or.inl (Or.inr ((chunks_length_gt_iff _ _ (by decide)).mp h))
    split at h
    · rw [tagValues_plain _ (by decide)] at h; have := toList_length i.rune; omega
    split at h
    · exact Or.inr ((chunks_length_gt_iff _ _ (by decide)).mp h)
    split at h
    · rw [tagValues_plain _ (by decide)] at h; have := toList_length i.propertyEncoding; omega
    · simp at h
  · rintro ((h | h) | h)
    · refine ⟨[tagParent], ?_, ?_⟩ <;> rw [written_parents]
      · intro e; rw [e] at h; simp at h
      · exact h
    · have := (chunks_length_gt_iff i.metadata tagMetadata (by decide)).mpr h
      refine ⟨[tagMetadata], ?_, ?_⟩ <;> rw [written_metadata]
      · intro e; rw [e] at this; simp at this
      · exact this
    · have := (chunks_length_gt_iff i.properties tagProperties (by decide)).mpr h
      refine ⟨[tagProperties], ?_, ?_⟩ <;> rw [written_properties]
      · intro e; rw [e] at this; simp at this
      · exact this

/-- **Parse of ord's own payload**: all data fields come back, with the flag rule of
`expectedPayload`. -/
theorem parse_payloadOf (i : Inscription) (input offset : Nat) (pushnum stutter : Bool) :
    parse { input, offset, payload := payloadOf i, pushnum, stutter } =
      .ok { input, offset, payload := expectedPayload i, pushnum, stutter } := by
  rw [parse_eq]
  simp only [fieldPart_payloadOf, bodyOf_payloadOf]
  obtain ⟨hwf, hv, hinc⟩ := collectFields_spec _ (fieldsPayload (groups i)) [] (Nat.le_refl _) WF_nil
  have hv' : ∀ k, vals (collectFields (fieldsPayload (groups i)) []).1 k = written i k := by
    intro k; rw [hv k, F_fields]; simp [vals, FieldMap.get, written]
  obtain ⟨a1, a2, a3, a4, a5, a6, a7, a8, a9, a10, wrest, vrest⟩ := takeAll_spec _ hwf
  have heven := (pairs_walk _ (fieldsPayload (groups i)) [] 0 [] (Nat.le_refl _) (pairsOK_fields _) rfl).2.1
  have hdup : (collectFields (fieldsPayload (groups i)) []).1.any (fun kv => decide (kv.2.length > 1)) =
      dupRule i := by
    rw [Bool.eq_iff_iff, any_iff _ hwf, ← dup_written]
    simp only [hv', decide_eq_true_eq]
  have huneven : (takeAll (collectFields (fieldsPayload (groups i)) []).1).rest.any
      (fun kv => evenKey kv.1) = false := by
    rw [Bool.eq_false_iff]
    intro h
    rw [any_iff _ wrest] at h
    obtain ⟨k, hne, _⟩ := h
    apply hne
    rw [vrest k]
    have : vals (collectFields (fieldsPayload (groups i)) []).1 = written i := funext hv'
    rw [this]
    exact remaining_written i k
  simp only [hv'] at a1 a2 a3 a4 a5 a6 a7 a8 a9 a10
  simp only [a1, a2, a3, a4, a5, a6, a7, a8, a9, a10, hdup, huneven, hinc, heven,
    written_contentEncoding, written_contentType, written_delegate, written_metadata,
    written_metaprotocol, written_parents, written_pointer, written_properties,
    written_propertyEncoding, written_rune,
    tagValues_plain tagContentEncoding (by decide), tagValues_plain tagContentType (by decide),
    tagValues_plain tagDelegate (by decide), tagValues_plain tagMetaprotocol (by decide),
    tagValues_plain tagPointer (by decide), tagValues_plain tagPropertyEncoding (by decide),
    tagValues_plain tagRune (by decide), toList_head,
    joinOpt_tagValues tagMetadata (by decide), joinOpt_tagValues tagProperties (by decide)]
  simp [expectedPayload]

theorem parseAll_expectedRaw (input : Nat) : ∀ (is : List Inscription) (k : Nat),
    parseAll (expectedRaw input k is) = .ok (expectedEnvelopes input k is) := by
  intro is
  induction is with
  | nil => intro k; simp [expectedRaw, expectedEnvelopes, parseAll]
  | cons i is ih =>
    intro k
    simp only [expectedRaw, expectedEnvelopes, parseAll, parse_payloadOf, ih (k + 1)]

end Ord.Envelope
