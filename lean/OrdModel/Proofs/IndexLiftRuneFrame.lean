import OrdModel.Proofs.IndexRunemintChain
import OrdModel.Proofs.IndexSchedTx
/-
Rune lift, part 1: the sat / address / inscription pass of a block (`indexUtxoEntries`) is a
frame for ALL seven rune tables and counters (`Runemint.RuneFrame`: `runeEntries`, `rune2id`,
`runes`, `reservedRunes`, `txid2rune`, `balances`, `seq2rune`) — so `Runemint.UtxoFrame cfg`
holds for every configuration and the `FrameOK` hypothesis of the C10/C11 chain theorems can be
discharged.

What the pass DOES write (and the rune pass later reads): `id2seq` (`createRuneEntry` looks up
`⟨txid, 0⟩` there to fill `seq2rune`), `entries`, `txid2tx`, the sat / utxo / script tables and
the inscription counters.  None of them is one of the seven fields above; `seq2rune` itself is
written only by `createRuneEntry`.

The decompositions of the model functions are the ones of the other streams, imported, not
copied: `uilStep` / `uilFinish` / `uil_eq` (Proofs/IndexMiscReplayFrame.lean, C37), `uilStep_new`,
`nsA/nsB/nsC`, `indexInscriptions_eq`, `iiStart`, `iiFinish` (Proofs/IndexSchedFrameIns.lean, C12),
`linkParents_frame` (Proofs/IndexRunemintFrame.lean, C10/C11).
-/
namespace Ord.Index.RuneLift
open Ord Ord.Index Ord.Index.Sched Outcome
open Ord.Index.Runemint (RuneFrame UtxoFrame FrameOK)

local macro "frame_rfl" : tactic => `(tactic| exact ⟨rfl, rfl, rfl, rfl, rfl, rfl, rfl⟩)

theorem frame_refl (st : State) : RuneFrame st st := RuneFrame.refl st

/-! ### `updateInscriptionLocation` -/

theorem nsA_frame (cursed : Bool) (st : State) : RuneFrame st (nsA cursed st) := by
  cases cursed <;> frame_rfl

theorem nsB_frame (sat : Option Nat) (seq : Nat) (st : State) : RuneFrame st (nsB sat seq st) := by
  cases sat <;> frame_rfl

theorem nsC_frame (gallery hidden : Bool) (entry : InsEntry) (id : InscriptionId) (seq hc : Nat) (st : State) :
    RuneFrame st (nsC gallery hidden entry id seq hc st).1 := by
  unfold nsC
  cases gallery <;> cases hidden <;> by_cases h : hc = 100 <;> simp [h] <;> frame_rfl

theorem uilStep_frame (height time : Nat) (ir : Option (List (Nat × Nat))) (fl : Flotsam) (sp : SatPoint)
    (opr : Bool) (ls : LocState) (r : Bool × Nat × State × InsCtx)
    (hr : uilStep height time ir fl sp opr ls = .ok r) : RuneFrame ls.st r.2.2.1 := by
  obtain ⟨id, offset, origin⟩ := fl
  cases origin with
  | old seq oldSp =>
    simp only [uilStep] at hr
    cases he : ls.st.entries[seq]? with
    | none =>
      rw [he] at hr
      cases opr with
      | true => simp at hr
      | false =>
        simp only [Bool.false_eq_true, if_false, Outcome.ok.injEq] at hr
        subst hr; frame_rfl
    | some e =>
      rw [he] at hr
      simp only [Outcome.ok.injEq] at hr
      subst hr
      cases opr <;> frame_rfl
  | new cursed fee gallery hidden parents reinscription unbound vindicated =>
    rw [uilStep_new] at hr
    by_cases hlim : (if cursed then ls.st.cursed else ls.st.blessed) ≥ 2147483648
    · rw [if_pos hlim] at hr; simp at hr
    · rw [if_neg hlim] at hr
      cases hs : nsSat ir unbound offset with
      | panic s => rw [hs] at hr; simp at hr
      | err e => rw [hs] at hr; simp at hr
      | ok sat =>
        rw [hs] at hr
        simp only at hr
        cases hl : linkParents (nsA cursed ls.st).entries.length parents
            (nsB sat (nsA cursed ls.st).entries.length (nsA cursed ls.st)) [] [] with
        | panic s => rw [hl] at hr; simp at hr
        | err e => rw [hl] at hr; simp at hr
        | ok q =>
          obtain ⟨st3, pids, pseqs⟩ := q
          rw [hl] at hr
          simp only [Outcome.ok.injEq] at hr
          subst hr
          have f1 : RuneFrame ls.st (nsB sat (nsA cursed ls.st).entries.length (nsA cursed ls.st)) :=
            (nsA_frame cursed ls.st).trans (nsB_frame sat _ _)
          have f2 := Runemint.linkParents_frame _ _ _ _ _ _ _ _ hl
          exact (f1.trans f2).trans (nsC_frame _ _ _ _ _ _ _)

theorem uilFinish_frame (sp : SatPoint) (tgt : Target) (outs : List UtxoEntry) (u : Bool) (seq : Nat)
    (st : State) (ctx : InsCtx) (ls' : LocState) (h : uilFinish sp tgt outs (u, seq, st, ctx) = .ok ls') :
    RuneFrame st ls'.st := by
  unfold uilFinish at h
  dsimp only at h
  split at h
  · cases h; frame_rfl
  · split at h
    · split at h
      · cases h
      · cases h; frame_rfl
    · split at h
      · cases h
      · cases h; frame_rfl

theorem uil_frame (cfg : Cfg) (height time : Nat) (ir : Option (List (Nat × Nat))) (fl : Flotsam) (sp : SatPoint)
    (opr : Bool) (target : Target) (ls ls' : LocState)
    (h : updateInscriptionLocation cfg height time ir fl sp opr target ls = .ok ls') :
    RuneFrame ls.st ls'.st := by
  rw [Ord.Index.uil_eq] at h
  split at h
  · cases h
  · cases h
  · rename_i u seq st ctx hs
    exact (uilStep_frame _ _ _ _ _ _ _ _ hs).trans (uilFinish_frame _ _ _ _ _ _ _ _ h)

theorem applyLocations_frame (cfg : Cfg) (height time : Nat) (ir : Option (List (Nat × Nat)))
    (locs : List (SatPoint × Flotsam × Bool)) (ls ls' : LocState)
    (h : applyLocations cfg height time ir locs ls = .ok ls') : RuneFrame ls.st ls'.st := by
  induction locs generalizing ls with
  | nil => simp only [applyLocations, Outcome.ok.injEq] at h; subst h; exact frame_refl _
  | cons p rest ih =>
    obtain ⟨sp, fl, opr⟩ := p
    simp only [applyLocations] at h
    split at h
    · simp at h
    · simp at h
    · rename_i ls1 h1
      exact (uil_frame _ _ _ _ _ _ _ _ _ _ h1).trans (ih _ h)

theorem applyLost_frame (cfg : Cfg) (height time : Nat) (ir : Option (List (Nat × Nat))) (ov : Nat)
    (fls : List Flotsam) (ls ls' : LocState)
    (h : applyLost cfg height time ir ov fls ls = .ok ls') : RuneFrame ls.st ls'.st := by
  induction fls generalizing ls with
  | nil => simp only [applyLost, Outcome.ok.injEq] at h; subst h; exact frame_refl _
  | cons fl rest ih =>
    simp only [applyLost] at h
    split at h
    · simp at h
    · simp at h
    · rename_i ls1 h1
      exact (uil_frame _ _ _ _ _ _ _ _ _ _ h1).trans (ih _ h)

/-! ### `indexInscriptions` -/

theorem iiStart_frame (cfg : Cfg) (tx : Tx) (ls : LocState) : RuneFrame ls.st (iiStart cfg tx ls).st := by
  unfold iiStart
  cases (cfg.indexTransactions && !tx.envelopes.isEmpty) <;> cases iiCoinbase tx <;> frame_rfl

theorem iiFinish_frame (cfg : Cfg) (height time : Nat) (ir : Option (List (Nat × Nat))) (isCoinbase : Bool)
    (totalIn outputValue : Nat) (rest : List Flotsam) (ls2 ls' : LocState)
    (h : iiFinish cfg height time ir isCoinbase totalIn outputValue rest ls2 = .ok ls') :
    RuneFrame ls2.st ls'.st := by
  cases isCoinbase with
  | true =>
    simp only [iiFinish, if_true] at h
    cases hl : applyLost cfg height time ir outputValue rest ls2 with
    | panic s => rw [hl] at h; simp at h
    | err e => rw [hl] at h; simp at h
    | ok ls3 =>
      rw [hl] at h
      simp only at h
      split at h
      · simp at h
      · simp only [Outcome.ok.injEq] at h
        subst h
        exact (applyLost_frame _ _ _ _ _ _ _ _ hl : RuneFrame ls2.st ls3.st)
  | false =>
    simp only [iiFinish, Bool.false_eq_true, if_false] at h
    split at h
    · simp at h
    · simp only [Outcome.ok.injEq] at h
      subst h
      exact frame_refl _

theorem indexInscriptions_frame (cfg : Cfg) (height time : Nat) (tx : Tx) (inputs : List (TxIn × UtxoEntry))
    (ir : Option (List (Nat × Nat))) (ls ls' : LocState)
    (h : indexInscriptions cfg height time tx inputs ir ls = .ok ls') : RuneFrame ls.st ls'.st := by
  rw [indexInscriptions_eq] at h
  split at h
  · simp at h
  · simp at h
  · rename_i sc hsc
    split at h
    · simp at h
    · split at h
      · simp at h
      · split at h
        rename_i locs rest ov hao
        split at h
        · simp at h
        · simp at h
        · rename_i ls2 h2
          exact ((iiStart_frame cfg tx ls).trans (applyLocations_frame _ _ _ _ _ _ _ h2)).trans
            (iiFinish_frame _ _ _ _ _ _ _ _ _ _ h)

/-! ### `indexTx`, `flushCache`, `indexUtxoEntries` -/

theorem takeInputEntries_frame (cfg : Cfg) (ins : List TxIn) (bc : BlockCtx) (acc : List (TxIn × UtxoEntry))
    (r : BlockCtx × List (TxIn × UtxoEntry)) (h : takeInputEntries cfg ins bc acc = .ok r) :
    RuneFrame bc.st r.1.st := by
  induction ins generalizing bc acc with
  | nil => simp only [takeInputEntries, Outcome.ok.injEq] at h; subst h; exact frame_refl _
  | cons i rest ih =>
    simp only [takeInputEntries] at h
    split at h
    · exact RuneFrame.trans (b := _) (by frame_rfl) (ih _ _ h)
    · split at h
      · split at h
        · split at h
          · exact RuneFrame.trans (b := _) (by frame_rfl) (ih _ _ h)
          · cases h
        · exact RuneFrame.trans (b := _) (by frame_rfl) (ih _ _ h)
      · cases h

theorem indexTxMid_frame (cfg : Cfg) (blk : Block) (insOn : Bool) (off : Nat) (tx : Tx) (bc1 : BlockCtx)
    (inputs : List (TxIn × UtxoEntry)) (r : BlockCtx × List UtxoEntry)
    (h : indexTxMid cfg blk insOn off tx bc1 inputs = .ok r) : RuneFrame bc1.st r.1.st := by
  unfold indexTxMid at h
  dsimp only at h
  split at h
  · cases h
  · cases h
  · rename_i bc2 outs1 inRanges hs
    have f2 : RuneFrame bc1.st bc2.st := by
      split at hs
      · split at hs
        · cases hs
        · cases hs
          split <;> frame_rfl
      · cases hs; exact frame_refl _
    split at h
    · split at h
      · cases h
      · cases h
      · rename_i ls hls
        cases h
        exact f2.trans (indexInscriptions_frame _ _ _ _ _ _ _ _ hls)
    · cases h; exact f2

theorem indexTx_frame (cfg : Cfg) (blk : Block) (insOn : Bool) (off : Nat) (tx : Tx) (bc bc' : BlockCtx)
    (h : indexTx cfg blk insOn off tx bc = .ok bc') : RuneFrame bc.st bc'.st := by
  rw [indexTx_eq] at h
  split at h
  · cases h
  · cases h
  · rename_i bc1 inputs hin
    have f1 : RuneFrame bc.st bc1.st := by
      split at hin
      · cases hin; exact frame_refl _
      · exact takeInputEntries_frame _ _ _ _ _ hin
    split at h
    · cases h
    · cases h
    · rename_i bc3 outs3 hm
      cases h
      exact f1.trans (indexTxMid_frame _ _ _ _ _ _ _ _ hm)

theorem indexTxs_frame (cfg : Cfg) (blk : Block) (insOn : Bool) (l : List (Nat × Tx)) (bc bc' : BlockCtx)
    (h : indexTxs cfg blk insOn l bc = .ok bc') : RuneFrame bc.st bc'.st := by
  induction l generalizing bc with
  | nil => simp only [indexTxs, Outcome.ok.injEq] at h; subst h; exact frame_refl _
  | cons p rest ih =>
    obtain ⟨i, tx⟩ := p
    simp only [indexTxs] at h
    split at h
    · cases h
    · cases h
    · rename_i bc1 h1
      exact (indexTx_frame _ _ _ _ _ _ _ h1).trans (ih _ h)

theorem flushEntry_frame (cfg : Cfg) (st : State) (op : OutPoint) (e : UtxoEntry) :
    RuneFrame st (flushEntry cfg st op e) := by
  unfold flushEntry
  extract_lets e' st1 st2
  have h2 : RuneFrame st st2 := by
    simp only [st2, st1]
    split <;> frame_rfl
  split
  · exact h2.trans (by frame_rfl)
  · exact h2

theorem flushCache_frame (cfg : Cfg) (cache : Cache) (st : State) : RuneFrame st (flushCache cfg st cache) := by
  unfold flushCache
  induction cache generalizing st with
  | nil => exact frame_refl _
  | cons p rest ih =>
    obtain ⟨op, e⟩ := p
    simp only [List.foldl_cons]
    exact (flushEntry_frame cfg st op e).trans (ih _)

/-- **The sat / address / inscription pass of a block leaves all seven rune tables alone.** -/
theorem indexUtxoEntries_frame (cfg : Cfg) (st : State) (blk : Block) (st1 : State) (ev1 : List Event)
    (h : indexUtxoEntries cfg st blk = .ok (st1, ev1)) : RuneFrame st st1 := by
  unfold indexUtxoEntries at h
  extract_lets insOn coinbaseInputs bc0 order at h
  split at h
  · cases h
  · cases h
  · rename_i bc hbc
    have s : RuneFrame st bc.st := indexTxs_frame _ _ _ _ _ _ hbc
    extract_lets src st1' base at h
    have hs1 : RuneFrame st st1' := by
      refine RuneFrame.trans s ?_
      simp only [st1', src]
      split <;> frame_rfl
    clear_value st1'
    split at h
    rename_i st2 nullNew lostFromSats heq
    have hs2 : RuneFrame st st2 := by
      split at heq
      · cases heq; exact hs1
      · split at heq
        cases heq
        exact hs1.trans (by frame_rfl)
    extract_lets st3 special at h
    simp only [Outcome.ok.injEq, Prod.mk.injEq] at h
    obtain ⟨rfl, rfl⟩ := h
    exact (hs2.trans (by frame_rfl)).trans (flushCache_frame _ _ _)

/-- `UtxoFrame` holds for every configuration -/
theorem utxoFrame (cfg : Cfg) : UtxoFrame cfg :=
  fun st blk st1 ev h => indexUtxoEntries_frame cfg st blk st1 ev h

theorem frameOK (cfg : Cfg) : FrameOK cfg := Or.inr (utxoFrame cfg)

end Ord.Index.RuneLift
