import OrdModel.Index.RuneSpec
/-
Group `runesupply` (C08/C09): association-list lemmas for rune balance maps (`Balances`, keyed by
`RuneId`) and the balances table (keyed by `OutPoint`), the lookup `Spec.lk`, `addLot`,
`addAllTo`, `sortBalances`.  Self-contained (no dependency on other groups' proof files).
-/
namespace Ord.Index.RS
open Ord.Index Ord.Index.Spec Ord.Outcome

theorem runeId_beq_iff (a b : RuneId) : (a == b) = true ↔ a = b := by
  cases a; cases b
  show (_ == _ && _ == _) = true ↔ _
  simp [RuneId.mk.injEq]

instance instLawfulBEqRuneId : LawfulBEq RuneId where
  eq_of_beq {a b} h := (runeId_beq_iff a b).1 h
  rfl {a} := (runeId_beq_iff a a).2 rfl

theorem outPoint_beq_iff (a b : OutPoint) : (a == b) = true ↔ a = b := by
  cases a; cases b
  show (_ == _ && _ == _) = true ↔ _
  simp [OutPoint.mk.injEq]

instance instLawfulBEqOutPoint : LawfulBEq OutPoint where
  eq_of_beq {a b} h := (outPoint_beq_iff a b).1 h
  rfl {a} := (outPoint_beq_iff a a).2 rfl

section generic
variable {κ ν : Type} [BEq κ] [LawfulBEq κ]

def keys (l : List (κ × ν)) : List κ := l.map (·.1)

omit [BEq κ] [LawfulBEq κ] in
@[simp] theorem keys_nil : keys ([] : List (κ × ν)) = [] := rfl
omit [BEq κ] [LawfulBEq κ] in
@[simp] theorem keys_cons (k : κ) (v : ν) (l : List (κ × ν)) : keys ((k, v) :: l) = k :: keys l := rfl

theorem get_set (l : List (κ × ν)) (k k' : κ) (v : ν) :
    AL.get (AL.set l k v) k' = if k == k' then some v else AL.get l k' := by
  induction l with
  | nil => simp [AL.get, AL.set]
  | cons p rest ih =>
    obtain ⟨k0, v0⟩ := p
    simp only [AL.set, AL.get]
    split <;> grind [AL.get]

theorem get_eq_none_iff (l : List (κ × ν)) (k : κ) : AL.get l k = none ↔ k ∉ keys l := by
  induction l with
  | nil => simp [AL.get]
  | cons p rest ih =>
    obtain ⟨k0, v0⟩ := p
    simp only [AL.get, keys_cons]
    split <;> grind

theorem get_erase_ne (l : List (κ × ν)) {k k' : κ} (h : k ≠ k') :
    AL.get (AL.erase l k) k' = AL.get l k' := by
  induction l with
  | nil => simp [AL.erase]
  | cons p rest ih =>
    obtain ⟨k0, v0⟩ := p
    simp only [AL.erase, AL.get]
    split <;> grind [AL.get]

theorem mem_keys_set (l : List (κ × ν)) (k : κ) (v : ν) (x : κ) :
    x ∈ keys (AL.set l k v) ↔ x = k ∨ x ∈ keys l := by
  induction l with
  | nil => simp [AL.set, keys]
  | cons p rest ih =>
    obtain ⟨k0, v0⟩ := p
    simp only [AL.set]
    split <;> grind [keys_cons]

theorem nodup_set (l : List (κ × ν)) (k : κ) (v : ν) (hn : (keys l).Nodup) :
    (keys (AL.set l k v)).Nodup := by
  induction l with
  | nil => simp [AL.set, keys]
  | cons p rest ih =>
    obtain ⟨k0, v0⟩ := p
    simp only [keys_cons, List.nodup_cons] at hn
    simp only [AL.set]
    split
    · rename_i h; have : k0 = k := by simpa using h
      subst this; simp only [keys_cons, List.nodup_cons]; exact hn
    · rename_i h
      simp only [keys_cons, List.nodup_cons]
      refine ⟨fun hm => ?_, ih hn.2⟩
      rcases (mem_keys_set rest k v k0).1 hm with h' | h'
      · subst h'; simp at h
      · exact hn.1 h'

end generic

/-! ### `lk`, `addLot` -/

@[simp] theorem lk_nil (r : RuneId) : lk [] r = 0 := rfl

theorem lk_set (m : Balances) (id r : RuneId) (v : Nat) :
    lk (AL.set m id v) r = if id = r then v else lk m r := by
  unfold lk
  rw [get_set]
  by_cases h : id = r
  · subst h; simp
  · have : (id == r) = false := by simpa using h
    simp [this, h]

theorem lk_eq_zero_of_get_none {m : Balances} {r : RuneId} (h : AL.get m r = none) : lk m r = 0 := by
  simp [lk, h]

theorem lk_of_get_some {m : Balances} {r : RuneId} {b : Nat} (h : AL.get m r = some b) : lk m r = b := by
  simp [lk, h]

/-- `addLot` either panics or adds `amount` at `id` -/
theorem addLot_ok {m m' : Balances} {id : RuneId} {amount : Nat} (h : addLot m id amount = .ok m') :
    m' = AL.set m id (lk m id + amount) := by
  unfold addLot at h
  simp only at h
  split at h
  · simp only [Outcome.ok.injEq] at h; exact h.symm
  · exact absurd h (by simp)

theorem addLot_lk {m m' : Balances} {id : RuneId} {amount : Nat} (h : addLot m id amount = .ok m') (r : RuneId) :
    lk m' r = lk m r + (if id = r then amount else 0) := by
  rw [addLot_ok h, lk_set]
  by_cases hr : id = r
  · subst hr; simp
  · simp [hr]

theorem addLot_nodup {m m' : Balances} {id : RuneId} {amount : Nat} (h : addLot m id amount = .ok m')
    (hn : (keys m).Nodup) : (keys m').Nodup := by
  rw [addLot_ok h]; exact nodup_set _ _ _ hn

theorem addLot_not_err {m : Balances} {id : RuneId} {amount : Nat} {e : String} : addLot m id amount ≠ .err e := by
  unfold addLot; simp only; split <;> simp

/-! ### `addAllTo` -/

theorem addAllTo_spec : ∀ (src acc acc' : Balances) (skip : Bool), (keys src).Nodup → (keys acc).Nodup →
    addAllTo src acc skip = .ok acc' →
    (keys acc').Nodup ∧ ∀ r, lk acc' r = lk acc r + lk src r := by
  intro src
  induction src with
  | nil =>
    intro acc acc' skip _ hacc h
    simp only [addAllTo, Outcome.ok.injEq] at h
    subst h
    exact ⟨hacc, fun r => by simp⟩
  | cons p rest ih =>
    intro acc acc' skip hsrc hacc h
    obtain ⟨id, b⟩ := p
    simp only [keys_cons, List.nodup_cons] at hsrc
    have hlk : ∀ r, lk ((id, b) :: rest) r = (if id = r then b else 0) + lk rest r := by
      intro r
      by_cases hr : id = r
      · subst hr
        have : AL.get rest id = none := (get_eq_none_iff rest id).2 hsrc.1
        simp [lk, AL.get, this]
      · have : (id == r) = false := by simpa using hr
        simp [lk, AL.get, this, hr]
    simp only [addAllTo] at h
    split at h
    · -- skipped zero entry
      rename_i hz
      have hb : b = 0 := by
        simp only [Bool.and_eq_true, beq_iff_eq] at hz; exact hz.2
      obtain ⟨hn, hl⟩ := ih acc acc' skip hsrc.2 hacc h
      refine ⟨hn, fun r => ?_⟩
      rw [hl r, hlk r, hb]; simp
    · split at h
      · rename_i acc1 hadd
        obtain ⟨hn, hl⟩ := ih acc1 acc' skip hsrc.2 (addLot_nodup hadd hacc) h
        refine ⟨hn, fun r => ?_⟩
        rw [hl r, addLot_lk hadd r, hlk r]; omega
      · exact absurd h (by simp)
      · exact absurd h (by simp)

/-! ### `sortBalances` -/

theorem mem_keys_ins (a : RuneId × Nat) (l : Balances) (x : RuneId) :
    x ∈ keys (sortBalances.ins a l) ↔ x = a.1 ∨ x ∈ keys l := by
  induction l with
  | nil => simp [sortBalances.ins, keys]
  | cons b rest ih =>
    obtain ⟨kb, vb⟩ := b
    simp only [sortBalances.ins]
    split <;> grind [keys_cons]

theorem lk_ins (a : RuneId × Nat) (l : Balances) (h : a.1 ∉ keys l) (r : RuneId) :
    lk (sortBalances.ins a l) r = if a.1 = r then a.2 else lk l r := by
  induction l with
  | nil =>
    obtain ⟨ka, va⟩ := a
    by_cases hr : ka = r
    · subst hr; simp [sortBalances.ins, lk, AL.get]
    · have : (ka == r) = false := by simpa using hr
      simp [sortBalances.ins, lk, AL.get, this, hr]
  | cons b rest ih =>
    obtain ⟨ka, va⟩ := a
    obtain ⟨kb, vb⟩ := b
    simp only [keys_cons, List.mem_cons, not_or] at h
    simp only [sortBalances.ins]
    split
    · by_cases hr : ka = r
      · subst hr; simp [lk, AL.get]
      · have : (ka == r) = false := by simpa using hr
        simp [lk, AL.get, this, hr]
    · have ih' := ih h.2
      by_cases hb : kb = r
      · subst hb
        have hne : ¬ ka = kb := h.1
        simp [lk, AL.get, hne]
      · have hbb : (kb == r) = false := by simpa using hb
        have : lk ((kb, vb) :: sortBalances.ins (ka, va) rest) r = lk (sortBalances.ins (ka, va) rest) r := by
          simp [lk, AL.get, hbb]
        rw [this, ih']
        simp [lk, AL.get, hbb]

theorem sortBalances_cons (a : RuneId × Nat) (l : Balances) :
    sortBalances (a :: l) = sortBalances.ins a (sortBalances l) := by
  simp [sortBalances]

theorem mem_keys_sort (l : Balances) (x : RuneId) : x ∈ keys (sortBalances l) ↔ x ∈ keys l := by
  induction l with
  | nil => simp [sortBalances]
  | cons a rest ih =>
    obtain ⟨ka, va⟩ := a
    rw [sortBalances_cons, mem_keys_ins]
    simp [ih]

theorem lk_sort (l : Balances) (hn : (keys l).Nodup) (r : RuneId) : lk (sortBalances l) r = lk l r := by
  induction l with
  | nil => simp [sortBalances]
  | cons a rest ih =>
    obtain ⟨ka, va⟩ := a
    simp only [keys_cons, List.nodup_cons] at hn
    rw [sortBalances_cons, lk_ins _ _ (by simpa [mem_keys_sort] using hn.1), ih hn.2]
    by_cases hr : ka = r
    · subst hr; simp [lk, AL.get]
    · have : (ka == r) = false := by simpa using hr
      simp [lk, AL.get, this, hr]

end Ord.Index.RS
