import OrdModel.Proofs.IndexLiftSatReward
/-
Sat-side lift, part 11: the sat-side ingredients of C03's reachable-state clause, in C03's own
vocabulary (`Insloc.den`), and `NullLen` for every reachable state.
-/
namespace Ord.Index
open Outcome Ord.Index.Sched

/-- the two `den`s (C01/C02's and C03/C04's) are the same function -/
theorem insloc_den_eq (rs : List (Nat × Nat)) : Insloc.den rs = den rs := by
  induction rs with
  | nil => rfl
  | cons r rs ih => obtain ⟨s, e⟩ := r; simp [Insloc.den, ih]

/-- **fee carry points at the sat**: if `reward` is the size of the ranges queued for the coinbase
(`block_reward`), the flotsam saved at `reward + k − Σ outputs` (`c03_fee_carry`, `k ≥ Σ outputs`)
denotes, in the queue extended by this transaction's leftover, the very sat that was at offset
`k` of the transaction's inputs -/
theorem carry_points_at_sat (cbi : Ranges) (values : List Nat) (inputs : Ranges) (t : TxSats)
    (h : indexTransactionSats values inputs = some t) (reward : Nat) (hr : reward = lenR cbi)
    (k : Nat) (hk : values.sum ≤ k) :
    (den (cbi ++ t.leftover))[reward + k - values.sum]? = (den inputs)[k]? := by
  rw [den_append, List.getElem?_append_right (by rw [den_length]; omega), den_length, ← hr]
  have := (fifo_pointwise values inputs t h).2 (k - values.sum)
  rw [show reward + k - values.sum - reward = k - values.sum by omega, this]
  congr 1; omega

/-- **lost placement points at the sat**: with `lostSats` the size of the ranges already under
the null outpoint (`NullLen`), an inscription lost at `lostSats + k − Σ coinbase outputs`
(`c03_lost_placement`) denotes, in the null entry extended by the block's lost ranges (the
coinbase's leftover), the sat that was at offset `k` of the coinbase's input ranges -/
theorem lost_points_at_sat (old : Ranges) (values : List Nat) (cbi : Ranges) (t : TxSats)
    (h : indexTransactionSats values cbi = some t) (lostSats : Nat) (hl : lenR old = lostSats)
    (k : Nat) (hk : values.sum ≤ k) :
    (den (old ++ t.leftover))[lostSats + k - values.sum]? = (den cbi)[k]? :=
  carry_points_at_sat old values cbi t h lostSats hl.symm k hk

/-- every block of the chain is `BlockPlain` -/
def ChainPlain (chain : List Block) : Prop := ∀ b ∈ chain, BlockPlain b

theorem nullLen_empty : NullLen ({} : State) := by
  simp [NullLen, rangesAt, AL.get, lenR]

/-- **`rangesValue (null entry) = lostSats` in every reachable state** (sat index on) -/
theorem reachable_nullLen (cfg : Cfg) (hs : cfg.indexSats = true) (chain : List Block) (hp : ChainPlain chain)
    (st : State) (evs : List Event) (h : run cfg chain = .ok (st, evs)) : NullLen st := by
  have := run_induct cfg (fun pre st _ => ChainPlain pre → NullLen st) (fun _ => nullLen_empty)
    (by
      intro pre st evs b st' ev' ih hb hpl
      exact applyBlock_nullLen cfg hs st b st' ev' (hpl b (by simp)) (ih (fun b' hb' => hpl b' (by simp [hb']))) hb)
    chain st evs h
  exact this hp

/-- at the start of a block the updater's reward (the subsidy) is the size of the coinbase's
input ranges (the subsidy range) -/
theorem bc0A_reward (cfg : Cfg) (hs : cfg.indexSats = true) (st : State) (blk : Block) :
    (bc0A cfg st blk).ins.reward = lenR (bc0A cfg st blk).coinbaseInputs := by
  simp only [bc0A, coinbaseInputsOf, hs, true_and]
  split
  · simp [lenR]
  · rename_i hz
    have : subsidy blk.height = 0 := by omega
    simp [lenR, this]

/-- **`reward = subsidy + Σ fees so far`, as sat ranges**: after any prefix of the non-first
transactions of a block (inscription pass on) the running reward is the total size of the ranges
queued for the coinbase -/
theorem block_reward (cfg : Cfg) (hs : cfg.indexSats = true) (st : State) (blk : Block) (hb : BlockPlain blk)
    (cbtx : Tx) (rest : List Tx) (htx : blk.txs = cbtx :: rest) (k : Nat) (bc : BlockCtx)
    (h : indexTxs cfg blk true ((enumFrom 1 rest).take k) (bc0A cfg st blk) = .ok bc) :
    bc.ins.reward = lenR bc.coinbaseInputs ∧
    lenR bc.coinbaseInputs = subsidy blk.height + (lenR bc.coinbaseInputs - subsidy blk.height) := by
  have h1 := indexTxs_reward cfg hs blk ((enumFrom 1 rest).take k)
    (fun p hp => enumFrom_succ_ne_zero 0 rest p (List.mem_of_mem_take hp))
    (fun p hp i hi => by
      have hm : p.2 ∈ rest := by
        have := List.mem_map_of_mem (f := (·.2)) (List.mem_of_mem_take hp)
        rwa [Ord.Index.enumFrom_map_snd] at this
      exact hb.noSpecialSpend p.2 (by rw [htx]; simpa using hm) i hi)
    _ bc (bc0A_reward cfg hs st blk) h
  refine ⟨h1, ?_⟩
  -- the queue only grows: it starts as the subsidy range
  have hmono : ∀ (l : List (Nat × Tx)) (b b' : BlockCtx), indexTxs cfg blk true l b = .ok b' →
      lenR b.coinbaseInputs ≤ lenR b'.coinbaseInputs := by
    intro l
    induction l with
    | nil => intro b b' hi; simp only [indexTxs, Outcome.ok.injEq] at hi; subst hi; exact Nat.le_refl _
    | cons p l ih =>
      intro b b' hi
      obtain ⟨i, tx⟩ := p
      simp only [indexTxs] at hi
      split at hi
      · cases hi
      · cases hi
      · rename_i b1 hi1
        refine Nat.le_trans ?_ (ih b1 b' hi)
        obtain ⟨_, _, _, r, _, _, _, _, _, _, hcbi, _⟩ := (indexTx_satEff cfg hs blk true i tx b b1 hi1).ex
        rw [hcbi]
        split
        · exact Nat.le_refl _
        · rw [lenR_append]; omega
  have := hmono _ _ bc h
  rw [← bc0A_reward cfg hs st blk] at this
  have h0 : (bc0A cfg st blk).ins.reward = subsidy blk.height := rfl
  omega

end Ord.Index
