import OrdModel.Proofs.IndexMiscAddrInv
/-
Group `ixmisc`, C17: `commit` (flushing the UTXO cache into the tables) re-establishes the
address-index invariant; one block; whole chains.
-/
namespace Ord.Index
open Outcome

/-- the entry `commit` writes for a cache entry: merged with the old one for special outpoints -/
def flushMerged (st : State) (op : OutPoint) (e : UtxoEntry) : UtxoEntry :=
  if op.isSpecial then
    match AL.get st.utxo op with
    | some old => UtxoEntry.merged old e
    | none => e
  else e

theorem flushEntry_utxo (cfg : Cfg) (st : State) (op : OutPoint) (e : UtxoEntry) :
    (flushEntry cfg st op e).utxo = AL.set st.utxo op (flushMerged st op e) := by
  unfold flushEntry flushMerged
  extract_lets e' st1 st2
  simp only [st2, st1]
  split <;> split <;> rfl

theorem flushEntry_rows (cfg : Cfg) (ha : cfg.indexAddresses = true) (st : State) (op : OutPoint) (e : UtxoEntry) :
    (flushEntry cfg st op e).script2out = insertUnique st.script2out ((flushMerged st op e).script, op) := by
  unfold flushEntry flushMerged
  extract_lets e' st1 st2
  simp only [st2, st1, ha, if_true]
  split <;> rfl

theorem flushMerged_special (st : State) (op : OutPoint) (e : UtxoEntry) (h : op.isSpecial = true) (he : e.script = []) :
    (flushMerged st op e).script = [] := by
  unfold flushMerged
  simp only [h, if_true]
  split
  · rfl
  · exact he

theorem flushMerged_real (st : State) (op : OutPoint) (e : UtxoEntry) (h : op.isSpecial = false) :
    flushMerged st op e = e := by
  unfold flushMerged; simp [h]

/-- what `commit` needs to know about a cache entry -/
def FlushOk (cfg : Cfg) (txs : List Tx) (st : State) (op : OutPoint) (e : UtxoEntry) : Prop :=
  (op.isSpecial = true ∧ e.script = []) ∨
  (op.isSpecial = false ∧ AL.get st.utxo op = none ∧ EntryOk cfg txs op e)

theorem flushEntry_table (cfg : Cfg) (ha : cfg.indexAddresses = true) (txs : List Tx) (st : State) (op : OutPoint)
    (e : UtxoEntry) (T : TableInv cfg txs st) (hc : FlushOk cfg txs st op e) :
    TableInv cfg txs (flushEntry cfg st op e) := by
  have key : ∀ s, (s, op) ∈ st.script2out → s = (flushMerged st op e).script := by
    intro s hs
    obtain ⟨e0, he0, hs0⟩ := (T.exact s op).1 hs
    rcases hc with ⟨h1, h2⟩ | ⟨h1, h2, _⟩
    · rw [flushMerged_special st op e h1 h2, ← hs0]; exact T.special op e0 he0 h1
    · rw [h2] at he0; cases he0
  refine ⟨?_, ?_, ?_, ?_, ?_⟩
  · rw [flushEntry_utxo]; exact AL.nodup_set _ _ _ T.nodup
  · intro s o
    rw [flushEntry_utxo, flushEntry_rows cfg ha, mem_insertUnique, AL.get_set]
    by_cases ho : op = o
    · subst ho
      simp only [beq_self_eq_true, if_true, Option.some.injEq, exists_eq_left']
      constructor
      · rintro (h | h)
        · exact (key s h).symm
        · exact (Prod.mk.inj h).1.symm
      · intro h; right; rw [h]
    · have : (op == o) = false := by simp [ho]
      simp only [this, Bool.false_eq_true, if_false]
      rw [← T.exact s o]
      constructor
      · rintro (h | h)
        · exact h
        · exact absurd (Prod.mk.inj h).2.symm ho
      · exact Or.inl
  · rw [flushEntry_rows cfg ha]; exact nodup_insertUnique _ _ T.rows
  · intro o e0 he0 hsp
    rw [flushEntry_utxo, AL.get_set] at he0
    by_cases ho : op = o
    · subst ho
      simp only [beq_self_eq_true, if_true, Option.some.injEq] at he0
      subst he0
      rcases hc with ⟨h1, h2⟩ | ⟨h1, _, _⟩
      · exact flushMerged_special st op e h1 h2
      · rw [h1] at hsp; cases hsp
    · have : (op == o) = false := by simp [ho]
      simp only [this, Bool.false_eq_true, if_false] at he0
      exact T.special o e0 he0 hsp
  · intro o e0 he0 hsp
    rw [flushEntry_utxo, AL.get_set] at he0
    by_cases ho : op = o
    · subst ho
      simp only [beq_self_eq_true, if_true, Option.some.injEq] at he0
      subst he0
      rcases hc with ⟨h1, _⟩ | ⟨h1, _, h3⟩
      · rw [h1] at hsp; cases hsp
      · rw [flushMerged_real st op e h1]; exact h3
    · have : (op == o) = false := by simp [ho]
      simp only [this, Bool.false_eq_true, if_false] at he0
      exact T.real o e0 he0 hsp

theorem flushCache_table (cfg : Cfg) (ha : cfg.indexAddresses = true) (txs : List Tx) (cache : Cache) (st : State)
    (T : TableInv cfg txs st) (hn : (AL.keys cache).Nodup)
    (hc : ∀ p ∈ cache, FlushOk cfg txs st p.1 p.2) : TableInv cfg txs (flushCache cfg st cache) := by
  induction cache generalizing st with
  | nil => exact T
  | cons p rest ih =>
    obtain ⟨op, e⟩ := p
    simp only [AL.keys_cons, List.nodup_cons] at hn
    show TableInv cfg txs (flushCache cfg (flushEntry cfg st op e) rest)
    refine ih _ (flushEntry_table cfg ha txs st op e T (hc (op, e) (by simp))) hn.2 ?_
    intro p hp
    rcases hc p (List.mem_cons_of_mem _ hp) with h | ⟨h1, h2, h3⟩
    · exact Or.inl h
    · refine Or.inr ⟨h1, ?_, h3⟩
      have hne : op ≠ p.1 := fun heq => hn.1 (heq ▸ AL.mem_keys_of_mem (k := p.1) (v := p.2) hp)
      rw [flushEntry_utxo, AL.get_set_ne _ _ hne]; exact h2

theorem isSpecial_null : OutPoint.null.isSpecial = true := by decide
theorem isSpecial_unbound : OutPoint.unbound.isSpecial = true := by decide

theorem indexUtxoEntries_table (cfg : Cfg) (ha : cfg.indexAddresses = true) (pre : List Tx) (st : State) (blk : Block)
    (r : State × List Event) (T : TableInv cfg pre st)
    (hfresh : ∀ tx ∈ blk.txs, tx.txid ∉ pre.map (·.txid) ∧ tx.txid ≠ 0)
    (h : indexUtxoEntries cfg st blk = .ok r) : TableInv cfg (pre ++ blk.txs) r.1 := by
  unfold indexUtxoEntries at h
  extract_lets insOn coinbaseInputs bc0 order at h
  have hb0 : BlockInv cfg pre [] bc0 := by
    refine ⟨T, by simp [bc0, AL.keys], ?_, ?_⟩
    · intro o e he; simp [bc0, AL.get] at he
    · constructor <;> (intro e he; simp [bc0] at he)
  have hord : ∀ p ∈ order, p.2 ∈ blk.txs := by
    intro p hp
    have hen : ∀ (l : List Tx) (n : Nat) (q : Nat × Tx), q ∈ enumFrom n l → q.2 ∈ l := by
      intro l
      induction l with
      | nil => intro n q hq; simp [enumFrom] at hq
      | cons a l ih =>
        intro n q hq
        simp only [enumFrom, List.mem_cons] at hq
        rcases hq with rfl | hq
        · simp
        · exact List.mem_cons_of_mem _ (ih _ _ hq)
    simp only [order, List.mem_append] at hp
    rcases hp with hp | hp
    · exact hen _ _ _ (List.mem_of_mem_drop hp)
    · exact hen _ _ _ (List.mem_of_mem_take hp)
  clear_value order
  split at h
  · simp at h
  · simp at h
  · rename_i bc hbc
    have hb := indexTxs_inv cfg ha pre blk insOn order [] bc0 bc hb0 (fun p hp => hfresh _ (hord p hp)) hbc
    simp only [List.nil_append] at hb
    have hseen : ∀ tx ∈ order.map (·.2), tx ∈ pre ++ blk.txs := by
      intro tx htx
      obtain ⟨p, hp, rfl⟩ := List.mem_map.1 htx
      exact List.mem_append_right _ (hord p hp)
    extract_lets src st1 at h
    have T1 : TableInv cfg (pre ++ blk.txs) st1 := by
      refine (hb.table.mono (fun t ht => List.mem_append_left _ ht)).congr ?_ ?_ <;> (simp only [st1, src]; try (split <;> rfl))
    have hst1u : st1.utxo = bc.st.utxo := by simp only [st1, src]; try (split <;> rfl)
    clear_value st1
    split at h
    rename_i st2 nullNew lostFromSats heq
    have h2 : st2.utxo = st1.utxo ∧ st2.script2out = st1.script2out ∧ ∀ e, nullNew = some e → e.script = [] := by
      split at heq
      · have e1 : st1 = st2 := congrArg Prod.fst heq
        have e2 : bc.ins.nullEntry = nullNew := congrArg (fun x => x.2.1) heq
        rw [← e1, ← e2]
        exact ⟨rfl, rfl, hb.ctx.1⟩
      · split at heq
        have e1 := congrArg Prod.fst heq
        have e2 := congrArg (fun x => x.2.1) heq
        simp only at e1 e2
        rw [← e1, ← e2]
        refine ⟨rfl, rfl, ?_⟩
        intro e he
        simp only [Option.some.injEq] at he
        subst he; rfl
    extract_lets st3 special at h
    obtain rfl := Outcome.ok.inj h
    show TableInv cfg (pre ++ blk.txs) (flushCache cfg st3 (bc.cache ++ special))
    have T3 : TableInv cfg (pre ++ blk.txs) st3 := T1.congr h2.1 h2.2.1
    have hst3u : st3.utxo = bc.st.utxo := h2.1.trans hst1u
    have hspec : ∀ p ∈ special, p.1.isSpecial = true ∧ p.2.script = [] ∧ (p.1 = OutPoint.null ∨ p.1 = OutPoint.unbound) := by
      intro p hp
      simp only [special, List.mem_append] at hp
      rcases hp with hp | hp
      · cases hn : nullNew with
        | none => simp [hn] at hp
        | some e =>
          simp only [hn, List.mem_singleton] at hp; subst hp
          exact ⟨isSpecial_null, h2.2.2 e hn, Or.inl rfl⟩
      · cases hn : bc.ins.unboundEntry with
        | none => simp [hn] at hp
        | some e =>
          simp only [hn, List.mem_singleton] at hp; subst hp
          exact ⟨isSpecial_unbound, hb.ctx.2 e hn, Or.inr rfl⟩
    refine flushCache_table cfg ha _ _ _ T3 ?_ ?_
    · -- keys distinct
      simp only [AL.keys, List.map_append]
      refine List.nodup_append.2 ⟨hb.cnodup, ?_, ?_⟩
      · simp only [special]
        split <;> split <;> simp [OutPoint.null, OutPoint.unbound]
      · intro a ha' b hb' heq
        subst heq
        obtain ⟨p, hp, rfl⟩ := List.mem_map.1 ha'
        obtain ⟨q, hq, hqe⟩ := List.mem_map.1 hb'
        have h1 := (hb.cache p.1 p.2 (AL.get_of_mem hb.cnodup hp)).1
        have h2' := (hspec q hq).1
        rw [hqe, h1] at h2'; cases h2'
    · intro p hp
      rcases List.mem_append.1 hp with hp | hp
      · obtain ⟨h1, h2', h3⟩ := hb.cache p.1 p.2 (AL.get_of_mem hb.cnodup hp)
        exact Or.inr ⟨h1, by rw [hst3u]; exact h2', h3.mono hseen⟩
      · exact Or.inl ⟨(hspec p hp).1, (hspec p hp).2.1⟩

theorem applyBlock_table (cfg : Cfg) (ha : cfg.indexAddresses = true) (pre : List Tx) (st : State) (blk : Block)
    (r : State × List Event) (T : TableInv cfg pre st)
    (hfresh : ∀ tx ∈ blk.txs, tx.txid ∉ pre.map (·.txid) ∧ tx.txid ≠ 0)
    (h : applyBlock cfg st blk = .ok r) : TableInv cfg (pre ++ blk.txs) r.1 := by
  unfold applyBlock at h
  extract_lets r1 at h
  have h1 : ∀ q, r1 = .ok q → TableInv cfg (pre ++ blk.txs) q.1 := by
    intro q hq
    simp only [r1, ha, Bool.or_true, Bool.true_or, if_true] at hq
    exact indexUtxoEntries_table cfg ha pre st blk q T hfresh hq
  clear_value r1
  split at h
  · simp at h
  · simp at h
  · rename_i st1 ev1
    have T1 := h1 _ rfl
    simp only at T1
    extract_lets r2 at h
    have h2 : ∀ q, r2 = .ok q → AddrSame st1 q.1 := by
      intro q hq
      simp only [r2] at hq
      split at hq
      · exact indexRunesBlock_frame _ _ _ hq
      · obtain rfl := Outcome.ok.inj hq; exact AddrSame.refl _
    clear_value r2
    split at h
    · simp at h
    · simp at h
    · rename_i st2 ev2
      obtain ⟨hu, hr⟩ := h2 _ rfl
      obtain rfl := Outcome.ok.inj h
      exact T1.congr hu hr

theorem allTxs_append (a b : List Block) : allTxs (a ++ b) = allTxs a ++ allTxs b := by
  simp [allTxs, List.flatMap_append]

theorem allTxs_snoc (a : List Block) (b : Block) : allTxs (a ++ [b]) = allTxs a ++ b.txs := by
  simp [allTxs, List.flatMap_append]

theorem NoDupTxids.snoc {pre : List Block} {b : Block} (h : NoDupTxids (pre ++ [b])) :
    NoDupTxids pre ∧ ∀ tx ∈ b.txs, tx.txid ∉ (allTxs pre).map (·.txid) ∧ tx.txid ≠ 0 := by
  obtain ⟨hn, hz⟩ := h
  simp only [chainTxids, allTxs_snoc, List.map_append] at hn hz
  rw [List.nodup_append] at hn
  refine ⟨⟨hn.1, fun h0 => hz (List.mem_append_left _ h0)⟩, ?_⟩
  intro tx htx
  have hm : tx.txid ∈ b.txs.map (·.txid) := List.mem_map.2 ⟨tx, htx, rfl⟩
  refine ⟨fun hin => hn.2.2 _ hin _ hm rfl, ?_⟩
  intro h0
  exact hz (List.mem_append_right _ (h0 ▸ hm))

theorem tableInv_empty (cfg : Cfg) : TableInv cfg [] ({} : State) := by
  refine ⟨by simp [AL.keys], ?_, by simp, ?_, ?_⟩
  · intro s o; simp [AL.get]
  · intro o e he; simp [AL.get] at he
  · intro o e he; simp [AL.get] at he

/-- the address-index invariant holds after every successfully indexed chain without duplicate txids -/
theorem run_table (cfg : Cfg) (ha : cfg.indexAddresses = true) (chain : List Block) (st : State) (evs : List Event)
    (hnd : NoDupTxids chain) (hrun : run cfg chain = .ok (st, evs)) : TableInv cfg (allTxs chain) st := by
  have := run_induct cfg (fun pre st _ => NoDupTxids pre → TableInv cfg (allTxs pre) st)
    (fun _ => by simpa [allTxs] using tableInv_empty cfg)
    (by
      intro pre st evs b st' ev' ih hb hnd'
      obtain ⟨hp, hf⟩ := hnd'.snoc
      rw [allTxs_snoc]
      exact applyBlock_table cfg ha (allTxs pre) st b (st', ev') (ih hp) hf hb)
    chain st evs hrun
  exact this hnd

end Ord.Index
