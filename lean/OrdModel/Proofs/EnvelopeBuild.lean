import OrdModel.Codec.Envelope
import OrdModel.Proofs.ScriptW5
/-! The reveal script as a list of instructions, and what the raw-envelope loop makes of it. -/
namespace Ord.Envelope
open Ord Ord.ScriptW5

/-! ### `chunks` -/

theorem chunksFuel_flatten (n : Nat) (hn : 0 < n) : ∀ (f : Nat) (l : Bytes), l.length ≤ f →
    (chunksFuel n f l).flatten = l := by
  intro f
  induction f with
  | zero => intro l h; have : l = [] := List.length_eq_zero_iff.mp (by omega); simp [chunksFuel, this]
  | succ f ih =>
    intro l h
    simp only [chunksFuel]
    split
    · rename_i he; simp at he; simp [he]
    · rename_i he
      have hl : 0 < l.length := by
        cases l with
        | nil => simp at he
        | cons _ _ => simp
      rw [List.flatten_cons, ih (l.drop n) (by simp; omega), List.take_append_drop]

theorem chunks_flatten (l : Bytes) : (chunks maxScriptElementSize l).flatten = l :=
  chunksFuel_flatten _ (by decide) _ l (Nat.le_refl _)

theorem chunksFuel_length_le (n : Nat) : ∀ (f : Nat) (l : Bytes), ∀ c ∈ chunksFuel n f l, c.length ≤ n := by
  intro f
  induction f with
  | zero => intro l c h; simp [chunksFuel] at h
  | succ f ih =>
    intro l c h
    simp only [chunksFuel] at h
    split at h
    · simp at h
    · simp only [List.mem_cons] at h
      rcases h with h | h
      · subst h; simp; omega
      · exact ih _ c h

theorem chunks_length_le (l : Bytes) : ∀ c ∈ chunks maxScriptElementSize l, c.length ≤ 520 :=
  chunksFuel_length_le _ _ l

theorem chunks_nil (n : Nat) : chunks n [] = [] := by simp [chunks, chunksFuel]

/-- a value of at most one element size is one chunk -/
theorem chunks_small (l : Bytes) (h0 : l ≠ []) (h : l.length ≤ 520) :
    chunks maxScriptElementSize l = [l] := by
  unfold chunks
  cases hl : l.length with
  | zero => exact absurd (List.length_eq_zero_iff.mp hl) h0
  | succ f =>
    simp only [chunksFuel]
    have : l.isEmpty = false := by cases l <;> simp_all
    simp only [this, Bool.false_eq_true, if_false, maxScriptElementSize]
    have ht : l.take 520 = l := List.take_of_length_le h
    have hd : l.drop 520 = [] := List.drop_of_length_le h
    rw [ht, hd]
    cases f <;> simp [chunksFuel]

/-- a longer value is at least two chunks -/
theorem chunks_large (l : Bytes) (h : 520 < l.length) :
    2 ≤ (chunks maxScriptElementSize l).length := by
  unfold chunks
  cases hl : l.length with
  | zero => omega
  | succ f =>
    have h1 : l.isEmpty = false := by cases l <;> simp_all
    cases f with
    | zero => omega
    | succ f =>
      have h2 : (l.drop 520).isEmpty = false := by
        cases hd : l.drop 520 with
        | nil => have := congrArg List.length hd; simp at this; omega
        | cons _ _ => simp
      simp [chunksFuel, h1, h2, maxScriptElementSize]

/-! ### the payload ord writes -/

/-- `[tag] value [tag] value …` -/
def pairPayload (tag : UInt8) (vs : List Bytes) : List Bytes := vs.flatMap (fun v => [[tag], v])

/-- the values written under a tag by `Tag::append` -/
def tagValues (tag : UInt8) : Option Bytes → List Bytes
  | none => []
  | some v => if chunked tag then chunks maxScriptElementSize v else [v]

def bodyPayload : Option Bytes → List Bytes
  | none => []
  | some b => [] :: chunks maxScriptElementSize b

/-- tag → values, in the order `append_reveal_script_to_builder` writes them -/
def groups (i : Inscription) : List (UInt8 × List Bytes) :=
  [(tagContentType, tagValues tagContentType i.contentType),
   (tagContentEncoding, tagValues tagContentEncoding i.contentEncoding),
   (tagMetaprotocol, tagValues tagMetaprotocol i.metaprotocol),
   (tagParent, i.parents),
   (tagDelegate, tagValues tagDelegate i.delegate),
   (tagPointer, tagValues tagPointer i.pointer),
   (tagMetadata, tagValues tagMetadata i.metadata),
   (tagRune, tagValues tagRune i.rune),
   (tagProperties, tagValues tagProperties i.properties),
   (tagPropertyEncoding, tagValues tagPropertyEncoding i.propertyEncoding)]

def fieldsPayload (gs : List (UInt8 × List Bytes)) : List Bytes :=
  gs.flatMap (fun g => pairPayload g.1 g.2)

/-- the data pushes between `"ord"` and OP_ENDIF -/
def payloadOf (i : Inscription) : List Bytes := fieldsPayload (groups i) ++ bodyPayload i.body

/-- `OP_FALSE OP_IF "ord" <payload pushes> OP_ENDIF` -/
def envelopeInstrs (p : List Bytes) : List Instr :=
  .push [] :: .op opIf :: .push protocolId :: (p.map .push ++ [.op opEndif])

theorem encode_pairPayload (tag : UInt8) (vs : List Bytes) :
    encode ((pairPayload tag vs).map .push) = appendArray tag vs := by
  induction vs with
  | nil => simp [pairPayload, appendArray, encode]
  | cons v vs ih =>
    simp only [pairPayload, appendArray, List.flatMap_cons, List.map_append, List.map_cons,
      List.map_nil, encode_append, List.flatten_cons] at ih ⊢
    rw [ih]
    simp [encode, encodeInstr]

theorem appendTag_eq (tag : UInt8) (o : Option Bytes) :
    appendTag tag o = appendArray tag (tagValues tag o) := by
  cases o with
  | none => simp [appendTag, tagValues, appendArray]
  | some v =>
    simp only [appendTag, tagValues]
    split
    · rfl
    · simp [appendArray]

theorem encode_bodyPayload (b : Option Bytes) :
    encode ((bodyPayload b).map .push) = appendBody b := by
  cases b with
  | none => simp [bodyPayload, appendBody, encode]
  | some b =>
    simp only [bodyPayload, appendBody, List.map_cons, encode, encodeInstr]
    congr 1
    induction chunks maxScriptElementSize b with
    | nil => simp [encode]
    | cons c cs ih => simp [encode, encodeInstr, ih]

theorem pushSlice_nil : pushSlice [] = [0x00] := by decide

theorem revealScript_eq (i : Inscription) :
    revealScript i = encode (envelopeInstrs (payloadOf i)) := by
  simp only [revealScript, envelopeInstrs, payloadOf, groups, fieldsPayload, List.flatMap_cons,
    List.flatMap_nil, List.append_nil, encode, encodeInstr, List.map_append, encode_append,
    encode_pairPayload, encode_bodyPayload, appendTag_eq, pushSlice_nil]
  simp [List.append_assoc]

/-! ### all written instructions are encodable -/

def Sized (i : Inscription) : Prop := buildable i = true

theorem tagValues_lt (tag : UInt8) (o : Option Bytes) (h : optLt (2 ^ 32) o = true) :
    ∀ v ∈ tagValues tag o, v.length < 2 ^ 32 := by
  cases o with
  | none => simp [tagValues]
  | some x =>
    intro v hv
    simp only [tagValues] at hv
    split at hv
    · have := chunks_length_le x v hv
      have : (520 : Nat) < 2 ^ 32 := by decide
      omega
    · simp only [List.mem_singleton] at hv
      subst hv
      simpa [optLt] using h

theorem tagValues_chunked_lt (tag : UInt8) (hc : chunked tag = true) (o : Option Bytes) :
    ∀ v ∈ tagValues tag o, v.length < 2 ^ 32 := by
  cases o with
  | none => simp [tagValues]
  | some x =>
    intro v hv
    simp only [tagValues, hc, if_true] at hv
    have := chunks_length_le x v hv
    have : (520 : Nat) < 2 ^ 32 := by decide
    omega

theorem pairPayload_lt (tag : UInt8) (vs : List Bytes) (h : ∀ v ∈ vs, v.length < 2 ^ 32) :
    ∀ v ∈ pairPayload tag vs, v.length < 2 ^ 32 := by
  intro v hv
  simp only [pairPayload, List.mem_flatMap, List.mem_cons, List.not_mem_nil, or_false] at hv
  obtain ⟨a, ha, hv⟩ := hv
  rcases hv with hv | hv
  · subst hv; simp
  · subst hv; exact h _ ha

theorem payloadOf_lt (i : Inscription) (hb : Sized i) : ∀ v ∈ payloadOf i, v.length < 2 ^ 32 := by
  simp only [Sized, buildable, Bool.and_eq_true, List.all_eq_true, decide_eq_true_eq] at hb
  obtain ⟨⟨⟨⟨⟨⟨⟨h1, h2⟩, h3⟩, h4⟩, h5⟩, h6⟩, h7⟩, h8⟩ := hb
  intro v hv
  simp only [payloadOf, groups, fieldsPayload, List.flatMap_cons, List.flatMap_nil, List.append_nil,
    List.mem_append] at hv
  rcases hv with (hv | hv | hv | hv | hv | hv | hv | hv | hv | hv) | hv
  · exact pairPayload_lt _ _ (tagValues_lt _ _ h1) v hv
  · exact pairPayload_lt _ _ (tagValues_lt _ _ h2) v hv
  · exact pairPayload_lt _ _ (tagValues_lt _ _ h3) v hv
  · exact pairPayload_lt _ _ h4 v hv
  · exact pairPayload_lt _ _ (tagValues_lt _ _ h5) v hv
  · exact pairPayload_lt _ _ (tagValues_lt _ _ h6) v hv
  · exact pairPayload_lt _ _ (tagValues_chunked_lt _ (by decide) _) v hv
  · exact pairPayload_lt _ _ (tagValues_lt _ _ h7) v hv
  · exact pairPayload_lt _ _ (tagValues_chunked_lt _ (by decide) _) v hv
  · exact pairPayload_lt _ _ (tagValues_lt _ _ h8) v hv
  · cases hbody : i.body with
    | none => simp [bodyPayload, hbody] at hv
    | some b =>
      simp only [bodyPayload, hbody, List.mem_cons] at hv
      rcases hv with hv | hv
      · subst hv; simp
      · have := chunks_length_le b v hv
        have : (520 : Nat) < 2 ^ 32 := by decide
        omega

theorem envelopeInstrs_encodable (p : List Bytes) (h : ∀ v ∈ p, v.length < 2 ^ 32) :
    ∀ ins ∈ envelopeInstrs p, ins.encodable = true := by
  intro ins hins
  simp only [envelopeInstrs, List.mem_cons, List.mem_append, List.mem_map, List.not_mem_nil,
    or_false] at hins
  rcases hins with h1 | h1 | h1 | h1 | h1
  · subst h1; simp [Instr.encodable]
  · subst h1; decide
  · subst h1; simp [Instr.encodable, protocolId]
  · obtain ⟨v, hv, rfl⟩ := h1
    simpa [Instr.encodable] using h v hv
  · subst h1; decide

/-- the instruction stream of a batch reveal script (followed by anything) -/
theorem instructions_batch : ∀ (is : List Inscription) (rest : Bytes), (∀ i ∈ is, Sized i) →
    instructions (batchRevealScript is ++ rest) =
      (is.flatMap (fun i => envelopeInstrs (payloadOf i))).map .ok ++ instructions rest := by
  intro is
  induction is with
  | nil => intro rest _; simp [batchRevealScript]
  | cons i is ih =>
    intro rest h
    simp only [batchRevealScript, List.append_assoc, List.flatMap_cons, List.map_append]
    rw [revealScript_eq,
      instructions_encode _ _ (envelopeInstrs_encodable _ (payloadOf_lt i (h i (by simp)))),
      ih rest (fun j hj => h j (by simp [hj]))]

/-! ### the raw-envelope loop on such a stream -/

theorem collect_pushes (p : List Bytes) (rest : List Item) :
    collect (p.map (fun v => .ok (.push v)) ++ .ok (.op opEndif) :: rest) =
      .ok (some (p, false), rest) := by
  induction p with
  | nil => simp [collect]
  | cons v p ih => simp [collect, ih]

theorem fromInstructions_envelope (input offset : Nat) (stutter : Bool) (p : List Bytes)
    (rest : List Item) (hi : input < 2 ^ 32) (ho : offset < 2 ^ 32) :
    fromInstructions input offset stutter
        (.ok (.op opIf) :: .ok (.push protocolId) ::
          (p.map (fun v => .ok (.push v)) ++ .ok (.op opEndif) :: rest)) =
      .ok ((false, some { input, offset, payload := p, pushnum := false, stutter }), rest) := by
  simp [fromInstructions, accept, collect_pushes, toU32, hi, ho]

/-- one complete envelope at the head of the stream: it is recorded with the running offset and
the loop continues behind it -/
theorem tapscriptLoop_envelope (input fuel : Nat) (st : Bool) (count : Nat) (p : List Bytes)
    (rest : List Item) (hi : input < 2 ^ 32) (ho : count < 2 ^ 32) :
    tapscriptLoop input (fuel + 1) st count ((envelopeInstrs p).map .ok ++ rest) =
      match tapscriptLoop input fuel st (count + 1) rest with
      | .ok envs =>
        .ok ({ input, offset := count, payload := p, pushnum := false, stutter := st } :: envs)
      | other => other := by
  simp only [envelopeInstrs, List.map_cons, List.map_append, List.map_map, List.cons_append,
    List.append_assoc, List.map_nil, List.nil_append, tapscriptLoop]
  simp only [if_true]
  have := fromInstructions_envelope input count st p rest hi ho
  simp only [Function.comp_def] at this ⊢
  rw [this]
  cases h : tapscriptLoop input fuel st (count + 1) rest <;> simp [h]

/-- the raw envelopes ord's own batch script parses to -/
def expectedRaw (input : Nat) : Nat → List Inscription → List Raw
  | _, [] => []
  | k, i :: is =>
    { input, offset := k, payload := payloadOf i, pushnum := false, stutter := false } ::
      expectedRaw input (k + 1) is

theorem tapscriptLoop_batch (input : Nat) (hi : input < 2 ^ 32) :
    ∀ (is : List Inscription) (fuel count : Nat), is.length < fuel → count + is.length ≤ 2 ^ 32 →
      tapscriptLoop input fuel false count
          ((is.flatMap (fun i => envelopeInstrs (payloadOf i))).map .ok) =
        .ok (expectedRaw input count is) := by
  intro is
  induction is with
  | nil =>
    intro fuel count hf _
    cases fuel with
    | zero => simp at hf
    | succ f => simp [tapscriptLoop, expectedRaw]
  | cons i is ih =>
    intro fuel count hf hc
    simp only [List.length_cons] at hf hc
    cases fuel with
    | zero => omega
    | succ f =>
      simp only [List.flatMap_cons, List.map_append]
      rw [tapscriptLoop_envelope input f false count _ _ hi (by omega),
        ih f (count + 1) (by omega) (by omega)]
      simp [expectedRaw]

/-- a prefix of plain instructions (no empty push) is skipped -/
theorem tapscriptLoop_prefix (input : Nat) : ∀ (pre : List Instr) (fuel : Nat) (st : Bool)
    (count : Nat) (rest : List Item), (∀ ins ∈ pre, ins ≠ .push []) →
    tapscriptLoop input (fuel + pre.length) st count (pre.map .ok ++ rest) =
      tapscriptLoop input fuel st count rest := by
  intro pre
  induction pre with
  | nil => intro fuel st count rest _; simp
  | cons x pre ih =>
    intro fuel st count rest h
    have hx : x ≠ .push [] := h x (by simp)
    simp only [List.length_cons, List.map_cons, List.cons_append]
    rw [show fuel + (pre.length + 1) = (fuel + pre.length) + 1 by omega]
    simp only [tapscriptLoop, hx, if_false]
    exact ih fuel st count rest (fun j hj => h j (by simp [hj]))

theorem envelopeInstrs_length (p : List Bytes) : 1 ≤ (envelopeInstrs p).length := by
  simp [envelopeInstrs]

theorem batchInstrs_length : ∀ (is : List Inscription),
    is.length ≤ (is.flatMap (fun i => envelopeInstrs (payloadOf i))).length := by
  intro is
  induction is with
  | nil => simp
  | cons i is ih =>
    have := envelopeInstrs_length (payloadOf i)
    simp only [List.flatMap_cons, List.length_append, List.length_cons]
    omega

/-- **Raw round trip**: a script made of a plain prefix followed by ord's batch reveal script
parses to exactly one raw envelope per inscription, in order, offsets `0..k-1`, carrying the
pushes ord wrote, with `pushnum = stutter = false`. -/
theorem fromTapscript_batch (input : Nat) (hi : input < 2 ^ 32) (pre : List Instr)
    (hpre : ∀ ins ∈ pre, ins.encodable = true ∧ ins ≠ .push [])
    (is : List Inscription) (hs : ∀ i ∈ is, Sized i) (hk : is.length ≤ 2 ^ 32) :
    fromTapscript input (encode pre ++ batchRevealScript is) = .ok (expectedRaw input 0 is) := by
  unfold fromTapscript fromItems
  have hstream : instructions (encode pre ++ batchRevealScript is) =
      pre.map .ok ++ (is.flatMap (fun i => envelopeInstrs (payloadOf i))).map .ok := by
    rw [instructions_encode pre _ (fun i hi => (hpre i hi).1)]
    have := instructions_batch is [] hs
    simp only [List.append_nil, instructions_nil] at this
    rw [this]
  rw [hstream]
  have hlen := batchInstrs_length is
  simp only [List.length_append, List.length_map]
  rw [show pre.length + (is.flatMap (fun i => envelopeInstrs (payloadOf i))).length + 1 =
    ((is.flatMap (fun i => envelopeInstrs (payloadOf i))).length + 1) + pre.length by omega]
  rw [tapscriptLoop_prefix input pre _ false 0 _ (fun i hi => (hpre i hi).2)]
  exact tapscriptLoop_batch input hi is _ 0 (by omega) (by omega)

end Ord.Envelope
