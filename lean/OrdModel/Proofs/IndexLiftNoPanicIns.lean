import OrdModel.Proofs.IndexLiftNoPanicUil
/-
C16 lift, part 5: `index_inscriptions` for one transaction under the invariants — a non-coinbase
transaction whose inputs carry the spent values (`indexInscriptions_tx`) and the coinbase
(`indexInscriptions_cb`).  Discharged here: the three value subtractions
(`total_input_value - total_output_value`, `total_input_value - output_value`,
`self.reward - output_value`), the fee division, and (through the earlier parts) every entry
lookup, `calculate_sat` and the `i32` count.
-/
namespace Ord.Index.NoPanic
open Ord Ord.Index Outcome Sched

theorem foldl_value_sum (os : List TxOut) (a : Nat) :
    os.foldl (fun a o => a + o.value) a = a + (os.map (·.value)).sum := by
  induction os generalizing a with
  | nil => simp
  | cons o rest ih => simp only [List.foldl_cons, List.map_cons, List.sum_cons]; rw [ih]; omega

theorem countNew_pos_of_any {l : List Flotsam} (h : l.any isNew = true) : 0 < countNew l := by
  simp only [List.any_eq_true] at h
  obtain ⟨f, hf, hn⟩ := h
  unfold countNew
  exact List.length_pos_of_mem (List.mem_filter.2 ⟨hf, hn⟩)

theorem countNew_map (g : Flotsam → Flotsam) (hg : ∀ f, isNew (g f) = isNew f) (l : List Flotsam) :
    countNew (l.map g) = countNew l := by
  induction l with
  | nil => rfl
  | cons f rest ih => simp only [List.map_cons, countNew_cons, hg, ih]

/-- the fee / parent rewrite of new flotsam in `index_inscriptions` -/
def reFee (fee : Nat) (dd : List InscriptionId → List InscriptionId) (f : Flotsam) : Flotsam :=
  match f.origin with
  | .new c _ g h ps r u v => { f with origin := .new c fee g h (dd ps) r u v }
  | .old .. => f

theorem reFee_offset (fee : Nat) (dd : List InscriptionId → List InscriptionId) (f : Flotsam) :
    (reFee fee dd f).offset = f.offset := by
  unfold reFee; split <;> rfl

theorem reFee_isNew (fee : Nat) (dd : List InscriptionId → List InscriptionId) (f : Flotsam) :
    isNew (reFee fee dd f) = isNew f := by
  obtain ⟨id, off, origin⟩ := f
  cases origin <;> rfl

theorem reFee_oldOK (fee : Nat) (dd : List InscriptionId → List InscriptionId) (n : Nat) (f : Flotsam)
    (h : OldOK n f) : OldOK n (reFee fee dd f) := by
  unfold reFee
  split
  · intro s sp hs; cases hs
  · exact h

theorem reFee_newBound (fee : Nat) (dd : List InscriptionId → List InscriptionId) (f : Flotsam)
    (h : NewBound (reFee fee dd f)) : NewBound f := by
  unfold reFee at h
  split at h
  · rename_i c f0 g hh ps r u v ho
    obtain ⟨c', fee', g', h', ps', r', v', hq⟩ := h
    simp only [Origin.new.injEq] at hq
    exact ⟨c, f0, g, hh, ps, r, v, by rw [ho, hq.2.2.2.2.2.2.1]⟩
  · exact h

/-- the list `index_inscriptions` sorts: rewritten scan flotsam, plus the carried flotsam on a coinbase -/
theorem iiSorted_perm (tx : Tx) (sc : ScanState) (carry : List Flotsam) :
    ∃ fee dd, (iiSorted tx sc carry).Perm
      (sc.floating.map (reFee fee dd) ++ (if iiCoinbase tx = true then carry else [])) := by
  refine ⟨?fee, ?dd, ?h⟩
  case h =>
    unfold iiSorted
    simp only
    cases iiCoinbase tx with
    | true =>
      simp only [if_true]
      exact Insloc.sortByKey_perm _ _
    | false =>
      simp only [Bool.false_eq_true, if_false, List.append_nil]
      exact Insloc.sortByKey_perm _ _

theorem iiSorted_sorted (tx : Tx) (sc : ScanState) (carry : List Flotsam) :
    (iiSorted tx sc carry).Pairwise (fun x y => x.offset ≤ y.offset) := by
  unfold iiSorted
  exact Insloc.sortByKey_sorted _ _

theorem iiStart_facts (cfg : Cfg) (tx : Tx) (ls : LocState) :
    InsSame ls.st (iiStart cfg tx ls).st ∧ (iiStart cfg tx ls).outs = ls.outs ∧
    (iiStart cfg tx ls).ctx.reward = ls.ctx.reward ∧ (iiStart cfg tx ls).ctx.lostSats = ls.ctx.lostSats ∧
    (iiStart cfg tx ls).ctx.flotsam = (if iiCoinbase tx = true then [] else ls.ctx.flotsam) := by
  unfold iiStart
  cases (cfg.indexTransactions && !tx.envelopes.isEmpty) <;> cases iiCoinbase tx <;>
    exact ⟨⟨rfl, rfl, rfl, rfl⟩, rfl, rfl, rfl, rfl⟩

/-- result of `index_inscriptions` on one transaction, as far as the no-panic argument goes -/
structure InsOut (ls ls' : LocState) : Prop where
  inv : LInv ls'
  len : ls.st.entries.length ≤ ls'.st.entries.length
  outsLen : ls'.outs.length = ls.outs.length
  flSeq : ∀ f ∈ ls'.ctx.flotsam, OldOK ls'.st.entries.length f

/-- **a non-coinbase transaction** whose input entries are worth `T ≥ Σ outputs` -/
theorem indexInscriptions_tx (cfg : Cfg) (height time : Nat) (tx : Tx) (inputs : List (TxIn × UtxoEntry))
    (ir : Option (List (Nat × Nat))) (ls : LocState) (T : Nat)
    (hcb : iiCoinbase tx = false) (hinv : LInv ls) (houtsLen : ls.outs.length = tx.outputs.length)
    (hin : ∀ p ∈ inputs, p.1.prev.isNull = false → ∀ q ∈ p.2.ins, q.1 < ls.st.entries.length)
    (hT : sumIn cfg height inputs = T) (hout : (tx.outputs.map (·.value)).sum ≤ T)
    (hir : ∀ rs, ir = some rs → rangesValue rs = T) (hwf : EnvTail tx.envelopes)
    (hcount : ls.st.cursed + ls.st.blessed + countNew ls.ctx.flotsam + tx.envelopes.length < 2147483648)
    (hflSeq : ∀ f ∈ ls.ctx.flotsam, OldOK ls.st.entries.length f)
    (hflOff : ∀ f ∈ ls.ctx.flotsam, NewBound f → f.offset < ls.ctx.reward) :
    ∃ ls', indexInscriptions cfg height time tx inputs ir ls = .ok ls' ∧ InsOut ls ls' ∧
      ls'.st.cursed + ls'.st.blessed + countNew ls'.ctx.flotsam ≤
        ls.st.cursed + ls.st.blessed + countNew ls.ctx.flotsam + tx.envelopes.length ∧
      ls'.ctx.reward = ls.ctx.reward + (T - (tx.outputs.map (·.value)).sum) ∧
      (∀ f ∈ ls'.ctx.flotsam, NewBound f → f.offset < ls'.ctx.reward) := by
  rw [indexInscriptions_eq]
  have htot : tx.outputs.foldl (fun a o => a + o.value) 0 = (tx.outputs.map (·.value)).sum := by
    rw [foldl_value_sum]; omega
  rw [htot]
  generalize hO : (tx.outputs.map (·.value)).sum = totalOut at hout ⊢
  obtain ⟨sc, hsc, isc, tsc⟩ := scanInputs_valid cfg ls.st hinv.ids (decide (height ≥ cfg.jubileeHeight)) tx.txid
    height totalOut tx.envelopes.length inputs 0 { envelopes := tx.envelopes } hin
    { old := by intro f hf; cases hf
      off := by intro f hf; cases hf
      cnt := rfl
      env := by simp
      tail := hwf
      insc := Or.inl (by intro off id c h; simp [AL.get] at h) }
  rw [hsc]
  simp only
  have htotal : sc.totalInputValue = T := by rw [tsc, hT]; simp
  have h1 : ¬ (sc.floating.any isNew = true ∧ sc.totalInputValue < totalOut) := by
    rw [htotal]; intro h; omega
  have h2 : ¬ (sc.floating.any isNew = true ∧ sc.idCounter = 0) := by
    intro h
    have := countNew_pos_of_any h.1
    rw [isc.cnt] at this
    omega
  rw [if_neg h1, if_neg h2]
  -- the sorted list and its split
  obtain ⟨fee, dd, hperm⟩ := iiSorted_perm tx sc ls.ctx.flotsam
  rw [hcb] at hperm
  simp only [Bool.false_eq_true, if_false, List.append_nil] at hperm
  have hmemS : ∀ f ∈ iiSorted tx sc ls.ctx.flotsam, ∃ f0 ∈ sc.floating, f = reFee fee dd f0 := by
    intro f hf
    obtain ⟨f0, h0, rfl⟩ := List.mem_map.1 (hperm.mem_iff.1 hf)
    exact ⟨f0, h0, rfl⟩
  have hSold : ∀ f ∈ iiSorted tx sc ls.ctx.flotsam, OldOK ls.st.entries.length f := by
    intro f hf
    obtain ⟨f0, h0, rfl⟩ := hmemS f hf
    exact reFee_oldOK _ _ _ _ (isc.old f0 h0)
  have hSoff : ∀ f ∈ iiSorted tx sc ls.ctx.flotsam, NewBound f → f.offset < T := by
    intro f hf hnb
    obtain ⟨f0, h0, rfl⟩ := hmemS f hf
    rw [reFee_offset]
    rcases isc.off f0 h0 (reFee_newBound _ _ _ hnb) with h | h
    · omega
    · omega
  have hScnt : countNew (iiSorted tx sc ls.ctx.flotsam) = sc.idCounter := by
    rw [countNew_perm hperm, countNew_map _ (reFee_isNew fee dd), isc.cnt]
  have hidc : sc.idCounter ≤ tx.envelopes.length := by have := isc.env; omega
  obtain ⟨hcons, hov⟩ := Insloc.assignOutputs_conserve tx.txid tx.outputs 0 0 (iiSorted tx sc ls.ctx.flotsam) []
  obtain ⟨_, hplace⟩ := Insloc.assignOutputs_place tx.txid tx.outputs 0 0 (iiSorted tx sc ls.ctx.flotsam) []
    (iiSorted_sorted _ _ _) (fun _ _ => Nat.zero_le _)
  have hvout := assignOutputs_vout tx.txid tx.outputs 0 0 (iiSorted tx sc ls.ctx.flotsam) [] tx.outputs.length
    (by simp) (fun p hp => by cases hp)
  cases hass : assignOutputs tx.txid tx.outputs 0 0 (iiSorted tx sc ls.ctx.flotsam) [] with
  | mk locs rr =>
    obtain ⟨rest, ov⟩ := rr
    rw [hass] at hcons hov hplace hvout
    simp only [List.map_nil, List.nil_append, Nat.zero_add] at hcons hov hplace hvout
    rw [hO] at hov hplace
    simp only
    obtain ⟨s1, s2, s3, s4, s5⟩ := iiStart_facts cfg tx ls
    rw [hcb] at s5
    simp only [Bool.false_eq_true, if_false] at s5
    have hlocsMem : ∀ p ∈ locs, p.2.1 ∈ iiSorted tx sc ls.ctx.flotsam := by
      intro p hp
      rw [← hcons]
      exact List.mem_append_left _ (List.mem_map.2 ⟨p, hp, rfl⟩)
    have hrestMem : ∀ f ∈ rest, f ∈ iiSorted tx sc ls.ctx.flotsam := by
      intro f hf
      rw [← hcons]
      exact List.mem_append_right _ hf
    have hsplit : countNew (locs.map (·.2.1)) + countNew rest = sc.idCounter := by
      rw [← hScnt, ← hcons, countNew_append]
    have hinv1 : LInv (iiStart cfg tx ls) :=
      ⟨hinv.ids.congr s1.1 s1.2.1, by rw [s2, s1.1]; exact hinv.outs⟩
    obtain ⟨ls2, e2, i2, r2⟩ := applyLocations_valid cfg height time ir locs (iiStart cfg tx ls) hinv1
      (fun p hp => by rw [s1.1]; exact hSold _ (hlocsMem p hp))
      (by rw [s1.2.2.1, s1.2.2.2]; omega)
      (fun p hp rs hrs hnb => by rw [hir rs hrs]; exact hSoff _ (hlocsMem p hp) hnb)
      (fun p hp => by rw [s2, houtsLen]; exact hvout p hp)
    rw [e2]
    simp only
    unfold iiFinish
    rw [hcb]
    simp only [Bool.false_eq_true, if_false]
    have h3 : ¬ sc.totalInputValue < ov := by rw [htotal, hov]; omega
    rw [if_neg h3]
    refine ⟨_, rfl, ⟨⟨i2.ids, i2.outs⟩, ?_, ?_, ?_⟩, ?_, ?_, ?_⟩
    · show ls.st.entries.length ≤ ls2.st.entries.length
      have := r2.len; rw [s1.1] at this; exact this
    · show ls2.outs.length = ls.outs.length
      rw [r2.outsLen, s2]
    · intro f hf
      simp only at hf
      rcases List.mem_append.1 hf with hf | hf
      · rw [r2.flotsam, s5] at hf
        have hlen := r2.len
        rw [s1.1] at hlen
        exact fun s sp hs => Nat.lt_of_lt_of_le (hflSeq f hf s sp hs) hlen
      · obtain ⟨f0, h0, rfl⟩ := List.mem_map.1 hf
        have hlen := r2.len
        rw [s1.1] at hlen
        exact fun s sp hs => Nat.lt_of_lt_of_le (hSold f0 (hrestMem f0 h0) s sp hs) hlen
    · show ls2.st.cursed + ls2.st.blessed + countNew (ls2.ctx.flotsam ++ _) ≤ _
      rw [countNew_append, r2.cnt, r2.flotsam, s5, s1.2.2.1, s1.2.2.2,
        countNew_map _ (fun f => by simp [isNew])]
      omega
    · show ls2.ctx.reward + (sc.totalInputValue - ov) = _
      rw [r2.reward, s3, htotal, hov]
    · intro f hf hnb
      simp only at hf ⊢
      rw [r2.reward, s3, htotal, hov]
      rcases List.mem_append.1 hf with hf | hf
      · rw [r2.flotsam, s5] at hf
        have := hflOff f hf hnb
        omega
      · obtain ⟨f0, h0, rfl⟩ := List.mem_map.1 hf
        have hnb0 : NewBound f0 := hnb
        have hlt := hSoff f0 (hrestMem f0 h0) hnb0
        have hge := (hplace f0 h0).2
        show ls2.ctx.reward + f0.offset - ov < _
        rw [r2.reward, s3, hov]
        omega

/-- **the coinbase**: one null input, nothing new of its own, the carried flotsam is placed or lost -/
theorem indexInscriptions_cb (cfg : Cfg) (height time : Nat) (tx : Tx) (i : TxIn)
    (ir : Option (List (Nat × Nat))) (ls : LocState)
    (hi : tx.inputs = [i]) (hnull : i.prev.isNull = true) (hinv : LInv ls)
    (houtsLen : ls.outs.length = tx.outputs.length)
    (hout : (tx.outputs.map (·.value)).sum ≤ ls.ctx.reward)
    (hir : ∀ rs, ir = some rs → rangesValue rs = ls.ctx.reward)
    (hcount : ls.st.cursed + ls.st.blessed + countNew ls.ctx.flotsam < 2147483648)
    (hflSeq : ∀ f ∈ ls.ctx.flotsam, OldOK ls.st.entries.length f)
    (hflOff : ∀ f ∈ ls.ctx.flotsam, NewBound f → f.offset < ls.ctx.reward) :
    ∃ ls', indexInscriptions cfg height time tx (tx.inputs.map (fun i => (i, UtxoEntry.empty))) ir ls = .ok ls' ∧
      InsOut ls ls' ∧
      ls'.st.cursed + ls'.st.blessed = ls.st.cursed + ls.st.blessed + countNew ls.ctx.flotsam ∧
      ls'.ctx.flotsam = [] := by
  rw [indexInscriptions_eq]
  have hcb : iiCoinbase tx = true := by unfold iiCoinbase; rw [hi]; exact hnull
  obtain ⟨sc, hscan, hfl⟩ : ∃ sc, scanInputs cfg ls.st (decide (height ≥ cfg.jubileeHeight)) tx.txid height
      (tx.outputs.foldl (fun a o => a + o.value) 0) (tx.inputs.map (fun i => (i, UtxoEntry.empty))) 0
      { envelopes := tx.envelopes } = .ok sc ∧ sc.floating = [] := by
    rw [hi]
    refine ⟨{ envelopes := tx.envelopes, totalInputValue := 0 + subsidy height }, ?_, rfl⟩
    simp only [List.map_cons, List.map_nil, scanInputs, hnull, if_true]
  rw [hscan]
  simp only
  have h1 : ¬ (sc.floating.any isNew = true ∧
      sc.totalInputValue < tx.outputs.foldl (fun a o => a + o.value) 0) := by rw [hfl]; simp
  have h2 : ¬ (sc.floating.any isNew = true ∧ sc.idCounter = 0) := by rw [hfl]; simp
  rw [if_neg h1, if_neg h2]
  obtain ⟨fee, dd, hperm⟩ := iiSorted_perm tx sc ls.ctx.flotsam
  rw [hcb, hfl] at hperm
  simp only [List.map_nil, List.nil_append, if_true] at hperm
  have hSold : ∀ f ∈ iiSorted tx sc ls.ctx.flotsam, OldOK ls.st.entries.length f :=
    fun f hf => hflSeq f (hperm.mem_iff.1 hf)
  have hSoff : ∀ f ∈ iiSorted tx sc ls.ctx.flotsam, NewBound f → f.offset < ls.ctx.reward :=
    fun f hf => hflOff f (hperm.mem_iff.1 hf)
  have hScnt : countNew (iiSorted tx sc ls.ctx.flotsam) = countNew ls.ctx.flotsam := countNew_perm hperm
  obtain ⟨hcons, hov⟩ := Insloc.assignOutputs_conserve tx.txid tx.outputs 0 0 (iiSorted tx sc ls.ctx.flotsam) []
  have hvout := assignOutputs_vout tx.txid tx.outputs 0 0 (iiSorted tx sc ls.ctx.flotsam) [] tx.outputs.length
    (by simp) (fun p hp => by cases hp)
  cases hass : assignOutputs tx.txid tx.outputs 0 0 (iiSorted tx sc ls.ctx.flotsam) [] with
  | mk locs rr =>
    obtain ⟨rest, ov⟩ := rr
    rw [hass] at hcons hov hvout
    simp only [List.map_nil, List.nil_append, Nat.zero_add] at hcons hov hvout
    simp only
    obtain ⟨s1, s2, s3, s4, s5⟩ := iiStart_facts cfg tx ls
    rw [hcb] at s5
    simp only [if_true] at s5
    have hlocsMem : ∀ p ∈ locs, p.2.1 ∈ iiSorted tx sc ls.ctx.flotsam := by
      intro p hp
      rw [← hcons]
      exact List.mem_append_left _ (List.mem_map.2 ⟨p, hp, rfl⟩)
    have hrestMem : ∀ f ∈ rest, f ∈ iiSorted tx sc ls.ctx.flotsam := by
      intro f hf
      rw [← hcons]
      exact List.mem_append_right _ hf
    have hsplit : countNew (locs.map (·.2.1)) + countNew rest = countNew ls.ctx.flotsam := by
      rw [← hScnt, ← hcons, countNew_append]
    have hinv1 : LInv (iiStart cfg tx ls) :=
      ⟨hinv.ids.congr s1.1 s1.2.1, by rw [s2, s1.1]; exact hinv.outs⟩
    obtain ⟨ls2, e2, i2, r2⟩ := applyLocations_valid cfg height time ir locs (iiStart cfg tx ls) hinv1
      (fun p hp => by rw [s1.1]; exact hSold _ (hlocsMem p hp))
      (by rw [s1.2.2.1, s1.2.2.2]; omega)
      (fun p hp rs hrs hnb => by rw [hir rs hrs]; exact hSoff _ (hlocsMem p hp) hnb)
      (fun p hp => by rw [s2, houtsLen]; exact hvout p hp)
    rw [e2]
    simp only
    unfold iiFinish
    rw [hcb]
    simp only [if_true]
    have hlen2 : ls.st.entries.length ≤ ls2.st.entries.length := by
      have := r2.len; rw [s1.1] at this; exact this
    obtain ⟨ls3, e3, i3, r3⟩ := applyLost_valid cfg height time ir ov rest ls2 i2
      (fun f hf s sp hs => Nat.lt_of_lt_of_le (hSold f (hrestMem f hf) s sp hs) hlen2)
      (by rw [r2.cnt, s1.2.2.1, s1.2.2.2]; omega)
      (fun f hf rs hrs hnb => by rw [hir rs hrs]; exact hSoff _ (hrestMem f hf) hnb)
    rw [e3]
    simp only
    have h3 : ¬ ls3.ctx.reward < ov := by
      rw [r3.reward, r2.reward, s3, hov]; omega
    rw [if_neg h3]
    refine ⟨_, rfl, ⟨⟨i3.ids, i3.outs⟩, Nat.le_trans hlen2 r3.len, ?_, ?_⟩, ?_, ?_⟩
    · show ls3.outs.length = ls.outs.length
      rw [r3.outsLen, r2.outsLen, s2]
    · intro f hf
      have : ls3.ctx.flotsam = [] := by rw [r3.flotsam, r2.flotsam, s5]
      simp only at hf
      rw [this] at hf; cases hf
    · show ls3.st.cursed + ls3.st.blessed = _
      rw [r3.cnt, r2.cnt, s1.2.2.1, s1.2.2.2]; omega
    · show ls3.ctx.flotsam = []
      rw [r3.flotsam, r2.flotsam, s5]

end Ord.Index.NoPanic
