import OrdModel.Proofs.IndexFlagsCharms
import OrdModel.Proofs.IndexMiscReplayFrame
import OrdModel.Proofs.IndexInslocTx
/-
C15 helper lemmas 2: the inscription updater under the simulation "drop what the optional
indexes add".  `stripW u st` erases the sat tables, the address rows, the stored transactions,
the `sat` field and the sat-derived charm bits of every entry, and replaces the UTXO table by
`u` (the inscription updater never touches it).  For every function of
`inscription_updater.rs`: if the run under `cfg` succeeds, the run under `cfg.base` (no sat /
address / transaction index) on the stripped arguments succeeds with the stripped result.
-/
namespace Ord.Index
open Outcome

def stripEntry (e : InsEntry) : InsEntry := { e with charms := nonSatCharms e.charms, sat := none }

/-- a UTXO entry as the configuration without optional indexes stores it: the value and the
inscriptions -/
def stripUtxo (cfg : Cfg) (e : UtxoEntry) : UtxoEntry := ⟨e.totalValue cfg, [], [], e.ins⟩

def stripEvent : Event → Event
  | .inscriptionCreated h c id loc ps seq => .inscriptionCreated h (nonSatCharms c) id loc ps seq
  | e => e

def stripW (u : List (OutPoint × UtxoEntry)) (st : State) : State :=
  { st with utxo := u, sat2sp := [], entries := st.entries.map stripEntry, sat2seq := [], script2out := [],
            txid2tx := [] }

def stripCtx (ctx : InsCtx) : InsCtx := { ctx with events := ctx.events.map stripEvent }

def stripLs (cfg : Cfg) (u : List (OutPoint × UtxoEntry)) (ls : LocState) : LocState :=
  ⟨stripW u ls.st, stripCtx ls.ctx, ls.outs.map (stripUtxo cfg)⟩

def stripInputs (cfg : Cfg) (l : List (TxIn × UtxoEntry)) : List (TxIn × UtxoEntry) :=
  l.map (fun p => (p.1, stripUtxo cfg p.2))

@[simp] theorem stripUtxo_totalValue (cfg : Cfg) (e : UtxoEntry) :
    (stripUtxo cfg e).totalValue cfg.base = e.totalValue cfg := by
  simp [stripUtxo, UtxoEntry.totalValue, Cfg.base]

@[simp] theorem stripUtxo_ins (cfg : Cfg) (e : UtxoEntry) : (stripUtxo cfg e).ins = e.ins := rfl

theorem stripUtxo_pushIns (cfg : Cfg) (e : UtxoEntry) (s o : Nat) :
    stripUtxo cfg (pushIns e s o) = pushIns (stripUtxo cfg e) s o := rfl

theorem stripW_entries_get (u : List (OutPoint × UtxoEntry)) (st : State) (i : Nat) :
    (stripW u st).entries[i]? = (st.entries[i]?).map stripEntry := by
  simp [stripW]

/-! ### the scan of the inputs -/

theorem curseOf_strip (u : List (OutPoint × UtxoEntry)) (st : State) (env : Envelope)
    (inscribed : List (Nat × InscriptionId × Nat)) (offset : Nat) :
    curseOf (stripW u st) env inscribed offset = curseOf st env inscribed offset := by
  unfold curseOf
  simp only [stripW_entries_get]
  have hid : (stripW u st).id2seq = st.id2seq := rfl
  rw [hid]
  cases AL.get inscribed offset with
  | none => rfl
  | some p =>
    obtain ⟨id, count⟩ := p
    dsimp only
    cases AL.get st.id2seq id with
    | none => rfl
    | some seq =>
      dsimp only
      cases st.entries[seq]? with
      | none => rfl
      | some e =>
        simp only [Option.map_some, stripEntry, hasCharm_nonSat_vindicated]

theorem scanOld_strip (u : List (OutPoint × UtxoEntry)) (st : State) (prev : OutPoint) (base : Nat) :
    ∀ (l : List (Nat × Nat)) (sc : ScanState),
      scanOld (stripW u st) prev base l sc = scanOld st prev base l sc
  | [], sc => rfl
  | (seq, off) :: rest, sc => by
    simp only [scanOld, stripW_entries_get]
    cases st.entries[seq]? with
    | none => rfl
    | some e =>
      simp only [Option.map_some]
      exact scanOld_strip u st prev base rest _

theorem scanNew_strip (u : List (OutPoint × UtxoEntry)) (st : State) (jub : Bool) (txid : Txid)
    (i off iv totalOut : Nat) : ∀ (envs : List Envelope) (sc : ScanState),
      scanNew (stripW u st) jub txid i off iv totalOut envs sc = scanNew st jub txid i off iv totalOut envs sc
  | [], sc => rfl
  | env :: rest, sc => by
    simp only [scanNew, curseOf_strip]
    split
    · rfl
    · split
      · rfl
      · rfl
      · exact scanNew_strip u st jub txid i off iv totalOut rest _

theorem scanInputs_strip (cfg : Cfg) (u : List (OutPoint × UtxoEntry)) (st : State) (jub : Bool) (txid : Txid)
    (height totalOut : Nat) : ∀ (inputs : List (TxIn × UtxoEntry)) (i : Nat) (sc : ScanState),
      scanInputs cfg.base (stripW u st) jub txid height totalOut (stripInputs cfg inputs) i sc =
        scanInputs cfg st jub txid height totalOut inputs i sc
  | [], i, sc => rfl
  | (txin, entry) :: rest, i, sc => by
    simp only [stripInputs, List.map_cons, scanInputs, scanOld_strip, scanNew_strip, stripUtxo_totalValue,
      stripUtxo_ins]
    split
    · exact scanInputs_strip cfg u st jub txid height totalOut rest (i + 1) _
    · split
      · rfl
      · rfl
      · split
        · rfl
        · rfl
        · exact scanInputs_strip cfg u st jub txid height totalOut rest (i + 1) _

/-! ### `update_inscription_location` -/

theorem linkParents_strip (u : List (OutPoint × UtxoEntry)) (seq : Nat) :
    ∀ (ps : List InscriptionId) (st : State) (ids : List InscriptionId) (seqs : List Nat)
      (st' : State) (ids' : List InscriptionId) (seqs' : List Nat),
      linkParents seq ps st ids seqs = .ok (st', ids', seqs') →
      linkParents seq ps (stripW u st) ids seqs = .ok (stripW u st', ids', seqs')
  | [], st, ids, seqs, st', ids', seqs', h => by
    simp only [linkParents, Outcome.ok.injEq, Prod.mk.injEq] at h
    obtain ⟨rfl, rfl, rfl⟩ := h
    rfl
  | p :: rest, st, ids, seqs, st', ids', seqs', h => by
    simp only [linkParents] at h ⊢
    have hid : (stripW u st).id2seq = st.id2seq := rfl
    rw [hid]
    cases hg : AL.get st.id2seq p with
    | none =>
      rw [hg] at h
      exact linkParents_strip u seq rest st ids seqs st' ids' seqs' h
    | some pseq =>
      rw [hg] at h
      dsimp only at h ⊢
      rw [stripW_entries_get]
      cases he : st.entries[pseq]? with
      | none => rw [he] at h; simp at h
      | some pentry =>
        rw [he] at h
        simp only [Option.map_some] at h ⊢
        have hh : (stripEntry pentry).hidden = pentry.hidden := rfl
        rw [hh]
        have := linkParents_strip u seq rest _ _ _ st' ids' seqs' h
        split
        · rename_i hhid
          simp only [hhid, if_true] at this
          exact this
        · rename_i hhid
          simp only [hhid] at this
          exact this

def charmTail (opr isNull unbound vindicated : Bool) (c2 : Nat) : Nat :=
  let c3 := if opr then setCharm c2 charmBurned else c2
  let c4 := if isNull then setCharm c3 charmLost else c3
  let c5 := if unbound then setCharm c4 charmUnbound else c4
  if vindicated then setCharm c5 charmVindicated else c5

theorem nonSat_charmTail (a b c d : Bool) (x : Nat) :
    nonSatCharms (charmTail a b c d x) = charmTail a b c d (nonSatCharms x) := by
  cases a <;> cases b <;> cases c <;> cases d <;>
    simp [charmTail, nonSatCharms_setBurned, nonSatCharms_setLost, nonSatCharms_setUnbound,
      nonSatCharms_setVindicated]

/-- the charms of a new inscription -/
def newCharms (cursed reinscription opr isNull unbound vindicated : Bool) (sat : Option Nat) : Nat :=
  let c0 := if cursed then charmCursed else 0
  let c1 := if reinscription then setCharm c0 charmReinscription else c0
  let c2 := match sat with | some s => c1 + satCharms s | none => c1
  charmTail opr isNull unbound vindicated c2

theorem nonSat_newCharms (cursed reinscription opr isNull unbound vindicated : Bool) (sat : Option Nat) :
    nonSatCharms (newCharms cursed reinscription opr isNull unbound vindicated sat) =
      newCharms cursed reinscription opr isNull unbound vindicated none := by
  unfold newCharms
  simp only [nonSat_charmTail]
  congr 1
  cases sat with
  | none => exact nonSatCharms_c1 _ (c1_cases cursed reinscription)
  | some s => exact nonSatCharms_add_satCharms _ s (c1_cases cursed reinscription)

/-- number, counters, `num2seq`, `sat2seq` of a new inscription: the state handed to `linkParents` -/
def newPre (st : State) (cursed : Bool) (sat : Option Nat) : State :=
  let number : Int := if cursed then -((st.cursed : Int) + 1) else (st.blessed : Int)
  let st0 := if cursed then { st with cursed := st.cursed + 1 } else { st with blessed := st.blessed + 1 }
  let seq := st0.entries.length
  let st1 := { st0 with num2seq := AL.set st0.num2seq number seq }
  match sat with
    | some s => { st1 with sat2seq := insertUnique st1.sat2seq (s, seq) }
    | none => st1

def newNumber (st : State) (cursed : Bool) : Int :=
  if cursed then -((st.cursed : Int) + 1) else (st.blessed : Int)

/-- gallery, entry, `id2seq`, home, event -/
def newPost (height time : Nat) (fl : Flotsam) (newSatpoint : SatPoint) (ctx : InsCtx) (seq : Nat) (number : Int)
    (fee : Nat) (gallery hidden : Bool) (unbound : Bool) (sat : Option Nat) (charms : Nat)
    (r : State × List InscriptionId × List Nat) : Bool × Nat × State × InsCtx :=
  match r with
  | (st3, parentIds, parentSeqs) =>
    let st4 := if gallery && !hidden then { st3 with gallery := insertUnique st3.gallery seq } else st3
    let ev := Event.inscriptionCreated height charms fl.id (if unbound then none else some newSatpoint) parentIds seq
    let entry : InsEntry := ⟨charms, fee, height, hidden, fl.id, number, parentSeqs, sat, seq, time⟩
    let st5 := { st4 with entries := st4.entries ++ [entry], id2seq := AL.set st4.id2seq fl.id seq }
    let (st6, homeCount) :=
      if hidden then (st5, ctx.homeCount)
      else
        let home := st5.home ++ [(seq, fl.id)]
        if ctx.homeCount = 100 then ({ st5 with home := home.drop 1 }, ctx.homeCount)
        else ({ st5 with home := home }, ctx.homeCount + 1)
    (unbound, seq, st6, { ctx with events := ctx.events ++ [ev], homeCount := homeCount })

/-- the table writes for a new inscription, once its sat and charms are known (verbatim from the
model) -/
def newWrites (height time : Nat) (fl : Flotsam) (newSatpoint : SatPoint) (ls : LocState)
    (cursed : Bool) (fee : Nat) (gallery hidden : Bool) (parents : List InscriptionId) (unbound : Bool)
    (sat : Option Nat) (charms : Nat) : Outcome (Bool × Nat × State × InsCtx) :=
  let number : Int := if cursed then -((ls.st.cursed : Int) + 1) else (ls.st.blessed : Int)
  let st0 := if cursed then { ls.st with cursed := ls.st.cursed + 1 } else { ls.st with blessed := ls.st.blessed + 1 }
  let seq := st0.entries.length
  let st1 := { st0 with num2seq := AL.set st0.num2seq number seq }
  let st2 := match sat with
    | some s => { st1 with sat2seq := insertUnique st1.sat2seq (s, seq) }
    | none => st1
  match linkParents seq parents st2 [] [] with
  | .panic s => .panic s
  | .err e => .err e
  | .ok (st3, parentIds, parentSeqs) =>
    let st4 := if gallery && !hidden then { st3 with gallery := insertUnique st3.gallery seq } else st3
    let ev := Event.inscriptionCreated height charms fl.id (if unbound then none else some newSatpoint) parentIds seq
    let entry : InsEntry := ⟨charms, fee, height, hidden, fl.id, number, parentSeqs, sat, seq, time⟩
    let st5 := { st4 with entries := st4.entries ++ [entry], id2seq := AL.set st4.id2seq fl.id seq }
    let (st6, homeCount) :=
      if hidden then (st5, ls.ctx.homeCount)
      else
        let home := st5.home ++ [(seq, fl.id)]
        if ls.ctx.homeCount = 100 then ({ st5 with home := home.drop 1 }, ls.ctx.homeCount)
        else ({ st5 with home := home }, ls.ctx.homeCount + 1)
    .ok (unbound, seq, st6, { ls.ctx with events := ls.ctx.events ++ [ev], homeCount := homeCount })

theorem newWrites_eq (height time : Nat) (fl : Flotsam) (newSatpoint : SatPoint) (ls : LocState)
    (cursed : Bool) (fee : Nat) (gallery hidden : Bool) (parents : List InscriptionId) (unbound : Bool)
    (sat : Option Nat) (charms : Nat) :
    newWrites height time fl newSatpoint ls cursed fee gallery hidden parents unbound sat charms =
      match linkParents ls.st.entries.length parents (newPre ls.st cursed sat) [] [] with
      | .panic s => .panic s
      | .err e => .err e
      | .ok r => .ok (newPost height time fl newSatpoint ls.ctx ls.st.entries.length (newNumber ls.st cursed)
          fee gallery hidden unbound sat charms r) := by
  cases cursed
  · have e1 : newWrites height time fl newSatpoint ls false fee gallery hidden parents unbound sat charms =
        (match linkParents ls.st.entries.length parents (newPre ls.st false sat) [] [] with
        | Outcome.panic s => Outcome.panic s
        | Outcome.err e => Outcome.err e
        | Outcome.ok (st3, parentIds, parentSeqs) =>
          Outcome.ok (newPost height time fl newSatpoint ls.ctx ls.st.entries.length (newNumber ls.st false)
            fee gallery hidden unbound sat charms (st3, parentIds, parentSeqs))) := rfl
    rw [e1]
    cases linkParents ls.st.entries.length parents (newPre ls.st false sat) [] [] with
    | panic s => rfl
    | err e => rfl
    | ok r => obtain ⟨a, b, c⟩ := r; rfl
  · have e1 : newWrites height time fl newSatpoint ls true fee gallery hidden parents unbound sat charms =
        (match linkParents ls.st.entries.length parents (newPre ls.st true sat) [] [] with
        | Outcome.panic s => Outcome.panic s
        | Outcome.err e => Outcome.err e
        | Outcome.ok (st3, parentIds, parentSeqs) =>
          Outcome.ok (newPost height time fl newSatpoint ls.ctx ls.st.entries.length (newNumber ls.st true)
            fee gallery hidden unbound sat charms (st3, parentIds, parentSeqs))) := rfl
    rw [e1]
    cases linkParents ls.st.entries.length parents (newPre ls.st true sat) [] [] with
    | panic s => rfl
    | err e => rfl
    | ok r => obtain ⟨a, b, c⟩ := r; rfl

theorem newPre_strip (u : List (OutPoint × UtxoEntry)) (st : State) (cursed : Bool) (sat : Option Nat) :
    newPre (stripW u st) cursed none = stripW u (newPre st cursed sat) := by
  cases cursed <;> cases sat <;> simp [newPre, stripW]

theorem newPost_strip (u : List (OutPoint × UtxoEntry)) (height time : Nat) (fl : Flotsam) (sp : SatPoint)
    (ctx : InsCtx) (seq : Nat) (number : Int) (fee : Nat) (gallery hidden unbound : Bool) (sat : Option Nat)
    (charms : Nat) (st3 : State) (pids : List InscriptionId) (pseqs : List Nat) :
    newPost height time fl sp (stripCtx ctx) seq number fee gallery hidden unbound none (nonSatCharms charms)
        (stripW u st3, pids, pseqs) =
      (match newPost height time fl sp ctx seq number fee gallery hidden unbound sat charms (st3, pids, pseqs) with
       | (b, s, st, c) => (b, s, stripW u st, stripCtx c)) := by
  unfold newPost
  cases gallery <;> cases hidden <;> by_cases hc : ctx.homeCount = 100 <;>
    simp [hc, stripW, stripCtx, stripEntry, stripEvent, List.map_append]

theorem newWrites_strip (cfg : Cfg) (u : List (OutPoint × UtxoEntry)) (height time : Nat) (fl : Flotsam)
    (sp : SatPoint) (ls : LocState) (cursed : Bool) (fee : Nat) (gallery hidden : Bool)
    (parents : List InscriptionId) (unbound : Bool) (sat : Option Nat) (charms : Nat)
    (b : Bool) (seq : Nat) (st' : State) (ctx' : InsCtx)
    (h : newWrites height time fl sp ls cursed fee gallery hidden parents unbound sat charms = .ok (b, seq, st', ctx')) :
    newWrites height time fl sp (stripLs cfg u ls) cursed fee gallery hidden parents unbound none (nonSatCharms charms) =
      .ok (b, seq, stripW u st', stripCtx ctx') := by
  rw [newWrites_eq] at h ⊢
  have hlen : (stripLs cfg u ls).st.entries.length = ls.st.entries.length := by simp [stripLs, stripW]
  have hst : (stripLs cfg u ls).st = stripW u ls.st := rfl
  have hctx : (stripLs cfg u ls).ctx = stripCtx ls.ctx := rfl
  have hnum : newNumber (stripW u ls.st) cursed = newNumber ls.st cursed := rfl
  rw [hlen, hst, hctx, newPre_strip u ls.st cursed sat, hnum]
  cases hl : linkParents ls.st.entries.length parents (newPre ls.st cursed sat) [] [] with
  | panic s => rw [hl] at h; simp at h
  | err e => rw [hl] at h; simp at h
  | ok r =>
    obtain ⟨st3, pids, pseqs⟩ := r
    rw [hl] at h
    rw [linkParents_strip u _ parents _ [] [] st3 pids pseqs hl]
    simp only [Outcome.ok.injEq] at h ⊢
    rw [newPost_strip u height time fl sp ls.ctx _ _ fee gallery hidden unbound sat charms st3 pids pseqs, h]

/-- `calculate_sat` or not -/
def satOf (inputRanges : Option (List (Nat × Nat))) (fl : Flotsam) (unbound : Bool) : Outcome (Option Nat) :=
  if unbound then .ok none
  else match inputRanges with
    | none => .ok none
    | some rs => match calculateSat rs 0 fl.offset with
      | .ok s => .ok (some s)
      | .panic s => .panic s
      | .err e => .err e

theorem uilStep_new (height time : Nat) (ir : Option (List (Nat × Nat))) (fl : Flotsam) (sp : SatPoint)
    (opr : Bool) (ls : LocState) (cursed : Bool) (fee : Nat) (gallery hidden : Bool)
    (parents : List InscriptionId) (reinscription unbound vindicated : Bool)
    (ho : fl.origin = .new cursed fee gallery hidden parents reinscription unbound vindicated) :
    uilStep height time ir fl sp opr ls =
      if (if cursed then ls.st.cursed else ls.st.blessed) ≥ 2147483648 then
        .panic "inscription count try_into::<i32>().unwrap()"
      else match satOf ir fl unbound with
        | .panic s => .panic s
        | .err e => .err e
        | .ok sat => newWrites height time fl sp ls cursed fee gallery hidden parents unbound sat
            (newCharms cursed reinscription opr sp.outpoint.isNull unbound vindicated sat) := by
  unfold uilStep
  rw [ho]
  rfl

theorem satOf_none (fl : Flotsam) (unbound : Bool) : satOf none fl unbound = .ok none := by
  cases unbound <;> rfl

theorem uilStep_strip (cfg : Cfg) (u : List (OutPoint × UtxoEntry)) (height time : Nat)
    (ir : Option (List (Nat × Nat))) (fl : Flotsam) (sp : SatPoint) (opr : Bool) (ls : LocState)
    (b : Bool) (seq : Nat) (st' : State) (ctx' : InsCtx)
    (hs : uilStep height time ir fl sp opr ls = .ok (b, seq, st', ctx')) :
    uilStep height time none fl sp opr (stripLs cfg u ls) = .ok (b, seq, stripW u st', stripCtx ctx') := by
  cases ho : fl.origin with
  | old oseq oldSp =>
    unfold uilStep at hs ⊢
    rw [ho] at hs ⊢
    dsimp only at hs ⊢
    have hget : (stripLs cfg u ls).st.entries[oseq]? = (ls.st.entries[oseq]?).map stripEntry :=
      stripW_entries_get u ls.st oseq
    rw [hget]
    cases he : ls.st.entries[oseq]? with
    | none =>
      rw [he] at hs
      cases opr with
      | true => simp at hs
      | false =>
        simp only [Bool.false_eq_true, if_false, Outcome.ok.injEq, Prod.mk.injEq] at hs
        obtain ⟨rfl, rfl, rfl, rfl⟩ := hs
        simp [stripLs, stripCtx, stripEvent, List.map_append]
    | some entry =>
      rw [he] at hs
      cases opr with
      | true =>
        simp only [if_true, Outcome.ok.injEq, Prod.mk.injEq] at hs
        obtain ⟨rfl, rfl, rfl, rfl⟩ := hs
        simp [stripLs, stripCtx, stripEvent, List.map_append, stripW, stripEntry, List.map_set,
          nonSatCharms_setBurned]
      | false =>
        simp only [Bool.false_eq_true, if_false, Outcome.ok.injEq, Prod.mk.injEq] at hs
        obtain ⟨rfl, rfl, rfl, rfl⟩ := hs
        simp [stripLs, stripCtx, stripEvent, List.map_append]
  | new cursed fee gallery hidden parents reinscription unbound vindicated =>
    rw [uilStep_new height time _ fl sp opr _ cursed fee gallery hidden parents reinscription unbound vindicated ho]
      at hs ⊢
    have hc : (stripLs cfg u ls).st.cursed = ls.st.cursed := rfl
    have hb : (stripLs cfg u ls).st.blessed = ls.st.blessed := rfl
    rw [hc, hb, satOf_none]
    generalize (if cursed = true then ls.st.cursed else ls.st.blessed) = count at hs ⊢
    by_cases hlt : count ≥ 2147483648
    · simp [hlt] at hs
    · simp only [hlt, if_false] at hs ⊢
      cases hsat : satOf ir fl unbound with
      | panic s => rw [hsat] at hs; simp at hs
      | err e => rw [hsat] at hs; simp at hs
      | ok sat =>
        rw [hsat] at hs
        dsimp only at hs ⊢
        have := newWrites_strip cfg u height time fl sp ls cursed fee gallery hidden parents unbound sat _ b seq st' ctx' hs
        rw [nonSat_newCharms] at this
        exact this

theorem uilFinish_strip (cfg : Cfg) (u : List (OutPoint × UtxoEntry)) (sp : SatPoint) (tgt : Target)
    (outs : List UtxoEntry) (b : Bool) (seq : Nat) (st : State) (ctx : InsCtx) (ls' : LocState)
    (hf : uilFinish sp tgt outs (b, seq, st, ctx) = .ok ls') :
    uilFinish sp tgt (outs.map (stripUtxo cfg)) (b, seq, stripW u st, stripCtx ctx) = .ok (stripLs cfg u ls') := by
  unfold uilFinish at hf ⊢
  dsimp only at hf ⊢
  cases b with
  | true =>
    simp only [if_true, Outcome.ok.injEq] at hf ⊢
    subst hf
    rfl
  | false =>
    simp only [Bool.false_eq_true, if_false] at hf ⊢
    cases tgt with
    | output vout =>
      dsimp only at hf ⊢
      rw [List.getElem?_map]
      cases hv : outs[vout]? with
      | none => rw [hv] at hf; simp at hf
      | some e =>
        rw [hv] at hf
        simp only [Outcome.ok.injEq, Option.map_some] at hf ⊢
        subst hf
        simp [stripLs, List.map_set, stripUtxo_pushIns]
    | null =>
      dsimp only at hf ⊢
      split at hf
      · simp at hf
      · rename_i hsp
        simp only [hsp, if_false]
        simp only [Outcome.ok.injEq] at hf ⊢
        subst hf
        rfl

theorem uil_strip (cfg : Cfg) (u : List (OutPoint × UtxoEntry)) (height time : Nat)
    (ir : Option (List (Nat × Nat))) (fl : Flotsam) (sp : SatPoint) (opr : Bool) (tgt : Target)
    (ls ls' : LocState)
    (h : updateInscriptionLocation cfg height time ir fl sp opr tgt ls = .ok ls') :
    updateInscriptionLocation cfg.base height time none fl sp opr tgt (stripLs cfg u ls) = .ok (stripLs cfg u ls') := by
  rw [uil_eq] at h ⊢
  cases hs : uilStep height time ir fl sp opr ls with
  | panic s => rw [hs] at h; simp at h
  | err e => rw [hs] at h; simp at h
  | ok r =>
    obtain ⟨b, seq, st, ctx⟩ := r
    rw [hs] at h
    rw [uilStep_strip cfg u height time ir fl sp opr ls b seq st ctx hs]
    exact uilFinish_strip cfg u sp tgt ls.outs b seq st ctx ls' h

theorem applyLocations_strip (cfg : Cfg) (u : List (OutPoint × UtxoEntry)) (height time : Nat)
    (ir : Option (List (Nat × Nat))) : ∀ (locs : List (SatPoint × Flotsam × Bool)) (ls ls' : LocState),
      applyLocations cfg height time ir locs ls = .ok ls' →
      applyLocations cfg.base height time none locs (stripLs cfg u ls) = .ok (stripLs cfg u ls')
  | [], ls, ls', h => by
    simp only [applyLocations, Outcome.ok.injEq] at h ⊢
    rw [h]
  | (sp, fl, opr) :: rest, ls, ls', h => by
    simp only [applyLocations] at h ⊢
    cases hu : updateInscriptionLocation cfg height time ir fl sp opr (.output sp.outpoint.vout) ls with
    | panic s => rw [hu] at h; simp at h
    | err e => rw [hu] at h; simp at h
    | ok ls1 =>
      rw [hu] at h
      rw [uil_strip cfg u height time ir fl sp opr _ ls ls1 hu]
      exact applyLocations_strip cfg u height time ir rest ls1 ls' h

theorem applyLost_strip (cfg : Cfg) (u : List (OutPoint × UtxoEntry)) (height time : Nat)
    (ir : Option (List (Nat × Nat))) (ov : Nat) : ∀ (fls : List Flotsam) (ls ls' : LocState),
      applyLost cfg height time ir ov fls ls = .ok ls' →
      applyLost cfg.base height time none ov fls (stripLs cfg u ls) = .ok (stripLs cfg u ls')
  | [], ls, ls', h => by
    simp only [applyLost, Outcome.ok.injEq] at h ⊢
    rw [h]
  | fl :: rest, ls, ls', h => by
    simp only [applyLost] at h ⊢
    have hl : (stripLs cfg u ls).ctx.lostSats = ls.ctx.lostSats := rfl
    rw [hl]
    cases hu : updateInscriptionLocation cfg height time ir fl
        ⟨OutPoint.null, ls.ctx.lostSats + fl.offset - ov⟩ false .null ls with
    | panic s => rw [hu] at h; simp at h
    | err e => rw [hu] at h; simp at h
    | ok ls1 =>
      rw [hu] at h
      rw [uil_strip cfg u height time ir fl _ false _ ls ls1 hu]
      exact applyLost_strip cfg u height time ir ov rest ls1 ls' h

open Insloc in
theorem placeTx_strip (cfg : Cfg) (u : List (OutPoint × UtxoEntry)) (height time : Nat) (tx : Tx)
    (ir : Option (List (Nat × Nat))) (cb : Bool) (totalIn : Nat) (floating : List Flotsam) (st1 : State)
    (ls ls' : LocState)
    (h : placeTx cfg height time tx ir cb totalIn floating st1 ls = .ok ls') :
    placeTx cfg.base height time tx none cb totalIn floating (stripW u st1) (stripLs cfg u ls) =
      .ok (stripLs cfg u ls') := by
  cases cb with
  | true =>
    unfold placeTx at h ⊢
    simp only [if_true] at h ⊢
    have hfl : (stripLs cfg u ls).ctx.flotsam = ls.ctx.flotsam := rfl
    rw [hfl]
    generalize assignOutputs tx.txid tx.outputs 0 0
      (sortByKey (fun x => x.offset) (floating ++ ls.ctx.flotsam)) [] = r at h ⊢
    cases ha : applyLocations cfg height time ir r.1
        { st := st1, ctx := { ls.ctx with flotsam := [] }, outs := ls.outs } with
    | panic s => rw [ha] at h; simp at h
    | err e => rw [ha] at h; simp at h
    | ok ls2 =>
      rw [ha] at h
      have ha' := applyLocations_strip cfg u height time ir r.1 _ ls2 ha
      have hstart : stripLs cfg u { st := st1, ctx := { ls.ctx with flotsam := [] }, outs := ls.outs } =
          { st := stripW u st1, ctx := { (stripLs cfg u ls).ctx with flotsam := [] }, outs := (stripLs cfg u ls).outs } := rfl
      rw [hstart] at ha'
      rw [ha']
      dsimp only at h ⊢
      cases hl : applyLost cfg height time ir r.2.2 r.2.1 ls2 with
      | panic s => rw [hl] at h; simp at h
      | err e => rw [hl] at h; simp at h
      | ok ls3 =>
        rw [hl] at h
        rw [applyLost_strip cfg u height time ir r.2.2 r.2.1 ls2 ls3 hl]
        dsimp only at h ⊢
        have hrw : (stripLs cfg u ls3).ctx.reward = ls3.ctx.reward := rfl
        rw [hrw]
        split at h
        · simp at h
        · rename_i hlt
          simp only [hlt, if_false, Outcome.ok.injEq] at h ⊢
          subst h
          rfl
  | false =>
    unfold placeTx at h ⊢
    simp only [Bool.false_eq_true, if_false] at h ⊢
    generalize assignOutputs tx.txid tx.outputs 0 0 (sortByKey (fun x => x.offset) floating) [] = r at h ⊢
    cases ha : applyLocations cfg height time ir r.1 { st := st1, ctx := ls.ctx, outs := ls.outs } with
    | panic s => rw [ha] at h; simp at h
    | err e => rw [ha] at h; simp at h
    | ok ls2 =>
      rw [ha] at h
      have ha' := applyLocations_strip cfg u height time ir r.1 _ ls2 ha
      have hstart : stripLs cfg u { st := st1, ctx := ls.ctx, outs := ls.outs } =
          { st := stripW u st1, ctx := (stripLs cfg u ls).ctx, outs := (stripLs cfg u ls).outs } := rfl
      rw [hstart] at ha'
      rw [ha']
      dsimp only at h ⊢
      split at h
      · simp at h
      · rename_i hlt
        simp only [hlt, if_false, Outcome.ok.injEq] at h ⊢
        subst h
        simp [stripLs, stripCtx]

open Insloc in
theorem indexInscriptions_strip (cfg : Cfg) (u : List (OutPoint × UtxoEntry)) (height time : Nat) (tx : Tx)
    (inputs : List (TxIn × UtxoEntry)) (ir : Option (List (Nat × Nat))) (ls ls' : LocState)
    (h : indexInscriptions cfg height time tx inputs ir ls = .ok ls') :
    indexInscriptions cfg.base height time tx (stripInputs cfg inputs) none (stripLs cfg u ls) =
      .ok (stripLs cfg u ls') := by
  rw [indexInscriptions_eq] at h ⊢
  have hst : (stripLs cfg u ls).st = stripW u ls.st := rfl
  have hj : cfg.base.jubileeHeight = cfg.jubileeHeight := rfl
  have ht : cfg.base.indexTransactions = false := rfl
  rw [hst, hj, ht, scanInputs_strip]
  cases hsc : scanInputs cfg ls.st (decide (height ≥ cfg.jubileeHeight)) tx.txid height (txTotalOut tx) inputs 0
      { envelopes := tx.envelopes } with
  | panic s => rw [hsc] at h; simp at h
  | err e => rw [hsc] at h; simp at h
  | ok sc =>
    rw [hsc] at h
    dsimp only at h ⊢
    split at h
    · simp at h
    · rename_i h1
      split at h
      · simp at h
      · rename_i h2
        simp only [h1, h2, if_false, Bool.false_and, Bool.false_eq_true]
        have := placeTx_strip cfg u height time tx ir (txIsCoinbase tx) sc.totalInputValue (txFloating tx sc) _ ls ls' h
        have hs1 : stripW u (if (cfg.indexTransactions && !tx.envelopes.isEmpty) = true then
            { ls.st with txid2tx := AL.set ls.st.txid2tx tx.txid tx.size } else ls.st) = stripW u ls.st := by
          split <;> rfl
        rw [hs1] at this
        exact this

end Ord.Index
