import OrdModel.Wallet.Batch
/-!
Helper lemmas for C21: the first-fit walk `locate`, the pointer loop, list sums.
-/
namespace Ord.Batch

theorem sum_take_le (l : List Nat) (i : Nat) : (l.take i).sum ≤ l.sum := by
  induction l generalizing i with
  | nil => simp
  | cons a l ih =>
    cases i with
    | zero => simp
    | succ i =>
      simp only [List.take_succ_cons, List.sum_cons]
      have := ih i
      omega

theorem sum_take_succ_le (l : List Nat) (i v : Nat) (h : l[i]? = some v) :
    (l.take i).sum + v ≤ l.sum := by
  induction l generalizing i with
  | nil => simp at h
  | cons a l ih =>
    cases i with
    | zero =>
      simp at h
      subst h
      simp
    | succ i =>
      simp only [List.take_succ_cons, List.sum_cons]
      have := ih i (by simpa using h)
      omega

/-- an offset inside the value interval of output `j` is located there -/
theorem locate_of_bounds : ∀ (vs : List Nat) (j k v : Nat), vs[j]? = some v →
    (vs.take j).sum ≤ k → k < (vs.take j).sum + v →
    locate vs k = some (j, k - (vs.take j).sum)
  | [], j, k, v, h, _, _ => by simp at h
  | v0 :: rest, 0, k, v, h, _, hhi => by
    simp at h
    subst h
    simp at hhi
    simp [locate, hhi]
  | v0 :: rest, j + 1, k, v, h, hlo, hhi => by
    simp only [List.take_succ_cons, List.sum_cons] at hlo hhi
    have hnot : ¬ k < v0 := by omega
    have ih := locate_of_bounds rest j (k - v0) v (by simpa using h) (by omega) (by omega)
    unfold locate
    rw [if_neg hnot, ih]
    simp only [List.take_succ_cons, List.sum_cons]
    congr 2
    omega

theorem locate_some_lt : ∀ (vs : List Nat) (k : Nat) (x : Nat × Nat), locate vs k = some x → k < vs.sum
  | [], _, _, h => by simp [locate] at h
  | v :: vs, k, x, h => by
    unfold locate at h
    by_cases hk : k < v
    · simp only [List.sum_cons]; omega
    · rw [if_neg hk] at h
      split at h
      · rename_i j o hl
        have := locate_some_lt vs (k - v) (j, o) hl
        simp only [List.sum_cons]; omega
      · simp at h

theorem pointersFrom_get (b : Bool) : ∀ (es : List Nat) (start i : Nat), i < es.length →
    (pointersFrom b es start)[i]? = some (start + (if b then 0 else (es.take i).sum))
  | [], _, _, h => by simp at h
  | e :: es, start, 0, _ => by simp [pointersFrom]
  | e :: es, start, i + 1, h => by
    have ih := pointersFrom_get b es (if b then start else start + e) i (by simpa using h)
    simp only [pointersFrom, List.getElem?_cons_succ, ih, List.take_succ_cons, List.sum_cons]
    cases b <;> simp <;> omega

theorem pointersFrom_length (b : Bool) : ∀ (es : List Nat) (start : Nat),
    (pointersFrom b es start).length = es.length
  | [], _ => rfl
  | e :: es, start => by simp [pointersFrom, pointersFrom_length b es]

end Ord.Batch
