import OrdModel.Proofs.IndexSchedChain
/-
C12 helper lemmas 8: the chain conditions in readable form, the single-block batch as a
syntactic equality, and the two-schedule corollary.
-/
namespace Ord.Index.Sched
open Ord Ord.Index Outcome

/-- all txids of a chain, in order -/
def chainTxids (chain : List Block) : List Txid := (chain.flatMap (·.txs)).map (·.txid)

/-- the conditions on the chain under which C12 is proved -/
structure ChainCond (chain : List Block) : Prop where
  /-- no two transactions of the chain have the same txid -/
  txidsDistinct : (chainTxids chain).Nodup
  /-- the all-zero txid is reserved for the null / unbound outpoints -/
  txidsNonzero : ∀ b ∈ chain, ∀ tx ∈ b.txs, tx.txid ≠ 0
  /-- no transaction but the first of a block has the null or the unbound outpoint as an input -/
  noSpecialSpend : ∀ b ∈ chain, ∀ tx ∈ b.txs.drop 1, ∀ i ∈ tx.inputs, i.prev.isSpecial = false

theorem chainTxids_cons (b : Block) (bs : List Block) :
    chainTxids (b :: bs) = b.txs.map (·.txid) ++ chainTxids bs := by
  simp [chainTxids]

theorem ChainOK_of (chain : List Block) (seen : List Txid)
    (hnd : (chainTxids chain).Nodup) (hdisj : ∀ t ∈ chainTxids chain, t ∉ seen)
    (h0 : ∀ b ∈ chain, ∀ tx ∈ b.txs, tx.txid ≠ 0)
    (hsp : ∀ b ∈ chain, ∀ tx ∈ b.txs.drop 1, ∀ i ∈ tx.inputs, i.prev.isSpecial = false) :
    ChainOK seen chain := by
  induction chain generalizing seen with
  | nil => trivial
  | cons b bs ih =>
    rw [chainTxids_cons] at hnd hdisj
    rw [List.nodup_append] at hnd
    refine ⟨⟨h0 b (by simp), ?_, hnd.1, hsp b (by simp)⟩, ?_⟩
    · intro tx htx
      exact hdisj _ (List.mem_append_left _ (List.mem_map.2 ⟨tx, htx, rfl⟩))
    · apply ih _ hnd.2.1
      · intro t ht hmem
        rcases List.mem_append.1 hmem with h | h
        · exact hnd.2.2 t h t ht rfl
        · exact hdisj t (List.mem_append_right _ ht) h
      · exact fun b' hb' => h0 b' (by simp [hb'])
      · exact fun b' hb' => hsp b' (by simp [hb'])

theorem ChainCond.chainOK {chain : List Block} (h : ChainCond chain) : ChainOK [] chain :=
  ChainOK_of chain [] h.txidsDistinct (fun _ _ hm => by cases hm) h.txidsNonzero h.noSpecialSpend

/-! ### `OutRel` plumbing -/

theorem OutRel.mono {α β : Type} {R R' : α → β → Prop} (h : ∀ a b, R a b → R' a b) {x : Outcome α} {y : Outcome β}
    (hxy : OutRel R x y) : OutRel R' x y := by
  cases x <;> cases y <;> simp_all [OutRel]

theorem OutRel.trans_symm {α β : Type} {R : α → β → Prop} {R' : α → α → Prop}
    (h : ∀ a a' b, R a b → R a' b → R' a a') {x x' : Outcome α} {y : Outcome β}
    (h1 : OutRel R x y) (h2 : OutRel R x' y) : OutRel R' x x' := by
  cases x <;> cases x' <;> cases y <;> simp_all [OutRel]
  exact h _ _ _ h1 h2

/-! ### a single-block batch is `applyBlock`, syntactically -/

theorem flushEntry_tri (cfg : Cfg) (st st' : State) (op : OutPoint) (e : UtxoEntry) (h : tri st = tri st') :
    tri (flushEntry cfg st op e) = tri (flushEntry cfg st' op e) := by
  have hu : st.utxo = st'.utxo := congrArg Tri.utxo h
  have hq : st.seq2sp = st'.seq2sp := congrArg Tri.seq2sp h
  have hs : st.script2out = st'.script2out := congrArg Tri.script2out h
  show Tri.mk _ _ _ = Tri.mk _ _ _
  rw [flushEntry_utxo, flushEntry_utxo, flushEntry_seq2sp, flushEntry_seq2sp, flushEntry_script2out,
    flushEntry_script2out, hu, hq, hs]

theorem flushCache_tri (cfg : Cfg) (c : Cache) (st st' : State) (h : tri st = tri st') :
    tri (flushCache cfg st c) = tri (flushCache cfg st' c) := by
  induction c generalizing st st' with
  | nil => exact h
  | cons p rest ih =>
    obtain ⟨op, e⟩ := p
    rw [flushCache_cons, flushCache_cons]
    exact ih _ _ (flushEntry_tri cfg st st' op e h)

theorem flushCache_eq_W (cfg : Cfg) (c : Cache) (st : State) :
    flushCache cfg st c = W st (tri (flushCache cfg st c)) :=
  eq_W_of_core (flushCache_core cfg c st).symm

theorem bc0C_nil (cfg : Cfg) (st : State) (blk : Block) : bc0C cfg ⟨st, []⟩ blk = bc0A cfg st blk := rfl

/-- index one block into an empty cache and commit = `applyBlock` (needs only: `flushCache`
commutes with the rune pass and the header write) -/
theorem singleBlock_eq (cfg : Cfg) (st : State) (blk : Block) :
    omap (fun r => ((r.1.commit cfg).st, r.2)) (indexBlockC cfg ⟨st, []⟩ blk) = applyBlock cfg st blk := by
  unfold indexBlockC applyBlock
  -- the part after the UTXO pass, for a store whose flushed state is `a1`
  have after : ∀ (s1 : Store) (ev1 : List Event),
      omap (fun r => ((Store.commit cfg r.1).st, r.2))
        (match (if cfg.indexRunes && blk.height ≥ cfg.firstRuneHeight then indexRunesBlock s1.st blk else .ok (s1.st, []) :
            Outcome (State × List Event)) with
          | .panic e => .panic e
          | .err e => .err e
          | .ok (st2, ev2) =>
            .ok ({ s1 with st := { st2 with headers := st2.headers ++ [(blk.height, blk.hash)], height := st2.height + 1 } }, ev1 ++ ev2)) =
      (match (if cfg.indexRunes && blk.height ≥ cfg.firstRuneHeight then indexRunesBlock (flushCache cfg s1.st s1.cache) blk
              else .ok (flushCache cfg s1.st s1.cache, []) : Outcome (State × List Event)) with
          | .panic e => .panic e
          | .err e => .err e
          | .ok (st2, ev2) =>
            .ok ({ st2 with headers := st2.headers ++ [(blk.height, blk.hash)], height := st2.height + 1 }, ev1 ++ ev2)) := by
    intro s1 ev1
    obtain ⟨st1, c1⟩ := s1
    have key : ∀ st2 : State, tri st2 = tri st1 →
        flushCache cfg { st2 with headers := st2.headers ++ [(blk.height, blk.hash)], height := st2.height + 1 } c1 =
          { (W st2 (tri (flushCache cfg st1 c1))) with headers := st2.headers ++ [(blk.height, blk.hash)], height := st2.height + 1 } := by
      intro st2 h2
      rw [flushCache_eq_W]
      have : tri (flushCache cfg { st2 with headers := st2.headers ++ [(blk.height, blk.hash)], height := st2.height + 1 } c1) =
          tri (flushCache cfg st1 c1) := flushCache_tri cfg c1 _ _ h2
      rw [this]; rfl
    cases hcond : (cfg.indexRunes && decide (blk.height ≥ cfg.firstRuneHeight)) with
    | false =>
      simp only [Bool.false_eq_true, if_false, omap_ok, Store.commit]
      rw [key st1 rfl]
      have hFW := flushCache_eq_W cfg c1 st1
      generalize flushCache cfg st1 c1 = F at hFW ⊢
      rw [hFW]
      rfl
    | true =>
      simp only [if_true]
      rw [flushCache_eq_W cfg c1 st1, indexRunesBlock_W]
      cases hr : indexRunesBlock st1 blk with
      | panic e => rfl
      | err e => rfl
      | ok r =>
        obtain ⟨st2, ev2⟩ := r
        simp only [omap_ok, Store.commit]
        rw [key st2 (indexRunesBlock_tri _ _ _ _ hr)]
        rfl
  cases hflags : (cfg.indexInscriptions || cfg.indexAddresses || cfg.indexSats) with
  | false =>
    simp only [Bool.false_eq_true, if_false]
    exact after ⟨st, []⟩ []
  | true =>
    simp only [if_true]
    rw [indexUtxoEntriesC_eq, indexUtxoEntries_eq, bc0C_nil]
    cases indexTxs cfg blk (insOnOf cfg blk) (blockOrder blk) (bc0A cfg st blk) with
    | panic e => rfl
    | err e => rfl
    | ok bc =>
      simp only
      exact after ⟨_, _⟩ _

end Ord.Index.Sched
