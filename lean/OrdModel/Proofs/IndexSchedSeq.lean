import OrdModel.Proofs.IndexSchedMain
import OrdModel.Proofs.IndexInsloc
/-
C12 helper lemmas 9: `seq2sp` (SEQUENCE_NUMBER_TO_SATPOINT).  The table is rewritten only by
`flushCache`, from the `ins` lists of the flushed entries.  Where the abstract layer keeps the
table consistent with the output lists (`SeqConsistent`: C04's invariant), every schedule
commits the same table as a finite map.
-/
namespace Ord.Index.Sched
open Ord Ord.Index Outcome

/-! ### single-run frame: between commits the concrete tables only lose `utxo` rows -/

/-- `x` (later) against `y` (earlier): same `seq2sp`, `utxo` rows only removed -/
def Sub (x y : Tri) : Prop :=
  x.seq2sp = y.seq2sp ∧ (∀ p ∈ x.utxo, p ∈ y.utxo) ∧ (y.script2out.Nodup → x.script2out.Nodup)

theorem Sub.refl (x : Tri) : Sub x x := ⟨rfl, fun _ h => h, id⟩
theorem Sub.trans {x y z : Tri} (h1 : Sub x y) (h2 : Sub y z) : Sub x z :=
  ⟨h1.1.trans h2.1, fun p hp => h2.2.1 p (h1.2.1 p hp), fun h => h1.2.2 (h2.2.2 h)⟩
theorem Sub.of_eq {x y : Tri} (h : x = y) : Sub x y := h ▸ Sub.refl x

theorem mem_erase_sub {κ ν : Type} [BEq κ] (l : List (κ × ν)) (k : κ) (p : κ × ν) (h : p ∈ AL.erase l k) : p ∈ l := by
  induction l with
  | nil => simp [AL.erase] at h
  | cons q rest ih =>
    obtain ⟨k0, v0⟩ := q
    simp only [AL.erase] at h
    split at h
    · exact List.mem_cons_of_mem _ h
    · rcases List.mem_cons.1 h with h | h
      · rw [h]; exact List.mem_cons_self
      · exact List.mem_cons_of_mem _ (ih h)

theorem takeOne_sub (cfg : Cfg) (bc : BlockCtx) (i : TxIn) (bc' : BlockCtx) (e : UtxoEntry)
    (h : takeOne cfg bc i = .ok (bc', e)) : Sub (tri bc'.st) (tri bc.st) := by
  unfold takeOne at h
  split at h
  · simp only [Outcome.ok.injEq, Prod.mk.injEq] at h; rw [← h.1]; exact Sub.refl _
  · split at h
    · simp only at h
      split at h
      · split at h
        · simp only [Outcome.ok.injEq, Prod.mk.injEq] at h; rw [← h.1]
          exact ⟨rfl, fun p hp => mem_erase_sub _ _ p hp, fun hn => List.Nodup.sublist List.filter_sublist hn⟩
        · cases h
      · simp only [Outcome.ok.injEq, Prod.mk.injEq] at h; rw [← h.1]
        exact ⟨rfl, fun p hp => mem_erase_sub _ _ p hp, id⟩
    · cases h

theorem takeInputEntries_sub (cfg : Cfg) (inputs : List TxIn) (bc : BlockCtx) (acc : List (TxIn × UtxoEntry))
    (bc' : BlockCtx) (r : List (TxIn × UtxoEntry))
    (h : takeInputEntries cfg inputs bc acc = .ok (bc', r)) : Sub (tri bc'.st) (tri bc.st) := by
  induction inputs generalizing bc acc with
  | nil => simp only [takeInputEntries, Outcome.ok.injEq, Prod.mk.injEq] at h; rw [← h.1]; exact Sub.refl _
  | cons i rest ih =>
    rw [takeInputEntries_cons] at h
    split at h
    · rename_i bc1 e h1
      exact (ih _ _ h).trans (takeOne_sub _ _ _ _ _ h1)
    · cases h
    · cases h

theorem indexTx_sub (cfg : Cfg) (blk : Block) (insOn : Bool) (txOffset : Nat) (tx : Tx) (bc bc' : BlockCtx)
    (h : indexTx cfg blk insOn txOffset tx bc = .ok bc') : Sub (tri bc'.st) (tri bc.st) := by
  rw [indexTx_eq] at h
  have mid : ∀ (bc1 : BlockCtx) (inputs : List (TxIn × UtxoEntry)),
      (match indexTxMid cfg blk insOn txOffset tx bc1 inputs with
        | .panic s => .panic s
        | .err e => .err e
        | .ok (bc3, outs3) => Outcome.ok { bc3 with cache := cacheIns tx.txid outs3 bc3.cache } : Outcome BlockCtx) = .ok bc' →
      tri bc'.st = tri bc1.st := by
    intro bc1 inputs h1
    cases hm : indexTxMid cfg blk insOn txOffset tx bc1 inputs with
    | panic s => rw [hm] at h1; cases h1
    | err e => rw [hm] at h1; cases h1
    | ok r =>
      obtain ⟨bc3, outs3⟩ := r
      rw [hm] at h1
      simp only [Outcome.ok.injEq] at h1
      rw [← h1]
      exact (indexTxMid_frame _ _ _ _ _ _ _ _ _ hm).1
  by_cases hz : txOffset = 0
  · subst hz
    simp only [if_true] at h
    exact Sub.of_eq (mid _ _ h)
  · simp only [hz, if_false] at h
    cases ht : takeInputEntries cfg tx.inputs bc [] with
    | panic s => rw [ht] at h; cases h
    | err e => rw [ht] at h; cases h
    | ok r =>
      obtain ⟨bc1, inputs⟩ := r
      rw [ht] at h
      simp only at h
      exact (Sub.of_eq (mid bc1 inputs h)).trans (takeInputEntries_sub _ _ _ _ _ _ ht)

theorem indexTxs_sub (cfg : Cfg) (blk : Block) (insOn : Bool) (l : List (Nat × Tx)) (bc bc' : BlockCtx)
    (h : indexTxs cfg blk insOn l bc = .ok bc') : Sub (tri bc'.st) (tri bc.st) := by
  induction l generalizing bc with
  | nil => simp only [indexTxs, Outcome.ok.injEq] at h; rw [← h]; exact Sub.refl _
  | cons p rest ih =>
    obtain ⟨i, tx⟩ := p
    simp only [indexTxs] at h
    split at h
    · cases h
    · cases h
    · rename_i bc1 h1
      exact (ih _ h).trans (indexTx_sub _ _ _ _ _ _ _ h1)

theorem indexUtxoEntriesC_sub (cfg : Cfg) (s : Store) (blk : Block) (s' : Store) (ev : List Event)
    (h : indexUtxoEntriesC cfg s blk = .ok (s', ev)) : Sub (tri s'.st) (tri s.st) := by
  rw [indexUtxoEntriesC_eq] at h
  cases ht : indexTxs cfg blk (insOnOf cfg blk) (blockOrder blk) (bc0C cfg s blk) with
  | panic e => rw [ht] at h; cases h
  | err e => rw [ht] at h; cases h
  | ok bc =>
    rw [ht] at h
    simp only [Outcome.ok.injEq, Prod.mk.injEq] at h
    rw [← h.1]
    show Sub (tri (endState cfg blk (insOnOf cfg blk) bc).1) (tri s.st)
    rw [endState_tri]
    exact indexTxs_sub _ _ _ _ _ _ ht

theorem indexBlockC_sub (cfg : Cfg) (s : Store) (blk : Block) (s' : Store) (ev : List Event)
    (h : indexBlockC cfg s blk = .ok (s', ev)) : Sub (tri s'.st) (tri s.st) := by
  unfold indexBlockC at h
  have after : ∀ (s1 : Store) (ev1 : List Event),
      (match (if cfg.indexRunes && blk.height ≥ cfg.firstRuneHeight then indexRunesBlock s1.st blk else .ok (s1.st, []) :
            Outcome (State × List Event)) with
          | .panic e => .panic e
          | .err e => .err e
          | .ok (st2, ev2) =>
            .ok ({ s1 with st := { st2 with headers := st2.headers ++ [(blk.height, blk.hash)], height := st2.height + 1 } }, ev1 ++ ev2)
        : Outcome (Store × List Event)) = .ok (s', ev) → tri s'.st = tri s1.st := by
    intro s1 ev1 h1
    cases hcond : (cfg.indexRunes && decide (blk.height ≥ cfg.firstRuneHeight)) with
    | false =>
      simp only [hcond, Bool.false_eq_true, if_false, Outcome.ok.injEq, Prod.mk.injEq] at h1
      rw [← h1.1]; rfl
    | true =>
      simp only [hcond, if_true] at h1
      cases hr : indexRunesBlock s1.st blk with
      | panic e => rw [hr] at h1; cases h1
      | err e => rw [hr] at h1; cases h1
      | ok r =>
        obtain ⟨st2, ev2⟩ := r
        rw [hr] at h1
        simp only [Outcome.ok.injEq, Prod.mk.injEq] at h1
        rw [← h1.1]
        have ht := indexRunesBlock_tri _ _ _ _ hr
        exact ht
  cases hflags : (cfg.indexInscriptions || cfg.indexAddresses || cfg.indexSats) with
  | false =>
    simp only [hflags, Bool.false_eq_true, if_false] at h
    exact Sub.of_eq (after s [] h)
  | true =>
    simp only [hflags, if_true] at h
    cases hu : indexUtxoEntriesC cfg s blk with
    | panic e => rw [hu] at h; cases h
    | err e => rw [hu] at h; cases h
    | ok r =>
      obtain ⟨s1, ev1⟩ := r
      rw [hu] at h
      simp only at h
      exact (Sub.of_eq (after s1 ev1 h)).trans (indexUtxoEntriesC_sub _ _ _ _ _ hu)

/-- index the blocks of a batch without committing -/
def indexBlocksC (cfg : Cfg) : List Block → Store → Outcome Store
  | [], s => .ok s
  | b :: bs, s =>
    match indexBlockC cfg s b with
    | .panic e => .panic e
    | .err e => .err e
    | .ok (s', _) => indexBlocksC cfg bs s'

theorem runBatch_eq (cfg : Cfg) (bs : List Block) (s : Store) :
    runBatch cfg bs s = omap (Store.commit cfg) (indexBlocksC cfg bs s) := by
  induction bs generalizing s with
  | nil => rfl
  | cons b rest ih =>
    simp only [runBatch, indexBlocksC]
    cases indexBlockC cfg s b with
    | panic e => rfl
    | err e => rfl
    | ok r => obtain ⟨s1, ev⟩ := r; exact ih s1

theorem indexBlocksC_sub (cfg : Cfg) (bs : List Block) (s s' : Store)
    (h : indexBlocksC cfg bs s = .ok s') : Sub (tri s'.st) (tri s.st) := by
  induction bs generalizing s with
  | nil => simp only [indexBlocksC, Outcome.ok.injEq] at h; rw [← h]; exact Sub.refl _
  | cons b rest ih =>
    simp only [indexBlocksC] at h
    split at h
    · cases h
    · cases h
    · rename_i s1 ev h1
      exact (ih _ h).trans (indexBlockC_sub _ _ _ _ _ h1)

theorem indexBlocksC_rel (cfg : Cfg) (bs : List Block) (seen : List Txid) (s : Store) (a : State)
    (hS : SRel cfg seen s a) (hc : ChainOK seen bs) :
    OutRel (SRel cfg (seenChain seen bs)) (indexBlocksC cfg bs s) (runBlocks cfg bs a) := by
  induction bs generalizing seen s a with
  | nil => simpa [indexBlocksC, runBlocks, OutRel, seenChain] using hS
  | cons b rest ih =>
    simp only [indexBlocksC, runBlocks]
    have h1 := indexBlock_rel cfg seen s a b hS hc.1
    cases hC : indexBlockC cfg s b with
    | panic e => cases hA : applyBlock cfg a b <;> simp_all [OutRel]
    | err e => cases hA : applyBlock cfg a b <;> simp_all [OutRel]
    | ok rC =>
      cases hA : applyBlock cfg a b with
      | panic e => simp_all [OutRel]
      | err e => simp_all [OutRel]
      | ok rA =>
        rw [hC, hA] at h1
        obtain ⟨s1, evC⟩ := rC
        obtain ⟨a1, evA⟩ := rA
        simp only [OutRel] at h1
        simp only
        exact ih _ s1 a1 h1.2 hc.2

/-! ### `seq2sp` keys and `script2out` rows stay duplicate-free -/

/-- no duplicate `seq2sp` keys, no duplicate `script2out` rows -/
def WF2 (x : Tri) : Prop := (AL.keys x.seq2sp).Nodup ∧ x.script2out.Nodup

theorem Sub.wf2 {x y : Tri} (h : Sub x y) (hy : WF2 y) : WF2 x := ⟨h.1 ▸ hy.1, h.2.2 hy.2⟩

theorem nodup_foldl_set (op : OutPoint) (l : List (Nat × Nat)) (m : List (Nat × SatPoint)) (h : (AL.keys m).Nodup) :
    (AL.keys (l.foldl (fun m (p : Nat × Nat) => AL.set m p.1 ⟨op, p.2⟩) m)).Nodup := by
  induction l generalizing m with
  | nil => exact h
  | cons p rest ih => exact ih _ (AL.nodup_set _ _ _ h)

theorem wf2_flushEntry (cfg : Cfg) (st : State) (op : OutPoint) (e : UtxoEntry) (h : WF2 (tri st)) :
    WF2 (tri (flushEntry cfg st op e)) := by
  refine ⟨?_, ?_⟩
  · show (AL.keys (flushEntry cfg st op e).seq2sp).Nodup
    rw [flushEntry_seq2sp]
    split
    · exact nodup_foldl_set _ _ _ h.1
    · exact h.1
  · show (flushEntry cfg st op e).script2out.Nodup
    rw [flushEntry_script2out]
    split
    · exact nodup_insertUnique _ _ h.2
    · exact h.2

theorem wf2_flushCache (cfg : Cfg) (c : Cache) (st : State) (h : WF2 (tri st)) : WF2 (tri (flushCache cfg st c)) := by
  induction c generalizing st with
  | nil => exact h
  | cons p rest ih =>
    obtain ⟨op, e⟩ := p
    rw [flushCache_cons]
    exact ih _ (wf2_flushEntry cfg st op e h)

theorem wf2_runBatch (cfg : Cfg) (bs : List Block) (s s' : Store) (h : runBatch cfg bs s = .ok s')
    (hw : WF2 (tri s.st)) : WF2 (tri s'.st) := by
  rw [runBatch_eq] at h
  cases hE : indexBlocksC cfg bs s with
  | panic e => rw [hE] at h; cases h
  | err e => rw [hE] at h; cases h
  | ok sE =>
    rw [hE] at h
    simp only [omap_ok, Outcome.ok.injEq] at h
    rw [← h]
    exact wf2_flushCache cfg _ _ ((indexBlocksC_sub cfg bs s sE hE).wf2 hw)

theorem wf2_runBatches (cfg : Cfg) (sched : List (List Block)) (s s' : Store) (h : runBatches cfg sched s = .ok s')
    (hw : WF2 (tri s.st)) : WF2 (tri s'.st) := by
  induction sched generalizing s with
  | nil => simp only [runBatches, Outcome.ok.injEq] at h; rw [← h]; exact hw
  | cons batch rest ih =>
    simp only [runBatches] at h
    split at h
    · cases h
    · cases h
    · rename_i s1 h1
      exact ih _ h (wf2_runBatch cfg batch s s1 h1 hw)

/-! ### the abstract `seq2sp` never loses a key -/

def DomLe (m m' : List (Nat × SatPoint)) : Prop := ∀ k, AL.get m k ≠ none → AL.get m' k ≠ none

theorem DomLe.refl (m : List (Nat × SatPoint)) : DomLe m m := fun _ h => h
theorem DomLe.trans {a b c : List (Nat × SatPoint)} (h1 : DomLe a b) (h2 : DomLe b c) : DomLe a c :=
  fun k h => h2 k (h1 k h)

theorem domLe_set (m : List (Nat × SatPoint)) (k : Nat) (v : SatPoint) : DomLe m (AL.set m k v) := by
  intro k' h
  rw [AL.get_set]
  split
  · simp
  · exact h

theorem domLe_foldl (op : OutPoint) (l : List (Nat × Nat)) (m : List (Nat × SatPoint)) :
    DomLe m (l.foldl (fun m (p : Nat × Nat) => AL.set m p.1 ⟨op, p.2⟩) m) := by
  induction l generalizing m with
  | nil => exact DomLe.refl m
  | cons p rest ih => exact (domLe_set m _ _).trans (ih _)

theorem domLe_flushEntry (cfg : Cfg) (st : State) (op : OutPoint) (e : UtxoEntry) :
    DomLe st.seq2sp (flushEntry cfg st op e).seq2sp := by
  rw [flushEntry_seq2sp]
  split
  · exact domLe_foldl _ _ _
  · exact DomLe.refl _

theorem domLe_flushCache (cfg : Cfg) (c : Cache) (st : State) : DomLe st.seq2sp (flushCache cfg st c).seq2sp := by
  induction c generalizing st with
  | nil => exact DomLe.refl _
  | cons p rest ih =>
    obtain ⟨op, e⟩ := p
    rw [flushCache_cons]
    exact (domLe_flushEntry cfg st op e).trans (ih _)

theorem domLe_applyBlock (cfg : Cfg) (a : State) (blk : Block) (a' : State) (ev : List Event)
    (h : applyBlock cfg a blk = .ok (a', ev)) : DomLe a.seq2sp a'.seq2sp := by
  unfold applyBlock at h
  have after : ∀ (a1 : State) (ev1 : List Event),
      (match (if cfg.indexRunes && blk.height ≥ cfg.firstRuneHeight then indexRunesBlock a1 blk else .ok (a1, []) :
            Outcome (State × List Event)) with
          | .panic e => .panic e
          | .err e => .err e
          | .ok (st2, ev2) =>
            .ok ({ st2 with headers := st2.headers ++ [(blk.height, blk.hash)], height := st2.height + 1 }, ev1 ++ ev2)
        : Outcome (State × List Event)) = .ok (a', ev) → a'.seq2sp = a1.seq2sp := by
    intro a1 ev1 h1
    cases hcond : (cfg.indexRunes && decide (blk.height ≥ cfg.firstRuneHeight)) with
    | false =>
      simp only [hcond, Bool.false_eq_true, if_false, Outcome.ok.injEq, Prod.mk.injEq] at h1
      rw [← h1.1]
    | true =>
      simp only [hcond, if_true] at h1
      cases hr : indexRunesBlock a1 blk with
      | panic e => rw [hr] at h1; cases h1
      | err e => rw [hr] at h1; cases h1
      | ok r =>
        obtain ⟨st2, ev2⟩ := r
        rw [hr] at h1
        simp only [Outcome.ok.injEq, Prod.mk.injEq] at h1
        rw [← h1.1]
        exact congrArg Tri.seq2sp (indexRunesBlock_tri _ _ _ _ hr)
  cases hflags : (cfg.indexInscriptions || cfg.indexAddresses || cfg.indexSats) with
  | false =>
    simp only [hflags, Bool.false_eq_true, if_false] at h
    rw [after a [] h]; exact DomLe.refl _
  | true =>
    simp only [hflags, if_true] at h
    cases hu : indexUtxoEntries cfg a blk with
    | panic e => rw [hu] at h; cases h
    | err e => rw [hu] at h; cases h
    | ok r =>
      obtain ⟨a1, ev1⟩ := r
      rw [hu] at h
      simp only at h
      rw [after a1 ev1 h]
      rw [indexUtxoEntries_eq] at hu
      cases ht : indexTxs cfg blk (insOnOf cfg blk) (blockOrder blk) (bc0A cfg a blk) with
      | panic e => rw [ht] at hu; cases hu
      | err e => rw [ht] at hu; cases hu
      | ok bc =>
        rw [ht] at hu
        simp only [Outcome.ok.injEq, Prod.mk.injEq] at hu
        rw [← hu.1]
        have h1 : (endState cfg blk (insOnOf cfg blk) bc).1.seq2sp = a.seq2sp := by
          have := congrArg Tri.seq2sp (endState_tri cfg blk (insOnOf cfg blk) bc)
          exact this.trans (indexTxs_sub _ _ _ _ _ _ ht).1
        have := domLe_flushCache cfg (bc.cache ++ specialOf (endState cfg blk (insOnOf cfg blk) bc).2 bc.ins.unboundEntry)
          (endState cfg blk (insOnOf cfg blk) bc).1
        rw [h1] at this
        exact this

theorem domLe_runBlocks (cfg : Cfg) (bs : List Block) (a a' : State) (h : runBlocks cfg bs a = .ok a') :
    DomLe a.seq2sp a'.seq2sp := by
  induction bs generalizing a with
  | nil => simp only [runBlocks, Outcome.ok.injEq] at h; rw [← h]; exact DomLe.refl _
  | cons b rest ih =>
    simp only [runBlocks] at h
    split at h
    · cases h
    · cases h
    · rename_i a1 ev h1
      exact (domLe_applyBlock _ _ _ _ _ h1).trans (ih _ h)

/-! ### what a flush writes to `seq2sp` -/

theorem foldl_set_cases (op : OutPoint) (l : List (Nat × Nat)) (m : List (Nat × SatPoint)) (seq : Nat) :
    ((∀ off, (seq, off) ∉ l) ∧
      AL.get (l.foldl (fun m (p : Nat × Nat) => AL.set m p.1 ⟨op, p.2⟩) m) seq = AL.get m seq) ∨
    (∃ off, (seq, off) ∈ l ∧
      AL.get (l.foldl (fun m (p : Nat × Nat) => AL.set m p.1 ⟨op, p.2⟩) m) seq = some ⟨op, off⟩) := by
  induction l generalizing m with
  | nil => left; exact ⟨fun _ h => (by cases h), rfl⟩
  | cons p rest ih =>
    obtain ⟨s0, o0⟩ := p
    simp only [List.foldl_cons]
    rcases ih (AL.set m s0 ⟨op, o0⟩) with ⟨hn, hg⟩ | ⟨off, hm, hg⟩
    · rw [AL.get_set] at hg
      by_cases hs : s0 = seq
      · right
        subst hs
        refine ⟨o0, List.mem_cons_self, ?_⟩
        rw [hg]; simp
      · left
        have hb : (s0 == seq) = false := by simpa using hs
        rw [hb] at hg
        refine ⟨?_, hg⟩
        intro off hmem
        rcases List.mem_cons.1 hmem with h | h
        · simp only [Prod.mk.injEq] at h; exact hs h.1.symm
        · exact hn off h
    · right
      exact ⟨off, List.mem_cons_of_mem _ hm, hg⟩

/-- after a flush (inscription index on), for every sequence number: either no flushed entry
lists it and its row is untouched, or its row is the satpoint of a flushed entry that lists it -/
theorem flushCache_seq2sp_cases (cfg : Cfg) (hi : cfg.indexInscriptions = true) (c : Cache) (st : State)
    (hn : (AL.keys c).Nodup) (seq : Nat) :
    ((∀ op ∈ AL.keys c, ∀ e', AL.get (flushCache cfg st c).utxo op = some e' → ∀ off, (seq, off) ∉ e'.ins) ∧
      AL.get (flushCache cfg st c).seq2sp seq = AL.get st.seq2sp seq) ∨
    (∃ op ∈ AL.keys c, ∃ e' off, AL.get (flushCache cfg st c).utxo op = some e' ∧ (seq, off) ∈ e'.ins ∧
      AL.get (flushCache cfg st c).seq2sp seq = some ⟨op, off⟩) := by
  induction c generalizing st with
  | nil => left; exact ⟨fun _ h => (by cases h), rfl⟩
  | cons p rest ih =>
    obtain ⟨k, v⟩ := p
    simp only [AL.keys_cons, List.nodup_cons] at hn
    rw [flushCache_cons]
    -- the entry written for `k` survives the rest of the flush
    have hk : AL.get (flushCache cfg (flushEntry cfg st k v) rest).utxo k = some (eff st.utxo k v) := by
      rw [get_flushCache_utxo cfg rest _ hn.2, (AL.get_eq_none_iff rest k).2 hn.1, flushEntry_utxo, AL.get_set_self]
    rcases ih (flushEntry cfg st k v) hn.2 with ⟨hnw, hg⟩ | ⟨op, hop, e', off, hu, hm, hg⟩
    · rw [flushEntry_seq2sp, if_pos hi] at hg
      rcases foldl_set_cases k (eff st.utxo k v).ins st.seq2sp seq with ⟨hn1, hg1⟩ | ⟨off, hm1, hg1⟩
      · left
        refine ⟨?_, hg.trans hg1⟩
        intro op hop e' hu off
        rcases List.mem_cons.1 hop with h | h
        · subst h
          rw [hk] at hu
          simp only [Option.some.injEq] at hu
          rw [← hu]; exact hn1 off
        · exact hnw op h e' hu off
      · right
        exact ⟨k, List.mem_cons_self, _, off, hk, hm1, hg.trans hg1⟩
    · right
      exact ⟨op, List.mem_cons_of_mem _ hop, e', off, hu, hm, hg⟩

/-! ### consistency of `seq2sp` with the output lists, and the commit step -/

/-- sequence number `seq` is listed at satpoint `sp` by the `utxo` table -/
def Loc (u : List (OutPoint × UtxoEntry)) (seq : Nat) (sp : SatPoint) : Prop :=
  ∃ e, AL.get u sp.outpoint = some e ∧ (seq, sp.offset) ∈ e.ins

/-- the satpoint table and the output lists say the same thing (part of C04's invariant
`InsPartitioned`: `sp_of_listed`, `listed_of_sp` and uniqueness) -/
def SeqConsistent (st : State) : Prop :=
  ∀ seq sp, AL.get st.seq2sp seq = some sp ↔ Loc st.utxo seq sp

theorem Loc.congr {u u' : List (OutPoint × UtxoEntry)} (h : ∀ k, AL.get u k = AL.get u' k) {seq : Nat} {sp : SatPoint}
    (hl : Loc u seq sp) : Loc u' seq sp := by
  obtain ⟨e, he, hm⟩ := hl
  exact ⟨e, (h _).symm.trans he, hm⟩

/-- one commit batch: if `seq2sp` agreed at the previous commit and the abstract states at both
ends of the batch are `SeqConsistent`, `seq2sp` agrees after the commit -/
theorem batch_seq2sp (cfg : Cfg) (bs : List Block) (seen : List Txid) (s : Store) (a : State)
    (hS : SRel cfg seen s a) (h0 : s.cache = []) (hc : ChainOK seen bs)
    (hQ : ∀ k, AL.get s.st.seq2sp k = AL.get a.seq2sp k)
    (s' : Store) (a' : State) (hC : runBatch cfg bs s = .ok s') (hA : runBlocks cfg bs a = .ok a')
    (hca : SeqConsistent a) (hca' : SeqConsistent a') :
    ∀ k, AL.get s'.st.seq2sp k = AL.get a'.seq2sp k := by
  rw [runBatch_eq] at hC
  have hrel := indexBlocksC_rel cfg bs seen s a hS hc
  cases hE : indexBlocksC cfg bs s with
  | panic e => rw [hE] at hC; cases hC
  | err e => rw [hE] at hC; cases hC
  | ok sE =>
    rw [hE] at hC hrel
    rw [hA] at hrel
    simp only [OutRel] at hrel
    simp only [omap_ok, Outcome.ok.injEq] at hC
    have hS' := commit_rel cfg _ sE a' hrel
    rw [hC] at hS'
    have hsub := indexBlocksC_sub cfg bs s sE hE
    have hU' : ∀ k, AL.get s'.st.utxo k = AL.get a'.utxo k := hS'.utxo_eq (by rw [← hC]; rfl)
    have hU : ∀ k, AL.get s.st.utxo k = AL.get a.utxo k := hS.utxo_eq h0
    cases hi : cfg.indexInscriptions with
    | false => intro k; rw [hS'.noIns hi]
    | true =>
      intro seq
      have hF : s'.st = flushCache cfg sE.st sE.cache := by rw [← hC]; rfl
      rcases flushCache_seq2sp_cases cfg hi sE.cache sE.st hrel.cinvC.nodup seq with ⟨hnw, hg⟩ | ⟨op, hop, e', off, hu, hm, hg⟩
      · -- not written by this commit
        rw [hF, hg]
        have h1 : AL.get sE.st.seq2sp seq = AL.get a.seq2sp seq := by
          have : sE.st.seq2sp = s.st.seq2sp := hsub.1
          rw [this]; exact hQ seq
        rw [h1]
        cases hr : AL.get a'.seq2sp seq with
        | none =>
          cases hr0 : AL.get a.seq2sp seq with
          | none => rfl
          | some sp0 =>
            exact absurd hr (domLe_runBlocks cfg bs a a' hA seq (by rw [hr0]; simp))
        | some sp' =>
          obtain ⟨e1, he1, hm1⟩ := (hca' seq sp').1 hr
          rw [← hU', hF] at he1
          -- the entry is not one of the flushed ones
          have hnk : sp'.outpoint ∉ AL.keys sE.cache := fun hk => hnw _ hk e1 he1 _ hm1
          rw [get_flushCache_utxo cfg _ _ hrel.cinvC.nodup, (AL.get_eq_none_iff _ _).2 hnk] at he1
          simp only at he1
          have h2 : (sp'.outpoint, e1) ∈ s.st.utxo := hsub.2.1 _ (AL.mem_of_get he1)
          have h3 : AL.get s.st.utxo sp'.outpoint = some e1 := AL.get_of_mem hS.tinvC.nodup h2
          rw [hU] at h3
          exact ((hca seq sp').2 ⟨e1, h3, hm1⟩)
      · -- written by this commit
        rw [hF, hg]
        have hl : Loc a'.utxo seq ⟨op, off⟩ := by
          refine ⟨e', ?_, hm⟩
          rw [← hU', hF]; exact hu
        exact ((hca' seq ⟨op, off⟩).2 hl).symm

/-- every block-boundary state of the abstract run over `chain` from `a0` is `SeqConsistent` -/
def SeqConsistentRun (cfg : Cfg) (chain : List Block) (a0 : State) : Prop :=
  ∀ pre a, pre <+: chain → runBlocks cfg pre a0 = .ok a → SeqConsistent a

theorem runBatches_seq2sp (cfg : Cfg) (sched : List (List Block)) (seen : List Txid) (s : Store) (a : State)
    (hS : SRel cfg seen s a) (h0 : s.cache = []) (hc : ChainOK seen sched.flatten)
    (hQ : ∀ k, AL.get s.st.seq2sp k = AL.get a.seq2sp k)
    (hseq : SeqConsistentRun cfg sched.flatten a)
    (s' : Store) (a' : State) (hC : runBatches cfg sched s = .ok s') (hA : runBlocks cfg sched.flatten a = .ok a') :
    ∀ k, AL.get s'.st.seq2sp k = AL.get a'.seq2sp k := by
  induction sched generalizing seen s a with
  | nil =>
    simp only [runBatches, Outcome.ok.injEq] at hC
    simp only [List.flatten_nil, runBlocks, Outcome.ok.injEq] at hA
    rw [← hC, ← hA]; exact hQ
  | cons batch rest ih =>
    simp only [runBatches] at hC
    rw [List.flatten_cons, runBlocks_append] at hA
    rw [List.flatten_cons, ChainOK_append] at hc
    have h1 := runBatch_rel cfg batch seen s a hS hc.1
    cases hC1 : runBatch cfg batch s with
    | panic e => rw [hC1] at hC; cases hC
    | err e => rw [hC1] at hC; cases hC
    | ok s1 =>
      cases hA1 : runBlocks cfg batch a with
      | panic e => rw [hA1] at hA; cases hA
      | err e => rw [hA1] at hA; cases hA
      | ok a1 =>
        rw [hC1] at hC
        rw [hA1] at hA
        rw [hC1, hA1] at h1
        simp only [OutRel] at h1
        simp only at hC hA
        have hca : SeqConsistent a := hseq [] a List.nil_prefix rfl
        have hca1 : SeqConsistent a1 := hseq batch a1 (by rw [List.flatten_cons]; exact List.prefix_append _ _) hA1
        have hQ1 := batch_seq2sp cfg batch seen s a hS h0 hc.1 hQ s1 a1 hC1 hA1 hca hca1
        apply ih _ s1 a1 h1.1 h1.2 hc.2 hQ1 _ hC hA
        intro pre x hpre hx
        apply hseq (batch ++ pre) x
        · rw [List.flatten_cons]; exact (List.prefix_append_right_inj batch).2 hpre
        · rw [runBlocks_append, hA1]; exact hx

/-! ### from C04's invariant -/

theorem mem_allIns (u : List (OutPoint × UtxoEntry)) (o : OutPoint) (seq off : Nat) :
    (o, seq, off) ∈ Insloc.allIns u ↔ ∃ e, (o, e) ∈ u ∧ (seq, off) ∈ e.ins := by
  unfold Insloc.allIns
  simp only [List.mem_flatMap, List.mem_map, Prod.mk.injEq, Prod.exists]
  constructor
  · rintro ⟨o', e, hm, s', off', hin, rfl, rfl, rfl⟩
    exact ⟨e, hm, hin⟩
  · rintro ⟨e, hm, hin⟩
    exact ⟨o, e, hm, seq, off, hin, rfl, rfl, rfl⟩

/-- C04's invariant (with a duplicate-free `utxo` table) gives `SeqConsistent` -/
theorem SeqConsistent.of_insPartitioned {cfg : Cfg} {st : State} (h : Insloc.InsPartitioned cfg st)
    (hn : (AL.keys st.utxo).Nodup) : SeqConsistent st := by
  intro seq sp
  constructor
  · intro hg
    have h1 := h.listed_of_sp seq sp (AL.mem_of_get hg)
    obtain ⟨e, hm, hin⟩ := (mem_allIns _ _ _ _).1 h1
    exact ⟨e, AL.get_of_mem hn hm, hin⟩
  · rintro ⟨e, hg, hin⟩
    have h1 := h.sp_of_listed sp.outpoint seq sp.offset ((mem_allIns _ _ _ _).2 ⟨e, AL.mem_of_get hg, hin⟩)
    exact h1

/-- under `ChainOK`, the abstract run's `utxo` table has no duplicate keys -/
theorem runBlocks_utxo_nodup (cfg : Cfg) (bs : List Block) (hc : ChainOK [] bs) (a : State)
    (h : runBlocks cfg bs {} = .ok a) : (AL.keys a.utxo).Nodup := by
  have h1 := indexBlocksC_rel cfg bs [] {} {} (SRel.init cfg) hc
  rw [h] at h1
  cases hC : indexBlocksC cfg bs {} with
  | panic e => rw [hC] at h1; exact absurd h1 (by simp [OutRel])
  | err e => rw [hC] at h1; exact absurd h1 (by simp [OutRel])
  | ok s => rw [hC] at h1; exact h1.tinvA.nodup

theorem SeqConsistentRun.of_insPartitioned (cfg : Cfg) (chain : List Block) (hc : ChainOK [] chain)
    (h : ∀ pre a, pre <+: chain → runBlocks cfg pre {} = .ok a → Insloc.InsPartitioned cfg a) :
    SeqConsistentRun cfg chain {} := by
  intro pre a hpre hr
  obtain ⟨suf, hsuf⟩ := hpre
  have hcp : ChainOK [] pre := by
    rw [← hsuf, ChainOK_append] at hc
    exact hc.1
  exact SeqConsistent.of_insPartitioned (h pre a ⟨suf, hsuf⟩ hr) (runBlocks_utxo_nodup cfg pre hcp a hr)

/-! ### an executable sufficient check (for examples) -/

def seqOkB (cfg : Cfg) (a : State) : Bool :=
  Insloc.insPartitionedB cfg a && decide ((AL.keys a.utxo).Nodup)

/-- C04's oracle predicate at every block boundary of the abstract run -/
def seqRunB (cfg : Cfg) : List Block → State → Bool
  | [], a => seqOkB cfg a
  | b :: bs, a =>
    seqOkB cfg a &&
      match applyBlock cfg a b with
      | .ok (a', _) => seqRunB cfg bs a'
      | _ => true

theorem seqOkB_sound (cfg : Cfg) (a : State) (h : seqOkB cfg a = true) : SeqConsistent a := by
  simp only [seqOkB, Bool.and_eq_true, decide_eq_true_eq] at h
  exact SeqConsistent.of_insPartitioned ((Insloc.insPartitionedB_iff cfg a).1 h.1) h.2

theorem seqRunB_sound (cfg : Cfg) (chain : List Block) (a0 : State) (h : seqRunB cfg chain a0 = true) :
    SeqConsistentRun cfg chain a0 := by
  induction chain generalizing a0 with
  | nil =>
    intro pre a hpre hr
    have : pre = [] := List.prefix_nil.1 hpre
    subst this
    simp only [runBlocks, Outcome.ok.injEq] at hr
    subst hr
    exact seqOkB_sound cfg _ h
  | cons b bs ih =>
    simp only [seqRunB, Bool.and_eq_true] at h
    intro pre a hpre hr
    cases pre with
    | nil =>
      simp only [runBlocks, Outcome.ok.injEq] at hr
      subst hr
      exact seqOkB_sound cfg _ h.1
    | cons b' pre' =>
      have hb : b' = b ∧ pre' <+: bs := by
        obtain ⟨suf, hs⟩ := hpre
        simp only [List.cons_append, List.cons.injEq] at hs
        exact ⟨hs.1, ⟨suf, hs.2⟩⟩
      obtain ⟨rfl, hp⟩ := hb
      simp only [runBlocks] at hr
      cases hA : applyBlock cfg a0 b' with
      | panic e => rw [hA] at hr; cases hr
      | err e => rw [hA] at hr; cases hr
      | ok r =>
        obtain ⟨a1, ev⟩ := r
        rw [hA] at hr
        have h2 := h.2
        rw [hA] at h2
        exact ih a1 h2 pre' a hp hr

end Ord.Index.Sched
