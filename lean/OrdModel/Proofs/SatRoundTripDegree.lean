import OrdModel.Proofs.SatRoundTrip

namespace Ord.SatNotation
open Ord Ord.Epoch

/-! ### degree -/

theorem rel_aux (e m q σ : Nat) (hm : m < 210000) (hσ : σ < 2016) (heq : 210000 * e + m = 2016 * q + σ) :
    (σ + 210000 * 6 - m) % 336 = 0 ∧ (σ + 210000 * 6 - m) % 2016 / 336 = e % 6 := by
  have hle : 6 * q ≤ 625 * e + 3750 := by omega
  have ht : σ + 210000 * 6 - m = 336 * (625 * e + 3750 - 6 * q) := by omega
  rw [ht]
  refine ⟨Nat.mul_mod_right _ _, ?_⟩
  have h2016 : 2016 = 336 * 6 := by decide
  rw [h2016, Nat.mul_mod_mul_left, Nat.mul_div_cancel_left _ (by decide : 0 < 336)]
  omega

theorem epoch_aux (h : Nat) : h / 1260000 * 6 + h / 210000 % 6 = h / 210000 := by
  have : h / 1260000 = h / 210000 / 6 := by rw [Nat.div_div_eq_div_mul]
  rw [this]
  generalize h / 210000 = e
  omega

/-- the parser's reconstruction of the height from (cycle, minute, second) is exact -/
theorem degreeHeight_of_height (h : Nat) (hh : h < 6930000) :
    degreeHeight (h / 1260000) (h % 210000) (h % 2016) = .ok h := by
  have hp : (2:Nat) ^ 32 = 4294967296 := by decide
  have he4 : h < 4294967296 := Nat.lt_trans hh (by decide)
  have he3 : h / 210000 * 210000 + h % 210000 = h := by
    rw [Nat.mul_comm]; exact Nat.div_add_mod h 210000
  have he2 : h / 210000 * 210000 < 4294967296 :=
    Nat.lt_of_le_of_lt (Nat.le_trans (Nat.le_add_right _ _) (Nat.le_of_eq he3)) he4
  have he1 : h / 210000 < 4294967296 := Nat.lt_of_le_of_lt (Nat.div_le_self _ _) he4
  have hepoch := epoch_aux h
  have hc : h / 1260000 * 6 < 4294967296 :=
    Nat.lt_of_le_of_lt (Nat.le_trans (Nat.le_add_right _ _) (Nat.le_of_eq hepoch)) he1
  have hm : h % 210000 < 210000 := Nat.mod_lt _ (by decide)
  have hσ : h % 2016 < 2016 := Nat.mod_lt _ (by decide)
  have heq : 210000 * (h / 210000) + h % 210000 = 2016 * (h / 2016) + h % 2016 := by
    rw [Nat.div_add_mod, Nat.div_add_mod]
  obtain ⟨hrel, hsince⟩ := rel_aux _ _ _ _ hm hσ heq
  have hr0 : h % 2016 + 210000 * 6 < 4294967296 :=
    Nat.lt_trans (Nat.add_lt_add_right hσ _) (by decide)
  have hr1 : h % 210000 ≤ h % 2016 + 210000 * 6 :=
    Nat.le_trans (Nat.le_of_lt hm) (Nat.le_trans (by decide) (Nat.le_add_left _ _))
  unfold degreeHeight CYCLE_EPOCHS SUBSIDY_HALVING_INTERVAL DIFFCHANGE_INTERVAL
  rw [hp, if_neg (fun hn => hn hc), if_neg (fun hn => hn hr0), if_neg (fun hn => hn hr1),
    if_neg (fun hn => hn hrel), hsince, hepoch, if_neg (fun hn => hn he1), if_neg (fun hn => hn he2),
    he3, if_neg (fun hn => hn he4)]

theorem sat32_of_lt {x : Nat} (h : x < 4294967296) : sat32 x = x := by
  unfold sat32; rw [if_pos (by rw [show (2:Nat) ^ 32 = 4294967296 by decide]; exact h)]

theorem degreeHeightFixed_of_height (h : Nat) (hh : h < 6930000) :
    degreeHeightFixed (h / 1260000) (h % 210000) (h % 2016) = .ok h := by
  have hp : (2:Nat) ^ 32 = 4294967296 := by decide
  have he4 : h < 4294967296 := Nat.lt_trans hh (by decide)
  have he3 : h / 210000 * 210000 + h % 210000 = h := by
    rw [Nat.mul_comm]; exact Nat.div_add_mod h 210000
  have he2 : h / 210000 * 210000 < 4294967296 :=
    Nat.lt_of_le_of_lt (Nat.le_trans (Nat.le_add_right _ _) (Nat.le_of_eq he3)) he4
  have he1 : h / 210000 < 4294967296 := Nat.lt_of_le_of_lt (Nat.div_le_self _ _) he4
  have hepoch := epoch_aux h
  have hc : h / 1260000 * 6 < 4294967296 :=
    Nat.lt_of_le_of_lt (Nat.le_trans (Nat.le_add_right _ _) (Nat.le_of_eq hepoch)) he1
  have hm : h % 210000 < 210000 := Nat.mod_lt _ (by decide)
  have hσ : h % 2016 < 2016 := Nat.mod_lt _ (by decide)
  have heq : 210000 * (h / 210000) + h % 210000 = 2016 * (h / 2016) + h % 2016 := by
    rw [Nat.div_add_mod, Nat.div_add_mod]
  obtain ⟨hrel, hsince⟩ := rel_aux _ _ _ _ hm hσ heq
  have hr0 : h % 2016 + 210000 * 6 < 4294967296 :=
    Nat.lt_trans (Nat.add_lt_add_right hσ _) (by decide)
  have hr1 : h % 210000 ≤ h % 2016 + 210000 * 6 :=
    Nat.le_trans (Nat.le_of_lt hm) (Nat.le_trans (by decide) (Nat.le_add_left _ _))
  unfold degreeHeightFixed CYCLE_EPOCHS SUBSIDY_HALVING_INTERVAL DIFFCHANGE_INTERVAL
  rw [hp, if_neg (fun hn => hn hr0), if_neg (fun hn => hn hr1), if_neg (fun hn => hn hrel), hsince,
    sat32_of_lt hc, hepoch, sat32_of_lt he1, sat32_of_lt he2, he3, sat32_of_lt he4]

theorem degreeHeightWith_of_height (fixed : Bool) (h : Nat) (hh : h < 6930000) :
    degreeHeightWith fixed (h / 1260000) (h % 210000) (h % 2016) = .ok h := by
  cases fixed
  · rw [show degreeHeightWith false = degreeHeight from rfl]; exact degreeHeight_of_height h hh
  · rw [show degreeHeightWith true = degreeHeightFixed from rfl]; exact degreeHeightFixed_of_height h hh

theorem dispatch_degree (d : Degree) : dispatch (printDegree d) = .degree := by
  have h1 := decDigits_all_digits d.hour
  have h2 := decDigits_all_digits d.minute
  have h3 := decDigits_all_digits d.second
  have h4 := decDigits_all_digits d.third
  unfold dispatch printDegree
  simp only [List.any_append, List.any_cons, List.any_nil, List.contains_append, List.contains_cons,
    any_lower_false_of_digits h1, any_lower_false_of_digits h2, any_lower_false_of_digits h3,
    any_lower_false_of_digits h4,
    (by decide : isAsciiLower degreeSym = false), (by decide : isAsciiLower minuteSym = false),
    (by decide : isAsciiLower secondSym = false), (by decide : isAsciiLower thirdSym = false)]
  simp

theorem fromDegree_print (fixed : Bool) (h k : Nat) (hh : h < 6930000) (hk : k < Height.subsidy h) :
    fromDegreeWith fixed (printDegree (Degree.ofHeightThird h k)) = .ok (Height.startingSat h + k) := by
  have dH := decDigits_all_digits (h / 1260000)
  have dM := decDigits_all_digits (h % 210000)
  have dS := decDigits_all_digits (h % 2016)
  have dT := decDigits_all_digits k
  have hsub : Height.subsidy h ≤ 5000000000 := by
    unfold Height.subsidy
    have : ∀ e, e < 33 → Epoch.subsidy e ≤ 5000000000 := by decide
    exact this _ (by unfold Epoch.ofHeight SUBSIDY_HALVING_INTERVAL; omega)
  have hlt := (Sat.compose h k hh hk).1
  unfold fromDegreeWith printDegree Degree.ofHeightThird
  simp only [CYCLE_EPOCHS, SUBSIDY_HALVING_INTERVAL, DIFFCHANGE_INTERVAL, (by decide : 6 * 210000 = 1260000)]
  rw [splitOnce_append degreeSym _ _ (not_mem_of_digits dH (by decide))]
  simp only
  rw [parseUInt_decDigits 32 _ (by omega)]
  simp only
  rw [splitOnce_append minuteSym _ _ (not_mem_of_digits dM (by decide))]
  simp only
  rw [parseUInt_decDigits 32 _ (by omega)]
  have hm : ¬ h % 210000 ≥ 210000 := by omega
  simp only [hm, if_false]
  rw [splitOnce_append secondSym _ _ (not_mem_of_digits dS (by decide))]
  simp only
  rw [parseUInt_decDigits 32 _ (by omega)]
  have hs : ¬ h % 2016 ≥ 2016 := by omega
  simp only [hs, if_false]
  rw [degreeHeightWith_of_height fixed h hh]
  simp only [degreeTail]
  have : decDigits k ++ [thirdSym] = decDigits k ++ thirdSym :: [] := rfl
  rw [this, splitOnce_append thirdSym _ _ (not_mem_of_digits dT (by decide))]
  simp only
  rw [parseUInt_decDigits 64 k (by omega)]
  have hk' : ¬ k ≥ Height.subsidy h := by omega
  simp only [List.isEmpty_nil, Bool.not_true, hk', if_false, satAt, Outcome.addW]
  have : Height.startingSat h + k < 2 ^ 64 := by unfold SUPPLY at hlt; omega
  simp [this]

end Ord.SatNotation
