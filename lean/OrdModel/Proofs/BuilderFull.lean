import OrdModel.Proofs.BuilderNoPanic4
/-! Full-pipeline invariant for C20: the exact shape of the builder state after `add_value`
(`Good`), carried from `align_outgoing` through the two selection loops. -/
namespace Ord.Builder
open Ord Ord.Outcome

/-! ### list helpers -/

theorem outSum_append (a b : List TxOut) : outSum (a ++ b) = outSum a + outSum b := by
  induction a with
  | nil => simp [outSum]
  | cons x rest ih => simp only [List.cons_append, outSum, ih]; omega

theorem outsSize_append (a b : List TxOut) : outsSize (a ++ b) = outsSize a + outsSize b := by
  induction a with
  | nil => simp [outsSize]
  | cons x rest ih => simp only [List.cons_append, outsSize, ih]; omega

theorem inSum_append (w : Wallet) (a b : List Nat) : inSum w (a ++ b) = inSum w a + inSum w b := by
  induction a with
  | nil => simp [inSum]
  | cons x rest ih => simp only [List.cons_append, inSum, ih]; omega

theorem updLast_snoc {site : String} {f : Nat → Outcome Nat} (o : TxOut) {v : Nat} (hf : f o.2 = .ok v) :
    ∀ (pre : List TxOut), updLast site f (pre ++ [o]) = .ok (pre ++ [(o.1, v)]) := by
  intro pre
  induction pre with
  | nil => simp [updLast, hf]
  | cons p pre' ih =>
    cases hpre : pre' ++ [o] with
    | nil => simp at hpre
    | cons o' rest =>
      simp only [List.cons_append, hpre, updLast]
      rw [← hpre, ih]

theorem updLast_snoc_all {site : String} {f : Nat → Outcome Nat} (o : TxOut) :
    ∀ (pre : List TxOut), updLast site f (pre ++ [o]) =
      Outcome.bind (f o.2) (fun v => .ok (pre ++ [(o.1, v)])) := by
  intro pre
  induction pre with
  | nil => cases hfo : f o.2 <;> simp [updLast, hfo, Outcome.bind]
  | cons p pre' ih =>
    cases hpre : pre' ++ [o] with
    | nil => simp at hpre
    | cons o' rest =>
      simp only [List.cons_append, hpre, updLast]
      rw [← hpre, ih]
      cases hfo : f o.2 <;> simp [Outcome.bind]

theorem lastOut_snoc (site : String) (o : TxOut) : ∀ (pre : List TxOut), lastOut site (pre ++ [o]) = .ok o := by
  intro pre
  induction pre with
  | nil => simp [lastOut]
  | cons p pre' ih =>
    cases hpre : pre' ++ [o] with
    | nil => simp at hpre
    | cons o' rest =>
      simp only [List.cons_append, hpre, lastOut]
      rw [← hpre, ih]

theorem prefixBefore_append_of_mem (w : Wallet) (op : Nat) :
    ∀ (l l' : List Nat), op ∈ l → prefixBefore w op (l ++ l') = prefixBefore w op l := by
  intro l
  induction l with
  | nil => intro l' h; simp at h
  | cons x rest ih =>
    intro l' h
    by_cases hx : x = op
    · simp [prefixBefore, hx]
    · have hm : op ∈ rest := by
        rcases List.mem_cons.1 h with h | h
        · exact absurd h.symm hx
        · exact h
      simp only [List.cons_append, prefixBefore, hx, if_false, ih l' hm]

theorem mem_of_filter_one {l : List Nat} {a : Nat} (h : (l.filter (fun i => i == a)).length = 1) : a ∈ l := by
  have : l.filter (fun i => i == a) ≠ [] := by intro h'; simp [h'] at h
  obtain ⟨x, hx⟩ := List.exists_mem_of_ne_nil _ this
  simp only [List.mem_filter, beq_iff_eq] at hx
  exact hx.2 ▸ hx.1

theorem prefix_add_inVal_le (w : Wallet) (op : Nat) : ∀ (l : List Nat), op ∈ l →
    prefixBefore w op l + inVal w op ≤ inSum w l := by
  intro l
  induction l with
  | nil => intro h; simp at h
  | cons x rest ih =>
    intro h
    by_cases hx : x = op
    · simp only [prefixBefore, hx, if_true, inSum]; omega
    · have hm : op ∈ rest := by
        rcases List.mem_cons.1 h with h | h
        · exact absurd h.symm hx
        · exact h
      have := ih hm
      simp only [prefixBefore, hx, if_false, inSum]; omega

/-! ### the two sat-offset loops, evaluated -/

theorem calcSatOffset_eq (w : Wallet) (out : Nat × Nat) (hoff : out.2 < inVal w out.1) :
    ∀ (l : List Nat) (acc : Nat), out.1 ∈ l → (∀ u ∈ l, (w.amounts.lookup u).isSome) →
      acc + inSum w l < U64 →
      calcSatOffset w out l acc = .ok (acc + prefixBefore w out.1 l + out.2) := by
  intro l
  induction l with
  | nil => intro acc h; simp at h
  | cons x rest ih =>
    intro acc hm hk hlt
    unfold calcSatOffset
    by_cases hx : x = out.1
    · have : acc + out.2 < U64 := by simp only [inSum, hx] at hlt; omega
      simp [hx, u64Add, this, prefixBefore]
    · have hm' : out.1 ∈ rest := by
        rcases List.mem_cons.1 hm with h | h
        · exact absurd h.symm hx
        · exact h
      obtain ⟨v, hv⟩ := Option.isSome_iff_exists.1 (hk x List.mem_cons_self)
      have hiv := inVal_of_lookup hv
      simp only [inSum, hiv] at hlt
      have h1 : acc + v < U64 := by omega
      simp only [hx, if_false, hv, h1, if_true]
      rw [ih (acc + v) hm' (fun u hu => hk u (List.mem_cons_of_mem _ hu)) (by omega)]
      simp only [prefixBefore, hx, if_false, hiv]
      congr 1; omega

theorem buildSatOffset_eq (w : Wallet) (out : Nat × Nat) (hoff : out.2 < inVal w out.1) :
    ∀ (l : List Nat) (acc : Nat), out.1 ∈ l → (∀ u ∈ l, (w.amounts.lookup u).isSome) →
      acc + inSum w l < U64 →
      buildSatOffset w out l acc = .ok (some (acc + prefixBefore w out.1 l + out.2)) := by
  intro l
  induction l with
  | nil => intro acc h; simp at h
  | cons x rest ih =>
    intro acc hm hk hlt
    unfold buildSatOffset
    by_cases hx : x = out.1
    · have : acc + out.2 < U64 := by simp only [inSum, hx] at hlt; omega
      simp [hx, u64Add, this, prefixBefore]
    · have hm' : out.1 ∈ rest := by
        rcases List.mem_cons.1 hm with h | h
        · exact absurd h.symm hx
        · exact h
      obtain ⟨v, hv⟩ := Option.isSome_iff_exists.1 (hk x List.mem_cons_self)
      have hiv := inVal_of_lookup hv
      simp only [inSum, hiv] at hlt
      have h1 : acc + v < U64 := by omega
      simp only [hx, if_false, hv, h1, if_true]
      rw [ih (acc + v) hm' (fun u hu => hk u (List.mem_cons_of_mem _ hu)) (by omega)]
      simp only [prefixBefore, hx, if_false, hiv]
      congr 2; omega

/-! ### the invariant -/

/-- shape-independent part of the invariant: inputs are wallet keys containing the outgoing
outpoint exactly once, value is conserved, outputs + unused utxos stay within the wallet total -/
structure Core (w : Wallet) (r : Request) (st : St) : Prop where
  utxos_keys : ∀ u ∈ st.utxos, (w.amounts.lookup u).isSome
  out_not_utxo : r.outgoing.1 ∉ st.utxos
  inputs_keys : ∀ u ∈ st.inputs, (w.amounts.lookup u).isSome
  out_once : (st.inputs.filter (fun i => i == r.outgoing.1)).length = 1
  budget : outSum st.outputs + inSum w st.utxos ≤ walletTotal w
  conserve : inSum w st.inputs = outSum st.outputs

/-- state invariant from `align_outgoing` to `add_value`: `Core`, and the outputs are an optional
alignment output (paying `change1`, worth exactly the outgoing sat's offset in the input
concatenation) followed by the recipient output. -/
structure Good (w : Wallet) (r : Request) (st : St) : Prop where
  core : Core w r st
  shape : ∃ pre R, st.outputs = pre ++ [(r.recipient, R)] ∧
    outSum pre = prefixBefore w r.outgoing.1 st.inputs + r.outgoing.2 ∧
    ((pre = [] ∧ st.unused = [r.change1, r.change0]) ∨
     (∃ P, pre = [(r.change1, P)] ∧ st.unused = [r.change0]))

theorem Good.toInv {w : Wallet} {r : Request} {st : St} (g : Good w r st) : Inv w st := by
  obtain ⟨pre, R, ho, _⟩ := g.shape
  exact ⟨g.core.utxos_keys, by simp [ho], g.core.budget⟩

end Ord.Builder
