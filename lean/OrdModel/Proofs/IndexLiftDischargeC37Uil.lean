import OrdModel.Index.Replay
import OrdModel.Proofs.IndexInslocScan
import OrdModel.Proofs.IndexMiscAL
/-
C37, inscription components, part 1: one call of `update_inscription_location` emits its event
next to the table write / the `push_inscription` it mirrors.

`EInv rs st` = the replayed ids / charms / unbound counter agree with the entry table.
`Track rs T L F` = the replayed *locations* agree with where the sequence numbers touched so far
in this block (`T`) are listed (`L`), unless they are in flight (`F`: scanned off a spent input or
saved for the coinbase).  No uniqueness of listings is needed to maintain it; uniqueness (C04)
is used once, at the commit.
-/
namespace Ord.Index.ReplayIns
open Ord Ord.Index Outcome Insloc

/-- sequence number named by an inscription event -/
def evSeq : Event → Option Nat
  | .inscriptionCreated _ _ _ _ _ s => some s
  | .inscriptionTransferred _ _ _ _ s => some s
  | _ => none

/-- ids, charms and the unbound counter: replayed = stored -/
structure EInv (rs : ReplayState) (st : State) : Prop where
  ids : ∀ s, AL.get rs.ids s = (st.entries[s]?).map (·.id)
  charms : ∀ s, AL.get rs.charms s = (st.entries[s]?).map (·.charms)
  unbound : rs.unbound = st.unbound

theorem EInv.congr {rs : ReplayState} {st st' : State} (h : EInv rs st) (he : st'.entries = st.entries)
    (hu : st'.unbound = st.unbound) : EInv rs st' :=
  ⟨by rw [he]; exact h.ids, by rw [he]; exact h.charms, by rw [hu]; exact h.unbound⟩

/-! ### the abstract location-tracking invariant -/

structure Track (rs : ReplayState) (T : List Nat) (L : OutPoint → Nat → Nat → Prop) (F : Nat → Prop) : Prop where
  /-- everything listed in the pending entries was pushed (hence announced) in this block -/
  touched : ∀ o s off, L o s off → s ∈ T
  /-- every sequence number announced in this block is listed where the replay says, or in flight -/
  found : ∀ s ∈ T, (∃ o off, L o s off ∧ AL.get rs.loc s = some ⟨o, off⟩) ∨ F s

theorem Track.mono {rs : ReplayState} {T : List Nat} {L L' : OutPoint → Nat → Nat → Prop} {F F' : Nat → Prop}
    (h : Track rs T L F) (h1 : ∀ o s off, L' o s off → L o s off)
    (h2 : ∀ o s off, L o s off → L' o s off ∨ F' s) (h3 : ∀ s, F s → F' s) : Track rs T L' F' := by
  refine ⟨fun o s off hl => h.touched o s off (h1 o s off hl), fun s hs => ?_⟩
  rcases h.found s hs with ⟨o, off, hl, hg⟩ | hf
  · rcases h2 o s off hl with hl' | hf'
    · exact Or.inl ⟨o, off, hl', hg⟩
    · exact Or.inr hf'
  · exact Or.inr (h3 s hf)

theorem Track.push {rs rs' : ReplayState} {T : List Nat} {L L' : OutPoint → Nat → Nat → Prop} {F F' : Nat → Prop}
    (h : Track rs T L F) (q : Nat) (lc : SatPoint)
    (hloc : rs'.loc = AL.set rs.loc q lc)
    (hL : ∀ o s off, L' o s off ↔ L o s off ∨ (o = lc.outpoint ∧ s = q ∧ off = lc.offset))
    (hF : ∀ s, s ≠ q → F s → F' s) : Track rs' (T ++ [q]) L' F' := by
  refine ⟨fun o s off hl => ?_, fun s hs => ?_⟩
  · rcases (hL o s off).1 hl with hl | ⟨_, rfl, _⟩
    · exact List.mem_append_left _ (h.touched o s off hl)
    · simp
  · by_cases hsq : s = q
    · subst hsq
      left
      refine ⟨lc.outpoint, lc.offset, (hL _ _ _).2 (Or.inr ⟨rfl, rfl, rfl⟩), ?_⟩
      rw [hloc, AL.get_set_self]
    · have hsT : s ∈ T := by
        rcases List.mem_append.1 hs with hs | hs
        · exact hs
        · simp only [List.mem_singleton] at hs; exact absurd hs hsq
      rcases h.found s hsT with ⟨o, off, hl, hg⟩ | hf
      · left
        refine ⟨o, off, (hL _ _ _).2 (Or.inl hl), ?_⟩
        rw [hloc, AL.get_set_ne _ _ (fun hqs => hsq hqs.symm)]
        exact hg
      · exact Or.inr (hF s hsq hf)

/-! ### what one transaction's placement state lists -/

/-- `(s, off)` is listed at outpoint `o` by the output entries of transaction `t` being built or by
the block's pending null / unbound entries -/
def LsListed (t : Txid) (outs : List UtxoEntry) (nullE unbE : Option UtxoEntry) (o : OutPoint) (s off : Nat) : Prop :=
  (∃ v e, outs[v]? = some e ∧ o = ⟨t, v⟩ ∧ (s, off) ∈ e.ins) ∨
  (o = OutPoint.null ∧ ∃ e, nullE = some e ∧ (s, off) ∈ e.ins) ∨
  (o = OutPoint.unbound ∧ ∃ e, unbE = some e ∧ (s, off) ∈ e.ins)

abbrev lsListed (t : Txid) (ls : LocState) : OutPoint → Nat → Nat → Prop :=
  LsListed t ls.outs ls.ctx.nullEntry ls.ctx.unboundEntry

theorem mem_pushIns (e : UtxoEntry) (q x s off : Nat) :
    (s, off) ∈ (pushIns e q x).ins ↔ (s, off) ∈ e.ins ∨ (s = q ∧ off = x) := by
  simp [pushIns]

theorem mem_getD_empty (o : Option UtxoEntry) (s off : Nat) :
    (s, off) ∈ (o.getD UtxoEntry.empty).ins ↔ ∃ e, o = some e ∧ (s, off) ∈ e.ins := by
  cases o with
  | none => simp [UtxoEntry.empty]
  | some e => simp

/-- where the single push of a placement shows up in the listings -/
theorem Placed.listed {sp : SatPoint} {tgt : Target} {outs : List UtxoEntry} {u : Bool} {q uc : Nat}
    {nullE unbE : Option UtxoEntry} {ls' : LocState} (t : Txid)
    (h : Placed sp tgt outs u q uc nullE unbE ls')
    (htgt : ∀ v, tgt = .output v → sp.outpoint = ⟨t, v⟩) (hnull : tgt = .null → sp.outpoint = OutPoint.null)
    (o : OutPoint) (s off : Nat) :
    lsListed t ls' o s off ↔
      (LsListed t outs nullE unbE o s off ∨
        (o = (if u then (⟨OutPoint.unbound, uc⟩ : SatPoint) else sp).outpoint ∧ s = q ∧
          off = (if u then (⟨OutPoint.unbound, uc⟩ : SatPoint) else sp).offset)) := by
  unfold lsListed LsListed
  cases h with
  | unbound hu houts hnl hunb hcount =>
    subst hu
    rw [houts, hnl, hunb]
    simp only [if_true, Option.some.injEq]
    constructor
    · rintro (h1 | h1 | ⟨ho, e, rfl, hm⟩)
      · exact Or.inl (Or.inl h1)
      · exact Or.inl (Or.inr (Or.inl h1))
      · rcases (mem_pushIns _ _ _ _ _).1 hm with hm | ⟨rfl, rfl⟩
        · exact Or.inl (Or.inr (Or.inr ⟨ho, (mem_getD_empty _ _ _).1 hm⟩))
        · exact Or.inr ⟨ho, rfl, rfl⟩
    · rintro ((h1 | h1 | ⟨ho, hm⟩) | ⟨ho, rfl, rfl⟩)
      · exact Or.inl h1
      · exact Or.inr (Or.inl h1)
      · exact Or.inr (Or.inr ⟨ho, _, rfl, (mem_pushIns _ _ _ _ _).2 (Or.inl ((mem_getD_empty _ _ _).2 hm))⟩)
      · exact Or.inr (Or.inr ⟨ho, _, rfl, (mem_pushIns _ _ _ _ _).2 (Or.inr ⟨rfl, rfl⟩)⟩)
  | output hu vout e htg hget houts hnl hunb hcount =>
    subst hu
    rw [houts, hnl, hunb]
    have hsp := htgt vout htg
    have hlt : vout < outs.length := by
      rcases Nat.lt_or_ge vout outs.length with h | h
      · exact h
      · rw [List.getElem?_eq_none h] at hget; cases hget
    simp only [Bool.false_eq_true, if_false]
    constructor
    · rintro (⟨v, e', hv, ho, hm⟩ | h1 | h1)
      · rw [List.getElem?_set] at hv
        split at hv
        · rename_i hvv
          subst hvv
          simp only [Option.some.injEq] at hv
          subst hv
          rcases (mem_pushIns _ _ _ _ _).1 hm with hm | ⟨rfl, rfl⟩
          · exact Or.inl (Or.inl ⟨vout, e, hget, ho, hm⟩)
          · exact Or.inr ⟨by rw [ho, hsp], rfl, rfl⟩
        · exact Or.inl (Or.inl ⟨v, e', hv, ho, hm⟩)
      · exact Or.inl (Or.inr (Or.inl h1))
      · exact Or.inl (Or.inr (Or.inr h1))
    · rintro ((⟨v, e', hv, ho, hm⟩ | h1 | h1) | ⟨ho, rfl, rfl⟩)
      · left
        by_cases hvv : vout = v
        · subst hvv
          rw [hget] at hv
          cases hv
          exact ⟨vout, pushIns e q sp.offset, by rw [List.getElem?_set]; simp [hlt], ho,
            (mem_pushIns _ _ _ _ _).2 (Or.inl hm)⟩
        · exact ⟨v, e', by rw [List.getElem?_set]; simp [hvv, hv], ho, hm⟩
      · exact Or.inr (Or.inl h1)
      · exact Or.inr (Or.inr h1)
      · left
        exact ⟨vout, pushIns e s sp.offset, by rw [List.getElem?_set]; simp [hlt], by rw [ho, hsp],
          (mem_pushIns _ _ _ _ _).2 (Or.inr ⟨rfl, rfl⟩)⟩
  | null hu htg hspecial houts hnl hunb hcount =>
    subst hu
    rw [houts, hnl, hunb]
    have hsp := hnull htg
    simp only [Bool.false_eq_true, if_false, Option.some.injEq]
    constructor
    · rintro (h1 | ⟨ho, e, rfl, hm⟩ | h1)
      · exact Or.inl (Or.inl h1)
      · rcases (mem_pushIns _ _ _ _ _).1 hm with hm | ⟨rfl, rfl⟩
        · exact Or.inl (Or.inr (Or.inl ⟨ho, (mem_getD_empty _ _ _).1 hm⟩))
        · exact Or.inr ⟨by rw [ho, hsp], rfl, rfl⟩
      · exact Or.inl (Or.inr (Or.inr h1))
    · rintro ((h1 | ⟨ho, hm⟩ | h1) | ⟨ho, rfl, rfl⟩)
      · exact Or.inl h1
      · exact Or.inr (Or.inl ⟨ho, _, rfl, (mem_pushIns _ _ _ _ _).2 (Or.inl ((mem_getD_empty _ _ _).2 hm))⟩)
      · exact Or.inr (Or.inr h1)
      · exact Or.inr (Or.inl ⟨by rw [ho, hsp], _, rfl, (mem_pushIns _ _ _ _ _).2 (Or.inr ⟨rfl, rfl⟩)⟩)

/-! ### the entry half: which event, which entry write -/

theorem locStepNewTail_event (height time : Nat) (fl : Flotsam) (sp : SatPoint) (opr : Bool)
    (ls : LocState) (cursed : Bool) (fee : Nat) (gallery hidden : Bool) (parents : List InscriptionId)
    (reins unb vind : Bool) (number : Int) (seq : Nat) (st1 : State) (sat : Option Nat)
    (u : Bool) (q : Nat) (st' : State) (ctx' : InsCtx)
    (h : locStepNewTail height time fl sp opr ls cursed fee gallery hidden parents reins unb vind
      number seq st1 sat = .ok (u, q, st', ctx')) :
    ∃ pids, ctx'.events = ls.ctx.events ++
      [.inscriptionCreated height (newCharms cursed reins opr sp.outpoint.isNull unb vind sat) fl.id
        (if unb then none else some sp) pids seq] := by
  unfold locStepNewTail at h
  simp only at h
  split at h
  · simp at h
  · simp at h
  · next st3 pids pseqs hlp =>
    simp only [ok.injEq, Prod.mk.injEq] at h
    obtain ⟨_, _, _, rfl⟩ := h
    exact ⟨pids, rfl⟩

/-- a new inscription: the entry appended to the table and the `InscriptionCreated` event carry the
same id and the same charms; the event's sequence number is the entry's position -/
theorem locStep_new_event (height time : Nat) (rs : Option (List (Nat × Nat))) (fl : Flotsam) (sp : SatPoint)
    (opr : Bool) (ls : LocState) (cursed : Bool) (fee : Nat) (gallery hidden : Bool)
    (parents : List InscriptionId) (reins unb vind : Bool)
    (hn : fl.origin = .new cursed fee gallery hidden parents reins unb vind)
    (u : Bool) (q : Nat) (st' : State) (ctx' : InsCtx)
    (h : locStep height time rs fl sp opr ls = .ok (u, q, st', ctx')) :
    ∃ entry pids, st'.entries = ls.st.entries ++ [entry] ∧ entry.id = fl.id ∧
      ctx'.events = ls.ctx.events ++
        [.inscriptionCreated height entry.charms fl.id (if unb then none else some sp) pids ls.st.entries.length] := by
  unfold locStep at h
  rw [hn] at h
  cases cursed <;> simp only [locStepNew, Bool.false_eq_true, ↓reduceIte] at h
  all_goals
    split at h
    · simp at h
    · split at h
      · simp at h
      · simp at h
      · next sat hsat =>
        obtain ⟨_, _, _, _, entry, he, _, h2, _, h4⟩ :=
          locStepNewTail_spec _ _ _ _ _ _ _ _ _ _ _ _ _ _ _ _ _ _ _ _ _ _ h
        obtain ⟨pids, hev⟩ := locStepNewTail_event _ _ _ _ _ _ _ _ _ _ _ _ _ _ _ _ _ _ _ _ _ _ h
        exact ⟨entry, pids, he, h2, by rw [h4]; exact hev⟩

/-- a moved inscription: the `InscriptionTransferred` event, and the burned bit set exactly when the
destination is an OP_RETURN output -/
theorem locStep_old_event (height time : Nat) (rs : Option (List (Nat × Nat))) (fl : Flotsam) (sp : SatPoint)
    (opr : Bool) (ls : LocState) (seq : Nat) (osp : SatPoint) (ho : fl.origin = .old seq osp)
    (u : Bool) (q : Nat) (st' : State) (ctx' : InsCtx)
    (h : locStep height time rs fl sp opr ls = .ok (u, q, st', ctx')) :
    ctx'.events = ls.ctx.events ++ [.inscriptionTransferred height fl.id sp osp seq] ∧
    (opr = false → st'.entries = ls.st.entries) ∧
    (opr = true → ∃ e, ls.st.entries[seq]? = some e ∧
        st'.entries = ls.st.entries.set seq { e with charms := setCharm e.charms charmBurned }) := by
  unfold locStep at h
  rw [ho] at h
  simp only [locStepOld] at h
  split at h
  · next hn =>
    split at h
    · simp at h
    · next hopr =>
      simp only [ok.injEq, Prod.mk.injEq] at h
      obtain ⟨_, _, rfl, rfl⟩ := h
      exact ⟨rfl, fun _ => rfl, fun ht => absurd ht hopr⟩
  · next entry hs =>
    simp only [ok.injEq, Prod.mk.injEq] at h
    obtain ⟨_, _, rfl, rfl⟩ := h
    refine ⟨rfl, ?_, ?_⟩
    · intro hf; simp [hf]
    · intro ht; exact ⟨entry, hs, by simp [ht]⟩

/-! ### replaying the two inscription events -/

theorem applyEvent_created (c : List Block) (rs : ReplayState) (height charms : Nat) (id : InscriptionId)
    (loc : Option SatPoint) (pids : List InscriptionId) (s : Nat) :
    let rs' := applyEvent c rs (.inscriptionCreated height charms id loc pids s)
    rs'.ids = AL.set rs.ids s id ∧ rs'.charms = AL.set rs.charms s charms ∧
    rs'.loc = AL.set rs.loc s (loc.getD ⟨OutPoint.unbound, rs.unbound⟩) ∧
    rs'.unbound = rs.unbound + (if loc.isNone then 1 else 0) := by
  cases loc <;> exact ⟨rfl, rfl, rfl, rfl⟩

theorem getElem?_snoc_map {α β : Type} (l : List α) (a : α) (f : α → β) (s : Nat) :
    ((l ++ [a])[s]?).map f = if s = l.length then some (f a) else (l[s]?).map f := by
  rcases Nat.lt_trichotomy s l.length with h | h | h
  · rw [List.getElem?_append_left h, if_neg (by omega)]
  · subst h
    rw [List.getElem?_append_right (Nat.le_refl _)]
    simp
  · rw [List.getElem?_eq_none (by simp; omega), List.getElem?_eq_none (by omega), if_neg (by omega)]

theorem EInv.created {rs : ReplayState} {st st' : State} (c : List Block) (h : EInv rs st)
    (height : Nat) (loc : Option SatPoint) (pids : List InscriptionId) (entry : InsEntry)
    (he : st'.entries = st.entries ++ [entry])
    (hu : st'.unbound = st.unbound + (if loc.isNone then 1 else 0)) :
    EInv (applyEvent c rs (.inscriptionCreated height entry.charms entry.id loc pids st.entries.length)) st' := by
  obtain ⟨e1, e2, _, e4⟩ := applyEvent_created c rs height entry.charms entry.id loc pids st.entries.length
  refine ⟨fun s => ?_, fun s => ?_, ?_⟩
  · rw [e1, he, getElem?_snoc_map]
    by_cases hs : s = st.entries.length
    · subst hs; rw [AL.get_set_self, if_pos rfl]
    · rw [AL.get_set_ne _ _ (fun h => hs h.symm), if_neg hs]; exact h.ids s
  · rw [e2, he, getElem?_snoc_map]
    by_cases hs : s = st.entries.length
    · subst hs; rw [AL.get_set_self, if_pos rfl]
    · rw [AL.get_set_ne _ _ (fun h => hs h.symm), if_neg hs]; exact h.charms s
  · rw [e4, hu, h.unbound]

theorem getElem?_set_map {α β : Type} (l : List α) (i : Nat) (a x : α) (f : α → β) (hx : l[i]? = some x) (s : Nat) :
    ((l.set i a)[s]?).map f = if s = i then some (f a) else (l[s]?).map f := by
  have hlt : i < l.length := by
    rcases Nat.lt_or_ge i l.length with h | h
    · exact h
    · rw [List.getElem?_eq_none h] at hx; cases hx
  rw [List.getElem?_set]
  by_cases hs : s = i
  · subst hs; simp [hlt]
  · rw [if_neg (fun h => hs h.symm), if_neg hs]

theorem EInv.transferred {rs : ReplayState} {st st' : State} (c : List Block) (h : EInv rs st)
    (height : Nat) (id : InscriptionId) (sp osp : SatPoint) (seq : Nat) (opr : Bool)
    (hopr : opr = isOpReturnOut c sp.outpoint) (hu : st'.unbound = st.unbound)
    (h0 : opr = false → st'.entries = st.entries)
    (h1 : opr = true → ∃ e, st.entries[seq]? = some e ∧
        st'.entries = st.entries.set seq { e with charms := setCharm e.charms charmBurned }) :
    EInv (applyEvent c rs (.inscriptionTransferred height id sp osp seq)) st' := by
  cases ho : opr with
  | false =>
    have hf : isOpReturnOut c sp.outpoint = false := by rw [← hopr, ho]
    have he := h0 ho
    refine ⟨fun s => ?_, fun s => ?_, ?_⟩
    · show AL.get rs.ids s = _
      rw [he]; exact h.ids s
    · show AL.get (if isOpReturnOut c sp.outpoint then _ else rs.charms) s = _
      rw [hf, he]; exact h.charms s
    · show rs.unbound = _
      rw [hu]; exact h.unbound
  | true =>
    have ht : isOpReturnOut c sp.outpoint = true := by rw [← hopr, ho]
    obtain ⟨e, hge, he⟩ := h1 ho
    have hgc : AL.get rs.charms seq = some e.charms := by rw [h.charms seq, hge]; rfl
    refine ⟨fun s => ?_, fun s => ?_, ?_⟩
    · show AL.get rs.ids s = _
      rw [he, getElem?_set_map _ _ _ e _ hge, h.ids s]
      by_cases hs : s = seq
      · subst hs; rw [if_pos rfl, hge]; rfl
      · rw [if_neg hs]
    · show AL.get (if isOpReturnOut c sp.outpoint then
          (match AL.get rs.charms seq with
            | some ch => AL.set rs.charms seq (setCharm ch charmBurned)
            | none => rs.charms) else rs.charms) s = _
      rw [ht, if_pos rfl, hgc, he, getElem?_set_map _ _ _ e _ hge]
      by_cases hs : s = seq
      · subst hs; rw [if_pos rfl, AL.get_set_self]
      · rw [if_neg hs, AL.get_set_ne _ _ (fun h => hs h.symm)]; exact h.charms s
    · show rs.unbound = _
      rw [hu]; exact h.unbound

/-! ### one `update_inscription_location` -/

theorem place_events (sp : SatPoint) (tgt : Target) (outs : List UtxoEntry) (u : Bool) (q : Nat)
    (st : State) (ctx : InsCtx) (ls' : LocState) (h : place sp tgt outs u q st ctx = .ok ls') :
    ls'.ctx.events = ctx.events := by
  unfold place at h
  split at h
  · simp only [ok.injEq] at h; subst h; rfl
  · split at h
    · split at h
      · simp at h
      · simp only [ok.injEq] at h; subst h; rfl
    · split at h
      · simp at h
      · simp only [ok.injEq] at h; subst h; rfl

theorem Placed.count {sp : SatPoint} {tgt : Target} {outs : List UtxoEntry} {u : Bool} {q uc : Nat}
    {nullE unbE : Option UtxoEntry} {ls' : LocState} (h : Placed sp tgt outs u q uc nullE unbE ls') :
    ls'.st.unbound = uc + (if u then 1 else 0) := by
  cases h with
  | unbound hu _ _ _ hc => subst hu; simpa using hc
  | output hu _ _ _ _ _ _ _ hc => subst hu; simpa using hc
  | null hu _ _ _ _ _ hc => subst hu; simpa using hc

/-- **One `update_inscription_location`**: exactly one event is emitted, naming the sequence number
that is pushed; replaying it keeps ids / charms / the unbound counter in step with the tables, sets
the replayed location of that sequence number to the satpoint where the `(sequence number, offset)`
pair was pushed, and no other listing changes.  (`t` = txid of the transaction being indexed: an
output target `vout` stands for the outpoint `t:vout`; `opr` is the OP_RETURN-ness of the
destination as the chain has it.) -/
theorem uil_event (c : List Block) (cfg : Cfg) (height time : Nat) (ir : Option (List (Nat × Nat)))
    (fl : Flotsam) (sp : SatPoint) (opr : Bool) (tgt : Target) (ls ls' : LocState) (t : Txid)
    (h : updateInscriptionLocation cfg height time ir fl sp opr tgt ls = .ok ls')
    (htgt : ∀ v, tgt = .output v → sp.outpoint = ⟨t, v⟩) (hnull : tgt = .null → sp.outpoint = OutPoint.null)
    (hopr : opr = isOpReturnOut c sp.outpoint)
    (rs : ReplayState) (hE : EInv rs ls.st) :
    ∃ ev lc, ls'.ctx.events = ls.ctx.events ++ [ev] ∧
      evSeq ev = some (flSeq ls.st.entries.length fl) ∧
      EInv (applyEvent c rs ev) ls'.st ∧
      (applyEvent c rs ev).loc = AL.set rs.loc (flSeq ls.st.entries.length fl) lc ∧
      (∀ o s off, lsListed t ls' o s off ↔
        (lsListed t ls o s off ∨ (o = lc.outpoint ∧ s = flSeq ls.st.entries.length fl ∧ off = lc.offset))) ∧
      ls'.ctx.flotsam = ls.ctx.flotsam := by
  rw [updateInscriptionLocation_eq] at h
  split at h
  · simp at h
  · simp at h
  · next u q st ctx hstep =>
    obtain ⟨hp, he, _, _, _, hf, _, _⟩ := place_spec _ _ _ _ _ _ _ _ h
    have hev := place_events _ _ _ _ _ _ _ _ h
    have hcount := Placed.count hp
    have hlist := Placed.listed t hp htgt hnull
    cases horig : fl.origin with
    | old seq osp =>
      obtain ⟨rfl, rfl, hfr, hcf, _, _, _⟩ := locStep_old _ _ _ _ _ _ _ _ _ horig _ _ _ _ hstep
      obtain ⟨e1, e2, e3⟩ := locStep_old_event _ _ _ _ _ _ _ _ _ horig _ _ _ _ hstep
      have hq : flSeq ls.st.entries.length fl = q := by simp [flSeq, horig]
      rw [hq]
      refine ⟨.inscriptionTransferred height fl.id sp osp q, sp, by rw [hev, e1], rfl, ?_, rfl, ?_,
        hf.trans hcf.flotsam⟩
      · refine EInv.transferred c hE height fl.id sp osp q opr hopr ?_ ?_ ?_
        · rw [hcount, hfr.unbound]; simp
        · intro ho; rw [he]; exact e2 ho
        · intro ho; obtain ⟨e, hg, hs⟩ := e3 ho; exact ⟨e, hg, by rw [he]; exact hs⟩
      · intro o s off
        have := hlist o s off
        simp only [Bool.false_eq_true, if_false] at this
        rw [this]
        unfold lsListed
        rw [hcf.nullEntry, hcf.unboundEntry]
    | new cursed fee gallery hidden parents reins unb vind =>
      obtain ⟨rfl, rfl, hfr, hcf, _⟩ := locStep_new _ _ _ _ _ _ _ _ _ _ _ _ _ _ _ horig _ _ _ _ hstep
      obtain ⟨entry, pids, e1, e2, e3⟩ := locStep_new_event _ _ _ _ _ _ _ _ _ _ _ _ _ _ _ horig _ _ _ _ hstep
      have hq : flSeq ls.st.entries.length fl = ls.st.entries.length := by simp [flSeq, horig]
      rw [hq]
      have hlocv : ((if u = true then (none : Option SatPoint) else some sp).getD ⟨OutPoint.unbound, rs.unbound⟩) =
          (if u = true then (⟨OutPoint.unbound, st.unbound⟩ : SatPoint) else sp) := by
        cases u
        · rfl
        · simp only [if_true, Option.getD_none]
          rw [hE.unbound, hfr.unbound]
      refine ⟨.inscriptionCreated height entry.charms fl.id (if u then none else some sp) pids ls.st.entries.length,
        (if u then (⟨OutPoint.unbound, st.unbound⟩ : SatPoint) else sp), by rw [hev, e3], rfl, ?_, ?_, ?_,
        hf.trans hcf.flotsam⟩
      · rw [← e2]
        refine EInv.created c hE height _ pids entry (by rw [he]; exact e1) ?_
        rw [hcount, hfr.unbound]
        cases u <;> rfl
      · rw [(applyEvent_created c rs height entry.charms fl.id _ pids ls.st.entries.length).2.2.1, hlocv]
      · intro o s off
        rw [hlist o s off]
        unfold lsListed
        rw [hcf.nullEntry, hcf.unboundEntry]

end Ord.Index.ReplayIns
