import OrdModel.Proofs.IndexSchedFlush
/-
C12 helper lemmas 2: input lookup (`takeInputEntries`) seen through the overlay "cache first,
then table".  One lookup step returns the overlay's entry and removes the outpoint from the
overlay, whichever layer held it; the invariants `BInv` are preserved.
-/
namespace Ord.Index.Sched
open Ord Ord.Index Outcome

/-- overlay lookup: cache first, then table -/
def ovN (tbl : List (OutPoint × UtxoEntry)) (c : Cache) (op : OutPoint) : Option UtxoEntry :=
  match AL.get c op with
  | some e => some e
  | none => AL.get tbl op

/-- invariants of the tables + the block's cache (which holds no special outpoints); `seen` =
txids of the transactions indexed so far -/
structure BInv (cfg : Cfg) (seen : List Txid) (x : Tri) (c : Cache) : Prop where
  tinv : TInv cfg x
  cinv : CInv x.utxo c
  noSp : ∀ op ∈ AL.keys c, op.isSpecial = false
  prov : ∀ op, ovN x.utxo c op ≠ none → op.txid = 0 ∨ op.txid ∈ seen

theorem AL_get_erase {κ ν : Type} [BEq κ] [LawfulBEq κ] [DecidableEq κ] (l : List (κ × ν)) (k k' : κ) (hn : (AL.keys l).Nodup) :
    AL.get (AL.erase l k) k' = if k = k' then none else AL.get l k' := by
  by_cases h : k = k'
  · subst h; simp [AL.get_erase_self l k hn]
  · simp [h, AL.get_erase_ne l h]

/-- one step of `takeInputEntries` -/
def takeOne (cfg : Cfg) (bc : BlockCtx) (i : TxIn) : Outcome (BlockCtx × UtxoEntry) :=
  match AL.get bc.cache i.prev with
  | some e => .ok ({ bc with cache := AL.erase bc.cache i.prev }, e)
  | none =>
    match AL.get bc.st.utxo i.prev with
    | some e =>
      let st1 := { bc.st with utxo := AL.erase bc.st.utxo i.prev }
      if cfg.indexAddresses then
        if st1.script2out.contains (e.script, i.prev) then
          .ok ({ bc with st := { st1 with script2out := st1.script2out.filter (fun x => !(x == (e.script, i.prev))) } }, e)
        else .panic "script pubkey entry not found"
      else .ok ({ bc with st := st1 }, e)
    | none => .panic "assert!(!self.index.have_full_utxo_index())"

theorem takeInputEntries_cons (cfg : Cfg) (i : TxIn) (rest : List TxIn) (bc : BlockCtx) (acc : List (TxIn × UtxoEntry)) :
    takeInputEntries cfg (i :: rest) bc acc =
      match takeOne cfg bc i with
      | .ok (bc', e) => takeInputEntries cfg rest bc' (acc ++ [(i, e)])
      | .panic s => .panic s
      | .err e => .err e := by
  rw [takeInputEntries]
  unfold takeOne
  cases AL.get bc.cache i.prev with
  | some e => rfl
  | none =>
    simp only
    cases AL.get bc.st.utxo i.prev with
    | none => rfl
    | some e =>
      simp only
      cases cfg.indexAddresses with
      | false => rfl
      | true => simp only [if_true]; split <;> rfl

/-- what a successful lookup step does -/
structure TakeEff (cfg : Cfg) (seen : List Txid) (bc : BlockCtx) (op : OutPoint) (bc' : BlockCtx) : Prop where
  ins : bc'.ins = bc.ins
  cbi : bc'.coinbaseInputs = bc.coinbaseInputs
  lost : bc'.lostRanges = bc.lostRanges
  core : core bc'.st = core bc.st
  inv : BInv cfg seen (tri bc'.st) bc'.cache
  ov : ∀ o, ovN bc'.st.utxo bc'.cache o = if op = o then none else ovN bc.st.utxo bc.cache o
  tbl : ∀ o, o ≠ op → AL.get bc'.st.utxo o = AL.get bc.st.utxo o
  seq2sp : bc'.st.seq2sp = bc.st.seq2sp
  noAddr : cfg.indexAddresses = false → bc'.st.script2out = bc.st.script2out

theorem takeOne_spec (cfg : Cfg) (seen : List Txid) (bc : BlockCtx) (i : TxIn)
    (hinv : BInv cfg seen (tri bc.st) bc.cache) :
    match ovN bc.st.utxo bc.cache i.prev with
    | none => takeOne cfg bc i = .panic "assert!(!self.index.have_full_utxo_index())"
    | some e => ∃ bc', takeOne cfg bc i = .ok (bc', e) ∧ TakeEff cfg seen bc i.prev bc' := by
  unfold ovN takeOne
  cases hc : AL.get bc.cache i.prev with
  | some e =>
    simp only
    refine ⟨_, rfl, ?_⟩
    have hmem : i.prev ∈ AL.keys bc.cache := by
      apply Classical.byContradiction; intro hcon
      rw [(AL.get_eq_none_iff _ _).2 hcon] at hc; cases hc
    have hsp := hinv.noSp _ hmem
    have htbl : AL.get bc.st.utxo i.prev = none := hinv.cinv.disj _ hsp hmem
    have hov : ∀ o, ovN bc.st.utxo (AL.erase bc.cache i.prev) o = if i.prev = o then none else ovN bc.st.utxo bc.cache o := by
      intro o
      unfold ovN
      rw [AL_get_erase _ _ _ hinv.cinv.nodup]
      by_cases h : i.prev = o
      · subst h; simp [htbl]
      · simp [h]
    refine ⟨rfl, rfl, rfl, rfl, ⟨hinv.tinv, ⟨AL.nodup_erase _ _ hinv.cinv.nodup, ?_, ?_⟩, ?_, ?_⟩, hov, fun _ _ => rfl, rfl, fun _ => rfl⟩
    · intro op hs hm; exact hinv.cinv.disj op hs (AL.keys_erase_subset _ _ _ hm)
    · intro op e' hs hg
      have hm : op ∈ AL.keys (AL.erase bc.cache i.prev) := by
        apply Classical.byContradiction; intro hcon
        rw [(AL.get_eq_none_iff _ _).2 hcon] at hg; cases hg
      have := hinv.noSp _ (AL.keys_erase_subset _ _ _ hm)
      rw [this] at hs; cases hs
    · intro op hm; exact hinv.noSp _ (AL.keys_erase_subset _ _ _ hm)
    · intro op hne
      have hne : ovN bc.st.utxo (AL.erase bc.cache i.prev) op ≠ none := hne
      rw [hov] at hne
      by_cases h : i.prev = op
      · simp [h] at hne
      · simp only [h, if_false] at hne; exact hinv.prov op hne
  | none =>
    simp only
    cases ht : AL.get bc.st.utxo i.prev with
    | none => rfl
    | some e =>
      simp only
      have hnod : (AL.keys bc.st.utxo).Nodup := hinv.tinv.nodup
      -- facts independent of the address index
      have hov : ∀ o, ovN (AL.erase bc.st.utxo i.prev) bc.cache o = if i.prev = o then none else ovN bc.st.utxo bc.cache o := by
        intro o
        unfold ovN
        rw [AL_get_erase _ _ _ hnod]
        by_cases h : i.prev = o
        · subst h; simp [hc]
        · simp [h]
      have hcinv : CInv (AL.erase bc.st.utxo i.prev) bc.cache := by
        refine ⟨hinv.cinv.nodup, ?_, hinv.cinv.spScript⟩
        intro op hs hm
        rw [AL_get_erase _ _ _ hnod]
        split
        · rfl
        · exact hinv.cinv.disj op hs hm
      have hprov : ∀ op, ovN (AL.erase bc.st.utxo i.prev) bc.cache op ≠ none → op.txid = 0 ∨ op.txid ∈ seen := by
        intro op hne
        rw [hov] at hne
        by_cases h : i.prev = op
        · simp [h] at hne
        · simp only [h, if_false] at hne; exact hinv.prov op hne
      have hspS : ∀ op e', op.isSpecial = true → AL.get (AL.erase bc.st.utxo i.prev) op = some e' → e'.script = [] := by
        intro op e' hs hg
        rw [AL_get_erase _ _ _ hnod] at hg
        split at hg
        · cases hg
        · exact hinv.tinv.spScript op e' hs hg
      have htbl : ∀ o, o ≠ i.prev → AL.get (AL.erase bc.st.utxo i.prev) o = AL.get bc.st.utxo o := by
        intro o hne; exact AL.get_erase_ne _ (Ne.symm hne)
      cases ha : cfg.indexAddresses with
      | false =>
        simp only [Bool.false_eq_true, if_false]
        refine ⟨_, rfl, rfl, rfl, rfl, rfl, ⟨⟨AL.nodup_erase _ _ hnod, ?_, hspS⟩, hcinv, hinv.noSp, hprov⟩, hov, htbl, rfl, fun _ => rfl⟩
        intro h; rw [ha] at h; cases h
      | true =>
        simp only [if_true]
        have hrow : (e.script, i.prev) ∈ bc.st.script2out := (hinv.tinv.rows ha e.script i.prev).2 ⟨e, ht, rfl⟩
        have hcont : bc.st.script2out.contains (e.script, i.prev) = true := by
          simpa using hrow
        rw [if_pos hcont]
        refine ⟨_, rfl, rfl, rfl, rfl, rfl, ⟨⟨AL.nodup_erase _ _ hnod, ?_, hspS⟩, hcinv, hinv.noSp, hprov⟩, hov, htbl, rfl, ?_⟩
        · intro _ scr op
          show (scr, op) ∈ bc.st.script2out.filter (fun x => !(x == (e.script, i.prev))) ↔
            ∃ e', AL.get (AL.erase bc.st.utxo i.prev) op = some e' ∧ e'.script = scr
          have hrows := hinv.tinv.rows ha scr op
          simp only [tri] at hrows
          rw [List.mem_filter, hrows, AL_get_erase _ _ _ hnod]
          by_cases h : i.prev = op
          · subst h
            simp only [if_true, ht, Option.some.injEq, exists_eq_left']
            constructor
            · rintro ⟨h1, h2⟩
              subst h1
              simp at h2
            · rintro ⟨_, h1, _⟩; cases h1
          · simp only [h, if_false]
            constructor
            · exact fun h1 => h1.1
            · intro h1
              refine ⟨h1, ?_⟩
              have : ¬ ((scr, op) = (e.script, i.prev)) := by
                intro hcon; cases hcon; exact h rfl
              simpa using this
        · intro h; rw [ha] at h; cases h

end Ord.Index.Sched
