import OrdModel.Proofs.IndexMiscReplayBurned
/-
C37 helper lemmas 5: output balances.  One `indexRunesTx` does to the balance table exactly what
`replayBalTx` does with the transaction's balance events (mint / etch / transfer events; they all
carry the transaction's txid): `takeInputs` erases the rows of the inputs (`consumeInputs`), and
`writeOutputs` sets row `⟨txid, vout⟩ := sortBalances bs` next to the `RuneTransferred` events whose
replay appends exactly that row — provided the outpoint had no row before (fresh txid).
-/
namespace Ord.Index
open Outcome

namespace AL
variable {κ ν : Type} [BEq κ] [LawfulBEq κ]

theorem erase_of_get_none (l : List (κ × ν)) (k : κ) (h : get l k = none) : erase l k = l := by
  induction l with
  | nil => rfl
  | cons p rest ih =>
    obtain ⟨k0, v0⟩ := p
    simp only [get] at h
    simp only [erase]
    split at h
    · cases h
    · rename_i hk
      simp only [hk, Bool.false_eq_true, if_false]
      rw [ih h]

theorem set_set (l : List (κ × ν)) (k : κ) (v w : ν) : set (set l k v) k w = set l k w := by
  induction l with
  | nil => simp [set]
  | cons p rest ih =>
    obtain ⟨k0, v0⟩ := p
    simp only [set]
    split
    · simp [set]
    · rename_i hk
      simp only [set, hk, Bool.false_eq_true, if_false]
      rw [ih]

theorem set_get_self (l : List (κ × ν)) (k : κ) (v : ν) (h : get l k = some v) : set l k v = l := by
  induction l with
  | nil => simp [get] at h
  | cons p rest ih =>
    obtain ⟨k0, v0⟩ := p
    simp only [get] at h
    simp only [set]
    split at h
    · rename_i hk
      have : k0 = k := by simpa using hk
      subst this
      simp only [Option.some.injEq] at h
      subst h
      simp
    · rename_i hk
      simp only [hk, Bool.false_eq_true, if_false]
      rw [ih h]

theorem get_erase_none (l : List (κ × ν)) (k k' : κ) (h : get l k' = none) : get (erase l k) k' = none := by
  rw [get_eq_none_iff] at h ⊢
  exact fun hm => h (keys_erase_subset l k k' hm)
end AL

theorem takeInputs_balances : ∀ (ins : List TxIn) (st : State) (un : Balances) (st' : State) (un' : Balances),
    takeInputs ins st un = .ok (st', un') → st'.balances = consumeInputs ins st.balances := by
  intro ins
  induction ins with
  | nil => intro st un st' un' h; simp only [takeInputs, Outcome.ok.injEq, Prod.mk.injEq] at h; rw [← h.1]; rfl
  | cons i rest ih =>
    intro st un st' un' h
    simp only [takeInputs] at h
    simp only [consumeInputs]
    split at h
    · rename_i hg
      rw [AL.erase_of_get_none _ _ hg]
      exact ih _ _ _ _ h
    · split at h
      · exact ih _ _ _ _ h
      · cases h
      · cases h

theorem consumeInputs_get_none (ins : List TxIn) (B : BalTable) (op : OutPoint) (h : AL.get B op = none) :
    AL.get (consumeInputs ins B) op = none := by
  induction ins generalizing B with
  | nil => exact h
  | cons i rest ih => exact ih _ (AL.get_erase_none B i.prev op h)

/-- replaying the `RuneTransferred` events of one row appends the row -/
theorem xfer_fold (h : Nat) (op : OutPoint) (t : Txid) : ∀ (row pre : List (RuneId × Nat)) (B : BalTable),
    AL.get B op = some pre →
    (row.map (fun (id, b) => Event.runeTransferred b h op id t)).foldl addTransfer B = AL.set B op (pre ++ row)
  | [], pre, B, hB => by simp [AL.set_get_self B op pre hB]
  | (id, b) :: rest, pre, B, hB => by
    simp only [List.map_cons, List.foldl_cons, addTransfer, hB, Option.getD_some]
    rw [xfer_fold h op t rest (pre ++ [(id, b)]) _ (by rw [AL.get_set]; simp)]
    rw [AL.set_set]
    simp

theorem xfer_fold_fresh (h : Nat) (op : OutPoint) (t : Txid) (row : List (RuneId × Nat)) (B : BalTable)
    (hne : row ≠ []) (hB : AL.get B op = none) :
    (row.map (fun (id, b) => Event.runeTransferred b h op id t)).foldl addTransfer B = AL.set B op row := by
  cases row with
  | nil => exact absurd rfl hne
  | cons x rest =>
    obtain ⟨id, b⟩ := x
    simp only [List.map_cons, List.foldl_cons, addTransfer, hB, Option.getD_none, List.nil_append]
    rw [xfer_fold h op t rest [(id, b)] _ (by rw [AL.get_set]; simp)]
    rw [AL.set_set]
    simp

theorem sortBalances_ins_ne_nil (a : RuneId × Nat) (l : Balances) : sortBalances.ins a l ≠ [] := by
  cases l with
  | nil => simp [sortBalances.ins]
  | cons b rest => simp only [sortBalances.ins]; split <;> simp

theorem sortBalances_ne_nil (bs : Balances) (h : bs ≠ []) : sortBalances bs ≠ [] := by
  cases bs with
  | nil => exact absurd rfl h
  | cons a rest =>
    simp only [sortBalances, List.foldr_cons]
    exact sortBalances_ins_ne_nil a _

/-- `writeOutputs`: the emitted transfers, replayed on the table before, give the table after -/
theorem writeOutputs_bal (blk : Block) (tx : Tx) : ∀ (rows : List Balances) (j : Nat) (st : State) (burned : Balances)
    (evs : List Event) (st' : State) (burned' : Balances) (evs' : List Event),
    writeOutputs blk tx (enumFrom j rows) st burned evs = .ok (st', burned', evs') →
    (∀ v, j ≤ v → AL.get st.balances ⟨tx.txid, v⟩ = none) →
    ∃ add, evs' = evs ++ add ∧ (∀ e ∈ add, IsXfer blk tx e) ∧ add.foldl addTransfer st.balances = st'.balances := by
  intro rows
  induction rows with
  | nil =>
    intro j st burned evs st' burned' evs' h _
    simp only [enumFrom, writeOutputs, Outcome.ok.injEq, Prod.mk.injEq] at h
    obtain ⟨rfl, rfl, rfl⟩ := h
    exact ⟨[], by simp, by simp, rfl⟩
  | cons bs rest ih =>
    intro j st burned evs st' burned' evs' h hf
    simp only [enumFrom, writeOutputs] at h
    have hf' : ∀ v, j + 1 ≤ v → AL.get st.balances ⟨tx.txid, v⟩ = none := fun v hv => hf v (by omega)
    split at h
    · exact ih _ _ _ _ _ _ _ h hf'
    · rename_i hne
      split at h <;> split at h
      all_goals first
        | (split at h <;> first | exact ih _ _ _ _ _ _ _ h hf' | cases h)
        | (have hf2 : ∀ v, j + 1 ≤ v →
              AL.get (AL.set st.balances ⟨tx.txid, j⟩ (sortBalances bs)) ⟨tx.txid, v⟩ = none := by
             intro v hv
             rw [AL.get_set]
             have : ((⟨tx.txid, j⟩ : OutPoint) == ⟨tx.txid, v⟩) = false := by
               simp only [beq_eq_false_iff_ne, ne_eq, OutPoint.mk.injEq, true_and]; omega
             simp only [this, Bool.false_eq_true, if_false]
             exact hf' v hv
           obtain ⟨add, h2, h3, h4⟩ := ih _ _ _ _ _ _ _ h hf2
           refine ⟨(sortBalances bs).map (fun x => Event.runeTransferred x.snd blk.height ⟨tx.txid, j⟩ x.fst tx.txid) ++ add,
             by rw [h2, List.append_assoc], ?_, ?_⟩
           · intro e he
             rcases List.mem_append.1 he with he | he
             · obtain ⟨x, _, rfl⟩ := List.mem_map.1 he
               exact ⟨x.2, _, x.1, rfl⟩
             · exact h3 e he
           · rw [List.foldl_append]
             have hne' : sortBalances bs ≠ [] := sortBalances_ne_nil bs (by simpa using hne)
             have := xfer_fold_fresh blk.height ⟨tx.txid, j⟩ tx.txid (sortBalances bs) st.balances hne' (hf j (Nat.le_refl j))
             rw [this]
             exact h4)


/-! ### claiming a transaction's run of events -/

theorem span_all (p : Event → Bool) : ∀ (F tail : List Event), (∀ e ∈ F, p e = true) → (∀ e ∈ tail, p e = false) →
    (F ++ tail).takeWhile p = F ∧ (F ++ tail).dropWhile p = tail
  | [], tail, _, ht => by
    cases tail with
    | nil => simp
    | cons e r => simp [List.takeWhile, List.dropWhile, ht e (by simp)]
  | e :: F, tail, hF, ht => by
    have he := hF e (by simp)
    obtain ⟨h1, h2⟩ := span_all p F tail (fun x hx => hF x (by simp [hx])) ht
    simp [List.takeWhile, List.dropWhile, he, h1, h2]

theorem span_frame (p : Event → Bool) : ∀ (F tail : List Event), (∀ e ∈ tail, p e = false) →
    (F ++ tail).takeWhile p = F.takeWhile p ∧ (F ++ tail).dropWhile p = F.dropWhile p ++ tail
  | [], tail, ht => by
    obtain ⟨h1, h2⟩ := span_all p [] tail (by simp) ht
    simpa using ⟨h1, h2⟩
  | e :: F, tail, ht => by
    obtain ⟨h1, h2⟩ := span_frame p F tail ht
    cases he : p e <;> simp [List.takeWhile, List.dropWhile, he, h1, h2]

theorem ofTx_unique {t t' : Txid} {e : Event} (h : ofTx t e = true) (h' : ofTx t' e = true) : t = t' := by
  unfold ofTx at h h'
  have a : evTxid e = some t := by simpa using h
  have b : evTxid e = some t' := by simpa using h'
  rw [a] at b
  exact Option.some.inj b

theorem ofTx_false_of {t t' : Txid} {e : Event} (h : ofTx t' e = true) (hne : t' ≠ t) : ofTx t e = false := by
  cases hh : ofTx t e with
  | false => rfl
  | true => exact absurd (ofTx_unique h hh) hne

theorem replayBalTx_frame (acc : BalTable × List Event) (tx : Tx) (tail : List Event)
    (ht : ∀ e ∈ tail, ofTx tx.txid e = false) :
    replayBalTx (acc.1, acc.2 ++ tail) tx = ((replayBalTx acc tx).1, (replayBalTx acc tx).2 ++ tail) := by
  obtain ⟨h1, h2⟩ := span_frame (ofTx tx.txid) acc.2 tail ht
  simp only [replayBalTx, h1, h2]

theorem txs_frame : ∀ (txs : List Tx) (acc : BalTable × List Event) (tail : List Event),
    (∀ e ∈ tail, ∀ tx ∈ txs, ofTx tx.txid e = false) →
    txs.foldl replayBalTx (acc.1, acc.2 ++ tail) = ((txs.foldl replayBalTx acc).1, (txs.foldl replayBalTx acc).2 ++ tail)
  | [], acc, tail, _ => rfl
  | tx :: rest, acc, tail, ht => by
    simp only [List.foldl_cons]
    rw [replayBalTx_frame acc tx tail (fun e he => ht e he tx (by simp))]
    exact txs_frame rest _ tail (fun e he tx' htx' => ht e he tx' (by simp [htx']))

theorem block_frame (cfg : Cfg) (b : Block) (acc : BalTable × List Event) (tail : List Event)
    (ht : ∀ e ∈ tail, ∀ tx ∈ b.txs, ofTx tx.txid e = false) :
    replayBalBlock cfg (acc.1, acc.2 ++ tail) b = ((replayBalBlock cfg acc b).1, (replayBalBlock cfg acc b).2 ++ tail) := by
  unfold replayBalBlock
  split
  · exact txs_frame b.txs acc tail ht
  · rfl

theorem blocks_frame (cfg : Cfg) : ∀ (bs : List Block) (acc : BalTable × List Event) (tail : List Event),
    (∀ e ∈ tail, ∀ b ∈ bs, ∀ tx ∈ b.txs, ofTx tx.txid e = false) →
    bs.foldl (replayBalBlock cfg) (acc.1, acc.2 ++ tail) =
      ((bs.foldl (replayBalBlock cfg) acc).1, (bs.foldl (replayBalBlock cfg) acc).2 ++ tail)
  | [], acc, tail, _ => rfl
  | b :: rest, acc, tail, ht => by
    simp only [List.foldl_cons]
    rw [block_frame cfg b acc tail (fun e he => ht e he b (by simp))]
    exact blocks_frame cfg rest _ tail (fun e he b' hb' => ht e he b' (by simp [hb']))

/-! ### one transaction -/

theorem isBal_mintEtch {blk : Block} {tx : Tx} {e : Event} (h : IsMintEtch blk tx e) :
    isBalEvent e = true ∧ ofTx tx.txid e = true ∧ ∀ B, addTransfer B e = B := by
  rcases h with ⟨a, id, rfl⟩ | ⟨id, rfl⟩ <;> simp [isBalEvent, isRuneEvent, evTxid, ofTx, addTransfer]

theorem isBal_xfer {blk : Block} {tx : Tx} {e : Event} (h : IsXfer blk tx e) :
    isBalEvent e = true ∧ ofTx tx.txid e = true := by
  obtain ⟨a, op, id, rfl⟩ := h
  simp [isBalEvent, isRuneEvent, evTxid, ofTx]

theorem indexRunesTx_bal (st : State) (blk : Block) (i : Nat) (tx : Tx) (bb : Balances) (st' : State)
    (bb' : Balances) (evs : List Event) (hx : indexRunesTx st blk i tx bb = .ok (st', bb', evs))
    (hfresh : ∀ v, AL.get st.balances ⟨tx.txid, v⟩ = none) :
    (∀ e ∈ evs.filter isBalEvent, ofTx tx.txid e = true) ∧
    ∀ tail, (∀ e ∈ tail, ofTx tx.txid e = false) →
      replayBalTx (st.balances, evs.filter isBalEvent ++ tail) tx = (st'.balances, tail) := by
  obtain ⟨st0, un0, st3, evs1, alloc2, burned0, burned, evs2, hti, h3b, -, hev1, hwo, -, rfl⟩ :=
    indexRunesTx_parts st blk i tx bb st' bb' evs hx
  have h0 := takeInputs_balances _ _ _ _ _ hti
  have hf3 : ∀ v, 0 ≤ v → AL.get st3.balances ⟨tx.txid, v⟩ = none := by
    intro v _
    rw [h3b, h0]
    exact consumeInputs_get_none _ _ _ (hfresh v)
  obtain ⟨add, rfl, hadd, hfold⟩ := writeOutputs_bal blk tx alloc2 0 st3 burned0 evs1 st' burned evs2 hwo hf3
  have hfilter : (evs1 ++ add ++ burned.map (fun (id, a) => Event.runeBurned a blk.height id tx.txid)).filter isBalEvent
      = evs1 ++ add := by
    rw [List.filter_append, List.filter_append]
    have e1 : evs1.filter isBalEvent = evs1 := List.filter_eq_self.2 (fun e he => (isBal_mintEtch (hev1 e he)).1)
    have e2 : add.filter isBalEvent = add := List.filter_eq_self.2 (fun e he => (isBal_xfer (hadd e he)).1)
    have e3 : (burned.map (fun (id, a) => Event.runeBurned a blk.height id tx.txid)).filter isBalEvent = [] := by
      rw [List.filter_eq_nil_iff]
      intro e he
      obtain ⟨x, _, rfl⟩ := List.mem_map.1 he
      simp [isBalEvent]
    rw [e1, e2, e3, List.append_nil]
  rw [hfilter]
  have hall : ∀ e ∈ evs1 ++ add, ofTx tx.txid e = true := by
    intro e he
    rcases List.mem_append.1 he with he | he
    · exact (isBal_mintEtch (hev1 e he)).2.1
    · exact (isBal_xfer (hadd e he)).2
  refine ⟨hall, fun tail ht => ?_⟩
  obtain ⟨s1, s2⟩ := span_all (ofTx tx.txid) (evs1 ++ add) tail hall ht
  simp only [replayBalTx, s1, s2, Prod.mk.injEq, and_true]
  rw [List.foldl_append]
  have hign : ∀ (L : List Event) (B : BalTable), (∀ e ∈ L, IsMintEtch blk tx e) → L.foldl addTransfer B = B := by
    intro L
    induction L with
    | nil => intro B _; rfl
    | cons e r ih =>
      intro B hL
      simp only [List.foldl_cons]
      rw [(isBal_mintEtch (hL e (by simp))).2.2 B]
      exact ih B (fun x hx => hL x (by simp [hx]))
  rw [hign evs1 _ hev1, ← h0, ← h3b]
  exact hfold

/-! ### the transactions of a block, a block, `applyBlock`, `run` -/

theorem flushBurned_bal : ∀ (bb : Balances) (st st' : State), flushBurned bb st = .ok st' → st'.balances = st.balances := by
  intro bb
  induction bb with
  | nil => intro st st' h; simp only [flushBurned, Outcome.ok.injEq] at h; rw [h]
  | cons p rest ih =>
    intro st st' h
    obtain ⟨id, b⟩ := p
    simp only [flushBurned] at h
    split at h
    · cases h
    · split at h
      · cases h
      · exact (ih _ _ h).trans rfl

theorem go_bal (blk : Block) : ∀ (txs : List Tx) (t0 : Nat) (seen : List Tx) (st : State) (bb : Balances)
    (evs0 : List Event) (st' : State) (bb' : Balances) (evs : List Event),
    RuneLift.SInv seen st bb → Runemint.RInv st blk.height t0 → t0 + txs.length ≤ 4294967296 →
    ((seen ++ txs).map (·.txid)).Nodup →
    indexRunesBlock.go blk (enumFrom t0 txs) st bb evs0 = .ok (st', bb', evs) →
    ∃ new, evs = evs0 ++ new ∧ (∀ e ∈ new.filter isBalEvent, ∃ tx ∈ txs, ofTx tx.txid e = true) ∧
      ∀ tail, (∀ e ∈ tail, ∀ tx ∈ txs, ofTx tx.txid e = false) →
        txs.foldl replayBalTx (st.balances, new.filter isBalEvent ++ tail) = (st'.balances, tail)
  | [], t0, seen, st, bb, evs0, st', bb', evs, _, _, _, _, hg => by
    simp only [enumFrom, indexRunesBlock.go, Outcome.ok.injEq, Prod.mk.injEq] at hg
    obtain ⟨rfl, rfl, rfl⟩ := hg
    exact ⟨[], by simp, by simp, fun tail _ => by simp⟩
  | tx :: rest, t0, seen, st, bb, evs0, st', bb', evs, hS, hR, hlen, hnd, hg => by
    simp only [enumFrom, indexRunesBlock.go] at hg
    simp only [List.length_cons] at hlen
    split at hg
    · cases hg
    · cases hg
    · rename_i st1 bb1 evs1 htx
      have hnew : tx.txid ∉ seen.map (·.txid) := by
        rw [List.map_append, List.map_cons] at hnd
        exact RuneLift.not_mem_of_nodup_append hnd
      have hfresh : ∀ v, AL.get st.balances ⟨tx.txid, v⟩ = none := by
        intro v
        cases hgv : AL.get st.balances ⟨tx.txid, v⟩ with
        | none => rfl
        | some row => exact absurd (hS.rows _ _ (AL.mem_of_get hgv)).2.2.2.1 hnew
      have hS1 := RuneLift.tx_supply hS hR blk tx st1 bb1 evs1 rfl (by omega) hnew htx
      have hR1 := (Runemint.tx_step hR blk tx bb st1 bb1 evs1 rfl (by omega) htx).1
      have hnd1 : (((seen ++ [tx]) ++ rest).map (·.txid)).Nodup := by
        simpa [List.append_assoc] using hnd
      obtain ⟨new', hev, hcl, hrep⟩ :=
        go_bal blk rest (t0 + 1) (seen ++ [tx]) st1 bb1 _ st' bb' evs hS1 hR1 (by omega) hnd1 hg
      obtain ⟨htxall, htxrep⟩ := indexRunesTx_bal st blk t0 tx bb st1 bb1 evs1 htx hfresh
      -- txids of the rest differ from this one
      have hdiff : ∀ tx' ∈ rest, tx'.txid ≠ tx.txid := by
        intro tx' hm he
        rw [List.map_append, List.map_cons] at hnd
        have h2 := (List.nodup_append.1 hnd).2.1
        rw [List.nodup_cons] at h2
        exact h2.1 (he ▸ List.mem_map.2 ⟨tx', hm, rfl⟩)
      refine ⟨evs1 ++ new', by rw [hev, List.append_assoc], ?_, ?_⟩
      · intro e he
        rw [List.filter_append] at he
        rcases List.mem_append.1 he with he | he
        · exact ⟨tx, by simp, htxall e he⟩
        · obtain ⟨tx', hm, h'⟩ := hcl e he
          exact ⟨tx', by simp [hm], h'⟩
      · intro tail ht
        simp only [List.foldl_cons]
        rw [List.filter_append, List.append_assoc]
        rw [htxrep (new'.filter isBalEvent ++ tail) ?_]
        · exact hrep tail (fun e he tx' hm => ht e he tx' (by simp [hm]))
        · intro e he
          rcases List.mem_append.1 he with he | he
          · obtain ⟨tx', hm, h'⟩ := hcl e he
            exact ofTx_false_of h' (hdiff tx' hm)
          · exact ht e he tx (by simp)

theorem indexRunesBlock_bal {seen : List Tx} {st : State} {blk : Block}
    (hS : RuneLift.SInv seen st []) (hR : Runemint.RInv st blk.height 0)
    (hlen : blk.txs.length ≤ 4294967296) (hnd : ((seen ++ blk.txs).map (·.txid)).Nodup)
    (st' : State) (evs : List Event) (hb : indexRunesBlock st blk = .ok (st', evs)) :
    (∀ e ∈ evs.filter isBalEvent, ∃ tx ∈ blk.txs, ofTx tx.txid e = true) ∧
    ∀ tail, (∀ e ∈ tail, ∀ tx ∈ blk.txs, ofTx tx.txid e = false) →
      blk.txs.foldl replayBalTx (st.balances, evs.filter isBalEvent ++ tail) = (st'.balances, tail) := by
  unfold indexRunesBlock at hb
  split at hb
  · cases hb
  · cases hb
  · rename_i st1 bb evs1 hgo
    split at hb
    · cases hb
    · cases hb
    · rename_i st2 hfl
      simp only [Outcome.ok.injEq, Prod.mk.injEq] at hb
      obtain ⟨rfl, rfl⟩ := hb
      obtain ⟨new, hev, hcl, hrep⟩ := go_bal blk blk.txs 0 seen st [] [] st1 bb evs1 hS hR (by omega) hnd hgo
      simp only [List.nil_append] at hev
      subst hev
      rw [flushBurned_bal _ _ _ hfl]
      exact ⟨hcl, hrep⟩

theorem indexUtxoEntries_or_refl {st st1 : State} (h : Runemint.RuneFrame st st1) : st1.balances = st.balances := by
  obtain ⟨_, _, _, _, _, f6, _⟩ := h
  exact f6

theorem insOnly_filter (evs : List Event) (h : InsOnly evs) : evs.filter isBalEvent = [] := by
  rw [List.filter_eq_nil_iff]
  intro e he
  have := h e he
  cases e <;> simp_all [isBalEvent, isRuneEvent, evTxid]

theorem applyBlock_bal (cfg : Cfg) {seen : List Tx} {st : State} {blk : Block}
    (hS : RuneLift.SInv seen st []) (hR : Runemint.RInv st blk.height 0)
    (hlen : blk.txs.length ≤ 4294967296) (hnd : ((seen ++ blk.txs).map (·.txid)).Nodup)
    (st' : State) (evs : List Event) (hb : applyBlock cfg st blk = .ok (st', evs)) :
    (∀ e ∈ evs.filter isBalEvent, ∃ tx ∈ blk.txs, ofTx tx.txid e = true) ∧
    ∀ tail, (∀ e ∈ tail, ∀ tx ∈ blk.txs, ofTx tx.txid e = false) →
      replayBalBlock cfg (st.balances, evs.filter isBalEvent ++ tail) blk = (st'.balances, tail) := by
  unfold applyBlock at hb
  dsimp only at hb
  split at hb
  · cases hb
  · cases hb
  · rename_i st1 ev1 h1
    have hf : Runemint.RuneFrame st st1 ∧ InsOnly ev1 := by
      split at h1
      · exact ⟨RuneLift.indexUtxoEntries_frame cfg st blk st1 ev1 h1, (indexUtxoEntries_rsame cfg st blk st1 ev1 h1).2⟩
      · simp only [Outcome.ok.injEq, Prod.mk.injEq] at h1
        obtain ⟨rfl, rfl⟩ := h1
        exact ⟨RuneLift.frame_refl _, by simp [InsOnly]⟩
    have hS1 := RuneLift.SInv_of_frame hf.1 hS
    have hR1 := Runemint.RInv_of_frame hf.1 hR
    have hb1 : st1.balances = st.balances := (indexUtxoEntries_or_refl hf.1)
    split at hb
    · cases hb
    · cases hb
    · rename_i st2 ev2 h2
      simp only [Outcome.ok.injEq, Prod.mk.injEq] at hb
      obtain ⟨rfl, rfl⟩ := hb
      rw [List.filter_append, insOnly_filter ev1 hf.2, List.nil_append]
      show (∀ e ∈ ev2.filter isBalEvent, _) ∧ ∀ tail, _ → replayBalBlock cfg _ blk = (st2.balances, tail)
      unfold replayBalBlock runesOn
      split at h2
      · rename_i hon
        obtain ⟨a, b⟩ := indexRunesBlock_bal hS1 hR1 hlen hnd st2 ev2 h2
        refine ⟨a, fun tail ht => ?_⟩
        rw [if_pos hon, ← hb1]
        exact b tail ht
      · rename_i hoff
        simp only [Outcome.ok.injEq, Prod.mk.injEq] at h2
        obtain ⟨rfl, rfl⟩ := h2
        refine ⟨by simp, fun tail _ => ?_⟩
        rw [if_neg hoff, hb1]
        simp

/-- the balance pass of `replay` over the whole chain reproduces the balance table and claims
every balance event -/
theorem run_bal (cfg : Cfg) (chain : List Block) (st : State) (evs : List Event)
    (hr : run cfg chain = .ok (st, evs)) (hc : RuneLift.SupplyChainOK chain) :
    replayBalances cfg evs chain = (st.balances, []) := by
  have := run_induct cfg
    (fun pre st evs => RuneLift.SupplyChainOK pre →
      (RuneLift.SInv (pre.flatMap (·.txs)) st [] ∧ Runemint.RInv st pre.length 0) ∧
      pre.foldl (replayBalBlock cfg) ([], evs.filter isBalEvent) = (st.balances, []))
    (fun _ => ⟨⟨RuneLift.SInv_empty, Runemint.RInv_empty 0 0⟩, rfl⟩)
    (fun pre st evs b st' ev' ih hb hok => by
      obtain ⟨hpre, hh, hl, hnd⟩ := RuneLift.supplyChainOK_snoc hok
      obtain ⟨⟨hS, hR⟩, hB⟩ := ih hpre
      have hR' := Runemint.applyBlock_inv cfg (RuneLift.frameOK cfg) hR b st' ev' hh hl hb
      have hS' := RuneLift.applyBlock_supply cfg hS hR b st' ev' hh hl hnd hb
      refine ⟨by simpa [List.flatMap_append] using And.intro hS' hR', ?_⟩
      obtain ⟨hcl, hrep⟩ := applyBlock_bal cfg hS (hh ▸ hR) hl hnd st' ev' hb
      rw [List.foldl_append, List.filter_append]
      have hfr := blocks_frame cfg pre ([], evs.filter isBalEvent) (ev'.filter isBalEvent) (by
        intro e he b' hb' tx' htx'
        obtain ⟨tx, htx, hof⟩ := hcl e he
        refine ofTx_false_of hof ?_
        intro heq
        rw [List.map_append] at hnd
        have := (List.nodup_append.1 hnd).2.2 tx'.txid
          (List.mem_map.2 ⟨tx', List.mem_flatMap.2 ⟨b', hb', htx'⟩, rfl⟩) tx.txid (List.mem_map.2 ⟨tx, htx, rfl⟩)
        exact this heq.symm)
      simp only at hfr
      rw [hfr, hB]
      simp only [List.foldl_cons, List.foldl_nil, List.nil_append]
      have := hrep [] (by simp)
      simpa using this)
    chain st evs hr
  exact (this hc).2

end Ord.Index
