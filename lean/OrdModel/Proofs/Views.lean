import OrdModel.Server.Views
import OrdModel.Proofs.ViewsPagination
/-
Glue lemmas for C18: each view reads exactly the stored table rows.
-/
namespace Ord.Server
open Ord Ord.Index

/-- `mapM` into `Option` succeeds iff every element maps, and then it is the pointwise image -/
theorem mapM_some_forall₂ {α β : Type} (f : α → Option β) :
    ∀ (l : List α) (r : List β), l.mapM f = some r →
      r.length = l.length ∧ ∀ i, (h : i < l.length) → f l[i] = r[i]? := by
  intro l
  induction l with
  | nil => intro r h; simp at h; subst h; simp
  | cons a t ih =>
    intro r h
    rw [List.mapM_cons] at h
    cases hfa : f a with
    | none => simp [hfa] at h
    | some b =>
      cases ht : t.mapM f with
      | none => simp [hfa, ht] at h
      | some bs =>
        simp [hfa, ht] at h
        subst h
        obtain ⟨hl, hi⟩ := ih bs ht
        refine ⟨by simp [hl], ?_⟩
        intro i hlt
        cases i with
        | zero => simpa using hfa
        | succ j =>
          have := hi j (by simpa using hlt)
          simpa using this

theorem mem_of_mapM_some {α β : Type} (f : α → Option β) (l : List α) (r : List β)
    (h : l.mapM f = some r) (b : β) : b ∈ r ↔ ∃ a ∈ l, f a = some b := by
  induction l generalizing r with
  | nil => simp at h; subst h; simp
  | cons a t ih =>
    rw [List.mapM_cons] at h
    cases hfa : f a with
    | none => simp [hfa] at h
    | some x =>
      cases ht : t.mapM f with
      | none => simp [hfa, ht] at h
      | some bs =>
        simp [hfa, ht] at h
        subst h
        have := ih bs ht
        simp only [List.mem_cons, this]
        constructor
        · rintro (rfl | ⟨a', ha', hf⟩)
          · exact ⟨a, Or.inl rfl, hfa⟩
          · exact ⟨a', Or.inr ha', hf⟩
        · rintro ⟨a', (rfl | ha'), hf⟩
          · left; rw [hfa] at hf; exact (Option.some.inj hf).symm
          · right; exact ⟨a', ha', hf⟩

/-- ids of a list of sequence numbers: same length, pointwise the stored entry's id -/
theorem idsOfSeqs_spec (st : State) (l : List Nat) (ids : List InscriptionId) (h : idsOfSeqs st l = some ids) :
    ids.length = l.length ∧ ∀ i, (hi : i < l.length) → idOfSeq st l[i] = ids[i]? :=
  mapM_some_forall₂ (idOfSeq st) l ids h

/-! ### output view -/

/-- the inscriptions an output view lists are exactly the ids of the `(seq, offset)` pairs stored in
the outpoint's entry (nothing when there is no entry) -/
theorem outputView_inscriptions (cfg : Cfg) (st : State) (op : OutPoint) (node : Option NodeOut) (v : OutView)
    (hins : cfg.indexInscriptions = true) (h : outputView cfg st op node = .ok v) :
    ∃ ids, v.inscriptions = some ids ∧
      ∀ id, id ∈ ids ↔ ∃ e seq off, AL.get st.utxo op = some e ∧ (seq, off) ∈ e.ins ∧ idOfSeq st seq = some id := by
  unfold outputView at h
  simp only [insForOutput, hins, if_true] at h
  split at h
  · cases h
  · rename_i indexed spent value script addr hb
    split at h
    · rename_i ins runes hi hr
      cases h
      simp only at hi ⊢
      unfold insOnOutput at hi
      cases hu : AL.get st.utxo op with
      | none =>
        simp [hu] at hi
        subst hi
        exact ⟨[], rfl, by simp⟩
      | some e =>
        simp only [hu, Option.map_eq_some_iff] at hi
        obtain ⟨l, hl, rfl⟩ := hi
        refine ⟨l.map (·.2), rfl, ?_⟩
        intro id
        have hm := mem_of_mapM_some _ _ _ hl
        simp only [List.mem_map]
        constructor
        · rintro ⟨⟨sp, id'⟩, hmem, rfl⟩
          obtain ⟨⟨s, off⟩, hin, hf⟩ := (hm (sp, id')).mp hmem
          have hin' : (s, off) ∈ e.ins := (List.mergeSort_perm _ _).mem_iff.mp hin
          simp only [Option.map_eq_some_iff] at hf
          obtain ⟨i2, hi2, heq⟩ := hf
          refine ⟨e, s, off, rfl, hin', ?_⟩
          have : i2 = id' := by cases heq; rfl
          subst this; exact hi2
        · rintro ⟨e', s, off, he, hin, hid⟩
          cases he
          have hin' : (s, off) ∈ e.ins.mergeSort (fun a b => decide (a.1 ≤ b.1)) :=
            (List.mergeSort_perm _ _).mem_iff.mpr hin
          exact ⟨(⟨op, off⟩, id), (hm _).mpr ⟨(s, off), hin', by simp [hid]⟩, rfl⟩
    · cases h

/-- the rune balances an output view lists are exactly the stored balance rows of the outpoint,
each with the divisibility / symbol / spaced name of its rune entry -/
theorem outputView_runes (cfg : Cfg) (st : State) (op : OutPoint) (node : Option NodeOut) (v : OutView)
    (hr : cfg.indexRunes = true) (h : outputView cfg st op node = .ok v) :
    ∃ ps, v.runes = some ps ∧
      ∀ p, p ∈ ps ↔ ∃ rows id amount e, AL.get st.balances op = some rows ∧ (id, amount) ∈ rows ∧
        AL.get st.runeEntries id = some e ∧ p = ⟨(e.rune, e.spacers), amount, e.divisibility, e.symbol⟩ := by
  unfold outputView at h
  simp only [runesForOutput, hr, if_true] at h
  split at h
  · cases h
  · split at h
    · rename_i ins runes hi hrn
      cases h
      simp only at hrn ⊢
      unfold runeBalances at hrn
      cases hb : AL.get st.balances op with
      | none =>
        simp [hb] at hrn
        subst hrn
        exact ⟨[], rfl, by simp⟩
      | some rows =>
        simp only [hb] at hrn
        split at hrn
        · rename_i ps hps
          simp only [Option.map_some, Option.some.injEq] at hrn
          subst hrn
          refine ⟨_, rfl, ?_⟩
          intro p
          rw [(List.mergeSort_perm _ _).mem_iff, mem_of_mapM_some _ _ _ hps]
          constructor
          · rintro ⟨⟨id, amount⟩, hin, hf⟩
            simp only at hf
            split at hf
            · rename_i e he
              exact ⟨rows, id, amount, e, rfl, hin, he, (Option.some.inj hf).symm⟩
            · cases hf
          · rintro ⟨rows', id, amount, e, hrows, hin, he, rfl⟩
            cases hrows
            exact ⟨(id, amount), hin, by simp [he]⟩
        · simp at hrn
    · cases h

/-- `indexed` is "the outpoint has an entry", the sat ranges are the entry's -/
theorem outputView_indexed (cfg : Cfg) (st : State) (op : OutPoint) (node : Option NodeOut) (v : OutView)
    (hs : op.isSpecial = false) (h : outputView cfg st op node = .ok v) :
    v.indexed = (AL.get st.utxo op).isSome ∧ v.satRanges = listRanges cfg st op ∧
      ∃ n, node = some n ∧ v.value = n.value ∧ v.script = n.script ∧ v.spent = !n.unspent := by
  unfold outputView at h
  simp only [hs] at h
  cases node with
  | none => simp at h
  | some n =>
    simp only [Bool.false_eq_true, if_false, Option.map_some] at h
    split at h
    · rename_i ins runes _ _
      cases h
      exact ⟨rfl, rfl, n, rfl, rfl, rfl, rfl⟩
    · cases h

/-! ### inscription view -/

/-- the fields of `GET /inscription/<id>` are the stored ones: entry fields from
`SEQUENCE_NUMBER_TO_INSCRIPTION_ENTRY`, the satpoint from `SEQUENCE_NUMBER_TO_SATPOINT`, the charms
the stored charms plus `Lost` exactly at the null outpoint, the child count the number of stored
children, value / address those of the node's output at the stored outpoint (absent at the two
special outpoints) -/
theorem inscriptionInfo_fields (st : State) (i : InscriptionId) (node : Option NodeOut) (v : InsView)
    (h : inscriptionInfo st (.id i) none node = .ok v) :
    ∃ seq e sp, AL.get st.id2seq i = some seq ∧ st.entries[seq]? = some e ∧ AL.get st.seq2sp seq = some sp ∧
      v.id = e.id ∧ v.number = e.number ∧ v.height = e.height ∧ v.fee = e.fee ∧ v.sat = e.sat ∧
      v.timestamp = e.timestamp ∧ v.satpoint = sp ∧
      v.charms = (if sp.outpoint == OutPoint.null then setCharm e.charms charmLost else e.charms) ∧
      v.childCount = (childrenOf st seq).length ∧
      v.next = idOfSeq st (seq + 1) ∧
      (v.value = if sp.outpoint == OutPoint.unbound || sp.outpoint == OutPoint.null then none
                 else node.map (·.value)) := by
  unfold inscriptionInfo at h
  simp only [resolveQuery] at h
  cases hq : AL.get st.id2seq i with
  | none => simp [hq] at h
  | some seq =>
    simp only [hq] at h
    cases he : st.entries[seq]? with
    | none => simp [he] at h
    | some e =>
      cases hsp : AL.get st.seq2sp seq with
      | none => simp [he, hsp] at h
      | some sp =>
        simp only [he, hsp] at h
        split at h
        · cases h
        · split at h
          · cases h
            refine ⟨seq, e, sp, rfl, he, hsp, rfl, rfl, rfl, rfl, rfl, rfl, rfl, rfl, rfl, rfl, ?_⟩
            simp only
            split <;> simp_all
          · cases h

/-! ### listings are pages of the stored lists -/

theorem childrenPage_spec (fx : Fixes) (st : State) (id : InscriptionId) (page : Nat) (p : Page InscriptionId)
    (h : childrenPage fx st id page = .ok p) :
    ∃ e, entryOfId st id = some e ∧ ((childrenOf st e.seq).length < USIZE →
      idsOfSeqs st (pageOf (childrenOf st e.seq) PAGE page).1 = some p.items ∧
      p.more = (pageOf (childrenOf st e.seq) PAGE page).2 ∧ p.page = page) := by
  unfold childrenPage at h
  cases he : entryOfId st id with
  | none => simp [he] at h
  | some e =>
    simp only [he] at h
    refine ⟨e, rfl, fun hl => ?_⟩
    cases hk : pageKids fx.pageOverflow (childrenOf st e.seq) PAGE page with
    | panic s => simp [hk] at h
    | err s => simp [hk] at h
    | ok r =>
      have hr := pageKids_ok _ _ _ _ hl r hk
      subst hr
      simp only [hk] at h
      split at h
      · rename_i ids hids
        cases h
        exact ⟨hids, rfl, rfl⟩
      · cases h

theorem parentsPage_spec (fx : Fixes) (st : State) (id : InscriptionId) (page : Nat) (p : Page InscriptionId)
    (h : parentsPage fx st id page = .ok p) :
    ∃ e, entryOfId st id = some e ∧ (e.parents.length < USIZE →
      idsOfSeqs st (pageOf e.parents PAGE page).1 = some p.items ∧
      p.more = (pageOf e.parents PAGE page).2 ∧ p.page = page) := by
  unfold parentsPage at h
  cases he : entryOfId st id with
  | none => simp [he] at h
  | some e =>
    simp only [he] at h
    refine ⟨e, rfl, fun hl => ?_⟩
    cases hk : pageKids fx.pageOverflow e.parents PAGE page with
    | panic s => simp [hk] at h
    | err s => simp [hk] at h
    | ok r =>
      have hr := pageKids_ok _ _ _ _ hl r hk
      subst hr
      simp only [hk] at h
      split at h
      · rename_i ids hids
        split at h
        · cases h
          exact ⟨hids, rfl, rfl⟩
        · cases h
      · cases h

theorem satPage_spec (cfg : Cfg) (st : State) (sat page : Nat) (p : Page InscriptionId)
    (hl : (seqsOfSat st sat).length < USIZE) (h : satPage cfg st sat page = .ok p) :
    idsOfSeqs st (pageOf (seqsOfSat st sat) PAGE page).1 = some p.items ∧
      p.more = (pageOf (seqsOfSat st sat) PAGE page).2 ∧ p.page = page := by
  unfold satPage at h
  split at h
  · cases h
  · rw [pageSat_eq_pageOf _ _ _ hl] at h
    simp only at h
    split at h
    · rename_i ids hids
      cases h
      exact ⟨hids, rfl, rfl⟩
    · cases h

theorem satAt_spec (cfg : Cfg) (st : State) (sat : Nat) (i : Int) (r : Option InscriptionId)
    (h : satAt cfg st sat i = .ok r) :
    r = (nthSigned (seqsOfSat st sat) i).bind (idOfSeq st) := by
  unfold satAt at h
  split at h
  · cases h
  · split at h
    · rename_i hn
      cases h; simp [hn]
    · rename_i s hn
      split at h
      · rename_i id hid
        cases h; simp [hn, hid]
      · cases h

/-- the in-block listing reads the sequence numbers between the two consecutive marks -/
theorem inBlock_eq (st : State) (h : Nat) :
    inBlock st h = idsOfSeqs st (inBlockSeqs st.height2lastseq h) := by
  unfold inBlock inBlockSeqs
  cases AL.get st.height2lastseq h with
  | none => simp [idsOfSeqs]
  | some newest => rfl

theorem mem_inBlockSeqs (marks : List (Nat × Nat)) (h newest : Nat) (hm : AL.get marks h = some newest) (s : Nat) :
    s ∈ inBlockSeqs marks h ↔ (AL.get marks (h - 1)).getD 0 ≤ s ∧ s < newest := by
  simp only [inBlockSeqs, hm, List.mem_map, List.mem_range]
  constructor
  · rintro ⟨a, ha, rfl⟩; omega
  · rintro ⟨h1, h2⟩
    exact ⟨s - (AL.get marks (h - 1)).getD 0, by omega, by omega⟩

/-- creation order: the run is strictly ascending -/
theorem inBlockSeqs_sorted (marks : List (Nat × Nat)) (h : Nat) :
    (inBlockSeqs marks h).Pairwise (· < ·) := by
  unfold inBlockSeqs
  cases AL.get marks h with
  | none => simp
  | some newest =>
    simp only
    rw [List.pairwise_map]
    have := List.pairwise_lt_range (n := newest - (AL.get marks (h - 1)).getD 0)
    exact this.imp (by intro a b hab; omega)

theorem inBlockPage_spec (st : State) (h page : Nat) (p : Page InscriptionId) (ids : List InscriptionId)
    (hi : inBlock st h = some ids) (hl : ids.length < USIZE) (hp : inBlockPage st h page = .ok p) :
    p.items = (pageOf ids PAGE page).1 ∧ p.more = (pageOf ids PAGE page).2 ∧ p.page = page := by
  unfold inBlockPage at hp
  simp only [hi] at hp
  rw [pageSat_eq_pageOf _ _ _ hl] at hp
  cases hp
  exact ⟨rfl, rfl, rfl⟩

/-- children and inscriptions-on-a-sat are listed in creation order (ascending sequence number) and
are a rearrangement of the stored multimap values -/
theorem childrenOf_sorted (st : State) (seq : Nat) : (childrenOf st seq).Pairwise (· ≤ ·) := by
  unfold childrenOf sortNats
  have := List.pairwise_mergeSort (le := fun a b : Nat => decide (a ≤ b))
    (by intro a b c hab hbc; simp at *; omega) (by intro a b; simp; omega)
    ((st.children.filter (·.1 == seq)).map (·.2))
  exact this.imp (by intro a b h; simpa using h)

theorem mem_childrenOf (st : State) (seq c : Nat) : c ∈ childrenOf st seq ↔ (seq, c) ∈ st.children := by
  unfold childrenOf sortNats
  rw [(List.mergeSort_perm _ _).mem_iff]
  simp only [List.mem_map, List.mem_filter, beq_iff_eq]
  constructor
  · rintro ⟨⟨a, b⟩, ⟨hin, rfl⟩, rfl⟩; exact hin
  · intro h; exact ⟨(seq, c), ⟨h, rfl⟩, rfl⟩

theorem seqsOfSat_sorted (st : State) (sat : Nat) : (seqsOfSat st sat).Pairwise (· ≤ ·) := by
  unfold seqsOfSat sortNats
  have := List.pairwise_mergeSort (le := fun a b : Nat => decide (a ≤ b))
    (by intro a b c hab hbc; simp at *; omega) (by intro a b; simp; omega)
    ((st.sat2seq.filter (·.1 == sat)).map (·.2))
  exact this.imp (by intro a b h; simpa using h)

theorem mem_seqsOfSat (st : State) (sat s : Nat) : s ∈ seqsOfSat st sat ↔ (sat, s) ∈ st.sat2seq := by
  unfold seqsOfSat sortNats
  rw [(List.mergeSort_perm _ _).mem_iff]
  simp only [List.mem_map, List.mem_filter, beq_iff_eq]
  constructor
  · rintro ⟨⟨a, b⟩, ⟨hin, rfl⟩, rfl⟩; exact hin
  · intro h; exact ⟨(sat, s), ⟨h, rfl⟩, rfl⟩

end Ord.Server
