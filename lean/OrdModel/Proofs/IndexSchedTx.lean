import OrdModel.Proofs.IndexSchedTake
import OrdModel.Proofs.IndexSchedFrameIns
import OrdModel.Proofs.IndexSchedFrameRunes
/-
C12 helper lemmas 3: one transaction of `index_utxo_entries` run on two block contexts that
present the same overlay (cache over table) — the concrete one, whose cache still holds entries
of earlier blocks of the commit batch, and the abstract one, where those were flushed — gives
related contexts again (`TRel`).
-/
namespace Ord.Index.Sched
open Ord Ord.Index Outcome

/-- two outcomes are both `ok` with related values, or the same error / the same panic -/
def OutRel {α β : Type} (R : α → β → Prop) : Outcome α → Outcome β → Prop
  | .ok a, .ok b => R a b
  | .err e, .err e' => e = e'
  | .panic s, .panic s' => s = s'
  | _, _ => False

theorem OutRel.of_omap {α β : Type} (R : α → β → Prop) (f : β → α) (x : Outcome β)
    (h : ∀ b, R (f b) b) : OutRel R (omap f x) x := by
  cases x <;> simp [omap, OutRel, h]

/-- block-context transformer: other tables, other cache, transformed special entries -/
def tbc (x : Tri) (gn gu : Option UtxoEntry → Option UtxoEntry) (c : Cache) (bc : BlockCtx) : BlockCtx :=
  { st := W bc.st x, cache := c, coinbaseInputs := bc.coinbaseInputs, lostRanges := bc.lostRanges,
    ins := tctx gn gu bc.ins }

theorem pushHom_id : PushHom id := fun _ _ _ => rfl

theorem tctx_id (c : InsCtx) : tctx id id c = c := rfl
theorem tbc_id (bc : BlockCtx) : tbc (tri bc.st) id id bc.cache bc = bc := rfl

/-- cache insertion of the outputs of a transaction -/
def cacheIns (txid : Txid) (outs : List UtxoEntry) (c : Cache) : Cache :=
  (enumFrom 0 outs).foldl (fun c (vout, e) => AL.set c ⟨txid, vout⟩ e) c

/-- the middle of `indexTx`: sat ranges, scripts, inscriptions -/
def indexTxMid (cfg : Cfg) (blk : Block) (insOn : Bool) (txOffset : Nat) (tx : Tx) (bc1 : BlockCtx)
    (inputs : List (TxIn × UtxoEntry)) : Outcome (BlockCtx × List UtxoEntry) :=
    let outs0 : List UtxoEntry := tx.outputs.map (fun _ => UtxoEntry.empty)
    let satsO : Outcome (BlockCtx × List UtxoEntry × Option (List (Nat × Nat))) :=
      if cfg.indexSats then
        let inRanges := if txOffset = 0 then bc1.coinbaseInputs else inputs.flatMap (fun (_, e) => e.ranges)
        match indexTransactionSats (tx.outputs.map (·.value)) inRanges with
        | none => .panic "insufficient inputs for transaction outputs"
        | some r =>
          let outs := (outs0.zip r.outputs).map (fun (e, rs) => { e with ranges := rs })
          let st := { bc1.st with sat2sp := setRare tx.txid bc1.st.sat2sp r.rare }
          let bc2 := if txOffset = 0 then { bc1 with st := st, lostRanges := bc1.lostRanges ++ r.leftover }
                     else { bc1 with st := st, coinbaseInputs := bc1.coinbaseInputs ++ r.leftover }
          .ok (bc2, outs, some inRanges)
      else
        .ok (bc1, (outs0.zip tx.outputs).map (fun (e, o) => { e with value := o.value }), none)
    match satsO with
    | .panic s => .panic s
    | .err e => .err e
    | .ok (bc2, outs1, inRanges) =>
      let outs2 := if cfg.indexAddresses then (outs1.zip tx.outputs).map (fun (e, o) => { e with script := o.script }) else outs1
      if insOn then
        match indexInscriptions cfg blk.height blk.time tx inputs inRanges { st := bc2.st, ctx := bc2.ins, outs := outs2 } with
        | .panic s => .panic s
        | .err e => .err e
        | .ok ls => .ok ({ bc2 with st := ls.st, ins := ls.ctx }, ls.outs)
      else .ok (bc2, outs2)

theorem indexTx_eq (cfg : Cfg) (blk : Block) (insOn : Bool) (txOffset : Nat) (tx : Tx) (bc : BlockCtx) :
    indexTx cfg blk insOn txOffset tx bc =
      match (if txOffset = 0 then Outcome.ok (bc, tx.inputs.map (fun i => (i, UtxoEntry.empty)))
             else takeInputEntries cfg tx.inputs bc []) with
      | .panic s => .panic s
      | .err e => .err e
      | .ok (bc1, inputs) =>
        match indexTxMid cfg blk insOn txOffset tx bc1 inputs with
        | .panic s => .panic s
        | .err e => .err e
        | .ok (bc3, outs3) => .ok { bc3 with cache := cacheIns tx.txid outs3 bc3.cache } := by
  unfold indexTx indexTxMid
  dsimp only
  cases (if txOffset = 0 then Outcome.ok (bc, tx.inputs.map (fun i => (i, UtxoEntry.empty)))
             else takeInputEntries cfg tx.inputs bc []) with
  | panic s => rfl
  | err e => rfl
  | ok r =>
    obtain ⟨bc1, inputs⟩ := r
    dsimp only
    cases cfg.indexSats with
    | false =>
      simp only [Bool.false_eq_true, if_false]
      cases insOn with
      | false => rfl
      | true =>
        simp only [if_true]
        generalize indexInscriptions _ _ _ _ _ _ _ = r
        cases r <;> rfl
    | true =>
      simp only [if_true]
      generalize indexTransactionSats _ _ = rs
      cases rs with
      | none => rfl
      | some r =>
        dsimp only
        cases insOn with
        | false => rfl
        | true =>
          simp only [if_true]
          generalize indexInscriptions _ _ _ _ _ _ _ = r
          cases r <;> rfl

theorem indexTxMid_tbc (cfg : Cfg) (blk : Block) (insOn : Bool) (txOffset : Nat) (tx : Tx)
    (x : Tri) (gn gu : Option UtxoEntry → Option UtxoEntry) (hn : PushHom gn) (hu : PushHom gu)
    (c : Cache) (bc : BlockCtx) (inputs : List (TxIn × UtxoEntry)) :
    indexTxMid cfg blk insOn txOffset tx (tbc x gn gu c bc) inputs =
      omap (fun r => (tbc x gn gu c r.1, r.2)) (indexTxMid cfg blk insOn txOffset tx bc inputs) := by
  unfold indexTxMid
  cases hs : cfg.indexSats with
  | false =>
    simp only [Bool.false_eq_true, if_false]
    cases insOn with
    | false => rfl
    | true =>
      simp only [if_true]
      have := indexInscriptions_tls cfg blk.height blk.time tx inputs none x gn gu hn hu
        { st := bc.st, ctx := bc.ins,
          outs := if cfg.indexAddresses then
            (((tx.outputs.map (fun _ => UtxoEntry.empty)).zip tx.outputs).map (fun (e, o) => { e with value := o.value })).zip tx.outputs |>.map (fun (e, o) => { e with script := o.script })
          else ((tx.outputs.map (fun _ => UtxoEntry.empty)).zip tx.outputs).map (fun (e, o) => { e with value := o.value }) }
      simp only [tls] at this
      simp only [tbc]
      rw [this]
      cases indexInscriptions cfg blk.height blk.time tx inputs none _ <;> rfl
  | true =>
    simp only [if_true]
    have hcb : (tbc x gn gu c bc).coinbaseInputs = bc.coinbaseInputs := rfl
    rw [hcb]
    cases hr : indexTransactionSats (tx.outputs.map (·.value))
        (if txOffset = 0 then bc.coinbaseInputs else inputs.flatMap (fun (_, e) => e.ranges)) with
    | none => rfl
    | some r =>
      simp only
      cases insOn with
      | false =>
        by_cases h0 : txOffset = 0 <;> simp only [h0, if_true, if_false, Bool.false_eq_true] <;> rfl
      | true =>
        simp only [if_true]
        by_cases h0 : txOffset = 0
        · simp only [h0, if_true]
          have := indexInscriptions_tls cfg blk.height blk.time tx inputs (some bc.coinbaseInputs) x gn gu hn hu
            { st := { bc.st with sat2sp := setRare tx.txid bc.st.sat2sp r.rare }, ctx := bc.ins,
              outs := if cfg.indexAddresses then
                (((tx.outputs.map (fun _ => UtxoEntry.empty)).zip r.outputs).map (fun (e, rs) => { e with ranges := rs })).zip tx.outputs |>.map (fun (e, o) => { e with script := o.script })
              else ((tx.outputs.map (fun _ => UtxoEntry.empty)).zip r.outputs).map (fun (e, rs) => { e with ranges := rs }) }
          simp only [tls] at this
          simp only [tbc, W]
          simp only [W] at this
          rw [this]
          cases indexInscriptions cfg blk.height blk.time tx inputs (some bc.coinbaseInputs) _ <;> rfl
        · simp only [h0, if_false]
          have := indexInscriptions_tls cfg blk.height blk.time tx inputs (some (inputs.flatMap (fun (_, e) => e.ranges))) x gn gu hn hu
            { st := { bc.st with sat2sp := setRare tx.txid bc.st.sat2sp r.rare }, ctx := bc.ins,
              outs := if cfg.indexAddresses then
                (((tx.outputs.map (fun _ => UtxoEntry.empty)).zip r.outputs).map (fun (e, rs) => { e with ranges := rs })).zip tx.outputs |>.map (fun (e, o) => { e with script := o.script })
              else ((tx.outputs.map (fun _ => UtxoEntry.empty)).zip r.outputs).map (fun (e, rs) => { e with ranges := rs }) }
          simp only [tls] at this
          simp only [tbc, W]
          simp only [W] at this
          rw [this]
          cases indexInscriptions cfg blk.height blk.time tx inputs (some (inputs.flatMap (fun (_, e) => e.ranges))) _ <;> rfl

end Ord.Index.Sched
