import OrdModel.Proofs.IndexInslocCount
/- Group `insloc`: one concrete transaction used as the non-vacuity witness of the C03/C04 theorems. -/
namespace Ord.Index.Insloc
open Ord Ord.Index Outcome

def exCfg : Cfg := ⟨true, false, false, true, false, 0, 110, 0⟩
def exEntry0 : InsEntry := ⟨0, 0, 1, false, ⟨7, 0⟩, 0, [], some 5000000010, 0, 0⟩
def exSt : State := { entries := [exEntry0], id2seq := [(⟨7, 0⟩, 0)], blessed := 1 }
def exEnv : Envelope := ⟨0, 0, false, false, false, false, false, false, false, false, none, []⟩
/-- input 0 holds inscription 0 at offset 10 and carries one envelope; outputs 600 (OP_RETURN) and 300;
100 sats go to fees -/
def exTx : Tx := ⟨9, [⟨⟨7, 0⟩, false, none, []⟩], [⟨600, true, []⟩, ⟨300, false, []⟩], [exEnv], none, 100⟩
def exIn : List (TxIn × UtxoEntry) := [(⟨⟨7, 0⟩, false, none, []⟩, ⟨0, [(5000000000, 5000001000)], [], [(0, 10)]⟩)]
def exLs : LocState := ⟨exSt, { reward := 5000000000, lostSats := 0, homeCount := 1 }, [UtxoEntry.empty, UtxoEntry.empty]⟩

def exResult := indexInscriptions exCfg 5 0 exTx exIn (some [(5000000000, 5000001000)]) exLs

/-- inscription 0 keeps offset 10 of output 0 (an OP_RETURN: it becomes Burned), the new one lands
at offset 0 of output 0 on sat 5000000000, the reward grows by the 100-sat fee -/
def exCheck : Bool :=
  match exResult with
  | .ok ls =>
    decide (ls.outs.map (fun e => e.ins) = [[(1, 0), (0, 10)], []]) &&
    decide (ls.ctx.reward = 5000000100) &&
    decide (ls.st.entries.map (fun e => (e.seq, e.sat, hasCharm e.charms charmBurned)) =
      [(0, some 5000000010, true), (1, some 5000000000, true)])
  | _ => false

theorem exCheck_true : exCheck = true := by decide

theorem exResult_ok : exResult.isOk = true := by decide

end Ord.Index.Insloc
