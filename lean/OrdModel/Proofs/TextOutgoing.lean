import OrdModel.Proofs.TextIds
import OrdModel.Proofs.TextDecimalFixed
import OrdModel.Text.Outgoing
import OrdModel.Text.Query
/-! Lemmas for `Outgoing::from_str` and the explorer query types. -/
namespace Ord.Text.Sub
open Ord Ord.Text

theorem satFromNameLoop_ne_panic (x : Nat) (hx : x ≤ SUPPLY) (s : List Char) (site : String) :
    satFromNameLoop x s ≠ .panic site := by
  induction s generalizing x with
  | nil => simp [satFromNameLoop, hx]
  | cons c cs ih =>
    rw [satFromNameLoop]
    split
    · rename_i hc
      have hc' : c.toNat ≤ 122 := by simp [isLower] at hc; omega
      have : ¬ 2 ^ 64 ≤ x * 26 + c.toNat := by
        have : (2:Nat) ^ 64 = 18446744073709551616 := by decide
        unfold SUPPLY at hx; omega
      simp only [this, if_false]
      split
      · simp
      · rename_i hle
        exact ih _ (by omega)
    · simp

theorem satFromStr_ne_panic (s : List Char) (site : String) : satFromStr s ≠ .panic site := by
  unfold satFromStr
  split
  · exact satFromNameLoop_ne_panic 0 (by unfold SUPPLY; omega) s site
  · simp

theorem runeLoop_ne_panic (first : Bool) (x : Nat) (s : List Char) (site : String) :
    runeLoop first x s ≠ .panic site := by
  induction s generalizing first x with
  | nil => simp [runeLoop]
  | cons c cs ih =>
    rw [runeLoop]
    generalize (if first = true then x else x + 1) = x1
    repeat' split
    all_goals first | exact ih _ _ | simp

theorem spacedLoopWith_true_ne_panic (letters : List Char) (spacers : Nat) (s : List Char)
    (site : String) : spacedLoopWith true letters spacers s ≠ .panic site := by
  induction s generalizing letters spacers with
  | nil => simp [spacedLoopWith]
  | cons c cs ih =>
    rw [spacedLoopWith]
    split
    · exact ih _ _
    · split
      · split
        · simp
        · dsimp only
          split
          · simp
          · split
            · simp
            · exact ih _ _
      · simp

/-- the repaired `SpacedRune::from_str` has no reachable panic site -/
theorem spacedRuneFromStrWith_true_ne_panic (s : List Char) (site : String) :
    spacedRuneFromStrWith true s ≠ .panic site := by
  unfold spacedRuneFromStrWith
  cases h : spacedLoopWith true [] 0 s with
  | err e => simp
  | panic p => exact absurd h (spacedLoopWith_true_ne_panic [] 0 s p)
  | ok r =>
    obtain ⟨letters, spacers⟩ := r
    simp only [Bool.not_true, Bool.false_eq_true, and_false, if_false]
    split
    · simp
    · cases hr : runeFromStr letters with
      | ok v => simp
      | err e => simp
      | panic p => exact absurd hr (runeLoop_ne_panic true 0 letters p)

theorem runeIdFromStr_ne_panic (s : List Char) (site : String) : runeIdFromStr s ≠ .panic site := by
  unfold runeIdFromStr
  split
  · simp
  · split
    · simp
    · split <;> simp

theorem runeIdFromStr_ok {s : List Char} {b t : Nat} (h : runeIdFromStr s = .ok (b, t)) :
    ∃ bs ts, s = bs ++ ':' :: ts ∧ Numeral bs b ∧ b < 2 ^ 64 ∧ Numeral ts t ∧ t < 2 ^ 32 := by
  unfold runeIdFromStr at h
  split at h
  · cases h
  · rename_i bs ts hs
    cases hb : parseUnsigned 64 bs with
    | error e => simp [hb] at h
    | ok b' =>
      simp only [hb] at h
      cases ht : parseUnsigned 32 ts with
      | error e => simp [ht] at h
      | ok t' =>
        simp only [ht, Outcome.ok.injEq, Prod.mk.injEq] at h
        obtain ⟨rfl, rfl⟩ := h
        obtain ⟨h1, h2⟩ := (parseUnsigned_ok_iff 64 bs b').1 hb
        obtain ⟨h3, h4⟩ := (parseUnsigned_ok_iff 32 ts t').1 ht
        exact ⟨bs, ts, (splitOnce_some hs).1, h1, h2, h3, h4⟩

end Ord.Text.Sub

namespace Ord.Text.Outgoing
open Ord Ord.Text

theorem tag_ne_panic {α : Type} {t : String} {f : α → Val} {r : Outcome α}
    (h : ∀ site, r ≠ .panic site) (site : String) : tag t f r ≠ .panic site := by
  cases r with
  | ok a => simp [tag]
  | err e => simp [tag]
  | panic p => exact absurd rfl (h p)

/-- the only panics of `Outgoing::from_str` are those of `SpacedRune::from_str` on the name
captured by the RUNE regex (the repaired `Decimal::from_str` is total) -/
theorem parse_panic_only_rune (fixed : Bool) (s : List Char) (site : String)
    (h : parseWith fixed s = .panic site) :
    ∃ num name, Regex.runeCaptures s = some (num, name) ∧
      Sub.spacedRuneFromStrWith fixed name = .panic site := by
  unfold parseWith at h
  split at h
  · exact absurd h (tag_ne_panic (Sub.satFromStr_ne_panic s) site)
  · split at h
    · exact absurd h (tag_ne_panic (SatPoint.parse_ne_panic s) site)
    · split at h
      · exact absurd h (tag_ne_panic (InscriptionId.parse_ne_panic s) site)
      · split at h
        · cases h
        · split at h
          · rename_i num name hc
            refine ⟨num, name, hc, ?_⟩
            cases hd : DecimalFixed.fromStr num with
            | err e => simp [hd] at h
            | panic p => exact absurd hd (DecimalFixed.fromStr_ne_panic num p)
            | ok d =>
              simp only [hd] at h
              cases hr : Sub.spacedRuneFromStrWith fixed name with
              | err e => simp [hr] at h
              | panic p => simp only [hr, Outcome.panic.injEq] at h; rw [h]
              | ok r => obtain ⟨a, b⟩ := r; simp [hr] at h
          · cases h

theorem tag_ok {α : Type} {t : String} {f : α → Val} {r : Outcome α} {v : Val}
    (h : tag t f r = .ok v) : ∃ a, r = .ok a ∧ v = f a := by
  cases r with
  | ok a => simp [tag] at h; exact ⟨a, rfl, h.symm⟩
  | err e => simp [tag] at h
  | panic p => simp [tag] at h

theorem parse_ok_satPoint {fixed : Bool} {s : List Char} {v : SatPoint.Val}
    (h : parseWith fixed s = .ok (.satPoint v)) : SatPoint.Denotes s v := by
  unfold parseWith at h
  split at h
  · obtain ⟨a, _, hv⟩ := tag_ok h; cases hv
  · split at h
    · obtain ⟨a, ha, hv⟩ := tag_ok h
      simp only [Val.satPoint.injEq] at hv; subst hv
      exact SatPoint.parse_ok_denotes ha
    · split at h
      · obtain ⟨a, _, hv⟩ := tag_ok h; cases hv
      · split at h
        · cases h
        · split at h
          · split at h
            · cases h
            · cases h
            · split at h
              · cases h
              · cases h
              · cases h
          · cases h

theorem parse_ok_inscriptionId {fixed : Bool} {s : List Char} {v : InscriptionId.Val}
    (h : parseWith fixed s = .ok (.inscriptionId v)) : InscriptionId.Denotes s v := by
  unfold parseWith at h
  split at h
  · obtain ⟨a, _, hv⟩ := tag_ok h; cases hv
  · split at h
    · obtain ⟨a, _, hv⟩ := tag_ok h; cases hv
    · split at h
      · obtain ⟨a, ha, hv⟩ := tag_ok h
        simp only [Val.inscriptionId.injEq] at hv; subst hv
        exact InscriptionId.parse_ok_denotes ha
      · split at h
        · cases h
        · split at h
          · split at h
            · cases h
            · cases h
            · split at h
              · cases h
              · cases h
              · cases h
          · cases h

end Ord.Text.Outgoing

namespace Ord.Text.Query
open Ord Ord.Text

theorem parseBlock_ne_panic (s : List Char) (site : String) : parseBlock s ≠ .panic site := by
  unfold parseBlock
  split
  · split <;> simp
  · split <;> simp

theorem parseInscription_ne_panic (s : List Char) (site : String) :
    parseInscription s ≠ .panic site := by
  unfold parseInscription
  split
  · cases h : InscriptionId.parse s with
    | ok v => simp
    | err e => simp
    | panic p => exact absurd h (InscriptionId.parse_ne_panic s p)
  · split
    · split <;> simp
    · split
      · cases h : Sub.satFromStr s with
        | ok v => simp
        | err e => simp
        | panic p => exact absurd h (Sub.satFromStr_ne_panic s p)
      · simp

/-- `query::Rune` panics only where `SpacedRune::from_str` does -/
theorem parseRune_panic_only_spaced (fixed : Bool) (s : List Char) (site : String)
    (h : parseRuneWith fixed s = .panic site) :
    Sub.spacedRuneFromStrWith fixed s = .panic site := by
  unfold parseRuneWith at h
  split at h
  · cases hr : Sub.runeIdFromStr s with
    | ok v => obtain ⟨a, b⟩ := v; simp [hr] at h
    | err e => simp [hr] at h
    | panic p => exact absurd hr (Sub.runeIdFromStr_ne_panic s p)
  · split at h
    · split at h <;> cases h
    · cases hr : Sub.spacedRuneFromStrWith fixed s with
      | ok v => obtain ⟨a, b⟩ := v; simp [hr] at h
      | err e => simp [hr] at h
      | panic p => simp only [hr, Outcome.panic.injEq] at h; rw [h]

theorem parseBlock_ok_height {s : List Char} {n : Nat} (h : parseBlock s = .ok (.height n)) :
    Numeral s n ∧ n < 2 ^ 32 := by
  unfold parseBlock at h
  split at h
  · split at h
    · cases h
    · cases h
  · cases hp : parseUnsigned 32 s with
    | error e => simp [hp] at h
    | ok m =>
      simp only [hp, Outcome.ok.injEq, Block.height.injEq] at h
      subst h
      exact (parseUnsigned_ok_iff 32 s m).1 hp

theorem parseBlock_ok_hash {s t : List Char} (h : parseBlock s = .ok (.hash t)) :
    s.length = 64 ∧ s.all isHexDigit = true ∧ t = s.map toLowerAscii := by
  unfold parseBlock at h
  split at h
  · cases hp : parseHash s with
    | none => simp [hp] at h
    | some t' =>
      simp only [hp, Outcome.ok.injEq, Block.hash.injEq] at h
      subst h
      exact parseHash_some hp
  · split at h
    · cases h
    · cases h

theorem parseInscription_ok_id {s : List Char} {v : InscriptionId.Val}
    (h : parseInscription s = .ok (.id v)) : InscriptionId.Denotes s v := by
  unfold parseInscription at h
  split at h
  · cases hp : InscriptionId.parse s with
    | ok v' =>
      simp only [hp, Outcome.ok.injEq, Inscription.id.injEq] at h
      subst h
      exact InscriptionId.parse_ok_denotes hp
    | err e => simp [hp] at h
    | panic p => simp [hp] at h
  · split at h
    · split at h <;> cases h
    · split at h
      · split at h <;> cases h
      · cases h

theorem parseRune_ok_id {fixed : Bool} {s : List Char} {b t : Nat}
    (h : parseRuneWith fixed s = .ok (.id b t)) :
    ∃ bs ts, s = bs ++ ':' :: ts ∧ Numeral bs b ∧ b < 2 ^ 64 ∧ Numeral ts t ∧ t < 2 ^ 32 := by
  unfold parseRuneWith at h
  split at h
  · cases hr : Sub.runeIdFromStr s with
    | ok v =>
      obtain ⟨b', t'⟩ := v
      simp only [hr, Outcome.ok.injEq, Rune.id.injEq] at h
      obtain ⟨rfl, rfl⟩ := h
      exact Sub.runeIdFromStr_ok hr
    | err e => simp [hr] at h
    | panic p => simp [hr] at h
  · split at h
    · split at h <;> cases h
    · split at h <;> cases h

theorem parseRune_ok_number {fixed : Bool} {s : List Char} {n : Nat}
    (h : parseRuneWith fixed s = .ok (.number n)) :
    Numeral s n ∧ n < 2 ^ 64 := by
  unfold parseRuneWith at h
  split at h
  · split at h <;> cases h
  · split at h
    · cases hp : parseUnsigned 64 s with
      | error e => simp [hp] at h
      | ok m =>
        simp only [hp, Outcome.ok.injEq, Rune.number.injEq] at h
        subst h
        exact (parseUnsigned_ok_iff 64 s m).1 hp
    · split at h <;> cases h

end Ord.Text.Query
