import OrdModel.Proofs.IndexMiscNoPanicUtxo
import OrdModel.Proofs.IndexMiscNoPanicLift
/-
C16, part 7: every configuration.  On a valid chain the rune pass of every block succeeds (rune
lift: `RuneLift.rune_pass_ok`, from `RuneSafe` + `LotChainOK` + the frame property of the first
pass), so a run can only end at a failure site of the sat / address / inscription pass.
-/
namespace Ord.Index
open Outcome

theorem runFrom_snoc (cfg : Cfg) (pre : List Block) (st0 st st' : State) (evs ev' : List Event) (b : Block)
    (h1 : runFrom cfg st0 pre = .ok (st, evs)) (h2 : applyBlock cfg st b = .ok (st', ev')) :
    runFrom cfg st0 (pre ++ [b]) = .ok (st', evs ++ ev') := by
  induction pre generalizing st0 evs with
  | nil =>
    simp only [runFrom, Outcome.ok.injEq, Prod.mk.injEq] at h1
    obtain ⟨rfl, rfl⟩ := h1
    simp [runFrom, h2]
  | cons c cs ih =>
    simp only [runFrom] at h1
    split at h1
    · cases h1
    · cases h1
    · rename_i st1 ev1 hc
      split at h1
      · cases h1
      · cases h1
      · rename_i st2 ev2 hrest
        simp only [Outcome.ok.injEq, Prod.mk.injEq] at h1
        obtain ⟨rfl, rfl⟩ := h1
        have := ih st1 ev2 hrest
        simp only [List.cons_append, runFrom, hc, this, List.append_assoc]

/-- one block: the first pass is within `U` and hands a rune-frame-equal state to the rune pass,
which succeeds whenever asked to -/
theorem applyBlock_U (cfg : Cfg) (st : State) (blk : Block)
    (hrune : ∀ st1, Runemint.RuneFrame st st1 → ∃ r, indexRunesBlock st1 blk = .ok r) :
    Within U (applyBlock cfg st blk) := by
  have h1 : WithinP U (fun r => Runemint.RuneFrame st r.1)
      (if (cfg.indexInscriptions || cfg.indexAddresses || cfg.indexSats) = true then indexUtxoEntries cfg st blk
       else .ok (st, [])) := by
    split
    · have hw := indexUtxoEntries_U cfg st blk
      cases hu : indexUtxoEntries cfg st blk with
      | ok r => exact RuneLift.indexUtxoEntries_frame cfg st blk r.1 r.2 hu
      | err e => exact absurd hu hw.not_err
      | panic s => exact hw.panic_mem hu
    · exact RuneLift.frame_refl st
  unfold applyBlock
  simp only []
  split
  · rename_i heq; exact h1.panic_mem heq
  · rename_i heq; exact h1.not_err heq
  · rename_i st1 ev1 heq
    have hf : Runemint.RuneFrame st st1 := h1.of_ok heq
    obtain ⟨r, hr⟩ := hrune st1 hf
    split
    · rename_i heq2
      split at heq2
      · rw [hr] at heq2; cases heq2
      · cases heq2
    · rename_i heq2
      split at heq2
      · rw [hr] at heq2; cases heq2
      · cases heq2
    · trivial

/-- the chain-level statement, generalised over the already indexed prefix -/
theorem runFrom_U (cfg : Cfg) (suf pre : List Block) (st : State) (evs : List Event)
    (hpre : run cfg pre = .ok (st, evs)) (hv : Valid.validChain (pre ++ suf) = true) :
    Within U (runFrom cfg st suf) := by
  induction suf generalizing pre st evs with
  | nil => simp [runFrom, WithinP]
  | cons b bs ih =>
    have hlot : RuneLift.LotChainOK (pre ++ [b]) := by
      apply validChain_lotChainOK
      apply validChain_prefix (pre ++ [b]) bs
      simpa using hv
    have hsafe : ∀ tx ∈ b.txs, RuneSafe b.height tx :=
      validChain_runeSafe (pre ++ b :: bs) hv b (by simp)
    have h1 := applyBlock_U cfg st b
      (fun st1 hf => RuneLift.rune_pass_ok cfg pre st evs hpre b hlot hsafe st1 hf)
    simp only [runFrom]
    split
    · rename_i heq; exact h1.panic_mem heq
    · rename_i heq; exact h1.not_err heq
    · rename_i st1 ev1 hb
      have hpre' : run cfg (pre ++ [b]) = .ok (st1, evs ++ ev1) := runFrom_snoc cfg pre {} st st1 evs ev1 b hpre hb
      have h2 := ih (pre ++ [b]) st1 (evs ++ ev1) hpre' (by simpa using hv)
      split
      · rename_i heq; exact h2.panic_mem heq
      · rename_i heq; exact h2.not_err heq
      · trivial

theorem run_U (cfg : Cfg) (chain : List Block) (hv : Valid.validChain chain = true) : Within U (run cfg chain) :=
  runFrom_U cfg chain [] {} [] rfl (by simpa using hv)

/-- what is left of C16 for a configuration: the sat / address / inscription pass does not panic on
the next block of a valid chain, from the state reached by indexing the blocks before it -/
def UtxoPassOk (cfg : Cfg) (chain : List Block) : Prop :=
  ∀ pre b suf st evs, chain = pre ++ b :: suf → run cfg pre = .ok (st, evs) →
    ∀ s, indexUtxoEntries cfg st b ≠ .panic s

/-- the combination lemma: full C16 for `cfg` follows from `UtxoPassOk cfg chain` -/
theorem run_no_failure_of_utxoPassOk (cfg : Cfg) (chain : List Block) (hv : Valid.validChain chain = true)
    (hu : UtxoPassOk cfg chain) : (∀ s, run cfg chain ≠ .panic s) ∧ (∀ e, run cfg chain ≠ .err e) := by
  refine ⟨fun s hp => ?_, fun _ => (run_U cfg chain hv).not_err⟩
  obtain ⟨pre, b, post, st, evs, hsplit, hpre, hpanic⟩ := RuneLift.runFrom_first_panic cfg chain {} s hp
  have hv1 : Valid.validChain ((pre ++ [b]) ++ post) = true := by simpa [hsplit] using hv
  have hlot : RuneLift.LotChainOK (pre ++ [b]) := validChain_lotChainOK _ (validChain_prefix _ _ hv1)
  have hsafe : ∀ tx ∈ b.txs, RuneSafe b.height tx := validChain_runeSafe chain hv b (by simp [hsplit])
  have hno := hu pre b post st evs hsplit hpre
  -- the panic of `applyBlock` is a panic of one of its two passes
  unfold applyBlock at hpanic
  simp only [] at hpanic
  split at hpanic
  · rename_i s' heq
    split at heq
    · exact hno s' heq
    · cases heq
  · cases hpanic
  · rename_i st1 ev1 heq
    have hf : Runemint.RuneFrame st st1 := by
      split at heq
      · exact RuneLift.indexUtxoEntries_frame cfg st b st1 ev1 heq
      · simp only [Outcome.ok.injEq, Prod.mk.injEq] at heq
        rw [← heq.1]; exact RuneLift.frame_refl _
    obtain ⟨r, hr⟩ := RuneLift.rune_pass_ok cfg pre st evs hpre b hlot hsafe st1 hf
    split at hpanic
    · rename_i heq2
      split at heq2
      · rw [hr] at heq2; cases heq2
      · cases heq2
    · cases hpanic
    · cases hpanic

end Ord.Index
