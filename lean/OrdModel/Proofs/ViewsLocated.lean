import OrdModel.Index.OracleInsloc
import OrdModel.Proofs.IndexMiscAL
import OrdModel.Proofs.Views
/-
The hypothesis `Located` of the C18 output-view theorem follows from the C04 invariant
`InsPartitioned` (OrdModel/Index/OracleInsloc.lean) when the UTXO table has unique keys.
-/
namespace Ord.Server
open Ord Ord.Index

theorem located_of_insPartitioned (cfg : Cfg) (st : State) (h : Insloc.InsPartitioned cfg st)
    (hu : (AL.keys st.utxo).Nodup) :
    ∀ op seq, (∃ e off, AL.get st.utxo op = some e ∧ (seq, off) ∈ e.ins) ↔
      (∃ sp, AL.get st.seq2sp seq = some sp ∧ sp.outpoint = op) := by
  intro op seq
  constructor
  · rintro ⟨e, off, he, hin⟩
    have hmem : (op, e) ∈ st.utxo := AL.mem_of_get he
    have hall : (op, seq, off) ∈ Insloc.allIns st.utxo := by
      unfold Insloc.allIns
      rw [List.mem_flatMap]
      exact ⟨(op, e), hmem, List.mem_map.2 ⟨(seq, off), hin, rfl⟩⟩
    exact ⟨⟨op, off⟩, h.sp_of_listed op seq off hall, rfl⟩
  · rintro ⟨sp, hsp, rfl⟩
    have hmem : (seq, sp) ∈ st.seq2sp := AL.mem_of_get hsp
    have hall := h.listed_of_sp seq sp hmem
    unfold Insloc.allIns at hall
    rw [List.mem_flatMap] at hall
    obtain ⟨⟨o, e⟩, hp, hq⟩ := hall
    obtain ⟨⟨s, off⟩, hin, heq⟩ := List.mem_map.1 hq
    simp only [Prod.mk.injEq] at heq
    obtain ⟨rfl, rfl, rfl⟩ := heq
    exact ⟨e, _, AL.get_of_mem hu hp, hin⟩

end Ord.Server
