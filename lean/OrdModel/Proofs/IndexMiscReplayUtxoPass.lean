import OrdModel.Proofs.IndexMiscReplayFrame
import OrdModel.Proofs.IndexMiscReplayRunes
/-
C37 helper lemmas 3: the UTXO / inscription pass of a block (`indexUtxoEntries`) does not touch
the rune tables and emits only inscription events; hence `UtxoPassFrame cfg` holds for every
configuration.
-/
namespace Ord.Index
open Outcome

/-- rune-side frame between block contexts -/
def RBc (a b : BlockCtx) : Prop :=
  RSame a.st b.st ∧ ∃ add, b.ins.events = a.ins.events ++ add ∧ InsOnly add

theorem RBc.refl (a : BlockCtx) : RBc a a := ⟨RSame.refl _, [], by simp, by simp [InsOnly]⟩

theorem RBc.trans {a b c : BlockCtx} (h1 : RBc a b) (h2 : RBc b c) : RBc a c := by
  obtain ⟨s1, add1, e1, i1⟩ := h1
  obtain ⟨s2, add2, e2, i2⟩ := h2
  refine ⟨s1.trans s2, add1 ++ add2, by rw [e2, e1, List.append_assoc], ?_⟩
  intro e he
  rcases List.mem_append.1 he with he | he
  · exact i1 e he
  · exact i2 e he

theorem takeInputEntries_rbc (cfg : Cfg) (ins : List TxIn) (bc : BlockCtx) (acc : List (TxIn × UtxoEntry))
    (r : BlockCtx × List (TxIn × UtxoEntry)) (h : takeInputEntries cfg ins bc acc = .ok r) : RBc bc r.1 := by
  induction ins generalizing bc acc with
  | nil => simp only [takeInputEntries, Outcome.ok.injEq] at h; subst h; exact RBc.refl _
  | cons i rest ih =>
    simp only [takeInputEntries] at h
    split at h
    · (refine RBc.trans (b := _) ?_ (ih _ _ h); exact ⟨⟨rfl, rfl⟩, [], by simp, by simp [InsOnly]⟩)
    · split at h
      · split at h
        · split at h
          · (refine RBc.trans (b := _) ?_ (ih _ _ h); exact ⟨⟨rfl, rfl⟩, [], by simp, by simp [InsOnly]⟩)
          · cases h
        · (refine RBc.trans (b := _) ?_ (ih _ _ h); exact ⟨⟨rfl, rfl⟩, [], by simp, by simp [InsOnly]⟩)
      · cases h

theorem indexTx_rbc (cfg : Cfg) (blk : Block) (insOn : Bool) (off : Nat) (tx : Tx) (bc bc' : BlockCtx)
    (h : indexTx cfg blk insOn off tx bc = .ok bc') : RBc bc bc' := by
  unfold indexTx at h
  dsimp only at h
  split at h
  · cases h
  · cases h
  · rename_i bc1 inputs hin
    have f1 : RBc bc bc1 := by
      split at hin
      · cases hin; exact RBc.refl _
      · exact takeInputEntries_rbc _ _ _ _ _ hin
    split at h
    · cases h
    · cases h
    · rename_i bc2 outs1 inRanges hs
      have f2 : RBc bc1 bc2 := by
        split at hs
        · split at hs
          · cases hs
          · cases hs
            split <;> exact ⟨⟨rfl, rfl⟩, [], by simp, by simp [InsOnly]⟩
        · cases hs; exact RBc.refl _
      split at h
      · cases h
      · cases h
      · rename_i bc3 outs3 hi
        have f3 : RBc bc2 bc3 := by
          split at hi
          · split at hi
            · cases hi
            · cases hi
            · rename_i ls hls
              cases hi
              obtain ⟨s, add, e, i⟩ := indexInscriptions_rloc _ _ _ _ _ _ _ _ hls
              exact ⟨s, add, e, i⟩
          · cases hi; exact RBc.refl _
        cases h
        exact ((f1.trans f2).trans f3).trans ⟨⟨rfl, rfl⟩, [], by simp, by simp [InsOnly]⟩

theorem indexTxs_rbc (cfg : Cfg) (blk : Block) (insOn : Bool) (l : List (Nat × Tx)) (bc bc' : BlockCtx)
    (h : indexTxs cfg blk insOn l bc = .ok bc') : RBc bc bc' := by
  induction l generalizing bc with
  | nil => simp only [indexTxs, Outcome.ok.injEq] at h; subst h; exact RBc.refl _
  | cons p rest ih =>
    obtain ⟨i, tx⟩ := p
    simp only [indexTxs] at h
    split at h
    · cases h
    · cases h
    · rename_i bc1 h1
      exact (indexTx_rbc _ _ _ _ _ _ _ h1).trans (ih _ h)

theorem flushEntry_rsame (cfg : Cfg) (st : State) (op : OutPoint) (e : UtxoEntry) : RSame st (flushEntry cfg st op e) := by
  unfold flushEntry
  extract_lets e' st1 st2
  have h2 : RSame st st2 := by
    simp only [st2, st1]
    constructor <;> (split <;> rfl)
  split
  · exact h2.trans ⟨rfl, rfl⟩
  · exact h2

theorem flushCache_rsame (cfg : Cfg) (cache : Cache) (st : State) : RSame st (flushCache cfg st cache) := by
  unfold flushCache
  induction cache generalizing st with
  | nil => exact RSame.refl _
  | cons p rest ih =>
    obtain ⟨op, e⟩ := p
    simp only [List.foldl_cons]
    exact (flushEntry_rsame cfg st op e).trans (ih _)

theorem indexUtxoEntries_rsame (cfg : Cfg) (st : State) (blk : Block) (st1 : State) (ev1 : List Event)
    (h : indexUtxoEntries cfg st blk = .ok (st1, ev1)) : RSame st st1 ∧ InsOnly ev1 := by
  unfold indexUtxoEntries at h
  extract_lets insOn coinbaseInputs bc0 order at h
  split at h
  · cases h
  · cases h
  · rename_i bc hbc
    obtain ⟨s, add, e, i⟩ := indexTxs_rbc _ _ _ _ _ _ hbc
    extract_lets src st1' base at h
    have hs1 : RSame st st1' := by
      refine RSame.trans s ?_
      simp only [st1', src]
      constructor <;> (split <;> rfl)
    clear_value st1'
    split at h
    rename_i st2 nullNew lostFromSats heq
    have hs2 : RSame st st2 := by
      split at heq
      · cases heq; exact hs1
      · split at heq
        cases heq
        exact hs1.trans ⟨rfl, rfl⟩
    extract_lets st3 special at h
    simp only [Outcome.ok.injEq, Prod.mk.injEq] at h
    obtain ⟨rfl, rfl⟩ := h
    refine ⟨(hs2.trans ⟨rfl, rfl⟩).trans (flushCache_rsame _ _ _), ?_⟩
    have : bc.ins.events = add := by simpa [bc0] using e
    rw [this]
    exact i

/-- the frame hypothesis of the chain-level rune theorems holds for every configuration -/
theorem utxoPassFrame (cfg : Cfg) : UtxoPassFrame cfg := by
  intro st blk st1 ev1 h
  obtain ⟨hs, hi⟩ := indexUtxoEntries_rsame cfg st blk st1 ev1 h
  refine ⟨hs.1, fun e he => ?_⟩
  have := hi e he
  cases e <;> simp_all [RMNeutral, evTxid]

end Ord.Index
