import OrdModel.Proofs.IndexInslocCarry
namespace Ord.Index.Insloc
open Ord Ord.Index Outcome

/-! ### every envelope of a well-formed non-coinbase transaction is consumed -/

theorem sortedNat_pairwise (l : List Nat) (h : sortedNat l = true) : l.Pairwise (· ≤ ·) := by
  induction l with
  | nil => simp
  | cons a rest ih =>
    cases rest with
    | nil => simp
    | cons b rest' =>
      simp only [sortedNat, Bool.and_eq_true, decide_eq_true_eq] at h
      have hp := ih h.2
      refine List.pairwise_cons.2 ⟨?_, hp⟩
      intro x hx
      rcases List.mem_cons.1 hx with rfl | hx
      · exact h.1
      · exact Nat.le_trans h.1 ((List.pairwise_cons.1 hp).1 x hx)

theorem dropWhile_input_gt (envs : List Envelope) (i : Nat)
    (hs : (envs.map (·.input)).Pairwise (· ≤ ·)) (hge : ∀ e ∈ envs, i ≤ e.input) :
    ((envs.dropWhile (fun e => e.input == i)).map (·.input)).Pairwise (· ≤ ·) ∧
    ∀ e ∈ envs.dropWhile (fun e => e.input == i), i + 1 ≤ e.input ∧ e ∈ envs := by
  induction envs with
  | nil => simp
  | cons a rest ih =>
    simp only [List.map_cons, List.pairwise_cons] at hs
    simp only [List.dropWhile_cons]
    split
    · obtain ⟨h1, h2⟩ := ih hs.2 (fun e he => hge e (List.mem_cons_of_mem _ he))
      exact ⟨h1, fun e he => ⟨(h2 e he).1, List.mem_cons_of_mem _ (h2 e he).2⟩⟩
    · next hne =>
      have hne' : a.input ≠ i := by simpa using hne
      have ha : i + 1 ≤ a.input := by have := hge a (List.mem_cons_self ..); omega
      refine ⟨by simp only [List.map_cons, List.pairwise_cons]; exact hs, fun e he => ⟨?_, he⟩⟩
      rcases List.mem_cons.1 he with rfl | he
      · exact ha
      · exact Nat.le_trans ha (hs.1 e.input (List.mem_map_of_mem he))

theorem scanInputs_consumes_all (cfg : Cfg) (st : State) (jub : Bool) (txid : Txid) (height totalOut : Nat)
    (inputs : List (TxIn × UtxoEntry)) (i : Nat) (sc sc' : ScanState)
    (hnn : ∀ p ∈ inputs, p.1.prev.isNull = false)
    (hs : (sc.envelopes.map (·.input)).Pairwise (· ≤ ·))
    (hr : ∀ e ∈ sc.envelopes, i ≤ e.input ∧ e.input < i + inputs.length)
    (h : scanInputs cfg st jub txid height totalOut inputs i sc = .ok sc') :
    sc'.envelopes = [] := by
  induction inputs generalizing i sc with
  | nil =>
    simp [scanInputs] at h; subst h
    cases he : sc.envelopes with
    | nil => rfl
    | cons e rest => have := hr e (by simp [he]); simp at this; omega
  | cons p rest ih =>
    obtain ⟨txin, entry⟩ := p
    have hnull : txin.prev.isNull = false := hnn (txin, entry) (List.mem_cons_self ..)
    simp only [scanInputs, hnull, Bool.false_eq_true, ↓reduceIte] at h
    split at h
    · simp at h
    · simp at h
    · next sc1 hs1 =>
      split at h
      · simp at h
      · simp at h
      · next sc3 hs3 =>
        obtain ⟨_, _, _, _, _, _, a6, _⟩ := scanOld_spec _ _ _ _ _ _ hs1
        obtain ⟨_, _, _, _, _, b5, _⟩ := scanNew_spec _ _ _ _ _ _ _ _ _ _ hs3
        rw [a6] at b5
        obtain ⟨d1, d2⟩ := dropWhile_input_gt sc.envelopes i hs (fun e he => (hr e he).1)
        refine ih (i + 1) sc3 (fun p hp => hnn p (List.mem_cons_of_mem _ hp)) (by rw [b5]; exact d1) ?_ h
        intro e he
        rw [b5] at he
        have := hr e (d2 e he).2
        simp only [List.length_cons] at this
        exact ⟨(d2 e he).1, by omega⟩


/-- C04 counting, one non-coinbase transaction: with the envelope list in input order and naming
existing inputs (true of `ParsedEnvelope::from_transaction`), every envelope becomes exactly one
inscription — numbered now, or pending in the saved flotsam until the coinbase. -/
theorem indexInscriptions_counts_all (cfg : Cfg) (height time : Nat) (tx : Tx)
    (inputs : List (TxIn × UtxoEntry)) (rs : Option (List (Nat × Nat))) (ls ls' : LocState)
    (hnn : ∀ p ∈ inputs, p.1.prev.isNull = false)
    (hwf : envelopeInputsWF inputs.length (tx.envelopes.map (·.input)) = true)
    (hok : indexInscriptions cfg height time tx inputs rs ls = .ok ls') :
    ls'.st.entries.length + newCount ls'.ctx.flotsam =
      ls.st.entries.length + newCount ls.ctx.flotsam + tx.envelopes.length := by
  rw [indexInscriptions_eq] at hok
  split at hok
  · simp at hok
  · simp at hok
  · next sc hsc =>
    split at hok
    · simp at hok
    · split at hok
      · simp at hok
      · obtain ⟨F, f1, _, _, f4⟩ := scanInputs_spec _ _ _ _ _ _ _ _ _ _ hsc
        simp only [List.nil_append] at f1 f4
        simp only [envelopeInputsWF, Bool.and_eq_true, List.all_eq_true, decide_eq_true_eq] at hwf
        have hall := scanInputs_consumes_all _ _ _ _ _ _ _ _ _ _ hnn
          (sortedNat_pairwise _ hwf.1)
          (fun e he => ⟨Nat.zero_le _, by
            have := hwf.2 e.input (List.mem_map_of_mem he); omega⟩) hsc
        obtain ⟨_, c, _, _, _⟩ := placeTx_conserve _ _ _ _ _ _ _ _ _ _ _
          (by split <;> rfl) (by split <;> rfl) hok
        obtain ⟨_, k2⟩ := txFloating_kind tx sc
        rw [k2, f1] at c
        rw [hall] at f4
        simp only [List.length_nil, Nat.add_zero] at f4
        omega

end Ord.Index.Insloc
