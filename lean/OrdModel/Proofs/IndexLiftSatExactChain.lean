import OrdModel.Proofs.IndexLiftSatExact
/-
Sat-side lift, part 8 (C02, exact partition): block and chain level.
-/
namespace Ord.Index
open Outcome Ord.Index.Sched

/-- the txids of the block are non-zero, pairwise distinct and were never used before; the block
has a coinbase -/
structure BlockFresh (seen : List Txid) (blk : Block) : Prop where
  hasCoinbase : blk.txs ≠ []
  nonzero : ∀ tx ∈ blk.txs, tx.txid ≠ 0
  fresh : ∀ tx ∈ blk.txs, tx.txid ∉ seen
  nodup : (blk.txs.map (·.txid)).Nodup

/-- a chain without duplicate txids, relative to the txids `seen` before it -/
def ChainFresh : List Txid → List Block → Prop
  | _, [] => True
  | seen, b :: bs => BlockFresh seen b ∧ ChainFresh (b.txs.map (·.txid) ++ seen) bs

theorem takeInputEntries_cache_nodup (cfg : Cfg) (ins : List TxIn) (bc : BlockCtx) (acc : List (TxIn × UtxoEntry))
    (bc' : BlockCtx) (acc' : List (TxIn × UtxoEntry)) (hN : (AL.keys bc.cache).Nodup)
    (h : takeInputEntries cfg ins bc acc = .ok (bc', acc')) : (AL.keys bc'.cache).Nodup := by
  induction ins generalizing bc acc with
  | nil =>
    simp only [takeInputEntries, Outcome.ok.injEq, Prod.mk.injEq] at h
    rw [← h.1]; exact hN
  | cons i rest ih =>
    rw [takeInputEntries_cons] at h
    split at h
    · rename_i bc2 e h2
      refine ih bc2 _ ?_ h
      rcases takeOne_cases cfg bc i bc2 e h2 with ⟨-, hc, -⟩ | ⟨-, -, hc, -⟩
      · rw [hc]; exact AL.nodup_erase _ _ hN
      · rw [hc]; exact hN
    · cases h
    · cases h

theorem indexTx_cache_nodup (cfg : Cfg) (hs : cfg.indexSats = true) (blk : Block) (insOn : Bool) (off : Nat)
    (tx : Tx) (bc bc' : BlockCtx) (hN : (AL.keys bc.cache).Nodup)
    (h : indexTx cfg blk insOn off tx bc = .ok bc') : (AL.keys bc'.cache).Nodup := by
  obtain ⟨bc1, inputs, outs, r, htake, -, -, hcache, -⟩ := (indexTx_satEff cfg hs blk insOn off tx bc bc' h).ex
  have h1 : (AL.keys bc1.cache).Nodup := by
    by_cases hz : off = 0
    · simp only [hz, if_true] at htake; rw [htake.1]; exact hN
    · simp only [hz, if_false] at htake
      exact takeInputEntries_cache_nodup cfg _ _ _ _ _ hN htake
  rw [hcache]
  have : ∀ (outs : List UtxoEntry) (n : Nat) (c : Cache), (AL.keys c).Nodup →
      (AL.keys ((enumFrom n outs).foldl (fun c (p : Nat × UtxoEntry) => AL.set c ⟨tx.txid, p.1⟩ p.2) c)).Nodup := by
    intro outs
    induction outs with
    | nil => intro n c hc; exact hc
    | cons o outs ih => intro n c hc; exact ih _ _ (AL.nodup_set _ _ _ hc)
  exact this outs 0 bc1.cache h1

/-- the transactions of a list, all with fresh and pairwise distinct txids -/
theorem indexTxs_exact_noncb (cfg : Cfg) (hs : cfg.indexSats = true) (blk : Block) (insOn : Bool)
    (l : List (Nat × Tx)) (hl : ∀ p ∈ l, p.1 ≠ 0) (bc bc' : BlockCtx) (S : List Txid)
    (hp : ∀ op, AL.get bc.cache op ≠ none → op.txid ∈ S)
    (hnd : (l.map (·.2.txid)).Nodup) (hfresh : ∀ p ∈ l, p.2.txid ∉ S) (hN : (AL.keys bc.cache).Nodup)
    (h : indexTxs cfg blk insOn l bc = .ok bc') :
    (den (poolR bc')).Perm (den (poolR bc)) ∧
    (∀ op, AL.get bc'.cache op ≠ none → op.txid ∈ l.map (·.2.txid) ++ S) ∧
    (∀ op, AL.get bc'.st.utxo op ≠ none → AL.get bc.st.utxo op ≠ none) ∧ (AL.keys bc'.cache).Nodup := by
  induction l generalizing bc S with
  | nil =>
    simp only [indexTxs, Outcome.ok.injEq] at h
    subst h
    exact ⟨List.Perm.refl _, by simpa using hp, fun _ h => h, hN⟩
  | cons p l ih =>
    obtain ⟨i, tx⟩ := p
    simp only [indexTxs] at h
    split at h
    · cases h
    · cases h
    · rename_i bc1 h1
      simp only [List.map_cons, List.nodup_cons] at hnd
      obtain ⟨e1, e2, e3⟩ := indexTx_exact cfg hs blk insOn i tx bc bc1 S hp (hfresh (i, tx) (by simp)) h1
      have hi : i ≠ 0 := hl (i, tx) (by simp)
      simp only [hi, if_false] at e1
      obtain ⟨f1, f2, f3, f4⟩ := ih (fun p hp => hl p (by simp [hp])) bc1 (tx.txid :: S) e2 hnd.2
        (by
          intro p hp' hmem
          rcases List.mem_cons.1 hmem with hm | hm
          · exact hnd.1 (by rw [← hm]; exact List.mem_map_of_mem (f := fun q : Nat × Tx => q.2.txid) hp')
          · exact hfresh p (by simp [hp']) hm)
        (indexTx_cache_nodup cfg hs blk insOn i tx bc bc1 hN h1) h
      refine ⟨f1.trans e1, ?_, fun op hop => e3 op (f3 op hop), f4⟩
      intro op hop
      have := f2 op hop
      simp only [List.mem_append, List.mem_cons, List.map_cons] at this ⊢
      rcases this with h | h | h
      · exact Or.inl (Or.inr h)
      · exact Or.inl (Or.inl h)
      · exact Or.inr h

theorem flushCache_get_ne_none (cfg : Cfg) (c : Cache) (st : State) (op : OutPoint)
    (h : AL.get (flushCache cfg st c).utxo op ≠ none) : AL.get st.utxo op ≠ none ∨ AL.get c op ≠ none := by
  induction c generalizing st with
  | nil => exact Or.inl h
  | cons p c ih =>
    obtain ⟨k, e⟩ := p
    rw [flushCache_cons] at h
    by_cases hk : k = op
    · subst hk; exact Or.inr (by simp [AL.get])
    · have hko : (k == op) = false := by simpa using hk
      rcases ih _ h with h1 | h1
      · rw [flushEntry_utxo, AL.get_set_ne _ _ hk] at h1; exact Or.inl h1
      · exact Or.inr (by simpa [AL.get, hko] using h1)

theorem range_succ_block (a b : Nat) : List.range (a + b) = List.range a ++ List.range' a b := by
  rw [List.range_eq_range', List.range_eq_range', ← List.range'_append_1]
  simp

/-- **one block, exactly**: with fresh txids the new table holds exactly the sats mined so far -/
theorem applyBlock_exact (cfg : Cfg) (hs : cfg.indexSats = true) (st : State) (blk : Block) (seen : List Txid)
    (st' : State) (evs : List Event) (hh : blk.height = st.height)
    (inv : SatsPartitionedExact st) (hprov : TblProv seen st.utxo) (hb : BlockFresh seen blk)
    (h : applyBlock cfg st blk = .ok (st', evs)) :
    SatsPartitionedExact st' ∧ TblProv (blk.txs.map (·.txid) ++ seen) st'.utxo ∧ st'.height = st.height + 1 := by
  obtain ⟨part', hh'⟩ := applyBlock_partition_full cfg hs st blk st' evs hh inv.toSatsPartitioned h
  simp only [applyBlock, hs, Bool.or_true, if_true] at h
  split at h
  · cases h
  · cases h
  · rename_i st1 ev1 h1
    split at h
    · cases h
    · cases h
    · rename_i st2 ev2 hr
      simp only [Outcome.ok.injEq, Prod.mk.injEq] at h
      obtain ⟨rfl, -⟩ := h
      have hss : SatSame st1 st2 := by
        split at hr
        · exact indexRunesBlock_satSame _ _ _ hr
        · simp only [Outcome.ok.injEq, Prod.mk.injEq] at hr
          rw [← hr.1]; exact SatSame.refl _
      -- the UTXO pass
      rw [indexUtxoEntries_eq] at h1
      split at h1
      · cases h1
      · cases h1
      · rename_i bc hbc
        simp only [Outcome.ok.injEq, Prod.mk.injEq] at h1
        obtain ⟨hst1, -⟩ := h1
        obtain ⟨cbtx, rest, htxs⟩ : ∃ c r, blk.txs = c :: r := by
          cases hq : blk.txs with
          | nil => exact absurd hq hb.hasCoinbase
          | cons c r => exact ⟨c, r, rfl⟩
        have hord : blockOrder blk = enumFrom 1 rest ++ [(0, cbtx)] := by
          simp [blockOrder, htxs, enumFrom]
        rw [hord] at hbc
        obtain ⟨bc1, hi1, hi2⟩ := indexTxs_append cfg blk _ _ _ _ bc hbc
        have hnd := hb.nodup
        rw [htxs] at hnd
        simp only [List.map_cons, List.nodup_cons] at hnd
        have hmap : (enumFrom 1 rest).map (fun p => p.2.txid) = rest.map (·.txid) := by
          have hf : (fun p : Nat × Tx => p.2.txid) = (fun t : Tx => t.txid) ∘ (fun p : Nat × Tx => p.2) := rfl
          rw [hf, ← List.map_map, enumFrom_map_snd]
        have hmem : ∀ p ∈ enumFrom 1 rest, p.2 ∈ rest := by
          intro p hp
          have := List.mem_map_of_mem (f := (·.2)) hp
          rwa [enumFrom_map_snd] at this
        obtain ⟨e1, e2, e3, e4⟩ := indexTxs_exact_noncb cfg hs blk _ (enumFrom 1 rest) (enumFrom_succ_ne_zero 0 rest)
          (bc0A cfg st blk) bc1 [] (by intro op hop; simp [bc0A, AL.get] at hop) (by rw [hmap]; exact hnd.2)
          (by intro p _ hm; cases hm) (by simp [bc0A, AL.keys]) hi1
        rw [hmap, List.append_nil] at e2
        simp only [indexTxs] at hi2
        split at hi2
        · cases hi2
        · cases hi2
        · rename_i bc2 hi3
          simp only [Outcome.ok.injEq] at hi2
          subst hi2
          obtain ⟨g1, g2, g3⟩ := indexTx_exact cfg hs blk _ 0 cbtx bc1 bc2 (rest.map (·.txid)) e2 hnd.1 hi3
          simp only [if_true] at g1
          have g4 := indexTx_cache_nodup cfg hs blk _ 0 cbtx bc1 bc2 e4 hi3
          have hnr : NoRanges bc2.ins := by
            have hn0 : NoRanges (bc0A cfg st blk).ins := by simp [NoRanges, bc0A]
            exact (indexTx_satEff cfg hs blk _ 0 cbtx bc1 bc2 hi3).noRanges
              (indexTxs_noRanges cfg hs blk _ _ _ bc1 hi1 hn0)
          -- provenance of the cache at the end of the block
          have hcprov : ∀ op, AL.get bc2.cache op ≠ none → op.txid ∈ blk.txs.map (·.txid) := by
            intro op hop; rw [htxs]; simpa using g2 op hop
          have hcns : ∀ op, AL.get bc2.cache op ≠ none → op.isSpecial = false := by
            intro op hop
            obtain ⟨tx, htx, heq⟩ := List.mem_map.1 (hcprov op hop)
            exact isSpecial_false_of_txid (by rw [← heq]; exact hb.nonzero tx htx)
          have htsub : ∀ op, AL.get bc2.st.utxo op ≠ none → AL.get st.utxo op ≠ none :=
            fun op hop => e3 op (g3 op hop)
          obtain ⟨hu3, hh3⟩ := endState_utxo_height cfg blk (insOnOf cfg blk) bc2
          have hkeys : (AL.keys (bc2.cache ++ specialOf (endState cfg blk (insOnOf cfg blk) bc2).2 bc2.ins.unboundEntry)).Nodup := by
            rw [keys_append]
            refine List.nodup_append.2 ⟨g4, keys_specialOf_nodup _ _, ?_⟩
            intro a ha b hb' hab
            subst hab
            have h1 := keys_specialOf_special _ _ a hb'
            have h2 := hcns a (by rw [Ne, AL.get_eq_none_iff]; exact fun hc => hc ha)
            rw [h1] at h2; cases h2
          have hfl := flushCache_exact cfg _ (endState cfg blk (insOnOf cfg blk) bc2).1 hkeys (by
            intro op hop hsp
            rw [hu3]
            apply Classical.byContradiction
            intro hcon
            have hc : AL.get bc2.cache op ≠ none := by
              rw [AL_get_append] at hop
              intro hc0
              rw [hc0] at hop
              simp only at hop
              have : op ∈ AL.keys (specialOf (endState cfg blk (insOnOf cfg blk) bc2).2 bc2.ins.unboundEntry) := by
                apply Classical.byContradiction
                intro hnm
                exact hop ((AL.get_eq_none_iff _ _).2 hnm)
              rw [keys_specialOf_special _ _ op this] at hsp; cases hsp
            obtain ⟨tx, htx, heq⟩ := List.mem_map.1 (hcprov op hc)
            rcases hprov op (htsub op hcon) with h1 | h1
            · rw [h1] at hsp; cases hsp
            · exact hb.fresh tx htx (by rw [heq]; exact h1))
          have hsp := special_ranges cfg blk (insOnOf cfg blk) bc2 hnr
          -- the pool at the start of the block is exactly the sats mined up to and including it
          have h0 : (den (poolR (bc0A cfg st blk))).Perm (List.range (startingSat (st.height + 1))) := by
            simp only [poolR, bc0A, coinbaseInputsOf, allRanges_nil, List.append_nil, hs, true_and, hh]
            rw [startingSat_succ, range_succ_block, den_append]
            refine List.Perm.append inv.perm ?_
            split
            · simp
            · rename_i hz0
              have : subsidy st.height = 0 := by omega
              simp [this]
          refine ⟨⟨part', ?_⟩, ?_, hh'⟩
          · show (allSats st2.utxo).Perm _
            rw [hss.utxo, ← hst1]
            have : (allSats (flushCache cfg (endState cfg blk (insOnOf cfg blk) bc2).1
                (bc2.cache ++ specialOf (endState cfg blk (insOnOf cfg blk) bc2).2 bc2.ins.unboundEntry)).utxo).Perm
                (den (poolR' bc2)) := by
              unfold allSats
              refine (den_perm hfl).trans ?_
              rw [hu3, allRanges_append, hsp]
              simp only [poolR', List.append_assoc]
              exact List.Perm.refl _
            refine this.trans (g1.trans (e1.trans ?_))
            rw [hh', hss.height] at *
            simpa using h0
          · intro op hop
            have hop' : AL.get st1.utxo op ≠ none := by rw [← hss.utxo]; exact hop
            rw [← hst1] at hop'
            rcases flushCache_get_ne_none cfg _ _ op hop' with h1 | h1
            · rw [hu3] at h1
              rcases hprov op (htsub op h1) with h2 | h2
              · exact Or.inl h2
              · exact Or.inr (List.mem_append_right _ h2)
            · rw [AL_get_append] at h1
              cases hc : AL.get bc2.cache op with
              | some e => exact Or.inr (List.mem_append_left _ (hcprov op (by rw [hc]; simp)))
              | none =>
                rw [hc] at h1
                simp only at h1
                left
                apply keys_specialOf_special _ _ op
                apply Classical.byContradiction
                intro hnm
                exact h1 ((AL.get_eq_none_iff _ _).2 hnm)

/-- **every reachable state on a chain without duplicate txids is partitioned exactly**: the sats
held by the table (null outpoint included) are a permutation of `0 … startingSat height - 1` -/
theorem reachable_exact (cfg : Cfg) (hs : cfg.indexSats = true) (chain : List Block) (hc : ChainHeights chain)
    (hf : ChainFresh [] chain) (st : State) (evs : List Event) (h : run cfg chain = .ok (st, evs)) :
    SatsPartitionedExact st ∧ st.height = chain.length := by
  have key : ∀ (bs pre : List Block) (seen : List Txid) (s : State) (e : List Event),
      SatsPartitionedExact s → TblProv seen s.utxo → s.height = pre.length → ChainHeights (pre ++ bs) →
      ChainFresh seen bs → ∀ s' e', runFrom cfg s bs = .ok (s', e') →
      SatsPartitionedExact s' ∧ s'.height = (pre ++ bs).length := by
    intro bs
    induction bs with
    | nil =>
      intro pre seen s e inv _ hl _ _ s' e' hr
      simp only [runFrom, Outcome.ok.injEq, Prod.mk.injEq] at hr
      obtain ⟨rfl, -⟩ := hr
      exact ⟨inv, by simpa using hl⟩
    | cons b bs ih =>
      intro pre seen s e inv hprov hl hch hfr s' e' hr
      simp only [runFrom] at hr
      split at hr
      · cases hr
      · cases hr
      · rename_i s1 e1 hb
        split at hr
        · cases hr
        · cases hr
        · rename_i s2 e2 hrest
          simp only [Outcome.ok.injEq, Prod.mk.injEq] at hr
          obtain ⟨rfl, -⟩ := hr
          have hbh : b.height = s.height := by
            have := hch pre.length (by simp)
            simpa [hl] using this
          obtain ⟨inv1, hprov1, hh1⟩ := applyBlock_exact cfg hs s b seen s1 e1 hbh inv hprov hfr.1 hb
          have := ih (pre ++ [b]) _ s1 e1 inv1 hprov1 (by simp [hh1, hl]) (by simpa using hch) hfr.2 s2 e2 hrest
          simpa using this
  have := key chain [] [] {} [] satsPartitioned_empty (by intro op hop; simp [AL.get] at hop) rfl
    (by simpa using hc) hf st evs h
  simpa using this

end Ord.Index
