import OrdModel.Proofs.WalletRunesSplit
/- C22 helper lemmas, part 5: the split transaction. -/
namespace Ord.Wallet.RuneTx
open Ord Ord.Index Ord.Index.Spec

/-- units of rune id `q` the split file asks for in total -/
def needOf (ids : Nat → RuneId) (outs : List SplitOut) (q : RuneId) : Nat :=
  (outs.map (fun o => unitsOf ids o.runes q)).sum

/-- units of rune id `q` the split file asks for on its `j`-th output -/
def reqAt (ids : Nat → RuneId) (outs : List SplitOut) (j : Nat) (q : RuneId) : Nat :=
  match outs[j]? with
  | some o => unitsOf ids o.runes q
  | none => 0

/-- the same, by rune name -/
def needN (outs : List SplitOut) (n : Nat) : Nat := (outs.map (fun o => bal o.runes n)).sum

theorem unitsOf_cons (ids : Nat → RuneId) (x : Nat × Nat) (rest : List (Nat × Nat)) (q : RuneId) :
    unitsOf ids (x :: rest) q = (if ids x.1 = q then x.2 else 0) + unitsOf ids rest q := by
  unfold unitsOf
  by_cases h : ids x.1 = q
  · simp [List.filter_cons, h]
  · simp [List.filter_cons, h]

theorem bal_cons (x : Nat × Nat) (rest : List (Nat × Nat)) (n : Nat) :
    bal (x :: rest) n = (if x.1 = n then x.2 else 0) + bal rest n := by
  unfold bal
  by_cases h : x.1 = n
  · simp [List.filter_cons, h]
  · simp [List.filter_cons, h]

theorem sumFor_map (ids : Nat → RuneId) (q : RuneId) (k : Nat) : ∀ runes : List (Nat × Nat),
    sumFor q (runes.map (fun p => (⟨ids p.1, p.2, k⟩ : Edict))) = unitsOf ids runes q := by
  intro runes
  induction runes with
  | nil => rfl
  | cons x rest ih => simp only [List.map_cons, sumFor, ih, unitsOf_cons]

theorem sumAt_map (ids : Nat → RuneId) (q : RuneId) (v k : Nat) : ∀ runes : List (Nat × Nat),
    sumAt q v (runes.map (fun p => (⟨ids p.1, p.2, k⟩ : Edict))) = if k = v then unitsOf ids runes q else 0 := by
  intro runes
  induction runes with
  | nil => simp [sumAt, unitsOf]
  | cons x rest ih =>
    simp only [List.map_cons, sumAt, ih, unitsOf_cons]
    by_cases hk : k = v
    · by_cases hq : ids x.1 = q <;> simp [hk, hq]
    · simp [hk]

theorem sumFor_splitEdicts (ids : Nat → RuneId) (q : RuneId) (base : Nat) : ∀ (outs : List SplitOut) (i : Nat),
    sumFor q (splitEdicts ids base i outs) = needOf ids outs q := by
  intro outs
  induction outs with
  | nil => intro i; rfl
  | cons o rest ih =>
    intro i
    simp only [splitEdicts, sumFor_append, sumFor_map, ih, needOf, List.map_cons, List.sum_cons]

theorem sumAt_splitEdicts (ids : Nat → RuneId) (q : RuneId) (base v : Nat) : ∀ (outs : List SplitOut) (i : Nat),
    sumAt q v (splitEdicts ids base i outs) = if i + base ≤ v then reqAt ids outs (v - (i + base)) q else 0 := by
  intro outs
  induction outs with
  | nil => intro i; simp [splitEdicts, sumAt, reqAt]
  | cons o rest ih =>
    intro i
    simp only [splitEdicts, sumAt_append, sumAt_map, ih]
    by_cases h1 : i + base = v
    · subst h1
      have : ¬ (i + 1 + base ≤ i + base) := by omega
      simp [this, reqAt]
    · by_cases h2 : i + 1 + base ≤ v
      · have h3 : i + base ≤ v := by omega
        have h4 : v - (i + base) = (v - (i + 1 + base)) + 1 := by omega
        simp [h1, h2, h3, reqAt, h4]
      · have h3 : ¬ (i + base ≤ v) := by omega
        simp [h1, h2, h3]

theorem plain_splitEdicts {ids : Nat → RuneId} (hg : GoodIds ids) (base : Nat) : ∀ (outs : List SplitOut) (i : Nat),
    (∀ o ∈ outs, ∀ p ∈ o.runes, p.2 ≠ 0) →
    ∀ e ∈ splitEdicts ids base i outs,
      (i + base ≤ e.output ∧ e.output < i + base + outs.length) ∧ e.amount ≠ 0 ∧ e.id ≠ ⟨0, 0⟩ := by
  intro outs
  induction outs with
  | nil => intro i _ e he; simp [splitEdicts] at he
  | cons o rest ih =>
    intro i hnz e he
    simp only [splitEdicts, List.mem_append, List.mem_map] at he
    rcases he with ⟨p, hp, rfl⟩ | he
    · refine ⟨⟨Nat.le_refl _, by simp⟩, hnz o (List.mem_cons_self ..) p hp, hg.nz _⟩
    · have := ih (i + 1) (fun o' ho' => hnz o' (List.mem_cons_of_mem _ ho')) e he
      refine ⟨⟨by omega, by simp only [List.length_cons]; omega⟩, this.2⟩

/-! ### the required-amounts scan -/

theorem lk_addTo : ∀ (acc : List (Nat × Nat)) (r a n : Nat),
    lk (addTo acc r a) n = lk acc n + (if r = n then a else 0) := by
  intro acc
  induction acc with
  | nil => intro r a n; simp [addTo, lk]
  | cons x t ih =>
    intro r a n
    obtain ⟨k, v⟩ := x
    simp only [addTo]
    by_cases hk : k = r
    · subst hk
      simp only [if_true, lk]
      by_cases hn : k = n
      · simp [hn]
      · simp [hn]
    · simp only [if_neg hk, lk]
      by_cases hn : k = n
      · have : ¬ r = n := fun h => hk (hn.trans h.symm)
        simp [hn, this]
      · simp [hn, ih]

theorem scanRunes_lk : ∀ (runes acc acc' : List (Nat × Nat)), scanRunes runes acc = .ok acc' →
    ∀ n, lk acc' n = lk acc n + bal runes n := by
  intro runes
  induction runes with
  | nil => intro acc acc' h n; simp [scanRunes] at h; subst h; simp [bal]
  | cons x rest ih =>
    intro acc acc' h n
    obtain ⟨r, a⟩ := x
    simp only [scanRunes] at h
    split at h
    · cases h
    · split at h
      · rw [ih _ _ h n, lk_addTo, bal_cons]; simp only; omega
      · cases h

theorem scanOutputs_lk : ∀ (outs : List SplitOut) (acc req : List (Nat × Nat)), scanOutputs outs acc = .ok req →
    ∀ n, lk req n = lk acc n + needN outs n := by
  intro outs
  induction outs with
  | nil => intro acc req h n; simp [scanOutputs] at h; subst h; simp [needN]
  | cons o rest ih =>
    intro acc req h n
    simp only [scanOutputs] at h
    split at h
    · rename_i acc' hsr
      rw [ih _ _ h n, scanRunes_lk _ _ _ hsr n]
      simp only [needN, List.map_cons, List.sum_cons]; omega
    · cases h
    · cases h

theorem lk_le_of_all (sel : List Input) : ∀ (req : List (Nat × Nat)),
    req.any (fun p => decide (total sel p.1 < p.2)) = false → ∀ n, lk req n ≤ total sel n := by
  intro req
  induction req with
  | nil => intro _ n; simp [lk]
  | cons x t ih =>
    intro h n
    obtain ⟨k, v⟩ := x
    simp only [List.any_cons, Bool.or_eq_false_iff, decide_eq_false_iff_not] at h
    simp only [lk]
    by_cases hk : k = n
    · subst hk; simp only [if_true]; omega
    · simp only [if_neg hk]; exact ih h.2 n

/-! ### names ↔ ids -/

theorem needOf_ids {ids : Nat → RuneId} (hg : GoodIds ids) (outs : List SplitOut) (n : Nat) :
    needOf ids outs (ids n) = needN outs n := by
  unfold needOf needN
  congr 1
  apply List.map_congr_left
  intro o _
  exact unitsOf_ids hg o.runes n

theorem needOf_zero (ids : Nat → RuneId) (outs : List SplitOut) (q : RuneId) (h : ∀ n, ids n ≠ q) :
    needOf ids outs q = 0 := by
  unfold needOf
  apply sum_zero_of_all_zero
  intro x hx
  rcases List.mem_map.mp hx with ⟨o, _, rfl⟩
  exact unitsOf_zero ids o.runes q (fun p _ => h p.1)

theorem total_zero_of_not_mem (sel : List Input) (n : Nat) (h : n ∉ names sel) : total sel n = 0 := by
  false_or_by_contra
  rename_i hne
  exact h (total_pos_mem sel n (by omega))

/-- coverage and exactness, by rune id -/
theorem need_le_input {ids : Nat → RuneId} (hg : GoodIds ids) (outs : List SplitOut) (sel : List Input)
    (req : List (Nat × Nat)) (hreq : ∀ n, lk req n = needN outs n) (hle : ∀ n, lk req n ≤ total sel n) (q : RuneId) :
    needOf ids outs q ≤ inputOf ids sel q := by
  by_cases h : ∃ n, ids n = q
  · obtain ⟨n, rfl⟩ := h
    rw [needOf_ids hg, inputOf_ids hg, ← hreq n]; exact hle n
  · have h' : ∀ n, ids n ≠ q := fun n hn => h ⟨n, hn⟩
    rw [needOf_zero ids outs q h']; omega

theorem need_eq_input {ids : Nat → RuneId} (hg : GoodIds ids) (outs : List SplitOut) (sel : List Input)
    (req : List (Nat × Nat)) (hreq : ∀ n, lk req n = needN outs n) (hle : ∀ n, lk req n ≤ total sel n)
    (hnc : (names sel).any (fun n => decide (total sel n > lk req n)) = false) (q : RuneId) :
    inputOf ids sel q = needOf ids outs q := by
  have heq : ∀ n, total sel n = lk req n := by
    intro n
    by_cases hm : n ∈ names sel
    · have := List.any_eq_false.mp hnc n hm
      simp only [decide_eq_true_eq] at this
      have := hle n; omega
    · have := total_zero_of_not_mem sel n hm
      have := hle n; omega
  by_cases h : ∃ n, ids n = q
  · obtain ⟨n, rfl⟩ := h
    rw [needOf_ids hg, inputOf_ids hg, heq n, hreq n]
  · have h' : ∀ n, ids n ≠ q := fun n hn => h ⟨n, hn⟩
    rw [needOf_zero ids outs q h', inputOf_zero ids sel q (fun i _ p _ => h' p.1)]

end Ord.Wallet.RuneTx

namespace Ord.Wallet.RuneTx
open Ord Ord.Index Ord.Index.Spec

theorem splitOuts_ok : ∀ (outs : List SplitOut) (i : Nat) (dests : List OutK), splitOuts i outs = .ok dests →
    dests.map (fun o => o == OutK.stone) = List.replicate outs.length false ∧
    ∀ (j : Nat) (o : SplitOut), outs[j]? = some o → dests[j]? = some (OutK.dest (i + j) (o.value.getD o.dust)) := by
  intro outs
  induction outs with
  | nil => intro i dests h; simp [splitOuts] at h; subst h; simp
  | cons o rest ih =>
    intro i dests h
    simp only [splitOuts] at h
    split at h
    · cases h
    · split at h
      · rename_i l hl
        have := Outcome.ok.inj h
        subst this
        obtain ⟨h1, h2⟩ := ih (i + 1) l hl
        refine ⟨?_, ?_⟩
        · simp only [List.map_cons, List.length_cons, List.replicate_succ, h1]
          simp
        · intro j o' hj
          cases j with
          | zero => simp at hj; subst hj; simp
          | succ k =>
            simp only [List.getElem?_cons_succ] at hj ⊢
            rw [h2 k o' hj]
            congr 2; omega
      · cases h
      · cases h

/-- what a successful `split` returns -/
theorem split_ok {inv : List WOut} {ids : Nat → RuneId} {noLimit : Bool} {postage : Option Nat} {changeDust : Nat}
    {outputs : List SplitOut} {tx : Tx} (h : split inv ids noLimit postage changeDust outputs = .ok tx) :
    ∃ (req : List (Nat × Nat)) (dests : List OutK) (nc : Bool),
      outputs ≠ [] ∧
      scanOutputs outputs [] = .ok req ∧
      tx.inputs = selectSplit req (runicBalances inv) [] ∧
      req.any (fun p => decide (total tx.inputs p.1 < p.2)) = false ∧
      nc = (names tx.inputs).any (fun n => decide (total tx.inputs n > lk req n)) ∧
      splitOuts 0 outputs = .ok dests ∧
      tx.stone = true ∧
      tx.edicts = splitEdicts ids (if nc then 2 else 1) 0 outputs ∧
      tx.outs = (if nc then [.stone, .change (postage.getD TARGET_POSTAGE)] else [.stone]) ++ dests := by
  unfold split at h
  split at h
  · cases h
  · rename_i hne
    simp only at h
    split at h
    · cases h
    · split at h
      · cases h
      · cases h
      · rename_i req hreq
        split at h
        · cases h
        · rename_i hshort
          generalize hnc : List.any (names (selectSplit req (runicBalances inv) []))
            (fun n => decide (total (selectSplit req (runicBalances inv) []) n > lk req n)) = nc at h
          cases nc with
          | true =>
            simp only [if_true] at h
            split at h
            · cases h
            · split at h
              · cases h
              · cases h
              · rename_i dests hdests
                split at h
                · cases h
                · have := Outcome.ok.inj h
                  subst this
                  refine ⟨req, dests, true, ?_, hreq, rfl, ?_, hnc.symm, hdests, rfl, rfl, rfl⟩
                  · intro he; apply hne; simp [he]
                  · simpa using hshort
          | false =>
            simp only [Bool.false_eq_true, if_false] at h
            split at h
            · cases h
            · split at h
              · cases h
              · cases h
              · rename_i dests hdests
                split at h
                · cases h
                · have := Outcome.ok.inj h
                  subst this
                  refine ⟨req, dests, false, ?_, hreq, rfl, ?_, hnc.symm, hdests, rfl, rfl, rfl⟩
                  · intro he; apply hne; simp [he]
                  · simpa using hshort

end Ord.Wallet.RuneTx

namespace Ord.Wallet.RuneTx
open Ord Ord.Index Ord.Index.Spec

theorem opReturnAt_tail_false (l : List Bool) (hl : ∀ b ∈ l, b = false) (v : Nat) :
    opReturnAt (true :: l) (v + 1) = false := by
  unfold opReturnAt
  simp only [List.getElem?_cons_succ]
  cases h : l[v]? with
  | none => rfl
  | some b => exact hl b (List.mem_of_getElem? h)

/-- the allocation on a `split` transaction (funded shape `tx.opret ++ extra`) -/
theorem split_alloc (inv : List WOut) (ids : Nat → RuneId) (hg : GoodIds ids) (noLimit : Bool)
    (postage : Option Nat) (changeDust : Nat) (outputs : List SplitOut) (tx : Tx)
    (hok : split inv ids noLimit postage changeDust outputs = .ok tx)
    (extra : List Bool) (added : RuneId → Nat) (hadded : ∀ q, added q = 0) (q : RuneId) :
    ∃ (base : Nat) (dests : List OutK),
      (base = 1 ∨ base = 2) ∧
      tx.outs = (if base = 2 then [.stone, .change (postage.getD TARGET_POSTAGE)] else [.stone]) ++ dests ∧
      (∀ (j : Nat) (o : SplitOut), outputs[j]? = some o → dests[j]? = some (OutK.dest j (o.value.getD o.dust))) ∧
      needOf ids outputs q ≤ inputOf ids tx.inputs q + added q ∧
      (Spec.allocate (tx.opret ++ extra) tx.msg none q (inputOf ids tx.inputs q + added q)).burned = 0 ∧
      (∀ j, (Spec.allocate (tx.opret ++ extra) tx.msg none q (inputOf ids tx.inputs q + added q)).out (base + j)
          = reqAt ids outputs j q) ∧
      (Spec.allocate (tx.opret ++ extra) tx.msg none q (inputOf ids tx.inputs q + added q)).out 0 = 0 ∧
      (base = 2 → (Spec.allocate (tx.opret ++ extra) tx.msg none q (inputOf ids tx.inputs q + added q)).out 1
          = inputOf ids tx.inputs q + added q - needOf ids outputs q) ∧
      (base = 1 → inputOf ids tx.inputs q + added q = needOf ids outputs q) := by
  rw [hadded q, Nat.add_zero]
  obtain ⟨req, dests, nc, hne, hreq, _, hshort, hnc, hdests, hst, hed, houts⟩ := split_ok hok
  obtain ⟨hdmap, hdget⟩ := splitOuts_ok outputs 0 dests hdests
  have hnz := scanOutputs_ok outputs [] req hreq
  have hlk : ∀ n, lk req n = needN outputs n := by
    intro n; rw [scanOutputs_lk outputs [] req hreq n]; simp [lk]
  have hle := lk_le_of_all tx.inputs req hshort
  have hcov := need_le_input hg outputs tx.inputs req hlk hle q
  obtain ⟨m, hm⟩ : ∃ m, outputs.length = m + 1 := by
    cases outputs with
    | nil => exact absurd rfl hne
    | cons o rest => exact ⟨rest.length, rfl⟩
  have hmsg : tx.msg = .runestone (splitEdicts ids (if nc then 2 else 1) 0 outputs) none := by
    simp [Tx.msg, hst, hed]
  have hallfalse : ∀ b ∈ List.replicate outputs.length false, b = false := fun b hb => (List.mem_replicate.mp hb).2
  cases nc with
  | true =>
    have hop : tx.opret = [true, false] ++ List.replicate outputs.length false := by
      simp [Tx.opret, houts, hdmap]
    simp only [if_true] at hmsg
    rw [hop, hmsg]
    have hpl := plain_splitEdicts hg 2 outputs 0 hnz
    have hA := alloc_plain ([true, false] ++ List.replicate outputs.length false) extra
      (splitEdicts ids 2 0 outputs) q (inputOf ids tx.inputs q) 1
      (by intro e he; have := hpl e he; refine ⟨?_, this.2⟩; simp; omega)
      (by rw [sumFor_splitEdicts]; exact hcov)
      (by simp [eligible, eligibleFrom]) (by simp) (by rfl)
      (by
        intro e he
        have := (hpl e he).1.1
        obtain ⟨k, hk⟩ : ∃ k, e.output = k + 1 := ⟨e.output - 1, by omega⟩
        rw [hk]
        exact opReturnAt_tail_false _ (by
          intro b hb
          have hb' : b = false ∨ b ∈ List.replicate outputs.length false := by simpa using hb
          rcases hb' with hb' | hb'
          · exact hb'
          · exact hallfalse b hb') k)
    refine ⟨2, dests, Or.inr rfl, by simpa using houts, by simpa using hdget, hcov, hA.2, ?_, ?_, ?_, ?_⟩
    · intro j
      rw [hA.1 (2 + j), sumAt_splitEdicts]
      have h1 : 0 + 2 ≤ 2 + j := by omega
      have h2 : ¬ (2 + j = 1) := by omega
      have h3 : 2 + j - (0 + 2) = j := by omega
      simp [h1, h2, h3]
    · rw [hA.1 0, sumAt_splitEdicts]; simp
    · intro _
      rw [hA.1 1, sumAt_splitEdicts, sumFor_splitEdicts]; simp
    · intro h; omega
  | false =>
    have hop : tx.opret = [true] ++ List.replicate outputs.length false := by
      simp [Tx.opret, houts, hdmap]
    simp only [Bool.false_eq_true, if_false] at hmsg
    rw [hop, hmsg]
    have heq := need_eq_input hg outputs tx.inputs req hlk hle hnc.symm q
    have hpl := plain_splitEdicts hg 1 outputs 0 hnz
    have hA := alloc_plain ([true] ++ List.replicate outputs.length false) extra
      (splitEdicts ids 1 0 outputs) q (inputOf ids tx.inputs q) 1
      (by intro e he; have := hpl e he; refine ⟨?_, this.2⟩; simp; omega)
      (by rw [sumFor_splitEdicts]; exact hcov)
      (by rw [hm]; simp [eligible, eligibleFrom, List.replicate_succ])
      (by simp; omega)
      (by rw [hm]; rfl)
      (by
        intro e he
        have := (hpl e he).1.1
        obtain ⟨k, hk⟩ : ∃ k, e.output = k + 1 := ⟨e.output - 1, by omega⟩
        rw [hk]
        exact opReturnAt_tail_false _ hallfalse k)
    refine ⟨1, dests, Or.inl rfl, by simpa using houts, by simpa using hdget, hcov, hA.2, ?_, ?_, ?_, ?_⟩
    · intro j
      rw [hA.1 (1 + j), sumAt_splitEdicts, sumFor_splitEdicts, heq]
      have h1 : 0 + 1 ≤ 1 + j := by omega
      have h3 : 1 + j - (0 + 1) = j := by omega
      simp [h1, h3]
    · rw [hA.1 0, sumAt_splitEdicts]; simp
    · intro h; omega
    · intro _; exact heq

end Ord.Wallet.RuneTx
