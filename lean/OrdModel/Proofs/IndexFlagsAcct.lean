import OrdModel.Proofs.IndexFlagsTx
import OrdModel.Proofs.IndexInslocScan
import OrdModel.Proofs.IndexInslocCarry
import OrdModel.Proofs.IndexLiftSatFrame
/-
C15 helper lemmas 4: with the sat index on and inscriptions indexed, the inscription updater's
fee / lost-sat accounting (`reward`, `lost_sats`) and the sat ranges agree: before the coinbase
`reward = |coinbase input ranges|`, after it `lost_sats = LostSats + |lost ranges of the block|`.
This is why `LostSats` (hence the null-outpoint offset of lost inscriptions) does not depend on
the sat index — as long as inscriptions are indexed in every block (first inscription height 0).
-/
namespace Ord.Index
open Outcome Sched Insloc

theorem takeOne_frame (cfg : Cfg) (bc : BlockCtx) (i : TxIn) (bc' : BlockCtx) (e : UtxoEntry)
    (h : takeOne cfg bc i = .ok (bc', e)) :
    bc'.coinbaseInputs = bc.coinbaseInputs ∧ bc'.lostRanges = bc.lostRanges ∧ bc'.st.lostSats = bc.st.lostSats := by
  unfold takeOne at h
  split at h
  · simp only [Outcome.ok.injEq, Prod.mk.injEq] at h; rw [← h.1]; exact ⟨rfl, rfl, rfl⟩
  · split at h
    · simp only at h
      split at h
      · split at h
        · simp only [Outcome.ok.injEq, Prod.mk.injEq] at h; rw [← h.1]; exact ⟨rfl, rfl, rfl⟩
        · cases h
      · simp only [Outcome.ok.injEq, Prod.mk.injEq] at h; rw [← h.1]; exact ⟨rfl, rfl, rfl⟩
    · cases h

theorem takeInputEntries_frame (cfg : Cfg) (inputs : List TxIn) (bc : BlockCtx) (acc : List (TxIn × UtxoEntry))
    (bc' : BlockCtx) (r : List (TxIn × UtxoEntry))
    (h : takeInputEntries cfg inputs bc acc = .ok (bc', r)) :
    bc'.coinbaseInputs = bc.coinbaseInputs ∧ bc'.lostRanges = bc.lostRanges ∧ bc'.st.lostSats = bc.st.lostSats ∧
      r.map (·.1) = acc.map (·.1) ++ inputs := by
  induction inputs generalizing bc acc with
  | nil =>
    simp only [takeInputEntries, Outcome.ok.injEq, Prod.mk.injEq] at h
    rw [← h.1, ← h.2]; simp
  | cons i rest ih =>
    rw [takeInputEntries_cons] at h
    split at h
    · rename_i bc1 e h1
      obtain ⟨a, b, c, d⟩ := ih _ _ h
      obtain ⟨a1, b1, c1⟩ := takeOne_frame _ _ _ _ _ h1
      refine ⟨a.trans a1, b.trans b1, c.trans c1, ?_⟩
      rw [d]; simp
    · cases h
    · cases h

/-- total input value after the scan: the sum of the spent entries' values (no null input) -/
theorem scanInputs_total (cfg : Cfg) (st : State) (jub : Bool) (txid : Txid) (height totalOut : Nat) :
    ∀ (inputs : List (TxIn × UtxoEntry)) (i : Nat) (sc sc' : ScanState),
      (∀ p ∈ inputs, p.1.prev.isNull = false) →
      scanInputs cfg st jub txid height totalOut inputs i sc = .ok sc' →
      sc'.totalInputValue = sc.totalInputValue + (inputs.map (fun p => p.2.totalValue cfg)).sum
  | [], i, sc, sc', _, h => by
    simp only [scanInputs, Outcome.ok.injEq] at h; subst h; simp
  | (txin, entry) :: rest, i, sc, sc', hn, h => by
    simp only [scanInputs] at h
    have h0 : txin.prev.isNull = false := hn (txin, entry) List.mem_cons_self
    simp only [h0, Bool.false_eq_true, if_false] at h
    split at h
    · cases h
    · cases h
    · rename_i sc1 h1
      split at h
      · cases h
      · cases h
      · rename_i sc3 h3
        obtain ⟨_, _, _, _, _, _, _, t1⟩ := scanOld_spec _ _ _ _ _ _ h1
        obtain ⟨_, _, _, _, _, _, t3⟩ := scanNew_spec _ _ _ _ _ _ _ _ _ _ h3
        have ih := scanInputs_total cfg st jub txid height totalOut rest (i + 1) sc3 sc'
          (fun p hp => hn p (List.mem_cons_of_mem _ hp)) h
        rw [ih, t3]
        simp only [List.map_cons, List.sum_cons]
        rw [t1]
        omega

theorem lenR_assign_leftover : ∀ (vs : List Nat) (q : Ranges), lenR (BipR.assignOutputs vs q).2 = lenR q - vs.sum
  | [], q => by simp [BipR.assignOutputs]
  | v :: vs, q => by
    simp only [BipR.assignOutputs, List.sum_cons]
    rw [lenR_assign_leftover vs (dropR v q), lenR_dropR]
    omega

theorem sats_leftover (vs : List Nat) (q : Ranges) (r : TxSats) (h : indexTransactionSats vs q = some r) :
    vs.sum ≤ lenR q ∧ lenR r.leftover = lenR q - vs.sum := by
  rw [indexTransactionSats_spec] at h
  by_cases hle : vs.sum ≤ lenR q
  · rw [if_pos hle] at h
    simp only [Option.some.injEq] at h
    subst h
    exact ⟨hle, lenR_assign_leftover vs q⟩
  · rw [if_neg hle] at h
    cases h

theorem lenR_flatMap_ranges (cfg : Cfg) (hs : cfg.indexSats = true) : ∀ (inputs : List (TxIn × UtxoEntry)),
    lenR (inputs.flatMap (fun x => x.2.ranges)) = (inputs.map (fun p => p.2.totalValue cfg)).sum
  | [] => rfl
  | p :: rest => by
    simp only [List.flatMap_cons, lenR_append, List.map_cons, List.sum_cons, lenR_flatMap_ranges cfg hs rest]
    simp [UtxoEntry.totalValue, hs, rangesValue_eq_lenR]

/-- before the coinbase of a block -/
structure Acct (L : Nat) (bc : BlockCtx) : Prop where
  st : bc.st.lostSats = L
  ins : bc.ins.lostSats = L
  lost : bc.lostRanges = []
  reward : bc.ins.reward = lenR bc.coinbaseInputs

theorem txIsCoinbase_false (off : Nat) (tx : Tx) (h0 : off ≠ 0) (hs : TxShape off tx = true) :
    txIsCoinbase tx = false := by
  simp only [TxShape, h0, if_false, Bool.and_eq_true, List.all_eq_true, bne_iff_ne, ne_eq] at hs
  unfold txIsCoinbase
  cases hi : tx.inputs with
  | nil => rfl
  | cons i rest =>
    have := hs.2 i (by rw [hi]; exact List.mem_cons_self)
    simp [OutPoint.isNull, this]

theorem txIsCoinbase_true (tx : Tx) (hs : TxShape 0 tx = true) : txIsCoinbase tx = true := by
  simp only [TxShape, if_true, Bool.and_eq_true] at hs
  exact hs.2

/-- what the inscription pass of a non-coinbase transaction does to `reward` / `lost_sats` -/
theorem indexInscriptions_carry (cfg : Cfg) (height time : Nat) (tx : Tx) (inputs : List (TxIn × UtxoEntry))
    (ir : Option (List (Nat × Nat))) (ls ls' : LocState) (hcb : txIsCoinbase tx = false)
    (hn : ∀ p ∈ inputs, p.1.prev.isNull = false)
    (h : indexInscriptions cfg height time tx inputs ir ls = .ok ls') :
    (tx.outputs.map (·.value)).sum ≤ (inputs.map (fun p => p.2.totalValue cfg)).sum ∧
    ls'.ctx.reward = ls.ctx.reward + ((inputs.map (fun p => p.2.totalValue cfg)).sum - (tx.outputs.map (·.value)).sum) ∧
    ls'.ctx.lostSats = ls.ctx.lostSats := by
  rw [Insloc.indexInscriptions_eq] at h
  split at h
  · cases h
  · cases h
  · rename_i sc hsc
    have ht := scanInputs_total cfg _ _ _ _ _ inputs 0 _ sc hn hsc
    simp only [Nat.zero_add] at ht
    split at h
    · cases h
    · split at h
      · cases h
      · rw [hcb] at h
        obtain ⟨a, b, _, d, e, _⟩ := placeTx_carry _ _ _ _ _ _ _ _ _ _ h
        rw [a] at b d
        rw [ht] at b d
        exact ⟨b, d, e⟩

theorem indexInscriptions_cb (cfg : Cfg) (height time : Nat) (tx : Tx) (inputs : List (TxIn × UtxoEntry))
    (ir : Option (List (Nat × Nat))) (ls ls' : LocState) (hcb : txIsCoinbase tx = true)
    (h : indexInscriptions cfg height time tx inputs ir ls = .ok ls') :
    (tx.outputs.map (·.value)).sum ≤ ls.ctx.reward ∧
    ls'.ctx.lostSats = ls.ctx.lostSats + (ls.ctx.reward - (tx.outputs.map (·.value)).sum) := by
  rw [Insloc.indexInscriptions_eq] at h
  split at h
  · cases h
  · cases h
  · split at h
    · cases h
    · split at h
      · cases h
      · rw [hcb] at h
        obtain ⟨a, b, _, _⟩ := placeTx_coinbase _ _ _ _ _ _ _ _ _ _ h
        exact ⟨a, b⟩

theorem isNull_false_of_txid {op : OutPoint} (h : op.txid ≠ 0) : op.isNull = false := by
  simp [OutPoint.isNull, h]

theorem indexTx_acct_noncb (cfg : Cfg) (hs : cfg.indexSats = true) (blk : Block) (off : Nat) (tx : Tx)
    (bc bc' : BlockCtx) (h0 : off ≠ 0) (hshape : TxShape off tx = true)
    (h : indexTx cfg blk true off tx bc = .ok bc') (L : Nat) (A : Acct L bc) : Acct L bc' := by
  rw [indexTx_eq] at h
  simp only [h0, if_false] at h
  cases ht : takeInputEntries cfg tx.inputs bc [] with
  | panic s => rw [ht] at h; simp at h
  | err e => rw [ht] at h; simp at h
  | ok q =>
    obtain ⟨bc1, inputs⟩ := q
    rw [ht] at h
    dsimp only at h
    obtain ⟨f1, f2, f3, f4⟩ := takeInputEntries_frame cfg tx.inputs bc [] bc1 inputs ht
    have fins := takeInputEntries_ins cfg tx.inputs bc [] bc1 inputs ht
    have hn : ∀ p ∈ inputs, p.1.prev.isNull = false := by
      intro p hp
      have hall : ∀ i ∈ tx.inputs, i.prev.txid ≠ 0 := by
        simp only [TxShape, h0, if_false, Bool.and_eq_true, List.all_eq_true, bne_iff_ne, ne_eq] at hshape
        exact hshape.2
      have : p.1 ∈ inputs.map (·.1) := List.mem_map_of_mem hp
      rw [f4] at this
      simp only [List.map_nil, List.nil_append] at this
      exact isNull_false_of_txid (hall _ this)
    cases hm : indexTxMid cfg blk true off tx bc1 inputs with
    | panic s => rw [hm] at h; simp at h
    | err e => rw [hm] at h; simp at h
    | ok r3 =>
      obtain ⟨bc3, outs3⟩ := r3
      rw [hm] at h
      simp only [Outcome.ok.injEq] at h
      subst h
      unfold indexTxMid at hm
      simp only [hs, h0, if_true, if_false] at hm
      cases hr : indexTransactionSats (tx.outputs.map (·.value)) (inputs.flatMap (fun x => x.2.ranges)) with
      | none => rw [hr] at hm; simp at hm
      | some r =>
        rw [hr] at hm
        dsimp only at hm
        generalize (if cfg.indexAddresses = true then _ else _ : List UtxoEntry) = outs2 at hm
        cases hi : indexInscriptions cfg blk.height blk.time tx inputs (some (inputs.flatMap (fun x => x.2.ranges)))
            { st := { bc1.st with sat2sp := setRare tx.txid bc1.st.sat2sp r.rare }, ctx := bc1.ins, outs := outs2 } with
        | panic s => rw [hi] at hm; simp at hm
        | err e => rw [hi] at hm; simp at hm
        | ok ls =>
          rw [hi] at hm
          simp only [Outcome.ok.injEq, Prod.mk.injEq] at hm
          obtain ⟨rfl, _⟩ := hm
          obtain ⟨c1, c2, c3⟩ := indexInscriptions_carry cfg _ _ tx inputs _ _ ls
            (txIsCoinbase_false off tx h0 hshape) hn hi
          have hss := (indexInscriptions_satSame cfg _ _ tx inputs _ _ ls hi).lostSats
          obtain ⟨l1, l2⟩ := sats_leftover _ _ r hr
          rw [lenR_flatMap_ranges cfg hs inputs] at l1 l2
          refine ⟨?_, ?_, ?_, ?_⟩
          · show ls.st.lostSats = L
            rw [hss]; show bc1.st.lostSats = L; rw [f3]; exact A.st
          · show ls.ctx.lostSats = L
            rw [c3]; show bc1.ins.lostSats = L; rw [fins]; exact A.ins
          · show bc1.lostRanges = []
            rw [f2]; exact A.lost
          · show ls.ctx.reward = lenR (bc1.coinbaseInputs ++ r.leftover)
            rw [c2, lenR_append, l2, f1]
            show bc1.ins.reward + _ = _
            rw [fins, A.reward]

/-- the coinbase: afterwards `lost_sats = LostSats + |lost ranges|` -/
theorem indexTx_acct_cb (cfg : Cfg) (hs : cfg.indexSats = true) (blk : Block) (tx : Tx)
    (bc bc' : BlockCtx) (hshape : TxShape 0 tx = true)
    (h : indexTx cfg blk true 0 tx bc = .ok bc') (L : Nat) (A : Acct L bc) :
    bc'.st.lostSats = L ∧ bc'.ins.lostSats = L + lenR bc'.lostRanges := by
  rw [indexTx_eq] at h
  simp only [if_true] at h
  cases hm : indexTxMid cfg blk true 0 tx bc (tx.inputs.map (fun i => (i, UtxoEntry.empty))) with
  | panic s => rw [hm] at h; simp at h
  | err e => rw [hm] at h; simp at h
  | ok r3 =>
    obtain ⟨bc3, outs3⟩ := r3
    rw [hm] at h
    simp only [Outcome.ok.injEq] at h
    subst h
    unfold indexTxMid at hm
    simp only [hs, if_true] at hm
    cases hr : indexTransactionSats (tx.outputs.map (·.value)) bc.coinbaseInputs with
    | none => rw [hr] at hm; simp at hm
    | some r =>
      rw [hr] at hm
      dsimp only at hm
      generalize (if cfg.indexAddresses = true then _ else _ : List UtxoEntry) = outs2 at hm
      cases hi : indexInscriptions cfg blk.height blk.time tx (tx.inputs.map (fun i => (i, UtxoEntry.empty)))
          (some bc.coinbaseInputs)
          { st := { bc.st with sat2sp := setRare tx.txid bc.st.sat2sp r.rare }, ctx := bc.ins, outs := outs2 } with
      | panic s => rw [hi] at hm; simp at hm
      | err e => rw [hi] at hm; simp at hm
      | ok ls =>
        rw [hi] at hm
        simp only [Outcome.ok.injEq, Prod.mk.injEq] at hm
        obtain ⟨rfl, _⟩ := hm
        obtain ⟨c1, c2⟩ := indexInscriptions_cb cfg _ _ tx _ _ _ ls (txIsCoinbase_true tx hshape) hi
        have hss := (indexInscriptions_satSame cfg _ _ tx _ _ _ ls hi).lostSats
        obtain ⟨l1, l2⟩ := sats_leftover _ _ r hr
        refine ⟨?_, ?_⟩
        · show ls.st.lostSats = L
          rw [hss]; exact A.st
        · show ls.ctx.lostSats = L + lenR (bc.lostRanges ++ r.leftover)
          rw [c2, lenR_append, l2, A.lost]
          show bc.ins.lostSats + (bc.ins.reward - _) = _
          rw [A.ins, A.reward]
          simp [lenR]

end Ord.Index
