import OrdModel.Index.Replay
import OrdModel.Proofs.IndexMiscAL
/-
C37 helper lemmas 1: `update_inscription_location` split into its two halves (`uilStep`: the
table writes and the event; `uilFinish`: where the `(sequence number, offset)` pair is pushed),
and the rune-side frame of the inscription/UTXO pass (`indexUtxoEntries` neither touches
`runeEntries`/`balances` nor emits a rune event).
-/
namespace Ord.Index
open Outcome

/-- first half of `updateInscriptionLocation`: entry/number/charm writes and the event -/
def uilStep (height time : Nat) (inputRanges : Option (List (Nat × Nat)))
    (fl : Flotsam) (newSatpoint : SatPoint) (opReturn : Bool) (ls : LocState) :
    Outcome (Bool × Nat × State × InsCtx) :=
    match fl.origin with
    | .old seq oldSp =>
      match ls.st.entries[seq]? with
      | none => if opReturn then .panic "sequence_number_to_entry.get(&sequence_number).unwrap()" else
          .ok (false, seq, ls.st,
            { ls.ctx with events := ls.ctx.events ++ [.inscriptionTransferred height fl.id newSatpoint oldSp seq] })
      | some entry =>
        let st1 := if opReturn then
            { ls.st with entries := ls.st.entries.set seq { entry with charms := setCharm entry.charms charmBurned } }
          else ls.st
        .ok (false, seq, st1,
          { ls.ctx with events := ls.ctx.events ++ [.inscriptionTransferred height fl.id newSatpoint oldSp seq] })
    | .new cursed fee gallery hidden parents reinscription unbound vindicated =>
      if (if cursed then ls.st.cursed else ls.st.blessed) ≥ 2147483648 then
        .panic "inscription count try_into::<i32>().unwrap()"
      else
      let number : Int := if cursed then -((ls.st.cursed : Int) + 1) else (ls.st.blessed : Int)
      let st0 := if cursed then { ls.st with cursed := ls.st.cursed + 1 } else { ls.st with blessed := ls.st.blessed + 1 }
      let seq := st0.entries.length
      let st1 := { st0 with num2seq := AL.set st0.num2seq number seq }
      let satO : Outcome (Option Nat) :=
        if unbound then .ok none
        else match inputRanges with
          | none => .ok none
          | some rs => match calculateSat rs 0 fl.offset with
            | .ok s => .ok (some s)
            | .panic s => .panic s
            | .err e => .err e
      match satO with
      | .panic s => .panic s
      | .err e => .err e
      | .ok sat =>
        let c0 := if cursed then charmCursed else 0
        let c1 := if reinscription then setCharm c0 charmReinscription else c0
        let c2 := match sat with | some s => c1 + satCharms s | none => c1
        let c3 := if opReturn then setCharm c2 charmBurned else c2
        let c4 := if newSatpoint.outpoint.isNull then setCharm c3 charmLost else c3
        let c5 := if unbound then setCharm c4 charmUnbound else c4
        let charms := if vindicated then setCharm c5 charmVindicated else c5
        let st2 := match sat with
          | some s => { st1 with sat2seq := insertUnique st1.sat2seq (s, seq) }
          | none => st1
        match linkParents seq parents st2 [] [] with
        | .panic s => .panic s
        | .err e => .err e
        | .ok (st3, parentIds, parentSeqs) =>
          let st4 := if gallery && !hidden then { st3 with gallery := insertUnique st3.gallery seq } else st3
          let ev := Event.inscriptionCreated height charms fl.id (if unbound then none else some newSatpoint) parentIds seq
          let entry : InsEntry := ⟨charms, fee, height, hidden, fl.id, number, parentSeqs, sat, seq, time⟩
          let st5 := { st4 with entries := st4.entries ++ [entry], id2seq := AL.set st4.id2seq fl.id seq }
          let (st6, homeCount) :=
            if hidden then (st5, ls.ctx.homeCount)
            else
              let home := st5.home ++ [(seq, fl.id)]
              if ls.ctx.homeCount = 100 then ({ st5 with home := home.drop 1 }, ls.ctx.homeCount)
              else ({ st5 with home := home }, ls.ctx.homeCount + 1)
          .ok (unbound, seq, st6, { ls.ctx with events := ls.ctx.events ++ [ev], homeCount := homeCount })

/-- second half: push `(seq, offset)` onto the entry of the new location -/
def uilFinish (newSatpoint : SatPoint) (target : Target) (outs : List UtxoEntry) :
    Bool × Nat × State × InsCtx → Outcome LocState
  | (unbound, seq, st, ctx) =>
    if unbound then
      let off := st.unbound
      let e := (ctx.unboundEntry.getD UtxoEntry.empty)
      .ok { st := { st with unbound := st.unbound + 1 },
            ctx := { ctx with unboundEntry := some (pushIns e seq off) }, outs := outs }
    else
      match target with
      | .output vout =>
        match outs[vout]? with
        | none => .panic "output_utxo_entries[vout]"
        | some e => .ok { st := st, ctx := ctx, outs := outs.set vout (pushIns e seq newSatpoint.offset) }
      | .null =>
        if !newSatpoint.outpoint.isSpecial then .panic "assert!(Index::is_special_outpoint(satpoint.outpoint))"
        else
          let e := (ctx.nullEntry.getD UtxoEntry.empty)
          .ok { st := st, ctx := { ctx with nullEntry := some (pushIns e seq newSatpoint.offset) }, outs := outs }

theorem uil_eq (cfg : Cfg) (height time : Nat) (ir : Option (List (Nat × Nat)))
    (fl : Flotsam) (sp : SatPoint) (opr : Bool) (tgt : Target) (ls : LocState) :
    updateInscriptionLocation cfg height time ir fl sp opr tgt ls =
      match uilStep height time ir fl sp opr ls with
      | .panic s => .panic s
      | .err e => .err e
      | .ok (unbound, seq, st, ctx) => uilFinish sp tgt ls.outs (unbound, seq, st, ctx) := by
  unfold updateInscriptionLocation uilStep
  exact rfl


/-! ### rune-side frame of the inscription updater -/

/-- events without a txid field = inscription events -/
def InsOnly (evs : List Event) : Prop := ∀ e ∈ evs, evTxid e = none

/-- `b` has the rune tables of `a` -/
def RSame (a b : State) : Prop := b.runeEntries = a.runeEntries ∧ b.balances = a.balances

theorem RSame.refl (a : State) : RSame a a := ⟨rfl, rfl⟩
theorem RSame.trans {a b c : State} (h1 : RSame a b) (h2 : RSame b c) : RSame a c :=
  ⟨h2.1.trans h1.1, h2.2.trans h1.2⟩

theorem linkParents_rsame (seq : Nat) (ps : List InscriptionId) (st : State) (ids : List InscriptionId) (seqs : List Nat)
    (r : State × List InscriptionId × List Nat) (h : linkParents seq ps st ids seqs = .ok r) : RSame st r.1 := by
  induction ps generalizing st ids seqs with
  | nil => simp [linkParents] at h; subst h; exact RSame.refl _
  | cons p rest ih =>
    simp only [linkParents] at h
    split at h
    · exact ih _ _ _ h
    · split at h
      · simp at h
      · have := ih _ _ _ h
        refine RSame.trans ?_ this
        constructor <;> (split <;> rfl)

theorem uilStep_rsame (height time : Nat) (ir : Option (List (Nat × Nat))) (fl : Flotsam) (sp : SatPoint)
    (opr : Bool) (ls : LocState) (r : Bool × Nat × State × InsCtx)
    (hr : uilStep height time ir fl sp opr ls = .ok r) :
    RSame ls.st r.2.2.1 ∧ ∃ e, r.2.2.2.events = ls.ctx.events ++ [e] ∧ evTxid e = none := by
  unfold uilStep at hr
  split at hr
  · -- old
    split at hr
    · split at hr
      · simp at hr
      · cases hr; exact ⟨⟨rfl, rfl⟩, _, rfl, rfl⟩
    · extract_lets src st1 at hr
      cases hr
      refine ⟨⟨?_, ?_⟩, _, rfl, rfl⟩ <;> (simp only [st1]; split <;> rfl)
  · -- new
    rename_i cursed fee gallery hidden parents reinscription unbound vindicated horigin
    by_cases hc : (if cursed = true then ls.st.cursed else ls.st.blessed) ≥ 2147483648
    · rw [if_pos hc] at hr; simp at hr
    · rw [if_neg hc] at hr
      extract_lets number src st0 seq st1 satO c0 c1 at hr
      clear_value satO
      split at hr
      · simp at hr
      · simp at hr
      · extract_lets c2 c3 c4 c5 charms st2 at hr
        split at hr
        · simp at hr
        · simp at hr
        · rename_i st3 pids pseqs hlp
          have hf := linkParents_rsame _ _ _ _ _ _ hlp
          extract_lets st4 ev entry st5 at hr
          have h2 : RSame ls.st st2 := by
            simp only [st2, st1, st0, src]
            constructor <;> (split <;> split <;> rfl)
          have h3 : RSame ls.st st3 := h2.trans hf
          have h5 : RSame ls.st st5 := by
            refine h3.trans ?_
            simp only [st5, st4]
            constructor <;> (split <;> rfl)
          have hev : evTxid ev = none := rfl
          split at hr
          rename_i st6 homeCount heq
          obtain rfl := Outcome.ok.inj hr
          have h6 : RSame ls.st st6 := by
            split at heq
            · cases heq; exact h5
            · split at heq <;> (cases heq; exact h5.trans ⟨rfl, rfl⟩)
          exact ⟨h6, ev, rfl, hev⟩

theorem uilFinish_rsame (sp : SatPoint) (tgt : Target) (outs : List UtxoEntry) (u : Bool) (seq : Nat) (st : State)
    (ctx : InsCtx) (ls' : LocState) (h : uilFinish sp tgt outs (u, seq, st, ctx) = .ok ls') :
    RSame st ls'.st ∧ ls'.ctx.events = ctx.events := by
  unfold uilFinish at h
  dsimp only at h
  split at h
  · cases h; exact ⟨⟨rfl, rfl⟩, rfl⟩
  · split at h
    · split at h
      · cases h
      · cases h; exact ⟨⟨rfl, rfl⟩, rfl⟩
    · split at h
      · cases h
      · cases h; exact ⟨⟨rfl, rfl⟩, rfl⟩

/-- what the inscription updater may do on the rune side: nothing, and it emits only inscription events -/
def RLoc (ls ls' : LocState) : Prop :=
  RSame ls.st ls'.st ∧ ∃ add, ls'.ctx.events = ls.ctx.events ++ add ∧ InsOnly add

theorem RLoc.refl (ls : LocState) : RLoc ls ls := ⟨RSame.refl _, [], by simp, by simp [InsOnly]⟩

theorem RLoc.trans {a b c : LocState} (h1 : RLoc a b) (h2 : RLoc b c) : RLoc a c := by
  obtain ⟨s1, add1, e1, i1⟩ := h1
  obtain ⟨s2, add2, e2, i2⟩ := h2
  refine ⟨s1.trans s2, add1 ++ add2, by rw [e2, e1, List.append_assoc], ?_⟩
  intro e he
  rcases List.mem_append.1 he with he | he
  · exact i1 e he
  · exact i2 e he

theorem uil_rloc (cfg : Cfg) (height time : Nat) (ir : Option (List (Nat × Nat))) (fl : Flotsam) (sp : SatPoint)
    (opr : Bool) (target : Target) (ls ls' : LocState)
    (h : updateInscriptionLocation cfg height time ir fl sp opr target ls = .ok ls') : RLoc ls ls' := by
  rw [uil_eq] at h
  split at h
  · cases h
  · cases h
  · rename_i u seq st ctx hs
    obtain ⟨h1, e, he, hn⟩ := uilStep_rsame _ _ _ _ _ _ _ _ hs
    obtain ⟨h2, h3⟩ := uilFinish_rsame _ _ _ _ _ _ _ _ h
    refine ⟨h1.trans h2, [e], by rw [h3]; exact he, ?_⟩
    intro e' he'
    simp only [List.mem_singleton] at he'
    subst he'
    exact hn

theorem applyLocations_rloc (cfg : Cfg) (height time : Nat) (ir : Option (List (Nat × Nat)))
    (locs : List (SatPoint × Flotsam × Bool)) (ls ls' : LocState)
    (h : applyLocations cfg height time ir locs ls = .ok ls') : RLoc ls ls' := by
  induction locs generalizing ls with
  | nil => simp only [applyLocations, Outcome.ok.injEq] at h; subst h; exact RLoc.refl _
  | cons p rest ih =>
    obtain ⟨sp, fl, opr⟩ := p
    simp only [applyLocations] at h
    split at h
    · simp at h
    · simp at h
    · rename_i ls1 h1
      exact RLoc.trans (uil_rloc _ _ _ _ _ _ _ _ _ _ h1) (ih _ h)

theorem applyLost_rloc (cfg : Cfg) (height time : Nat) (ir : Option (List (Nat × Nat))) (ov : Nat)
    (fls : List Flotsam) (ls ls' : LocState)
    (h : applyLost cfg height time ir ov fls ls = .ok ls') : RLoc ls ls' := by
  induction fls generalizing ls with
  | nil => simp only [applyLost, Outcome.ok.injEq] at h; subst h; exact RLoc.refl _
  | cons fl rest ih =>
    simp only [applyLost] at h
    split at h
    · simp at h
    · simp at h
    · rename_i ls1 h1
      exact RLoc.trans (uil_rloc _ _ _ _ _ _ _ _ _ _ h1) (ih _ h)

theorem indexInscriptions_rloc (cfg : Cfg) (height time : Nat) (tx : Tx) (inputs : List (TxIn × UtxoEntry))
    (ir : Option (List (Nat × Nat))) (ls ls' : LocState)
    (h : indexInscriptions cfg height time tx inputs ir ls = .ok ls') : RLoc ls ls' := by
  unfold indexInscriptions at h
  extract_lets jubilant totalOut hasNew src st1 isCoinbase src2 ctx1 at h
  have h0 : RLoc ls { st := st1, ctx := ctx1, outs := ls.outs } := by
    refine ⟨⟨?_, ?_⟩, [], ?_, by simp [InsOnly]⟩
    · simp only [st1]; split <;> rfl
    · simp only [st1]; split <;> rfl
    · simp only [ctx1, src2]; split <;> simp
  clear_value st1 ctx1
  split at h
  · simp at h
  · simp at h
  · rename_i sc hsc
    extract_lets at h
    split at h
    · simp at h
    · split at h
      · simp at h
      · split at h
        rename_i locs rest outputValue hao
        split at h
        · simp at h
        · simp at h
        · rename_i ls2 h2
          have f2 := RLoc.trans h0 (applyLocations_rloc _ _ _ _ _ _ _ h2)
          split at h
          · split at h
            · simp at h
            · simp at h
            · rename_i ls3 h3
              have f3 := RLoc.trans f2 (applyLost_rloc _ _ _ _ _ _ _ _ h3)
              split at h
              · simp at h
              · obtain rfl := Outcome.ok.inj h
                exact f3
          · split at h
            · simp at h
            · obtain rfl := Outcome.ok.inj h
              exact f2

end Ord.Index
