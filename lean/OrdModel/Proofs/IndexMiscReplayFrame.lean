import OrdModel.Index.Replay
import OrdModel.Proofs.IndexMiscAL
/-
C37 helper lemmas 1: `update_inscription_location` split into its two halves (`uilStep`: the
table writes and the event; `uilFinish`: where the `(sequence number, offset)` pair is pushed),
and the rune-side frame of the inscription/UTXO pass (`indexUtxoEntries` neither touches
`runeEntries`/`balances` nor emits a rune event).
-/
namespace Ord.Index
open Outcome

/-- first half of `updateInscriptionLocation`: entry/number/charm writes and the event -/
def uilStep (height time : Nat) (inputRanges : Option (List (Nat × Nat)))
    (fl : Flotsam) (newSatpoint : SatPoint) (opReturn : Bool) (ls : LocState) :
    Outcome (Bool × Nat × State × InsCtx) :=
    match fl.origin with
    | .old seq oldSp =>
      match ls.st.entries[seq]? with
      | none => if opReturn then .panic "sequence_number_to_entry.get(&sequence_number).unwrap()" else
          .ok (false, seq, ls.st,
            { ls.ctx with events := ls.ctx.events ++ [.inscriptionTransferred height fl.id newSatpoint oldSp seq] })
      | some entry =>
        let st1 := if opReturn then
            { ls.st with entries := ls.st.entries.set seq { entry with charms := setCharm entry.charms charmBurned } }
          else ls.st
        .ok (false, seq, st1,
          { ls.ctx with events := ls.ctx.events ++ [.inscriptionTransferred height fl.id newSatpoint oldSp seq] })
    | .new cursed fee gallery hidden parents reinscription unbound vindicated =>
      if (if cursed then ls.st.cursed else ls.st.blessed) ≥ 2147483648 then
        .panic "inscription count try_into::<i32>().unwrap()"
      else
      let number : Int := if cursed then -((ls.st.cursed : Int) + 1) else (ls.st.blessed : Int)
      let st0 := if cursed then { ls.st with cursed := ls.st.cursed + 1 } else { ls.st with blessed := ls.st.blessed + 1 }
      let seq := st0.entries.length
      let st1 := { st0 with num2seq := AL.set st0.num2seq number seq }
      let satO : Outcome (Option Nat) :=
        if unbound then .ok none
        else match inputRanges with
          | none => .ok none
          | some rs => match calculateSat rs 0 fl.offset with
            | .ok s => .ok (some s)
            | .panic s => .panic s
            | .err e => .err e
      match satO with
      | .panic s => .panic s
      | .err e => .err e
      | .ok sat =>
        let c0 := if cursed then charmCursed else 0
        let c1 := if reinscription then setCharm c0 charmReinscription else c0
        let c2 := match sat with | some s => c1 + satCharms s | none => c1
        let c3 := if opReturn then setCharm c2 charmBurned else c2
        let c4 := if newSatpoint.outpoint.isNull then setCharm c3 charmLost else c3
        let c5 := if unbound then setCharm c4 charmUnbound else c4
        let charms := if vindicated then setCharm c5 charmVindicated else c5
        let st2 := match sat with
          | some s => { st1 with sat2seq := insertUnique st1.sat2seq (s, seq) }
          | none => st1
        match linkParents seq parents st2 [] [] with
        | .panic s => .panic s
        | .err e => .err e
        | .ok (st3, parentIds, parentSeqs) =>
          let st4 := if gallery && !hidden then { st3 with gallery := insertUnique st3.gallery seq } else st3
          let ev := Event.inscriptionCreated height charms fl.id (if unbound then none else some newSatpoint) parentIds seq
          let entry : InsEntry := ⟨charms, fee, height, hidden, fl.id, number, parentSeqs, sat, seq, time⟩
          let st5 := { st4 with entries := st4.entries ++ [entry], id2seq := AL.set st4.id2seq fl.id seq }
          let (st6, homeCount) :=
            if hidden then (st5, ls.ctx.homeCount)
            else
              let home := st5.home ++ [(seq, fl.id)]
              if ls.ctx.homeCount = 100 then ({ st5 with home := home.drop 1 }, ls.ctx.homeCount)
              else ({ st5 with home := home }, ls.ctx.homeCount + 1)
          .ok (unbound, seq, st6, { ls.ctx with events := ls.ctx.events ++ [ev], homeCount := homeCount })

/-- second half: push `(seq, offset)` onto the entry of the new location -/
def uilFinish (newSatpoint : SatPoint) (target : Target) (outs : List UtxoEntry) :
    Bool × Nat × State × InsCtx → Outcome LocState
  | (unbound, seq, st, ctx) =>
    if unbound then
      let off := st.unbound
      let e := (ctx.unboundEntry.getD UtxoEntry.empty)
      .ok { st := { st with unbound := st.unbound + 1 },
            ctx := { ctx with unboundEntry := some (pushIns e seq off) }, outs := outs }
    else
      match target with
      | .output vout =>
        match outs[vout]? with
        | none => .panic "output_utxo_entries[vout]"
        | some e => .ok { st := st, ctx := ctx, outs := outs.set vout (pushIns e seq newSatpoint.offset) }
      | .null =>
        if !newSatpoint.outpoint.isSpecial then .panic "assert!(Index::is_special_outpoint(satpoint.outpoint))"
        else
          let e := (ctx.nullEntry.getD UtxoEntry.empty)
          .ok { st := st, ctx := { ctx with nullEntry := some (pushIns e seq newSatpoint.offset) }, outs := outs }

theorem uil_eq (cfg : Cfg) (height time : Nat) (ir : Option (List (Nat × Nat)))
    (fl : Flotsam) (sp : SatPoint) (opr : Bool) (tgt : Target) (ls : LocState) :
    updateInscriptionLocation cfg height time ir fl sp opr tgt ls =
      match uilStep height time ir fl sp opr ls with
      | .panic s => .panic s
      | .err e => .err e
      | .ok (unbound, seq, st, ctx) => uilFinish sp tgt ls.outs (unbound, seq, st, ctx) := by
  unfold updateInscriptionLocation uilStep
  exact rfl

end Ord.Index
