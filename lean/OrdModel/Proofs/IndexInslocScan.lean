import OrdModel.Proofs.IndexInslocTx
namespace Ord.Index.Insloc
open Ord Ord.Index Outcome

/-! ### the input scan -/

theorem scanOld_spec (st : State) (prev : OutPoint) (base : Nat) (l : List (Nat × Nat)) (sc sc' : ScanState)
    (h : scanOld st prev base l sc = .ok sc') :
    ∃ F, sc'.floating = sc.floating ++ F ∧ oldSeqs F = l.map (·.1) ∧ newCount F = 0 ∧
      F.map (·.offset) = l.map (fun p => base + p.2) ∧
      sc'.idCounter = sc.idCounter ∧ sc'.envelopes = sc.envelopes ∧
      sc'.totalInputValue = sc.totalInputValue := by
  induction l generalizing sc with
  | nil => simp [scanOld] at h; subst h; exact ⟨[], by simp⟩
  | cons p rest ih =>
    obtain ⟨seq, off⟩ := p
    simp only [scanOld] at h
    split at h
    · simp at h
    · next entry he =>
      obtain ⟨F, h1, h2, h3, h4, h5, h6, h7⟩ := ih _ h
      refine ⟨⟨entry.id, base + off, .old seq ⟨prev, off⟩⟩ :: F, by simp [h1], ?_, ?_, by simp [h4], h5, h6, h7⟩
      · rw [(oldSeqs_cons_old _ _ seq ⟨prev, off⟩ rfl).1, h2]; simp
      · rw [(oldSeqs_cons_old _ _ seq ⟨prev, off⟩ rfl).2, h3]

theorem scanNew_spec (st : State) (jub : Bool) (txid : Txid) (i off iv totalOut : Nat)
    (envs : List Envelope) (sc sc' : ScanState)
    (h : scanNew st jub txid i off iv totalOut envs sc = .ok sc') :
    ∃ F, sc'.floating = sc.floating ++ F ∧ oldSeqs F = [] ∧
      newCount F = (envs.takeWhile (fun e => e.input == i)).length ∧
      sc'.idCounter = sc.idCounter + newCount F ∧
      sc'.envelopes = envs.dropWhile (fun e => e.input == i) ∧
      sc'.totalInputValue = sc.totalInputValue := by
  induction envs generalizing sc with
  | nil => simp [scanNew] at h; subst h; exact ⟨[], by simp⟩
  | cons env rest ih =>
    simp only [scanNew] at h
    split at h
    · next hne =>
      simp only [ok.injEq] at h; subst h
      have : (env.input == i) = false := by simpa using hne
      exact ⟨[], by simp [this]⟩
    · next heq =>
      have hi : (env.input == i) = true := by simpa using heq
      split at h
      · simp at h
      · simp at h
      · next curse hc =>
        obtain ⟨F, h1, h2, h3, h4, h5, h6⟩ := ih _ h
        let off' : Nat := match env.pointer with
          | some p => if p < totalOut then p else off
          | none => off
        let x : Flotsam := ⟨⟨txid, sc.idCounter⟩, off',
          .new (curse.isSome && !jub) 0 env.gallery env.hidden env.parents (AL.contains sc.inscribed off')
            (iv == 0 || curse == some .unrecognizedEvenField || env.unrecognizedEven) (curse.isSome && jub)⟩
        have hx : isNew x = true := rfl
        have h1' : sc'.floating = sc.floating ++ (x :: F) := by
          rw [h1]; simp only [List.append_assoc]; rfl
        refine ⟨x :: F, h1', ?_, ?_, ?_, ?_, h6⟩
        · rw [(oldSeqs_cons_new _ _ hx).1, h2]
        · rw [(oldSeqs_cons_new _ _ hx).2, h3]; simp [hi]
        · rw [h4, (oldSeqs_cons_new _ _ hx).2]; simp only; omega
        · rw [h5]; simp [hi]

/-- the inscriptions sitting on the spent (non-null) inputs -/
def inputSeqs : List (TxIn × UtxoEntry) → List Nat
  | [] => []
  | (txin, e) :: rest => (if txin.prev.isNull then [] else entSeqs e) ++ inputSeqs rest

theorem scanInputs_spec (cfg : Cfg) (st : State) (jub : Bool) (txid : Txid) (height totalOut : Nat)
    (inputs : List (TxIn × UtxoEntry)) (i : Nat) (sc sc' : ScanState)
    (h : scanInputs cfg st jub txid height totalOut inputs i sc = .ok sc') :
    ∃ F, sc'.floating = sc.floating ++ F ∧ (oldSeqs F).Perm (inputSeqs inputs) ∧
      sc'.idCounter = sc.idCounter + newCount F ∧
      sc.envelopes.length = newCount F + sc'.envelopes.length := by
  induction inputs generalizing i sc with
  | nil => simp [scanInputs] at h; subst h; exact ⟨[], by simp [inputSeqs]⟩
  | cons p rest ih =>
    obtain ⟨txin, entry⟩ := p
    simp only [scanInputs] at h
    split at h
    · next hnull =>
      obtain ⟨F, h1, h2, h3, h4⟩ := ih _ _ h
      exact ⟨F, h1, by simpa [inputSeqs, hnull] using h2, h3, h4⟩
    · next hnull =>
      split at h
      · simp at h
      · simp at h
      · next sc1 hs1 =>
        split at h
        · simp at h
        · simp at h
        · next sc3 hs3 =>
          obtain ⟨F1, a1, a2, a3, _, a5, a6, a7⟩ := scanOld_spec _ _ _ _ _ _ hs1
          obtain ⟨F2, b1, b2, b3, b4, b5, b6⟩ := scanNew_spec _ _ _ _ _ _ _ _ _ _ hs3
          obtain ⟨F3, c1, c2, c3, c4⟩ := ih _ _ h
          simp only at b1 b4 b5 b3
          refine ⟨F1 ++ (F2 ++ F3), by rw [c1, b1, a1]; simp, ?_, ?_, ?_⟩
          · simp only [oldSeqs_append, a2, b2, List.nil_append, inputSeqs, hnull, Bool.false_eq_true, ↓reduceIte]
            refine List.Perm.append ?_ c2
            exact (sortByKey_perm (·.1) entry.ins).map _
          · rw [c3, b4, a5]; simp only [newCount_append, a3]; omega
          · have hl : sc1.envelopes.length = newCount F2 + sc3.envelopes.length := by
              rw [b5, b3]
              have := List.takeWhile_append_dropWhile (p := fun e : Envelope => e.input == i) (l := sc1.envelopes)
              have hlen := congrArg List.length this
              simp only [List.length_append] at hlen
              omega
            rw [a6] at hl
            simp only [newCount_append, a3]; omega


/-- C04, one transaction (`index_inscriptions`): the inscriptions on the spent inputs, the ones
already placed, and the block's saved flotsam are all still there afterwards — each exactly once,
on an output entry / the null entry / the unbound entry / the saved-flotsam list — and exactly
`consumed` new sequence numbers `n, n+1, …` have been handed out or are pending in the saved
flotsam, where `consumed` is the number of envelopes the scan consumed. -/
theorem indexInscriptions_conserve (cfg : Cfg) (height time : Nat) (tx : Tx)
    (inputs : List (TxIn × UtxoEntry)) (rs : Option (List (Nat × Nat))) (ls ls' : LocState)
    (hok : indexInscriptions cfg height time tx inputs rs ls = .ok ls') :
    ∃ consumed remaining,
      tx.envelopes.length = consumed + remaining ∧
      (located ls'.outs ls'.ctx ++ oldSeqs ls'.ctx.flotsam).Perm
        (located ls.outs ls.ctx ++ oldSeqs ls.ctx.flotsam ++ inputSeqs inputs ++
          List.range' ls.st.entries.length (ls'.st.entries.length - ls.st.entries.length)) ∧
      ls'.st.entries.length + newCount ls'.ctx.flotsam =
        ls.st.entries.length + newCount ls.ctx.flotsam + consumed ∧
      (txIsCoinbase tx = true → ls'.ctx.flotsam = []) ∧
      ls'.st.utxo = ls.st.utxo ∧ ls'.outs.length = ls.outs.length := by
  rw [indexInscriptions_eq] at hok
  split at hok
  · simp at hok
  · simp at hok
  · next sc hsc =>
    split at hok
    · simp at hok
    · split at hok
      · simp at hok
      · obtain ⟨F, f1, f2, f3, f4⟩ := scanInputs_spec _ _ _ _ _ _ _ _ _ _ hsc
        simp only [List.nil_append] at f1 f4
        obtain ⟨p, c, cb, u, l⟩ := placeTx_conserve _ _ _ _ _ _ _ _ _ _ _
          (by split <;> rfl) (by split <;> rfl) hok
        obtain ⟨k1, k2⟩ := txFloating_kind tx sc
        rw [k1, f1] at p
        rw [k2, f1] at c
        refine ⟨newCount F, sc.envelopes.length, f4, ?_, c, cb, u, l⟩
        rw [List.perm_iff_count] at p ⊢
        intro a
        have := p a
        have h2 := f2.count_eq a
        simp only [List.count_append] at this h2 ⊢
        omega

end Ord.Index.Insloc
