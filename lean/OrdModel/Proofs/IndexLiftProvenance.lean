import OrdModel.Proofs.IndexLiftInsTabs
import OrdModel.Proofs.IndexInsnumDedup
/-
C07, provenance on reachable states, part 1: one run of `index_inscriptions`.

A relation `W pid cid n` ("`pid` is the id of an inscription spent or revealed by the reveal
transaction of `cid`, and that transaction was indexed when the index held at most `n`
inscriptions") is tracked through the updater:
* `PInv W`: every row `(p, c)` of the children table has `W (id of p) (id of c) c`, and
  `id_to_sequence_number` points at entries carrying the id looked up;
* `FlOK W n fl`: every parent a *not yet created* new inscription (flotsam) will be linked to
  has `W parent fl.id n`.
`update_inscription_location` turns `FlOK` of the flotsam into `PInv` rows
(`uloc_pinv`); the input scan + `retain` filter establish `FlOK` for the transaction's own new
flotsam from a hypothesis on `W` about the ids on the floating list (`indexInscriptions_pinv`).
-/
namespace Ord.Index.Prov
open Ord Ord.Index Outcome Sched Insloc Insnum InsLift

/-- `W parentId childId n` -/
abbrev Rel := InscriptionId → InscriptionId → Nat → Prop

/-- upward closed in the bound -/
def Mono (W : Rel) : Prop := ∀ pid cid n m, W pid cid n → n ≤ m → W pid cid m

/-- the parents a new flotsam carries are `W`-related to it -/
def FlOK (W : Rel) (n : Nat) (fl : Flotsam) : Prop :=
  ∀ c fee g h ps r u v, fl.origin = .new c fee g h ps r u v → ∀ pid ∈ ps, W pid fl.id n

theorem FlOK.mono {W : Rel} (hm : Mono W) {n m : Nat} {fl : Flotsam} (h : FlOK W n fl) (hle : n ≤ m) : FlOK W m fl :=
  fun c fee g hh ps r u v ho pid hp => hm _ _ _ _ (h c fee g hh ps r u v ho pid hp) hle

structure PInvL (W : Rel) (es : List InsEntry) (i2s : List (InscriptionId × Nat)) (ch : List (Nat × Nat)) : Prop where
  idb : ∀ id s, AL.get i2s id = some s → ∃ e : InsEntry, es[s]? = some e ∧ e.id = id
  prov : ∀ p c, (p, c) ∈ ch → ∃ ep ec : InsEntry, es[p]? = some ep ∧ es[c]? = some ec ∧ W ep.id ec.id c

def PInv (W : Rel) (t : Tabs) : Prop := PInvL W t.entries t.id2seq t.children

theorem pinv_empty (W : Rel) : PInv W (tabs {}) := by
  refine ⟨?_, ?_⟩ <;> intros <;> simp_all [tabs, AL.get]

theorem PInvL.weaken {W W' : Rel} (hw : ∀ a b n, W a b n → W' a b n) {es i2s ch} (h : PInvL W es i2s ch) :
    PInvL W' es i2s ch :=
  ⟨h.idb, fun p c hm => by
    obtain ⟨ep, ec, h1, h2, h3⟩ := h.prov p c hm
    exact ⟨ep, ec, h1, h2, hw _ _ _ h3⟩⟩

/-! ### setting the Burned charm keeps ids -/

theorem set_burn_fwd (es : List InsEntry) (k : Nat) (entry : InsEntry) (hk : es[k]? = some entry)
    (i : Nat) (y : InsEntry) (hy : es[i]? = some y) :
    ∃ x : InsEntry, (es.set k { entry with charms := setCharm entry.charms charmBurned })[i]? = some x ∧ x.id = y.id := by
  by_cases hki : k = i
  · subst hki
    rw [hk] at hy
    simp only [Option.some.injEq] at hy
    subst hy
    exact ⟨{ entry with charms := setCharm entry.charms charmBurned },
      by rw [List.getElem?_set_self (List.getElem?_eq_some_iff.1 hk).1], rfl⟩
  · exact ⟨y, by rw [List.getElem?_set_ne hki]; exact hy, rfl⟩

theorem pinv_burn {W : Rel} {es : List InsEntry} {i2s : List (InscriptionId × Nat)} {ch : List (Nat × Nat)}
    (h : PInvL W es i2s ch) (k : Nat) (entry : InsEntry) (hk : es[k]? = some entry) :
    PInvL W (es.set k { entry with charms := setCharm entry.charms charmBurned }) i2s ch := by
  refine ⟨?_, ?_⟩
  · intro id s hg
    obtain ⟨e, he, hid⟩ := h.idb id s hg
    obtain ⟨x, hx, hxi⟩ := set_burn_fwd es k entry hk s e he
    exact ⟨x, hx, hxi.trans hid⟩
  · intro p c hm
    obtain ⟨ep, ec, h1, h2, h3⟩ := h.prov p c hm
    obtain ⟨xp, hxp, hxpi⟩ := set_burn_fwd es k entry hk p ep h1
    obtain ⟨xc, hxc, hxci⟩ := set_burn_fwd es k entry hk c ec h2
    exact ⟨xp, xc, hxp, hxc, by rw [hxpi, hxci]; exact h3⟩

/-! ### a new inscription -/

theorem pinv_new {W : Rel} {es : List InsEntry} {i2s : List (InscriptionId × Nat)} {ch ch' : List (Nat × Nat)}
    (hinv : PInvL W es i2s ch) (E : InsEntry) (ps : List InscriptionId)
    (hW : ∀ pid ∈ ps, W pid E.id es.length)
    (hch : ∀ x ∈ ch', x ∈ ch ∨ (x.2 = es.length ∧ ∃ p ∈ ps, AL.get i2s p = some x.1)) :
    PInvL W (es ++ [E]) (AL.set i2s E.id es.length) ch' := by
  refine ⟨?_, ?_⟩
  · intro id s hg
    by_cases hid : E.id = id
    · subst hid
      rw [AL.get_set_self] at hg
      simp only [Option.some.injEq] at hg
      subst hg
      exact ⟨E, by simp, rfl⟩
    · rw [AL.get_set_ne _ _ hid] at hg
      obtain ⟨e, he, hi⟩ := hinv.idb id s hg
      exact ⟨e, getElem?_append_some _ _ _ _ he, hi⟩
  · intro p c hm
    rcases hch (p, c) hm with hm | ⟨hc, q, hq, hqs⟩
    · obtain ⟨ep, ec, h1, h2, h3⟩ := hinv.prov p c hm
      exact ⟨ep, ec, getElem?_append_some _ _ _ _ h1, getElem?_append_some _ _ _ _ h2, h3⟩
    · simp only at hc hqs
      subst hc
      obtain ⟨ep, hep, hepi⟩ := hinv.idb q p hqs
      refine ⟨ep, E, getElem?_append_some _ _ _ _ hep, by simp, ?_⟩
      rw [hepi]
      exact hW q hq

/-! ### `update_inscription_location` -/

theorem uloc_pinv {W : Rel} {cfg : Cfg} {height time : Nat} {ir : Option (List (Nat × Nat))} {fl : Flotsam} {sp : SatPoint}
    {opr : Bool} {tgt : Target} {ls ls' : LocState}
    (h : updateInscriptionLocation cfg height time ir fl sp opr tgt ls = .ok ls')
    (hinv : PInv W (tabs ls.st)) (hfl : FlOK W ls.st.entries.length fl) :
    PInv W (tabs ls'.st) ∧ ls.st.entries.length ≤ ls'.st.entries.length := by
  rw [uloc_unfold] at h
  obtain ⟨ub, seq, st, ctx, hstep⟩ := finish_ok h
  rw [hstep] at h
  obtain ⟨htabs, _⟩ := finish_inv h
  have hent : ls'.st.entries = st.entries := congrArg Tabs.entries htabs
  rw [htabs, hent]
  cases hfo : fl.origin with
  | old oseq oldSp =>
    rw [hfo] at hstep
    simp only at hstep
    obtain ⟨_, hcase⟩ := oldStep_inv hstep
    rcases hcase with ht | ⟨entry, he, ht⟩
    · rw [ht, show st.entries = ls.st.entries from congrArg Tabs.entries ht]
      exact ⟨hinv, Nat.le_refl _⟩
    · rw [ht, show st.entries = _ from congrArg Tabs.entries ht]
      refine ⟨?_, by simp⟩
      have := pinv_burn hinv oseq entry he
      unfold PInv
      simpa [tabs] using this
  | new c fee g hid ps r u v =>
    rw [hfo] at hstep
    simp only at hstep
    obtain ⟨sat, st3, pids, pseqs, _, _, hlink, _, _, _, ht⟩ := newStep_inv hstep
    have heA : (allocState ls.st c sat).entries = ls.st.entries := by
      have := congrArg Tabs.entries (allocState_tabs ls.st c sat); exact this
    have hcA : (allocState ls.st c sat).children = ls.st.children := by
      have := congrArg Tabs.children (allocState_tabs ls.st c sat); exact this
    have hiA : (allocState ls.st c sat).id2seq = ls.st.id2seq := by
      have := congrArg Tabs.id2seq (allocState_tabs ls.st c sat); exact this
    have hfr := Insnum.linkParents_frame _ _ _ _ _ _ _ _ hlink
    have he3 : st3.entries = ls.st.entries := by rw [hfr.1, heA]
    have hi3 : st3.id2seq = ls.st.id2seq := by rw [hfr.2.1, hiA]
    obtain ⟨_, _, h3, _, _⟩ := linkParents_spec _ ps _ [] [] st3 pids pseqs hlink
    rw [hcA, hiA] at h3
    have hi : PInvL W ls.st.entries ls.st.id2seq ls.st.children := hinv
    have hE : st.entries = ls.st.entries ++ [⟨Insnum.newCharms c r sat opr sp.outpoint.isNull u v, fee, height, hid, fl.id,
        numberOf ls.st c, pseqs, sat, ls.st.entries.length, time⟩] := by
      have h1 := congrArg Tabs.entries ht
      simp only [tabs] at h1
      rw [h1, he3]
    refine ⟨?_, by rw [hE]; simp⟩
    rw [ht]
    unfold PInv
    simp only [tabs]
    rw [he3, hi3]
    exact pinv_new hi ⟨Insnum.newCharms c r sat opr sp.outpoint.isNull u v, fee, height, hid, fl.id,
        numberOf ls.st c, pseqs, sat, ls.st.entries.length, time⟩ ps
      (fun pid hp => hfl c fee g hid ps r u v hfo pid hp) h3

/-! ### the two placement loops -/

theorem applyLocations_pinv {W : Rel} (hm : Mono W) (cfg : Cfg) (height time : Nat) (ir : Option (List (Nat × Nat)))
    (locs : List (SatPoint × Flotsam × Bool)) (ls ls' : LocState)
    (h : applyLocations cfg height time ir locs ls = .ok ls') (hinv : PInv W (tabs ls.st))
    (hfl : ∀ x ∈ locs, FlOK W ls.st.entries.length x.2.1) :
    PInv W (tabs ls'.st) ∧ ls.st.entries.length ≤ ls'.st.entries.length := by
  induction locs generalizing ls with
  | nil => simp [applyLocations] at h; subst h; exact ⟨hinv, Nat.le_refl _⟩
  | cons x rest ih =>
    obtain ⟨sp, fl, opr⟩ := x
    simp only [applyLocations] at h
    split at h
    · simp at h
    · simp at h
    · next ls1 h1 =>
      obtain ⟨p1, l1⟩ := uloc_pinv h1 hinv (hfl _ List.mem_cons_self)
      obtain ⟨p2, l2⟩ := ih ls1 h p1 (fun x hx => (hfl x (List.mem_cons_of_mem _ hx)).mono hm l1)
      exact ⟨p2, Nat.le_trans l1 l2⟩

theorem applyLost_pinv {W : Rel} (hm : Mono W) (cfg : Cfg) (height time : Nat) (ir : Option (List (Nat × Nat)))
    (ov : Nat) (fls : List Flotsam) (ls ls' : LocState)
    (h : applyLost cfg height time ir ov fls ls = .ok ls') (hinv : PInv W (tabs ls.st))
    (hfl : ∀ f ∈ fls, FlOK W ls.st.entries.length f) :
    PInv W (tabs ls'.st) ∧ ls.st.entries.length ≤ ls'.st.entries.length := by
  induction fls generalizing ls with
  | nil => simp [applyLost] at h; subst h; exact ⟨hinv, Nat.le_refl _⟩
  | cons fl rest ih =>
    simp only [applyLost] at h
    split at h
    · simp at h
    · simp at h
    · next ls1 h1 =>
      obtain ⟨p1, l1⟩ := uloc_pinv h1 hinv (hfl _ List.mem_cons_self)
      obtain ⟨p2, l2⟩ := ih ls1 h p1 (fun x hx => (hfl x (List.mem_cons_of_mem _ hx)).mono hm l1)
      exact ⟨p2, Nat.le_trans l1 l2⟩

/-! ### everything after the input scan -/

theorem placeTx_pinv {W : Rel} (hm : Mono W) (cfg : Cfg) (height time : Nat) (tx : Tx) (rs : Option (List (Nat × Nat)))
    (cb : Bool) (totalIn : Nat) (floating : List Flotsam) (st1 : State) (ls ls' : LocState)
    (ht : tabs st1 = tabs ls.st) (hinv : PInv W (tabs ls.st))
    (hf : ∀ f ∈ floating, FlOK W ls.st.entries.length f)
    (hc : ∀ f ∈ ls.ctx.flotsam, FlOK W ls.st.entries.length f)
    (h : placeTx cfg height time tx rs cb totalIn floating st1 ls = .ok ls') :
    PInv W (tabs ls'.st) ∧ (∀ f ∈ ls'.ctx.flotsam, FlOK W ls'.st.entries.length f) ∧
    ls.st.entries.length ≤ ls'.st.entries.length := by
  have he1 : st1.entries = ls.st.entries := congrArg Tabs.entries ht
  cases cb with
  | true =>
    simp only [placeTx, ↓reduceIte] at h
    split at h
    · simp at h
    · simp at h
    · next ls2 h2 =>
      split at h
      · simp at h
      · simp at h
      · next ls3 h3 =>
        split at h
        · simp at h
        · simp only [ok.injEq] at h; subst h
          obtain ⟨hcs, _⟩ := assignOutputs_conserve tx.txid tx.outputs 0 0
            (sortByKey (·.offset) (floating ++ ls.ctx.flotsam)) []
          simp only [List.map_nil, List.nil_append] at hcs
          have hsp := sortByKey_perm (·.offset) (floating ++ ls.ctx.flotsam)
          rw [← hcs] at hsp
          generalize hL : (assignOutputs tx.txid tx.outputs 0 0 (sortByKey (·.offset) (floating ++ ls.ctx.flotsam)) []).1 = L at *
          generalize hR : (assignOutputs tx.txid tx.outputs 0 0 (sortByKey (·.offset) (floating ++ ls.ctx.flotsam)) []).2.1 = R at *
          have hall : ∀ f, f ∈ L.map (·.2.1) ++ R → FlOK W ls.st.entries.length f := by
            intro f hfm
            rcases List.mem_append.1 (hsp.mem_iff.1 hfm) with hm1 | hm1
            · exact hf f hm1
            · exact hc f hm1
          obtain ⟨p2, l2⟩ := applyLocations_pinv hm cfg height time rs L _ ls2 h2
            (by rw [show tabs _ = tabs st1 from rfl, ht]; exact hinv)
            (by
              intro x hx
              simp only [he1]
              exact hall _ (List.mem_append_left _ (List.mem_map.2 ⟨x, hx, rfl⟩)))
          simp only [he1] at l2
          obtain ⟨p3, l3⟩ := applyLost_pinv hm cfg height time rs _ R ls2 ls3 h3 p2
            (fun f hfm => (hall f (List.mem_append_right _ hfm)).mono hm l2)
          obtain ⟨_, _, _, _, _, _, f2, _⟩ := (applyLocations_steps _ _ _ _ _ _ _ h2).conserve
          obtain ⟨_, _, _, _, _, _, f3, _⟩ := (applyLost_steps _ _ _ _ _ _ _ _ h3).conserve
          have hfl3 : ls3.ctx.flotsam = [] := by rw [f3, f2]
          refine ⟨p3, ?_, Nat.le_trans l2 l3⟩
          intro f hfm
          simp only [hfl3] at hfm
          cases hfm
  | false =>
    simp only [placeTx, Bool.false_eq_true, ↓reduceIte] at h
    split at h
    · simp at h
    · simp at h
    · next ls2 h2 =>
      split at h
      · simp at h
      · simp only [ok.injEq] at h; subst h
        obtain ⟨hcs, _⟩ := assignOutputs_conserve tx.txid tx.outputs 0 0 (sortByKey (·.offset) floating) []
        simp only [List.map_nil, List.nil_append] at hcs
        have hsp := sortByKey_perm (·.offset) floating
        rw [← hcs] at hsp
        generalize hL : (assignOutputs tx.txid tx.outputs 0 0 (sortByKey (·.offset) floating) []).1 = L at *
        generalize hR : (assignOutputs tx.txid tx.outputs 0 0 (sortByKey (·.offset) floating) []).2.1 = R at *
        generalize hV : (assignOutputs tx.txid tx.outputs 0 0 (sortByKey (·.offset) floating) []).2.2 = V at *
        have hall : ∀ f, f ∈ L.map (·.2.1) ++ R → FlOK W ls.st.entries.length f :=
          fun f hfm => hf f (hsp.mem_iff.1 hfm)
        obtain ⟨p2, l2⟩ := applyLocations_pinv hm cfg height time rs L _ ls2 h2
          (by rw [show tabs _ = tabs st1 from rfl, ht]; exact hinv)
          (by
            intro x hx
            simp only [he1]
            exact hall _ (List.mem_append_left _ (List.mem_map.2 ⟨x, hx, rfl⟩)))
        simp only [he1] at l2
        obtain ⟨_, _, _, _, _, _, f2, _⟩ := (applyLocations_steps _ _ _ _ _ _ _ h2).conserve
        simp only at f2
        refine ⟨p2, ?_, l2⟩
        intro f hfm
        have hfm' : f ∈ ls2.ctx.flotsam ++ R.map (fun f => { f with offset := ls2.ctx.reward + f.offset - V }) := hfm
        show FlOK W ls2.st.entries.length f
        rcases List.mem_append.1 hfm' with hm1 | hm1
        · rw [f2] at hm1
          exact (hc f hm1).mono hm l2
        · obtain ⟨g, hg, rfl⟩ := List.mem_map.1 hm1
          have := (hall g (List.mem_append_right _ hg)).mono hm l2
          intro c fee gg hh ps r u v ho pid hp
          exact this c fee gg hh ps r u v ho pid hp

/-! ### the input scan: where the ids on the floating list come from -/

/-- `id` is the id of an entry listed on the UTXO entry of a non-null input -/
def OldIdOK (st : State) (inputs : List (TxIn × UtxoEntry)) (id : InscriptionId) : Prop :=
  ∃ p ∈ inputs, p.1.prev.isNull = false ∧ ∃ (q off : Nat) (en : InsEntry),
    (q, off) ∈ p.2.ins ∧ st.entries[q]? = some en ∧ en.id = id

/-- `id` is one of the ids `(txid, 0), …, (txid, #envelopes - 1)` the transaction can reveal -/
def RevealedBy (tx : Tx) (id : InscriptionId) : Prop := id.txid = tx.txid ∧ id.index < tx.envelopes.length

theorem scanOld_old (st : State) (prev : OutPoint) (base : Nat) (l : List (Nat × Nat)) (sc sc' : ScanState)
    (h : scanOld st prev base l sc = .ok sc') :
    ∀ f ∈ sc'.floating, f ∈ sc.floating ∨
      ∃ (q off : Nat) (en : InsEntry), (q, off) ∈ l ∧ st.entries[q]? = some en ∧ en.id = f.id := by
  induction l generalizing sc with
  | nil => simp [scanOld] at h; subst h; exact fun f hf => Or.inl hf
  | cons p rest ih =>
    obtain ⟨seq, off⟩ := p
    simp only [scanOld] at h
    split at h
    · simp at h
    · next entry he =>
      intro f hf
      rcases ih _ h f hf with h1 | ⟨q, o, en, hq, hen, hid⟩
      · simp only [List.mem_append, List.mem_singleton] at h1
        rcases h1 with h1 | rfl
        · exact Or.inl h1
        · exact Or.inr ⟨seq, off, entry, List.mem_cons_self, he, rfl⟩
      · exact Or.inr ⟨q, o, en, List.mem_cons_of_mem _ hq, hen, hid⟩

theorem scanNew_old (st : State) (jub : Bool) (txid : Txid) (i off iv totalOut : Nat)
    (envs : List Envelope) (sc sc' : ScanState)
    (h : scanNew st jub txid i off iv totalOut envs sc = .ok sc') :
    ∀ f ∈ sc'.floating, f ∈ sc.floating ∨ isNew f = true := by
  induction envs generalizing sc with
  | nil => simp [scanNew] at h; subst h; exact fun f hf => Or.inl hf
  | cons env rest ih =>
    simp only [scanNew] at h
    split at h
    · simp only [ok.injEq] at h; subst h; exact fun f hf => Or.inl hf
    · split at h
      · simp at h
      · simp at h
      · intro f hf
        rcases ih _ h f hf with h1 | h1
        · simp only [List.mem_append, List.mem_singleton] at h1
          rcases h1 with h1 | rfl
          · exact Or.inl h1
          · exact Or.inr rfl
        · exact Or.inr h1

theorem scanInputs_old (cfg : Cfg) (st : State) (jub : Bool) (txid : Txid) (height totalOut : Nat)
    (inputs : List (TxIn × UtxoEntry)) (i : Nat) (sc sc' : ScanState)
    (h : scanInputs cfg st jub txid height totalOut inputs i sc = .ok sc') :
    ∀ f ∈ sc'.floating, f ∈ sc.floating ∨ isNew f = true ∨ OldIdOK st inputs f.id := by
  induction inputs generalizing i sc with
  | nil => simp [scanInputs] at h; subst h; exact fun f hf => Or.inl hf
  | cons p rest ih =>
    obtain ⟨txin, entry⟩ := p
    have lift : ∀ id, OldIdOK st rest id → OldIdOK st ((txin, entry) :: rest) id := by
      rintro id ⟨p, hp, hrest⟩
      exact ⟨p, List.mem_cons_of_mem _ hp, hrest⟩
    simp only [scanInputs] at h
    split at h
    · intro f hf
      rcases ih _ _ h f hf with h1 | h1 | h1
      · exact Or.inl h1
      · exact Or.inr (Or.inl h1)
      · exact Or.inr (Or.inr (lift _ h1))
    · next hnull =>
      split at h
      · simp at h
      · simp at h
      · next sc1 hs1 =>
        split at h
        · simp at h
        · simp at h
        · next sc3 hs3 =>
          intro f hf
          rcases ih _ _ h f hf with h1 | h1 | h1
          · rcases scanNew_old _ _ _ _ _ _ _ _ _ _ hs3 f h1 with h2 | h2
            · have h2' : f ∈ sc1.floating := h2
              rcases scanOld_old _ _ _ _ _ _ hs1 f h2' with h3 | ⟨q, o, en, hq, hen, hid⟩
              · exact Or.inl h3
              · refine Or.inr (Or.inr ⟨(txin, entry), List.mem_cons_self, by simpa using hnull, q, o, en, ?_, hen, hid⟩)
                exact (sortByKey_perm (·.1) entry.ins).mem_iff.1 hq
            · exact Or.inr (Or.inl h2)
          · exact Or.inr (Or.inl h1)
          · exact Or.inr (Or.inr (lift _ h1))

/-- every flotsam on the floating list after the scan is either new, with one of the ids the
transaction can reveal, or old, with the id of an inscription sitting on a spent input -/
theorem scan_floating_ids (cfg : Cfg) (st : State) (jub : Bool) (tx : Tx) (height totalOut : Nat)
    (inputs : List (TxIn × UtxoEntry)) (sc : ScanState)
    (h : scanInputs cfg st jub tx.txid height totalOut inputs 0 { envelopes := tx.envelopes } = .ok sc) :
    ∀ f ∈ sc.floating, (isNew f = true → RevealedBy tx f.id) ∧ (isNew f = false → OldIdOK st inputs f.id) := by
  obtain ⟨F, f1, f2, _⟩ := scanInputs_newIds _ _ _ _ _ _ _ _ _ _ h
  obtain ⟨F', g1, _, _, g4⟩ := scanInputs_spec _ _ _ _ _ _ _ _ _ _ h
  simp only [List.nil_append] at f1 f2 g1 g4
  have hFF : F' = F := by rw [← g1, f1]
  subst hFF
  intro f hf
  refine ⟨?_, ?_⟩
  · intro h1
    have hmem : f.id ∈ newIds sc.floating := by
      unfold newIds
      exact List.mem_map.2 ⟨f, List.mem_filter.2 ⟨hf, h1⟩, rfl⟩
    rw [f1, f2] at hmem
    unfold idRange at hmem
    obtain ⟨k, hk, hid⟩ := List.mem_map.1 hmem
    rw [List.mem_range'_1] at hk
    rw [← hid]
    exact ⟨rfl, by show k < tx.envelopes.length; omega⟩
  · intro h0
    rcases scanInputs_old _ _ _ _ _ _ _ _ _ _ h f hf with h1 | h1 | h1
    · cases h1
    · rw [h0] at h1; cases h1
    · exact h1

/-! ### one run of `index_inscriptions` -/

def txFee (tx : Tx) (sc : ScanState) : Nat :=
  if sc.idCounter = 0 then 0 else (sc.totalInputValue - txTotalOut tx) / sc.idCounter

theorem txFloating_eq (tx : Tx) (sc : ScanState) :
    txFloating tx sc = sc.floating.map (fun f => match f.origin with
      | .new c _ g h ps r u v =>
        { f with origin := Origin.new c (txFee tx sc) g h (dedupParents (sc.floating.map (fun x => x.id)) ps) r u v }
      | .old .. => f) := rfl

/-- the transaction's own flotsam after the `retain` filter: the parents a new one keeps are ids
on the floating list -/
theorem txFloating_flOK {W : Rel} (tx : Tx) (sc : ScanState) (n : Nat) (P : InscriptionId → Prop)
    (hnew : ∀ f ∈ sc.floating, isNew f = true → RevealedBy tx f.id)
    (hold : ∀ f ∈ sc.floating, isNew f = false → P f.id)
    (hW : ∀ pid cid, RevealedBy tx cid → (P pid ∨ RevealedBy tx pid) → W pid cid n) :
    ∀ g ∈ txFloating tx sc, FlOK W n g := by
  intro g hg
  rw [txFloating_eq] at hg
  obtain ⟨f, hf, rfl⟩ := List.mem_map.1 hg
  intro c fee gg hh ps r u v ho pid hp
  cases hfo : f.origin with
  | old s o =>
    simp only [hfo] at ho
    cases ho
  | new c0 fee0 g0 h0 ps0 r0 u0 v0 =>
    simp only [hfo] at ho ⊢
    simp only [Origin.new.injEq] at ho
    obtain ⟨_, _, _, _, hps, _, _, _⟩ := ho
    subst hps
    have hfn : isNew f = true := by simp [isNew, hfo]
    obtain ⟨_, hpot⟩ := (dedupParents_spec _ _).2 pid hp
    obtain ⟨f', hf', hid'⟩ := List.mem_map.1 hpot
    apply hW _ _ (hnew f hf hfn)
    cases hn' : isNew f' with
    | true => exact Or.inr (hid' ▸ hnew f' hf' hn')
    | false => exact Or.inl (hid' ▸ hold f' hf' hn')

theorem indexInscriptions_pinv {W : Rel} (hm : Mono W) (cfg : Cfg) (height time : Nat) (tx : Tx)
    (inputs : List (TxIn × UtxoEntry)) (rs : Option (List (Nat × Nat))) (ls ls' : LocState)
    (hinv : PInv W (tabs ls.st)) (hc : ∀ f ∈ ls.ctx.flotsam, FlOK W ls.st.entries.length f)
    (hW : ∀ pid cid, RevealedBy tx cid → (OldIdOK ls.st inputs pid ∨ RevealedBy tx pid) → W pid cid ls.st.entries.length)
    (hok : indexInscriptions cfg height time tx inputs rs ls = .ok ls') :
    PInv W (tabs ls'.st) ∧ (∀ f ∈ ls'.ctx.flotsam, FlOK W ls'.st.entries.length f) ∧
    ls.st.entries.length ≤ ls'.st.entries.length := by
  rw [Insloc.indexInscriptions_eq] at hok
  split at hok
  · simp at hok
  · simp at hok
  · next sc hsc =>
    split at hok
    · simp at hok
    · split at hok
      · simp at hok
      · have hcls := scan_floating_ids _ _ _ _ _ _ _ _ hsc
        exact placeTx_pinv hm _ _ _ _ _ _ _ _ _ _ _ (by split <;> rfl) hinv
          (txFloating_flOK tx sc _ (OldIdOK ls.st inputs) (fun f hf => (hcls f hf).1) (fun f hf => (hcls f hf).2) hW)
          hc hok

end Ord.Index.Prov
