import OrdModel.Proofs.IndexLiftInsTx
import OrdModel.Proofs.IndexLiftInsRunes
/-
Lift of the inscription-side invariants, part 5: one block.  The mid-block invariant through
`indexTxs`, the block-end flush (`flushCache` concatenates the lists and rebuilds `seq2sp`), the
rune pass / header write, and the per-block counting of envelopes.
-/
namespace Ord.Index.InsLift
open Ord Ord.Index Outcome Sched Insloc

/-! ### all transactions of a block -/

theorem indexTxs_minv (cfg : Cfg) (blk : Block) (insOn : Bool) (l : List (Nat × Tx)) (seen : List Txid)
    (h0 : ∀ p ∈ l, p.2.txid ≠ 0) (hnd : (l.map (·.2.txid)).Nodup) (hfresh : ∀ p ∈ l, p.2.txid ∉ seen)
    (hsp : ∀ p ∈ l, p.1 ≠ 0 → ∀ i ∈ p.2.inputs, i.prev.isSpecial = false)
    (bc bc' : BlockCtx) (hinv : MInv cfg seen bc) (hoff : insOn = false → bc.st.entries.length = 0)
    (h : indexTxs cfg blk insOn l bc = .ok bc') :
    MInv cfg (seenAfter l seen) bc' ∧ bc.st.entries.length ≤ bc'.st.entries.length ∧
    (insOn = true → ∀ l0 cb, l = l0 ++ [cb] → txIsCoinbase cb.2 = true → bc'.ins.flotsam = []) ∧
    (insOn = false → bc'.st.entries = bc.st.entries ∧ bc'.ins.flotsam = bc.ins.flotsam) := by
  induction l generalizing seen bc with
  | nil =>
    simp only [indexTxs, Outcome.ok.injEq] at h
    subst h
    refine ⟨by simpa [seenAfter] using hinv, Nat.le_refl _, ?_, fun _ => ⟨rfl, rfl⟩⟩
    intro _ l0 cb hl
    simp at hl
  | cons p rest ih =>
    obtain ⟨i, tx⟩ := p
    simp only [indexTxs] at h
    split at h
    · cases h
    · cases h
    · rename_i bc1 h1
      obtain ⟨m1, le1, fl1, off1⟩ := indexTx_minv cfg blk insOn i tx seen bc bc1 hinv (h0 (i, tx) List.mem_cons_self)
        (hfresh (i, tx) List.mem_cons_self) (hsp (i, tx) List.mem_cons_self) hoff h1
      simp only [List.map_cons, List.nodup_cons] at hnd
      have hoff1 : insOn = false → bc1.st.entries.length = 0 := by
        intro hi; rw [(off1 hi).1]; exact hoff hi
      obtain ⟨m2, le2, fl2, off2⟩ := ih (tx.txid :: seen) (fun p hp => h0 p (List.mem_cons_of_mem _ hp)) hnd.2
        (fun p hp => by
          intro hcon
          rcases List.mem_cons.1 hcon with hc | hc
          · exact hnd.1 (List.mem_map.2 ⟨p, hp, hc⟩)
          · exact hfresh p (List.mem_cons_of_mem _ hp) hc)
        (fun p hp => hsp p (List.mem_cons_of_mem _ hp)) bc1 m1 hoff1 h
      refine ⟨by simpa [seenAfter] using m2, Nat.le_trans le1 le2, ?_, ?_⟩
      · intro hi l0 cb hl hcb
        cases l0 with
        | nil =>
          simp only [List.nil_append, List.cons.injEq] at hl
          obtain ⟨rfl, rfl⟩ := hl
          simp only [indexTxs, Outcome.ok.injEq] at h
          subst h
          exact fl1 hi hcb
        | cons q l0' =>
          simp only [List.cons_append, List.cons.injEq] at hl
          exact fl2 hi l0' cb hl.2 hcb
      · intro hi
        obtain ⟨a1, a2⟩ := off1 hi
        obtain ⟨b1, b2⟩ := off2 hi
        exact ⟨b1.trans a1, b2.trans a2⟩

/-! ### the state invariant at block boundaries -/

structure SInv (cfg : Cfg) (seen : List Txid) (st : State) : Prop where
  tinv : TInv cfg (tri st)
  prov : ∀ op, AL.get st.utxo op ≠ none → op.txid = 0 ∨ op.txid ∈ seen
  part : InsPartitioned cfg st
  seqKeys : (AL.keys st.seq2sp).Nodup

theorem MInv.start {cfg : Cfg} {seen : List Txid} {st : State} (h : SInv cfg seen st) (blk : Block) :
    MInv cfg seen (bc0A cfg st blk) := by
  refine ⟨⟨h.tinv, ⟨List.nodup_nil, ?_, ?_⟩, ?_, ?_⟩, ?_, ?_, ?_⟩
  · intro op _ hm; cases hm
  · intro op e _ hg; cases hg
  · intro op hm; cases hm
  · intro op hne
    apply h.prov op
    simpa [ovN, bc0A, AL.get, tri] using hne
  · show (ctxSeqs (bc0A cfg st blk)).Perm _
    simp only [ctxSeqs, bc0A, allSeqs_nil, optSeqs, oldSeqs_nil, List.append_nil]
    exact h.part.perm
  · intro o e hm hs s off hin
    exact h.part.off_lt o e s off hm hs hin
  · intro o e hm; cases hm

theorem SRel.self {cfg : Cfg} {seen : List Txid} {a : State} (ht : TInv cfg (tri a))
    (hp : ∀ op, AL.get a.utxo op ≠ none → op.txid = 0 ∨ op.txid ∈ seen) : SRel cfg seen ⟨a, []⟩ a := by
  refine ⟨rfl, fun _ _ => rfl, ?_, fun _ => rfl, fun _ => rfl, ht, ⟨List.nodup_nil, ?_, ?_⟩, ht, hp⟩
  · intro op _
    show _ = mo (AL.get a.utxo op) none
    rw [mo_none_right]
  · intro op _ hm; cases hm
  · intro op e _ hg; cases hg

/-! ### what the block-end flush does to the lists -/

theorem entSeqs_merged (a b : UtxoEntry) : entSeqs (UtxoEntry.merged a b) = entSeqs a ++ entSeqs b := by
  simp [entSeqs, UtxoEntry.merged]

theorem flushEntry_allSeqs (cfg : Cfg) (st : State) (op : OutPoint) (e : UtxoEntry)
    (hd : op.isSpecial = false → AL.get st.utxo op = none) :
    (allSeqs (flushEntry cfg st op e).utxo).Perm (allSeqs st.utxo ++ entSeqs e) := by
  rw [flushEntry_utxo]
  cases hs : op.isSpecial with
  | false =>
    rw [eff_nonspecial e hs, allSeqs_set_none _ _ _ (hd hs)]
  | true =>
    cases hg : AL.get st.utxo op with
    | none =>
      have : eff st.utxo op e = e := by unfold eff; simp [hs, hg]
      rw [this, allSeqs_set_none _ _ _ hg]
    | some old =>
      have : eff st.utxo op e = UtxoEntry.merged old e := by unfold eff; simp [hs, hg]
      rw [this]
      exact allSeqs_set_some _ _ _ old _ hg (entSeqs_merged old e)

theorem flushCache_allSeqs (cfg : Cfg) (c : Cache) (st : State) (hn : (AL.keys c).Nodup)
    (hd : ∀ op ∈ AL.keys c, op.isSpecial = false → AL.get st.utxo op = none) :
    (allSeqs (flushCache cfg st c).utxo).Perm (allSeqs st.utxo ++ allSeqs c) := by
  induction c generalizing st with
  | nil => simp [flushCache_nil, allSeqs_nil]
  | cons p rest ih =>
    obtain ⟨k, v⟩ := p
    simp only [AL.keys_cons, List.nodup_cons] at hn
    rw [flushCache_cons]
    have h1 := ih (flushEntry cfg st k v) hn.2 (by
      intro op hm hs
      have hne : k ≠ op := fun hk => hn.1 (hk ▸ hm)
      rw [flushEntry_utxo, AL.get_set_ne _ _ hne]
      exact hd op (List.mem_cons_of_mem _ hm) hs)
    have h2 := flushEntry_allSeqs cfg st k v (hd k List.mem_cons_self)
    refine h1.trans ?_
    rw [allSeqs_cons, ← List.append_assoc]
    exact List.Perm.append_right _ h2

theorem mem_flushCache_utxo (cfg : Cfg) (c : Cache) (st : State) (o : OutPoint) (e : UtxoEntry)
    (h : (o, e) ∈ (flushCache cfg st c).utxo) (hs : o.isSpecial = false) : (o, e) ∈ st.utxo ∨ (o, e) ∈ c := by
  induction c generalizing st with
  | nil => exact Or.inl h
  | cons p rest ih =>
    obtain ⟨k, v⟩ := p
    rw [flushCache_cons] at h
    rcases ih _ h with h1 | h1
    · rw [flushEntry_utxo] at h1
      rcases mem_set_sub _ _ _ _ h1 with h2 | h2
      · simp only [Prod.mk.injEq] at h2
        obtain ⟨rfl, rfl⟩ := h2
        right
        rw [eff_nonspecial v hs]
        exact List.mem_cons_self
      · exact Or.inl h2
    · exact Or.inr (List.mem_cons_of_mem _ h1)

theorem nodup_flushCache_utxo (cfg : Cfg) (c : Cache) (st : State) (h : (AL.keys st.utxo).Nodup) :
    (AL.keys (flushCache cfg st c).utxo).Nodup := by
  induction c generalizing st with
  | nil => exact h
  | cons p rest ih =>
    obtain ⟨k, v⟩ := p
    rw [flushCache_cons]
    apply ih
    rw [flushEntry_utxo]
    exact AL.nodup_set _ _ _ h

theorem nodup_flushCache_seq2sp (cfg : Cfg) (c : Cache) (st : State) (h : (AL.keys st.seq2sp).Nodup) :
    (AL.keys (flushCache cfg st c).seq2sp).Nodup := by
  induction c generalizing st with
  | nil => exact h
  | cons p rest ih =>
    obtain ⟨k, v⟩ := p
    rw [flushCache_cons]
    apply ih
    rw [flushEntry_seq2sp]
    split
    · exact nodup_foldl_set _ _ _ h
    · exact h

theorem flushCache_entries (cfg : Cfg) (c : Cache) (st : State) : (flushCache cfg st c).entries = st.entries :=
  core_entries (flushCache_core cfg c st)

theorem mem_range_of_perm {l : List Nat} {n s : Nat} (h : l.Perm (List.range n)) : s ∈ l ↔ s < n := by
  rw [h.mem_iff, List.mem_range]

/-- **The block-end flush re-establishes C04's invariant.**  `pre` = state at the start of the
block (invariant holds); `E` = tables at the end of the block's transactions (`utxo` rows only
removed, `seq2sp` untouched); `C` = the cache to flush (fresh non-special keys). -/
theorem flush_insPartitioned (cfg : Cfg) (pre E : State) (C : Cache)
    (hpre : InsPartitioned cfg pre)
    (hseq : E.seq2sp = pre.seq2sp) (hsub : ∀ p ∈ E.utxo, p ∈ pre.utxo)
    (hnodupE : (AL.keys E.utxo).Nodup) (hkeysE : (AL.keys E.seq2sp).Nodup)
    (hn : (AL.keys C).Nodup)
    (hd : ∀ op ∈ AL.keys C, op.isSpecial = false → AL.get E.utxo op = none)
    (hperm : (allSeqs E.utxo ++ allSeqs C).Perm (List.range E.entries.length))
    (hmono : pre.entries.length ≤ E.entries.length)
    (hokE : EntOK cfg E.utxo) (hokC : EntOK cfg C)
    (hoff : cfg.indexInscriptions = false → E.entries.length = 0) :
    InsPartitioned cfg (flushCache cfg E C) := by
  have hP : (allSeqs (flushCache cfg E C).utxo).Perm (List.range (flushCache cfg E C).entries.length) := by
    rw [flushCache_entries]
    exact (flushCache_allSeqs cfg C E hn hd).trans hperm
  have hnodF : (AL.keys (flushCache cfg E C).utxo).Nodup := nodup_flushCache_utxo cfg C E hnodupE
  have hkeysF : (AL.keys (flushCache cfg E C).seq2sp).Nodup := nodup_flushCache_seq2sp cfg C E hkeysE
  have hndS : (allSeqs (flushCache cfg E C).utxo).Nodup := hP.nodup_iff.2 List.nodup_range
  have hoffLt : ∀ o e s off, (o, e) ∈ (flushCache cfg E C).utxo → o.isSpecial = false → (s, off) ∈ e.ins →
      off < e.totalValue cfg := by
    intro o e s off hm hs hin
    rcases mem_flushCache_utxo cfg C E o e hm hs with h1 | h1
    · exact hokE o e h1 hs s off hin
    · exact hokC o e h1 hs s off hin
  -- listed in the old state => below the old (hence new) number of inscriptions
  have hold : ∀ s sp, (s, sp) ∈ pre.seq2sp → s < E.entries.length := by
    intro s sp hm
    have h1 := hpre.listed_of_sp s sp hm
    have h2 : s ∈ allSeqs pre.utxo := (mem_allSeqs _ _).2 ⟨_, _, h1⟩
    exact Nat.lt_of_lt_of_le ((mem_range_of_perm hpre.perm).1 h2) hmono
  cases hi : cfg.indexInscriptions with
  | false =>
    have hz := hoff hi
    have hnil : allSeqs (flushCache cfg E C).utxo = [] := by
      rw [flushCache_entries, hz] at hP
      exact List.perm_nil.1 (by simpa using hP)
    refine ⟨hP, ?_, ?_, hoffLt⟩
    · intro o s off hm
      have : s ∈ allSeqs (flushCache cfg E C).utxo := (mem_allSeqs _ _).2 ⟨o, off, hm⟩
      rw [hnil] at this; cases this
    · intro s sp hm
      rw [flushCache_seq2sp_noIns cfg _ _ hi, hseq] at hm
      have := hold s sp hm
      omega
  | true =>
    have hsp : ∀ o s off, (o, s, off) ∈ allIns (flushCache cfg E C).utxo →
        AL.get (flushCache cfg E C).seq2sp s = some ⟨o, off⟩ := by
      intro o s off hm
      obtain ⟨e, hme, hin⟩ := (mem_allIns _ _ _ _).1 hm
      have hge : AL.get (flushCache cfg E C).utxo o = some e := AL.get_of_mem hnodF hme
      rcases flushCache_seq2sp_cases cfg hi C E hn s with ⟨hnw, hg⟩ | ⟨op, hop, e', off', hu, hm', hg⟩
      · have hk : o ∉ AL.keys C := fun hk => hnw o hk e hge off hin
        rw [get_flushCache_utxo cfg C E hn, (AL.get_eq_none_iff _ _).2 hk] at hge
        simp only at hge
        have h1 : (o, e) ∈ pre.utxo := hsub _ (AL.mem_of_get hge)
        have h2 := hpre.sp_of_listed o s off ((mem_allIns _ _ _ _).2 ⟨e, h1, hin⟩)
        rw [hg, hseq]; exact h2
      · have h2 : (op, s, off') ∈ allIns (flushCache cfg E C).utxo :=
          (mem_allIns _ _ _ _).2 ⟨e', AL.mem_of_get hu, hm'⟩
        obtain ⟨rfl, rfl⟩ := allIns_unique _ hndS hm h2
        exact hg
    refine ⟨hP, hsp, ?_, hoffLt⟩
    intro s sp hm
    have hg : AL.get (flushCache cfg E C).seq2sp s = some sp := AL.get_of_mem hkeysF hm
    rcases flushCache_seq2sp_cases cfg hi C E hn s with ⟨hnw, hg'⟩ | ⟨op, hop, e', off', hu, hm', hg'⟩
    · rw [hg', hseq] at hg
      have hlt := hold s sp (AL.mem_of_get hg)
      have hmem : s ∈ allSeqs (flushCache cfg E C).utxo := by
        rw [mem_range_of_perm hP, flushCache_entries]; exact hlt
      obtain ⟨o', off', hl⟩ := (mem_allSeqs _ _).1 hmem
      have h3 := hsp o' s off' hl
      rw [hg', hseq, hg] at h3
      simp only [Option.some.injEq] at h3
      subst h3
      exact hl
    · rw [hg] at hg'
      simp only [Option.some.injEq] at hg'
      subst hg'
      exact (mem_allIns _ _ _ _).2 ⟨e', AL.mem_of_get hu, hm'⟩

/-! ### the rune pass and the header write -/

/-- the state without the rune tables, the headers and the height -/
def insCore (st : State) : State := { insView st with headers := [], height := 0 }

theorem insCore_of_insView {a b : State} (h : insView a = insView b) : insCore a = insCore b := by
  unfold insCore; rw [h]

theorem applyBlock_after (cfg : Cfg) (blk : Block) (a1 : State) (ev1 : List Event) (a' : State) (ev : List Event)
    (h : (match (if cfg.indexRunes && blk.height ≥ cfg.firstRuneHeight then indexRunesBlock a1 blk else .ok (a1, []) :
            Outcome (State × List Event)) with
          | .panic e => .panic e
          | .err e => .err e
          | .ok (st2, ev2) =>
            .ok ({ st2 with headers := st2.headers ++ [(blk.height, blk.hash)], height := st2.height + 1 }, ev1 ++ ev2)
        : Outcome (State × List Event)) = .ok (a', ev)) : insCore a' = insCore a1 := by
  cases hcond : (cfg.indexRunes && decide (blk.height ≥ cfg.firstRuneHeight)) with
  | false =>
    simp only [hcond, Bool.false_eq_true, if_false, Outcome.ok.injEq, Prod.mk.injEq] at h
    rw [← h.1]; rfl
  | true =>
    simp only [hcond, if_true] at h
    cases hr : indexRunesBlock a1 blk with
    | panic e => rw [hr] at h; cases h
    | err e => rw [hr] at h; cases h
    | ok r =>
      obtain ⟨st2, ev2⟩ := r
      rw [hr] at h
      simp only [Outcome.ok.injEq, Prod.mk.injEq] at h
      rw [← h.1]
      exact (show insCore _ = insCore st2 from rfl).trans (insCore_of_insView (indexRunesBlock_iv _ _ _ hr))

theorem insCore_utxo {a b : State} (h : insCore b = insCore a) : b.utxo = a.utxo := by
  have := congrArg State.utxo h; exact this
theorem insCore_entries {a b : State} (h : insCore b = insCore a) : b.entries = a.entries := by
  have := congrArg State.entries h; exact this
theorem insCore_seq2sp {a b : State} (h : insCore b = insCore a) : b.seq2sp = a.seq2sp := by
  have := congrArg State.seq2sp h; exact this

theorem insPartitioned_congr {cfg : Cfg} {a b : State} (h : InsPartitioned cfg a) (hc : insCore b = insCore a) :
    InsPartitioned cfg b := by
  have hu : b.utxo = a.utxo := insCore_utxo hc
  have he : b.entries = a.entries := insCore_entries hc
  have hq : b.seq2sp = a.seq2sp := insCore_seq2sp hc
  refine ⟨?_, ?_, ?_, ?_⟩
  · rw [hu, he]; exact h.perm
  · rw [hu, hq]; exact h.sp_of_listed
  · rw [hu, hq]; exact h.listed_of_sp
  · rw [hu]; exact h.off_lt

/-! ### one block -/

theorem endState_entries (cfg : Cfg) (blk : Block) (insOn : Bool) (bc : BlockCtx) :
    (endState cfg blk insOn bc).1.entries = bc.st.entries := by
  unfold endState
  cases insOn <;> cases bc.lostRanges.isEmpty <;> rfl

theorem optSeqs_endState (cfg : Cfg) (blk : Block) (insOn : Bool) (bc : BlockCtx) :
    optSeqs (endState cfg blk insOn bc).2 = optSeqs bc.ins.nullEntry := by
  unfold endState
  cases bc.lostRanges.isEmpty with
  | true => rfl
  | false =>
    simp only [Bool.false_eq_true, if_false, optSeqs, entSeqs_merged, entSeqs_getD_empty]
    simp [entSeqs]

theorem allSeqs_specialOf (n u : Option UtxoEntry) : allSeqs (specialOf n u) = optSeqs n ++ optSeqs u := by
  cases n <;> cases u <;> simp [specialOf, allSeqs, optSeqs, entSeqs]

/-- what the chain hypotheses say about one block, relative to the txids seen before it -/
structure BlockIns (cfg : Cfg) (seen : List Txid) (st : State) (blk : Block) : Prop where
  ok : BlockOK seen blk
  /-- the first transaction exists and is a coinbase (first input null) -/
  coinbase : ∃ cb rest, blk.txs = cb :: rest ∧ txIsCoinbase cb = true
  /-- blocks below the first inscription height come before any inscription -/
  off : insOnOf cfg blk = false → st.entries.length = 0

/-- **One block preserves the block-boundary invariant** (C04's `InsPartitioned`, plus what is
needed to keep it: well-formed tables, provenance of the `utxo` keys, duplicate-free `seq2sp`). -/
theorem applyBlock_sinv (cfg : Cfg) (seen : List Txid) (st : State) (blk : Block) (st' : State) (ev : List Event)
    (hS : SInv cfg seen st) (hb : BlockIns cfg seen st blk)
    (h : applyBlock cfg st blk = .ok (st', ev)) :
    SInv cfg (blk.txs.map (·.txid) ++ seen) st' ∧ st.entries.length ≤ st'.entries.length ∧
    (insOnOf cfg blk = false → st'.entries.length = st.entries.length) := by
  -- tables well-formed and provenance: from C12's simulation with an empty cache
  have hrel := indexBlock_rel cfg seen ⟨st, []⟩ st blk (SRel.self hS.tinv hS.prov) hb.ok
  rw [h] at hrel
  have hTP : TInv cfg (tri st') ∧ ∀ op, AL.get st'.utxo op ≠ none → op.txid = 0 ∨ op.txid ∈ blk.txs.map (·.txid) ++ seen := by
    cases hC : indexBlockC cfg ⟨st, []⟩ blk with
    | panic e => rw [hC] at hrel; exact absurd hrel (by simp [OutRel])
    | err e => rw [hC] at hrel; exact absurd hrel (by simp [OutRel])
    | ok r => rw [hC] at hrel; exact ⟨hrel.2.tinvA, hrel.2.prov⟩
  unfold applyBlock at h
  cases hflags : (cfg.indexInscriptions || cfg.indexAddresses || cfg.indexSats) with
  | false =>
    simp only [hflags, Bool.false_eq_true, if_false] at h
    have hc := applyBlock_after cfg blk st [] st' ev h
    have he : st'.entries = st.entries := insCore_entries hc
    have hq : st'.seq2sp = st.seq2sp := insCore_seq2sp hc
    exact ⟨⟨hTP.1, hTP.2, insPartitioned_congr hS.part hc, by rw [hq]; exact hS.seqKeys⟩, by rw [he]; exact Nat.le_refl _,
      fun _ => by rw [he]⟩
  | true =>
    simp only [hflags, if_true] at h
    cases hu : indexUtxoEntries cfg st blk with
    | panic e => rw [hu] at h; cases h
    | err e => rw [hu] at h; cases h
    | ok r =>
      obtain ⟨a1, ev1⟩ := r
      rw [hu] at h
      simp only at h
      have hc := applyBlock_after cfg blk a1 ev1 st' ev h
      have he : st'.entries = a1.entries := insCore_entries hc
      have hq : st'.seq2sp = a1.seq2sp := insCore_seq2sp hc
      rw [indexUtxoEntries_eq] at hu
      cases ht : indexTxs cfg blk (insOnOf cfg blk) (blockOrder blk) (bc0A cfg st blk) with
      | panic e => rw [ht] at hu; cases hu
      | err e => rw [ht] at hu; cases hu
      | ok bc =>
        rw [ht] at hu
        simp only [Outcome.ok.injEq, Prod.mk.injEq] at hu
        obtain ⟨ha1, _⟩ := hu
        obtain ⟨cb, rest, htxs, hcb⟩ := hb.coinbase
        obtain ⟨f0, fnd, ffresh, fsp, _⟩ := blockOrder_facts seen blk hb.ok
        have hstart := MInv.start hS blk
        have hoff0 : insOnOf cfg blk = false → (bc0A cfg st blk).st.entries.length = 0 := hb.off
        obtain ⟨m, le, fl, off⟩ := indexTxs_minv cfg blk (insOnOf cfg blk) (blockOrder blk) seen f0 fnd ffresh fsp
          _ bc hstart hoff0 ht
        have hsubT := indexTxs_sub _ _ _ _ _ _ ht
        have hsq : bc.st.seq2sp = st.seq2sp := hsubT.1
        have hsu : ∀ p ∈ bc.st.utxo, p ∈ st.utxo := hsubT.2.1
        -- the saved flotsam is empty at the end of the block
        have hfl : bc.ins.flotsam = [] := by
          cases hi : insOnOf cfg blk with
          | true => exact fl hi _ (0, cb) (blockOrder_cons blk cb rest htxs) hcb
          | false => exact (off hi).2
        have htriE := endState_tri cfg blk (insOnOf cfg blk) bc
        have hEu : (endState cfg blk (insOnOf cfg blk) bc).1.utxo = bc.st.utxo := congrArg Tri.utxo htriE
        have hEq : (endState cfg blk (insOnOf cfg blk) bc).1.seq2sp = bc.st.seq2sp := congrArg Tri.seq2sp htriE
        have hEe := endState_entries cfg blk (insOnOf cfg blk) bc
        have hpart : InsPartitioned cfg a1 := by
          rw [← ha1]
          apply flush_insPartitioned cfg st _ _ hS.part
          · rw [hEq]; exact hsq
          · rw [hEu]; exact hsu
          · rw [hEu]; exact m.binv.tinv.nodup
          · rw [hEq, hsq]; exact hS.seqKeys
          · rw [keys_append, List.nodup_append]
            refine ⟨m.binv.cinv.nodup, nodup_keys_specialOf _ _, ?_⟩
            intro a ha b hb' hab
            subst hab
            have h1 := m.binv.noSp a ha
            rw [mem_keys_specialOf _ _ a hb'] at h1; cases h1
          · intro op hm hs
            rw [keys_append, List.mem_append] at hm
            rcases hm with hm | hm
            · rw [hEu]; exact m.binv.cinv.disj op hs hm
            · rw [mem_keys_specialOf _ _ op hm] at hs; cases hs
          · rw [hEu, hEe, allSeqs_append, allSeqs_specialOf, optSeqs_endState]
            have := m.perm
            simp only [ctxSeqs, hfl, oldSeqs_nil, List.append_nil] at this
            simpa [List.append_assoc] using this
          · rw [hEe]; exact le
          · rw [hEu]; exact m.tblOK
          · intro o e hm hs
            rcases List.mem_append.1 hm with hm | hm
            · exact m.cacheOK o e hm hs
            · have := mem_keys_specialOf _ _ o (AL.mem_keys_of_mem hm)
              rw [this] at hs; cases hs
          · intro hi
            rw [hEe]
            have hoffI : insOnOf cfg blk = false := by simp [insOnOf, hi]
            rw [(off hoffI).1]; exact hb.off hoffI
        have hea1 : a1.entries = bc.st.entries := by rw [← ha1, flushCache_entries, hEe]
        refine ⟨⟨hTP.1, hTP.2, insPartitioned_congr hpart hc, ?_⟩, by rw [he, hea1]; exact le, fun hi => by rw [he, hea1, (off hi).1]; rfl⟩
        rw [hq, ← ha1]
        apply nodup_flushCache_seq2sp
        rw [hEq, hsq]; exact hS.seqKeys

end Ord.Index.InsLift
