import OrdModel.Proofs.IndexSchedStore
/-
C12 helper lemmas 7: one block (`indexBlockC` vs `applyBlock`), `commit`, a batch, a schedule.
-/
namespace Ord.Index.Sched
open Ord Ord.Index Outcome

theorem indexRunesBlock_tri (st : State) (blk : Block) (st2 : State) (ev : List Event)
    (h : indexRunesBlock st blk = .ok (st2, ev)) : tri st2 = tri st := by
  have := indexRunesBlock_W st (tri st) blk
  rw [W_tri, h] at this
  simp only [omap_ok, Outcome.ok.injEq, Prod.mk.injEq, and_true] at this
  have h1 := congrArg tri this
  rw [tri_W] at h1
  exact h1

/-- the rune pass and the header write after the UTXO pass -/
theorem afterUtxo_rel (cfg : Cfg) (seen : List Txid) (blk : Block) (s1 : Store) (a1 : State) (ev1 : List Event)
    (hS : SRel cfg seen s1 a1) :
    OutRel (fun rC rA => rC.2 = rA.2 ∧ SRel cfg seen rC.1 rA.1)
      (match (if cfg.indexRunes && blk.height ≥ cfg.firstRuneHeight then indexRunesBlock s1.st blk else .ok (s1.st, []) :
          Outcome (State × List Event)) with
        | .panic e => .panic e
        | .err e => .err e
        | .ok (st2, ev2) =>
          .ok ({ s1 with st := { st2 with headers := st2.headers ++ [(blk.height, blk.hash)], height := st2.height + 1 } }, ev1 ++ ev2))
      (match (if cfg.indexRunes && blk.height ≥ cfg.firstRuneHeight then indexRunesBlock a1 blk else .ok (a1, []) :
          Outcome (State × List Event)) with
        | .panic e => .panic e
        | .err e => .err e
        | .ok (st2, ev2) =>
          .ok ({ st2 with headers := st2.headers ++ [(blk.height, blk.hash)], height := st2.height + 1 }, ev1 ++ ev2)) := by
  obtain ⟨stC, cC⟩ := s1
  have hW : stC = W a1 (tri stC) := eq_W_of_core hS.core.symm
  generalize hx : tri stC = x at hW
  subst hW
  cases hcond : (cfg.indexRunes && decide (blk.height ≥ cfg.firstRuneHeight)) with
  | false =>
    simp only [Bool.false_eq_true, if_false, OutRel, true_and]
    exact hS.congr rfl rfl rfl rfl
  | true =>
    simp only [if_true]
    rw [indexRunesBlock_W]
    cases hr : indexRunesBlock a1 blk with
    | panic e => simp [OutRel]
    | err e => simp [OutRel]
    | ok r =>
      obtain ⟨st2, ev2⟩ := r
      have ht := indexRunesBlock_tri _ _ _ _ hr
      simp only [omap_ok, OutRel, true_and]
      exact hS.congr rfl rfl rfl ht

theorem indexBlock_rel (cfg : Cfg) (seen : List Txid) (s : Store) (a : State) (blk : Block)
    (hS : SRel cfg seen s a) (hb : BlockOK seen blk) :
    OutRel (fun rC rA => rC.2 = rA.2 ∧ SRel cfg (blk.txs.map (·.txid) ++ seen) rC.1 rA.1)
      (indexBlockC cfg s blk) (applyBlock cfg a blk) := by
  unfold indexBlockC applyBlock
  have hsub : ∀ t, t ∈ seenAfter (blockOrder blk) seen → t ∈ blk.txs.map (·.txid) ++ seen := by
    intro t ht
    rw [(blockOrder_facts seen blk hb).2.2.2.2 t] at ht
    rw [List.mem_append]; exact ht.symm
  cases hflags : (cfg.indexInscriptions || cfg.indexAddresses || cfg.indexSats) with
  | false =>
    simp only [Bool.false_eq_true, if_false]
    exact afterUtxo_rel cfg _ blk s a [] (hS.mono (fun t ht => List.mem_append_right _ ht))
  | true =>
    simp only [if_true]
    have h1 := utxoPass_rel cfg seen s a blk hS hb
    cases hC : indexUtxoEntriesC cfg s blk with
    | panic e => cases hA : indexUtxoEntries cfg a blk <;> simp_all [OutRel]
    | err e => cases hA : indexUtxoEntries cfg a blk <;> simp_all [OutRel]
    | ok rC =>
      cases hA : indexUtxoEntries cfg a blk with
      | panic e => simp_all [OutRel]
      | err e => simp_all [OutRel]
      | ok rA =>
        rw [hC, hA] at h1
        obtain ⟨s1, evC⟩ := rC
        obtain ⟨a1, evA⟩ := rA
        simp only [OutRel] at h1
        obtain ⟨hev, hS1⟩ := h1
        subst hev
        exact afterUtxo_rel cfg _ blk s1 a1 evC (hS1.mono hsub)

theorem commit_rel (cfg : Cfg) (seen : List Txid) (s : Store) (a : State) (hS : SRel cfg seen s a) :
    SRel cfg seen (s.commit cfg) a := by
  have hget := get_flushCache_utxo cfg s.cache s.st hS.cinvC.nodup
  refine ⟨?_, ?_, ?_, ?_, ?_, ?_, ⟨List.nodup_nil, ?_, ?_⟩, hS.tinvA, hS.prov⟩
  · show Sched.core (flushCache cfg s.st s.cache) = _
    rw [flushCache_core]; exact hS.core
  · intro op hop
    show ovN (flushCache cfg s.st s.cache).utxo [] op = _
    rw [← hS.ov op hop]
    show AL.get (flushCache cfg s.st s.cache).utxo op = _
    rw [hget]
    unfold ovN
    cases AL.get s.cache op with
    | none => rfl
    | some e => simp only; rw [eff_nonspecial e hop]
  · intro op hop
    show _ = mo (AL.get (flushCache cfg s.st s.cache).utxo op) none
    rw [mo_none_right, hget, hS.sp op hop]
    cases AL.get s.cache op with
    | none => simp
    | some e => simp only; exact (eff_special e hop).symm
  · intro ha
    show (flushCache cfg s.st s.cache).script2out = _
    rw [flushCache_script2out_noAddr cfg _ _ ha]; exact hS.noAddr ha
  · intro hi
    show (flushCache cfg s.st s.cache).seq2sp = _
    rw [flushCache_seq2sp_noIns cfg _ _ hi]; exact hS.noIns hi
  · exact TInv.after_flushCache _ hS.tinvC hS.cinvC
  · intro op _ hm; cases hm
  · intro op e _ hg; cases hg

/-! ### chains -/

/-- the conditions on a chain, relative to the txids seen before it: every block is `BlockOK` -/
def ChainOK : List Txid → List Block → Prop
  | _, [] => True
  | seen, b :: bs => BlockOK seen b ∧ ChainOK (b.txs.map (·.txid) ++ seen) bs

def seenChain (seen : List Txid) (bs : List Block) : List Txid :=
  bs.foldl (fun s b => b.txs.map (·.txid) ++ s) seen

theorem ChainOK_append (seen : List Txid) (b1 b2 : List Block) :
    ChainOK seen (b1 ++ b2) ↔ ChainOK seen b1 ∧ ChainOK (seenChain seen b1) b2 := by
  induction b1 generalizing seen with
  | nil => simp [ChainOK, seenChain]
  | cons b rest ih =>
    simp only [List.cons_append, ChainOK, seenChain, List.foldl_cons]
    rw [ih]
    simp only [seenChain, and_assoc]

theorem seenChain_append (seen : List Txid) (b1 b2 : List Block) :
    seenChain seen (b1 ++ b2) = seenChain (seenChain seen b1) b2 := by
  simp [seenChain, List.foldl_append]

theorem runBlocks_append (cfg : Cfg) (b1 b2 : List Block) (a : State) :
    runBlocks cfg (b1 ++ b2) a =
      match runBlocks cfg b1 a with
      | .panic e => .panic e
      | .err e => .err e
      | .ok a' => runBlocks cfg b2 a' := by
  induction b1 generalizing a with
  | nil => rfl
  | cons b rest ih =>
    simp only [List.cons_append, runBlocks]
    cases applyBlock cfg a b with
    | panic e => rfl
    | err e => rfl
    | ok r => obtain ⟨a1, ev⟩ := r; exact ih a1

theorem runBatch_rel (cfg : Cfg) (bs : List Block) (seen : List Txid) (s : Store) (a : State)
    (hS : SRel cfg seen s a) (hc : ChainOK seen bs) :
    OutRel (fun s' a' => SRel cfg (seenChain seen bs) s' a' ∧ s'.cache = [])
      (runBatch cfg bs s) (runBlocks cfg bs a) := by
  induction bs generalizing seen s a with
  | nil =>
    simp only [runBatch, runBlocks, OutRel, seenChain, List.foldl_nil]
    exact ⟨commit_rel cfg seen s a hS, rfl⟩
  | cons b rest ih =>
    simp only [runBatch, runBlocks]
    have h1 := indexBlock_rel cfg seen s a b hS hc.1
    cases hC : indexBlockC cfg s b with
    | panic e => cases hA : applyBlock cfg a b <;> simp_all [OutRel]
    | err e => cases hA : applyBlock cfg a b <;> simp_all [OutRel]
    | ok rC =>
      cases hA : applyBlock cfg a b with
      | panic e => simp_all [OutRel]
      | err e => simp_all [OutRel]
      | ok rA =>
        rw [hC, hA] at h1
        obtain ⟨s1, evC⟩ := rC
        obtain ⟨a1, evA⟩ := rA
        simp only [OutRel] at h1
        simp only
        exact ih _ s1 a1 h1.2 hc.2

theorem runBatches_rel (cfg : Cfg) (sched : List (List Block)) (seen : List Txid) (s : Store) (a : State)
    (hS : SRel cfg seen s a) (h0 : s.cache = []) (hc : ChainOK seen sched.flatten) :
    OutRel (fun s' a' => SRel cfg (seenChain seen sched.flatten) s' a' ∧ s'.cache = [])
      (runBatches cfg sched s) (runBlocks cfg sched.flatten a) := by
  induction sched generalizing seen s a with
  | nil =>
    simp only [runBatches, List.flatten_nil, runBlocks, OutRel, seenChain, List.foldl_nil]
    exact ⟨hS, h0⟩
  | cons batch rest ih =>
    simp only [runBatches, List.flatten_cons]
    rw [runBlocks_append, seenChain_append]
    rw [List.flatten_cons, ChainOK_append] at hc
    have h1 := runBatch_rel cfg batch seen s a hS hc.1
    cases hC : runBatch cfg batch s with
    | panic e => cases hA : runBlocks cfg batch a <;> simp_all [OutRel]
    | err e => cases hA : runBlocks cfg batch a <;> simp_all [OutRel]
    | ok s1 =>
      cases hA : runBlocks cfg batch a with
      | panic e => simp_all [OutRel]
      | err e => simp_all [OutRel]
      | ok a1 =>
        rw [hC, hA] at h1
        simp only [OutRel] at h1
        simp only
        exact ih _ s1 a1 h1.1 h1.2 hc.2

/-! ### the empty index, and what `SRel` with an empty cache says -/

theorem SRel.init (cfg : Cfg) : SRel cfg [] {} {} := by
  refine ⟨rfl, fun _ _ => rfl, fun _ _ => rfl, fun _ => rfl, fun _ => rfl, ?_, ⟨List.nodup_nil, ?_, ?_⟩, ?_, ?_⟩
  · refine ⟨List.nodup_nil, ?_, ?_⟩
    · intro _ scr op; constructor
      · intro h; cases h
      · rintro ⟨e, h, _⟩; cases h
    · intro op e _ h; cases h
  · intro op _ h; cases h
  · intro op e _ h; cases h
  · refine ⟨List.nodup_nil, ?_, ?_⟩
    · intro _ scr op; constructor
      · intro h; cases h
      · rintro ⟨e, h, _⟩; cases h
    · intro op e _ h; cases h
  · intro op h; exact absurd rfl h

/-- equality of index content on everything but `seq2sp` -/
structure EquivU (a b : State) : Prop where
  core : core a = core b
  utxo : ∀ k, AL.get a.utxo k = AL.get b.utxo k
  script2out : ∀ x, x ∈ a.script2out ↔ x ∈ b.script2out

theorem EquivU.symm {a b : State} (h : EquivU a b) : EquivU b a :=
  ⟨h.core.symm, fun k => (h.utxo k).symm, fun x => (h.script2out x).symm⟩
theorem EquivU.trans {a b c : State} (h1 : EquivU a b) (h2 : EquivU b c) : EquivU a c :=
  ⟨h1.core.trans h2.core, fun k => (h1.utxo k).trans (h2.utxo k), fun x => (h1.script2out x).trans (h2.script2out x)⟩

theorem SRel.utxo_eq {cfg : Cfg} {seen : List Txid} {s : Store} {a : State} (h : SRel cfg seen s a) (hc : s.cache = [])
    (k : OutPoint) : AL.get s.st.utxo k = AL.get a.utxo k := by
  cases hk : k.isSpecial with
  | false =>
    have := h.ov k hk
    rw [hc] at this
    exact this
  | true =>
    have := h.sp k hk
    rw [hc] at this
    simp only [AL.get, mo_none_right] at this
    exact this.symm

theorem SRel.equivU {cfg : Cfg} {seen : List Txid} {s : Store} {a : State} (h : SRel cfg seen s a) (hc : s.cache = []) :
    EquivU s.st a := by
  refine ⟨h.core, h.utxo_eq hc, ?_⟩
  intro x
  cases ha : cfg.indexAddresses with
  | false => rw [h.noAddr ha]
  | true =>
    obtain ⟨scr, op⟩ := x
    have h1 := h.tinvC.rows ha scr op
    have h2 := h.tinvA.rows ha scr op
    simp only [tri] at h1 h2
    rw [h1, h2, h.utxo_eq hc]

end Ord.Index.Sched
