import OrdModel.Codec.Decompress
/-!
Totality of the decode path (C28 clause 3): no decoder of `OrdModel/Codec/{Cbor,Properties}.lean`
ever reaches a `panic` branch, for any input.  The proof carries along the fact that makes the
fuelled loops safe: a decoder never returns more input than it was given (and the ones that read
a head return strictly less).
-/
namespace Ord.Cbor
open Ord

/-- "`o` is not a panic, and if it is `ok a` then `len a ≤ n`" -/
def Le {α : Type} (len : α → Nat) (n : Nat) : Outcome α → Prop
  | .ok a => len a ≤ n
  | .err _ => True
  | .panic _ => False

abbrev r2 {α : Type} : α × Bytes → Nat := fun p => p.2.length
abbrev r1 : Bytes → Nat := fun p => p.length
abbrev r0 {α : Type} : α → Nat := fun _ => 0

theorem Le.bind {α β : Type} {lenA : α → Nat} {lenB : β → Nat} {n : Nat} {x : Outcome α}
    {f : α → Outcome β} (hx : Le lenA n x) (hf : ∀ a, lenA a ≤ n → Le lenB n (f a)) :
    Le lenB n (x.bind f) := by
  cases x with
  | ok a => exact hf a hx
  | err e => trivial
  | panic s => exact hx

theorem Le.mono {α : Type} {len : α → Nat} {n m : Nat} {x : Outcome α} (h : Le len n x)
    (hnm : n ≤ m) : Le len m x := by
  cases x with
  | ok a => exact Nat.le_trans h hnm
  | err e => trivial
  | panic s => exact h

theorem Le.not_panic {α : Type} {len : α → Nat} {n : Nat} {x : Outcome α} (h : Le len n x) :
    ∀ s, x ≠ .panic s := by
  intro s hs; subst hs; exact h

theorem le_err {α : Type} {len : α → Nat} {n : Nat} {e : String} : Le len n (Outcome.err e : Outcome α) :=
  trivial

theorem argN_le (k : Nat) (bs : Bytes) : Le r2 bs.length (argN k bs) := by
  unfold argN
  split
  · show (bs.drop k).length ≤ bs.length
    simp
  · trivial

theorem arg_le (info : Nat) (bs : Bytes) : Le r2 bs.length (arg info bs) := by
  unfold arg
  repeat' split
  all_goals first | exact argN_le _ _ | trivial | (show bs.length ≤ bs.length; omega)

theorem takeN_le (k : Nat) (bs : Bytes) : Le r2 bs.length (takeN k bs) := by
  unfold takeN
  split
  · show (bs.drop k).length ≤ bs.length
    simp
  · trivial

theorem probe_le (bs : Bytes) (n : Nat) : Le r0 n (probe bs) := by
  unfold probe
  split
  · trivial
  · split
    · trivial
    · show 0 ≤ n; omega

/-! strict decoders: on `b :: r` they return at most `r` -/

theorem decU32_lt (b : UInt8) (r : Bytes) : Le r2 r.length (decU32 (b :: r)) := by
  simp only [decU32]
  split
  · refine Le.bind (arg_le _ r) ?_
    intro ⟨v, r'⟩ h
    show Le r2 r.length (if v < 2 ^ 32 then _ else _)
    split
    · exact h
    · trivial
  · trivial

theorem decI64_lt (b : UInt8) (r : Bytes) : Le r2 r.length (decI64 (b :: r)) := by
  simp only [decI64]
  split
  · refine Le.bind (arg_le _ r) ?_
    intro ⟨v, r'⟩ h
    show Le r2 r.length (if v < 2 ^ 63 then _ else _)
    split
    · exact h
    · trivial
  · split
    · refine Le.bind (arg_le _ r) ?_
      intro ⟨v, r'⟩ h
      show Le r2 r.length (if v < 2 ^ 63 then _ else _)
      split
      · exact h
      · trivial
    · trivial

theorem decBytes_lt (b : UInt8) (r : Bytes) : Le r2 r.length (decBytes (b :: r)) := by
  simp only [decBytes]
  split
  · trivial
  · refine Le.bind (arg_le _ r) ?_
    intro ⟨n, r'⟩ h
    exact Le.mono (takeN_le n r') h

theorem decStr_lt (b : UInt8) (r : Bytes) : Le r2 r.length (decStr (b :: r)) := by
  simp only [decStr]
  split
  · trivial
  · refine Le.bind (arg_le _ r) ?_
    intro ⟨n, r'⟩ h
    refine Le.bind (Le.mono (takeN_le n r') h) ?_
    intro ⟨s, r''⟩ h'
    show Le r2 r.length (if validUtf8 s then _ else _)
    split
    · exact h'
    · trivial

theorem decLenHdr_lt (m : Nat) (b : UInt8) (r : Bytes) : Le r2 r.length (decLenHdr m (b :: r)) := by
  simp only [decLenHdr]
  split
  · trivial
  · split
    · show r.length ≤ r.length; omega
    · refine Le.bind (arg_le _ r) ?_
      intro ⟨n, r'⟩ h
      exact h

theorem decBool_lt (b : UInt8) (r : Bytes) : Le r2 r.length (decBool (b :: r)) := by
  simp only [decBool]
  repeat' split
  all_goals first | trivial | (show r.length ≤ r.length; omega)

theorem decNull_lt (b : UInt8) (r : Bytes) : Le r2 r.length (decNull (b :: r)) := by
  simp only [decNull]
  split
  · show r.length ≤ r.length; omega
  · trivial

/-- a strict decoder is in particular non-increasing on every input -/
theorem le_of_lt {α : Type} {f : Bytes → Outcome (α × Bytes)} (h0 : Le r2 0 (f []))
    (h : ∀ b r, Le r2 r.length (f (b :: r))) (bs : Bytes) : Le r2 bs.length (f bs) := by
  cases bs with
  | nil => exact h0
  | cons b r => exact Le.mono (h b r) (by simp)

theorem decU32_le (bs : Bytes) : Le r2 bs.length (decU32 bs) := le_of_lt (f := decU32) (by exact trivial) decU32_lt bs
theorem decI64_le (bs : Bytes) : Le r2 bs.length (decI64 bs) := le_of_lt (f := decI64) (by exact trivial) decI64_lt bs
theorem decBytes_le (bs : Bytes) : Le r2 bs.length (decBytes bs) := le_of_lt (f := decBytes) (by exact trivial) decBytes_lt bs
theorem decStr_le (bs : Bytes) : Le r2 bs.length (decStr bs) := le_of_lt (f := decStr) (by exact trivial) decStr_lt bs
theorem decLenHdr_le (m : Nat) (bs : Bytes) : Le r2 bs.length (decLenHdr m bs) :=
  le_of_lt (f := decLenHdr m) (by exact trivial) (decLenHdr_lt m) bs
theorem decBool_le (bs : Bytes) : Le r2 bs.length (decBool bs) := le_of_lt (f := decBool) (by exact trivial) decBool_lt bs
theorem decNull_le (bs : Bytes) : Le r2 bs.length (decNull bs) := le_of_lt (f := decNull) (by exact trivial) decNull_lt bs

/-! ## skip -/

theorem indefChunks_le (text : Bool) : ∀ (fuel : Nat) (bs : Bytes), bs.length < fuel →
    Le r1 (bs.length - 1) (indefChunks text fuel bs) := by
  intro fuel
  induction fuel with
  | zero => intro bs h; omega
  | succ fuel ih =>
    intro bs h
    cases bs with
    | nil => trivial
    | cons b r =>
      simp only [indefChunks]
      split
      · show r.length ≤ (b :: r).length - 1; simp
      · split
        · refine Le.bind (Le.mono (decStr_lt b r) (by simp)) ?_
          intro ⟨s, bs'⟩ h'
          have h'' : bs'.length ≤ r.length := by simpa using h'
          exact Le.mono (ih bs' (by simp at h; omega)) (by simp; omega)
        · refine Le.bind (Le.mono (decBytes_lt b r) (by simp)) ?_
          intro ⟨s, bs'⟩ h'
          have h'' : bs'.length ≤ r.length := by simpa using h'
          exact Le.mono (ih bs' (by simp at h; omega)) (by simp; omega)

abbrev rItem : (Nat × Nat × List (Option Nat)) × Bytes × Bool → Nat := fun p => p.2.1.length

theorem skipItem_lt (nr ir : Nat) (st : List (Option Nat)) (b : UInt8) (r : Bytes) :
    Le rItem r.length (skipItem nr ir st (b :: r)) := by
  have harg : ∀ (i : Nat) (t : Bool) (x : Nat × Nat × List (Option Nat)),
      Le rItem r.length ((arg i r).bind fun (p : Nat × Bytes) => .ok (x, p.2, t)) := by
    intro i t x
    refine Le.bind (arg_le i r) ?_
    intro ⟨v, r'⟩ h; exact h
  simp only [skipItem]
  split
  · exact harg _ _ _
  split
  · exact harg _ _ _
  split
  · split
    · refine Le.bind (Le.mono (indefChunks_le false _ r (by omega)) (by omega)) ?_
      intro r' h; exact h
    · refine Le.bind (arg_le _ r) ?_
      intro ⟨n, r'⟩ h
      refine Le.bind (Le.mono (takeN_le n r') h) ?_
      intro ⟨s, r''⟩ h'; exact h'
  split
  · split
    · refine Le.bind (Le.mono (indefChunks_le true _ r (by omega)) (by omega)) ?_
      intro r' h; exact h
    · refine Le.bind (arg_le _ r) ?_
      intro ⟨n, r'⟩ h
      refine Le.bind (Le.mono (takeN_le n r') h) ?_
      intro ⟨s, r''⟩ h'
      show Le rItem r.length (if validUtf8 s then _ else _)
      split
      · exact h'
      · trivial
  split
  · split
    · show r.length ≤ r.length; omega
    · generalize b.toNat - 128 = i
      refine Le.bind (lenA := r2) (arg_le i r) ?_
      intro ⟨n, r'⟩ h; exact h
  split
  · split
    · show r.length ≤ r.length; omega
    · generalize b.toNat - 160 = i
      refine Le.bind (lenA := r2) (arg_le i r) ?_
      intro ⟨n, r'⟩ h; exact h
  split
  · exact harg _ _ _
  split
  · exact harg _ _ _
  split
  · split
    · split <;> (show r.length ≤ r.length; omega)
    · show r.length ≤ r.length; omega
  · trivial

theorem popZeros_head (st : List (Option Nat)) : ∀ t, popZeros st ≠ some 0 :: t := by
  induction st with
  | nil => intro t h; simp [popZeros] at h
  | cons a st ih =>
    intro t h
    cases a with
    | none => simp [popZeros] at h
    | some n =>
      cases n with
      | zero => simp only [popZeros] at h; exact ih t h
      | succ n => simp [popZeros] at h

theorem skipLoop_le : ∀ (fuel nr ir : Nat) (st : List (Option Nat)) (bs : Bytes), bs.length < fuel →
    Le r1 bs.length (skipLoop fuel nr ir st bs) := by
  intro fuel
  induction fuel with
  | zero => intro nr ir st bs h; omega
  | succ fuel ih =>
    intro nr ir st bs h
    simp only [skipLoop]
    split
    · show bs.length ≤ bs.length; omega
    · cases bs with
      | nil => trivial
      | cons b r =>
        refine Le.mono (?_ : Le r1 r.length _) (by simp)
        refine Le.bind (skipItem_lt nr ir st b r) ?_
        intro ⟨⟨nr', ir', st'⟩, bs', isTag⟩ h'
        have hb : bs'.length ≤ r.length := h'
        have hf : bs'.length < fuel := by simp at h; omega
        show Le r1 r.length (if isTag = true then _ else _)
        split
        · exact Le.mono (ih _ _ _ bs' hf) hb
        · split
          · split
            · exact hb
            · rename_i heq; exact absurd heq (popZeros_head _ _)
            · exact Le.mono (ih _ _ _ bs' hf) hb
            · exact Le.mono (ih _ _ _ bs' hf) hb
          · exact Le.mono (ih _ _ _ bs' hf) hb

theorem skip_le (bs : Bytes) : Le r1 bs.length (skip bs) :=
  skipLoop_le _ _ _ _ bs (by omega)

/-! ## containers -/

theorem decOption_le {α : Type} {dec : Bytes → Outcome (α × Bytes)}
    (hd : ∀ bs, Le r2 bs.length (dec bs)) (bs : Bytes) : Le r2 bs.length (decOption dec bs) := by
  unfold decOption
  refine Le.bind (probe_le bs _) ?_
  intro c _
  show Le r2 bs.length (if c = 0xf6 then _ else _)
  split
  · refine Le.bind (skip_le bs) ?_
    intro r h; exact h
  · refine Le.bind (hd bs) ?_
    intro ⟨v, r⟩ h; exact h

theorem arrayDefLoop_le {α : Type} {dec : Bytes → Outcome (α × Bytes)}
    (hd : ∀ bs, Le r2 bs.length (dec bs)) : ∀ (n : Nat) (acc : List α) (bs : Bytes),
    Le r2 bs.length (arrayDefLoop dec n acc bs) := by
  intro n
  induction n with
  | zero => intro acc bs; show bs.length ≤ bs.length; omega
  | succ n ih =>
    intro acc bs
    simp only [arrayDefLoop]
    refine Le.bind (hd bs) ?_
    intro ⟨v, bs'⟩ h
    exact Le.mono (ih _ bs') h

theorem arrayIndefLoop_le {α : Type} {dec : Bytes → Outcome (α × Bytes)}
    (hd : ∀ b r, Le r2 r.length (dec (b :: r))) : ∀ (fuel : Nat) (acc : List α) (bs : Bytes),
    bs.length < fuel → Le r2 bs.length (arrayIndefLoop dec fuel acc bs) := by
  intro fuel
  induction fuel with
  | zero => intro acc bs h; omega
  | succ fuel ih =>
    intro acc bs h
    cases bs with
    | nil => trivial
    | cons b r =>
      simp only [arrayIndefLoop]
      split
      · show r.length ≤ (b :: r).length; simp
      · refine Le.mono (?_ : Le r2 r.length _) (by simp)
        refine Le.bind (hd b r) ?_
        intro ⟨v, bs'⟩ h'
        have hb : bs'.length ≤ r.length := h'
        exact Le.mono (ih _ bs' (by simp at h; omega)) hb

theorem decVec_lt {α : Type} {dec : Bytes → Outcome (α × Bytes)}
    (hd : ∀ b r, Le r2 r.length (dec (b :: r))) (hd0 : Le r2 0 (dec [])) (b : UInt8) (r : Bytes) :
    Le r2 r.length (decVec dec (b :: r)) := by
  unfold decVec
  refine Le.bind (decLenHdr_lt 4 b r) ?_
  intro ⟨len, r'⟩ h
  cases len with
  | some n => exact Le.mono (arrayDefLoop_le (le_of_lt hd0 hd) n [] r') h
  | none => exact Le.mono (arrayIndefLoop_le hd _ [] r' (by omega)) h

theorem mapDefLoop_le {σ : Type} {field : Int → σ → Bytes → Outcome (σ × Bytes)}
    (hf : ∀ k acc bs, Le r2 bs.length (field k acc bs)) : ∀ (n : Nat) (acc : σ) (bs : Bytes),
    Le r2 bs.length (mapDefLoop field n acc bs) := by
  intro n
  induction n with
  | zero => intro acc bs; show bs.length ≤ bs.length; omega
  | succ n ih =>
    intro acc bs
    simp only [mapDefLoop]
    refine Le.bind (decI64_le bs) ?_
    intro ⟨k, bs1⟩ h
    refine Le.bind (Le.mono (hf k acc bs1) h) ?_
    intro ⟨acc', bs2⟩ h'
    exact Le.mono (ih acc' bs2) h'

theorem mapIndefLoop_le {σ : Type} {field : Int → σ → Bytes → Outcome (σ × Bytes)}
    (hf : ∀ k acc bs, Le r2 bs.length (field k acc bs)) : ∀ (fuel : Nat) (acc : σ) (bs : Bytes),
    bs.length < fuel → Le r2 bs.length (mapIndefLoop field fuel acc bs) := by
  intro fuel
  induction fuel with
  | zero => intro acc bs h; omega
  | succ fuel ih =>
    intro acc bs h
    simp only [mapIndefLoop]
    refine Le.bind (probe_le bs _) ?_
    intro c _
    show Le r2 bs.length (if c = 0xff then _ else _)
    split
    · refine Le.bind (skip_le bs) ?_
      intro r h'; exact h'
    · cases bs with
      | nil => trivial
      | cons b r =>
        refine Le.mono (?_ : Le r2 r.length _) (by simp)
        refine Le.bind (decI64_lt b r) ?_
        intro ⟨k, bs1⟩ h1
        refine Le.bind (Le.mono (hf k acc bs1) h1) ?_
        intro ⟨acc', bs2⟩ h2
        have h2' : bs2.length ≤ r.length := h2
        exact Le.mono (ih acc' bs2 (by simp at h; omega)) h2

theorem decStruct_lt {σ : Type} {field : Int → σ → Bytes → Outcome (σ × Bytes)}
    (hf : ∀ k acc bs, Le r2 bs.length (field k acc bs)) (init : σ) (b : UInt8) (r : Bytes) :
    Le r2 r.length (decStruct field init (b :: r)) := by
  unfold decStruct
  refine Le.bind (decLenHdr_lt 5 b r) ?_
  intro ⟨len, r'⟩ h
  cases len with
  | some n => exact Le.mono (mapDefLoop_le hf n init r') h
  | none => exact Le.mono (mapIndefLoop_le hf _ init r' (by omega)) h

theorem decStruct_nil {σ : Type} (field : Int → σ → Bytes → Outcome (σ × Bytes)) (init : σ) :
    Le r2 0 (decStruct field init []) := trivial

end Ord.Cbor

namespace Ord.Props
open Ord Ord.Cbor

theorem decTrait_le (bs : Bytes) : Le r2 bs.length (decTrait bs) := by
  unfold decTrait
  refine Le.bind (probe_le bs _) ?_
  intro c _
  show Le r2 bs.length (if c ≤ 0x1b ∨ (0x20 ≤ c ∧ c ≤ 0x3b) then _ else _)
  split
  · refine Le.bind (decI64_le bs) ?_
    intro ⟨i, r⟩ h; exact h
  split
  · refine Le.bind (decStr_le bs) ?_
    intro ⟨i, r⟩ h; exact h
  split
  · refine Le.bind (decBool_le bs) ?_
    intro ⟨i, r⟩ h; exact h
  split
  · refine Le.bind (decNull_le bs) ?_
    intro ⟨i, r⟩ h; exact h
  · trivial

theorem traitsLoop_le : ∀ (n : Nat) (acc : List (Bytes × Trait)) (bs : Bytes),
    Le r2 bs.length (traitsLoop n acc bs) := by
  intro n
  induction n with
  | zero => intro acc bs; show bs.length ≤ bs.length; omega
  | succ n ih =>
    intro acc bs
    simp only [traitsLoop]
    refine Le.bind (decStr_le bs) ?_
    intro ⟨name, bs1⟩ h
    show Le r2 bs.length (if _ then _ else _)
    split
    · trivial
    · refine Le.bind (Le.mono (decTrait_le bs1) h) ?_
      intro ⟨v, bs2⟩ h'
      exact Le.mono (ih _ bs2) h'

theorem decTraits_le (bs : Bytes) : Le r2 bs.length (decTraits bs) := by
  unfold decTraits
  refine Le.bind (decLenHdr_le 5 bs) ?_
  intro ⟨len, r⟩ h
  cases len with
  | none => trivial
  | some n => exact Le.mono (traitsLoop_le n [] r) h

theorem attrField_le (k : Int) (a : Attributes) (bs : Bytes) : Le r2 bs.length (attrField k a bs) := by
  unfold attrField
  split
  · refine Le.bind (decOption_le decStr_le bs) ?_
    intro ⟨t, r⟩ h; exact h
  split
  · refine Le.bind (decTraits_le bs) ?_
    intro ⟨t, r⟩ h; exact h
  · refine Le.bind (skip_le bs) ?_
    intro r h; exact h

theorem decAttributes_lt (b : UInt8) (r : Bytes) : Le r2 r.length (decAttributes (b :: r)) :=
  decStruct_lt attrField_le _ b r

theorem decAttributes_le (bs : Bytes) : Le r2 bs.length (decAttributes bs) :=
  le_of_lt (f := decAttributes) (decStruct_nil _ _) decAttributes_lt bs

theorem idFromValue_le (v : Bytes) : Le r0 0 (idFromValue v) := by
  unfold idFromValue
  dsimp only
  repeat' split
  all_goals first
    | (show 0 ≤ 0; omega)
    | (exfalso; simp only [List.length_take] at *; omega)

theorem decId_le (bs : Bytes) : Le r2 bs.length (decId bs) := by
  unfold decId
  refine Le.bind (decBytes_le bs) ?_
  intro ⟨v, r⟩ h
  refine Le.bind (lenA := r0) (Le.mono (idFromValue_le v) (Nat.zero_le _)) ?_
  intro o _
  cases o with
  | some id => exact h
  | none => trivial

theorem itemField_le (k : Int) (i : Item) (bs : Bytes) : Le r2 bs.length (itemField k i bs) := by
  unfold itemField
  split
  · refine Le.bind (decOption_le decId_le bs) ?_
    intro ⟨t, r⟩ h; exact h
  split
  · refine Le.bind (decAttributes_le bs) ?_
    intro ⟨t, r⟩ h; exact h
  split
  · refine Le.bind (decOption_le decU32_le bs) ?_
    intro ⟨t, r⟩ h; exact h
  · refine Le.bind (skip_le bs) ?_
    intro r h; exact h

theorem decItem_lt (b : UInt8) (r : Bytes) : Le r2 r.length (decItem (b :: r)) :=
  decStruct_lt itemField_le _ b r

theorem propsField_le (k : Int) (p : Properties) (bs : Bytes) : Le r2 bs.length (propsField k p bs) := by
  unfold propsField
  split
  · refine Le.bind (le_of_lt (f := decVec decItem) (by exact trivial)
      (decVec_lt decItem_lt (decStruct_nil _ _)) bs) ?_
    intro ⟨t, r⟩ h; exact h
  split
  · refine Le.bind (decAttributes_le bs) ?_
    intro ⟨t, r⟩ h; exact h
  split
  · refine Le.bind (decBytes_le bs) ?_
    intro ⟨t, r⟩ h; exact h
  · refine Le.bind (skip_le bs) ?_
    intro r h; exact h

theorem decProperties_le (bs : Bytes) : Le r0 bs.length (decProperties bs) := by
  unfold decProperties
  refine Le.bind (lenA := r2) (le_of_lt (f := decStruct propsField {}) (decStruct_nil _ _)
    (decStruct_lt propsField_le _) bs) ?_
  intro ⟨p, r⟩ _
  show 0 ≤ bs.length; omega

theorem applyTxids_le : ∀ (items : List Item) (tx : Bytes), Le r0 0 (applyTxids items tx) := by
  intro items
  induction items with
  | nil => intro tx; show 0 ≤ 0; omega
  | cons i r ih =>
    intro tx
    simp only [applyTxids]
    split
    · show 0 ≤ 0; omega
    · split
      · rename_i h1 h2
        exfalso; apply h2; simp; omega
      · refine Le.bind (ih _) ?_
        intro r' _
        show 0 ≤ 0; omega

theorem applyTxids_ok : ∀ (items : List Item) (tx : Bytes), ∃ g, applyTxids items tx = .ok g := by
  intro items
  induction items with
  | nil => intro tx; exact ⟨[], rfl⟩
  | cons i r ih =>
    intro tx
    simp only [applyTxids]
    split
    · exact ⟨_, rfl⟩
    · split
      · rename_i h1 h2
        exfalso; apply h2; simp; omega
      · obtain ⟨g, hg⟩ := ih (tx.drop 32)
        rw [hg]; exact ⟨_, rfl⟩

theorem fromCbor_le (bs : Bytes) : Le r0 0 (fromCbor bs) := by
  unfold fromCbor
  have hd := decProperties_le bs
  refine Le.bind (lenA := r0) (n := 0) ?_ ?_
  · cases h : decProperties bs with
    | ok p => show 0 ≤ 0; omega
    | err e => show 0 ≤ 0; omega
    | panic s => rw [h] at hd; exact hd
  · intro p _
    refine Le.bind (applyTxids_le _ _) ?_
    intro g _
    show 0 ≤ 0; omega

/-- `from_cbor` always returns a value (decode errors become the default value) -/
theorem fromCbor_ok (bs : Bytes) : ∃ p, fromCbor bs = .ok p := by
  have hd := decProperties_le bs
  unfold fromCbor
  cases h : decProperties bs with
  | panic s => rw [h] at hd; exact absurd hd (by intro x; exact x)
  | ok p =>
    obtain ⟨g, hg⟩ := applyTxids_ok p.gallery p.txids
    simp only [Outcome.bind, hg]; exact ⟨_, rfl⟩
  | err e =>
    obtain ⟨g, hg⟩ := applyTxids_ok ({} : Properties).gallery ({} : Properties).txids
    simp only [Outcome.bind, hg]; exact ⟨_, rfl⟩

end Ord.Props
