import OrdModel.Index.OracleSats
/-
`den`: the ordinals a list of sat ranges denotes, and the range-level `takeR`/`dropR` as
`List.take`/`List.drop` under `den`.  (`den` is never evaluated.)
-/
namespace Ord.Index

/-- the ordinals of a range list, in order -/
def den : Ranges → List Nat
  | [] => []
  | (s, e) :: rest => List.range' s (e - s) ++ den rest

/-- every range is non-empty -/
def WF (q : Ranges) : Prop := ∀ r ∈ q, r.1 < r.2

@[simp] theorem den_nil : den [] = [] := rfl
@[simp] theorem den_cons (s e : Nat) (rest : Ranges) : den ((s, e) :: rest) = List.range' s (e - s) ++ den rest := rfl

theorem den_append (a b : Ranges) : den (a ++ b) = den a ++ den b := by
  induction a with
  | nil => simp
  | cons r a ih => obtain ⟨s, e⟩ := r; simp [ih]

theorem den_length (q : Ranges) : (den q).length = lenR q := by
  induction q with
  | nil => simp [lenR]
  | cons r q ih => obtain ⟨s, e⟩ := r; simp [lenR, ih]

theorem lenR_append (a b : Ranges) : lenR (a ++ b) = lenR a + lenR b := by
  rw [← den_length, den_append, List.length_append, den_length, den_length]

theorem rangesValue_eq_lenR (q : Ranges) : rangesValue q = lenR q := by
  have h : ∀ (q : Ranges) (acc : Nat), q.foldl (fun acc r => acc + (r.2 - r.1)) acc = acc + lenR q := by
    intro q
    induction q with
    | nil => intro acc; simp [lenR]
    | cons r q ih => intro acc; obtain ⟨s, e⟩ := r; simp only [List.foldl_cons, ih, lenR]; omega
  simpa [rangesValue] using h q 0

theorem WF_nil : WF [] := by intro r h; cases h

theorem WF_cons {s e : Nat} {q : Ranges} : WF ((s, e) :: q) ↔ s < e ∧ WF q := by
  constructor
  · intro h; exact ⟨h (s, e) (by simp), fun r hr => h r (by simp [hr])⟩
  · rintro ⟨h1, h2⟩ r hr
    rcases List.mem_cons.mp hr with rfl | hr
    · exact h1
    · exact h2 r hr

theorem WF_append {a b : Ranges} : WF (a ++ b) ↔ WF a ∧ WF b := by
  constructor
  · intro h; exact ⟨fun r hr => h r (by simp [hr]), fun r hr => h r (by simp [hr])⟩
  · rintro ⟨h1, h2⟩ r hr
    rcases List.mem_append.mp hr with hr | hr
    · exact h1 r hr
    · exact h2 r hr

theorem den_takeR (n : Nat) (q : Ranges) : den (takeR n q) = (den q).take n := by
  induction q generalizing n with
  | nil => cases n <;> simp [takeR]
  | cons r q ih =>
    obtain ⟨s, e⟩ := r
    cases n with
    | zero => simp [takeR]
    | succ n =>
      simp only [takeR]
      split
      · rename_i h
        simp only [den_cons, den_nil, List.append_nil]
        rw [List.take_append_of_le_length (by simp; omega), List.take_range'_of_length_ge (by omega)]
        congr 1; omega
      · rename_i h
        simp only [den_cons, ih]
        have hl : (List.range' s (e - s)).length ≤ n + 1 := by simp; omega
        rw [List.take_append, List.take_of_length_le hl]
        simp only [List.length_range']

theorem den_dropR (n : Nat) (q : Ranges) : den (dropR n q) = (den q).drop n := by
  induction q generalizing n with
  | nil => cases n <;> simp [dropR]
  | cons r q ih =>
    obtain ⟨s, e⟩ := r
    cases n with
    | zero => simp [dropR]
    | succ n =>
      simp only [dropR]
      split
      · rename_i h
        simp only [den_cons]
        rw [List.drop_append_of_le_length (by simp; omega), List.drop_range']
        congr 2 <;> omega
      · rename_i h
        simp only [den_cons, ih]
        have hl : (List.range' s (e - s)).length ≤ n + 1 := by simp; omega
        rw [List.drop_append, List.drop_of_length_le hl]
        simp only [List.length_range', List.nil_append]

theorem takeR_dropR_den (n : Nat) (q : Ranges) : den (takeR n q) ++ den (dropR n q) = den q := by
  rw [den_takeR, den_dropR, List.take_append_drop]

theorem lenR_takeR (n : Nat) (q : Ranges) : lenR (takeR n q) = min n (lenR q) := by
  rw [← den_length, den_takeR, List.length_take, den_length]

theorem lenR_dropR (n : Nat) (q : Ranges) : lenR (dropR n q) = lenR q - n := by
  rw [← den_length, den_dropR, List.length_drop, den_length]

theorem WF_takeR (n : Nat) (q : Ranges) (h : WF q) : WF (takeR n q) := by
  induction q generalizing n with
  | nil => cases n <;> simp [takeR, WF_nil]
  | cons r q ih =>
    obtain ⟨s, e⟩ := r
    obtain ⟨h1, h2⟩ := WF_cons.mp h
    cases n with
    | zero => simp [takeR, WF_nil]
    | succ n =>
      simp only [takeR]
      split
      · exact WF_cons.mpr ⟨by omega, WF_nil⟩
      · exact WF_cons.mpr ⟨h1, ih _ h2⟩

theorem WF_dropR (n : Nat) (q : Ranges) (h : WF q) : WF (dropR n q) := by
  induction q generalizing n with
  | nil => cases n <;> simp [dropR, WF_nil]
  | cons r q ih =>
    obtain ⟨s, e⟩ := r
    obtain ⟨h1, h2⟩ := WF_cons.mp h
    cases n with
    | zero => simpa [dropR] using h
    | succ n =>
      simp only [dropR]
      split
      · exact WF_cons.mpr ⟨by omega, h2⟩
      · exact ih _ h2

/-- **Boundaries**: taking `n` sats off a queue either cuts it between two ranges, or splits
exactly one range `(s,e)` at an interior point `m`; no two ranges are ever merged and no other
boundary moves. -/
theorem takeR_dropR_split (n : Nat) (q : Ranges) (hq : WF q) :
    (takeR n q ++ dropR n q = q) ∨
    (∃ pre s m e post, q = pre ++ (s, e) :: post ∧ s < m ∧ m < e ∧
      takeR n q = pre ++ [(s, m)] ∧ dropR n q = (m, e) :: post) := by
  induction q generalizing n with
  | nil => left; cases n <;> simp [takeR, dropR]
  | cons r q ih =>
    obtain ⟨s, e⟩ := r
    obtain ⟨h1, h2⟩ := WF_cons.mp hq
    cases n with
    | zero => left; simp [takeR, dropR]
    | succ n =>
      simp only [takeR, dropR]
      split
      · right
        exact ⟨[], s, s + (n + 1), e, q, by simp, by omega, by omega, by simp, rfl⟩
      · rcases ih (n + 1 - (e - s)) h2 with h | ⟨pre, s', m, e', post, hq', hs, he, ht, hd⟩
        · left; simp [h]
        · right
          exact ⟨(s, e) :: pre, s', m, e', post, by simp [hq'], hs, he, by simp [ht], hd⟩

end Ord.Index
