import OrdModel.Proofs.IndexSatsPool
import OrdModel.Index.Run
/-
The partition invariant through the real block model (`indexTx`, `indexUtxoEntries`,
`applyBlock`).  The *pool* of a block in progress is everything that holds sats: table, cache,
coinbase inputs, lost ranges.  Every step keeps the pool `GoodR` (well-formed, distinct, below
the bound); displaced entries (duplicate txids) only ever drop ranges from it.
-/
namespace Ord.Index
open Outcome

def poolR (bc : BlockCtx) : Ranges :=
  allRanges bc.st.utxo ++ allRanges bc.cache ++ bc.coinbaseInputs ++ bc.lostRanges

theorem perm_of_counts {a b : Ranges} (h : ∀ x, a.count x = b.count x) : a.Perm b :=
  List.perm_iff_count.mpr h

def entryRanges (l : List (TxIn × UtxoEntry)) : Ranges := l.flatMap (fun p => p.2.ranges)

theorem entryRanges_append (a b : List (TxIn × UtxoEntry)) :
    entryRanges (a ++ b) = entryRanges a ++ entryRanges b := by simp [entryRanges]

/-- taking the spent entries moves their ranges from table/cache to the input list -/
theorem takeInputEntries_pool (cfg : Cfg) (ins : List TxIn) (bc : BlockCtx) (acc : List (TxIn × UtxoEntry))
    (bc' : BlockCtx) (acc' : List (TxIn × UtxoEntry))
    (h : takeInputEntries cfg ins bc acc = .ok (bc', acc')) :
    (allRanges bc'.st.utxo ++ allRanges bc'.cache ++ entryRanges acc').Perm
      (allRanges bc.st.utxo ++ allRanges bc.cache ++ entryRanges acc) ∧
    bc'.coinbaseInputs = bc.coinbaseInputs ∧ bc'.lostRanges = bc.lostRanges ∧
    bc'.st.height = bc.st.height ∧ bc'.ins = bc.ins := by
  induction ins generalizing bc acc with
  | nil =>
    simp only [takeInputEntries, Outcome.ok.injEq, Prod.mk.injEq] at h
    obtain ⟨rfl, rfl⟩ := h
    exact ⟨List.Perm.refl _, rfl, rfl, rfl, rfl⟩
  | cons i rest ih =>
    simp only [takeInputEntries] at h
    split at h
    · -- cache hit
      rename_i e hget
      obtain ⟨hp, h1, h2, h3, h4⟩ := ih _ _ h
      refine ⟨hp.trans ?_, h1, h2, h3, h4⟩
      have hc := (allRanges_erase hget)
      apply perm_of_counts
      intro x
      have := hc.count_eq x
      simp only [entryRanges, List.flatMap_append, List.flatMap_cons, List.flatMap_nil, List.append_nil,
        List.count_append] at this ⊢
      omega
    · split at h
      · -- table hit
        rename_i e hget
        have hc := (allRanges_erase hget)
        split at h
        · split at h
          · obtain ⟨hp, h1, h2, h3, h4⟩ := ih _ _ h
            refine ⟨hp.trans ?_, h1, h2, h3, h4⟩
            apply perm_of_counts
            intro x
            have := hc.count_eq x
            simp only [entryRanges, List.flatMap_append, List.flatMap_cons, List.flatMap_nil, List.append_nil,
              List.count_append] at this ⊢
            omega
          · cases h
        · obtain ⟨hp, h1, h2, h3, h4⟩ := ih _ _ h
          refine ⟨hp.trans ?_, h1, h2, h3, h4⟩
          apply perm_of_counts
          intro x
          have := hc.count_eq x
          simp only [entryRanges, List.flatMap_append, List.flatMap_cons, List.flatMap_nil, List.append_nil,
            List.count_append] at this ⊢
          omega
      · cases h

/-- writing a transaction's output entries into the cache adds their ranges and drops whatever
they displace -/
theorem cache_fold_pool (txid : Txid) (outs : List UtxoEntry) (n : Nat) (cache : Cache) :
    ∃ d, (allRanges ((enumFrom n outs).foldl (fun c (p : Nat × UtxoEntry) => AL.set c ⟨txid, p.1⟩ p.2) cache) ++ d).Perm
      (allRanges cache ++ outs.flatMap (·.ranges)) := by
  induction outs generalizing n cache with
  | nil => exact ⟨[], by simp [enumFrom]⟩
  | cons o outs ih =>
    simp only [enumFrom, List.foldl_cons, List.flatMap_cons]
    obtain ⟨d1, h1⟩ := ih (n + 1) (AL.set cache ⟨txid, n⟩ o)
    obtain ⟨d2, h2⟩ := allRanges_set cache ⟨txid, n⟩ o
    refine ⟨d1 ++ d2, ?_⟩
    apply perm_of_counts
    intro x
    have e1 := h1.count_eq x
    have e2 := h2.count_eq x
    simp only [List.count_append] at e1 e2 ⊢
    omega

theorem zip_ranges (os : List TxOut) (rss : List Ranges) (h : os.length = rss.length) :
    (List.map (fun (x : UtxoEntry × Ranges) => ({ value := x.fst.value, ranges := x.snd, script := x.fst.script, ins := x.fst.ins } : UtxoEntry))
      ((List.map (fun _ => UtxoEntry.empty) os).zip rss)).map (·.ranges) = rss := by
  induction os generalizing rss with
  | nil => cases rss <;> simp_all
  | cons o os ih =>
    cases rss with
    | nil => simp at h
    | cons r rss => simp at h; simp [ih rss h]

theorem zip_script (es : List UtxoEntry) (os : List TxOut) :
    (List.map (fun (x : UtxoEntry × TxOut) => ({ value := x.fst.value, ranges := x.fst.ranges, script := x.snd.script, ins := x.fst.ins } : UtxoEntry))
      (es.zip os)).map (·.ranges) = (es.zip os).map (·.1.ranges) := by
  simp

theorem zip_fst_of_length {α β : Type} (a : List α) (b : List β) (h : a.length = b.length) :
    (a.zip b).map (·.1) = a := by
  induction a generalizing b with
  | nil => simp
  | cons x a ih =>
    cases b with
    | nil => simp at h
    | cons y b => simp at h; simp [ih b h]

/-- what `indexTransactionSats` gives, in the form the block proofs use -/
theorem indexTransactionSats_facts (values : List Nat) (inputs : Ranges) (t : TxSats)
    (h : indexTransactionSats values inputs = some t) :
    t.outputs.length = values.length ∧ den (t.outputs.flatten ++ t.leftover) = den inputs ∧
    (WF inputs → WF (t.outputs.flatten ++ t.leftover)) := by
  rw [indexTransactionSats_spec] at h
  split at h
  · cases h
    refine ⟨assignOutputsR_length values inputs, assignOutputsR_flatten_den values inputs, fun hq => ?_⟩
    obtain ⟨w1, w2⟩ := assignOutputsR_WF values inputs hq
    apply WF_append.mpr
    refine ⟨?_, w2⟩
    intro r hr
    obtain ⟨o, ho, hro⟩ := List.mem_flatten.mp hr
    exact w1 o ho r hro
  · cases h

/-- the output entries built by `indexTx` carry exactly the ranges `indexTransactionSats` assigned -/
theorem built_outs_ranges (addr : Bool) (os : List TxOut) (rss : List Ranges) (h : rss.length = os.length) :
    (if addr = true then
        List.map (fun (x : UtxoEntry × TxOut) => ({ value := x.fst.value, ranges := x.fst.ranges, script := x.snd.script, ins := x.fst.ins } : UtxoEntry))
          ((List.map (fun (x : UtxoEntry × Ranges) => ({ value := x.fst.value, ranges := x.snd, script := x.fst.script, ins := x.fst.ins } : UtxoEntry))
            ((List.map (fun _ => UtxoEntry.empty) os).zip rss)).zip os)
      else
        List.map (fun (x : UtxoEntry × Ranges) => ({ value := x.fst.value, ranges := x.snd, script := x.fst.script, ins := x.fst.ins } : UtxoEntry))
          ((List.map (fun _ => UtxoEntry.empty) os).zip rss)).flatMap (·.ranges) = rss.flatten := by
  have h1 := zip_ranges os rss h.symm
  rw [List.flatMap_def]
  cases addr
  · simp only [Bool.false_eq_true, if_false, h1]
  · simp only [if_true, zip_script]
    have hf : (fun x : UtxoEntry × TxOut => x.fst.ranges) = (fun e : UtxoEntry => e.ranges) ∘ (fun x : UtxoEntry × TxOut => x.1) := rfl
    rw [hf, ← List.map_map, zip_fst_of_length _ _ (by simp [h]), h1]

/-- a transaction that is not the coinbase keeps the pool good -/
theorem indexTx_noncb (cfg : Cfg) (hs : cfg.indexSats = true) (blk : Block) (off : Nat) (hoff : off ≠ 0) (tx : Tx)
    (bc bc' : BlockCtx) (B : Nat) (g : GoodR B (poolR bc))
    (h : indexTx cfg blk false off tx bc = .ok bc') :
    GoodR B (poolR bc') ∧ bc'.ins = bc.ins ∧ bc'.st.height = bc.st.height := by
  simp only [indexTx, hoff, if_false, hs, if_true] at h
  split at h
  · cases h
  · cases h
  · rename_i bc1 inputs htake
    obtain ⟨hp, hcb, hlost, hh, hins⟩ := takeInputEntries_pool cfg tx.inputs bc [] bc1 inputs htake
    cases hr : indexTransactionSats (List.map (fun x => x.value) tx.outputs)
        (List.flatMap (fun x => x.snd.ranges) inputs) with
    | none => simp [hr] at h
    | some r =>
      simp only [hr, Bool.false_eq_true, if_false, Outcome.ok.injEq] at h
      subst h
      refine ⟨?_, hins, hh⟩
      obtain ⟨hlen, hden, hwf⟩ := indexTransactionSats_facts _ _ r hr
      simp only [List.length_map] at hlen
      have hout := built_outs_ranges cfg.indexAddresses tx.outputs r.outputs hlen
      have key : ∀ outs : List UtxoEntry, outs.flatMap (·.ranges) = r.outputs.flatten →
          ∃ d, (allRanges (List.foldl (fun c (p : Nat × UtxoEntry) => AL.set c ⟨tx.txid, p.1⟩ p.2) bc1.cache
            (enumFrom 0 outs)) ++ d).Perm (allRanges bc1.cache ++ r.outputs.flatten) := by
        intro outs ho
        obtain ⟨d, hd⟩ := cache_fold_pool tx.txid outs 0 bc1.cache
        exact ⟨d, ho ▸ hd⟩
      simp only [poolR]
      generalize hF : List.foldl _ bc1.cache _ = F
      obtain ⟨d, hd⟩ : ∃ d, (allRanges F ++ d).Perm (allRanges bc1.cache ++ r.outputs.flatten) := by
        subst hF; exact key _ hout
      -- pool before, with the spent entries' ranges pulled out
      have g1 : GoodR B ((allRanges bc1.st.utxo ++ allRanges bc1.cache ++ bc1.coinbaseInputs ++ bc1.lostRanges)
          ++ entryRanges inputs) := by
        refine g.perm (perm_of_counts fun x => ?_)
        have := hp.count_eq x
        simp only [poolR, entryRanges, List.flatMap_nil, List.append_nil, List.count_append, hcb, hlost] at this ⊢
        omega
      have g2 := GoodR.replace (y := r.outputs.flatten ++ r.leftover) hden
        (hwf (WF_append.mp g1.1).2) g1
      refine GoodR.sub (d := d) (perm_of_counts fun x => ?_) g2
      have := hd.count_eq x
      simp only [List.count_append] at this ⊢
      omega

/-- the pool once the coinbase has been indexed: its inputs are used up -/
def poolR' (bc : BlockCtx) : Ranges := allRanges bc.st.utxo ++ allRanges bc.cache ++ bc.lostRanges

/-- the coinbase (indexed last) turns the coinbase inputs into its outputs and the lost ranges -/
theorem indexTx_cb (cfg : Cfg) (hs : cfg.indexSats = true) (blk : Block) (tx : Tx)
    (bc bc' : BlockCtx) (B : Nat) (g : GoodR B (poolR bc))
    (h : indexTx cfg blk false 0 tx bc = .ok bc') :
    GoodR B (poolR' bc') ∧ bc'.ins = bc.ins ∧ bc'.st.height = bc.st.height := by
  simp only [indexTx, if_true, hs] at h
  cases hr : indexTransactionSats (List.map (fun x => x.value) tx.outputs) bc.coinbaseInputs with
  | none => simp [hr] at h
  | some r =>
    simp only [hr, Bool.false_eq_true, if_false, Outcome.ok.injEq] at h
    subst h
    refine ⟨?_, rfl, rfl⟩
    obtain ⟨hlen, hden, hwf⟩ := indexTransactionSats_facts _ _ r hr
    simp only [List.length_map] at hlen
    have hout := built_outs_ranges cfg.indexAddresses tx.outputs r.outputs hlen
    have key : ∀ outs : List UtxoEntry, outs.flatMap (·.ranges) = r.outputs.flatten →
        ∃ d, (allRanges (List.foldl (fun c (p : Nat × UtxoEntry) => AL.set c ⟨tx.txid, p.1⟩ p.2) bc.cache
          (enumFrom 0 outs)) ++ d).Perm (allRanges bc.cache ++ r.outputs.flatten) := by
      intro outs ho
      obtain ⟨d, hd⟩ := cache_fold_pool tx.txid outs 0 bc.cache
      exact ⟨d, ho ▸ hd⟩
    simp only [poolR']
    generalize hF : List.foldl _ bc.cache _ = F
    obtain ⟨d, hd⟩ : ∃ d, (allRanges F ++ d).Perm (allRanges bc.cache ++ r.outputs.flatten) := by
      subst hF; exact key _ hout
    have g1 : GoodR B ((allRanges bc.st.utxo ++ allRanges bc.cache ++ bc.lostRanges) ++ bc.coinbaseInputs) := by
      refine g.perm (perm_of_counts fun x => ?_)
      simp only [poolR, List.count_append]
      omega
    have g2 := GoodR.replace (y := r.outputs.flatten ++ r.leftover) hden
      (hwf (WF_append.mp g1.1).2) g1
    refine GoodR.sub (d := d) (perm_of_counts fun x => ?_) g2
    have := hd.count_eq x
    simp only [List.count_append] at this ⊢
    omega

theorem indexTxs_noncb (cfg : Cfg) (hs : cfg.indexSats = true) (blk : Block) (l : List (Nat × Tx))
    (hl : ∀ p ∈ l, p.1 ≠ 0) (bc bc' : BlockCtx) (B : Nat) (g : GoodR B (poolR bc))
    (h : indexTxs cfg blk false l bc = .ok bc') :
    GoodR B (poolR bc') ∧ bc'.ins = bc.ins ∧ bc'.st.height = bc.st.height := by
  induction l generalizing bc with
  | nil =>
    simp only [indexTxs, Outcome.ok.injEq] at h
    subst h; exact ⟨g, rfl, rfl⟩
  | cons p l ih =>
    obtain ⟨i, tx⟩ := p
    simp only [indexTxs] at h
    split at h
    · cases h
    · cases h
    · rename_i bc1 h1
      obtain ⟨g1, e1, e2⟩ := indexTx_noncb cfg hs blk i (hl (i, tx) (by simp)) tx bc bc1 B g h1
      obtain ⟨g2, e3, e4⟩ := ih (fun p hp => hl p (by simp [hp])) bc1 g1 h
      exact ⟨g2, e3.trans e1, e4.trans e2⟩

theorem indexTxs_append (cfg : Cfg) (blk : Block) (insOn : Bool) (a b : List (Nat × Tx)) (bc bc' : BlockCtx)
    (h : indexTxs cfg blk insOn (a ++ b) bc = .ok bc') :
    ∃ bc1, indexTxs cfg blk insOn a bc = .ok bc1 ∧ indexTxs cfg blk insOn b bc1 = .ok bc' := by
  induction a generalizing bc with
  | nil => exact ⟨bc, by simp [indexTxs], by simpa using h⟩
  | cons p a ih =>
    obtain ⟨i, tx⟩ := p
    simp only [List.cons_append, indexTxs] at h ⊢
    split at h
    · cases h
    · cases h
    · rename_i bc1 h1
      obtain ⟨bc2, h2, h3⟩ := ih bc1 h
      exact ⟨bc2, by simp [h2], h3⟩

theorem enumFrom_succ_ne_zero {α : Type} (n : Nat) (l : List α) : ∀ p ∈ enumFrom (n + 1) l, p.1 ≠ 0 := by
  induction l generalizing n with
  | nil => simp [enumFrom]
  | cons x l ih =>
    intro p hp
    simp only [enumFrom, List.mem_cons] at hp
    rcases hp with rfl | hp
    · simp
    · exact ih (n + 1) p hp

/-- `commit` of one cache entry: its ranges join the table (merged for the special outpoints),
whatever it displaces is dropped -/
theorem flushEntry_pool (cfg : Cfg) (st : State) (op : OutPoint) (e : UtxoEntry) :
    (∃ d, (allRanges (flushEntry cfg st op e).utxo ++ d).Perm (allRanges st.utxo ++ e.ranges)) ∧
    (flushEntry cfg st op e).height = st.height := by
  have hu : ∀ e' : UtxoEntry, (flushEntry cfg st op e).utxo = AL.set st.utxo op e' →
      (flushEntry cfg st op e).utxo = AL.set st.utxo op e' := fun _ h => h
  constructor
  · have hutxo : (flushEntry cfg st op e).utxo = AL.set st.utxo op
        (if op.isSpecial then
          match AL.get st.utxo op with
          | some old => UtxoEntry.merged old e
          | none => e
        else e) := by
      simp only [flushEntry]
      split <;> split <;> rfl
    rw [hutxo]
    by_cases hsp : op.isSpecial = true
    · simp only [hsp, if_true]
      cases hg : AL.get st.utxo op with
      | none => exact allRanges_set st.utxo op e
      | some old =>
        exact ⟨[], by simpa using allRanges_set_merged hg e.ranges (by simp [UtxoEntry.merged])⟩
    · simp only [hsp, if_false]
      exact allRanges_set st.utxo op e
  · simp only [flushEntry]
    split <;> split <;> rfl

theorem flushCache_pool (cfg : Cfg) (cache : Cache) (st : State) :
    (∃ d, (allRanges (flushCache cfg st cache).utxo ++ d).Perm (allRanges st.utxo ++ allRanges cache)) ∧
    (flushCache cfg st cache).height = st.height := by
  induction cache generalizing st with
  | nil => exact ⟨⟨[], by simp [flushCache, allRanges_nil]⟩, rfl⟩
  | cons p cache ih =>
    obtain ⟨op, e⟩ := p
    obtain ⟨⟨d1, h1⟩, e1⟩ := flushEntry_pool cfg st op e
    obtain ⟨⟨d2, h2⟩, e2⟩ := ih (flushEntry cfg st op e)
    simp only [flushCache, List.foldl_cons] at h2 e2 ⊢
    refine ⟨⟨d2 ++ d1, perm_of_counts fun x => ?_⟩, e2.trans e1⟩
    have c1 := h1.count_eq x
    have c2 := h2.count_eq x
    simp only [allRanges_cons, List.count_append] at c1 c2 ⊢
    omega

/-- all transactions of a block in the updater's order (`skip(1).chain(take(1))`) -/
theorem indexTxs_order_pool (cfg : Cfg) (hs : cfg.indexSats = true) (blk : Block) (bc0 bc : BlockCtx) (B : Nat)
    (g : GoodR B (poolR bc0))
    (h : indexTxs cfg blk false (List.drop 1 (enumFrom 0 blk.txs) ++ List.take 1 (enumFrom 0 blk.txs)) bc0 = .ok bc) :
    GoodR B (poolR' bc) ∧ bc.ins = bc0.ins ∧ bc.st.height = bc0.st.height := by
  cases htx : blk.txs with
  | nil =>
    simp only [htx, enumFrom, List.drop_nil, List.take_nil, List.append_nil, indexTxs, Outcome.ok.injEq] at h
    subst h
    refine ⟨GoodR.sub (d := bc0.coinbaseInputs) (perm_of_counts fun x => ?_) g, rfl, rfl⟩
    simp only [poolR, poolR', List.count_append]; omega
  | cons t ts =>
    simp only [htx, enumFrom, List.drop_succ_cons, List.drop_zero, List.take_succ_cons, List.take_zero] at h
    obtain ⟨bc1, h1, h2⟩ := indexTxs_append cfg blk false _ _ bc0 bc h
    obtain ⟨g1, e1, e2⟩ := indexTxs_noncb cfg hs blk _ (enumFrom_succ_ne_zero 0 ts) bc0 bc1 B g h1
    simp only [indexTxs] at h2
    split at h2
    · cases h2
    · cases h2
    · rename_i bc2 h3
      simp only [Outcome.ok.injEq] at h2
      subst h2
      obtain ⟨g2, e3, e4⟩ := indexTx_cb cfg hs blk t bc1 bc2 B g1 h3
      exact ⟨g2, e3.trans e1, e4.trans e2⟩

/-- **one block keeps the table partitioned** (sat index on, inscription index off) -/
theorem indexUtxoEntries_partition (cfg : Cfg) (hs : cfg.indexSats = true) (hi : cfg.indexInscriptions = false)
    (st : State) (blk : Block) (st' : State) (evs : List Event) (hh : blk.height = st.height)
    (inv : GoodR (startingSat st.height) (allRanges st.utxo))
    (h : indexUtxoEntries cfg st blk = .ok (st', evs)) :
    GoodR (startingSat (st.height + 1)) (allRanges st'.utxo) ∧ st'.height = st.height := by
  simp only [indexUtxoEntries, hi, hs, Bool.and_false, Bool.false_eq_true, if_false, true_and] at h
  split at h
  · cases h
  · cases h
  · rename_i bc hbc
    simp only [Outcome.ok.injEq, Prod.mk.injEq] at h
    obtain ⟨h1, _⟩ := h
    -- the pool at the start of the block: the table plus the subsidy range
    have g0 : GoodR (startingSat (st.height + 1))
        (poolR { st := st,
                 coinbaseInputs := if subsidy blk.height > 0 then
                   [(startingSat blk.height, startingSat blk.height + subsidy blk.height)] else [],
                 ins := { reward := subsidy blk.height, lostSats := st.lostSats, homeCount := st.home.length } }) := by
      simp only [poolR, allRanges_nil, List.append_nil, hh]
      rw [startingSat_succ]
      split
      · rename_i hpos
        exact inv.add_range (by omega)
      · rename_i hz
        have : subsidy st.height = 0 := by omega
        rw [this]; simpa using inv
    obtain ⟨g1, hins, hhe⟩ := indexTxs_order_pool cfg hs blk _ bc _ g0 hbc
    have hn : bc.ins.nullEntry = none := by rw [hins]
    have hu : bc.ins.unboundEntry = none := by rw [hins]
    cases hE : bc.lostRanges.isEmpty
    · simp only [hE, Bool.false_eq_true, if_false, hn, hu] at h1
      subst h1
      obtain ⟨⟨d, hd⟩, hht⟩ := flushCache_pool cfg
        (bc.cache ++ ([(OutPoint.null, (Option.getD (none : Option UtxoEntry) UtxoEntry.empty).merged
          { value := 0, ranges := bc.lostRanges, script := [], ins := [] })] ++ []))
        _
      refine ⟨GoodR.sub (d := d) (perm_of_counts fun x => ?_) g1, hht.trans hhe⟩
      have := hd.count_eq x
      simp only [poolR', allRanges_append, allRanges_cons, allRanges_nil, UtxoEntry.merged, UtxoEntry.empty,
        Option.getD_none, List.nil_append, List.append_nil, List.count_append] at this ⊢
      omega
    · simp only [hE, if_true, hn, hu] at h1
      subst h1
      have hl : bc.lostRanges = [] := List.isEmpty_iff.mp hE
      obtain ⟨⟨d, hd⟩, hht⟩ := flushCache_pool cfg (bc.cache ++ ([] ++ [])) _
      refine ⟨GoodR.sub (d := d) (perm_of_counts fun x => ?_) g1, hht.trans hhe⟩
      have := hd.count_eq x
      simp only [poolR', allRanges_append, allRanges_nil, List.append_nil, List.count_append, hl] at this ⊢
      omega

theorem satsPartitioned_iff_goodR (st : State) :
    SatsPartitioned st ↔ GoodR (startingSat st.height) (allRanges st.utxo) :=
  ⟨fun h => ⟨h.wf, h.nodup, h.mined⟩, fun h => ⟨h.1, h.2.1, h.2.2⟩⟩

/-- `applyBlock` keeps the table partitioned (sat index on; inscription and rune indexes off) -/
theorem applyBlock_partition (cfg : Cfg) (hs : cfg.indexSats = true) (hi : cfg.indexInscriptions = false)
    (hr : cfg.indexRunes = false) (st : State) (blk : Block) (st' : State) (evs : List Event)
    (hh : blk.height = st.height) (inv : SatsPartitioned st)
    (h : applyBlock cfg st blk = .ok (st', evs)) :
    SatsPartitioned st' ∧ st'.height = st.height + 1 := by
  simp only [applyBlock, hs, hi, hr, Bool.or_true, if_true, Bool.false_and, Bool.false_eq_true, if_false] at h
  split at h
  · cases h
  · cases h
  · rename_i st1 ev1 h1
    simp only [Outcome.ok.injEq, Prod.mk.injEq] at h
    obtain ⟨h2, _⟩ := h
    obtain ⟨g, hhe⟩ := indexUtxoEntries_partition cfg hs hi st blk st1 ev1 hh
      ((satsPartitioned_iff_goodR st).mp inv) h1
    subst h2
    refine ⟨(satsPartitioned_iff_goodR _).mpr ?_, by simp [hhe]⟩
    simpa [hhe] using g

/-- block `i` of the chain has height `i` -/
def ChainHeights (chain : List Block) : Prop := ∀ i (h : i < chain.length), chain[i].height = i

/-- **every reachable state is partitioned** (sat index on; inscription and rune indexes off;
any chain the indexer accepts, duplicate txids included) -/
theorem reachable_partition (cfg : Cfg) (hs : cfg.indexSats = true) (hi : cfg.indexInscriptions = false)
    (hr : cfg.indexRunes = false) (chain : List Block) (hc : ChainHeights chain) (st : State) (evs : List Event)
    (h : run cfg chain = .ok (st, evs)) : SatsPartitioned st ∧ st.height = chain.length := by
  have := run_induct cfg (fun pre st _ => ChainHeights pre → SatsPartitioned st ∧ st.height = pre.length)
    (fun _ => ⟨satsPartitioned_empty.toSatsPartitioned, rfl⟩)
    (by
      intro pre st evs b st' ev' ih hb hch
      have hpre : ChainHeights pre := by
        intro i hi'
        have := hch i (by simp; omega)
        simpa [List.getElem_append_left hi'] using this
      obtain ⟨inv, hlen⟩ := ih hpre
      have hbh : b.height = st.height := by
        have := hch pre.length (by simp)
        simpa [hlen] using this
      obtain ⟨inv', hh'⟩ := applyBlock_partition cfg hs hi hr st b st' ev' hbh inv hb
      exact ⟨inv', by simp [hh', hlen]⟩)
    chain st evs h
  exact this hc

end Ord.Index
