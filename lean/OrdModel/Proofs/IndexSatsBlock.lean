import OrdModel.Proofs.IndexSatsPool
import OrdModel.Index.Run
/-
The partition invariant through the real block model (`indexTx`, `indexUtxoEntries`,
`applyBlock`).  The *pool* of a block in progress is everything that holds sats: table, cache,
coinbase inputs, lost ranges.  Every step keeps the pool `GoodR` (well-formed, distinct, below
the bound); displaced entries (duplicate txids) only ever drop ranges from it.
-/
namespace Ord.Index
open Outcome

def poolR (bc : BlockCtx) : Ranges :=
  allRanges bc.st.utxo ++ allRanges bc.cache ++ bc.coinbaseInputs ++ bc.lostRanges

theorem perm_of_counts {a b : Ranges} (h : ∀ x, a.count x = b.count x) : a.Perm b :=
  List.perm_iff_count.mpr h

def entryRanges (l : List (TxIn × UtxoEntry)) : Ranges := l.flatMap (fun p => p.2.ranges)

theorem entryRanges_append (a b : List (TxIn × UtxoEntry)) :
    entryRanges (a ++ b) = entryRanges a ++ entryRanges b := by simp [entryRanges]

/-- taking the spent entries moves their ranges from table/cache to the input list -/
theorem takeInputEntries_pool (cfg : Cfg) (ins : List TxIn) (bc : BlockCtx) (acc : List (TxIn × UtxoEntry))
    (bc' : BlockCtx) (acc' : List (TxIn × UtxoEntry))
    (h : takeInputEntries cfg ins bc acc = .ok (bc', acc')) :
    (allRanges bc'.st.utxo ++ allRanges bc'.cache ++ entryRanges acc').Perm
      (allRanges bc.st.utxo ++ allRanges bc.cache ++ entryRanges acc) ∧
    bc'.coinbaseInputs = bc.coinbaseInputs ∧ bc'.lostRanges = bc.lostRanges ∧
    bc'.st.height = bc.st.height ∧ bc'.ins = bc.ins := by
  induction ins generalizing bc acc with
  | nil =>
    simp only [takeInputEntries, Outcome.ok.injEq, Prod.mk.injEq] at h
    obtain ⟨rfl, rfl⟩ := h
    exact ⟨List.Perm.refl _, rfl, rfl, rfl, rfl⟩
  | cons i rest ih =>
    simp only [takeInputEntries] at h
    split at h
    · -- cache hit
      rename_i e hget
      obtain ⟨hp, h1, h2, h3, h4⟩ := ih _ _ h
      refine ⟨hp.trans ?_, h1, h2, h3, h4⟩
      have hc := (allRanges_erase hget)
      apply perm_of_counts
      intro x
      have := hc.count_eq x
      simp only [entryRanges, List.flatMap_append, List.flatMap_cons, List.flatMap_nil, List.append_nil,
        List.count_append] at this ⊢
      omega
    · split at h
      · -- table hit
        rename_i e hget
        have hc := (allRanges_erase hget)
        split at h
        · split at h
          · obtain ⟨hp, h1, h2, h3, h4⟩ := ih _ _ h
            refine ⟨hp.trans ?_, h1, h2, h3, h4⟩
            apply perm_of_counts
            intro x
            have := hc.count_eq x
            simp only [entryRanges, List.flatMap_append, List.flatMap_cons, List.flatMap_nil, List.append_nil,
              List.count_append] at this ⊢
            omega
          · cases h
        · obtain ⟨hp, h1, h2, h3, h4⟩ := ih _ _ h
          refine ⟨hp.trans ?_, h1, h2, h3, h4⟩
          apply perm_of_counts
          intro x
          have := hc.count_eq x
          simp only [entryRanges, List.flatMap_append, List.flatMap_cons, List.flatMap_nil, List.append_nil,
            List.count_append] at this ⊢
          omega
      · cases h

/-- writing a transaction's output entries into the cache adds their ranges and drops whatever
they displace -/
theorem cache_fold_pool (txid : Txid) (outs : List UtxoEntry) (n : Nat) (cache : Cache) :
    ∃ d, (allRanges ((enumFrom n outs).foldl (fun c (p : Nat × UtxoEntry) => AL.set c ⟨txid, p.1⟩ p.2) cache) ++ d).Perm
      (allRanges cache ++ outs.flatMap (·.ranges)) := by
  induction outs generalizing n cache with
  | nil => exact ⟨[], by simp [enumFrom]⟩
  | cons o outs ih =>
    simp only [enumFrom, List.foldl_cons, List.flatMap_cons]
    obtain ⟨d1, h1⟩ := ih (n + 1) (AL.set cache ⟨txid, n⟩ o)
    obtain ⟨d2, h2⟩ := allRanges_set cache ⟨txid, n⟩ o
    refine ⟨d1 ++ d2, ?_⟩
    apply perm_of_counts
    intro x
    have e1 := h1.count_eq x
    have e2 := h2.count_eq x
    simp only [List.count_append] at e1 e2 ⊢
    omega

end Ord.Index
