import OrdModel.Codec.UtxoEntry
import OrdModel.Proofs.Entry
/-! Helper lemmas for C35: the output entry builder / parser, inscriptions lists, merged, rune
balances. -/
namespace Ord.Utxo
open Ord.Entry Ord.Varint

theorem decode_encode_append (n : Nat) (hn : n < 2 ^ 128) (rest : List UInt8) :
    Varint.decode (Varint.encode n ++ rest) = .ok (n, (Varint.encode n).length) := by
  have := decodeAux_encode n 0 0 rest (by omega) (by simpa using hn)
  simpa [Varint.decode] using this

theorem encode_length_pos (n : Nat) : 0 < (Varint.encode n).length := by
  have := encode_ne_nil n
  cases h : Varint.encode n with
  | nil => exact absurd h this
  | cons _ _ => simp

/-! ### slices -/

theorem slice_mid (pre mid post : List UInt8) :
    slice (pre ++ (mid ++ post)) pre.length (pre.length + mid.length) = .ok mid := by
  unfold slice
  have h1 : ¬ (pre.length + mid.length < pre.length) := by omega
  have h2 : ¬ ((pre ++ (mid ++ post)).length < pre.length + mid.length) := by
    simp only [List.length_append]; omega
  simp only [h1, h2, if_false]
  congr 1
  rw [List.drop_left, Nat.add_sub_cancel_left, List.take_left]

theorem slice_tail (pre post : List UInt8) :
    slice (pre ++ post) pre.length (pre ++ post).length = .ok post := by
  have := slice_mid pre post []
  simpa using this

/-! ### the builder in closed form -/

def satsPart (f : Flags) (e : Entry) : List UInt8 :=
  if f.sats then Varint.encode (e.ranges.length / 11) ++ e.ranges else Varint.encode e.value

def scriptPart (f : Flags) (e : Entry) : List UInt8 :=
  if f.addresses then Varint.encode e.script.length ++ e.script else []

def insPart (f : Flags) (e : Entry) : List UInt8 :=
  if f.inscriptions then encodeInscriptions e.inscriptions else []

theorem layout_eq (f : Flags) (e : Entry) :
    layout f e = satsPart f e ++ (scriptPart f e ++ insPart f e) := by
  simp [layout, satsPart, scriptPart, insPart, List.append_assoc]

theorem encodeInscriptions_append (a b : List (Nat × Nat)) :
    encodeInscriptions (a ++ b) = encodeInscriptions a ++ encodeInscriptions b := by
  simp [encodeInscriptions, List.flatMap_append]

theorem encodeInscriptions_cons (i : Nat × Nat) (l : List (Nat × Nat)) :
    encodeInscriptions (i :: l) = encodeInscription i ++ encodeInscriptions l := by
  simp [encodeInscriptions, List.flatMap_cons]

/-- pushing inscriptions one by one onto a valid buffer -/
theorem applyOps_inscriptions (f : Flags) (hf : f.inscriptions = true) (l : List (Nat × Nat))
    (vec : List UInt8) :
    applyOps f ⟨vec, .valid⟩ (l.map fun i => Op.inscription i.1 i.2) =
      .ok ⟨vec ++ encodeInscriptions l, .valid⟩ := by
  induction l generalizing vec with
  | nil => simp [applyOps, encodeInscriptions]
  | cons i l ih =>
    simp only [List.map_cons, applyOps, applyOp, pushInscription, hf, advance]
    simp only [Bool.true_eq_false, if_false, ne_eq, not_true_eq_false]
    have : (if State.valid = State.needScriptPubkey ∧ f.addresses = false then State.valid else State.valid) = State.valid := by
      split <;> rfl
    rw [this, ih, encodeInscriptions_cons, List.append_assoc]

theorem applyOps_append (f : Flags) (b : Buf) (xs ys : List Op) :
    applyOps f b (xs ++ ys) =
      match applyOps f b xs with
      | .ok b' => applyOps f b' ys
      | .err e => .err e
      | .panic s => .panic s := by
  induction xs generalizing b with
  | nil => simp [applyOps]
  | cons x xs ih =>
    simp only [List.cons_append, applyOps]
    cases applyOp f b x with
    | ok b' => exact ih b'
    | err e => rfl
    | panic s => rfl

/-- `build` = the closed-form layout, for every flag combination -/
theorem build_eq_layout (f : Flags) (e : Entry) (hr : f.sats = true → e.ranges.length % 11 = 0) :
    build f e = .ok (layout f e) := by
  obtain ⟨s, a, i⟩ := f
  have hdiv : s = true → e.ranges.length / 11 * 11 = e.ranges.length := by
    intro h; have := hr h; omega
  unfold build runOps buildOps layout
  cases s <;> cases a <;> cases i <;>
    simp [applyOps, applyOp, pushValue, pushSatRanges, pushScriptPubkey, advance, Buf.new, asRef,
      applyOps_inscriptions, hdiv]

/-! ### parse ∘ layout -/

def view (f : Flags) (e : Entry) : Parsed :=
  { sats := if f.sats then .ranges e.ranges else .value e.value
    script := if f.addresses then some e.script else none
    inscriptions := if f.inscriptions then some (encodeInscriptions e.inscriptions) else none }

theorem satsPart_length_pos (f : Flags) (e : Entry) : 0 < (satsPart f e).length := by
  unfold satsPart
  split
  · simp only [List.length_append]; have := encode_length_pos (e.ranges.length / 11); omega
  · exact encode_length_pos _

theorem parseSats_layout (f : Flags) (e : Entry) (rest : List UInt8)
    (hv : f.sats = false → e.value < 2 ^ 64) (hr : f.sats = true → e.ranges.length % 11 = 0)
    (hlen : (satsPart f e ++ rest).length < 2 ^ 64) :
    parseSats f (satsPart f e ++ rest) =
      .ok (if f.sats then .ranges e.ranges else .value e.value, (satsPart f e).length) := by
  unfold parseSats satsPart
  cases hs : f.sats with
  | false =>
    simp only [Bool.false_eq_true, if_false]
    have hv := hv hs
    rw [decode_encode_append _ (by omega)]
    simp [Nat.not_le.mpr hv]
  | true =>
    simp only [if_true]
    have hr' := hr hs
    have hmul : e.ranges.length / 11 * 11 = e.ranges.length := by omega
    simp only [satsPart, hs, if_true, List.length_append] at hlen
    have hn : e.ranges.length / 11 < 2 ^ 64 := by omega
    rw [List.append_assoc, decode_encode_append _ (by omega)]
    simp only [usizeLimit, hmul]
    have h1 : ¬ (2 ^ 64 ≤ e.ranges.length / 11) := by omega
    have h2 : ¬ (2 ^ 64 ≤ e.ranges.length) := by omega
    have h3 : ¬ (2 ^ 64 ≤ (Varint.encode (e.ranges.length / 11)).length + e.ranges.length) := by omega
    simp only [h1, h2, h3, if_false]
    rw [slice_mid]
    simp

theorem parseScript_layout (f : Flags) (e : Entry) (pre rest : List UInt8)
    (hlen : (pre ++ (scriptPart f e ++ rest)).length < 2 ^ 64) :
    parseScript f (pre ++ (scriptPart f e ++ rest)) pre.length =
      .ok (if f.addresses then some e.script else none, pre.length + (scriptPart f e).length) := by
  unfold parseScript scriptPart
  cases ha : f.addresses with
  | false => simp
  | true =>
    simp only [if_true]
    simp only [scriptPart, ha, if_true, List.length_append] at hlen
    have h0 : ¬ ((pre ++ (Varint.encode e.script.length ++ e.script ++ rest)).length < pre.length) := by
      simp only [List.length_append]; omega
    simp only [h0, if_false, List.drop_left]
    rw [List.append_assoc, decode_encode_append _ (by omega)]
    simp only [usizeLimit]
    have h1 : ¬ (2 ^ 64 ≤ e.script.length) := by omega
    have h2 : ¬ (2 ^ 64 ≤ pre.length + (Varint.encode e.script.length).length + e.script.length) := by omega
    simp only [h1, h2, if_false]
    have := slice_mid (pre ++ Varint.encode e.script.length) e.script rest
    simp only [List.length_append, List.append_assoc] at this
    rw [this]
    simp [Nat.add_assoc]

theorem parse_layout (f : Flags) (e : Entry)
    (hv : f.sats = false → e.value < 2 ^ 64) (hr : f.sats = true → e.ranges.length % 11 = 0)
    (hlen : (layout f e).length < 2 ^ 64) :
    parse f (layout f e) = .ok (view f e) := by
  rw [layout_eq] at hlen ⊢
  unfold parse
  rw [parseSats_layout f e _ hv hr hlen]
  simp only
  rw [parseScript_layout f e _ _ hlen]
  simp only
  unfold view
  cases hi : f.inscriptions with
  | false => simp
  | true =>
    simp only [if_true]
    have := slice_tail (satsPart f e ++ scriptPart f e) (insPart f e)
    simp only [List.length_append, List.append_assoc] at this
    simp only [List.length_append]
    rw [this]
    simp [insPart, hi]

/-! ### the inscription list -/

theorem parseInscriptionList_encode (l : List (Nat × Nat))
    (h : ∀ i ∈ l, i.1 < 2 ^ 32 ∧ i.2 < 2 ^ 64) :
    parseInscriptionList (encodeInscriptions l) = .ok l := by
  induction l with
  | nil => rw [parseInscriptionList]; simp [encodeInscriptions]
  | cons i l ih =>
    have hi := h i (by simp)
    have ih' := ih (fun j hj => h j (by simp [hj]))
    rw [parseInscriptionList, encodeInscriptions_cons]
    have hne : ¬ ((encodeInscription i ++ encodeInscriptions l).length = 0) := by
      simp [encodeInscription]
    have h4 : ¬ ((encodeInscription i ++ encodeInscriptions l).length < 4) := by
      simp [encodeInscription]
    simp only [hne, h4, dite_false, if_false]
    have hdrop : (encodeInscription i ++ encodeInscriptions l).drop 4 =
        Varint.encode i.2 ++ encodeInscriptions l := by
      unfold encodeInscription
      rw [List.append_assoc, List.drop_left' (leBytes_length 4 i.1)]
    have htake : (encodeInscription i ++ encodeInscriptions l).take 4 = leBytes 4 i.1 := by
      unfold encodeInscription
      rw [List.append_assoc, List.take_left' (leBytes_length 4 i.1)]
    rw [hdrop, decode_encode_append _ (by omega)]
    simp only [Nat.not_le.mpr hi.2, if_false]
    have hdrop2 : (encodeInscription i ++ encodeInscriptions l).drop (4 + (Varint.encode i.2).length) =
        encodeInscriptions l := by
      have : (encodeInscription i).length = 4 + (Varint.encode i.2).length := by
        simp [encodeInscription]
      rw [← this, List.drop_left]
    rw [hdrop2, ih', htake, leVal_leBytes_of_lt _ _ (by
      have : (256 : Nat) ^ 4 = 2 ^ 32 := by decide
      omega)]


/-! ### typed sat ranges, total value -/

theorem chunks11_append (b bs : List UInt8) (h : b.length = 11) :
    chunks11 (b ++ bs) = b :: chunks11 bs := by
  rw [chunks11]
  have : ¬ ((b ++ bs).length < 11) := by simp only [List.length_append]; omega
  simp only [this, dite_false]
  rw [List.take_left' h, List.drop_left' h]

theorem chunks11_nil : chunks11 [] = [] := by
  rw [chunks11]; simp

theorem encodeRanges_ok (rs : List (Nat × Nat)) (h : ∀ r ∈ rs, satRangeGuard r) :
    ∃ bs, encodeRanges rs = .ok bs ∧ bs.length = 11 * rs.length ∧ decodeRanges bs = rs := by
  induction rs with
  | nil => exact ⟨[], rfl, rfl, by simp [decodeRanges, chunks11_nil]⟩
  | cons r rs ih =>
    obtain ⟨bs, h1, h2, h3⟩ := ih (fun x hx => h x (by simp [hx]))
    obtain ⟨b, g1, g2, g3⟩ := satRangeStore_ok r (h r (by simp))
    refine ⟨b ++ bs, ?_, ?_, ?_⟩
    · simp [encodeRanges, g1, h1]
    · simp only [List.length_append, List.length_cons, g2, h2]; omega
    · unfold decodeRanges at h3 ⊢
      rw [chunks11_append b bs g2, List.map_cons, g3, h3]

def sumLens : List (Nat × Nat) → Nat
  | [] => 0
  | r :: rs => (r.2 - r.1) + sumLens rs

theorem sumDeltas_map (cs : List (List UInt8)) (acc : Nat)
    (h : acc + sumLens (cs.map satRangeLoad) < 2 ^ 64) :
    sumDeltas acc cs = .ok (acc + sumLens (cs.map satRangeLoad)) := by
  induction cs generalizing acc with
  | nil => simp [sumDeltas, sumLens]
  | cons c cs ih =>
    simp only [List.map_cons, sumLens] at h
    simp only [sumDeltas]
    have : ¬ (2 ^ 64 ≤ acc + ((satRangeLoad c).2 - (satRangeLoad c).1)) := by omega
    simp only [this, if_false]
    rw [ih _ (by omega)]
    simp only [List.map_cons, sumLens]
    congr 1; omega

theorem sumDeltas_overflow (cs : List (List UInt8)) (acc : Nat)
    (h : 2 ^ 64 ≤ acc + sumLens (cs.map satRangeLoad)) (hacc : acc < 2 ^ 64) :
    sumDeltas acc cs = .panic "add-overflow" := by
  induction cs generalizing acc with
  | nil => simp [sumLens] at h; omega
  | cons c cs ih =>
    simp only [List.map_cons, sumLens] at h
    simp only [sumDeltas]
    split
    · rfl
    · exact ih _ (by omega) (by omega)

/-! ### rune balances -/

def balanceOk (x : (Nat × Nat) × Nat) : Prop := x.1.1 < 2 ^ 64 ∧ x.1.2 < 2 ^ 32 ∧ x.2 < 2 ^ 128

theorem decodeBalance_encode (x : (Nat × Nat) × Nat) (h : balanceOk x) (rest : List UInt8) :
    decodeBalance (encodeBalance x ++ rest) = .ok (x, (encodeBalance x).length) := by
  obtain ⟨h1, h2, h3⟩ := h
  obtain ⟨⟨b, t⟩, a⟩ := x
  simp only at h1 h2 h3
  unfold decodeBalance encodeBalance
  simp only [List.append_assoc]
  rw [decode_encode_append b (by omega)]
  simp only [List.drop_left]
  rw [decode_encode_append t (by omega)]
  simp only [Nat.not_le.mpr h1, Nat.not_le.mpr h2, if_false]
  have : (Varint.encode b ++ (Varint.encode t ++ (Varint.encode a ++ rest))).drop
      ((Varint.encode b).length + (Varint.encode t).length) = Varint.encode a ++ rest := by
    rw [← List.drop_drop, List.drop_left, List.drop_left]
  rw [this, decode_encode_append a h3]
  simp [Nat.add_assoc]

theorem encodeBalance_length_pos (x : (Nat × Nat) × Nat) : 0 < (encodeBalance x).length := by
  unfold encodeBalance
  have := encode_length_pos x.1.1
  simp only [List.length_append]; omega

theorem decodeBalances_encode (l : List ((Nat × Nat) × Nat)) (h : ∀ x ∈ l, balanceOk x) :
    decodeBalances (encodeBalances l) = .ok l := by
  induction l with
  | nil => rw [decodeBalances]; simp [encodeBalances]
  | cons x l ih =>
    have hx := h x (by simp)
    have ih' := ih (fun y hy => h y (by simp [hy]))
    have hcons : encodeBalances (x :: l) = encodeBalance x ++ encodeBalances l := by
      simp [encodeBalances, List.flatMap_cons]
    rw [decodeBalances, hcons]
    have hne : ¬ ((encodeBalance x ++ encodeBalances l).length = 0) := by
      have := encodeBalance_length_pos x
      simp only [List.length_append]; omega
    simp only [hne, dite_false]
    split
    · rename_i e he; rw [decodeBalance_encode x hx] at he; cases he
    · rename_i s he; rw [decodeBalance_encode x hx] at he; cases he
    · rename_i y len he
      rw [decodeBalance_encode x hx] at he
      injection he with he; injection he with h1 h2
      subst h1; subst h2
      rw [List.drop_left, ih']

/-! ### merged, and the entries of the special outpoints -/

theorem bind_ok {α β : Type} (a : α) (g : α → Outcome β) : (Outcome.ok a >>= g) = g a := rfl
theorem pure_eq {α : Type} (a : α) : (pure a : Outcome α) = .ok a := rfl

/-- entries written for the lost-sats and unbound pseudo-outputs -/
def Special (f : Flags) (e : Entry) : Prop :=
  e.script = [] ∧ (f.sats = false → e.value = 0) ∧ (f.sats = true → e.ranges.length % 11 = 0)

def mergeEntries (a b : Entry) : Entry :=
  ⟨0, a.ranges ++ b.ranges, [], a.inscriptions ++ b.inscriptions⟩

theorem merged_layout (f : Flags) (a b : Entry) (ha : Special f a) (hb : Special f b)
    (hla : (layout f a).length < 2 ^ 64) (hlb : (layout f b).length < 2 ^ 64) :
    merged f (layout f a) (layout f b) = .ok (layout f (mergeEntries a b)) := by
  obtain ⟨sa, va, ra⟩ := ha
  obtain ⟨sb, vb, rb⟩ := hb
  have pa := parse_layout f a (fun h => by rw [va h]; decide) ra hla
  have pb := parse_layout f b (fun h => by rw [vb h]; decide) rb hlb
  unfold merged
  rw [pa, pb]
  simp only [bind_ok]
  obtain ⟨s, ad, i⟩ := f
  cases s
  · have va' := va rfl
    have vb' := vb rfl
    cases ad <;> cases i <;>
      simp [view, totalValue, scriptPubkey, inscriptionsRaw, assertThat, bind_ok, pure_eq,
        pushValue, pushScriptPubkey, pushInscriptions, advance, Buf.new, asRef, layout, mergeEntries,
        va', vb', sa, sb, encodeInscriptions_append]
  · have ra' := ra rfl
    have rb' := rb rfl
    have hsum : (a.ranges.length + b.ranges.length) / 11 * 11 = a.ranges.length + b.ranges.length := by omega
    cases ad <;> cases i <;>
      simp [view, scriptPubkey, inscriptionsRaw, satRanges, assertThat, bind_ok, pure_eq,
        pushSatRanges, pushScriptPubkey, pushInscriptions, advance, Buf.new, asRef, layout, mergeEntries,
        sa, sb, encodeInscriptions_append, hsum]

theorem special_merge (f : Flags) (a b : Entry) (ha : Special f a) (hb : Special f b) :
    Special f (mergeEntries a b) := by
  obtain ⟨_, _, ra⟩ := ha
  obtain ⟨_, _, rb⟩ := hb
  refine ⟨rfl, fun _ => rfl, fun h => ?_⟩
  have := ra h; have := rb h
  simp only [mergeEntries, List.length_append]; omega

theorem empty_eq_layout (f : Flags) : Utxo.empty f = .ok (layout f ⟨0, [], [], []⟩) := by
  obtain ⟨s, a, i⟩ := f
  cases s <;> cases a <;> cases i <;>
    simp [Utxo.empty, emptyBuf, pushSatRanges, pushValue, pushScriptPubkey, advance, Buf.new, asRef,
      layout, encodeInscriptions]

theorem layout_push_inscription (f : Flags) (e : Entry) (i : Nat × Nat) (hf : f.inscriptions = true) :
    layout f { e with inscriptions := e.inscriptions ++ [i] } = layout f e ++ encodeInscription i := by
  simp [layout, hf, encodeInscriptions, List.append_assoc]

theorem emptyBuf_eq (f : Flags) : emptyBuf f = .ok ⟨layout f ⟨0, [], [], []⟩, .valid⟩ := by
  obtain ⟨s, a, i⟩ := f
  cases s <;> cases a <;> cases i <;>
    simp [emptyBuf, pushSatRanges, pushValue, pushScriptPubkey, advance, Buf.new, layout, encodeInscriptions]

theorem pushInscription_layout (f : Flags) (e : Entry) (i : Nat × Nat) (hf : f.inscriptions = true) :
    pushInscription f i ⟨layout f e, .valid⟩ =
      .ok ⟨layout f { e with inscriptions := e.inscriptions ++ [i] }, .valid⟩ := by
  rw [layout_push_inscription f e i hf]
  simp [pushInscription, hf, advance]

/-! ### every buffer the builder accepts -/

set_option linter.unusedSimpArgs false in
/-- `parse` of sats part ++ script part ++ arbitrary trailing bytes -/
theorem parse_parts (f : Flags) (e : Entry) (raw : List UInt8)
    (hv : f.sats = false → e.value < 2 ^ 64) (hr : f.sats = true → e.ranges.length % 11 = 0)
    (hlen : (satsPart f e ++ (scriptPart f e ++ raw)).length < 2 ^ 64) :
    parse f (satsPart f e ++ (scriptPart f e ++ raw)) =
      .ok ⟨if f.sats then .ranges e.ranges else .value e.value,
           if f.addresses then some e.script else none,
           if f.inscriptions then some raw else none⟩ := by
  unfold parse
  rw [parseSats_layout f e _ hv hr hlen]
  simp only
  rw [parseScript_layout f e _ _ hlen]
  simp only
  cases hi : f.inscriptions with
  | false => simp
  | true =>
    simp only [if_true]
    have := slice_tail (satsPart f e ++ scriptPart f e) raw
    simp only [List.length_append, List.append_assoc] at this
    simp only [List.length_append]
    rw [this]

theorem applyOp_valid (f : Flags) (op : Op) (vec : List UInt8) (b : Buf)
    (h : applyOp f ⟨vec, .valid⟩ op = .ok b) :
    ∃ raw, b = ⟨vec ++ raw, .valid⟩ ∧ (f.inscriptions = false → raw = []) := by
  cases op with
  | value v =>
    cases hs : f.sats <;> simp [applyOp, pushValue, advance, hs] at h
  | satRanges r =>
    cases hs : f.sats <;> simp [applyOp, pushSatRanges, advance, hs] at h
    split at h <;> simp at h
  | scriptPubkey s =>
    cases ha : f.addresses <;> simp [applyOp, pushScriptPubkey, advance, ha] at h
  | inscriptions r =>
    cases hf : f.inscriptions <;> simp [applyOp, pushInscriptions, advance, hf] at h
    exact ⟨r, h.symm, fun hc => by cases hc⟩
  | inscription s o =>
    cases hf : f.inscriptions <;> simp [applyOp, pushInscription, advance, hf] at h
    exact ⟨encodeInscription (s, o), h.symm, fun hc => by cases hc⟩

/-- from the `Valid` state only inscription pushes are accepted, and only with the flag -/
theorem applyOps_valid (f : Flags) (ops : List Op) (vec : List UInt8) (b : Buf)
    (h : applyOps f ⟨vec, .valid⟩ ops = .ok b) :
    ∃ raw, b = ⟨vec ++ raw, .valid⟩ ∧ (f.inscriptions = false → raw = []) := by
  induction ops generalizing vec with
  | nil =>
    simp only [applyOps] at h
    injection h with h
    exact ⟨[], by simp [← h], fun _ => rfl⟩
  | cons op ops ih =>
    simp only [applyOps] at h
    cases hop : applyOp f ⟨vec, .valid⟩ op with
    | err e => rw [hop] at h; cases h
    | panic s => rw [hop] at h; cases h
    | ok b' =>
      rw [hop] at h
      obtain ⟨raw1, h1, h2⟩ := applyOp_valid f op vec b' hop
      subst h1
      obtain ⟨raw2, h3, h4⟩ := ih _ h
      exact ⟨raw1 ++ raw2, by rw [h3, List.append_assoc], fun hc => by rw [h2 hc, h4 hc]; rfl⟩


def afterSats (f : Flags) : State := if f.addresses then .needScriptPubkey else .valid

set_option linter.unusedSimpArgs false in
theorem applyOp_needSats (f : Flags) (op : Op) (b : Buf)
    (h : applyOp f Buf.new op = .ok b) :
    ∃ e : Entry, b = ⟨satsPart f e, afterSats f⟩ ∧ (f.sats = true → e.ranges.length % 11 = 0) ∧
      (f.sats = false → op = .value e.value) := by
  cases op with
  | value v =>
    cases hs : f.sats <;> simp [applyOp, pushValue, advance, hs, Buf.new] at h
    refine ⟨⟨v, [], [], []⟩, ?_, ?_, ?_⟩
    · rw [← h]; cases ha : f.addresses <;> simp [satsPart, hs, afterSats, ha]
    · intro hc; cases hc
    · intro _; rfl
  | satRanges r =>
    by_cases hl : r.length / 11 * 11 = r.length
    · cases hs : f.sats <;> simp [applyOp, pushSatRanges, advance, hs, Buf.new, hl] at h
      refine ⟨⟨0, r, [], []⟩, ?_, ?_, ?_⟩
      · rw [← h]; cases ha : f.addresses <;> simp [satsPart, hs, afterSats, ha]
      · intro _; simp only; omega
      · intro hc; cases hc
    · cases hs : f.sats <;> simp [applyOp, pushSatRanges, advance, hs, Buf.new, hl] at h
  | scriptPubkey s =>
    cases ha : f.addresses <;> simp [applyOp, pushScriptPubkey, advance, ha, Buf.new] at h
  | inscriptions r =>
    cases hf : f.inscriptions <;> simp [applyOp, pushInscriptions, advance, hf, Buf.new] at h
  | inscription s o =>
    cases hf : f.inscriptions <;> simp [applyOp, pushInscription, advance, hf, Buf.new] at h

theorem applyOp_needScript (f : Flags) (op : Op) (vec : List UInt8) (b : Buf)
    (h : applyOp f ⟨vec, .needScriptPubkey⟩ op = .ok b) :
    ∃ s, f.addresses = true ∧ b = ⟨vec ++ (Varint.encode s.length ++ s), .valid⟩ := by
  cases op with
  | value v =>
    cases hs : f.sats <;> simp [applyOp, pushValue, advance, hs] at h
  | satRanges r =>
    cases hs : f.sats <;> simp [applyOp, pushSatRanges, advance, hs] at h
    split at h <;> simp at h
  | scriptPubkey s =>
    cases ha : f.addresses <;> simp [applyOp, pushScriptPubkey, advance, ha] at h
    exact ⟨s, rfl, by rw [← h]⟩
  | inscriptions r =>
    cases hf : f.inscriptions <;> simp [applyOp, pushInscriptions, advance, hf] at h
  | inscription s o =>
    cases hf : f.inscriptions <;> simp [applyOp, pushInscription, advance, hf] at h

/-- every buffer the builder hands out (any accepted push sequence) has the three-part shape -/
theorem runOps_shape (f : Flags) (ops : List Op) (bs : List UInt8) (h : runOps f ops = .ok bs) :
    ∃ (e : Entry) (raw : List UInt8), bs = satsPart f e ++ (scriptPart f e ++ raw) ∧
      (f.sats = true → e.ranges.length % 11 = 0) ∧ (f.inscriptions = false → raw = []) ∧
      (f.sats = false → Op.value e.value ∈ ops) := by
  unfold runOps at h
  cases ops with
  | nil => simp [applyOps, asRef, Buf.new] at h
  | cons op rest =>
    simp only [applyOps] at h
    cases hop : applyOp f Buf.new op with
    | err e => rw [hop] at h; cases h
    | panic s => rw [hop] at h; cases h
    | ok b1 =>
      rw [hop] at h
      obtain ⟨e, hb1, hr, hval⟩ := applyOp_needSats f op b1 hop
      subst hb1
      cases ha : f.addresses with
      | false =>
        simp only [afterSats, ha] at h
        cases hrest : applyOps f ⟨satsPart f e, .valid⟩ rest with
        | err e => simp [hrest] at h
        | panic s => simp [hrest] at h
        | ok b2 =>
          simp only [Bool.false_eq_true, if_false] at h
          rw [hrest] at h
          obtain ⟨raw, h1, h2⟩ := applyOps_valid f rest _ b2 hrest
          subst h1
          simp only [asRef, ne_eq, not_true_eq_false, if_false] at h
          injection h with h
          refine ⟨e, raw, ?_, hr, h2, fun hs => by rw [hval hs]; simp⟩
          simp [← h, scriptPart, ha]
      | true =>
        simp only [afterSats, ha, if_true] at h
        cases rest with
        | nil => simp [applyOps, asRef] at h
        | cons op2 rest2 =>
          simp only [applyOps] at h
          cases hop2 : applyOp f ⟨satsPart f e, .needScriptPubkey⟩ op2 with
          | err e => rw [hop2] at h; cases h
          | panic s => rw [hop2] at h; cases h
          | ok b2 =>
            simp only [hop2] at h
            obtain ⟨s, _, hb2⟩ := applyOp_needScript f op2 _ b2 hop2
            subst hb2
            cases hrest : applyOps f ⟨satsPart f e ++ (Varint.encode s.length ++ s), .valid⟩ rest2 with
            | err e => rw [hrest] at h; cases h
            | panic s => rw [hrest] at h; cases h
            | ok b3 =>
              rw [hrest] at h
              obtain ⟨raw, h1, h2⟩ := applyOps_valid f rest2 _ b3 hrest
              subst h1
              simp only [asRef, ne_eq, not_true_eq_false, if_false] at h
              injection h with h
              refine ⟨{ e with script := s }, raw, ?_, hr, h2, fun hs => by rw [hval hs]; simp⟩
              simp [← h, scriptPart, satsPart, ha, List.append_assoc]

end Ord.Utxo
