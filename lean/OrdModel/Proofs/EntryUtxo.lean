import OrdModel.Codec.UtxoEntry
import OrdModel.Proofs.Entry
/-! Helper lemmas for C35: the output entry builder / parser, inscriptions lists, merged, rune
balances. -/
namespace Ord.Utxo
open Ord.Entry Ord.Varint

theorem decode_encode_append (n : Nat) (hn : n < 2 ^ 128) (rest : List UInt8) :
    Varint.decode (Varint.encode n ++ rest) = .ok (n, (Varint.encode n).length) := by
  have := decodeAux_encode n 0 0 rest (by omega) (by simpa using hn)
  simpa [Varint.decode] using this

theorem encode_length_pos (n : Nat) : 0 < (Varint.encode n).length := by
  have := encode_ne_nil n
  cases h : Varint.encode n with
  | nil => exact absurd h this
  | cons _ _ => simp

/-! ### slices -/

theorem slice_mid (pre mid post : List UInt8) :
    slice (pre ++ (mid ++ post)) pre.length (pre.length + mid.length) = .ok mid := by
  unfold slice
  have h1 : ¬ (pre.length + mid.length < pre.length) := by omega
  have h2 : ¬ ((pre ++ (mid ++ post)).length < pre.length + mid.length) := by
    simp only [List.length_append]; omega
  simp only [h1, h2, if_false]
  congr 1
  rw [List.drop_left, Nat.add_sub_cancel_left, List.take_left]

theorem slice_tail (pre post : List UInt8) :
    slice (pre ++ post) pre.length (pre ++ post).length = .ok post := by
  have := slice_mid pre post []
  simpa using this

/-! ### the builder in closed form -/

def satsPart (f : Flags) (e : Entry) : List UInt8 :=
  if f.sats then Varint.encode (e.ranges.length / 11) ++ e.ranges else Varint.encode e.value

def scriptPart (f : Flags) (e : Entry) : List UInt8 :=
  if f.addresses then Varint.encode e.script.length ++ e.script else []

def insPart (f : Flags) (e : Entry) : List UInt8 :=
  if f.inscriptions then encodeInscriptions e.inscriptions else []

theorem layout_eq (f : Flags) (e : Entry) :
    layout f e = satsPart f e ++ (scriptPart f e ++ insPart f e) := by
  simp [layout, satsPart, scriptPart, insPart, List.append_assoc]

theorem encodeInscriptions_append (a b : List (Nat × Nat)) :
    encodeInscriptions (a ++ b) = encodeInscriptions a ++ encodeInscriptions b := by
  simp [encodeInscriptions, List.flatMap_append]

theorem encodeInscriptions_cons (i : Nat × Nat) (l : List (Nat × Nat)) :
    encodeInscriptions (i :: l) = encodeInscription i ++ encodeInscriptions l := by
  simp [encodeInscriptions, List.flatMap_cons]

/-- pushing inscriptions one by one onto a valid buffer -/
theorem applyOps_inscriptions (f : Flags) (hf : f.inscriptions = true) (l : List (Nat × Nat))
    (vec : List UInt8) :
    applyOps f ⟨vec, .valid⟩ (l.map fun i => Op.inscription i.1 i.2) =
      .ok ⟨vec ++ encodeInscriptions l, .valid⟩ := by
  induction l generalizing vec with
  | nil => simp [applyOps, encodeInscriptions]
  | cons i l ih =>
    simp only [List.map_cons, applyOps, applyOp, pushInscription, hf, advance]
    simp only [Bool.true_eq_false, if_false, ne_eq, not_true_eq_false]
    have : (if State.valid = State.needScriptPubkey ∧ f.addresses = false then State.valid else State.valid) = State.valid := by
      split <;> rfl
    rw [this, ih, encodeInscriptions_cons, List.append_assoc]

theorem applyOps_append (f : Flags) (b : Buf) (xs ys : List Op) :
    applyOps f b (xs ++ ys) =
      match applyOps f b xs with
      | .ok b' => applyOps f b' ys
      | .err e => .err e
      | .panic s => .panic s := by
  induction xs generalizing b with
  | nil => simp [applyOps]
  | cons x xs ih =>
    simp only [List.cons_append, applyOps]
    cases applyOp f b x with
    | ok b' => exact ih b'
    | err e => rfl
    | panic s => rfl

/-- `build` = the closed-form layout, for every flag combination -/
theorem build_eq_layout (f : Flags) (e : Entry) (hr : f.sats = true → e.ranges.length % 11 = 0) :
    build f e = .ok (layout f e) := by
  obtain ⟨s, a, i⟩ := f
  have hdiv : s = true → e.ranges.length / 11 * 11 = e.ranges.length := by
    intro h; have := hr h; omega
  unfold build runOps buildOps layout
  cases s <;> cases a <;> cases i <;>
    simp [applyOps, applyOp, pushValue, pushSatRanges, pushScriptPubkey, advance, Buf.new, asRef,
      applyOps_inscriptions, hdiv]

/-! ### parse ∘ layout -/

def view (f : Flags) (e : Entry) : Parsed :=
  { sats := if f.sats then .ranges e.ranges else .value e.value
    script := if f.addresses then some e.script else none
    inscriptions := if f.inscriptions then some (encodeInscriptions e.inscriptions) else none }

theorem satsPart_length_pos (f : Flags) (e : Entry) : 0 < (satsPart f e).length := by
  unfold satsPart
  split
  · simp only [List.length_append]; have := encode_length_pos (e.ranges.length / 11); omega
  · exact encode_length_pos _

theorem parseSats_layout (f : Flags) (e : Entry) (rest : List UInt8)
    (hv : e.value < 2 ^ 64) (hr : f.sats = true → e.ranges.length % 11 = 0)
    (hlen : (satsPart f e ++ rest).length < 2 ^ 64) :
    parseSats f (satsPart f e ++ rest) =
      .ok (if f.sats then .ranges e.ranges else .value e.value, (satsPart f e).length) := by
  unfold parseSats satsPart
  cases hs : f.sats with
  | false =>
    simp only [Bool.false_eq_true, if_false]
    rw [decode_encode_append _ (by omega)]
    simp [Nat.not_le.mpr hv]
  | true =>
    simp only [if_true]
    have hr' := hr hs
    have hmul : e.ranges.length / 11 * 11 = e.ranges.length := by omega
    simp only [satsPart, hs, if_true, List.length_append] at hlen
    have hn : e.ranges.length / 11 < 2 ^ 64 := by omega
    rw [List.append_assoc, decode_encode_append _ (by omega)]
    simp only [usizeLimit, hmul]
    have h1 : ¬ (2 ^ 64 ≤ e.ranges.length / 11) := by omega
    have h2 : ¬ (2 ^ 64 ≤ e.ranges.length) := by omega
    have h3 : ¬ (2 ^ 64 ≤ (Varint.encode (e.ranges.length / 11)).length + e.ranges.length) := by omega
    simp only [h1, h2, h3, if_false]
    rw [slice_mid]
    simp

theorem parseScript_layout (f : Flags) (e : Entry) (pre rest : List UInt8)
    (hlen : (pre ++ (scriptPart f e ++ rest)).length < 2 ^ 64) :
    parseScript f (pre ++ (scriptPart f e ++ rest)) pre.length =
      .ok (if f.addresses then some e.script else none, pre.length + (scriptPart f e).length) := by
  unfold parseScript scriptPart
  cases ha : f.addresses with
  | false => simp
  | true =>
    simp only [if_true]
    simp only [scriptPart, ha, if_true, List.length_append] at hlen
    have h0 : ¬ ((pre ++ (Varint.encode e.script.length ++ e.script ++ rest)).length < pre.length) := by
      simp only [List.length_append]; omega
    simp only [h0, if_false, List.drop_left]
    rw [List.append_assoc, decode_encode_append _ (by omega)]
    simp only [usizeLimit]
    have h1 : ¬ (2 ^ 64 ≤ e.script.length) := by omega
    have h2 : ¬ (2 ^ 64 ≤ pre.length + (Varint.encode e.script.length).length + e.script.length) := by omega
    simp only [h1, h2, if_false]
    have := slice_mid (pre ++ Varint.encode e.script.length) e.script rest
    simp only [List.length_append, List.append_assoc] at this
    rw [this]
    simp [Nat.add_assoc]

theorem parse_layout (f : Flags) (e : Entry)
    (hv : e.value < 2 ^ 64) (hr : f.sats = true → e.ranges.length % 11 = 0)
    (hlen : (layout f e).length < 2 ^ 64) :
    parse f (layout f e) = .ok (view f e) := by
  rw [layout_eq] at hlen ⊢
  unfold parse
  rw [parseSats_layout f e _ hv hr hlen]
  simp only
  rw [parseScript_layout f e _ _ hlen]
  simp only
  unfold view
  cases hi : f.inscriptions with
  | false => simp
  | true =>
    simp only [if_true]
    have := slice_tail (satsPart f e ++ scriptPart f e) (insPart f e)
    simp only [List.length_append, List.append_assoc] at this
    simp only [List.length_append]
    rw [this]
    simp [insPart, hi]

/-! ### the inscription list -/

theorem parseInscriptionList_encode (l : List (Nat × Nat))
    (h : ∀ i ∈ l, i.1 < 2 ^ 32 ∧ i.2 < 2 ^ 64) :
    parseInscriptionList (encodeInscriptions l) = .ok l := by
  induction l with
  | nil => rw [parseInscriptionList]; simp [encodeInscriptions]
  | cons i l ih =>
    have hi := h i (by simp)
    have ih' := ih (fun j hj => h j (by simp [hj]))
    rw [parseInscriptionList, encodeInscriptions_cons]
    have hne : ¬ ((encodeInscription i ++ encodeInscriptions l).length = 0) := by
      simp [encodeInscription]
    have h4 : ¬ ((encodeInscription i ++ encodeInscriptions l).length < 4) := by
      simp [encodeInscription]
    simp only [hne, h4, dite_false, if_false]
    have hdrop : (encodeInscription i ++ encodeInscriptions l).drop 4 =
        Varint.encode i.2 ++ encodeInscriptions l := by
      unfold encodeInscription
      rw [List.append_assoc, List.drop_left' (leBytes_length 4 i.1)]
    have htake : (encodeInscription i ++ encodeInscriptions l).take 4 = leBytes 4 i.1 := by
      unfold encodeInscription
      rw [List.append_assoc, List.take_left' (leBytes_length 4 i.1)]
    rw [hdrop, decode_encode_append _ (by omega)]
    simp only [Nat.not_le.mpr hi.2, if_false]
    have hdrop2 : (encodeInscription i ++ encodeInscriptions l).drop (4 + (Varint.encode i.2).length) =
        encodeInscriptions l := by
      have : (encodeInscription i).length = 4 + (Varint.encode i.2).length := by
        simp [encodeInscription]
      rw [← this, List.drop_left]
    rw [hdrop2, ih', htake, leVal_leBytes_of_lt _ _ (by
      have : (256 : Nat) ^ 4 = 2 ^ 32 := by decide
      omega)]

end Ord.Utxo
