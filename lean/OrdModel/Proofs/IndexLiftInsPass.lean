import OrdModel.Proofs.IndexLiftInsLists
/-
Lift of the inscription-side invariants, part 2: two more facts about one run of
`index_inscriptions` — the entry table never shrinks, and every `(sequence number, offset)` it
pushes onto an output entry has its offset below that output's value.
-/
namespace Ord.Index.InsLift
open Ord Ord.Index Outcome Sched Insloc

/-! ### the entry table never shrinks -/

theorem placeTx_mono (cfg : Cfg) (height time : Nat) (tx : Tx) (rs : Option (List (Nat × Nat)))
    (cb : Bool) (totalIn : Nat) (floating : List Flotsam) (st1 : State) (ls ls' : LocState)
    (he : st1.entries = ls.st.entries)
    (h : placeTx cfg height time tx rs cb totalIn floating st1 ls = .ok ls') :
    ls.st.entries.length ≤ ls'.st.entries.length := by
  cases cb with
  | true =>
    simp only [placeTx, ↓reduceIte] at h
    split at h
    · simp at h
    · simp at h
    · next ls2 h2 =>
      split at h
      · simp at h
      · simp at h
      · next ls3 h3 =>
        split at h
        · simp at h
        · simp only [ok.injEq] at h; subst h
          obtain ⟨_, _, e2, _⟩ := (applyLocations_steps _ _ _ _ _ _ _ h2).conserve
          obtain ⟨_, _, e3, _⟩ := (applyLost_steps _ _ _ _ _ _ _ _ h3).conserve
          simp only at e2 e3 ⊢
          rw [e3, e2, he]; omega
  | false =>
    simp only [placeTx, Bool.false_eq_true, ↓reduceIte] at h
    split at h
    · simp at h
    · simp at h
    · next ls2 h2 =>
      split at h
      · simp at h
      · simp only [ok.injEq] at h; subst h
        obtain ⟨_, _, e2, _⟩ := (applyLocations_steps _ _ _ _ _ _ _ h2).conserve
        simp only at e2 ⊢
        rw [e2, he]; omega

theorem indexInscriptions_mono (cfg : Cfg) (height time : Nat) (tx : Tx)
    (inputs : List (TxIn × UtxoEntry)) (rs : Option (List (Nat × Nat))) (ls ls' : LocState)
    (hok : indexInscriptions cfg height time tx inputs rs ls = .ok ls') :
    ls.st.entries.length ≤ ls'.st.entries.length := by
  rw [Insloc.indexInscriptions_eq] at hok
  split at hok
  · simp at hok
  · simp at hok
  · next sc hsc =>
    split at hok
    · simp at hok
    · split at hok
      · simp at hok
      · exact placeTx_mono _ _ _ _ _ _ _ _ _ _ _ (by split <;> rfl) hok

/-! ### offsets pushed onto output entries are below the output's value -/

/-- every `(seq, offset)` listed by the `j`-th output entry has `offset <` value of output `j` -/
def OutsOK (outputs : List TxOut) (outs : List UtxoEntry) : Prop :=
  ∀ (j : Nat) (e : UtxoEntry), outs[j]? = some e → ∀ (s off : Nat), (s, off) ∈ e.ins →
    ∃ o : TxOut, outputs[j]? = some o ∧ off < o.value

theorem uil_outsOK (cfg : Cfg) (height time : Nat) (rs : Option (List (Nat × Nat))) (fl : Flotsam)
    (sp : SatPoint) (opr : Bool) (tgt : Target) (ls ls' : LocState) (outputs : List TxOut)
    (h : updateInscriptionLocation cfg height time rs fl sp opr tgt ls = .ok ls')
    (hsp : ∀ v, tgt = .output v → ∃ o, outputs[v]? = some o ∧ sp.offset < o.value)
    (hok : OutsOK outputs ls.outs) : OutsOK outputs ls'.outs := by
  have hp := (uil_spec cfg height time rs fl sp opr tgt ls ls' h).placed
  cases hp with
  | unbound _ houts => rw [houts]; exact hok
  | null _ _ _ houts => rw [houts]; exact hok
  | output _ vout e htgt hget houts =>
    rw [houts]
    unfold OutsOK
    intro j e' hj s off hm
    rw [List.getElem?_set] at hj
    split at hj
    · rename_i hv
      subst hv
      split at hj
      · simp only [Option.some.injEq] at hj
        subst hj
        simp only [pushIns, List.mem_append, List.mem_singleton, Prod.mk.injEq] at hm
        rcases hm with hm | ⟨_, rfl⟩
        · exact hok vout e hget s off hm
        · exact hsp vout htgt
      · cases hj
    · exact hok j e' hj s off hm

theorem applyLocations_outsOK (cfg : Cfg) (height time : Nat) (rs : Option (List (Nat × Nat)))
    (outputs : List TxOut) (locs : List (SatPoint × Flotsam × Bool)) (ls ls' : LocState)
    (hl : ∀ x ∈ locs, ∃ o, outputs[x.1.outpoint.vout]? = some o ∧ x.1.offset < o.value)
    (h : applyLocations cfg height time rs locs ls = .ok ls')
    (hok : OutsOK outputs ls.outs) : OutsOK outputs ls'.outs := by
  induction locs generalizing ls with
  | nil => simp [applyLocations] at h; subst h; exact hok
  | cons x rest ih =>
    obtain ⟨sp, fl, opr⟩ := x
    simp only [applyLocations] at h
    split at h
    · simp at h
    · simp at h
    · next ls1 h1 =>
      refine ih ls1 (fun y hy => hl y (List.mem_cons_of_mem _ hy)) h ?_
      refine uil_outsOK _ _ _ _ _ _ _ _ _ _ outputs h1 ?_ hok
      intro v hv
      simp only [Target.output.injEq] at hv
      subst hv
      exact hl (sp, fl, opr) List.mem_cons_self

theorem applyLost_outsOK (cfg : Cfg) (height time : Nat) (rs : Option (List (Nat × Nat))) (ov : Nat)
    (outputs : List TxOut) (fls : List Flotsam) (ls ls' : LocState)
    (h : applyLost cfg height time rs ov fls ls = .ok ls')
    (hok : OutsOK outputs ls.outs) : OutsOK outputs ls'.outs := by
  induction fls generalizing ls with
  | nil => simp [applyLost] at h; subst h; exact hok
  | cons fl rest ih =>
    simp only [applyLost] at h
    split at h
    · simp at h
    · simp at h
    · next ls1 h1 =>
      refine ih ls1 h ?_
      exact uil_outsOK _ _ _ _ _ _ _ _ _ _ outputs h1 (fun v hv => by cases hv) hok

theorem assigned_below_value (txid : Txid) (outs : List TxOut) (fls : List Flotsam)
    (x : SatPoint × Flotsam × Bool)
    (hx : x ∈ (assignOutputs txid outs 0 0 (sortByKey (·.offset) fls) []).1) :
    ∃ o, outs[x.1.outpoint.vout]? = some o ∧ x.1.offset < o.value := by
  obtain ⟨h, _⟩ := assignOutputs_place txid outs 0 0 (sortByKey (·.offset) fls) []
    (sortByKey_sorted _ _) (fun _ _ => Nat.zero_le _)
  rcases h x hx with hacc | ⟨j, o, hj, _, hlo, hhi, hsp, _⟩
  · simp at hacc
  · refine ⟨o, by rw [hsp]; simpa using hj, ?_⟩
    rw [hsp]; simp only; omega

theorem placeTx_outsOK (cfg : Cfg) (height time : Nat) (tx : Tx) (rs : Option (List (Nat × Nat)))
    (cb : Bool) (totalIn : Nat) (floating : List Flotsam) (st1 : State) (ls ls' : LocState)
    (h : placeTx cfg height time tx rs cb totalIn floating st1 ls = .ok ls')
    (hok : OutsOK tx.outputs ls.outs) : OutsOK tx.outputs ls'.outs := by
  cases cb with
  | true =>
    simp only [placeTx, ↓reduceIte] at h
    split at h
    · simp at h
    · simp at h
    · next ls2 h2 =>
      split at h
      · simp at h
      · simp at h
      · next ls3 h3 =>
        split at h
        · simp at h
        · simp only [ok.injEq] at h; subst h
          have o2 := applyLocations_outsOK _ _ _ _ tx.outputs _ _ _
            (fun x hx => assigned_below_value _ _ _ x hx) h2 hok
          show OutsOK tx.outputs ls3.outs
          exact applyLost_outsOK _ _ _ _ _ tx.outputs _ _ _ h3 o2
  | false =>
    simp only [placeTx, Bool.false_eq_true, ↓reduceIte] at h
    split at h
    · simp at h
    · simp at h
    · next ls2 h2 =>
      split at h
      · simp at h
      · simp only [ok.injEq] at h; subst h
        show OutsOK tx.outputs ls2.outs
        exact applyLocations_outsOK _ _ _ _ tx.outputs _ _ _
          (fun x hx => assigned_below_value _ _ _ x hx) h2 hok

theorem indexInscriptions_outsOK (cfg : Cfg) (height time : Nat) (tx : Tx)
    (inputs : List (TxIn × UtxoEntry)) (rs : Option (List (Nat × Nat))) (ls ls' : LocState)
    (hok : indexInscriptions cfg height time tx inputs rs ls = .ok ls')
    (h0 : OutsOK tx.outputs ls.outs) : OutsOK tx.outputs ls'.outs := by
  rw [Insloc.indexInscriptions_eq] at hok
  split at hok
  · simp at hok
  · simp at hok
  · next sc hsc =>
    split at hok
    · simp at hok
    · split at hok
      · simp at hok
      · exact placeTx_outsOK _ _ _ _ _ _ _ _ _ _ _ hok h0

/-! ### a coinbase whose inputs are all null consumes no envelope -/

theorem scanInputs_allNull (cfg : Cfg) (st : State) (jub : Bool) (txid : Txid) (height totalOut : Nat)
    (inputs : List (TxIn × UtxoEntry)) (i : Nat) (sc sc' : ScanState)
    (hn : ∀ p ∈ inputs, p.1.prev.isNull = true)
    (h : scanInputs cfg st jub txid height totalOut inputs i sc = .ok sc') :
    sc'.floating = sc.floating := by
  induction inputs generalizing i sc with
  | nil => simp [scanInputs] at h; subst h; rfl
  | cons p rest ih =>
    obtain ⟨txin, entry⟩ := p
    have hnull : txin.prev.isNull = true := hn (txin, entry) List.mem_cons_self
    simp only [scanInputs, hnull, ↓reduceIte] at h
    exact ih _ _ (fun p hp => hn p (List.mem_cons_of_mem _ hp)) h |>.trans rfl

theorem indexInscriptions_counts_none (cfg : Cfg) (height time : Nat) (tx : Tx)
    (inputs : List (TxIn × UtxoEntry)) (rs : Option (List (Nat × Nat))) (ls ls' : LocState)
    (hn : ∀ p ∈ inputs, p.1.prev.isNull = true)
    (hok : indexInscriptions cfg height time tx inputs rs ls = .ok ls') :
    ls'.st.entries.length + newCount ls'.ctx.flotsam = ls.st.entries.length + newCount ls.ctx.flotsam := by
  rw [Insloc.indexInscriptions_eq] at hok
  split at hok
  · simp at hok
  · simp at hok
  · next sc hsc =>
    split at hok
    · simp at hok
    · split at hok
      · simp at hok
      · have hf := scanInputs_allNull _ _ _ _ _ _ _ _ _ _ hn hsc
        simp only at hf
        obtain ⟨_, c, _, _, _⟩ := placeTx_conserve _ _ _ _ _ _ _ _ _ _ _
          (by split <;> rfl) (by split <;> rfl) hok
        obtain ⟨_, k2⟩ := txFloating_kind tx sc
        rw [k2, hf] at c
        simpa using c

end Ord.Index.InsLift
