import OrdModel.Codec.Entry
import OrdModel.Proofs.Varint
/-! Helper lemmas for C35: little-endian bytes, the sat range bit packing, consensus layouts. -/
namespace Ord.Entry
open Ord.Varint (toNat_ofNat_lt)

@[simp] theorem leBytes_length (k n : Nat) : (leBytes k n).length = k := by
  induction k generalizing n with
  | zero => rfl
  | succ k ih => simp [leBytes, ih]

theorem leVal_lt (bs : List UInt8) : leVal bs < 256 ^ bs.length := by
  induction bs with
  | nil => simp [leVal]
  | cons b bs ih =>
    simp only [leVal, List.length_cons, Nat.pow_succ]
    have : b.toNat < 256 := b.toNat_lt
    generalize 256 ^ bs.length = q at *
    generalize leVal bs = v at *
    omega

theorem leVal_leBytes (k n : Nat) : leVal (leBytes k n) = n % 256 ^ k := by
  induction k generalizing n with
  | zero => simp [leBytes, leVal, Nat.mod_one]
  | succ k ih =>
    simp only [leBytes, leVal, ih]
    rw [toNat_ofNat_lt (Nat.mod_lt _ (by omega)), Nat.pow_succ, Nat.mul_comm (256 ^ k) 256,
      Nat.mod_mul]

theorem leVal_leBytes_of_lt (k n : Nat) (h : n < 256 ^ k) : leVal (leBytes k n) = n := by
  rw [leVal_leBytes, Nat.mod_eq_of_lt h]

theorem leBytes_leVal (bs : List UInt8) : leBytes bs.length (leVal bs) = bs := by
  induction bs with
  | nil => rfl
  | cons b bs ih =>
    simp only [List.length_cons, leBytes, leVal]
    have hb : b.toNat < 256 := b.toNat_lt
    have h1 : (b.toNat + 256 * leVal bs) % 256 = b.toNat := by omega
    have h2 : (b.toNat + 256 * leVal bs) / 256 = leVal bs := by omega
    rw [h1, h2, ih]
    simp

theorem leBytes_leVal' (k : Nat) (bs : List UInt8) (h : bs.length = k) :
    leBytes k (leVal bs) = bs := by
  subst h; exact leBytes_leVal bs

theorem leBytes_add (j k n : Nat) :
    leBytes (j + k) n = leBytes j n ++ leBytes k (n / 256 ^ j) := by
  induction j generalizing n with
  | zero => simp [leBytes]
  | succ j ih =>
    have : j + 1 + k = (j + k) + 1 := by omega
    rw [this]
    simp only [leBytes, List.cons_append, ih]
    rw [Nat.div_div_eq_div_mul, Nat.pow_succ, Nat.mul_comm 256]

theorem take_leBytes (j k n : Nat) : (leBytes (j + k) n).take j = leBytes j n := by
  rw [leBytes_add, List.take_left' (leBytes_length j n)]

theorem drop_leBytes (j k n : Nat) : (leBytes (j + k) n).drop j = leBytes k (n / 256 ^ j) := by
  rw [leBytes_add, List.drop_left' (leBytes_length j n)]

theorem take_append_len {α} (a b : List α) (n : Nat) (h : a.length = n) : (a ++ b).take n = a := by
  subst h; simp
theorem drop_append_len {α} (a b : List α) (n : Nat) (h : a.length = n) : (a ++ b).drop n = b := by
  subst h; simp
theorem drop_append_add {α} (a b : List α) (n k : Nat) (h : a.length = n) :
    (a ++ b).drop (n + k) = b.drop k := by
  rw [← List.drop_drop, drop_append_len a b n h]

theorem termsLoad_termsStore (t : Terms) : termsLoad (termsStore t) = t := rfl

/-! ### sat range packing -/

/-- what `load` computes, arithmetically, from the 88-bit number whose LE bytes it is given -/
theorem satRangeLoad_leBytes (n : Nat) :
    satRangeLoad (leBytes 11 n) =
      (n % 2 ^ 51, n % 2 ^ 51 + n / 2 ^ 51 % 2 ^ 37) := by
  unfold satRangeLoad
  have h7 : (leBytes 11 n).take 7 = leBytes 7 n := take_leBytes 7 4 n
  have h6 : ((leBytes 11 n).drop 6).take 5 = leBytes 5 (n / 256 ^ 6) := by
    rw [drop_leBytes 6 5 n]
    exact List.take_of_length_le (by simp)
  simp only [h7, h6, leVal_leBytes]
  have hmask : (1 <<< 51 - 1 : Nat) = 2 ^ 51 - 1 := by simp [Nat.shiftLeft_eq]
  rw [hmask, Nat.and_two_pow_sub_one_eq_mod, Nat.shiftRight_eq_div_pow]
  have e1 : n % 256 ^ 7 % 2 ^ 51 = n % 2 ^ 51 := by
    have : (256 : Nat) ^ 7 = 2 ^ 51 * 2 ^ 5 := by decide
    rw [this, Nat.mod_mul_right_mod]
  have e2 : n / 256 ^ 6 % 256 ^ 5 / 2 ^ 3 = n / 2 ^ 51 % 2 ^ 37 := by
    have a : (256 : Nat) ^ 6 = 281474976710656 := by decide
    have b : (256 : Nat) ^ 5 = 1099511627776 := by decide
    have c : (2 : Nat) ^ 51 = 2251799813685248 := by decide
    have d : (2 : Nat) ^ 37 = 137438953472 := by decide
    have e : (2 : Nat) ^ 3 = 8 := by decide
    rw [a, b, c, d, e]; omega
  rw [e1, e2]

/-- inside the guard the bit-or is an addition -/
theorem pack_eq_add (base delta : Nat) (h : base < 2 ^ 51) :
    base ||| (delta <<< 51) = delta * 2 ^ 51 + base := by
  rw [Nat.or_comm, ← Nat.shiftLeft_add_eq_or_of_lt h, Nat.shiftLeft_eq]

/-! ### i32 two's complement -/

theorem i32OfBits_i32Bits (v : Int) (h1 : -2147483648 ≤ v) (h2 : v < 2147483648) :
    i32OfBits (i32Bits v) = v := by
  unfold i32OfBits i32Bits
  split <;> omega

theorem i32Bits_lt (v : Int) : i32Bits v < 256 ^ 4 := by
  unfold i32Bits
  have : (256 : Nat) ^ 4 = 4294967296 := by decide
  omega

end Ord.Entry
