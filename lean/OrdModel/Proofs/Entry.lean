import OrdModel.Codec.Entry
import OrdModel.Proofs.Varint
/-! Helper lemmas for C35: little-endian bytes, the sat range bit packing, consensus layouts. -/
namespace Ord.Entry
open Ord.Varint (toNat_ofNat_lt)

@[simp] theorem leBytes_length (k n : Nat) : (leBytes k n).length = k := by
  induction k generalizing n with
  | zero => rfl
  | succ k ih => simp [leBytes, ih]

theorem leVal_lt (bs : List UInt8) : leVal bs < 256 ^ bs.length := by
  induction bs with
  | nil => simp [leVal]
  | cons b bs ih =>
    simp only [leVal, List.length_cons, Nat.pow_succ]
    have : b.toNat < 256 := b.toNat_lt
    generalize 256 ^ bs.length = q at *
    generalize leVal bs = v at *
    omega

theorem leVal_leBytes (k n : Nat) : leVal (leBytes k n) = n % 256 ^ k := by
  induction k generalizing n with
  | zero => simp [leBytes, leVal, Nat.mod_one]
  | succ k ih =>
    simp only [leBytes, leVal, ih]
    rw [toNat_ofNat_lt (Nat.mod_lt _ (by omega)), Nat.pow_succ, Nat.mul_comm (256 ^ k) 256,
      Nat.mod_mul]

theorem leVal_leBytes_of_lt (k n : Nat) (h : n < 256 ^ k) : leVal (leBytes k n) = n := by
  rw [leVal_leBytes, Nat.mod_eq_of_lt h]

theorem leBytes_leVal (bs : List UInt8) : leBytes bs.length (leVal bs) = bs := by
  induction bs with
  | nil => rfl
  | cons b bs ih =>
    simp only [List.length_cons, leBytes, leVal]
    have hb : b.toNat < 256 := b.toNat_lt
    have h1 : (b.toNat + 256 * leVal bs) % 256 = b.toNat := by omega
    have h2 : (b.toNat + 256 * leVal bs) / 256 = leVal bs := by omega
    rw [h1, h2, ih]
    simp

theorem leBytes_leVal' (k : Nat) (bs : List UInt8) (h : bs.length = k) :
    leBytes k (leVal bs) = bs := by
  subst h; exact leBytes_leVal bs

theorem leBytes_add (j k n : Nat) :
    leBytes (j + k) n = leBytes j n ++ leBytes k (n / 256 ^ j) := by
  induction j generalizing n with
  | zero => simp [leBytes]
  | succ j ih =>
    have : j + 1 + k = (j + k) + 1 := by omega
    rw [this]
    simp only [leBytes, List.cons_append, ih]
    rw [Nat.div_div_eq_div_mul, Nat.pow_succ, Nat.mul_comm 256]

theorem take_leBytes (j k n : Nat) : (leBytes (j + k) n).take j = leBytes j n := by
  rw [leBytes_add, List.take_left' (leBytes_length j n)]

theorem drop_leBytes (j k n : Nat) : (leBytes (j + k) n).drop j = leBytes k (n / 256 ^ j) := by
  rw [leBytes_add, List.drop_left' (leBytes_length j n)]

theorem take_append_len {α} (a b : List α) (n : Nat) (h : a.length = n) : (a ++ b).take n = a := by
  subst h; simp
theorem drop_append_len {α} (a b : List α) (n : Nat) (h : a.length = n) : (a ++ b).drop n = b := by
  subst h; simp
theorem drop_append_add {α} (a b : List α) (n k : Nat) (h : a.length = n) :
    (a ++ b).drop (n + k) = b.drop k := by
  rw [← List.drop_drop, drop_append_len a b n h]

theorem termsLoad_termsStore (t : Terms) : termsLoad (termsStore t) = t := rfl

/-! ### sat range packing -/

/-- what `load` computes, arithmetically, from the 88-bit number whose LE bytes it is given -/
theorem satRangeLoad_leBytes (n : Nat) :
    satRangeLoad (leBytes 11 n) =
      (n % 2 ^ 51, n % 2 ^ 51 + n / 2 ^ 51 % 2 ^ 37) := by
  unfold satRangeLoad
  have h7 : (leBytes 11 n).take 7 = leBytes 7 n := take_leBytes 7 4 n
  have h6 : ((leBytes 11 n).drop 6).take 5 = leBytes 5 (n / 256 ^ 6) := by
    rw [drop_leBytes 6 5 n]
    exact List.take_of_length_le (by simp)
  simp only [h7, h6, leVal_leBytes]
  have hmask : (1 <<< 51 - 1 : Nat) = 2 ^ 51 - 1 := by simp [Nat.shiftLeft_eq]
  rw [hmask, Nat.and_two_pow_sub_one_eq_mod, Nat.shiftRight_eq_div_pow]
  have e1 : n % 256 ^ 7 % 2 ^ 51 = n % 2 ^ 51 := by
    have : (256 : Nat) ^ 7 = 2 ^ 51 * 2 ^ 5 := by decide
    rw [this, Nat.mod_mul_right_mod]
  have e2 : n / 256 ^ 6 % 256 ^ 5 / 2 ^ 3 = n / 2 ^ 51 % 2 ^ 37 := by
    have a : (256 : Nat) ^ 6 = 281474976710656 := by decide
    have b : (256 : Nat) ^ 5 = 1099511627776 := by decide
    have c : (2 : Nat) ^ 51 = 2251799813685248 := by decide
    have d : (2 : Nat) ^ 37 = 137438953472 := by decide
    have e : (2 : Nat) ^ 3 = 8 := by decide
    rw [a, b, c, d, e]; omega
  rw [e1, e2]

/-- inside the guard the bit-or is an addition -/
theorem pack_eq_add (base delta : Nat) (h : base < 2 ^ 51) :
    base ||| (delta <<< 51) = delta * 2 ^ 51 + base := by
  rw [Nat.or_comm, ← Nat.shiftLeft_add_eq_or_of_lt h, Nat.shiftLeft_eq]

theorem satRangeStore_ok (r : Nat × Nat) (h : satRangeGuard r) :
    ∃ bs, satRangeStore r = .ok bs ∧ bs.length = 11 ∧ satRangeLoad bs = r := by
  obtain ⟨h1, h2, h3⟩ := h
  refine ⟨leBytes 11 (r.1 ||| ((r.2 - r.1) <<< 51)), ?_, by simp, ?_⟩
  · unfold satRangeStore; simp [Nat.not_lt.mpr h2]
  · rw [satRangeLoad_leBytes, pack_eq_add _ _ h1]
    have c : (2 : Nat) ^ 51 = 2251799813685248 := by decide
    have d : (2 : Nat) ^ 37 = 137438953472 := by decide
    rw [c, d] at *
    ext <;> simp <;> omega

/-! ### i32 two's complement -/

theorem i32OfBits_i32Bits (v : Int) (h1 : -2147483648 ≤ v) (h2 : v < 2147483648) :
    i32OfBits (i32Bits v) = v := by
  unfold i32OfBits i32Bits
  split <;> omega

theorem i32Bits_lt (v : Int) : i32Bits v < 256 ^ 4 := by
  unfold i32Bits
  have : (256 : Nat) ^ 4 = 4294967296 := by decide
  omega

/-! ### round trips (proof bodies of the C35 entry theorems) -/

theorem header_roundtrip (h : Header) (wf : h.wf) :
    (headerStore h).length = 80 ∧ headerLoad (headerStore h) = h := by
  obtain ⟨v1, v2, hp, hm, ht, hb, hn⟩ := wf
  have p4 : (256 : Nat) ^ 4 = 2 ^ 32 := by decide
  constructor
  · simp [headerStore, hp, hm]
  · cases h with
    | mk version prev merkle time bits nonce =>
      simp only at *
      have hv : (leBytes 4 (i32Bits version)).length = 4 := by simp
      have s : headerStore ⟨version, prev, merkle, time, bits, nonce⟩ =
          leBytes 4 (i32Bits version) ++ (prev ++ (merkle ++ (leBytes 4 time ++ (leBytes 4 bits ++ leBytes 4 nonce)))) := by
        simp [headerStore]
      unfold headerLoad
      rw [s]
      congr
      · rw [take_append_len _ _ 4 hv, leVal_leBytes_of_lt _ _ (i32Bits_lt _)]
        exact i32OfBits_i32Bits _ v1 v2
      · rw [drop_append_len _ _ 4 hv, take_append_len _ _ 32 hp]
      · rw [drop_append_add _ _ 4 32 hv, drop_append_len _ _ 32 hp, take_append_len _ _ 32 hm]
      · rw [drop_append_add _ _ 4 64 hv, drop_append_add _ _ 32 32 hp, drop_append_len _ _ 32 hm,
          take_append_len _ _ 4 (by simp), leVal_leBytes_of_lt _ _ (by omega)]
      · rw [drop_append_add _ _ 4 68 hv, drop_append_add _ _ 32 36 hp, drop_append_add _ _ 32 4 hm,
          drop_append_len _ _ 4 (by simp),
          take_append_len _ _ 4 (by simp), leVal_leBytes_of_lt _ _ (by omega)]
      · rw [drop_append_add _ _ 4 72 hv, drop_append_add _ _ 32 40 hp, drop_append_add _ _ 32 8 hm,
          drop_append_add _ _ 4 4 (by simp), drop_append_len _ _ 4 (by simp),
          List.take_of_length_le (by simp), leVal_leBytes_of_lt _ _ (by omega)]

theorem outpoint_roundtrip (o : OutPoint) (wf : o.wf) :
    (outPointStore o).length = 36 ∧ outPointLoad (outPointStore o) = o := by
  obtain ⟨ht, hv⟩ := wf
  have p4 : (256 : Nat) ^ 4 = 2 ^ 32 := by decide
  cases o with
  | mk txid vout =>
    simp only at *
    constructor
    · simp [outPointStore, ht]
    · unfold outPointLoad outPointStore
      congr
      · exact take_append_len _ _ 32 ht
      · rw [drop_append_len _ _ 32 ht, List.take_of_length_le (by simp),
          leVal_leBytes_of_lt _ _ (by omega)]

theorem satpoint_roundtrip (s : SatPoint) (wf : s.wf) :
    (satPointStore s).length = 44 ∧ satPointLoad (satPointStore s) = s := by
  obtain ⟨ho, hoff⟩ := wf
  have p8 : (256 : Nat) ^ 8 = 2 ^ 64 := by decide
  obtain ⟨hl, hr⟩ := outpoint_roundtrip s.outpoint ho
  cases s with
  | mk outpoint offset =>
    simp only at *
    constructor
    · simp [satPointStore, hl]
    · unfold satPointLoad satPointStore
      congr
      · rw [take_append_len _ _ 36 hl]; exact hr
      · rw [drop_append_len _ _ 36 hl, List.take_of_length_le (by simp),
          leVal_leBytes_of_lt _ _ (by omega)]

theorem txid_roundtrip (t : List UInt8) : txidLoad (txidStore t) = t := rfl

theorem inscription_id_roundtrip (i : InscriptionId) (h : i.txid.length = 32) :
    inscriptionIdLoad (inscriptionIdStore i) = i := by
  cases i with
  | mk txid index =>
    simp only at h
    unfold inscriptionIdLoad inscriptionIdStore
    congr
    simp only
    rw [leBytes_leVal' 16 _ (by simp [h]), leBytes_leVal' 16 _ (by simp [h]), List.take_append_drop]

theorem inscription_id_value_bounds (i : InscriptionId) (h : i.txid.length = 32) :
    (inscriptionIdStore i).1 < 2 ^ 128 ∧ (inscriptionIdStore i).2.1 < 2 ^ 128 := by
  have p : (256 : Nat) ^ 16 = 2 ^ 128 := by decide
  unfold inscriptionIdStore
  have a := leVal_lt (i.txid.take 16)
  have b := leVal_lt (i.txid.drop 16)
  have la : (i.txid.take 16).length = 16 := by simp [h]
  have lb : (i.txid.drop 16).length = 16 := by simp [h]
  rw [la] at a; rw [lb] at b
  simp only; omega

theorem rune_id_roundtrip (i : RuneId) : runeIdLoad (runeIdStore i) = i := rfl
theorem rune_roundtrip (r : Nat) : runeLoad (runeStore r) = r := rfl

theorem rune_entry_roundtrip (e : RuneEntry) (h : e.etching.length = 32) :
    runeEntryLoad (runeEntryStore e) = e := by
  cases e with
  | mk block burned divisibility etching mints number premine rune spacers symbol terms timestamp turbo =>
    simp only at h
    unfold runeEntryLoad runeEntryStore
    congr
    · simp only
      have ht : (etching.drop 16).take 16 = etching.drop 16 :=
        List.take_of_length_le (by simp [h])
      rw [ht, leBytes_leVal' 16 _ (by simp [h]), leBytes_leVal' 16 _ (by simp [h]),
        List.take_append_drop]
    · cases terms <;> simp [termsLoad_termsStore]

theorem inscription_entry_roundtrip (e : InscriptionEntry) (h : e.id.txid.length = 32) :
    inscriptionEntryLoad (inscriptionEntryStore e) = e := by
  cases e with
  | mk charms fee height hidden id inscriptionNumber parents sat sequenceNumber timestamp =>
    simp only at h
    unfold inscriptionEntryLoad inscriptionEntryStore
    congr
    · exact inscription_id_roundtrip id h
    · cases sat <;> simp

end Ord.Entry
