import OrdModel.Proofs.IndexMiscAddrSpend
/-
Group `ixmisc` (C17 → C16): with the address index on, `takeInputEntries` succeeds — neither
`assert!(!self.index.have_full_utxo_index())` nor `script pubkey entry … not found` fires — when
every input names an output of a transaction indexed so far that has not been spent yet, and no
outpoint is named twice.
-/
namespace Ord.Index
open Outcome

theorem takeInputEntries_ok (cfg : Cfg) (ha : cfg.indexAddresses = true) (pre seen : List Tx)
    (ins : List TxIn) (bc : BlockCtx) (acc : List (TxIn × UtxoEntry)) (S : List OutPoint)
    (hinv : BlockInv cfg pre seen bc) (hs : SpendInv (pre ++ seen) S bc.st.utxo bc.cache)
    (hex : ∀ i ∈ ins, i.prev ∉ S ∧ ∃ tx ∈ pre ++ seen, tx.txid = i.prev.txid ∧ i.prev.vout < tx.outputs.length)
    (hnd : (ins.map (·.prev)).Nodup) :
    ∃ r, takeInputEntries cfg ins bc acc = .ok r := by
  induction ins generalizing bc acc S with
  | nil => exact ⟨_, rfl⟩
  | cons i rest ih =>
    simp only [List.map_cons, List.nodup_cons] at hnd
    obtain ⟨hnS, tx, htx, ht1, ht2⟩ := hex i (by simp)
    have hop : (⟨tx.txid, i.prev.vout⟩ : OutPoint) = i.prev := by cases h : i.prev; simp_all
    have hpres := hs.present tx htx i.prev.vout ht2
    rw [hop] at hpres
    -- the state after taking `i`, and its invariants, from the one-element run
    have hstep : ∀ r1, takeInputEntries cfg [i] bc acc = .ok r1 →
        ∃ r, takeInputEntries cfg rest r1.1 r1.2 = .ok r := by
      intro r1 h1
      have i1 := takeInputEntries_inv cfg ha pre seen [i] bc acc r1 hinv h1
      have s1 := takeInputEntries_spend cfg ha pre seen [i] bc acc r1 S hinv hs h1
      refine ih r1.1 r1.2 (S ++ [i].map (·.prev)) i1 s1 ?_ hnd.2
      intro j hj
      obtain ⟨hjS, hjt⟩ := hex j (List.mem_cons_of_mem _ hj)
      refine ⟨?_, hjt⟩
      simp only [List.map_cons, List.map_nil, List.mem_append, List.mem_singleton, not_or]
      exact ⟨hjS, fun e => hnd.1 (e ▸ List.mem_map.2 ⟨j, hj, rfl⟩)⟩
    simp only [takeInputEntries] at hstep ⊢
    cases hc : AL.get bc.cache i.prev with
    | some e =>
      simp only [hc] at hstep ⊢
      exact hstep _ rfl
    | none =>
      cases hu : AL.get bc.st.utxo i.prev with
      | none =>
        rcases hpres with h | h | h
        · exact absurd h hnS
        · simp [hu] at h
        · simp [hc] at h
      | some e =>
        have hrow : bc.st.script2out.contains (e.script, i.prev) = true := by
          simpa using (hinv.table.exact e.script i.prev).2 ⟨e, hu, rfl⟩
        simp only [hc, hu, ha, if_true, hrow] at hstep ⊢
        exact hstep _ rfl

end Ord.Index
