import OrdModel.Proofs.IndexSchedTx
/-
C12 helper lemmas 4: the simulation relation `TRel` between the concrete block context (cache
holds entries of earlier blocks of the batch; special entries accumulated since the last commit)
and the abstract one (everything of earlier blocks flushed), and its preservation by
`takeInputEntries`, `indexTx`, `indexTxs`.
-/
namespace Ord.Index.Sched
open Ord Ord.Index Outcome

theorem pushHom_mo (P : Option UtxoEntry) (hP : ∀ p, P = some p → p.script = []) : PushHom (mo P) := by
  intro n seq off
  cases P with
  | none => simp
  | some p =>
    have hp := hP p rfl
    cases n with
    | none =>
      obtain ⟨v, r, s, i⟩ := p
      simp only at hp
      subst hp
      simp [mo, pushOpt, pushIns, UtxoEntry.merged, UtxoEntry.empty]
    | some e =>
      simp [mo, pushOpt, pushIns, UtxoEntry.merged, List.append_assoc]

/-- `Pn`, `Pu`: the special entries the concrete cache held at the start of the block -/
structure TRel (cfg : Cfg) (Pn Pu : Option UtxoEntry) (seen : List Txid) (bcC bcA : BlockCtx) : Prop where
  core : core bcC.st = core bcA.st
  ins : bcC.ins = tctx (mo Pn) (mo Pu) bcA.ins
  cbi : bcC.coinbaseInputs = bcA.coinbaseInputs
  lost : bcC.lostRanges = bcA.lostRanges
  ov : ∀ op, op.isSpecial = false → ovN bcC.st.utxo bcC.cache op = ovN bcA.st.utxo bcA.cache op
  spN : AL.get bcA.st.utxo OutPoint.null = mo (AL.get bcC.st.utxo OutPoint.null) Pn
  spU : AL.get bcA.st.utxo OutPoint.unbound = mo (AL.get bcC.st.utxo OutPoint.unbound) Pu
  noAddr : cfg.indexAddresses = false → bcC.st.script2out = bcA.st.script2out
  noIns : cfg.indexInscriptions = false → bcC.st.seq2sp = bcA.st.seq2sp
  invC : BInv cfg seen (tri bcC.st) bcC.cache
  invA : BInv cfg seen (tri bcA.st) bcA.cache

theorem TRel.shape {cfg : Cfg} {Pn Pu : Option UtxoEntry} {seen : List Txid} {bcC bcA : BlockCtx}
    (h : TRel cfg Pn Pu seen bcC bcA) : bcC = tbc (tri bcC.st) (mo Pn) (mo Pu) bcC.cache bcA := by
  have h1 := eq_W_of_core h.core.symm
  have h2 := h.ins
  have h3 := h.cbi
  have h4 := h.lost
  obtain ⟨stC, cC, cbiC, lostC, insC⟩ := bcC
  simp only at h1 h2 h3 h4
  simp only [tbc, BlockCtx.mk.injEq, true_and]
  exact ⟨h1, h3, h4, h2⟩

theorem null_special : OutPoint.null.isSpecial = true := by decide
theorem unbound_special : OutPoint.unbound.isSpecial = true := by decide

theorem takeInputEntries_rel (cfg : Cfg) (Pn Pu : Option UtxoEntry) (seen : List Txid) (inputs : List TxIn)
    (hsp : ∀ i ∈ inputs, i.prev.isSpecial = false) (bcC bcA : BlockCtx) (acc : List (TxIn × UtxoEntry))
    (hT : TRel cfg Pn Pu seen bcC bcA) :
    OutRel (fun rC rA => rC.2 = rA.2 ∧ TRel cfg Pn Pu seen rC.1 rA.1)
      (takeInputEntries cfg inputs bcC acc) (takeInputEntries cfg inputs bcA acc) := by
  induction inputs generalizing bcC bcA acc with
  | nil => simp only [takeInputEntries, OutRel, true_and]; exact hT
  | cons i rest ih =>
    rw [takeInputEntries_cons, takeInputEntries_cons]
    have hi : i.prev.isSpecial = false := hsp i (by simp)
    have hC := takeOne_spec cfg seen bcC i hT.invC
    have hA := takeOne_spec cfg seen bcA i hT.invA
    rw [hT.ov i.prev hi] at hC
    cases h : ovN bcA.st.utxo bcA.cache i.prev with
    | none =>
      rw [h] at hC hA
      simp only at hC hA
      rw [hC, hA]
      simp [OutRel]
    | some e =>
      rw [h] at hC hA
      simp only at hC hA
      obtain ⟨bcC', hC1, hC2⟩ := hC
      obtain ⟨bcA', hA1, hA2⟩ := hA
      rw [hC1, hA1]
      simp only
      apply ih (fun j hj => hsp j (by simp [hj]))
      have hnn : OutPoint.null ≠ i.prev := by
        intro hcon; rw [← hcon, null_special] at hi; cases hi
      have hnu : OutPoint.unbound ≠ i.prev := by
        intro hcon; rw [← hcon, unbound_special] at hi; cases hi
      refine ⟨?_, ?_, ?_, ?_, ?_, ?_, ?_, ?_, ?_, hC2.inv, hA2.inv⟩
      · rw [hC2.core, hA2.core]; exact hT.core
      · rw [hC2.ins, hA2.ins]; exact hT.ins
      · rw [hC2.cbi, hA2.cbi]; exact hT.cbi
      · rw [hC2.lost, hA2.lost]; exact hT.lost
      · intro op hop
        rw [hC2.ov, hA2.ov, hT.ov op hop]
      · rw [hC2.tbl _ hnn, hA2.tbl _ hnn]; exact hT.spN
      · rw [hC2.tbl _ hnu, hA2.tbl _ hnu]; exact hT.spU
      · intro ha; rw [hC2.noAddr ha, hA2.noAddr ha]; exact hT.noAddr ha
      · intro hi'; rw [hC2.seq2sp, hA2.seq2sp]; exact hT.noIns hi'

/-! ### cache insertion -/

/-- insertion of a list of `(vout, entry)` under one txid -/
def setAll (txid : Txid) (l : List (Nat × UtxoEntry)) (c : Cache) : Cache :=
  l.foldl (fun c (vout, e) => AL.set c ⟨txid, vout⟩ e) c

theorem cacheIns_eq (txid : Txid) (outs : List UtxoEntry) (c : Cache) :
    cacheIns txid outs c = setAll txid (enumFrom 0 outs) c := rfl

theorem ovN_set (tbl : List (OutPoint × UtxoEntry)) (c : Cache) (k : OutPoint) (v : UtxoEntry) (op : OutPoint) :
    ovN tbl (AL.set c k v) op = if k == op then some v else ovN tbl c op := by
  unfold ovN
  rw [AL.get_set]
  by_cases h : (k == op) = true <;> simp [h]

theorem ovN_setAll_congr (txid : Txid) (l : List (Nat × UtxoEntry)) (t1 t2 : List (OutPoint × UtxoEntry))
    (c1 c2 : Cache) (op : OutPoint) (h : ovN t1 c1 op = ovN t2 c2 op) :
    ovN t1 (setAll txid l c1) op = ovN t2 (setAll txid l c2) op := by
  induction l generalizing c1 c2 with
  | nil => exact h
  | cons p rest ih =>
    obtain ⟨v, e⟩ := p
    simp only [setAll, List.foldl_cons]
    apply ih
    rw [ovN_set, ovN_set, h]

theorem ovN_setAll_ne_none (txid : Txid) (l : List (Nat × UtxoEntry)) (tbl : List (OutPoint × UtxoEntry))
    (c : Cache) (op : OutPoint) (h : ovN tbl (setAll txid l c) op ≠ none) :
    ovN tbl c op ≠ none ∨ op.txid = txid := by
  induction l generalizing c with
  | nil => exact Or.inl h
  | cons p rest ih =>
    obtain ⟨v, e⟩ := p
    simp only [setAll, List.foldl_cons] at h
    rcases ih _ h with h1 | h1
    · rw [ovN_set] at h1
      by_cases hk : (⟨txid, v⟩ : OutPoint) = op
      · right; rw [← hk]
      · have : ((⟨txid, v⟩ : OutPoint) == op) = false := by simpa using hk
        rw [this] at h1
        exact Or.inl h1
    · exact Or.inr h1

theorem mem_keys_setAll (txid : Txid) (l : List (Nat × UtxoEntry)) (c : Cache) (op : OutPoint)
    (h : op ∈ AL.keys (setAll txid l c)) : op ∈ AL.keys c ∨ op.txid = txid := by
  induction l generalizing c with
  | nil => exact Or.inl h
  | cons p rest ih =>
    obtain ⟨v, e⟩ := p
    simp only [setAll, List.foldl_cons] at h
    rcases ih _ h with h1 | h1
    · rcases (AL.mem_keys_set _ _ _ _).1 h1 with h2 | h2
      · right; rw [h2]
      · exact Or.inl h2
    · exact Or.inr h1

theorem nodup_setAll (txid : Txid) (l : List (Nat × UtxoEntry)) (c : Cache) (h : (AL.keys c).Nodup) :
    (AL.keys (setAll txid l c)).Nodup := by
  induction l generalizing c with
  | nil => exact h
  | cons p rest ih =>
    obtain ⟨v, e⟩ := p
    simp only [setAll, List.foldl_cons]
    exact ih _ (AL.nodup_set _ _ _ h)

theorem special_txid {op : OutPoint} (h : op.isSpecial = true) : op.txid = 0 := by
  unfold OutPoint.isSpecial at h
  simp only [Bool.and_eq_true, beq_iff_eq] at h
  exact h.1

theorem BInv.setAll {cfg : Cfg} {seen : List Txid} {x : Tri} {c : Cache} (h : BInv cfg seen x c)
    (txid : Txid) (l : List (Nat × UtxoEntry)) (h0 : txid ≠ 0) (hfresh : txid ∉ seen) :
    BInv cfg (txid :: seen) x (Sched.setAll txid l c) := by
  have hnoSp : ∀ op ∈ AL.keys (Sched.setAll txid l c), op.isSpecial = false := by
    intro op hm
    rcases mem_keys_setAll _ _ _ _ hm with h1 | h1
    · exact h.noSp op h1
    · cases hs : op.isSpecial with
      | false => rfl
      | true => exact absurd ((special_txid hs).symm.trans h1).symm h0
  refine ⟨h.tinv, ⟨nodup_setAll _ _ _ h.cinv.nodup, ?_, ?_⟩, hnoSp, ?_⟩
  · intro op hs hm
    rcases mem_keys_setAll _ _ _ _ hm with h1 | h1
    · exact h.cinv.disj op hs h1
    · cases hg : AL.get x.utxo op with
      | none => rfl
      | some e =>
        have hne : ovN x.utxo c op ≠ none := by
          unfold ovN
          cases AL.get c op <;> simp [hg]
        rcases h.prov op hne with h2 | h2
        · exact absurd (h1 ▸ h2) h0
        · exact absurd (h1 ▸ h2) hfresh
  · intro op e hs hg
    have hm : op ∈ AL.keys (Sched.setAll txid l c) := by
      apply Classical.byContradiction; intro hcon
      rw [(AL.get_eq_none_iff _ _).2 hcon] at hg; cases hg
    rw [hnoSp op hm] at hs; cases hs
  · intro op hne
    rcases ovN_setAll_ne_none _ _ _ _ _ hne with h1 | h1
    · rcases h.prov op h1 with h2 | h2
      · exact Or.inl h2
      · exact Or.inr (List.mem_cons_of_mem _ h2)
    · exact Or.inr (by rw [h1]; exact List.mem_cons_self)

theorem BInv.mono {cfg : Cfg} {seen seen' : List Txid} {x : Tri} {c : Cache} (h : BInv cfg seen x c)
    (hs : ∀ t, t ∈ seen → t ∈ seen') : BInv cfg seen' x c :=
  ⟨h.tinv, h.cinv, h.noSp, fun op hne => (h.prov op hne).imp id (hs _)⟩

/-! ### one transaction -/

theorem indexTxMid_frame (cfg : Cfg) (blk : Block) (insOn : Bool) (txOffset : Nat) (tx : Tx) (bc : BlockCtx)
    (inputs : List (TxIn × UtxoEntry)) (bc3 : BlockCtx) (outs3 : List UtxoEntry)
    (h : indexTxMid cfg blk insOn txOffset tx bc inputs = .ok (bc3, outs3)) :
    tri bc3.st = tri bc.st ∧ bc3.cache = bc.cache := by
  have := indexTxMid_tbc cfg blk insOn txOffset tx (tri bc.st) id id pushHom_id pushHom_id bc.cache bc inputs
  rw [tbc_id, h] at this
  simp only [omap_ok, Outcome.ok.injEq, Prod.mk.injEq, and_true] at this
  constructor
  · have h1 := congrArg (fun b => tri b.st) this
    simpa [tbc] using h1
  · have h1 := congrArg (fun b => b.cache) this
    simpa [tbc] using h1

theorem indexTx_rel (cfg : Cfg) (blk : Block) (insOn : Bool) (txOffset : Nat) (tx : Tx)
    (Pn Pu : Option UtxoEntry) (seen : List Txid)
    (hPn : ∀ p, Pn = some p → p.script = []) (hPu : ∀ p, Pu = some p → p.script = [])
    (h0 : tx.txid ≠ 0) (hfresh : tx.txid ∉ seen)
    (hsp : txOffset ≠ 0 → ∀ i ∈ tx.inputs, i.prev.isSpecial = false)
    (bcC bcA : BlockCtx) (hT : TRel cfg Pn Pu seen bcC bcA) :
    OutRel (TRel cfg Pn Pu (tx.txid :: seen))
      (indexTx cfg blk insOn txOffset tx bcC) (indexTx cfg blk insOn txOffset tx bcA) := by
  -- the part after input lookup
  have post : ∀ (bc1C bc1A : BlockCtx) (inputs : List (TxIn × UtxoEntry)), TRel cfg Pn Pu seen bc1C bc1A →
      OutRel (TRel cfg Pn Pu (tx.txid :: seen))
        (match indexTxMid cfg blk insOn txOffset tx bc1C inputs with
          | .panic s => .panic s
          | .err e => .err e
          | .ok (bc3, outs3) => .ok { bc3 with cache := cacheIns tx.txid outs3 bc3.cache })
        (match indexTxMid cfg blk insOn txOffset tx bc1A inputs with
          | .panic s => .panic s
          | .err e => .err e
          | .ok (bc3, outs3) => .ok { bc3 with cache := cacheIns tx.txid outs3 bc3.cache }) := by
    intro bc1C bc1A inputs hT1
    obtain ⟨xC, cC, hshape⟩ : ∃ xC cC, bc1C = tbc xC (mo Pn) (mo Pu) cC bc1A := ⟨_, _, hT1.shape⟩
    subst hshape
    rw [indexTxMid_tbc _ _ _ _ _ _ _ _ (pushHom_mo Pn hPn) (pushHom_mo Pu hPu)]
    cases hm : indexTxMid cfg blk insOn txOffset tx bc1A inputs with
    | panic s => simp [OutRel]
    | err e => simp [OutRel]
    | ok r =>
      obtain ⟨bc3A, outs3⟩ := r
      obtain ⟨htri, hcache⟩ := indexTxMid_frame _ _ _ _ _ _ _ _ _ hm
      have hu : bc3A.st.utxo = bc1A.st.utxo := congrArg Tri.utxo htri
      have hq : bc3A.st.seq2sp = bc1A.st.seq2sp := congrArg Tri.seq2sp htri
      have hs : bc3A.st.script2out = bc1A.st.script2out := congrArg Tri.script2out htri
      simp only [omap_ok, OutRel]
      refine ⟨rfl, rfl, rfl, rfl, ?_, ?_, ?_, ?_, ?_, ?_, ?_⟩
      · intro op hop
        show ovN xC.utxo (cacheIns tx.txid outs3 cC) op = ovN bc3A.st.utxo (cacheIns tx.txid outs3 bc3A.cache) op
        rw [cacheIns_eq, cacheIns_eq, hu, hcache]
        exact ovN_setAll_congr _ _ _ _ _ _ _ (hT1.ov op hop)
      · show AL.get bc3A.st.utxo OutPoint.null = mo (AL.get xC.utxo OutPoint.null) Pn
        rw [hu]; exact hT1.spN
      · show AL.get bc3A.st.utxo OutPoint.unbound = mo (AL.get xC.utxo OutPoint.unbound) Pu
        rw [hu]; exact hT1.spU
      · intro ha
        show xC.script2out = bc3A.st.script2out
        rw [hs]; exact hT1.noAddr ha
      · intro hi
        show xC.seq2sp = bc3A.st.seq2sp
        rw [hq]; exact hT1.noIns hi
      · show BInv cfg (tx.txid :: seen) xC (cacheIns tx.txid outs3 cC)
        rw [cacheIns_eq]
        exact BInv.setAll hT1.invC _ _ h0 hfresh
      · show BInv cfg (tx.txid :: seen) (tri bc3A.st) (cacheIns tx.txid outs3 bc3A.cache)
        rw [cacheIns_eq, htri, hcache]
        exact BInv.setAll hT1.invA _ _ h0 hfresh
  rw [indexTx_eq, indexTx_eq]
  by_cases hz : txOffset = 0
  · subst hz
    simp only [if_true]
    exact post _ _ _ hT
  · simp only [hz, if_false]
    have ht := takeInputEntries_rel cfg Pn Pu seen tx.inputs (hsp hz) bcC bcA [] hT
    cases hC : takeInputEntries cfg tx.inputs bcC [] with
    | panic s =>
      cases hA : takeInputEntries cfg tx.inputs bcA [] <;> simp_all [OutRel]
    | err e =>
      cases hA : takeInputEntries cfg tx.inputs bcA [] <;> simp_all [OutRel]
    | ok rC =>
      cases hA : takeInputEntries cfg tx.inputs bcA [] with
      | panic s => simp_all [OutRel]
      | err e => simp_all [OutRel]
      | ok rA =>
        rw [hC, hA] at ht
        obtain ⟨bc1C, inC⟩ := rC
        obtain ⟨bc1A, inA⟩ := rA
        simp only [OutRel] at ht
        obtain ⟨hin, hT1⟩ := ht
        subst hin
        exact post _ _ _ hT1

/-- txids of a list of indexed transactions, most recent first, on top of `seen` -/
def seenAfter (l : List (Nat × Tx)) (seen : List Txid) : List Txid :=
  l.foldl (fun s p => p.2.txid :: s) seen

theorem mem_seenAfter (l : List (Nat × Tx)) (seen : List Txid) (t : Txid) :
    t ∈ seenAfter l seen ↔ t ∈ seen ∨ t ∈ l.map (·.2.txid) := by
  induction l generalizing seen with
  | nil => simp [seenAfter]
  | cons p rest ih =>
    simp only [seenAfter, List.foldl_cons] at ih ⊢
    rw [ih]
    simp only [List.mem_cons, List.map_cons]
    constructor
    · rintro ((h | h) | h)
      · exact Or.inr (Or.inl h)
      · exact Or.inl h
      · exact Or.inr (Or.inr h)
    · rintro (h | h | h)
      · exact Or.inl (Or.inr h)
      · exact Or.inl (Or.inl h)
      · exact Or.inr h

theorem indexTxs_rel (cfg : Cfg) (blk : Block) (insOn : Bool)
    (Pn Pu : Option UtxoEntry)
    (hPn : ∀ p, Pn = some p → p.script = []) (hPu : ∀ p, Pu = some p → p.script = [])
    (l : List (Nat × Tx)) (seen : List Txid)
    (h0 : ∀ p ∈ l, p.2.txid ≠ 0)
    (hnd : (l.map (·.2.txid)).Nodup) (hfresh : ∀ p ∈ l, p.2.txid ∉ seen)
    (hsp : ∀ p ∈ l, p.1 ≠ 0 → ∀ i ∈ p.2.inputs, i.prev.isSpecial = false)
    (bcC bcA : BlockCtx) (hT : TRel cfg Pn Pu seen bcC bcA) :
    OutRel (TRel cfg Pn Pu (seenAfter l seen))
      (indexTxs cfg blk insOn l bcC) (indexTxs cfg blk insOn l bcA) := by
  induction l generalizing seen bcC bcA with
  | nil => simpa [indexTxs, OutRel, seenAfter] using hT
  | cons p rest ih =>
    obtain ⟨i, tx⟩ := p
    simp only [indexTxs]
    have h1 := indexTx_rel cfg blk insOn i tx Pn Pu seen hPn hPu (h0 (i, tx) (by simp))
      (hfresh (i, tx) (by simp)) (hsp (i, tx) (by simp)) bcC bcA hT
    simp only [List.map_cons, List.nodup_cons] at hnd
    cases hC : indexTx cfg blk insOn i tx bcC with
    | panic s => cases hA : indexTx cfg blk insOn i tx bcA <;> simp_all [OutRel]
    | err e => cases hA : indexTx cfg blk insOn i tx bcA <;> simp_all [OutRel]
    | ok bcC' =>
      cases hA : indexTx cfg blk insOn i tx bcA with
      | panic s => simp_all [OutRel]
      | err e => simp_all [OutRel]
      | ok bcA' =>
        rw [hC, hA] at h1
        simp only [OutRel] at h1
        simp only
        have := ih (tx.txid :: seen) (fun p hp => h0 p (by simp [hp])) hnd.2
          (fun p hp => by
            intro hcon
            rcases List.mem_cons.1 hcon with h | h
            · exact hnd.1 (List.mem_map.2 ⟨p, hp, h⟩)
            · exact hfresh p (by simp [hp]) h)
          (fun p hp => hsp p (by simp [hp])) bcC' bcA' h1
        simpa [seenAfter] using this

end Ord.Index.Sched
