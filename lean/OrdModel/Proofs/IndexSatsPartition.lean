import OrdModel.Proofs.IndexSatsFind
import OrdModel.Proofs.IndexSatsChain
/-
The partition invariant of C02 and the soundness of the executable `partitionOracle`
(what the driver evaluates on the implementation's dump rows) with respect to it.
-/
namespace Ord.Index

/-- Every sat held by the table is held once, was mined, and every range is non-empty.
(Chains with duplicate txids: the displaced sats are simply absent.) -/
structure SatsPartitioned (st : State) : Prop where
  wf : WF (allRanges st.utxo)
  nodup : (allSats st.utxo).Nodup
  mined : ∀ s ∈ allSats st.utxo, s < startingSat st.height

/-- … and, when no txid was ever duplicated, every mined sat is there. -/
structure SatsPartitionedExact (st : State) : Prop extends SatsPartitioned st where
  perm : (allSats st.utxo).Perm (List.range (startingSat st.height))

theorem satsPartitioned_empty : SatsPartitionedExact ({} : State) := by
  refine ⟨⟨?_, ?_, ?_⟩, ?_⟩
  · intro r hr; simp [allRanges] at hr
  · simp [allSats, allRanges]
  · intro s hs; simp [allSats, allRanges] at hs
  · simp [allSats, allRanges, startingSat_zero]

theorem den_perm {a b : Ranges} (h : a.Perm b) : (den a).Perm (den b) := by
  induction h with
  | nil => exact List.Perm.refl _
  | cons x _ ih => obtain ⟨s, e⟩ := x; simp only [den_cons]; exact List.Perm.append_left _ ih
  | swap x y l =>
    obtain ⟨s, e⟩ := x; obtain ⟨s', e'⟩ := y
    simp only [den_cons, ← List.append_assoc]
    exact List.Perm.append_right _ List.perm_append_comm
  | trans _ _ ih1 ih2 => exact ih1.trans ih2

/-- a gap-free chain of non-empty ranges from `lo` to `hi` denotes exactly `lo, …, hi-1` -/
theorem chainFrom_den {lo hi : Nat} {rs : Ranges} (h : chainFrom lo rs hi = true) :
    den rs = List.range' lo (hi - lo) ∧ lo ≤ hi ∧ WF rs := by
  induction rs generalizing lo with
  | nil =>
    simp only [chainFrom, beq_iff_eq] at h
    subst h; simp [WF_nil]
  | cons r rs ih =>
    obtain ⟨s, e⟩ := r
    simp only [chainFrom, Bool.and_eq_true, beq_iff_eq, decide_eq_true_eq] at h
    obtain ⟨⟨h1, h2⟩, h3⟩ := h
    subst h1
    obtain ⟨hd, hle, hwf⟩ := ih h3
    refine ⟨?_, by omega, WF_cons.mpr ⟨h2, hwf⟩⟩
    rw [den_cons, hd]
    have : hi - s = (e - s) + (hi - e) := by omega
    rw [this, ← List.range'_append_1]
    congr 2; omega

theorem sortRanges_perm (rs : Ranges) : (sortRanges rs).Perm rs := List.mergeSort_perm _ _

/-- **Soundness of the partition oracle**: if the sorted ranges of all rows tile `[0, N)` then the
sats of the rows are a permutation of `0 … N-1` (in particular no sat occurs twice) and every
range is non-empty. -/
theorem chainFrom_sorted_perm {rs : Ranges} {n : Nat} (h : chainFrom 0 (sortRanges rs) n = true) :
    (den rs).Perm (List.range n) ∧ (den rs).Nodup ∧ WF rs := by
  obtain ⟨hd, _, hwf⟩ := chainFrom_den h
  have hp : (den rs).Perm (List.range n) := by
    have := den_perm (sortRanges_perm rs)
    rw [hd] at this
    simpa [List.range_eq_range'] using this.symm
  refine ⟨hp, hp.nodup_iff.mpr List.nodup_range, ?_⟩
  intro r hr
  exact hwf r ((sortRanges_perm rs).mem_iff.mpr hr)

end Ord.Index
