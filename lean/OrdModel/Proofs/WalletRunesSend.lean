import OrdModel.Proofs.WalletRunesSpec
/-
C22 helper lemmas, part 2: the wallet's name-keyed bookkeeping translated to rune ids, and the
send / burn transaction.
-/
namespace Ord.Wallet.RuneTx
open Ord Ord.Index Ord.Index.Spec

/-- units of rune id `q` on an output whose balances the wallet knows by name -/
def unitsOf (ids : Nat → RuneId) (runes : List (Nat × Nat)) (q : RuneId) : Nat :=
  ((runes.filter (fun p => decide (ids p.1 = q))).map (·.2)).sum

/-- units of rune id `q` held by the chosen inputs -/
def inputOf (ids : Nat → RuneId) (sel : List Input) (q : RuneId) : Nat :=
  (sel.map (fun i => unitsOf ids i.2 q)).sum

/-- the server's name → id answer is one-to-one and never `0:0` -/
structure GoodIds (ids : Nat → RuneId) : Prop where
  inj : ∀ a b, ids a = ids b → a = b
  nz : ∀ a, ids a ≠ ⟨0, 0⟩

theorem unitsOf_ids {ids : Nat → RuneId} (h : GoodIds ids) (runes : List (Nat × Nat)) (r : Nat) :
    unitsOf ids runes (ids r) = bal runes r := by
  unfold unitsOf bal
  congr 2
  apply List.filter_congr
  intro p _
  by_cases hp : p.1 = r
  · simp [hp]
  · have : ids p.1 ≠ ids r := fun hc => hp (h.inj _ _ hc)
    simp [hp, this]

theorem inputOf_ids {ids : Nat → RuneId} (h : GoodIds ids) (sel : List Input) (r : Nat) :
    inputOf ids sel (ids r) = total sel r := by
  unfold inputOf total
  congr 1
  apply List.map_congr_left
  intro i _
  exact unitsOf_ids h i.2 r

theorem unitsOf_zero (ids : Nat → RuneId) (runes : List (Nat × Nat)) (q : RuneId)
    (h : ∀ p ∈ runes, ids p.1 ≠ q) : unitsOf ids runes q = 0 := by
  unfold unitsOf
  have : runes.filter (fun p => decide (ids p.1 = q)) = [] := by
    apply List.filter_eq_nil_iff.mpr
    intro p hp
    simpa using h p hp
  rw [this]; rfl

theorem sum_zero_of_all_zero : ∀ (l : List Nat), (∀ x ∈ l, x = 0) → l.sum = 0 := by
  intro l
  induction l with
  | nil => intro _; rfl
  | cons a t ih =>
    intro h
    have ha := h a (List.mem_cons_self ..)
    have ht := ih (fun x hx => h x (List.mem_cons_of_mem _ hx))
    simp [ha, ht]

theorem inputOf_zero (ids : Nat → RuneId) (sel : List Input) (q : RuneId)
    (h : ∀ i ∈ sel, ∀ p ∈ i.2, ids p.1 ≠ q) : inputOf ids sel q = 0 := by
  unfold inputOf
  apply sum_zero_of_all_zero
  intro x hx
  rcases List.mem_map.mp hx with ⟨i, hi, rfl⟩
  exact unitsOf_zero ids i.2 q (h i hi)

/-! ### `dedup` / `names` -/

theorem mem_dedup : ∀ (l : List Nat) (a : Nat), a ∈ dedup l ↔ a ∈ l := by
  intro l
  induction l with
  | nil => intro a; simp [dedup]
  | cons b t ih =>
    intro a
    simp only [dedup]
    split
    · rename_i hb
      rw [ih a, List.mem_cons]
      constructor
      · exact Or.inr
      · rintro (h | h)
        · subst h; exact (ih a).mp hb
        · exact h
    · rw [List.mem_cons, List.mem_cons, ih a]

theorem dedup_nodup : ∀ (l : List Nat), (dedup l).Nodup := by
  intro l
  induction l with
  | nil => simp [dedup]
  | cons b t ih =>
    simp only [dedup]
    split
    · exact ih
    · rename_i hb
      exact List.nodup_cons.mpr ⟨hb, ih⟩

/-- a duplicate-free list of length ≤ 1 containing `r` contains nothing else -/
theorem only_of_short (l : List Nat) (r : Nat) (hn : l.Nodup) (hl : l.length ≤ 1) (hr : r ∈ l) :
    ∀ a ∈ l, a = r := by
  match l, hl with
  | [], _ => simp at hr
  | [x], _ =>
    intro a ha
    simp at hr ha
    rw [ha, hr]
  | _ :: _ :: _, h => simp at h

theorem mem_names (sel : List Input) (n : Nat) : n ∈ names sel ↔ ∃ i ∈ sel, ∃ p ∈ i.2, p.1 = n := by
  unfold names
  rw [mem_dedup]
  simp only [List.mem_flatMap, List.mem_map]

theorem bal_pos_mem (runes : List (Nat × Nat)) (r : Nat) (h : 0 < bal runes r) : ∃ p ∈ runes, p.1 = r := by
  unfold bal at h
  by_cases hne : runes.filter (fun p => p.1 == r) = []
  · rw [hne] at h; simp at h
  · rcases List.exists_mem_of_ne_nil _ hne with ⟨p, hp⟩
    rw [List.mem_filter] at hp
    exact ⟨p, hp.1, by simpa using hp.2⟩

theorem total_pos_mem (sel : List Input) (r : Nat) (h : 0 < total sel r) : r ∈ names sel := by
  rw [mem_names]
  unfold total at h
  by_cases hall : ∀ x ∈ sel.map (fun i => bal i.2 r), x = 0
  · rw [sum_zero_of_all_zero _ hall] at h; omega
  · have : ∃ x ∈ sel.map (fun i => bal i.2 r), x ≠ 0 := by
      false_or_by_contra
      apply hall
      intro x hx
      false_or_by_contra
      rename_i hcon hx0
      exact hcon ⟨x, hx, hx0⟩
    rcases this with ⟨x, hx, hx0⟩
    rcases List.mem_map.mp hx with ⟨i, hi, rfl⟩
    rcases bal_pos_mem i.2 r (by omega) with ⟨p, hp, hpr⟩
    exact ⟨i, hi, p, hp, hpr⟩

/-- when the inputs hold a single rune name `r`, they hold nothing of any other rune id -/
theorem inputOf_other_zero {ids : Nat → RuneId} (h : GoodIds ids) (sel : List Input) (r : Nat) (q : RuneId)
    (hl : (names sel).length ≤ 1) (hr : 0 < total sel r) (hq : q ≠ ids r) : inputOf ids sel q = 0 := by
  apply inputOf_zero
  intro i hi p hp hc
  have hmem : p.1 ∈ names sel := (mem_names sel p.1).mpr ⟨i, hi, p, hp, rfl⟩
  have := only_of_short (names sel) r (dedup_nodup _) hl (total_pos_mem sel r hr) p.1 hmem
  rw [this] at hc
  exact hq hc.symm

end Ord.Wallet.RuneTx
