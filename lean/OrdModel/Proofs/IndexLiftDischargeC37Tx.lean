import OrdModel.Proofs.IndexLiftDischargeC37Uil
import OrdModel.Proofs.IndexInslocCarry
/-
C37, inscription components, part 2: `index_inscriptions` for one transaction — the runs of
`update_inscription_location` (`applyLocations`, `applyLost`), the placement phase (`placeTx`) and
the whole transaction — against the replay of the events they emit.
-/
namespace Ord.Index.ReplayIns
open Ord Ord.Index Outcome Insloc

/-- running a piece of the inscription updater from `ls` to `ls'` appends events whose replay keeps
`EInv` and `Track` (`X` = listings that the piece does not touch: the block's UTXO cache) -/
def Ran (c : List Block) (t : Txid) (X : OutPoint → Nat → Nat → Prop) (rs : ReplayState) (T : List Nat)
    (ls ls' : LocState) (F' : Nat → Prop) : Prop :=
  ∃ evs, ls'.ctx.events = ls.ctx.events ++ evs ∧ EInv (evs.foldl (applyEvent c) rs) ls'.st ∧
    Track (evs.foldl (applyEvent c) rs) (T ++ evs.filterMap evSeq)
      (fun o s off => X o s off ∨ lsListed t ls' o s off) F'

theorem oldSeqs_cons_ne (fl : Flotsam) (rest : List Flotsam) (n s : Nat) (hs : s ≠ flSeq n fl)
    (h : s ∈ oldSeqs (fl :: rest)) : s ∈ oldSeqs rest := by
  cases ho : fl.origin with
  | old seq osp =>
    rw [(oldSeqs_cons_old fl rest seq osp ho).1] at h
    have hq : flSeq n fl = seq := by simp [flSeq, ho]
    rcases List.mem_cons.1 h with h | h
    · exact absurd (h.trans hq.symm) hs
    · exact h
  | new a b c d e f g i =>
    rw [(oldSeqs_cons_new fl rest (by simp [isNew, ho])).1] at h; exact h

theorem Ran.step {c : List Block} {t : Txid} {X : OutPoint → Nat → Nat → Prop} {rs : ReplayState} {T : List Nat}
    {ls ls1 ls' : LocState} {F' : Nat → Prop} (ev : Event) (q : Nat)
    (e1 : ls1.ctx.events = ls.ctx.events ++ [ev]) (e2 : evSeq ev = some q)
    (h : Ran c t X (applyEvent c rs ev) (T ++ [q]) ls1 ls' F') : Ran c t X rs T ls ls' F' := by
  obtain ⟨evs, r1, r2, r3⟩ := h
  refine ⟨ev :: evs, by rw [r1, e1]; simp, by simpa using r2, ?_⟩
  have : T ++ (ev :: evs).filterMap evSeq = T ++ [q] ++ evs.filterMap evSeq := by
    simp [e2]
  rw [this]
  simpa using r3

theorem applyLocations_track (c : List Block) (cfg : Cfg) (height time : Nat) (ir : Option (List (Nat × Nat)))
    (t : Txid) (X : OutPoint → Nat → Nat → Prop) (G : Nat → Prop) :
    ∀ (locs : List (SatPoint × Flotsam × Bool)) (ls ls' : LocState) (rs : ReplayState) (T : List Nat),
    applyLocations cfg height time ir locs ls = .ok ls' →
    (∀ x ∈ locs, x.1.outpoint.txid = t ∧ x.2.2 = isOpReturnOut c x.1.outpoint) →
    EInv rs ls.st →
    Track rs T (fun o s off => X o s off ∨ lsListed t ls o s off)
      (fun s => s ∈ oldSeqs (locs.map (·.2.1)) ∨ G s) →
    Ran c t X rs T ls ls' G ∧ ls'.ctx.flotsam = ls.ctx.flotsam
  | [], ls, ls', rs, T, h, _, hE, hT => by
    simp only [applyLocations, ok.injEq] at h; subst h
    refine ⟨⟨[], by simp, hE, ?_⟩, rfl⟩
    simp only [List.filterMap_nil, List.append_nil, List.foldl_nil]
    exact hT.mono (fun _ _ _ h => h) (fun _ _ _ h => Or.inl h) (fun s h => by simpa using h)
  | (sp, fl, opr) :: rest, ls, ls', rs, T, h, hx, hE, hT => by
    simp only [applyLocations] at h
    split at h
    · simp at h
    · simp at h
    · next ls1 h1 =>
      obtain ⟨hx1, hx2⟩ := hx (sp, fl, opr) List.mem_cons_self
      simp only at hx1 hx2
      obtain ⟨ev, lc, e1, e2, e3, e4, e5, e6⟩ := uil_event c cfg height time ir fl sp opr
        (.output sp.outpoint.vout) ls ls1 t h1
        (fun v hv => by cases hv; rw [← hx1]) (fun hn => by cases hn) hx2 rs hE
      have hT1 : Track (applyEvent c rs ev) (T ++ [flSeq ls.st.entries.length fl])
          (fun o s off => X o s off ∨ lsListed t ls1 o s off)
          (fun s => s ∈ oldSeqs (rest.map (·.2.1)) ∨ G s) := by
        refine hT.push _ lc e4 (fun o s off => ?_) (fun s hs hF => ?_)
        · rw [e5 o s off]
          constructor
          · rintro (h | h | h)
            · exact Or.inl (Or.inl h)
            · exact Or.inl (Or.inr h)
            · exact Or.inr h
          · rintro ((h | h) | h)
            · exact Or.inl h
            · exact Or.inr (Or.inl h)
            · exact Or.inr (Or.inr h)
        · rcases hF with hF | hF
          · exact Or.inl (oldSeqs_cons_ne fl _ _ s hs (by simpa using hF))
          · exact Or.inr hF
      obtain ⟨r, r4⟩ := applyLocations_track c cfg height time ir t X G rest ls1 ls' (applyEvent c rs ev) _ h
        (fun x hx' => hx x (List.mem_cons_of_mem _ hx')) e3 hT1
      exact ⟨Ran.step ev _ e1 e2 r, r4.trans e6⟩

theorem applyLost_track (c : List Block) (cfg : Cfg) (height time : Nat) (ir : Option (List (Nat × Nat)))
    (t : Txid) (X : OutPoint → Nat → Nat → Prop) (G : Nat → Prop) (ov : Nat)
    (hz : isOpReturnOut c OutPoint.null = false) :
    ∀ (fls : List Flotsam) (ls ls' : LocState) (rs : ReplayState) (T : List Nat),
    applyLost cfg height time ir ov fls ls = .ok ls' →
    EInv rs ls.st →
    Track rs T (fun o s off => X o s off ∨ lsListed t ls o s off) (fun s => s ∈ oldSeqs fls ∨ G s) →
    Ran c t X rs T ls ls' G ∧ ls'.ctx.flotsam = ls.ctx.flotsam
  | [], ls, ls', rs, T, h, hE, hT => by
    simp only [applyLost, ok.injEq] at h; subst h
    refine ⟨⟨[], by simp, hE, ?_⟩, rfl⟩
    simp only [List.filterMap_nil, List.append_nil, List.foldl_nil]
    exact hT.mono (fun _ _ _ h => h) (fun _ _ _ h => Or.inl h) (fun s h => by simpa using h)
  | fl :: rest, ls, ls', rs, T, h, hE, hT => by
    simp only [applyLost] at h
    split at h
    · simp at h
    · simp at h
    · next ls1 h1 =>
      obtain ⟨ev, lc, e1, e2, e3, e4, e5, e6⟩ := uil_event c cfg height time ir fl
        ⟨OutPoint.null, ls.ctx.lostSats + fl.offset - ov⟩ false .null ls ls1 t h1
        (fun v hv => by cases hv) (fun _ => rfl) hz.symm rs hE
      have hT1 : Track (applyEvent c rs ev) (T ++ [flSeq ls.st.entries.length fl])
          (fun o s off => X o s off ∨ lsListed t ls1 o s off)
          (fun s => s ∈ oldSeqs rest ∨ G s) := by
        refine hT.push _ lc e4 (fun o s off => ?_) (fun s hs hF => ?_)
        · rw [e5 o s off]
          constructor
          · rintro (h | h | h)
            · exact Or.inl (Or.inl h)
            · exact Or.inl (Or.inr h)
            · exact Or.inr h
          · rintro ((h | h) | h)
            · exact Or.inl h
            · exact Or.inr (Or.inl h)
            · exact Or.inr (Or.inr h)
        · rcases hF with hF | hF
          · exact Or.inl (oldSeqs_cons_ne fl _ _ s hs hF)
          · exact Or.inr hF
      obtain ⟨r, r4⟩ := applyLost_track c cfg height time ir t X G ov hz rest ls1 ls' (applyEvent c rs ev) _ h e3 hT1
      exact ⟨Ran.step ev _ e1 e2 r, r4.trans e6⟩

theorem Ran.trans {c : List Block} {t : Txid} {X : OutPoint → Nat → Nat → Prop} {rs : ReplayState} {T : List Nat}
    {ls ls1 ls2 : LocState} {F1 F2 : Nat → Prop}
    (h1 : Ran c t X rs T ls ls1 F1)
    (h2 : ∀ rs1 T1, EInv rs1 ls1.st →
      Track rs1 T1 (fun o s off => X o s off ∨ lsListed t ls1 o s off) F1 → Ran c t X rs1 T1 ls1 ls2 F2) :
    Ran c t X rs T ls ls2 F2 := by
  obtain ⟨evs1, a1, a2, a3⟩ := h1
  obtain ⟨evs2, b1, b2, b3⟩ := h2 _ _ a2 a3
  refine ⟨evs1 ++ evs2, by rw [b1, a1, List.append_assoc], by rw [List.foldl_append]; exact b2, ?_⟩
  rw [List.foldl_append, List.filterMap_append, ← List.append_assoc]
  exact b3

theorem Ran.congr {c : List Block} {t : Txid} {X : OutPoint → Nat → Nat → Prop} {rs : ReplayState} {T : List Nat}
    {a a' b b' : LocState} {F F' : Nat → Prop} (h : Ran c t X rs T a b F)
    (hs : a'.ctx.events = a.ctx.events) (he : b'.ctx.events = b.ctx.events) (hst : b'.st = b.st)
    (ho : b'.outs = b.outs) (hn : b'.ctx.nullEntry = b.ctx.nullEntry)
    (hub : b'.ctx.unboundEntry = b.ctx.unboundEntry) (hF : ∀ s, F s → F' s) : Ran c t X rs T a' b' F' := by
  obtain ⟨evs, r1, r2, r3⟩ := h
  refine ⟨evs, by rw [he, hs]; exact r1, by rw [hst]; exact r2, ?_⟩
  unfold lsListed at r3 ⊢
  rw [ho, hn, hub]
  exact r3.mono (fun _ _ _ h => h) (fun _ _ _ h => Or.inl h) hF

/-- what `assignOutputs` hands to `applyLocations`: outpoints of this transaction, flagged with the
OP_RETURN-ness the chain records for them -/
theorem assignOutputs_locs (c : List Block) (tx : Tx) (hfind : findTx c tx.txid = some tx) (fls : List Flotsam)
    (hs : fls.Pairwise (fun x y => x.offset ≤ y.offset)) :
    ∀ x ∈ (assignOutputs tx.txid tx.outputs 0 0 fls []).1,
      x.1.outpoint.txid = tx.txid ∧ x.2.2 = isOpReturnOut c x.1.outpoint := by
  intro x hx
  obtain ⟨h1, _⟩ := assignOutputs_place tx.txid tx.outputs 0 0 fls [] hs (fun _ _ => Nat.zero_le _)
  rcases h1 x hx with hacc | ⟨j, o, hj, _, _, _, hsp, hop⟩
  · cases hacc
  · rw [hsp]
    refine ⟨rfl, ?_⟩
    simp only [isOpReturnOut, hfind, Nat.zero_add, hj]
    exact hop

theorem mem_oldSeqs_assign (txid : Txid) (outs : List TxOut) (fl0 : List Flotsam) (s : Nat) :
    s ∈ oldSeqs fl0 ↔
      s ∈ oldSeqs ((assignOutputs txid outs 0 0 (sortByKey (·.offset) fl0) []).1.map (·.2.1)) ∨
      s ∈ oldSeqs (assignOutputs txid outs 0 0 (sortByKey (·.offset) fl0) []).2.1 := by
  obtain ⟨hc, _⟩ := assignOutputs_conserve txid outs 0 0 (sortByKey (·.offset) fl0) []
  simp only [List.map_nil, List.nil_append] at hc
  rw [← List.mem_append, ← oldSeqs_append, hc]
  exact (oldSeqs_perm (sortByKey_perm (·.offset) fl0)).mem_iff.symm

/-- **The placement phase of one transaction.**  Before: the replay tracks the listings, with the
scanned flotsam and the flotsam saved for the coinbase in flight.  After: it tracks them with only
the flotsam saved for the coinbase in flight (none, if this is the coinbase). -/
theorem placeTx_track (c : List Block) (cfg : Cfg) (height time : Nat) (tx : Tx) (ir : Option (List (Nat × Nat)))
    (cb : Bool) (totalIn : Nat) (floating : List Flotsam) (st1 : State) (ls ls' : LocState)
    (X : OutPoint → Nat → Nat → Prop) (G : Nat → Prop) (rs : ReplayState) (T : List Nat)
    (hfind : findTx c tx.txid = some tx) (hz : isOpReturnOut c OutPoint.null = false)
    (he : st1.entries = ls.st.entries) (hu : st1.unbound = ls.st.unbound)
    (h : placeTx cfg height time tx ir cb totalIn floating st1 ls = .ok ls')
    (hE : EInv rs ls.st)
    (hT : Track rs T (fun o s off => X o s off ∨ lsListed tx.txid ls o s off)
        (fun s => s ∈ oldSeqs floating ∨ s ∈ oldSeqs ls.ctx.flotsam ∨ G s)) :
    Ran c tx.txid X rs T ls ls' (fun s => s ∈ oldSeqs ls'.ctx.flotsam ∨ G s) := by
  have hE1 : EInv rs st1 := hE.congr he hu
  cases cb with
  | true =>
    simp only [placeTx, ↓reduceIte] at h
    have hlocs := assignOutputs_locs c tx hfind (sortByKey (·.offset) (floating ++ ls.ctx.flotsam))
      (sortByKey_sorted _ _)
    have hmem := mem_oldSeqs_assign tx.txid tx.outputs (floating ++ ls.ctx.flotsam)
    obtain ⟨r, hr⟩ : ∃ r, r = assignOutputs tx.txid tx.outputs 0 0 (sortByKey (·.offset) (floating ++ ls.ctx.flotsam)) [] :=
      ⟨_, rfl⟩
    rw [← hr] at h hlocs hmem
    split at h
    · simp at h
    · simp at h
    · next ls2 h2 =>
      split at h
      · simp at h
      · simp at h
      · next ls3 h3 =>
        split at h
        · simp at h
        · simp only [ok.injEq] at h; subst h
          have hT0 : Track rs T
              (fun o s off => X o s off ∨ lsListed tx.txid
                { st := st1, ctx := { ls.ctx with flotsam := [] }, outs := ls.outs } o s off)
              (fun s => s ∈ oldSeqs (r.1.map (·.2.1)) ∨ (s ∈ oldSeqs r.2.1 ∨ G s)) := by
            refine hT.mono (fun _ _ _ h => h) (fun _ _ _ h => Or.inl h) (fun s hs => ?_)
            rcases hs with hs | hs | hs
            · rcases (hmem s).1 (by rw [oldSeqs_append]; exact List.mem_append_left _ hs) with h | h
              · exact Or.inl h
              · exact Or.inr (Or.inl h)
            · rcases (hmem s).1 (by rw [oldSeqs_append]; exact List.mem_append_right _ hs) with h | h
              · exact Or.inl h
              · exact Or.inr (Or.inl h)
            · exact Or.inr (Or.inr hs)
          obtain ⟨ran2, fl2⟩ := applyLocations_track c cfg height time ir tx.txid X
            (fun s => s ∈ oldSeqs r.2.1 ∨ G s) r.1 _ ls2 rs T h2 hlocs hE1 hT0
          have ran3 : Ran c tx.txid X rs T { st := st1, ctx := { ls.ctx with flotsam := [] }, outs := ls.outs }
              ls3 G := by
            refine ran2.trans (fun rs1 T1 hE2 hT2 => ?_)
            exact (applyLost_track c cfg height time ir tx.txid X G r.2.2 hz r.2.1 ls2 ls3 rs1 T1 h3 hE2 hT2).1
          exact ran3.congr rfl rfl rfl rfl rfl rfl (fun s hs => Or.inr hs)
  | false =>
    simp only [placeTx, Bool.false_eq_true, ↓reduceIte] at h
    have hlocs := assignOutputs_locs c tx hfind (sortByKey (·.offset) floating) (sortByKey_sorted _ _)
    have hmem := mem_oldSeqs_assign tx.txid tx.outputs floating
    obtain ⟨r, hr⟩ : ∃ r, r = assignOutputs tx.txid tx.outputs 0 0 (sortByKey (·.offset) floating) [] := ⟨_, rfl⟩
    rw [← hr] at h hlocs hmem
    split at h
    · simp at h
    · simp at h
    · next ls2 h2 =>
      split at h
      · simp at h
      · simp only [ok.injEq] at h; subst h
        have hT0 : Track rs T
            (fun o s off => X o s off ∨ lsListed tx.txid { st := st1, ctx := ls.ctx, outs := ls.outs } o s off)
            (fun s => s ∈ oldSeqs (r.1.map (·.2.1)) ∨ (s ∈ oldSeqs r.2.1 ∨ s ∈ oldSeqs ls.ctx.flotsam ∨ G s)) := by
          refine hT.mono (fun _ _ _ h => h) (fun _ _ _ h => Or.inl h) (fun s hs => ?_)
          rcases hs with hs | hs | hs
          · rcases (hmem s).1 hs with h | h
            · exact Or.inl h
            · exact Or.inr (Or.inl h)
          · exact Or.inr (Or.inr (Or.inl hs))
          · exact Or.inr (Or.inr (Or.inr hs))
        obtain ⟨ran2, fl2⟩ := applyLocations_track c cfg height time ir tx.txid X
          (fun s => s ∈ oldSeqs r.2.1 ∨ s ∈ oldSeqs ls.ctx.flotsam ∨ G s) r.1 _ ls2 rs T h2 hlocs hE1 hT0
        simp only at fl2
        refine ran2.congr rfl rfl rfl rfl rfl rfl (fun s hs => ?_)
        simp only
        rw [oldSeqs_append, fl2,
          (oldSeqs_map_origin (fun f => { f with offset := ls2.ctx.reward + f.offset - r.2.2 }) (fun _ => rfl) r.2.1).1]
        rcases hs with hs | hs | hs
        · exact Or.inl (List.mem_append_right _ hs)
        · exact Or.inl (List.mem_append_left _ hs)
        · exact Or.inr hs

/-- **`index_inscriptions` for one transaction**, against the replay: with the inscriptions of the
spent inputs in flight before, every event emitted is mirrored by a table write / a push, and
afterwards only what was saved for the coinbase is in flight. -/
theorem indexInscriptions_track (c : List Block) (cfg : Cfg) (height time : Nat) (tx : Tx)
    (inputs : List (TxIn × UtxoEntry)) (ir : Option (List (Nat × Nat))) (ls ls' : LocState)
    (X : OutPoint → Nat → Nat → Prop) (G : Nat → Prop) (rs : ReplayState) (T : List Nat)
    (hfind : findTx c tx.txid = some tx) (hz : isOpReturnOut c OutPoint.null = false)
    (h : indexInscriptions cfg height time tx inputs ir ls = .ok ls')
    (hE : EInv rs ls.st)
    (hT : Track rs T (fun o s off => X o s off ∨ lsListed tx.txid ls o s off)
        (fun s => s ∈ inputSeqs inputs ∨ s ∈ oldSeqs ls.ctx.flotsam ∨ G s)) :
    Ran c tx.txid X rs T ls ls' (fun s => s ∈ oldSeqs ls'.ctx.flotsam ∨ G s) := by
  rw [indexInscriptions_eq] at h
  split at h
  · simp at h
  · simp at h
  · next sc hsc =>
    split at h
    · simp at h
    · split at h
      · simp at h
      · obtain ⟨F, f1, f2, _, _⟩ := scanInputs_spec _ _ _ _ _ _ _ _ _ _ hsc
        simp only [List.nil_append] at f1
        obtain ⟨k1, _⟩ := txFloating_kind tx sc
        refine placeTx_track c cfg height time tx ir _ _ _ _ ls ls' X G rs T hfind hz
          (by split <;> rfl) (by split <;> rfl) h hE
          (hT.mono (fun _ _ _ h => h) (fun _ _ _ h => Or.inl h) (fun s hs => ?_))
        rcases hs with hs | hs
        · left; rw [k1, f1]; exact f2.mem_iff.2 hs
        · exact Or.inr hs

end Ord.Index.ReplayIns
