import OrdModel.Proofs.RunestoneDecipher
import OrdModel.Theorems.C26
/-! Helper lemmas for C25: the encipher direction (push builder, chunking, varint lists,
delta-encoded edicts) and the round trip. -/
namespace Ord.Script
open Ord.Varint (toNat_ofNat_lt)

theorem takePush_append (c rest : List UInt8) :
    takePush c.length (c ++ rest) = (.ok (.push c), rest) := by
  simp [takePush]

/-- what `push_slice` appends is read back by the instruction iterator as exactly that push -/
theorem next_pushSlice (c rest : List UInt8) (hc : c.length < 2 ^ 32) :
    ∃ bs, pushSlice c = .ok bs ∧ next (bs ++ rest) = some (.ok (.push c), rest) := by
  unfold pushSlice
  by_cases h1 : c.length < 0x4c
  · refine ⟨UInt8.ofNat c.length :: c, by simp [h1], ?_⟩
    have hb : (UInt8.ofNat c.length).toNat = c.length := toNat_ofNat_lt (by omega)
    simp only [List.cons_append, next, hb]
    have : c.length ≤ 0x4b := by omega
    simp [this, takePush_append]
  · by_cases h2 : c.length < 0x100
    · refine ⟨0x4c :: UInt8.ofNat c.length :: c, by simp [h1, h2], ?_⟩
      have hb : (UInt8.ofNat c.length).toNat = c.length := toNat_ofNat_lt (by omega)
      simp [next, pushData, leValue, hb, takePush_append]
    · by_cases h3 : c.length < 0x10000
      · refine ⟨0x4d :: UInt8.ofNat (c.length % 0x100) :: UInt8.ofNat (c.length / 0x100) :: c,
          by simp [h1, h2, h3], ?_⟩
        have hb0 : (UInt8.ofNat (c.length % 0x100)).toNat = c.length % 0x100 := toNat_ofNat_lt (by omega)
        have hb1 : (UInt8.ofNat (c.length / 0x100)).toNat = c.length / 0x100 := toNat_ofNat_lt (by omega)
        have hv : c.length % 0x100 + 256 * (c.length / 0x100) = c.length := by omega
        simp [next, pushData, leValue, hb0, hb1, hv, takePush_append]
      · have h4 : c.length < 0x100000000 := by simpa using hc
        refine ⟨0x4e :: UInt8.ofNat (c.length % 0x100) :: UInt8.ofNat (c.length / 0x100 % 0x100)
          :: UInt8.ofNat (c.length / 0x10000 % 0x100) :: UInt8.ofNat (c.length / 0x1000000) :: c,
          by simp [h1, h2, h3, h4], ?_⟩
        have hb0 : (UInt8.ofNat (c.length % 0x100)).toNat = c.length % 0x100 := toNat_ofNat_lt (by omega)
        have hb1 : (UInt8.ofNat (c.length / 0x100 % 0x100)).toNat = c.length / 0x100 % 0x100 :=
          toNat_ofNat_lt (by omega)
        have hb2 : (UInt8.ofNat (c.length / 0x10000 % 0x100)).toNat = c.length / 0x10000 % 0x100 :=
          toNat_ofNat_lt (by omega)
        have hb3 : (UInt8.ofNat (c.length / 0x1000000)).toNat = c.length / 0x1000000 :=
          toNat_ofNat_lt (by omega)
        have hv : c.length % 0x100 + 256 * (c.length / 0x100 % 0x100
            + 256 * (c.length / 0x10000 % 0x100 + 256 * (c.length / 0x1000000))) = c.length := by omega
        simp [next, pushData, leValue, hb0, hb1, hb2, hb3, hv, takePush_append]

theorem instructions_pushSlice (c rest : List UInt8) (hc : c.length < 2 ^ 32) :
    ∃ bs, pushSlice c = .ok bs ∧ instructions (bs ++ rest) = .ok (.push c) :: instructions rest := by
  obtain ⟨bs, h1, h2⟩ := next_pushSlice c rest hc
  exact ⟨bs, h1, by rw [instructions_eq, h2]⟩

end Ord.Script

namespace Ord.Runestone
open Ord Ord.Script

theorem chunks_spec (k : Nat) : ∀ (m : Nat) (l : List UInt8), l.length ≤ m →
    (chunks k l).flatten = l ∧ ∀ c ∈ chunks k l, c.length ≤ k + 1 := by
  intro m
  induction m with
  | zero =>
    intro l h
    have : l = [] := List.eq_nil_of_length_eq_zero (by omega)
    subst this; rw [chunks]; simp
  | succ m ih =>
    intro l h
    match l, h with
    | [], _ => rw [chunks]; simp
    | b :: t, h =>
      rw [chunks]
      have hlen : ((b :: t).drop (k + 1)).length ≤ m := by simp at h ⊢; omega
      obtain ⟨h1, h2⟩ := ih _ hlen
      refine ⟨?_, ?_⟩
      · rw [List.flatten_cons, h1, List.take_append_drop]
      · intro c hc
        rcases List.mem_cons.mp hc with rfl | hc
        · simp [List.length_take]; omega
        · exact h2 c hc

theorem pushAll_instructions : ∀ (cs : List (List UInt8)), (∀ c ∈ cs, c.length < 2 ^ 32) →
    ∃ bs, pushAll cs = .ok bs ∧ instructions bs = cs.map (fun c => Item.ok (.push c)) := by
  intro cs
  induction cs with
  | nil => intro _; exact ⟨[], rfl, by simp [instructions_nil]⟩
  | cons c cs ih =>
    intro h
    obtain ⟨bs', hp, hi⟩ := ih (fun c hc => h c (List.mem_cons_of_mem _ hc))
    obtain ⟨b, hb, hib⟩ := instructions_pushSlice c bs' (h c (List.mem_cons_self))
    exact ⟨b ++ bs', by simp [pushAll, hb, hp], by rw [hib, hi]; rfl⟩

theorem collectPushes_pushes (cs : List (List UInt8)) :
    collectPushes (cs.map (fun c => Item.ok (.push c))) = .valid cs.flatten := by
  induction cs with
  | nil => rfl
  | cons c cs ih => simp [collectPushes, ih]

/-- **script layer of the round trip**: the script built for a payload is found by the payload
search and yields that payload back -/
theorem payloadScript_roundtrip (p : List UInt8) :
    ∃ rest, payloadScript p = .ok (OP_RETURN :: MAGIC_NUMBER :: rest)
      ∧ collectPushes (instructions rest) = .valid p := by
  obtain ⟨hflat, hlen⟩ := chunks_spec (2 ^ 32 - 2) p.length p (Nat.le_refl _)
  obtain ⟨bs, hp, hi⟩ := pushAll_instructions (chunks (2 ^ 32 - 2) p)
    (fun c hc => by have := hlen c hc; omega)
  refine ⟨bs, by simp [payloadScript, hp], ?_⟩
  rw [hi, collectPushes_pushes, hflat]

/-- **varint layer of the round trip** -/
theorem integers_encodeInts : ∀ (xs : List Nat), (∀ x ∈ xs, x < 2 ^ 128) →
    integers (encodeInts xs) = .ok xs := by
  intro xs
  induction xs with
  | nil => intro _; rw [encodeInts, integers]
  | cons x xs ih =>
    intro h
    have hx : x < 2 ^ 128 := h x List.mem_cons_self
    have ih' := ih (fun y hy => h y (List.mem_cons_of_mem _ hy))
    have hdec := Varint.c26_decode_encode x hx (encodeInts xs)
    cases hb : Varint.encode x with
    | nil => exact absurd hb (Varint.encode_ne_nil x)
    | cons b t =>
      rw [hb] at hdec
      simp only [encodeInts, hb, List.cons_append] at hdec ⊢
      rw [integers, hdec]
      simp only [List.length_cons, Nat.add_sub_cancel, List.drop_left, ih']

end Ord.Runestone
