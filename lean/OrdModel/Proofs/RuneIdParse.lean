import OrdModel.Num.RuneId
/-! Helper lemmas for the `RuneId::from_str` part of C31. -/
namespace Ord.RuneId
open Ord

/-- value reached by the digit fold from accumulator `acc` -/
def decFrom (acc : Nat) (cs : List Char) : Nat := cs.foldl (fun a c => a * 10 + digitVal c) acc

theorem decFrom_cons (acc : Nat) (c : Char) (cs : List Char) :
    decFrom acc (c :: cs) = decFrom (acc * 10 + digitVal c) cs := by
  simp only [decFrom, List.foldl_cons]

theorem decValue_eq (cs : List Char) : decValue cs = decFrom 0 cs := rfl

theorem le_decFrom (cs : List Char) : ∀ acc, acc ≤ decFrom acc cs := by
  induction cs with
  | nil => intro acc; exact Nat.le_refl _
  | cons c cs ih =>
    intro acc
    rw [decFrom_cons]
    have := ih (acc * 10 + digitVal c)
    omega

theorem uintLoop_ok (w : Nat) : ∀ (cs : List Char) (acc v : Nat),
    uintLoop w acc cs = .ok v →
    (∀ c ∈ cs, isDigit c = true) ∧ v = decFrom acc cs ∧ (acc < 2 ^ w → v < 2 ^ w) := by
  intro cs
  induction cs with
  | nil => intro acc v h; simp [uintLoop] at h; subst h; simp [decFrom]
  | cons c cs ih =>
    intro acc v h
    simp only [uintLoop] at h
    split at h
    · cases h
    · rename_i hd
      split at h
      · cases h
      · split at h
        · cases h
        · obtain ⟨h1, h2, h3⟩ := ih _ _ h
          have hd' : isDigit c = true := by simpa using hd
          refine ⟨?_, ?_, ?_⟩
          · intro c' hc'
            rcases List.mem_cons.mp hc' with rfl | hc'
            · exact hd'
            · exact h1 c' hc'
          · rw [decFrom_cons]; exact h2
          · intro _; exact h3 (by omega)

theorem uintLoop_complete (w : Nat) : ∀ (cs : List Char) (acc : Nat),
    (∀ c ∈ cs, isDigit c = true) → acc < 2 ^ w → decFrom acc cs < 2 ^ w →
    uintLoop w acc cs = .ok (decFrom acc cs) := by
  intro cs
  induction cs with
  | nil => intro acc _ _ _; rfl
  | cons c cs ih =>
    intro acc hd hacc hv
    have hc := hd c (by simp)
    rw [decFrom_cons] at hv ⊢
    have hm := le_decFrom cs (acc * 10 + digitVal c)
    have h1 : ¬ (acc * 10 ≥ 2 ^ w) := by omega
    have h2 : ¬ (acc * 10 + digitVal c ≥ 2 ^ w) := by omega
    simp only [uintLoop, hc, Bool.not_true, Bool.false_eq_true, if_false, h1, h2]
    exact ih _ (fun c' hc' => hd c' (by simp [hc'])) (by omega) hv

theorem uintLoop_ne_panic (w : Nat) : ∀ (cs : List Char) (acc : Nat) (p : String),
    uintLoop w acc cs ≠ .panic p := by
  intro cs
  induction cs with
  | nil => intro acc p; simp [uintLoop]
  | cons c cs ih =>
    intro acc p
    simp only [uintLoop]
    repeat' split
    all_goals first | exact ih _ _ | simp

theorem isDigit_plus : isDigit '+' = false := by decide
theorem isDigit_minus : isDigit '-' = false := by decide

theorem parseUInt_ok (w : Nat) (s : List Char) (v : Nat) (h : parseUInt w s = .ok v) :
    denotesUInt s v ∧ v < 2 ^ w := by
  have hpos : 0 < 2 ^ w := Nat.two_pow_pos w
  unfold parseUInt at h
  split at h
  · cases h
  · rename_i c
    split at h
    · cases h
    · obtain ⟨h1, h2, h3⟩ := uintLoop_ok w _ _ _ h
      exact ⟨⟨[c], Or.inl rfl, by simp, h1, h2.symm⟩, h3 hpos⟩
  · rename_i c cs hne
    split at h
    · rename_i hc
      obtain ⟨h1, h2, h3⟩ := uintLoop_ok w _ _ _ h
      refine ⟨⟨cs, Or.inr (by rw [hc]), ?_, h1, h2.symm⟩, h3 hpos⟩
      intro hnil; exact hne hnil
    · obtain ⟨h1, h2, h3⟩ := uintLoop_ok w _ _ _ h
      exact ⟨⟨c :: cs, Or.inl rfl, by simp, h1, h2.symm⟩, h3 hpos⟩

theorem parseUInt_complete (w : Nat) (s : List Char) (v : Nat) (hd : denotesUInt s v)
    (hv : v < 2 ^ w) : parseUInt w s = .ok v := by
  have hpos : 0 < 2 ^ w := Nat.two_pow_pos w
  obtain ⟨ds, hs, hne, hdig, hval⟩ := hd
  have hloop : uintLoop w 0 ds = .ok v := by
    have := uintLoop_complete w ds 0 hdig hpos (by rw [← decValue_eq, hval]; exact hv)
    rw [this, ← decValue_eq, hval]
  cases ds with
  | nil => exact absurd rfl hne
  | cons d ds' =>
    have hdd : isDigit d = true := hdig d (by simp)
    have hnp : d ≠ '+' := by intro h; subst h; exact absurd hdd (by decide)
    have hnm : d ≠ '-' := by intro h; subst h; exact absurd hdd (by decide)
    rcases hs with hs | hs
    · subst hs
      cases ds' with
      | nil => simp only [parseUInt]; simp [hnp, hnm, hloop]
      | cons d2 ds2 => simp only [parseUInt]; simp [hnp, hloop]
    · subst hs
      simp only [parseUInt]; simp [hloop]

theorem parseUInt_ne_panic (w : Nat) (s : List Char) (p : String) : parseUInt w s ≠ .panic p := by
  unfold parseUInt
  repeat' split
  all_goals first | exact uintLoop_ne_panic _ _ _ _ | simp

theorem splitColon_some : ∀ (s h i : List Char), splitColon s = some (h, i) →
    s = h ++ ':' :: i ∧ ':' ∉ h := by
  intro s
  induction s with
  | nil => intro h i hs; simp [splitColon] at hs
  | cons c cs ih =>
    intro h i hs
    simp only [splitColon] at hs
    split at hs
    · rename_i hc
      simp at hs
      obtain ⟨rfl, rfl⟩ := hs
      simp [hc]
    · rename_i hc
      split at hs
      · rename_i a b hab
        simp at hs
        obtain ⟨rfl, rfl⟩ := hs
        obtain ⟨h1, h2⟩ := ih _ _ hab
        refine ⟨by rw [h1]; rfl, ?_⟩
        intro hmem
        rcases List.mem_cons.mp hmem with hm | hm
        · exact hc hm.symm
        · exact h2 hm
      · cases hs

theorem splitColon_append : ∀ (h i : List Char), ':' ∉ h → splitColon (h ++ ':' :: i) = some (h, i) := by
  intro h
  induction h with
  | nil => intro i _; simp [splitColon]
  | cons c cs ih =>
    intro i hn
    have hc : c ≠ ':' := by intro e; subst e; exact hn (by simp)
    have := ih i (by intro hm; exact hn (by simp [hm]))
    simp [splitColon, hc, this]

end Ord.RuneId
