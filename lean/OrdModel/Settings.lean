/-
Model of `src/settings.rs` (`Settings::{or, from_options, from_env, or_defaults, merge, load}`),
the parts of `src/options.rs` and `src/chain.rs` they use, and `InscriptionId::from_str`.

Rust ↔ Lean
* `struct Settings` (27 fields, private)            ↔ `Settings` (same fields, same order)
* `struct Options` (global flags)                   ↔ `Options`
* `Settings::or(self, source)`                      ↔ `Settings.or`
* `Settings::from_options`                          ↔ `fromOptions`
* `Settings::from_env(BTreeMap<String,String>)`     ↔ `fromEnv` (the map is a lookup function
                                                      `String → Option String`, keys without `ORD_`)
* `Settings::or_defaults`                           ↔ `orDefaults`
* `Settings::merge(options, env)`                   ↔ `merge`
* `Settings::load` (gathering `ORD_*` variables)    ↔ `loadEnv` + `merge`
* `Chain::{from_str, default_rpc_port, join_with_data_dir}`, serde/Display name ↔ `Chain.*`
* `InscriptionId::from_str`                         ↔ `parseInscriptionId`

Outside the model, as explicit parameters (`Params`, `FileState`):
`dirs::home_dir()`, `dirs::data_dir()`, `sysinfo` total memory / 4 (`usize::try_from` of it cannot
fail on a 64-bit target), the file system (`path.exists()`, `File::open`) and `serde_yaml`
deserialisation of the config file (a config file *is* a `Settings` value, or `bad`).
Paths are UTF-8 strings (`PathBuf` values that are not valid UTF-8 are out of scope).
`hidden` is a list; the Rust `HashSet` is its set of members (rendering sorts and dedups).
-/
namespace Ord.Settings

/-! ### chain.rs -/

inductive Chain where
  | mainnet | regtest | signet | testnet | testnet4
  deriving DecidableEq, Repr, Inhabited

/-- `Display`, `FromStr` and serde (`rename_all = "kebab-case"`) all use these names -/
def Chain.name : Chain → String
  | .mainnet => "mainnet" | .regtest => "regtest" | .signet => "signet"
  | .testnet => "testnet" | .testnet4 => "testnet4"

def Chain.all : List Chain := [.mainnet, .regtest, .signet, .testnet, .testnet4]

/-- `Chain::from_str` -/
def Chain.fromStr (s : String) : Option Chain :=
  Chain.all.find? (fun c => c.name == s)

/-- clap `ValueEnum` for `--chain` (kebab-case variant names plus the two aliases) -/
def Chain.fromClap (s : String) : Option Chain :=
  if s == "main" then some .mainnet else if s == "test" then some .testnet else Chain.fromStr s

/-- `Chain::default_rpc_port` -/
def Chain.defaultRpcPort : Chain → Nat
  | .mainnet => 8332 | .regtest => 18443 | .signet => 38332 | .testnet => 18332 | .testnet4 => 48332

/-- the directory `Chain::join_with_data_dir` appends (`none`: the directory itself) -/
def Chain.dirSuffix : Chain → Option String
  | .mainnet => none | .regtest => some "regtest" | .signet => some "signet"
  | .testnet => some "testnet3" | .testnet4 => some "testnet4"

/-- `Path::join` with a *relative* right-hand side (every join in settings.rs is with a relative
constant): a separator is inserted unless the left side is empty or already ends in `/`. -/
def joinRel (a b : String) : String :=
  match a.toList.getLast? with
  | none => b
  | some c => if c = '/' then a ++ b else a ++ "/" ++ b

/-- `Chain::join_with_data_dir` -/
def Chain.joinWithDataDir (c : Chain) (dir : String) : String :=
  match c.dirSuffix with
  | none => dir
  | some s => joinRel dir s

/-! ### parsers used by `from_env` -/

def isDigit (c : Char) : Bool := 48 ≤ c.toNat && c.toNat ≤ 57

/-- the digit loop of `core::num::from_str_radix` (radix 10) for an unsigned `w`-bit type -/
def parseDigits (w : Nat) : Nat → List Char → Option Nat
  | acc, [] => some acc
  | acc, c :: cs =>
    if isDigit c then
      if acc * 10 + (c.toNat - 48) < 2 ^ w then parseDigits w (acc * 10 + (c.toNat - 48)) cs else none
    else none

/-- `s.parse::<uW>()`: optional single `+`, then one or more ASCII digits, value `< 2^w` -/
def parseUnsignedL (w : Nat) : List Char → Option Nat
  | [] => none
  | c :: cs =>
    if cs = [] ∧ (c = '+' ∨ c = '-') then none
    else if c = '+' then parseDigits w 0 cs
    else parseDigits w 0 (c :: cs)

def parseUnsigned (w : Nat) (s : String) : Option Nat := parseUnsignedL w s.toList

structure InscriptionId where
  /-- 64 lower-case hex digits (the `Display` form of the txid) -/
  txid : String
  index : Nat
  deriving DecidableEq, Repr, Inhabited

def InscriptionId.render (i : InscriptionId) : String := i.txid ++ "i" ++ toString i.index

def isHexDigit (c : Char) : Bool :=
  isDigit c || (97 ≤ c.toNat && c.toNat ≤ 102) || (65 ≤ c.toNat && c.toNat ≤ 70)

def lowerHex (c : Char) : Char := if 65 ≤ c.toNat && c.toNat ≤ 70 then Char.ofNat (c.toNat + 32) else c

/-- `InscriptionId::from_str`: all-ASCII, at least 66 bytes, 64 hex digits, `i`, a `u32`.
(The five error variants all end up in the same `from_env` error message, so they are merged.) -/
def parseInscriptionIdL (cs : List Char) : Option InscriptionId :=
  if cs.any (fun c => 128 ≤ c.toNat) then none
  else if cs.length < 66 then none
  else
    let txid := cs.take 64
    match cs.drop 64 with
    | [] => none
    | sep :: vout =>
      if sep ≠ 'i' then none
      else if !txid.all isHexDigit then none
      else match parseUnsignedL 32 vout with
        | none => none
        | some n => some ⟨String.ofList (txid.map lowerHex), n⟩

def parseInscriptionId (s : String) : Option InscriptionId := parseInscriptionIdL s.toList

/-- `char::is_whitespace` (Unicode `White_Space`) -/
def isWhitespace (c : Char) : Bool :=
  let n := c.toNat
  (9 ≤ n && n ≤ 13) || n = 32 || n = 0x85 || n = 0xA0 || n = 0x1680 || (0x2000 ≤ n && n ≤ 0x200A) ||
  n = 0x2028 || n = 0x2029 || n = 0x202F || n = 0x205F || n = 0x3000

/-- `str::split_whitespace` -/
def splitWhitespaceAux : List Char → List Char → List (List Char) → List (List Char)
  | [], cur, acc => (if cur.isEmpty then acc else cur.reverse :: acc).reverse
  | c :: cs, cur, acc =>
    if isWhitespace c then splitWhitespaceAux cs [] (if cur.isEmpty then acc else cur.reverse :: acc)
    else splitWhitespaceAux cs (c :: cur) acc

def splitWhitespace (s : String) : List (List Char) := splitWhitespaceAux s.toList [] []

/-- `.map(parse).collect::<Result<HashSet<_>, _>>()` -/
def parseAll : List (List Char) → Option (List InscriptionId)
  | [] => some []
  | w :: ws =>
    match parseInscriptionIdL w with
    | none => none
    | some i => match parseAll ws with
      | none => none
      | some is => some (i :: is)

def parseInscriptionList (s : String) : Option (List InscriptionId) := parseAll (splitWhitespace s)

/-! ### the records -/

structure Settings where
  bitcoinDataDir : Option String := none
  bitcoinRpcLimit : Option Nat := none
  bitcoinRpcPassword : Option String := none
  bitcoinRpcUrl : Option String := none
  bitcoinRpcUsername : Option String := none
  chain : Option Chain := none
  commitInterval : Option Nat := none
  config : Option String := none
  configDir : Option String := none
  cookieFile : Option String := none
  dataDir : Option String := none
  heightLimit : Option Nat := none
  hidden : Option (List InscriptionId) := none
  httpPort : Option Nat := none
  index : Option String := none
  indexAddresses : Bool := false
  indexCacheSize : Option Nat := none
  indexRunes : Bool := false
  indexSats : Bool := false
  indexTransactions : Bool := false
  integrationTest : Bool := false
  maxSavepoints : Option Nat := none
  noIndexInscriptions : Bool := false
  savepointInterval : Option Nat := none
  serverPassword : Option String := none
  serverUrl : Option String := none
  serverUsername : Option String := none
  deriving DecidableEq, Repr, Inhabited

/-- `Settings::default()` (`#[derive(Default)]`) -/
def Settings.default : Settings := {}

/-- the global flags of `struct Options` that `from_options` reads (`format` is not a setting) -/
structure Options where
  bitcoinDataDir : Option String := none
  bitcoinRpcPassword : Option String := none
  bitcoinRpcUrl : Option String := none
  bitcoinRpcUsername : Option String := none
  bitcoinRpcLimit : Option Nat := none
  chainArgument : Option Chain := none
  commitInterval : Option Nat := none
  savepointInterval : Option Nat := none
  maxSavepoints : Option Nat := none
  config : Option String := none
  configDir : Option String := none
  cookieFile : Option String := none
  dataDir : Option String := none
  heightLimit : Option Nat := none
  index : Option String := none
  indexAddresses : Bool := false
  indexCacheSize : Option Nat := none
  indexRunes : Bool := false
  indexSats : Bool := false
  indexTransactions : Bool := false
  integrationTest : Bool := false
  noIndexInscriptions : Bool := false
  serverPassword : Option String := none
  serverUsername : Option String := none
  regtest : Bool := false
  signet : Bool := false
  testnet : Bool := false
  testnet4 : Bool := false
  deriving DecidableEq, Repr, Inhabited

/-- `bool::then_some` -/
def thenSome {α : Type} (b : Bool) (a : α) : Option α := if b then some a else none

/-- `Settings::or` — written field by field as in the Rust struct literal -/
def Settings.or (self source : Settings) : Settings where
  bitcoinDataDir := self.bitcoinDataDir.or source.bitcoinDataDir
  bitcoinRpcLimit := self.bitcoinRpcLimit.or source.bitcoinRpcLimit
  bitcoinRpcPassword := self.bitcoinRpcPassword.or source.bitcoinRpcPassword
  bitcoinRpcUrl := self.bitcoinRpcUrl.or source.bitcoinRpcUrl
  bitcoinRpcUsername := self.bitcoinRpcUsername.or source.bitcoinRpcUsername
  chain := self.chain.or source.chain
  commitInterval := self.commitInterval.or source.commitInterval
  config := self.config.or source.config
  configDir := self.configDir.or source.configDir
  cookieFile := self.cookieFile.or source.cookieFile
  dataDir := self.dataDir.or source.dataDir
  heightLimit := self.heightLimit.or source.heightLimit
  hidden := some (self.hidden.getD [] ++ source.hidden.getD [])
  httpPort := self.httpPort.or source.httpPort
  index := self.index.or source.index
  indexAddresses := self.indexAddresses || source.indexAddresses
  indexCacheSize := self.indexCacheSize.or source.indexCacheSize
  indexRunes := self.indexRunes || source.indexRunes
  indexSats := self.indexSats || source.indexSats
  indexTransactions := self.indexTransactions || source.indexTransactions
  integrationTest := self.integrationTest || source.integrationTest
  maxSavepoints := self.maxSavepoints.or source.maxSavepoints
  noIndexInscriptions := self.noIndexInscriptions || source.noIndexInscriptions
  savepointInterval := self.savepointInterval.or source.savepointInterval
  serverPassword := self.serverPassword.or source.serverPassword
  serverUrl := self.serverUrl.or source.serverUrl
  serverUsername := self.serverUsername.or source.serverUsername

/-- the `chain:` expression of `from_options` -/
def chainFromFlags (o : Options) : Option Chain :=
  (thenSome o.signet Chain.signet)
    |>.or (thenSome o.regtest Chain.regtest)
    |>.or (thenSome o.testnet Chain.testnet)
    |>.or (thenSome o.testnet4 Chain.testnet4)
    |>.or o.chainArgument

/-- `Settings::from_options` -/
def fromOptions (o : Options) : Settings where
  bitcoinDataDir := o.bitcoinDataDir
  bitcoinRpcLimit := o.bitcoinRpcLimit
  bitcoinRpcPassword := o.bitcoinRpcPassword
  bitcoinRpcUrl := o.bitcoinRpcUrl
  bitcoinRpcUsername := o.bitcoinRpcUsername
  chain := chainFromFlags o
  commitInterval := o.commitInterval
  config := o.config
  configDir := o.configDir
  cookieFile := o.cookieFile
  dataDir := o.dataDir
  heightLimit := o.heightLimit
  hidden := none
  httpPort := none
  index := o.index
  indexAddresses := o.indexAddresses
  indexCacheSize := o.indexCacheSize
  indexRunes := o.indexRunes
  indexSats := o.indexSats
  indexTransactions := o.indexTransactions
  integrationTest := o.integrationTest
  maxSavepoints := o.maxSavepoints
  noIndexInscriptions := o.noIndexInscriptions
  savepointInterval := o.savepointInterval
  serverPassword := o.serverPassword
  serverUrl := none
  serverUsername := o.serverUsername

/-- the errors `Settings::merge` can return (outermost `anyhow` context), plus `clap` for an
argument vector the option parser rejects (only produced by the driver's flag parser) -/
inductive Err where
  | envParse (key : String)
  | noHomeDir | noDataDir
  | configOpen | configDeserialize
  | noRpcUsername | noRpcPassword | noUsername | noPassword
  | clap
  deriving DecidableEq, Repr, Inhabited

/-- the environment: value of `ORD_<key>`, looked up by `<key>` -/
abbrev EnvMap := String → Option String

/-- `get_bool`: set iff the variable is present and non-empty -/
def getBool (env : EnvMap) (key : String) : Bool :=
  match env key with
  | some v => !v.isEmpty
  | none => false

/-- the fallible getters: absent ⇒ `Ok(None)`, present and unparsable ⇒ the error for `key` -/
def getParsed {α : Type} (parse : String → Option α) (env : EnvMap) (key : String) : Except Err (Option α) :=
  match env key with
  | none => .ok none
  | some v => match parse v with
    | some a => .ok (some a)
    | none => .error (.envParse key)

/-- `Settings::from_env`; the `?`s are evaluated in field order -/
def fromEnv (env : EnvMap) : Except Err Settings :=
  match getParsed (parseUnsigned 32) env "BITCOIN_RPC_LIMIT" with
  | .error e => .error e
  | .ok bitcoinRpcLimit =>
  match getParsed Chain.fromStr env "CHAIN" with
  | .error e => .error e
  | .ok chain =>
  match getParsed (parseUnsigned 64) env "COMMIT_INTERVAL" with
  | .error e => .error e
  | .ok commitInterval =>
  match getParsed (parseUnsigned 32) env "HEIGHT_LIMIT" with
  | .error e => .error e
  | .ok heightLimit =>
  match getParsed parseInscriptionList env "HIDDEN" with
  | .error e => .error e
  | .ok hidden =>
  match getParsed (parseUnsigned 16) env "HTTP_PORT" with
  | .error e => .error e
  | .ok httpPort =>
  match getParsed (parseUnsigned 64) env "INDEX_CACHE_SIZE" with
  | .error e => .error e
  | .ok indexCacheSize =>
  match getParsed (parseUnsigned 64) env "MAX_SAVEPOINTS" with
  | .error e => .error e
  | .ok maxSavepoints =>
  match getParsed (parseUnsigned 64) env "SAVEPOINT_INTERVAL" with
  | .error e => .error e
  | .ok savepointInterval =>
  .ok {
    bitcoinDataDir := env "BITCOIN_DATA_DIR"
    bitcoinRpcLimit := bitcoinRpcLimit
    bitcoinRpcPassword := env "BITCOIN_RPC_PASSWORD"
    bitcoinRpcUrl := env "BITCOIN_RPC_URL"
    bitcoinRpcUsername := env "BITCOIN_RPC_USERNAME"
    chain := chain
    commitInterval := commitInterval
    config := env "CONFIG"
    configDir := env "CONFIG_DIR"
    cookieFile := env "COOKIE_FILE"
    dataDir := env "DATA_DIR"
    heightLimit := heightLimit
    hidden := hidden
    httpPort := httpPort
    index := env "INDEX"
    indexAddresses := getBool env "INDEX_ADDRESSES"
    indexCacheSize := indexCacheSize
    indexRunes := getBool env "INDEX_RUNES"
    indexSats := getBool env "INDEX_SATS"
    indexTransactions := getBool env "INDEX_TRANSACTIONS"
    integrationTest := getBool env "INTEGRATION_TEST"
    maxSavepoints := maxSavepoints
    noIndexInscriptions := getBool env "NO_INDEX_INSCRIPTIONS"
    savepointInterval := savepointInterval
    serverPassword := env "SERVER_PASSWORD"
    serverUrl := env "SERVER_URL"
    serverUsername := env "SERVER_USERNAME" }

/-- what the process environment contributes to the defaults -/
structure Params where
  /-- `dirs::home_dir()` -/
  homeDir : Option String
  /-- `dirs::data_dir()` -/
  dataDir : Option String
  /-- `sysinfo` total memory / 4 -/
  memQuarter : Nat
  deriving Repr, Inhabited

/-- `Settings::default_data_dir` -/
def defaultDataDir (p : Params) : Except Err String :=
  match p.dataDir with
  | some d => .ok (joinRel d "ord")
  | none => .error .noDataDir

/-- the `let bitcoin_data_dir = …` block of `or_defaults` (target_os = "linux") -/
def resolveBitcoinDataDir (p : Params) (self : Settings) : Except Err String :=
  match self.bitcoinDataDir with
  | some d => .ok d
  | none => match p.homeDir with
    | some h => .ok (joinRel h ".bitcoin")
    | none => .error .noHomeDir

/-- the argument of `chain.join_with_data_dir(…)` in the `let data_dir = …` block -/
def resolveDataDir (p : Params) (self : Settings) : Except Err String :=
  match self.dataDir with
  | some d => .ok d
  | none => defaultDataDir p

/-- the struct literal at the end of `or_defaults`, with the `let`s for `chain`, `cookie_file`,
`data_dir`, `index` inlined; `bitcoinDataDir` and `dataDir0` are the two fallible locals -/
def fillDefaults (p : Params) (self : Settings) (bitcoinDataDir dataDir0 : String) : Settings :=
  let chain := self.chain.getD .mainnet
  let cookieFile := match self.cookieFile with
    | some c => c
    | none => joinRel (chain.joinWithDataDir bitcoinDataDir) ".cookie"
  let dataDir := chain.joinWithDataDir dataDir0
  let index := match self.index with
    | some i => i
    | none => joinRel dataDir "index.redb"
  { bitcoinDataDir := some bitcoinDataDir
    bitcoinRpcLimit := some (self.bitcoinRpcLimit.getD 12)
    bitcoinRpcPassword := self.bitcoinRpcPassword
    bitcoinRpcUrl := some (self.bitcoinRpcUrl.getD ("127.0.0.1:" ++ toString chain.defaultRpcPort))
    bitcoinRpcUsername := self.bitcoinRpcUsername
    chain := some chain
    commitInterval := some (self.commitInterval.getD 5000)
    config := none
    configDir := none
    cookieFile := some cookieFile
    dataDir := some dataDir
    heightLimit := self.heightLimit
    hidden := self.hidden
    httpPort := self.httpPort
    index := some index
    indexAddresses := self.indexAddresses
    indexCacheSize := some (self.indexCacheSize.getD p.memQuarter)
    indexRunes := self.indexRunes
    indexSats := self.indexSats
    indexTransactions := self.indexTransactions
    integrationTest := self.integrationTest
    maxSavepoints := some (self.maxSavepoints.getD 2)
    noIndexInscriptions := self.noIndexInscriptions
    savepointInterval := some (self.savepointInterval.getD 10)
    serverPassword := self.serverPassword
    serverUrl := self.serverUrl
    serverUsername := self.serverUsername }

/-- `Settings::or_defaults`: the home-dir lookup fails first, then the data-dir lookup -/
def Settings.orDefaults (p : Params) (self : Settings) : Except Err Settings :=
  match resolveBitcoinDataDir p self with
  | .error e => .error e
  | .ok bitcoinDataDir =>
    match resolveDataDir p self with
    | .error e => .error e
    | .ok dataDir0 => .ok (fillDefaults p self bitcoinDataDir dataDir0)

/-- what is at a path: nothing, a file `serde_yaml` cannot turn into a `Settings`, or a config -/
inductive FileState where
  | absent
  | bad
  | ok (config : Settings)
  deriving Repr, Inhabited

def FileState.exists : FileState → Bool
  | .absent => false
  | _ => true

abbrev FileSystem := String → FileState

/-- the directory searched for `ord.yaml` when no config file is named; `s` = flags `or` env -/
def configSearchDir (p : Params) (s : Settings) : Except Err String :=
  match s.configDir.or s.dataDir with
  | some dir => .ok dir
  | none => defaultDataDir p

/-- the `config_path` block of `merge`; `s` = flags `or` env -/
def configPath (p : Params) (fs : FileSystem) (s : Settings) : Except Err (Option String) :=
  match s.config with
  | some path => .ok (some path)
  | none =>
    match configSearchDir p s with
    | .error e => .error e
    | .ok dir => .ok (thenSome (fs (joinRel dir "ord.yaml")).exists (joinRel dir "ord.yaml"))

/-- the `config` block of `merge` -/
def loadConfig (fs : FileSystem) : Option String → Except Err Settings
  | none => .ok Settings.default
  | some path =>
    match fs path with
    | .absent => .error .configOpen
    | .bad => .error .configDeserialize
    | .ok c => .ok c

/-- the two credential-pair checks at the end of `merge` -/
def checkCredentials (s : Settings) : Except Err Settings :=
  match s.bitcoinRpcUsername, s.bitcoinRpcPassword with
  | none, some _ => .error .noRpcUsername
  | some _, none => .error .noRpcPassword
  | _, _ =>
    match s.serverUsername, s.serverPassword with
    | none, some _ => .error .noUsername
    | some _, none => .error .noPassword
    | _, _ => .ok s

/-- `Settings::merge` -/
def merge (p : Params) (fs : FileSystem) (o : Options) (env : EnvMap) : Except Err Settings :=
  match fromEnv env with
  | .error e => .error e
  | .ok e =>
  let settings := (fromOptions o).or e
  match configPath p fs settings with
  | .error e => .error e
  | .ok path =>
  match loadConfig fs path with
  | .error e => .error e
  | .ok config =>
  match ((settings.or config).orDefaults p) with
  | .error e => .error e
  | .ok r => checkCredentials r

/-- `Settings::load`: the process environment as (name, value) pairs in `env::vars_os` order; a
later duplicate replaces an earlier one as `BTreeMap::insert` does.  Only variables whose name
starts with `ORD_` take part; the key is the rest of the name.  (Non-Unicode names are skipped and
non-Unicode values of `ORD_` variables are an error in the Rust code; both are outside this model.) -/
def stripOrd (name : String) : Option String :=
  match name.toList with
  | 'O' :: 'R' :: 'D' :: '_' :: rest => some (String.ofList rest)
  | _ => none

def loadEnv (vars : List (String × String)) : EnvMap := fun key =>
  (vars.reverse.find? (fun kv => stripOrd kv.1 == some key)).map (·.2)

def load (p : Params) (fs : FileSystem) (o : Options) (vars : List (String × String)) : Except Err Settings :=
  merge p fs o (loadEnv vars)

/-! ### generic, per-field view (what the C36 theorems quantify over) -/

inductive Field where
  | bitcoinDataDir | bitcoinRpcLimit | bitcoinRpcPassword | bitcoinRpcUrl | bitcoinRpcUsername
  | chain | commitInterval | config | configDir | cookieFile | dataDir | heightLimit | hidden
  | httpPort | index | indexAddresses | indexCacheSize | indexRunes | indexSats | indexTransactions
  | integrationTest | maxSavepoints | noIndexInscriptions | savepointInterval | serverPassword
  | serverUrl | serverUsername
  deriving DecidableEq, Repr, Inhabited

def Field.all : List Field :=
  [.bitcoinDataDir, .bitcoinRpcLimit, .bitcoinRpcPassword, .bitcoinRpcUrl, .bitcoinRpcUsername,
   .chain, .commitInterval, .config, .configDir, .cookieFile, .dataDir, .heightLimit, .hidden,
   .httpPort, .index, .indexAddresses, .indexCacheSize, .indexRunes, .indexSats, .indexTransactions,
   .integrationTest, .maxSavepoints, .noIndexInscriptions, .savepointInterval, .serverPassword,
   .serverUrl, .serverUsername]

/-- serde / Rust field name -/
def Field.name : Field → String
  | .bitcoinDataDir => "bitcoin_data_dir" | .bitcoinRpcLimit => "bitcoin_rpc_limit"
  | .bitcoinRpcPassword => "bitcoin_rpc_password" | .bitcoinRpcUrl => "bitcoin_rpc_url"
  | .bitcoinRpcUsername => "bitcoin_rpc_username" | .chain => "chain"
  | .commitInterval => "commit_interval" | .config => "config" | .configDir => "config_dir"
  | .cookieFile => "cookie_file" | .dataDir => "data_dir" | .heightLimit => "height_limit"
  | .hidden => "hidden" | .httpPort => "http_port" | .index => "index"
  | .indexAddresses => "index_addresses" | .indexCacheSize => "index_cache_size"
  | .indexRunes => "index_runes" | .indexSats => "index_sats"
  | .indexTransactions => "index_transactions" | .integrationTest => "integration_test"
  | .maxSavepoints => "max_savepoints" | .noIndexInscriptions => "no_index_inscriptions"
  | .savepointInterval => "savepoint_interval" | .serverPassword => "server_password"
  | .serverUrl => "server_url" | .serverUsername => "server_username"

/-- the environment key `from_env` reads for a field (without the `ORD_` prefix) -/
def Field.envKey : Field → String
  | .bitcoinDataDir => "BITCOIN_DATA_DIR" | .bitcoinRpcLimit => "BITCOIN_RPC_LIMIT"
  | .bitcoinRpcPassword => "BITCOIN_RPC_PASSWORD" | .bitcoinRpcUrl => "BITCOIN_RPC_URL"
  | .bitcoinRpcUsername => "BITCOIN_RPC_USERNAME" | .chain => "CHAIN"
  | .commitInterval => "COMMIT_INTERVAL" | .config => "CONFIG" | .configDir => "CONFIG_DIR"
  | .cookieFile => "COOKIE_FILE" | .dataDir => "DATA_DIR" | .heightLimit => "HEIGHT_LIMIT"
  | .hidden => "HIDDEN" | .httpPort => "HTTP_PORT" | .index => "INDEX"
  | .indexAddresses => "INDEX_ADDRESSES" | .indexCacheSize => "INDEX_CACHE_SIZE"
  | .indexRunes => "INDEX_RUNES" | .indexSats => "INDEX_SATS"
  | .indexTransactions => "INDEX_TRANSACTIONS" | .integrationTest => "INTEGRATION_TEST"
  | .maxSavepoints => "MAX_SAVEPOINTS" | .noIndexInscriptions => "NO_INDEX_INSCRIPTIONS"
  | .savepointInterval => "SAVEPOINT_INTERVAL" | .serverPassword => "SERVER_PASSWORD"
  | .serverUrl => "SERVER_URL" | .serverUsername => "SERVER_USERNAME"

/-- payload of an option-valued field -/
inductive Val where
  | text (s : String)      -- `String` and `PathBuf`
  | num (n : Nat)          -- `u16`, `u32`, `usize`
  | chain (c : Chain)
  deriving DecidableEq, Repr, Inhabited

/-- value of one field: the three shapes a `Settings` field has -/
inductive FV where
  | opt (v : Option Val)
  | switch (b : Bool)
  | set (s : Option (List InscriptionId))
  deriving DecidableEq, Repr, Inhabited

inductive Kind where
  | opt | switch | set
  deriving DecidableEq, Repr

def Field.kind : Field → Kind
  | .hidden => .set
  | .indexAddresses | .indexRunes | .indexSats | .indexTransactions | .integrationTest
  | .noIndexInscriptions => .switch
  | _ => .opt

def Settings.get (s : Settings) : Field → FV
  | .bitcoinDataDir => .opt (s.bitcoinDataDir.map .text)
  | .bitcoinRpcLimit => .opt (s.bitcoinRpcLimit.map .num)
  | .bitcoinRpcPassword => .opt (s.bitcoinRpcPassword.map .text)
  | .bitcoinRpcUrl => .opt (s.bitcoinRpcUrl.map .text)
  | .bitcoinRpcUsername => .opt (s.bitcoinRpcUsername.map .text)
  | .chain => .opt (s.chain.map .chain)
  | .commitInterval => .opt (s.commitInterval.map .num)
  | .config => .opt (s.config.map .text)
  | .configDir => .opt (s.configDir.map .text)
  | .cookieFile => .opt (s.cookieFile.map .text)
  | .dataDir => .opt (s.dataDir.map .text)
  | .heightLimit => .opt (s.heightLimit.map .num)
  | .hidden => .set s.hidden
  | .httpPort => .opt (s.httpPort.map .num)
  | .index => .opt (s.index.map .text)
  | .indexAddresses => .switch s.indexAddresses
  | .indexCacheSize => .opt (s.indexCacheSize.map .num)
  | .indexRunes => .switch s.indexRunes
  | .indexSats => .switch s.indexSats
  | .indexTransactions => .switch s.indexTransactions
  | .integrationTest => .switch s.integrationTest
  | .maxSavepoints => .opt (s.maxSavepoints.map .num)
  | .noIndexInscriptions => .switch s.noIndexInscriptions
  | .savepointInterval => .opt (s.savepointInterval.map .num)
  | .serverPassword => .opt (s.serverPassword.map .text)
  | .serverUrl => .opt (s.serverUrl.map .text)
  | .serverUsername => .opt (s.serverUsername.map .text)

/-- option payload of a field (`none` for switches and the set) -/
def Settings.getOpt (s : Settings) (f : Field) : Option Val :=
  match s.get f with
  | .opt v => v
  | _ => none

def Settings.getSwitch (s : Settings) (f : Field) : Bool :=
  match s.get f with
  | .switch b => b
  | _ => false

/-- members of a set-valued field (`None` and `Some(∅)` both have no members) -/
def Settings.getSet (s : Settings) (f : Field) : List InscriptionId :=
  match s.get f with
  | .set (some l) => l
  | _ => []

/-! ### combinator semantics (what a table entry `field ↦ combinator` means) -/

inductive Comb where
  | optOr | boolOr | setUnion
  deriving DecidableEq, Repr

/-- `a.or(b)` / `a || b` / `Some(a ∪ b)` with `self` = first argument -/
def Comb.apply : Comb → FV → FV → FV
  | .optOr, .opt a, .opt b => .opt (a.or b)
  | .boolOr, .switch a, .switch b => .switch (a || b)
  | .setUnion, .set a, .set b => .set (some (a.getD [] ++ b.getD []))
  | _, a, _ => a

/-- the combinator each kind of field must use -/
def Kind.comb : Kind → Comb
  | .opt => .optOr | .switch => .boolOr | .set => .setUnion

/-! ### the statement of C36 as an executable predicate (used by the theorems and by the
driver's oracle lines, where it is evaluated on the *implementation's* result) -/

/-- first present value in precedence order -/
def firstSome {α : Type} : List (Option α) → Option α
  | [] => none
  | some a :: _ => some a
  | none :: rest => firstSome rest

/-- Built-in default of an option-valued field, given the process parameters and the *resolved*
chain / bitcoin data dir / data dir of the result (the derived defaults depend on those). -/
def defaultOf (p : Params) (r : Settings) : Field → Option Val
  | .bitcoinDataDir => p.homeDir.map (fun h => .text (joinRel h ".bitcoin"))
  | .bitcoinRpcLimit => some (.num 12)
  | .bitcoinRpcUrl => some (.text ("127.0.0.1:" ++ toString (r.chain.getD .mainnet).defaultRpcPort))
  | .chain => some (.chain .mainnet)
  | .commitInterval => some (.num 5000)
  | .cookieFile =>
    some (.text (joinRel ((r.chain.getD .mainnet).joinWithDataDir (r.bitcoinDataDir.getD "")) ".cookie"))
  | .index => some (.text (joinRel (r.dataDir.getD "") "index.redb"))
  | .indexCacheSize => some (.num p.memQuarter)
  | .maxSavepoints => some (.num 2)
  | .savepointInterval => some (.num 10)
  | _ => none

/-- The property for one field of the result `r` of merging flags `fl`, environment `en` and
config file `cf`:
* option-valued: the first present of (flag, env, file), else the built-in default — except that
  `config`/`config_dir` are consumed by `merge` (always `None` in the result) and `data_dir` has the
  chain directory appended to whichever value won;
* switch: on iff any source sets it;
* `hidden`: exactly the members of the three sources. -/
def fieldSpec (p : Params) (fl en cf r : Settings) (f : Field) : Bool :=
  match f.kind with
  | .opt =>
    let w := firstSome [fl.getOpt f, en.getOpt f, cf.getOpt f]
    match f with
    | .config | .configDir => r.getOpt f == none
    | .dataDir =>
      let base := match w with
        | some (.text d) => some d
        | some _ => none
        | none => p.dataDir.map (fun d => joinRel d "ord")
      r.dataDir == base.map (r.chain.getD .mainnet).joinWithDataDir
    | _ => r.getOpt f == w.or (defaultOf p r f)
  | .switch => r.getSwitch f == (fl.getSwitch f || en.getSwitch f || cf.getSwitch f)
  | .set =>
    (r.get f matches .set (some _)) &&
    (r.getSet f).all (fun i => (fl.getSet f).contains i || (en.getSet f).contains i || (cf.getSet f).contains i) &&
    (fl.getSet f ++ en.getSet f ++ cf.getSet f).all (fun i => (r.getSet f).contains i)

def allFieldsSpec (p : Params) (fl en cf r : Settings) : List Field :=
  Field.all.filter (fun f => !fieldSpec p fl en cf r f)

end Ord.Settings
