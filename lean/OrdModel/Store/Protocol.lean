/-
Commit / savepoint / reorg protocol of `Index::update`, `Updater::update_index`,
`Updater::commit` and `Reorg::{detect_reorg, handle_reorg, is_savepoint_required,
update_savepoints}` (src/index.rs, src/index/updater.rs, src/index/reorg.rs), over an abstract
content: the index content is a function of the list of block ids it has indexed (that is C12),
so the durable state is represented by that list.  The LastSavepointHeight statistic lives in
the tables and is therefore part of every snapshot.

redb (trusted, see DESIGN §4): a committed write transaction replaces the durable state
atomically; `persistent_savepoint()` captures the durable state at the start of its
transaction; `restore_savepoint(s)` reinstates it and deletes every savepoint newer than `s`.
-/
namespace Ord.Store

structure Settings where
  commitInterval : Nat
  savepointInterval : Nat
  maxSavepoints : Nat
  integrationTest : Bool
  deriving Repr, Inhabited

/-- what a snapshot of the tables contains, as far as the protocol is concerned -/
structure Tables where
  /-- ids of the indexed blocks, index = height -/
  chain : List Nat
  lastSavepointHeight : Nat
  deriving Repr, Inhabited, DecidableEq, BEq

structure Db where
  cur : Tables
  /-- persistent savepoints, oldest first -/
  savepoints : List Tables
  deriving Repr, Inhabited, DecidableEq

def Db.empty : Db := ⟨⟨[], 0⟩, []⟩

inductive Ev where
  | commit (height : Nat)
  | savepointDeleted (height : Nat)
  | savepointCreated (height : Nat)
  | restored (height : Nat)
  deriving Repr, DecidableEq

inductive Detect where
  | ok
  | recoverable (height depth : Nat)
  | unrecoverable
  deriving Repr, DecidableEq

/-- `Reorg::detect_reorg(block at height h)`: `committed` is what a read transaction sees -/
def detectReorg (s : Settings) (committed node : List Nat) (h : Nat) : Detect :=
  if h = 0 then .ok
  else
    match committed[h - 1]? with
    | none => .ok                       -- parent not committed yet: nothing to compare against
    | some ih =>
      if some ih = node[h - 1]? then .ok
      else
        let maxDepth := (s.maxSavepoints - 1) * s.savepointInterval + h % s.savepointInterval
        -- `for depth in 1..max`: the first depth at which index and node agree
        let rec search (fuel depth : Nat) : Detect :=
          match fuel with
          | 0 => .unrecoverable
          | fuel + 1 =>
            if depth ≥ maxDepth then .unrecoverable
            else
              -- `height.checked_sub(depth)`: None = the tip; `saturating_sub` on the node side
              let ix := if depth ≤ h then committed[h - depth]? else committed.getLast?
              let nd := node[h - depth]?
              if ix = nd then .recoverable h depth else search fuel (depth + 1)
        search maxDepth 1

/-- `Reorg::is_savepoint_required(height)`; `headers` = the node's header count -/
def isSavepointRequired (s : Settings) (lastSp headers height : Nat) : Bool :=
  (height < s.savepointInterval || height - lastSp ≥ s.savepointInterval)
    && headers - height ≤ s.savepointInterval * s.maxSavepoints + 1

/-- `Reorg::update_savepoints(height)` after a commit (three durable steps at most) -/
def updateSavepoints (s : Settings) (headers : Nat) (db : Db) (height : Nat) : Db × List Ev :=
  if s.integrationTest then (db, [])   -- Durability::None: no savepoints
  else if isSavepointRequired s db.cur.lastSavepointHeight headers height then
    let (sps, ev1) := if db.savepoints.length ≥ s.maxSavepoints then (db.savepoints.drop 1, [Ev.savepointDeleted height]) else (db.savepoints, [])
    -- the new savepoint captures the tables as committed before LastSavepointHeight is bumped
    ({ cur := { db.cur with lastSavepointHeight := height }, savepoints := sps ++ [db.cur] }, ev1 ++ [Ev.savepointCreated height])
  else (db, [])

/-- `Updater::commit` -/
def commit (s : Settings) (headers : Nat) (db : Db) (working : List Nat) : Db × List Ev :=
  let db1 := { db with cur := { db.cur with chain := working } }
  let (db2, evs) := updateSavepoints s headers db1 working.length
  (db2, Ev.commit working.length :: evs)

inductive Step where
  | done (db : Db) (evs : List Ev)
  | reorg (db : Db) (evs : List Ev) (d : Detect)
  deriving Repr

/-- `Updater::update_index`: index the node's blocks from the committed height on -/
def updateIndex (s : Settings) (headers : Nat) (node : List Nat) :
    (fuel : Nat) → (db : Db) → (working : List Nat) → (uncommitted : Nat) → List Ev → Step
  | 0, db, _, _, evs => .done db evs
  | fuel + 1, db, working, uncommitted, evs =>
    let h := working.length
    match node[h]? with
    | none =>
      if uncommitted > 0 then
        let (db', e) := commit s headers db working
        .done db' (evs ++ e)
      else .done db evs
    | some b =>
      match detectReorg s db.cur.chain node h with
      | .ok =>
        let working' := working ++ [b]
        let lastSp := db.cur.lastSavepointHeight
        if uncommitted + 1 = s.commitInterval ||
            (!s.integrationTest && isSavepointRequired s lastSp headers working'.length) then
          let (db', e) := commit s headers db working'
          updateIndex s headers node fuel db' working' 0 (evs ++ e)
        else updateIndex s headers node fuel db working' (uncommitted + 1) evs
      | d => .reorg db evs d   -- the write transaction is dropped: uncommitted work is lost

inductive Outcome where
  | ok
  | unrecoverable
  /-- the rollback loop did not finish within the fuel -/
  | outOfFuel
  deriving Repr, DecidableEq

/-- `Reorg::handle_reorg`: restore the oldest savepoint; newer ones are deleted by redb -/
def handleReorg (db : Db) : Option Db :=
  match db.savepoints with
  | [] => none
  | oldest :: _ => some { cur := oldest, savepoints := [oldest] }

/-- `Index::update`: the retry loop -/
def update (s : Settings) (headers : Nat) (node : List Nat) : (rounds : Nat) → Db → List Ev → Db × List Ev × Outcome
  | 0, db, evs => (db, evs, .outOfFuel)
  | rounds + 1, db, evs =>
    match updateIndex s headers node (node.length + 2) db db.cur.chain 0 [] with
    | .done db' e => (db', evs ++ e, .ok)
    | .reorg db' e (.recoverable h _) =>
      match handleReorg db' with
      | none => (db', evs ++ e, .unrecoverable)  -- `min().unwrap()` on no savepoints: panics in the code
      | some db'' =>
        -- after the rollback: if the restored tip is itself on the abandoned branch nothing
        -- older is left to roll back to, and the reorg is reported as unrecoverable
        let n := db''.cur.chain.length
        if n > 0 ∧ db''.cur.chain[n - 1]? ≠ node[n - 1]? then
          (db'', evs ++ e ++ [Ev.restored h], .unrecoverable)
        else update s headers node rounds db'' (evs ++ e ++ [Ev.restored h])
    | .reorg db' e _ => (db', evs ++ e, .unrecoverable)

end Ord.Store
