import OrdModel.Index.Run
/-
C17 (address index): the propositions the theorems speak about.
-/
namespace Ord.Index

/-- every transaction of the chain, in block order -/
def allTxs (chain : List Block) : List Tx := chain.flatMap (·.txs)

def chainTxids (chain : List Block) : List Txid := (allTxs chain).map (·.txid)

/-- C17's hypothesis "no duplicate txids": no txid occurs twice in the chain, and none is the
all-zero txid that the two special outpoints (lost sats, unbound inscriptions) use -/
def NoDupTxids (chain : List Block) : Prop := (chainTxids chain).Nodup ∧ 0 ∉ chainTxids chain

/-- SCRIPT_PUBKEY_TO_OUTPOINT lists `(script, o)` exactly when OUTPOINT_TO_UTXO_ENTRY has an
entry for `o` whose stored script is `script` -/
def AddrExact (st : State) : Prop :=
  ∀ (s : List UInt8) (o : OutPoint), (s, o) ∈ st.script2out ↔ ∃ e, AL.get st.utxo o = some e ∧ e.script = s

/-- `out` is output number `o.vout` of the transaction of the chain whose txid is `o.txid` -/
def CreatedBy (chain : List Block) (o : OutPoint) (out : TxOut) : Prop :=
  ∃ tx ∈ allTxs chain, tx.txid = o.txid ∧ tx.outputs[o.vout]? = some out

/-- every utxo entry of a real outpoint carries the script and the value of the output of the
creating transaction; the two special outpoints carry the empty script -/
def EntriesMatch (cfg : Cfg) (chain : List Block) (st : State) : Prop :=
  ∀ o e, AL.get st.utxo o = some e →
    (o.isSpecial = true → e.script = []) ∧
    (o.isSpecial = false → ∃ out, CreatedBy chain o out ∧ e.script = out.script ∧ e.totalValue cfg = out.value)

/-- `o` is spent by the chain: some transaction other than the first of its block has it as an
input (the indexer never looks at the inputs of a block's first transaction, the coinbase) -/
def SpentBy (chain : List Block) (o : OutPoint) : Prop :=
  ∃ blk ∈ chain, ∃ tx ∈ blk.txs.drop 1, ∃ i ∈ tx.inputs, i.prev = o

end Ord.Index
