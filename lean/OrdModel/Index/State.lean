import OrdModel.Index.SatAttr
/-
Logical content of the index (every redb table the updater writes), as association lists.
`AL` = association list with first-match lookup, replace-or-append insert and erase; sets and
multimaps are lists of pairs with `insertUnique`.  Well-formedness (no duplicate keys) is a
separately proved invariant, not a subtype.
-/
namespace Ord.Index

namespace AL
variable {κ ν : Type} [BEq κ]

def get (l : List (κ × ν)) (k : κ) : Option ν :=
  match l with
  | [] => none
  | (k', v) :: rest => if k' == k then some v else get rest k

def set (l : List (κ × ν)) (k : κ) (v : ν) : List (κ × ν) :=
  match l with
  | [] => [(k, v)]
  | (k', v') :: rest => if k' == k then (k, v) :: rest else (k', v') :: set rest k v

def erase (l : List (κ × ν)) (k : κ) : List (κ × ν) :=
  match l with
  | [] => []
  | (k', v') :: rest => if k' == k then rest else (k', v') :: erase rest k

def contains (l : List (κ × ν)) (k : κ) : Bool := (get l k).isSome
end AL

/-- set insert -/
def insertUnique {α : Type} [BEq α] (l : List α) (a : α) : List α :=
  if l.contains a then l else l ++ [a]

structure UtxoEntry where
  /-- stored value (read only when the sat index is off) -/
  value : Nat
  /-- sat ranges `(start, end)` (only with the sat index) -/
  ranges : List (Nat × Nat)
  /-- script pubkey (only with the address index) -/
  script : List UInt8
  /-- `(sequence number, offset)` of the inscriptions located here, in push order -/
  ins : List (Nat × Nat)
  deriving Repr, Inhabited, BEq, DecidableEq

def UtxoEntry.empty : UtxoEntry := ⟨0, [], [], []⟩

def rangesValue (rs : List (Nat × Nat)) : Nat := rs.foldl (fun acc r => acc + (r.2 - r.1)) 0

/-- `ParsedUtxoEntry::total_value` -/
def UtxoEntry.totalValue (cfg : Cfg) (e : UtxoEntry) : Nat :=
  if cfg.indexSats then rangesValue e.ranges else e.value

/-- `UtxoEntryBuf::merged` (special outpoints only: scripts are empty) -/
def UtxoEntry.merged (a b : UtxoEntry) : UtxoEntry :=
  ⟨a.value + b.value, a.ranges ++ b.ranges, [], a.ins ++ b.ins⟩

structure InsEntry where
  charms : Nat
  fee : Nat
  height : Nat
  hidden : Bool
  id : InscriptionId
  number : Int
  parents : List Nat
  sat : Option Nat
  seq : Nat
  timestamp : Nat
  deriving Repr, Inhabited

structure RuneEntry where
  block : Nat
  burned : Nat
  divisibility : Nat
  etching : Txid
  mints : Nat
  number : Nat
  premine : Nat
  rune : Nat
  spacers : Nat
  symbol : Option Nat
  terms : Option Terms
  timestamp : Nat
  turbo : Bool
  deriving Repr, Inhabited

inductive Event where
  | inscriptionCreated (height charms : Nat) (id : InscriptionId) (location : Option SatPoint)
      (parents : List InscriptionId) (seq : Nat)
  | inscriptionTransferred (height : Nat) (id : InscriptionId) (new old : SatPoint) (seq : Nat)
  | runeBurned (amount height : Nat) (rune : RuneId) (txid : Txid)
  | runeEtched (height : Nat) (rune : RuneId) (txid : Txid)
  | runeMinted (amount height : Nat) (rune : RuneId) (txid : Txid)
  | runeTransferred (amount height : Nat) (outpoint : OutPoint) (rune : RuneId) (txid : Txid)
  deriving Repr, Inhabited

structure State where
  /-- number of blocks indexed = next height -/
  height : Nat := 0
  headers : List (Nat × Nat) := []
  utxo : List (OutPoint × UtxoEntry) := []
  sat2sp : List (Nat × SatPoint) := []
  /-- inscription entries; position = sequence number -/
  entries : List InsEntry := []
  id2seq : List (InscriptionId × Nat) := []
  num2seq : List (Int × Nat) := []
  sat2seq : List (Nat × Nat) := []
  children : List (Nat × Nat) := []
  coll2latest : List (Nat × Nat) := []
  latest2coll : List (Nat × Nat) := []
  gallery : List Nat := []
  home : List (Nat × InscriptionId) := []
  height2lastseq : List (Nat × Nat) := []
  seq2sp : List (Nat × SatPoint) := []
  script2out : List (List UInt8 × OutPoint) := []
  txid2tx : List (Txid × Nat) := []
  runeEntries : List (RuneId × RuneEntry) := []
  rune2id : List (Nat × RuneId) := []
  balances : List (OutPoint × List (RuneId × Nat)) := []
  txid2rune : List (Txid × Nat) := []
  seq2rune : List (Nat × RuneId) := []
  lostSats : Nat := 0
  cursed : Nat := 0
  blessed : Nat := 0
  unbound : Nat := 0
  runes : Nat := 0
  reservedRunes : Nat := 0
  deriving Inhabited

end Ord.Index
