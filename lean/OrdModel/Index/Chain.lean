import OrdModel.Basic.Outcome
/-
Chain-level data the index model consumes.  Everything that is *parsing* (envelopes out of
witnesses, runestones out of OP_RETURN scripts, txids by hashing) is done by the real ord code
in the harness and arrives here already parsed: those parsers have their own models and
properties (C25, C27).  The index model is about what the updater does with them.
-/
namespace Ord.Index

/-- A txid as the 256-bit number whose big-endian hex is the displayed txid. -/
abbrev Txid := Nat

structure OutPoint where
  txid : Txid
  vout : Nat
  deriving DecidableEq, Repr, Inhabited, BEq

def OutPoint.null : OutPoint := ⟨0, 4294967295⟩
/-- `unbound_outpoint()`: all-zero txid, vout 0 -/
def OutPoint.unbound : OutPoint := ⟨0, 0⟩
def OutPoint.isNull (o : OutPoint) : Bool := o.txid == 0 && o.vout == 4294967295
def OutPoint.isSpecial (o : OutPoint) : Bool := o.txid == 0 && (o.vout == 4294967295 || o.vout == 0)

def OutPoint.lt (a b : OutPoint) : Bool := a.txid < b.txid || (a.txid == b.txid && a.vout < b.vout)

structure SatPoint where
  outpoint : OutPoint
  offset : Nat
  deriving DecidableEq, Repr, Inhabited, BEq

structure InscriptionId where
  txid : Txid
  index : Nat
  deriving DecidableEq, Repr, Inhabited, BEq

structure RuneId where
  block : Nat
  tx : Nat
  deriving DecidableEq, Repr, Inhabited, BEq

def RuneId.lt (a b : RuneId) : Bool := a.block < b.block || (a.block == b.block && a.tx < b.tx)

/-- What the node says about the output an input spends (only consulted for rune commitments)
and the small data pushes of the input's tapscript. -/
structure TxIn where
  prev : OutPoint
  /-- spent output is P2TR according to the node -/
  taproot : Bool
  /-- height of the block containing the spent transaction according to the node -/
  confHeight : Option Nat
  /-- data pushes of the input's tapscript, in order, up to the first script error -/
  pushes : List (List UInt8)
  deriving Repr, Inhabited

structure TxOut where
  value : Nat
  opReturn : Bool
  script : List UInt8
  deriving Repr, Inhabited

/-- One parsed envelope (`ParsedEnvelope`), reduced to what the updater reads. -/
structure Envelope where
  input : Nat
  offset : Nat
  unrecognizedEven : Bool
  duplicateField : Bool
  incompleteField : Bool
  pushnum : Bool
  stutter : Bool
  hidden : Bool
  gallery : Bool
  /-- the raw pointer field is present -/
  pointerField : Bool
  /-- `payload.pointer()` -/
  pointer : Option Nat
  /-- `payload.parents()` -/
  parents : List InscriptionId
  deriving Repr, Inhabited

structure Edict where
  id : RuneId
  amount : Nat
  output : Nat
  deriving Repr, Inhabited

structure Terms where
  amount : Option Nat
  cap : Option Nat
  heightStart : Option Nat
  heightEnd : Option Nat
  offsetStart : Option Nat
  offsetEnd : Option Nat
  deriving Repr, Inhabited, DecidableEq

structure Etching where
  divisibility : Option Nat
  premine : Option Nat
  rune : Option Nat
  spacers : Option Nat
  symbol : Option Nat
  terms : Option Terms
  turbo : Bool
  deriving Repr, Inhabited

inductive Artifact where
  | runestone (edicts : List Edict) (etching : Option Etching) (mint : Option RuneId) (pointer : Option Nat)
  /-- cenotaph: only the etched rune name and the mint survive -/
  | cenotaph (etching : Option Nat) (mint : Option RuneId)
  deriving Repr, Inhabited

structure Tx where
  txid : Txid
  inputs : List TxIn
  outputs : List TxOut
  envelopes : List Envelope
  artifact : Option Artifact
  /-- consensus-encoded length (only shown in the `txid2tx` dump row) -/
  size : Nat
  deriving Repr, Inhabited

structure Block where
  height : Nat
  time : Nat
  hash : Nat
  /-- `Rune::minimum_at_height(network, height)` (C33 covers that function) -/
  minimumRune : Nat
  txs : List Tx
  deriving Repr, Inhabited

structure Cfg where
  indexSats : Bool
  indexAddresses : Bool
  indexTransactions : Bool
  indexInscriptions : Bool
  indexRunes : Bool
  firstInscriptionHeight : Nat
  jubileeHeight : Nat
  firstRuneHeight : Nat
  deriving Repr, Inhabited

/-! Subsidy and first sat of a height (`Height::subsidy`, `Height::starting_sat`). -/

def subsidy (height : Nat) : Nat :=
  let epoch := height / 210000
  if epoch < 33 then 5000000000 >>> epoch else 0

/-- first sat of epoch `e` (`Epoch::STARTING_SATS`, recomputed rather than tabulated; the C29
model owns the table and the proof that they agree) -/
def epochStartingSat : Nat → Nat
  | 0 => 0
  | e + 1 => epochStartingSat e + 210000 * (if e < 33 then 5000000000 >>> e else 0)

def startingSat (height : Nat) : Nat :=
  let epoch := height / 210000
  epochStartingSat (min epoch 33) + (if epoch < 33 then (height - epoch * 210000) * subsidy height else 0)

end Ord.Index
