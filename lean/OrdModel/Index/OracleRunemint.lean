import OrdModel.Index.Block
/-
Group `runemint` (C10 mint terms, C11 etchings): the *documented* conditions written
declaratively (independent of the shape of `RuneEntry::mintable` / `RuneUpdater::etched`), and
the executable oracle predicates the driver evaluates on the implementation's own dump rows.
`OrdModel/Proofs/IndexRunemint*.lean` proves that the model functions of
`OrdModel/Index/Runes.lean` satisfy exactly these conditions.
-/
namespace Ord.Index.Runemint
open Ord.Index

/-! ### C10: the mint window, as documented -/

/-- the later of two optional bounds (`max` of the ones that are present) -/
def laterOf : Option Nat → Option Nat → Option Nat
  | some a, some b => some (max a b)
  | some a, none => some a
  | none, b => b

/-- the earlier of two optional bounds (`min` of the ones that are present) -/
def earlierOf : Option Nat → Option Nat → Option Nat
  | some a, some b => some (min a b)
  | some a, none => some a
  | none, b => b

/-- relative start: etching block + offset, saturating at `u64::MAX` -/
def relStart (block : Nat) (t : Terms) : Option Nat := t.offsetStart.map (saturatingAdd64 block)
def relEnd (block : Nat) (t : Terms) : Option Nat := t.offsetEnd.map (saturatingAdd64 block)

/-- every start bound that is present has been reached -/
def startsOk (block : Nat) (t : Terms) (h : Nat) : Bool :=
  (match t.heightStart with | some a => decide (a ≤ h) | none => true) &&
  (match t.offsetStart with | some o => decide (saturatingAdd64 block o ≤ h) | none => true)

/-- no end bound that is present has been reached -/
def endsOk (block : Nat) (t : Terms) (h : Nat) : Bool :=
  (match t.heightEnd with | some a => decide (h < a) | none => true) &&
  (match t.offsetEnd with | some o => decide (h < saturatingAdd64 block o) | none => true)

/-- the mint is open at height `h` regardless of the cap -/
def windowOpen (e : RuneEntry) (h : Nat) : Bool :=
  match e.terms with
  | none => false
  | some t => startsOk e.block t h && endsOk e.block t h

def capOf (e : RuneEntry) : Nat := (e.terms.bind (·.cap)).getD 0
def amountOf (e : RuneEntry) : Nat := (e.terms.bind (·.amount)).getD 0

/-- "A mint adds runes only if the rune has terms, the height is at or after the later of its
absolute and relative start and before the earlier of its absolute and relative end, and the
mint count is below the cap." -/
def mintOpen (e : RuneEntry) (h : Nat) : Bool := windowOpen e h && decide (e.mints < capOf e)

/-- the four `MintError`s -/
inductive MintErr where
  | unmintable
  | start (s : Nat)
  | end_ (e : Nat)
  | cap (c : Nat)
  deriving Repr, DecidableEq

/-- `RuneEntry::mintable` with its error (what `/rune/<rune>` shows) -/
def mintableE (e : RuneEntry) (height : Nat) : Except MintErr Nat :=
  match e.terms with
  | none => .error .unmintable
  | some t =>
    match e.start with
    | some s => if height < s then .error (.start s) else
      match e.end_ with
      | some en => if height ≥ en then .error (.end_ en) else
        if e.mints ≥ t.cap.getD 0 then .error (.cap (t.cap.getD 0)) else .ok (t.amount.getD 0)
      | none => if e.mints ≥ t.cap.getD 0 then .error (.cap (t.cap.getD 0)) else .ok (t.amount.getD 0)
    | none =>
      match e.end_ with
      | some en => if height ≥ en then .error (.end_ en) else
        if e.mints ≥ t.cap.getD 0 then .error (.cap (t.cap.getD 0)) else .ok (t.amount.getD 0)
      | none => if e.mints ≥ t.cap.getD 0 then .error (.cap (t.cap.getD 0)) else .ok (t.amount.getD 0)

def renderMintable : Except MintErr Nat → String
  | .ok a => s!"ok:{a}"
  | .error .unmintable => "unmintable"
  | .error (.start s) => s!"start:{s}"
  | .error (.end_ e) => s!"end:{e}"
  | .error (.cap c) => s!"cap:{c}"

/-! ### executable oracles on implementation rows -/

/-- `ix.oracle.mintcap`: the counter never exceeds the cap; without terms it is zero -/
def mintCapOk (rows : List (RuneId × RuneEntry)) : Bool :=
  rows.all (fun (_, e) => match e.terms with
    | none => e.mints == 0
    | some t => decide (e.mints ≤ t.cap.getD 0))

/-- the parts of an entry fixed at creation -/
def sameIdentity (a b : RuneEntry) : Bool :=
  a.block == b.block && a.rune == b.rune && a.number == b.number && a.etching == b.etching &&
  decide (a.terms = b.terms) && a.premine == b.premine

/-- how many of `n` consecutive attempts at height `h` succeed on an entry -/
def successes (e : RuneEntry) (h n : Nat) : Nat :=
  if windowOpen e h then min n (capOf e - e.mints) else 0

/-- `ix.oracle.mintwindow`: for every rune row after block `h`, the counter moved by exactly the
number of this block's mint attempts for which the documented condition held.  `attempts` =
`(tx index, minted id)` of every transaction of the block whose artifact has a mint; an attempt
counts for an entry etched in this very block only if it comes in a *later* transaction. -/
def mintWindowOk (h : Nat) (attempts : List (Nat × RuneId)) (prev cur : List (RuneId × RuneEntry)) : Bool :=
  -- entries never disappear and their identity never changes
  prev.all (fun (id, p) => match AL.get cur id with
    | some c => sameIdentity p c
    | none => false) &&
  cur.all (fun (id, c) =>
    match AL.get prev id with
    | some p =>
      let n := (attempts.filter (fun a => a.2 == id)).length
      c.mints == p.mints + successes p h n
    | none =>
      let n := (attempts.filter (fun a => a.2 == id && id.block == h && decide (id.tx < a.1))).length
      c.mints == successes { c with mints := 0 } h n)

/-! ### C11: etching validity, as documented -/

/-- what the node says about one input and the small pushes of its tapscript -/
structure InFacts where
  taproot : Bool
  confHeight : Option Nat
  pushes : List (List UInt8)
  deriving Repr, Inhabited

/-- "some input reveals a tapscript push of the name's commitment while spending a taproot
output with at least six confirmations" -/
def commitOk (h name : Nat) (ins : List InFacts) : Bool :=
  ins.any (fun i => i.pushes.any (· == commitment name) && i.taproot &&
    (match i.confHeight with | some c => decide (c ≤ h ∧ h - c + 1 ≥ 6) | none => false))

/-- one transaction of the block whose artifact carries an etching -/
structure EtchTx where
  t : Nat
  txid : Txid
  cenotaph : Bool
  name : Option Nat
  /-- terms as rendered in a dump row ("-" for none and for cenotaphs) -/
  terms : String
  ins : List InFacts
  deriving Repr, Inhabited

/-- the name an etching attempt obtains, if it is valid -/
def etchName (h minimum : Nat) (taken : List Nat) (x : EtchTx) : Option Nat :=
  match x.name with
  | none => if x.cenotaph then none else some (reservedRune h x.t)
  | some n =>
    if minimum ≤ n ∧ n < RESERVED ∧ ¬ taken.contains n ∧ commitOk h n x.ins then some n else none

/-- what a new row shows: id, name, etching txid, number, rendered terms -/
structure NewRow where
  id : RuneId
  name : Nat
  txid : Txid
  number : Nat
  block : Nat
  terms : String
  deriving Repr, Inhabited, DecidableEq

/-- the rows the etching attempts of a block must produce, in transaction order -/
def expectedNew (h minimum : Nat) : Nat → List Nat → List EtchTx → List NewRow
  | _, _, [] => []
  | count, taken, x :: rest =>
    match etchName h minimum taken x with
    | some n => ⟨⟨h, x.t⟩, n, x.txid, count, h, if x.cenotaph then "-" else x.terms⟩ ::
        expectedNew h minimum (count + 1) (n :: taken) rest
    | none => expectedNew h minimum count taken rest

/-- `ix.oracle.etching`: the new rows of block `h` are exactly the valid etchings of the block -/
def etchingOk (h minimum count : Nat) (taken : List Nat) (etx : List EtchTx) (newRows : List NewRow) : Bool :=
  decide (expectedNew h minimum count taken etx = newRows)

/-- strictly increasing ids -/
def idsSorted : List RuneId → Bool
  | a :: b :: rest => a.lt b && idsSorted (b :: rest)
  | _ => true

def distinctNats : List Nat → Bool
  | [] => true
  | a :: rest => !rest.contains a && distinctNats rest

def numbersFrom : Nat → List Nat → Bool
  | _, [] => true
  | k, n :: rest => n == k && numbersFrom (k + 1) rest

/-- `ix.oracle.runenumbers` on the whole rune section (rows sorted by id): ids are
`(etching block, tx index)` with block ≤ `h`, numbers are dense in id order, names are unique,
reserved names are exactly `reserved(id)`, and the name → id and txid → name tables are the
inverse images of the entry table. -/
def runeNumbersOk (h : Nat) (rows : List (RuneId × RuneEntry)) (rune2id : List (Nat × RuneId))
    (txid2rune : List (Txid × Nat)) (statRunes : Nat) : Bool :=
  idsSorted (rows.map (·.1)) &&
  numbersFrom 0 (rows.map (·.2.number)) &&
  statRunes == rows.length &&
  distinctNats (rows.map (·.2.rune)) &&
  distinctNats (rune2id.map (·.1)) &&
  rune2id.length == rows.length &&
  txid2rune.length == rows.length &&
  rows.all (fun (id, e) =>
    e.block == id.block && decide (id.block ≤ h) &&
    AL.get rune2id e.rune == some id &&
    AL.get txid2rune e.etching == some e.rune &&
    (if e.rune ≥ RESERVED then e.rune == reservedRune id.block id.tx else true))

end Ord.Index.Runemint
