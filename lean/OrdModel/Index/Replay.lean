import OrdModel.Index.Run
/-
C37: what a consumer of the event channel (`src/index/event.rs`) can reconstruct.

`replay cfg events chain` folds the emitted events, in order, into a `ReplayState`:
inscription locations, charms, ids, the unbound counter, the set of runes, mint counts, burned
totals and the per-output rune balances.  Events do not name the outputs a transaction spends,
and a transfer into an OP_RETURN output sets the `burned` charm in the table without saying so in
the event, so `replay` consults the chain for exactly two things: the inputs of a transaction
(balance rows of spent outputs disappear) and whether an output is an OP_RETURN.

`project cfg st` is the same information read out of the index tables.  C37 says the two agree
after every successfully indexed chain (`Theorems/C37.lean`).

All components except `balances` are a plain left fold of `applyEvent` over the event list.
`balances` is replayed transaction by transaction in block order (`replayBalances`): the balance
rows of the transaction's inputs are erased, then the maximal run of pending rune events carrying
this transaction's txid is applied.  (Consuming inputs "per event" would be wrong for a
transaction that spends a runic output and emits no event at all; whether such a transaction
exists depends on a positivity invariant of the balance table, which `replay` does not want to
rely on.  See notes/C37.md.)
-/
namespace Ord.Index

structure ReplayState where
  /-- sequence number → satpoint (what SEQUENCE_NUMBER_TO_SATPOINT holds) -/
  loc : List (Nat × SatPoint) := []
  /-- sequence number → charms -/
  charms : List (Nat × Nat) := []
  /-- sequence number → inscription id -/
  ids : List (Nat × InscriptionId) := []
  /-- number of unbound creations so far (`Statistic::UnboundInscriptions`) -/
  unbound : Nat := 0
  /-- runes that exist, in etching order -/
  runes : List RuneId := []
  mints : List (RuneId × Nat) := []
  /-- burned totals: sum of the `RuneBurned` amounts per rune -/
  burned : List (RuneId × Nat) := []
  balances : List (OutPoint × List (RuneId × Nat)) := []
  /-- rune events that could not be attributed to a transaction of the chain -/
  leftover : Nat := 0
  deriving Repr, Inhabited

/-! ### chain lookups -/

/-- the first transaction of the chain with this txid -/
def findTx : List Block → Txid → Option Tx
  | [], _ => none
  | b :: bs, t =>
    match b.txs.find? (fun tx => tx.txid == t) with
    | some tx => some tx
    | none => findTx bs t

/-- is `op` an OP_RETURN output of a transaction of the chain? -/
def isOpReturnOut (chain : List Block) (op : OutPoint) : Bool :=
  match findTx chain op.txid with
  | some tx => match tx.outputs[op.vout]? with | some o => o.opReturn | none => false
  | none => false

/-! ### one event (everything but balances) -/

def applyEvent (chain : List Block) (rs : ReplayState) : Event → ReplayState
  | .inscriptionCreated _ charms id location _ seq =>
    match location with
    | some sp =>
      { rs with loc := AL.set rs.loc seq sp, charms := AL.set rs.charms seq charms, ids := AL.set rs.ids seq id }
    | none =>
      -- unbound: the index stores `unbound_outpoint():<running unbound counter>`
      { rs with loc := AL.set rs.loc seq ⟨OutPoint.unbound, rs.unbound⟩, unbound := rs.unbound + 1,
                charms := AL.set rs.charms seq charms, ids := AL.set rs.ids seq id }
  | .inscriptionTransferred _ _ new _ seq =>
    let charms :=
      if isOpReturnOut chain new.outpoint then
        match AL.get rs.charms seq with
        | some c => AL.set rs.charms seq (setCharm c charmBurned)
        | none => rs.charms
      else rs.charms
    { rs with loc := AL.set rs.loc seq new, charms := charms }
  | .runeEtched _ id _ =>
    { rs with runes := insertUnique rs.runes id, mints := AL.set rs.mints id 0 }
  | .runeMinted _ _ id _ =>
    { rs with mints := AL.set rs.mints id ((AL.get rs.mints id).getD 0 + 1) }
  | .runeBurned a _ id _ =>
    { rs with burned := AL.set rs.burned id ((AL.get rs.burned id).getD 0 + a) }
  | .runeTransferred .. => rs

/-! ### balances: per transaction of the chain, in block order -/

/-- txid carried by a rune event -/
def evTxid : Event → Option Txid
  | .runeBurned _ _ _ t => some t
  | .runeEtched _ _ t => some t
  | .runeMinted _ _ _ t => some t
  | .runeTransferred _ _ _ _ t => some t
  | _ => none

def isRuneEvent (e : Event) : Bool := (evTxid e).isSome

abbrev BalTable := List (OutPoint × List (RuneId × Nat))

/-- the balance rows of spent outputs disappear -/
def consumeInputs : List TxIn → BalTable → BalTable
  | [], bal => bal
  | i :: rest, bal => consumeInputs rest (AL.erase bal i.prev)

/-- `RuneTransferred`: the outpoint's row gains `(rune, amount)` -/
def addTransfer (bal : BalTable) : Event → BalTable
  | .runeTransferred a _ op id _ => AL.set bal op ((AL.get bal op).getD [] ++ [(id, a)])
  | _ => bal

def ofTx (t : Txid) (e : Event) : Bool := evTxid e == some t

def replayBalTx (acc : BalTable × List Event) (tx : Tx) : BalTable × List Event :=
  let bal1 := consumeInputs tx.inputs acc.1
  ((acc.2.takeWhile (ofTx tx.txid)).foldl addTransfer bal1, acc.2.dropWhile (ofTx tx.txid))

/-- rune indexing is off below `first_rune_height` (and without `--index-runes`) -/
def runesOn (cfg : Cfg) (b : Block) : Bool := cfg.indexRunes && decide (b.height ≥ cfg.firstRuneHeight)

def replayBalBlock (cfg : Cfg) (acc : BalTable × List Event) (b : Block) : BalTable × List Event :=
  if runesOn cfg b then b.txs.foldl replayBalTx acc else acc

/-- events the per-transaction balance pass walks: rune events except `RuneBurned`.  Burns do not
touch the balance table, and the event stream is only canonical up to the order of consecutive
`RuneBurned` events (they come out of a HashMap; the harness sorts each maximal run of them, which
can interleave the burns of two adjacent transactions), so they must not delimit a transaction's run. -/
def isBalEvent : Event → Bool
  | .runeBurned .. => false
  | e => isRuneEvent e

def replayBalances (cfg : Cfg) (evs : List Event) (chain : List Block) : BalTable × List Event :=
  chain.foldl (replayBalBlock cfg) ([], evs.filter isBalEvent)

/-! ### replay and projection -/

def replay (cfg : Cfg) (evs : List Event) (chain : List Block) : ReplayState :=
  { evs.foldl (applyEvent chain) {} with
    balances := (replayBalances cfg evs chain).1, leftover := (replayBalances cfg evs chain).2.length }

def project (_cfg : Cfg) (st : State) : ReplayState :=
  { loc := st.seq2sp
    charms := (enumFrom 0 st.entries).map (fun (i, e) => (i, e.charms))
    ids := (enumFrom 0 st.entries).map (fun (i, e) => (i, e.id))
    unbound := st.unbound
    runes := st.runeEntries.map (·.1)
    mints := st.runeEntries.map (fun (id, e) => (id, e.mints))
    burned := st.runeEntries.map (fun (id, e) => (id, e.burned))
    balances := st.balances
    leftover := 0 }

/-! ### executable agreement (used by the oracle line; every table compared as a map) -/

def alAgree {κ ν : Type} [BEq κ] [BEq ν] (a b : List (κ × ν)) : Bool :=
  a.all (fun p => AL.get b p.1 == AL.get a p.1) && b.all (fun p => AL.get a p.1 == AL.get b p.1)

/-- agreement with absent = 0 (burned totals) -/
def alAgreeD {κ : Type} [BEq κ] (a b : List (κ × Nat)) : Bool :=
  a.all (fun p => (AL.get b p.1).getD 0 == (AL.get a p.1).getD 0)
    && b.all (fun p => (AL.get a p.1).getD 0 == (AL.get b p.1).getD 0)

def ReplayState.agrees (a b : ReplayState) : Bool :=
  alAgree a.loc b.loc && alAgree a.charms b.charms && alAgree a.ids b.ids && a.unbound == b.unbound
    && a.runes.all (b.runes.contains ·) && b.runes.all (a.runes.contains ·)
    && alAgree a.mints b.mints && alAgreeD a.burned b.burned && alAgree a.balances b.balances
    && a.leftover == b.leftover

/-- which components differ (diagnostics for a failing oracle line) -/
def ReplayState.diff (a b : ReplayState) : List String :=
  (if alAgree a.loc b.loc then [] else ["loc"]) ++ (if alAgree a.charms b.charms then [] else ["charms"])
    ++ (if alAgree a.ids b.ids then [] else ["ids"]) ++ (if a.unbound == b.unbound then [] else ["unbound"])
    ++ (if a.runes.all (b.runes.contains ·) && b.runes.all (a.runes.contains ·) then [] else ["runes"])
    ++ (if alAgree a.mints b.mints then [] else ["mints"]) ++ (if alAgreeD a.burned b.burned then [] else ["burned"])
    ++ (if alAgree a.balances b.balances then [] else ["balances"])
    ++ (if a.leftover == b.leftover then [] else ["leftover"])

end Ord.Index
