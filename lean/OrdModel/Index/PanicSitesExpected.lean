/-
C16: the inventory of potential failure sites on the indexing path that the index model
(`OrdModel/Index/{Sats,Inscriptions,Runes,Block}.lean`) was written against, as of the day the
model was written.  `tools/extractors/panic_sites.py` re-derives the same list from the source
text of /repo on every check run (`OrdModel/Generated/PanicSites.lean`) and
`Theorems/C16.lean : c16_gen_panic_sites` proves the two equal (lines are compared with LOCAL variable names replaced by `_`, so renaming a local does not matter): a new, removed, moved or edited
site breaks that obligation and forces a human to re-read the model.

Every entry is annotated with the model `panic` branch it corresponds to and what discharges it,
or the reason it cannot fire / is not a model branch.
-/
namespace Ord.Index.PanicSitesExpected

def expected : List (String × String × String × String) := [
  -- usize→u32 / u32→usize `try_into`: bounded by the number of transactions / outputs of a block (block size ≤ 4 MB); not modelled
  ("updater.rs", "index_block", "unwrap", "_.index_runes(u32::try_from(_).unwrap(), _, *_)?;"),
  -- height u32: < 2^32 blocks; `State.height + 1` unbounded in the model
  ("updater.rs", "index_block", "arith", "self.height += 1;"),
  -- bookkeeping counter (u64, +1 per block/output/range): cannot overflow in 2^64 steps; not modelled
  ("updater.rs", "index_block", "arith", "self.outputs_traversed += _;"),
  -- Instant subtraction (monotonic clock, log line only); not modelled
  ("updater.rs", "index_block", "arith", "(Instant::now() - _).as_millis(),"),
  -- `?` sites: errors of redb, the RPC client or a channel (environment, DESIGN §4): the model has no `.err` branch (c16_never_err)
  ("updater.rs", "index_block", "try-count", "14"),
  -- fetcher channel must be empty (`Previous block did not consume all inputs`): only without full UTXO index; environment (fetchOrder, C15); not modelled
  ("updater.rs", "index_utxo_entries", "assert", "assert!("),
  -- pattern inside the assert above, not a constructed error
  ("updater.rs", "index_utxo_entries", "err", "matches!(_.try_recv(), Err(TryRecvError::Empty)),"),
  -- next sequence number u32: < 2^31 inscriptions (validChain.fewInscriptions); model uses `entries.length`
  ("updater.rs", "index_utxo_entries", "arith", ".map(|(_, _)| _.value() + 1)"),
  -- `Sat + u64` of the block's first sat and subsidy: ≤ 2.1e15 (C29); model `startingSat + subsidy` unbounded
  ("updater.rs", "index_utxo_entries", "arith", "_.extend(SatRange::store((_.n(), (_ + _.subsidy()).n())));"),
  -- bookkeeping counter (u64, +1 per block/output/range): cannot overflow in 2^64 steps; not modelled
  ("updater.rs", "index_utxo_entries", "arith", "self.sat_ranges_since_flush += 1;"),
  -- bookkeeping counter (u64, +1 per block/output/range): cannot overflow in 2^64 steps; not modelled
  ("updater.rs", "index_utxo_entries", "arith", "self.outputs_cached += 1;"),
  -- model: takeInputEntries `script pubkey entry not found` — discharged by the address-rows invariant (C17)
  ("updater.rs", "index_utxo_entries", "panic", "panic!(\"\");"),
  -- fetcher channel must be empty (`Previous block did not consume all inputs`): only without full UTXO index; environment (fetchOrder, C15); not modelled
  ("updater.rs", "index_utxo_entries", "assert", "assert!(!self.index.have_full_utxo_index());"),
  -- fetcher channel closed: only without full UTXO index (environment); not modelled
  ("updater.rs", "index_utxo_entries", "err", "anyhow!("),
  -- `Some` assigned on both branches just above (index_sats); not a model branch
  ("updater.rs", "index_utxo_entries", "unwrap", "_.as_ref().unwrap(),"),
  -- vout enumerates tx.output and the Vec was built from tx.output: same length; model zips
  ("updater.rs", "index_utxo_entries", "index", "_[_].push_value(_.value.to_sat(), self.index);"),
  -- usize→u32 / u32→usize `try_into`: bounded by the number of transactions / outputs of a block (block size ≤ 4 MB); not modelled
  ("updater.rs", "index_utxo_entries", "unwrap", "let _ = u32::try_from(_).unwrap();"),
  -- `chunks_exact(11)` chunk → `[u8; 11]`: length is 11 by construction; not modelled
  ("updater.rs", "index_utxo_entries", "unwrap", "let (_, _) = SatRange::load(_.try_into().unwrap());"),
  -- `end - start` of a stored range (start ≤ end: ranges invariant C01) and lost-sat total ≤ supply; model `lostRare` unbounded Nat with truncated `-` (no panic branch; see notes)
  ("updater.rs", "index_utxo_entries", "arith", "_ += _ - _;"),
  -- `end - start` of a stored range (start ≤ end: ranges invariant C01) and lost-sat total ≤ supply; model `lostRare` unbounded Nat with truncated `-` (no panic branch; see notes)
  ("updater.rs", "index_utxo_entries", "arith", "_ += _ - _;"),
  -- `?` sites: errors of redb, the RPC client or a channel (environment, DESIGN §4): the model has no `.err` branch (c16_never_err)
  ("updater.rs", "index_utxo_entries", "try-count", "34"),
  -- vout enumerates tx.output, slice built from tx.output; model zips
  ("updater.rs", "index_transaction_output_script_pubkeys", "index", "_[_].push_script_pubkey(_.script_pubkey.as_bytes(), self.index);"),
  -- `?` sites: errors of redb, the RPC client or a channel (environment, DESIGN §4): the model has no `.err` branch (c16_never_err)
  ("updater.rs", "index_transaction_output_script_pubkeys", "try-count", "0"),
  -- sum of byte lengths of in-memory slices: bounded by memory; not modelled
  ("updater.rs", "index_transaction_sats", "sum", ".sum::<usize>(),"),
  -- usize→u32 / u32→usize `try_into`: bounded by the number of transactions / outputs of a block (block size ≤ 4 MB); not modelled
  ("updater.rs", "index_transaction_sats", "unwrap", "_: _.try_into().unwrap(),"),
  -- model: indexTx `insufficient inputs for transaction outputs` (`fillOutput = none`) — discharged by value conservation (c16_sats_sufficient)
  ("updater.rs", "index_transaction_sats", "expect", ".expect(\"\")"),
  -- `chunks_exact(11)` chunk → `[u8; 11]`: length is 11 by construction; not modelled
  ("updater.rs", "index_transaction_sats", "unwrap", ".unwrap(),"),
  -- remaining ≤ value (loop invariant); model `done` counts upward
  ("updater.rs", "index_transaction_sats", "arith", "_: _.value.to_sat() - _,"),
  -- stored range start ≤ end (C01); model truncated `-`, no panic branch (see notes)
  ("updater.rs", "index_transaction_sats", "arith", "let _ = _.1 - _.0;"),
  -- bookkeeping counter (u64, +1 per block/output/range): cannot overflow in 2^64 steps; not modelled
  ("updater.rs", "index_transaction_sats", "arith", "self.sat_ranges_since_flush += 1;"),
  -- < range.1 ≤ 2.1e15
  ("updater.rs", "index_transaction_sats", "arith", "let _ = _.0 + _;"),
  -- assigned size ≤ remaining by the `count > remaining` test; model `rem + 1 - (e - s)`
  ("updater.rs", "index_transaction_sats", "arith", "_ -= _.1 - _.0;"),
  -- assigned size ≤ remaining by the `count > remaining` test; model `rem + 1 - (e - s)`
  ("updater.rs", "index_transaction_sats", "arith", "_ -= _.1 - _.0;"),
  -- bookkeeping counter (u64, +1 per block/output/range): cannot overflow in 2^64 steps; not modelled
  ("updater.rs", "index_transaction_sats", "arith", "*_ += 1;"),
  -- bookkeeping counter (u64, +1 per block/output/range): cannot overflow in 2^64 steps; not modelled
  ("updater.rs", "index_transaction_sats", "arith", "*_ += 1;"),
  -- vout enumerates tx.output; model zips
  ("updater.rs", "index_transaction_sats", "index", "_[_].push_sat_ranges(&_, self.index);"),
  -- `?` sites: errors of redb, the RPC client or a channel (environment, DESIGN §4): the model has no `.err` branch (c16_never_err)
  ("updater.rs", "index_transaction_sats", "try-count", "1"),
  -- `?` sites: errors of redb, the RPC client or a channel (environment, DESIGN §4): the model has no `.err` branch (c16_never_err)
  ("updater.rs", "commit", "try-count", "14"),
  -- Σ output values as u64: validChain.valuesInRange (Σ out ≤ 21M BTC < 2^64); model `totalOut` unbounded
  ("inscription_updater.rs", "index_inscriptions", "sum", ".sum::<u64>();"),
  -- total_input_value + subsidy ≤ 50 BTC on a coinbase
  ("inscription_updater.rs", "index_inscriptions", "arith", "_ += Height(self.height).subsidy();"),
  -- input_index enumerates tx.input; input_utxo_entries has one entry per input for tx_offset ≠ 0; for the coinbase (empty Vec) the loop `continue`s on the null input first — needs `coinbase has only the null input` (validChain.coinbaseShape); model pairs inputs with entries
  ("inscription_updater.rs", "index_inscriptions", "index", "let mut _ = _[_].parse_inscriptions();"),
  -- model: scanOld `sequence_number_to_entry.get(sequence_number).unwrap()` — every seq in a utxo entry is < entries.length (C04 hypothesis `EntriesOk`)
  ("inscription_updater.rs", "index_inscriptions", "unwrap", ".unwrap()"),
  -- offset < value of the input ≤ 21M BTC (C03 offsets in range)
  ("inscription_updater.rs", "index_inscriptions", "arith", "let _ = _ + _;"),
  -- i32-inferred counter of inscriptions at one offset within one transaction: bounded by the envelopes of a block; model `bumpOffset` unbounded
  ("inscription_updater.rs", "index_inscriptions", "arith", ".1 += 1;"),
  -- as above: one entry per non-null input
  ("inscription_updater.rs", "index_inscriptions", "index", "let _ = _[_].total_value();"),
  -- Σ input values ≤ 21M BTC (validChain.valuesInRange + utxo values invariant)
  ("inscription_updater.rs", "index_inscriptions", "arith", "_ += _;"),
  -- usize→u32 / u32→usize `try_into`: bounded by the number of transactions / outputs of a block (block size ≤ 4 MB); not modelled
  ("inscription_updater.rs", "index_inscriptions", "unwrap", "if _.input != u32::try_from(_).unwrap() {"),
  -- model: curseOf `id_to_sequence_number.get(id).unwrap()` — discharged by `inscribed ids of old flotsam are indexed` (C04 hypothesis `EntriesOk`)
  ("inscription_updater.rs", "index_inscriptions", "unwrap", "self.id_to_sequence_number.get(_.store())?.unwrap().value();"),
  -- model: curseOf `sequence_number_to_entry.get(initial).unwrap()` — id2seq values < entries.length (`EntriesOk`)
  ("inscription_updater.rs", "index_inscriptions", "unwrap", ".unwrap()"),
  -- i32-inferred counter of inscriptions at one offset within one transaction: bounded by the envelopes of a block; model `bumpOffset` unbounded
  ("inscription_updater.rs", "index_inscriptions", "arith", ".1 += 1;"),
  -- u32 counter of envelopes in one tx (≤ block size)
  ("inscription_updater.rs", "index_inscriptions", "arith", "_ += 1;"),
  -- consensus_encode into a Vec cannot fail; not modelled
  ("inscription_updater.rs", "index_inscriptions", "expect", ".expect(\"\");"),
  -- model: indexInscriptions `total_input_value - total_output_value` — discharged by Σ out ≤ Σ in (validChain.conserves) + value invariant; never reached for a coinbase (no new flotsam on a null input)
  ("inscription_updater.rs", "index_inscriptions", "arith", "*_ = (_ - _) / u64::from(_);"),
  -- model: indexInscriptions `division by zero` — a new flotsam implies id_counter ≥ 1 (proved: `ScanOk` through scanOld/scanNew/scanInputs, used in `indexInscriptions_U`)
  ("inscription_updater.rs", "index_inscriptions", "div", "*_ = (_ - _) / u64::from(_);"),
  -- ≤ Σ out ≤ 21M BTC
  ("inscription_updater.rs", "index_inscriptions", "arith", "let _ = _ + _.value.to_sat();"),
  -- usize→u32 / u32→usize `try_into`: bounded by the number of transactions / outputs of a block (block size ≤ 4 MB); not modelled
  ("inscription_updater.rs", "index_inscriptions", "unwrap", "_: _.try_into().unwrap(),"),
  -- flotsam sorted by offset and all earlier outputs consumed offsets < output_value: offset ≥ output_value (model: truncated `-`; loop invariant of assignOutputs)
  ("inscription_updater.rs", "index_inscriptions", "arith", "_: _.offset - _,"),
  -- `peek()` returned Some just above
  ("inscription_updater.rs", "index_inscriptions", "unwrap", "_.next().unwrap(),"),
  -- model: updateInscriptionLocation `output_utxo_entries[vout]` — vout < tx.output.len() by construction of new_locations (proved: `assignOutputs_vout` + length bookkeeping in `uilFinish_U`/`applyLocations_U`/`indexTxMid_U`)
  ("inscription_updater.rs", "index_inscriptions", "index", "&mut _[usize::try_from(_.outpoint.vout).unwrap()];"),
  -- usize→u32 / u32→usize `try_into`: bounded by the number of transactions / outputs of a block (block size ≤ 4 MB); not modelled
  ("inscription_updater.rs", "index_inscriptions", "unwrap", "&mut _[usize::try_from(_.outpoint.vout).unwrap()];"),
  -- flotsam sorted by offset and all earlier outputs consumed offsets < output_value: offset ≥ output_value (model: truncated `-`; loop invariant of assignOutputs)
  ("inscription_updater.rs", "index_inscriptions", "arith", "_: self.lost_sats + _.offset - _,"),
  -- flotsam sorted by offset and all earlier outputs consumed offsets < output_value: offset ≥ output_value (model: truncated `-`; loop invariant of assignOutputs)
  ("inscription_updater.rs", "index_inscriptions", "arith", "_: self.lost_sats + _.offset - _,"),
  -- model: indexInscriptions `self.reward - output_value` — discharged by coinbase ≤ subsidy + fees (validChain.coinbaseWithinReward) + reward invariant
  ("inscription_updater.rs", "index_inscriptions", "arith", "self.lost_sats += self.reward - _;"),
  -- model: indexInscriptions `self.reward - output_value` — discharged by coinbase ≤ subsidy + fees (validChain.coinbaseWithinReward) + reward invariant
  ("inscription_updater.rs", "index_inscriptions", "arith", "self.lost_sats += self.reward - _;"),
  -- flotsam sorted by offset and all earlier outputs consumed offsets < output_value: offset ≥ output_value (model: truncated `-`; loop invariant of assignOutputs)
  ("inscription_updater.rs", "index_inscriptions", "arith", "_: self.reward + _.offset - _,"),
  -- flotsam sorted by offset and all earlier outputs consumed offsets < output_value: offset ≥ output_value (model: truncated `-`; loop invariant of assignOutputs)
  ("inscription_updater.rs", "index_inscriptions", "arith", "_: self.reward + _.offset - _,"),
  -- model: indexInscriptions `total_input_value - output_value` — discharged by Σ out ≤ Σ in (validChain.conserves) + value invariant
  ("inscription_updater.rs", "index_inscriptions", "arith", "self.reward += _ - _;"),
  -- model: indexInscriptions `total_input_value - output_value` — discharged by Σ out ≤ Σ in (validChain.conserves) + value invariant
  ("inscription_updater.rs", "index_inscriptions", "arith", "self.reward += _ - _;"),
  -- `?` sites: errors of redb, the RPC client or a channel (environment, DESIGN §4): the model has no `.err` branch (c16_never_err)
  ("inscription_updater.rs", "index_inscriptions", "try-count", "6"),
  -- `chunks_exact(11)` chunk → `[u8; 11]`: length is 11 by construction; not modelled
  ("inscription_updater.rs", "calculate_sat", "unwrap", "let (_, _) = SatRange::load(_.try_into().unwrap());"),
  -- stored range start ≤ end (C01); model truncated `-`
  ("inscription_updater.rs", "calculate_sat", "arith", "let _ = _ - _;"),
  -- ≤ Σ input values
  ("inscription_updater.rs", "calculate_sat", "arith", "if _ + _ > _ {"),
  -- offset ≤ input_offset < offset + size here; result < end ≤ 2.1e15
  ("inscription_updater.rs", "calculate_sat", "arith", "let _ = _ + _ - _;"),
  -- offset ≤ input_offset < offset + size here; result < end ≤ 2.1e15
  ("inscription_updater.rs", "calculate_sat", "arith", "let _ = _ + _ - _;"),
  -- ≤ Σ input values
  ("inscription_updater.rs", "calculate_sat", "arith", "_ += _;"),
  -- model: calculateSat `calculate_sat: unreachable!()` — discharged by offset < Σ input ranges (c16_calculate_sat_ok)
  ("inscription_updater.rs", "calculate_sat", "panic", "unreachable!()"),
  -- `?` sites: errors of redb, the RPC client or a channel (environment, DESIGN §4): the model has no `.err` branch (c16_never_err)
  ("inscription_updater.rs", "calculate_sat", "try-count", "1"),
  -- model: `sequence_number_to_entry.get(&sequence_number).unwrap()` (burn of an old inscription) — `EntriesOk`
  ("inscription_updater.rs", "update_inscription_location", "unwrap", ".unwrap()"),
  -- model: `inscription count try_into::<i32>().unwrap()` — discharged by validChain.fewInscriptions (< 2^31)
  ("inscription_updater.rs", "update_inscription_location", "unwrap", "let _: i32 = self.cursed_inscription_count.try_into().unwrap();"),
  -- u64 counter < 2^31
  ("inscription_updater.rs", "update_inscription_location", "arith", "self.cursed_inscription_count += 1;"),
  -- i32 `number + 1` overflows only at number = i32::MAX, i.e. with exactly 2^31 - 1 cursed inscriptions already indexed: excluded by validChain.fewInscriptions (< 2^31 - 1 envelopes in total); the model's branch fires one later, at 2^31 (see notes)
  ("inscription_updater.rs", "update_inscription_location", "arith", "-(_ + 1)"),
  -- model: `inscription count try_into::<i32>().unwrap()` — discharged by validChain.fewInscriptions
  ("inscription_updater.rs", "update_inscription_location", "unwrap", "let _: i32 = self.blessed_inscription_count.try_into().unwrap();"),
  -- u64 counter < 2^31
  ("inscription_updater.rs", "update_inscription_location", "arith", "self.blessed_inscription_count += 1;"),
  -- u32, < 2^32 inscriptions (fewInscriptions gives < 2^32 in total)
  ("inscription_updater.rs", "update_inscription_location", "arith", "self.next_sequence_number += 1;"),
  -- model: linkParents `sequence_number_to_entry.get(parent_sequence_number).unwrap()` — `EntriesOk`
  ("inscription_updater.rs", "update_inscription_location", "unwrap", ".unwrap()"),
  -- ≤ 100
  ("inscription_updater.rs", "update_inscription_location", "arith", "self.home_inscription_count += 1;"),
  -- u64 counter ≤ number of inscriptions
  ("inscription_updater.rs", "update_inscription_location", "arith", "self.unbound_inscriptions += 1;"),
  -- model: `assert!(Index::is_special_outpoint(satpoint.outpoint))` — callers pass `None` only with the null outpoint, or unbound was set (proved: `uilFinish_U`, `applyLost_U`)
  ("inscription_updater.rs", "update_inscription_location", "assert", "assert!(Index::is_special_outpoint(_.outpoint));"),
  -- `?` sites: errors of redb, the RPC client or a channel (environment, DESIGN §4): the model has no `.err` branch (c16_never_err)
  ("inscription_updater.rs", "update_inscription_location", "try-count", "18"),
  -- Lot +=: model addLot `lot overflow` (mint) — supply bound: PROVED unreachable on valid chains (rune lift C08, `RuneLift.rune_pass_ok`)
  ("rune_updater.rs", "index_runes", "arith", "*_.entry(_).or_default() += _;"),
  -- Lot +=: model addLot `lot overflow` (premine) — discharged by the supply bound: PROVED unreachable on valid chains (rune lift C08, `RuneLift.rune_pass_ok`, `c16_no_failure_partial`)
  ("rune_updater.rs", "index_runes", "arith", "*_.entry(_).or_default() +="),
  -- etched = Some only if runestone.etching is Some (fn etched); model createRuneEntry/`etching.bind`
  ("rune_updater.rs", "index_runes", "unwrap", "_.etching.unwrap().premine.unwrap_or_default();"),
  -- u32→usize: infallible on ≥32-bit targets
  ("rune_updater.rs", "index_runes", "unwrap", "let _ = usize::try_from(_).unwrap();"),
  -- model: applyEdict `assert!(output <= tx.output.len())` — discharged by validChain.edictsInRange (what Runestone::decipher guarantees)
  ("rune_updater.rs", "index_runes", "assert", "assert!(_ <= _.output.len());"),
  -- Lot -=: model allocate `lot underflow` — amounts are capped by the balance (proved: `allocate_within`, `split_sum_le`, `applyEdict_within`)
  ("rune_updater.rs", "index_runes", "arith", "*_ -= _;"),
  -- model: allocate `allocated[output]` — output < tx.output.len() on this branch (proved: `allocate_within`, `applyEdict_within`)
  ("rune_updater.rs", "index_runes", "index", "*_[_].entry(_).or_default() += _;"),
  -- Lot +=: model allocate/addLot `lot overflow` (allocated[output]) — supply bound: PROVED unreachable on valid chains (rune lift C08, `RuneLift.rune_pass_ok`)
  ("rune_updater.rs", "index_runes", "arith", "*_[_].entry(_).or_default() += _;"),
  -- Lot / u128 with destinations non-empty (guarded by `!destinations.is_empty()`); model `balance / dests.length` under `dests.isEmpty = false`
  ("rune_updater.rs", "index_runes", "div", "let _ = *_ / _.len() as u128;"),
  -- as above; divisor non-zero
  ("rune_updater.rs", "index_runes", "rem", "let _ = usize::try_from(*_ % _.len() as u128).unwrap();"),
  -- remainder < destinations.len() (usize)
  ("rune_updater.rs", "index_runes", "unwrap", "let _ = usize::try_from(*_ % _.len() as u128).unwrap();"),
  -- Lot + 1 where amount = balance / n < balance when remainder > 0: ≤ balance < 2^128
  ("rune_updater.rs", "index_runes", "arith", "if _ < _ { _ + 1 } else { _ },"),
  -- Lot +=: model addLot `lot overflow` (premine) — discharged by the supply bound: PROVED unreachable on valid chains (rune lift C08, `RuneLift.rune_pass_ok`, `c16_no_failure_partial`)
  ("rune_updater.rs", "index_runes", "arith", "*_.entry(_).or_default() += _;"),
  -- cenotaph case handled by the enclosing `if let Some(Artifact::Cenotaph(_))`; model matches on the artifact
  ("rune_updater.rs", "index_runes", "panic", "Artifact::Cenotaph(_) => unreachable!(),"),
  -- model: `assert!(pointer < allocated.len())` — discharged by validChain.pointerInRange (Runestone::decipher guarantees)
  ("rune_updater.rs", "index_runes", "assert", ".inspect(|&_| assert!(_ < _.len()))"),
  -- vout is the checked pointer or the index of an existing output; model `alloc[v]?.getD`
  ("rune_updater.rs", "index_runes", "index", "*_[_].entry(_).or_default() += _;"),
  -- Lot +=: model addLot `lot overflow` (premine) — discharged by the supply bound: PROVED unreachable on valid chains (rune lift C08, `RuneLift.rune_pass_ok`, `c16_no_failure_partial`)
  ("rune_updater.rs", "index_runes", "arith", "*_[_].entry(_).or_default() += _;"),
  -- Lot +=: model addLot `lot overflow` (premine) — discharged by the supply bound: PROVED unreachable on valid chains (rune lift C08, `RuneLift.rune_pass_ok`, `c16_no_failure_partial`)
  ("rune_updater.rs", "index_runes", "arith", "*_.entry(_).or_default() += _;"),
  -- vout enumerates `allocated` which has tx.output.len() elements
  ("rune_updater.rs", "index_runes", "index", "if _.output[_].script_pubkey.is_op_return() {"),
  -- Lot +=: model addLot `lot overflow` (premine) — discharged by the supply bound: PROVED unreachable on valid chains (rune lift C08, `RuneLift.rune_pass_ok`, `c16_no_failure_partial`)
  ("rune_updater.rs", "index_runes", "arith", "*_.entry(*_).or_default() += *_;"),
  -- usize→u32 / u32→usize `try_into`: bounded by the number of transactions / outputs of a block (block size ≤ 4 MB); not modelled
  ("rune_updater.rs", "index_runes", "unwrap", "_: _.try_into().unwrap(),"),
  -- Lot +=: model addAllTo `lot overflow` (block burned) — supply bound: PROVED unreachable on valid chains (rune lift C08, `RuneLift.rune_pass_ok`)
  ("rune_updater.rs", "index_runes", "arith", "*self.burned.entry(_).or_default() += _;"),
  -- `?` sites: errors of redb, the RPC client or a channel (environment, DESIGN §4): the model has no `.err` branch (c16_never_err)
  ("rune_updater.rs", "index_runes", "try-count", "8"),
  -- model: flushBurned `id_to_entry.get(rune_id).unwrap()` — burned ids have entries: PROVED on valid chains (rune lift, `RuneLift.rune_pass_ok`)
  ("rune_updater.rs", "update", "unwrap", "let mut _ = RuneEntry::load(self.id_to_entry.get(&_.store())?.unwrap().value());"),
  -- model: flushBurned `entry.burned.checked_add(burned).unwrap()` — supply bound: PROVED unreachable on valid chains (rune lift C08, `RuneLift.rune_pass_ok`)
  ("rune_updater.rs", "update", "unwrap", "_.burned = _.burned.checked_add(_.n()).unwrap();"),
  -- `?` sites: errors of redb, the RPC client or a channel (environment, DESIGN §4): the model has no `.err` branch (c16_never_err)
  ("rune_updater.rs", "update", "try-count", "2"),
  -- u64 counter of runes
  ("rune_updater.rs", "create_rune_entry", "arith", "self.runes += 1;"),
  -- etched = Some with a Runestone artifact only if etching is Some; model `default` branch unreachable
  ("rune_updater.rs", "create_rune_entry", "unwrap", "} = _.unwrap();"),
  -- `?` sites: errors of redb, the RPC client or a channel (environment, DESIGN §4): the model has no `.err` branch (c16_never_err)
  ("rune_updater.rs", "create_rune_entry", "try-count", "7"),
  -- u64 counter
  ("rune_updater.rs", "etched", "arith", ".insert(&Statistic::ReservedRunes.into(), _ + 1)?;"),
  -- `?` sites: errors of redb, the RPC client or a channel (environment, DESIGN §4): the model has no `.err` branch (c16_never_err)
  ("rune_updater.rs", "etched", "try-count", "4"),
  -- u128 mints < cap ≤ 2^128 - 1 (mintable checked `mints < cap`)
  ("rune_updater.rs", "mint", "arith", "_.mints += 1;"),
  -- `?` sites: errors of redb, the RPC client or a channel (environment, DESIGN §4): the model has no `.err` branch (c16_never_err)
  ("rune_updater.rs", "mint", "try-count", "2"),
  -- `can't get input transaction`: the node knows every spent transaction of a valid chain (validChain.nodeAnswers; the model folds this into `confHeight = none`)
  ("rune_updater.rs", "tx_commits_to_rune", "panic", "panic!("),
  -- the node's transaction has the spent output (valid chain); not a model branch (emitter computes `taproot`)
  ("rune_updater.rs", "tx_commits_to_rune", "index", "let _ = _.vout[_.previous_output.vout.into_usize()]"),
  -- model: txCommitsToRune `get_block_header_info(blockhash).unwrap()` — discharged by validChain.nodeAnswers (confHeight present: spent tx is confirmed)
  ("rune_updater.rs", "tx_commits_to_rune", "unwrap", ".get_block_header_info(&_.blockhash.unwrap())"),
  -- model: same branch as `blockhash.unwrap()` (header of a block the node served exists)
  ("rune_updater.rs", "tx_commits_to_rune", "unwrap", ".unwrap()"),
  -- usize→u32 of a block height
  ("rune_updater.rs", "tx_commits_to_rune", "unwrap", ".checked_sub(_.try_into().unwrap())"),
  -- model: txCommitsToRune `height.checked_sub(commit_tx_height).unwrap()` — validChain.nodeAnswers (confHeight ≤ height)
  ("rune_updater.rs", "tx_commits_to_rune", "unwrap", ".unwrap()"),
  -- u32 height difference + 1
  ("rune_updater.rs", "tx_commits_to_rune", "arith", "+ 1;"),
  -- `?` sites: errors of redb, the RPC client or a channel (environment, DESIGN §4): the model has no `.err` branch (c16_never_err)
  ("rune_updater.rs", "tx_commits_to_rune", "try-count", "3"),
  -- i < buffer.len() by the loop condition
  ("rune_updater.rs", "unallocated", "index", "let ((_, _), _) = Index::decode_rune_balance(&_[_..]).unwrap();"),
  -- table value was written by encode_rune_balance (C35 storage round-trip); model keeps decoded balances
  ("rune_updater.rs", "unallocated", "unwrap", "let ((_, _), _) = Index::decode_rune_balance(&_[_..]).unwrap();"),
  -- ≤ buffer.len()
  ("rune_updater.rs", "unallocated", "arith", "_ += _;"),
  -- Lot +=: model takeInputs/addLot `lot overflow` — supply bound: PROVED unreachable on valid chains (rune lift C08, `RuneLift.rune_pass_ok`)
  ("rune_updater.rs", "unallocated", "arith", "*_.entry(_).or_default() += _;"),
  -- `?` sites: errors of redb, the RPC client or a channel (environment, DESIGN §4): the model has no `.err` branch (c16_never_err)
  ("rune_updater.rs", "unallocated", "try-count", "1")]

end Ord.Index.PanicSitesExpected
