import OrdModel.Index.Block
/-
Concrete layer of the updater: the UTXO cache (`utxo_cache` of `Updater::update_index`) lives
across the blocks of a commit batch and is flushed by `commit`.  `Block.lean`'s `applyBlock` is
the special case "commit after every block"; C12 is the statement that the committed content
does not depend on where the commits fall.
-/
namespace Ord.Index
open Outcome

structure Store where
  /-- the write transaction's view of the tables -/
  st : State := {}
  /-- `utxo_cache`, including the entries of the two special outpoints -/
  cache : Cache := []
  deriving Inhabited

/-- `index_utxo_entries` against a cache that may already hold entries of earlier blocks of the
batch; nothing is flushed -/
def indexUtxoEntriesC (cfg : Cfg) (s : Store) (blk : Block) : Outcome (Store × List Event) :=
  let insOn := blk.height ≥ cfg.firstInscriptionHeight && cfg.indexInscriptions
  let coinbaseInputs :=
    if cfg.indexSats ∧ subsidy blk.height > 0 then [(startingSat blk.height, startingSat blk.height + subsidy blk.height)] else []
  -- the special outpoints' cache entries are reached through `utxo_cache.entry(..).or_insert(..)`
  let bc0 : BlockCtx :=
    { st := s.st, cache := (AL.erase (AL.erase s.cache OutPoint.null) OutPoint.unbound),
      coinbaseInputs := coinbaseInputs,
      ins := { reward := subsidy blk.height, lostSats := s.st.lostSats, homeCount := s.st.home.length,
               nullEntry := AL.get s.cache OutPoint.null, unboundEntry := AL.get s.cache OutPoint.unbound } }
  let order := (enumFrom 0 blk.txs).drop 1 ++ (enumFrom 0 blk.txs).take 1
  match indexTxs cfg blk insOn order bc0 with
  | .panic e => .panic e
  | .err e => .err e
  | .ok bc =>
    let st1 := if insOn then { bc.st with height2lastseq := AL.set bc.st.height2lastseq blk.height bc.st.entries.length } else bc.st
    let (st2, nullNew, lostFromSats) :=
      if bc.lostRanges.isEmpty then (st1, bc.ins.nullEntry, st1.lostSats)
      else
        let (m, lost) := lostRare st1.sat2sp bc.lostRanges st1.lostSats
        let base := bc.ins.nullEntry.getD UtxoEntry.empty
        ({ st1 with sat2sp := m }, some (UtxoEntry.merged base ⟨0, bc.lostRanges, [], []⟩), lost)
    let st3 := { st2 with lostSats := if cfg.indexSats then lostFromSats else bc.ins.lostSats }
    let special : Cache :=
      (match nullNew with | some e => [(OutPoint.null, e)] | none => []) ++
      (match bc.ins.unboundEntry with | some e => [(OutPoint.unbound, e)] | none => [])
    .ok ({ st := st3, cache := bc.cache ++ special }, bc.ins.events)

/-- `index_block` without the commit -/
def indexBlockC (cfg : Cfg) (s : Store) (blk : Block) : Outcome (Store × List Event) :=
  let r1 : Outcome (Store × List Event) :=
    if cfg.indexInscriptions || cfg.indexAddresses || cfg.indexSats then indexUtxoEntriesC cfg s blk
    else .ok (s, [])
  match r1 with
  | .panic e => .panic e
  | .err e => .err e
  | .ok (s1, ev1) =>
    let r2 : Outcome (State × List Event) :=
      if cfg.indexRunes && blk.height ≥ cfg.firstRuneHeight then indexRunesBlock s1.st blk else .ok (s1.st, [])
    match r2 with
    | .panic e => .panic e
    | .err e => .err e
    | .ok (st2, ev2) =>
      .ok ({ s1 with st := { st2 with headers := st2.headers ++ [(blk.height, blk.hash)], height := st2.height + 1 } }, ev1 ++ ev2)

/-- `commit`: flush the cache into the tables -/
def Store.commit (cfg : Cfg) (s : Store) : Store := { st := flushCache cfg s.st s.cache, cache := [] }

/-- index a batch of blocks and commit once at the end -/
def runBatch (cfg : Cfg) : List Block → Store → Outcome Store
  | [], s => .ok (s.commit cfg)
  | b :: bs, s =>
    match indexBlockC cfg s b with
    | .panic e => .panic e
    | .err e => .err e
    | .ok (s', _) => runBatch cfg bs s'

/-- a schedule = the chain cut into commit batches -/
def runBatches (cfg : Cfg) : List (List Block) → Store → Outcome Store
  | [], s => .ok s
  | batch :: rest, s =>
    match runBatch cfg batch s with
    | .panic e => .panic e
    | .err e => .err e
    | .ok s' => runBatches cfg rest s'

/-- the abstract run: commit after every block -/
def runBlocks (cfg : Cfg) : List Block → State → Outcome State
  | [], st => .ok st
  | b :: bs, st =>
    match applyBlock cfg st b with
    | .panic e => .panic e
    | .err e => .err e
    | .ok (st', _) => runBlocks cfg bs st'

end Ord.Index
