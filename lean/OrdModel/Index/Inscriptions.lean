import OrdModel.Index.Sats
/-
`InscriptionUpdater::index_inscriptions` and `update_inscription_location`
(src/index/updater/inscription_updater.rs), line by line.  Panic sites of the Rust are
`Outcome.panic` branches.
-/
namespace Ord.Index
open Outcome

inductive Origin where
  | new (cursed : Bool) (fee : Nat) (gallery hidden : Bool) (parents : List InscriptionId)
      (reinscription unbound vindicated : Bool)
  | old (seq : Nat) (oldSatpoint : SatPoint)
  deriving Repr, Inhabited

structure Flotsam where
  id : InscriptionId
  offset : Nat
  origin : Origin
  deriving Repr, Inhabited

inductive Curse where
  | duplicateField | incompleteField | notAtOffsetZero | notInFirstInput | pointer | pushnum
  | reinscription | stutter | unrecognizedEvenField
  deriving DecidableEq, Repr

/-- Block-scoped state of the updater (`InscriptionUpdater` fields that are not tables). -/
structure InsCtx where
  flotsam : List Flotsam := []
  reward : Nat
  lostSats : Nat
  /-- UTXO cache entries of the two special outpoints touched in this block -/
  nullEntry : Option UtxoEntry := none
  unboundEntry : Option UtxoEntry := none
  homeCount : Nat
  events : List Event := []
  deriving Inhabited

/-- stable insertion sort by key (what `sort_by_key` guarantees): elements are inserted from the
right end, each *before* the elements of equal key already placed (which were to its right) -/
def insertByKey {α : Type} (key : α → Nat) (a : α) : List α → List α
  | [] => [a]
  | b :: bs => if key a ≤ key b then a :: b :: bs else b :: insertByKey key a bs

def sortByKey {α : Type} (key : α → Nat) (l : List α) : List α :=
  l.foldr (fun a acc => insertByKey key a acc) []

/-- `inscribed_offsets.entry(offset).or_insert((id, 0)).1 += 1` -/
def bumpOffset (m : List (Nat × InscriptionId × Nat)) (offset : Nat) (id : InscriptionId) :
    List (Nat × InscriptionId × Nat) :=
  match AL.get m offset with
  | some (id0, c) => AL.set m offset (id0, c + 1)
  | none => AL.set m offset (id, 1)

/-- the curse chain of `index_inscriptions` for one envelope -/
def curseOf (st : State) (env : Envelope) (inscribed : List (Nat × InscriptionId × Nat))
    (offset : Nat) : Outcome (Option Curse) :=
  if env.unrecognizedEven then .ok (some .unrecognizedEvenField)
  else if env.duplicateField then .ok (some .duplicateField)
  else if env.incompleteField then .ok (some .incompleteField)
  else if env.input ≠ 0 then .ok (some .notInFirstInput)
  else if env.offset ≠ 0 then .ok (some .notAtOffsetZero)
  else if env.pointerField then .ok (some .pointer)
  else if env.pushnum then .ok (some .pushnum)
  else if env.stutter then .ok (some .stutter)
  else match AL.get inscribed offset with
    | some (id, count) =>
      if count > 1 then .ok (some .reinscription)
      else match AL.get st.id2seq id with
        | none => .panic "id_to_sequence_number.get(id).unwrap()"
        | some seq =>
          match st.entries[seq]? with
          | none => .panic "sequence_number_to_entry.get(initial).unwrap()"
          | some entry =>
            if entry.number < 0 ∨ hasCharm entry.charms charmVindicated then .ok none
            else .ok (some .reinscription)
    | none => .ok none

structure ScanState where
  floating : List Flotsam := []
  idCounter : Nat := 0
  inscribed : List (Nat × InscriptionId × Nat) := []
  totalInputValue : Nat := 0
  envelopes : List Envelope
  deriving Inhabited

/-- inscriptions already sitting on one input -/
def scanOld (st : State) (prev : OutPoint) (base : Nat) :
    List (Nat × Nat) → ScanState → Outcome ScanState
  | [], sc => .ok sc
  | (seq, off) :: rest, sc =>
    match st.entries[seq]? with
    | none => .panic "sequence_number_to_entry.get(sequence_number).unwrap()"
    | some entry =>
      let offset := base + off
      scanOld st prev base rest
        { sc with floating := sc.floating ++ [⟨entry.id, offset, .old seq ⟨prev, off⟩⟩],
                  inscribed := bumpOffset sc.inscribed offset entry.id }

/-- the `while let Some(inscription) = envelopes.peek()` loop for one input -/
def scanNew (st : State) (jubilant : Bool) (txid : Txid) (inputIndex offset inputValue totalOut : Nat) :
    List Envelope → ScanState → Outcome ScanState
  | [], sc => .ok { sc with envelopes := [] }
  | env :: rest, sc =>
    if env.input ≠ inputIndex then .ok { sc with envelopes := env :: rest }
    else
      match curseOf st env sc.inscribed offset with
      | .panic s => .panic s
      | .err e => .err e
      | .ok curse =>
        let id : InscriptionId := ⟨txid, sc.idCounter⟩
        let offset' := match env.pointer with
          | some p => if p < totalOut then p else offset
          | none => offset
        let fl : Flotsam := ⟨id, offset',
          .new (curse.isSome && !jubilant) 0 env.gallery env.hidden env.parents
            (AL.contains sc.inscribed offset')
            (inputValue == 0 || curse == some .unrecognizedEvenField || env.unrecognizedEven)
            (curse.isSome && jubilant)⟩
        scanNew st jubilant txid inputIndex offset inputValue totalOut rest
          { sc with floating := sc.floating ++ [fl], idCounter := sc.idCounter + 1,
                    inscribed := bumpOffset sc.inscribed offset' id }

/-- the `for (input_index, txin)` loop; `entries` = the spent UTXO entries, one per input
(ignored for a null previous output) -/
def scanInputs (cfg : Cfg) (st : State) (jubilant : Bool) (txid : Txid) (height totalOut : Nat) :
    List (TxIn × UtxoEntry) → Nat → ScanState → Outcome ScanState
  | [], _, sc => .ok sc
  | (txin, entry) :: rest, i, sc =>
    if txin.prev.isNull then
      scanInputs cfg st jubilant txid height totalOut rest (i + 1)
        { sc with totalInputValue := sc.totalInputValue + subsidy height }
    else
      match scanOld st txin.prev sc.totalInputValue (sortByKey (·.1) entry.ins) sc with
      | .panic s => .panic s
      | .err e => .err e
      | .ok sc1 =>
        let offset := sc1.totalInputValue
        let inputValue := entry.totalValue cfg
        let sc2 := { sc1 with totalInputValue := sc1.totalInputValue + inputValue }
        match scanNew st jubilant txid i offset inputValue totalOut sc2.envelopes sc2 with
        | .panic s => .panic s
        | .err e => .err e
        | .ok sc3 => scanInputs cfg st jubilant txid height totalOut rest (i + 1) sc3

/-- `calculate_sat` -/
def calculateSat : List (Nat × Nat) → Nat → Nat → Outcome Nat
  | [], _, _ => .panic "calculate_sat: unreachable!()"
  | (s, e) :: rest, offset, inputOffset =>
    if offset + (e - s) > inputOffset then .ok (s + inputOffset - offset)
    else calculateSat rest (offset + (e - s)) inputOffset

/-- the `for parent in parents` loop of `update_inscription_location` -/
def linkParents (seq : Nat) : List InscriptionId → State → List InscriptionId → List Nat →
    Outcome (State × List InscriptionId × List Nat)
  | [], st, ids, seqs => .ok (st, ids, seqs)
  | p :: rest, st, ids, seqs =>
    match AL.get st.id2seq p with
    | none => linkParents seq rest st ids seqs
    | some pseq =>
      match st.entries[pseq]? with
      | none => .panic "sequence_number_to_entry.get(parent_sequence_number).unwrap()"
      | some pentry =>
        let st1 := { st with children := insertUnique st.children (pseq, seq) }
        let st2 :=
          if pentry.hidden then st1
          else
            let l2c := match AL.get st1.coll2latest pseq with
              | some oldLatest => st1.latest2coll.filter (fun x => !(x == (oldLatest, pseq)))
              | none => st1.latest2coll
            { st1 with coll2latest := AL.set st1.coll2latest pseq seq,
                       latest2coll := insertUnique l2c (seq, pseq) }
        linkParents seq rest st2 (ids ++ [p]) (seqs ++ [pseq])

/-- where the flotsam's entry goes -/
inductive Target where
  | output (vout : Nat)
  | null
  deriving Repr

structure LocState where
  st : State
  ctx : InsCtx
  /-- output entries of the transaction being indexed -/
  outs : List UtxoEntry
  deriving Inhabited

def pushIns (e : UtxoEntry) (seq off : Nat) : UtxoEntry := { e with ins := e.ins ++ [(seq, off)] }

/-- `update_inscription_location` -/
def updateInscriptionLocation (cfg : Cfg) (height time : Nat) (inputRanges : Option (List (Nat × Nat)))
    (fl : Flotsam) (newSatpoint : SatPoint) (opReturn : Bool) (target : Target)
    (ls : LocState) : Outcome LocState :=
  let step : Outcome (Bool × Nat × State × InsCtx) :=
    match fl.origin with
    | .old seq oldSp =>
      match ls.st.entries[seq]? with
      | none => if opReturn then .panic "sequence_number_to_entry.get(&sequence_number).unwrap()" else
          .ok (false, seq, ls.st,
            { ls.ctx with events := ls.ctx.events ++ [.inscriptionTransferred height fl.id newSatpoint oldSp seq] })
      | some entry =>
        let st1 := if opReturn then
            { ls.st with entries := ls.st.entries.set seq { entry with charms := setCharm entry.charms charmBurned } }
          else ls.st
        .ok (false, seq, st1,
          { ls.ctx with events := ls.ctx.events ++ [.inscriptionTransferred height fl.id newSatpoint oldSp seq] })
    | .new cursed fee gallery hidden parents reinscription unbound vindicated =>
      if (if cursed then ls.st.cursed else ls.st.blessed) ≥ 2147483648 then
        .panic "inscription count try_into::<i32>().unwrap()"
      else
      let number : Int := if cursed then -((ls.st.cursed : Int) + 1) else (ls.st.blessed : Int)
      let st0 := if cursed then { ls.st with cursed := ls.st.cursed + 1 } else { ls.st with blessed := ls.st.blessed + 1 }
      let seq := st0.entries.length
      let st1 := { st0 with num2seq := AL.set st0.num2seq number seq }
      let satO : Outcome (Option Nat) :=
        if unbound then .ok none
        else match inputRanges with
          | none => .ok none
          | some rs => match calculateSat rs 0 fl.offset with
            | .ok s => .ok (some s)
            | .panic s => .panic s
            | .err e => .err e
      match satO with
      | .panic s => .panic s
      | .err e => .err e
      | .ok sat =>
        let c0 := if cursed then charmCursed else 0
        let c1 := if reinscription then setCharm c0 charmReinscription else c0
        -- `charms |= sat.charms()`: disjoint from the bits set so far
        let c2 := match sat with | some s => c1 + satCharms s | none => c1
        let c3 := if opReturn then setCharm c2 charmBurned else c2
        let c4 := if newSatpoint.outpoint.isNull then setCharm c3 charmLost else c3
        let c5 := if unbound then setCharm c4 charmUnbound else c4
        let charms := if vindicated then setCharm c5 charmVindicated else c5
        let st2 := match sat with
          | some s => { st1 with sat2seq := insertUnique st1.sat2seq (s, seq) }
          | none => st1
        match linkParents seq parents st2 [] [] with
        | .panic s => .panic s
        | .err e => .err e
        | .ok (st3, parentIds, parentSeqs) =>
          let st4 := if gallery && !hidden then { st3 with gallery := insertUnique st3.gallery seq } else st3
          let ev := Event.inscriptionCreated height charms fl.id (if unbound then none else some newSatpoint) parentIds seq
          let entry : InsEntry := ⟨charms, fee, height, hidden, fl.id, number, parentSeqs, sat, seq, time⟩
          let st5 := { st4 with entries := st4.entries ++ [entry], id2seq := AL.set st4.id2seq fl.id seq }
          let (st6, homeCount) :=
            if hidden then (st5, ls.ctx.homeCount)
            else
              let home := st5.home ++ [(seq, fl.id)]
              if ls.ctx.homeCount = 100 then ({ st5 with home := home.drop 1 }, ls.ctx.homeCount)
              else ({ st5 with home := home }, ls.ctx.homeCount + 1)
          .ok (unbound, seq, st6, { ls.ctx with events := ls.ctx.events ++ [ev], homeCount := homeCount })
  match step with
  | .panic s => .panic s
  | .err e => .err e
  | .ok (unbound, seq, st, ctx) =>
    if unbound then
      let off := st.unbound
      let e := (ctx.unboundEntry.getD UtxoEntry.empty)
      .ok { st := { st with unbound := st.unbound + 1 },
            ctx := { ctx with unboundEntry := some (pushIns e seq off) }, outs := ls.outs }
    else
      match target with
      | .output vout =>
        match ls.outs[vout]? with
        | none => .panic "output_utxo_entries[vout]"
        | some e => .ok { st := st, ctx := ctx, outs := ls.outs.set vout (pushIns e seq newSatpoint.offset) }
      | .null =>
        if !newSatpoint.outpoint.isSpecial then .panic "assert!(Index::is_special_outpoint(satpoint.outpoint))"
        else
          let e := (ctx.nullEntry.getD UtxoEntry.empty)
          .ok { st := st, ctx := { ctx with nullEntry := some (pushIns e seq newSatpoint.offset) }, outs := ls.outs }

/-- the `for (vout, txout)` loop that assigns sorted flotsam to outputs; returns the new
locations and the flotsam that fell off the end -/
def assignOutputs (txid : Txid) : List TxOut → Nat → Nat → List Flotsam →
    List (SatPoint × Flotsam × Bool) → List (SatPoint × Flotsam × Bool) × List Flotsam × Nat
  | [], _, outputValue, fls, acc => (acc, fls, outputValue)
  | o :: os, vout, outputValue, fls, acc =>
    let endV := outputValue + o.value
    let here := fls.takeWhile (fun f => f.offset < endV)
    let rest := fls.dropWhile (fun f => f.offset < endV)
    let acc' := acc ++ here.map (fun f => (⟨⟨txid, vout⟩, f.offset - outputValue⟩, f, o.opReturn))
    assignOutputs txid os (vout + 1) endV rest acc'

def applyLocations (cfg : Cfg) (height time : Nat) (inputRanges : Option (List (Nat × Nat))) :
    List (SatPoint × Flotsam × Bool) → LocState → Outcome LocState
  | [], ls => .ok ls
  | (sp, fl, opr) :: rest, ls =>
    match updateInscriptionLocation cfg height time inputRanges fl sp opr (.output sp.outpoint.vout) ls with
    | .panic s => .panic s
    | .err e => .err e
    | .ok ls' => applyLocations cfg height time inputRanges rest ls'

def applyLost (cfg : Cfg) (height time : Nat) (inputRanges : Option (List (Nat × Nat)))
    (outputValue : Nat) : List Flotsam → LocState → Outcome LocState
  | [], ls => .ok ls
  | fl :: rest, ls =>
    let sp : SatPoint := ⟨OutPoint.null, ls.ctx.lostSats + fl.offset - outputValue⟩
    match updateInscriptionLocation cfg height time inputRanges fl sp false .null ls with
    | .panic s => .panic s
    | .err e => .err e
    | .ok ls' => applyLost cfg height time inputRanges outputValue rest ls'

def isNew (f : Flotsam) : Bool := match f.origin with | .new .. => true | .old .. => false

/-- `index_inscriptions` for one transaction.  `inputs` pairs every input with the UTXO entry
it spends (a dummy for a null previous output); `outs` are the output entries being built. -/
def indexInscriptions (cfg : Cfg) (height time : Nat) (tx : Tx) (inputs : List (TxIn × UtxoEntry))
    (inputRanges : Option (List (Nat × Nat))) (ls : LocState) : Outcome LocState :=
  let jubilant := height ≥ cfg.jubileeHeight
  let totalOut := tx.outputs.foldl (fun a o => a + o.value) 0
  match scanInputs cfg ls.st jubilant tx.txid height totalOut inputs 0 { envelopes := tx.envelopes } with
  | .panic s => .panic s
  | .err e => .err e
  | .ok sc =>
    let hasNew := !tx.envelopes.isEmpty
    let st1 := if cfg.indexTransactions && hasNew then
        { ls.st with txid2tx := AL.set ls.st.txid2tx tx.txid tx.size } else ls.st
    let potential := sc.floating.map (·.id)
    -- parents.retain(|p| seen.insert(p) && potential_parents.contains(p))
    let dedup (ps : List InscriptionId) : List InscriptionId :=
      (ps.foldl (fun (acc : List InscriptionId × List InscriptionId) p =>
        if acc.2.contains p then acc
        else (if potential.contains p then acc.1 ++ [p] else acc.1, acc.2 ++ [p])) ([], [])).1
    let anyNew := sc.floating.any isNew
    if anyNew ∧ sc.totalInputValue < totalOut then .panic "total_input_value - total_output_value"
    else if anyNew ∧ sc.idCounter = 0 then .panic "division by zero"
    else
    let fee := if sc.idCounter = 0 then 0 else (sc.totalInputValue - totalOut) / sc.idCounter
    let floating := sc.floating.map (fun f => match f.origin with
      | .new c _ g h ps r u v => { f with origin := .new c fee g h (dedup ps) r u v }
      | .old .. => f)
    let isCoinbase := match tx.inputs with | i :: _ => i.prev.isNull | [] => false
    let floating := if isCoinbase then floating ++ ls.ctx.flotsam else floating
    let ctx1 := if isCoinbase then { ls.ctx with flotsam := [] } else ls.ctx
    let sorted := sortByKey (·.offset) floating
    let (locs, rest, outputValue) := assignOutputs tx.txid tx.outputs 0 0 sorted []
    match applyLocations cfg height time inputRanges locs { st := st1, ctx := ctx1, outs := ls.outs } with
    | .panic s => .panic s
    | .err e => .err e
    | .ok ls2 =>
      if isCoinbase then
        match applyLost cfg height time inputRanges outputValue rest ls2 with
        | .panic s => .panic s
        | .err e => .err e
        | .ok ls3 =>
          if ls3.ctx.reward < outputValue then .panic "self.reward - output_value"
          else .ok { ls3 with ctx := { ls3.ctx with lostSats := ls3.ctx.lostSats + (ls3.ctx.reward - outputValue) } }
      else
        if sc.totalInputValue < outputValue then .panic "total_input_value - output_value"
        else
        let carried := rest.map (fun f => { f with offset := ls2.ctx.reward + f.offset - outputValue })
        .ok { ls2 with ctx := { ls2.ctx with flotsam := ls2.ctx.flotsam ++ carried,
                                             reward := ls2.ctx.reward + (sc.totalInputValue - outputValue) } }

end Ord.Index
