import OrdModel.Index.Block
/-
Canonical text rendering of the model state, matching `Index::verif_dump` in
/repo/src/index/verif.rs row for row.  Rows of a section are sorted as strings on both sides.
-/
namespace Ord.Index

def hexDigitChar (n : Nat) : Char :=
  if n < 10 then Char.ofNat (48 + n) else Char.ofNat (87 + n)

def hexNatAux : Nat → Nat → List Char → List Char
  | 0, _, acc => acc
  | w + 1, n, acc => hexNatAux w (n / 16) (hexDigitChar (n % 16) :: acc)

def txidHex (t : Txid) : String := String.ofList (hexNatAux 64 t [])

def bytesHex (bs : List UInt8) : String :=
  if bs.isEmpty then "-" else
  String.ofList (bs.foldr (fun b acc => hexDigitChar (b.toNat / 16) :: hexDigitChar (b.toNat % 16) :: acc) [])

def OutPoint.render (o : OutPoint) : String := s!"{txidHex o.txid}:{o.vout}"
def SatPoint.render (s : SatPoint) : String := s!"{s.outpoint.render}:{s.offset}"
def InscriptionId.render (i : InscriptionId) : String := s!"{txidHex i.txid}i{i.index}"
def RuneId.render (r : RuneId) : String := s!"{r.block}:{r.tx}"

def joinOr (l : List String) (sep : String) : String := if l.isEmpty then "-" else sep.intercalate l
def optNat : Option Nat → String | some n => toString n | none => "-"

def sortStrings (l : List String) : List String := l.mergeSort (fun a b => a ≤ b)
def sortNats (l : List Nat) : List Nat := l.mergeSort (fun a b => a ≤ b)

/-- group a pair-set multimap by key, values sorted -/
def groupPairs (l : List (Nat × Nat)) : List (Nat × List Nat) :=
  let keys := (l.map (·.1)).eraseDups
  keys.map (fun k => (k, sortNats ((l.filter (·.1 == k)).map (·.2))))

def renderUtxo (cfg : Cfg) (op : OutPoint) (e : UtxoEntry) : String :=
  let base := s!"utxo {op.render} value={e.totalValue cfg}"
  let r := if cfg.indexSats then s!" ranges={joinOr (e.ranges.map (fun (a, b) => s!"{a}-{b}")) ","}" else ""
  let s := if cfg.indexAddresses then s!" script={bytesHex e.script}" else ""
  let i := if cfg.indexInscriptions then s!" ins={joinOr (e.ins.map (fun (a, b) => s!"{a}@{b}")) ","}" else ""
  base ++ r ++ s ++ i

def renderEntry (e : InsEntry) : String :=
  s!"entry {e.seq} id={e.id.render} number={e.number} charms={e.charms} fee={e.fee} height={e.height} hidden={e.hidden} parents={joinOr (e.parents.map toString) ","} sat={optNat e.sat} seq={e.seq} timestamp={e.timestamp}"

def renderTerms : Option Terms → String
  | none => "-"
  | some t => s!"amount:{optNat t.amount}/cap:{optNat t.cap}/height:{optNat t.heightStart}:{optNat t.heightEnd}/offset:{optNat t.offsetStart}:{optNat t.offsetEnd}"

def renderRune (id : RuneId) (e : RuneEntry) : String :=
  s!"rune {id.render} block={e.block} burned={e.burned} divisibility={e.divisibility} etching={txidHex e.etching} mints={e.mints} number={e.number} premine={e.premine} rune={e.rune} spacers={e.spacers} symbol={optNat e.symbol} terms={renderTerms e.terms} timestamp={e.timestamp} turbo={e.turbo}"

def sectionRows (cfg : Cfg) (st : State) (name : String) : List String :=
  match name with
  | "chain" => st.headers.map (fun (h, x) => s!"header {h} {txidHex x}")
  | "utxo" => st.utxo.map (fun (op, e) => renderUtxo cfg op e)
  | "sat2satpoint" => st.sat2sp.map (fun (s, sp) => s!"sat2satpoint {s} {sp.render}")
  | "ins" =>
    st.entries.map renderEntry
    ++ st.id2seq.map (fun (i, s) => s!"id2seq {i.render} {s}")
    ++ st.num2seq.map (fun (n, s) => s!"num2seq {n} {s}")
    ++ st.seq2sp.map (fun (s, sp) => s!"seq2satpoint {s} {sp.render}")
    ++ (groupPairs st.sat2seq).map (fun (k, vs) => s!"sat2seq {k} {",".intercalate (vs.map toString)}")
    ++ (groupPairs st.children).map (fun (k, vs) => s!"children {k} {",".intercalate (vs.map toString)}")
    ++ st.coll2latest.map (fun (c, l) => s!"collection2latest {c} {l}")
    ++ (groupPairs st.latest2coll).map (fun (k, vs) => s!"latest2collection {k} {",".intercalate (vs.map toString)}")
    ++ st.gallery.map (fun g => s!"gallery {g}")
    ++ st.home.map (fun (s, i) => s!"home {s} {i.render}")
    ++ st.height2lastseq.map (fun (h, s) => s!"height2lastseq {h} {s}")
  | "addr" =>
    let keys := (st.script2out.map (·.1)).eraseDups
    keys.map (fun k => s!"script2outpoints {bytesHex k} {",".intercalate (sortStrings ((st.script2out.filter (·.1 == k)).map (·.2.render)))}")
  | "tx" => st.txid2tx.map (fun (t, n) => s!"txid2tx {txidHex t} {n}")
  | "runes" =>
    st.runeEntries.map (fun (id, e) => renderRune id e)
    ++ st.rune2id.map (fun (r, id) => s!"rune2id {r} {id.render}")
    ++ st.balances.map (fun (op, bs) => s!"balances {op.render} {",".intercalate (bs.map (fun (id, b) => s!"{id.render}={b}"))}")
    ++ st.txid2rune.map (fun (t, r) => s!"txid2rune {txidHex t} {r}")
    ++ st.seq2rune.map (fun (s, id) => s!"seq2runeid {s} {id.render}")
  | "stats" =>
    [s!"statistic LostSats {st.lostSats}", s!"statistic CursedInscriptions {st.cursed}",
     s!"statistic BlessedInscriptions {st.blessed}", s!"statistic UnboundInscriptions {st.unbound}",
     s!"statistic Runes {st.runes}", s!"statistic ReservedRunes {st.reservedRunes}"]
  | _ => ["bad-section"]

def renderSection (cfg : Cfg) (st : State) (name : String) : String :=
  joinOr (sortStrings (sectionRows cfg st name)) "|"

def renderEvent : Event → String
  | .inscriptionCreated h c id loc ps seq =>
    s!"InscriptionCreated h={h} charms={c} id={id.render} loc={match loc with | some l => l.render | none => "-"} parents={joinOr (ps.map (·.render)) ","} seq={seq}"
  | .inscriptionTransferred h id new old seq =>
    s!"InscriptionTransferred h={h} id={id.render} new={new.render} old={old.render} seq={seq}"
  | .runeBurned a h r t => s!"RuneBurned amount={a} h={h} rune={r.render} txid={txidHex t}"
  | .runeEtched h r t => s!"RuneEtched h={h} rune={r.render} txid={txidHex t}"
  | .runeMinted a h r t => s!"RuneMinted amount={a} h={h} rune={r.render} txid={txidHex t}"
  | .runeTransferred a h o r t => s!"RuneTransferred amount={a} h={h} outpoint={o.render} rune={r.render} txid={txidHex t}"

end Ord.Index
